package main

import (
	"verifharness/drv"

	"bytes"
	"encoding/json"
	"errors"
	"fmt"
	"reflect"
	"sort"
	"strings"
	"sync"
	"time"

	"github.com/open2b/scriggo"
	"github.com/open2b/scriggo/ast"
	"github.com/open2b/scriggo/ast/astutil"
	"github.com/open2b/scriggo/native"
)

// C09: a show accepted by the type checker never fails for its static type.
//
// Case {id, ctx, type, val, boxes}: the value registered under `type` (val = "full": non-nil, one
// element; "zero": the zero value of the type) is declared as the global `v`, once with its own
// static type (box "static") and once per other box with an interface static type ("any",
// "Stringer", "error", ...), in the template registered under `ctx`.  For each box the driver calls
// BuildTemplate and, if it built, Run into a bytes.Buffer, and logs the outcome *classes*.
// It judges nothing: the relation between the observations is evaluated by Trace_ShowTable.tla.

// ------------------------------------------------------------------------------------ contexts

type ctxDef struct {
	main  string            // name of the file to build
	files map[string]string // sources
}

func one(name, src string) ctxDef { return ctxDef{name, map[string]string{name: src}} }

var contexts = map[string]ctxDef{
	// the fourteen contexts, in a file of the matching format
	"text":       one("index.txt", "a {{ v }} b"),
	"html":       one("index.html", "<p>{{ v }}</p>"),
	"tag":        one("index.html", "<div {{ v }}>x</div>"),
	"qattr":      one("index.html", `<div title="{{ v }}">x</div>`),
	"uattr":      one("index.html", `<div title={{ v }}>x</div>`),
	"css":        one("index.css", "a{width:{{ v }}}"),
	"cssstr":     one("index.css", `a{content:"{{ v }}"}`),
	"js":         one("index.js", "var x = {{ v }};"),
	"jsstr":      one("index.js", `var x = "{{ v }}";`),
	"json":       one("index.json", `{"a":{{ v }}}`),
	"jsonstr":    one("index.json", `{"a":"{{ v }}"}`),
	"md":         one("index.md", "text {{ v }}\n"),
	"tabcode":    one("index.md", "p\n\n\t{{ v }}\n"),
	"spacescode": one("index.md", "p\n\n    {{ v }}\n"),
	// URL attribute variants
	"urlq":     one("index.html", `<a href="{{ v }}">x</a>`),
	"urlu":     one("index.html", `<a href={{ v }}>x</a>`),
	"urlquery": one("index.html", `<a href="/p?a={{ v }}&b=1">x</a>`),
	"urlset":   one("index.html", `<img srcset="{{ v }} 2x">`),
	"mdurl":    one("index.md", "see http://example.com/{{ v }} now\n"),
	// the same contexts reached inside an HTML / Markdown file
	"html.css":     one("index.html", "<style>a{width:{{ v }}}</style>"),
	"html.cssstr":  one("index.html", `<style>a{content:"{{ v }}"}</style>`),
	"html.js":      one("index.html", "<script>var x = {{ v }};</script>"),
	"html.jsstr":   one("index.html", `<script>var x = '{{ v }}';</script>`),
	"html.json":    one("index.html", `<script type="application/ld+json">{"a":{{ v }}}</script>`),
	"html.jsonstr": one("index.html", `<script type="application/ld+json">{"a":"{{ v }}"}</script>`),
	"md.tag":       one("index.md", "<div {{ v }}>x</div>\n"),
	"md.qattr":     one("index.md", "<div title='{{ v }}'>x</div>\n"),
	"md.js":        one("index.md", "<script>var x = {{ v }};</script>\n"),
	// the show wrapped in other constructs
	"stmt.html":  one("index.html", "<p>{% show v %}</p>"),
	"stmt2.html": one("index.html", "<p>{% show 1, v %}</p>"),
	"if.js":      one("index.js", "var x = {% if true %}{{ v }}{% end %};"),
	"for.text":   one("index.txt", "{% for i := 0; i < 1; i++ %}{{ v }}{% end %}"),
	"macro.html": one("index.html", "{% macro M %}<p>{{ v }}</p>{% end %}{{ M() }}"),
	"macro.json": one("index.json", "{% macro M %}{{ v }}{% end %}{{ M() }}"),
	"macro.css":  one("index.css", "{% macro M %}a{width:{{ v }}}{% end %}{{ M() }}"),
	"import.html": {"index.html", map[string]string{
		"index.html": `{% import "lib.html" %}{{ M() }}`,
		"lib.html":   "{% macro M %}<b title=\"{{ v }}\">x</b>{% end %}"}},
	"import.js": {"index.js", map[string]string{
		"index.js": `{% import "lib.js" %}{{ M() }}`,
		"lib.js":   "{% macro M %}var x = {{ v }};{% end %}"}},
	"extends.md": {"index.md", map[string]string{
		"index.md":  `{% extends "layout.md" %}{% macro Body %}text {{ v }}{% end %}`,
		"layout.md": "# t\n\n{{ Body() }}\n"}},
	"render.text": {"index.txt", map[string]string{
		"index.txt": `{{ render "part.txt" }}`,
		"part.txt":  "a {{ v }} b"}},
}

// ------------------------------------------------------------------------------------ types

type (
	NBool       bool
	NInt        int
	NUint8      uint8
	NUintptr    uintptr
	NFloat64    float64
	NComplex128 complex128
	NString     string
	NBytes      []byte
	NNUintptr   NUintptr
	NNInt       NInt

	StrStringer     string
	IntStringer     int
	UintptrStringer uintptr
	StructStringer  struct{ X int }
	PtrStringer     struct{ x int }
	ChanStringer    chan int
	FuncStringer    func()
	EnvStr          struct{ x int }
	ErrStruct       struct{ x int }
	ErrPtr          struct{ x int }

	HTMLStr    struct{ x int }
	HTMLEnvStr struct{ x int }
	CSSStr     struct{ x int }
	CSSEnvStr  struct{ x int }
	JSStr      struct{ x int }
	JSEnvStr   struct{ x int }
	JSONStr    struct{ x int }
	JSONEnvStr struct{ x int }
	MdStr      struct{ x int }
	MdEnvStr   struct{ x int }

	MapStringerBadKey map[[2]int]int
	NMap              map[string]int

	SOk struct {
		A int
		B string
	}
	SChan      struct{ C chan int }
	SUnexpChan struct {
		A int
		c chan int
	}
	SUintptr struct{ U uintptr }
	SMapU    struct{ M map[uintptr]int }
	Rec      struct {
		N    int
		Next *Rec
	}
)

func (StrStringer) String() string       { return "s" }
func (IntStringer) String() string       { return "s" }
func (UintptrStringer) String() string   { return "s" }
func (StructStringer) String() string    { return "s" }
func (*PtrStringer) String() string      { return "s" }
func (ChanStringer) String() string      { return "s" }
func (FuncStringer) String() string      { return "s" }
func (EnvStr) String(native.Env) string  { return "s" }
func (ErrStruct) Error() string          { return "e" }
func (*ErrPtr) Error() string            { return "e" }
func (MapStringerBadKey) String() string { return "s" }

func (HTMLStr) HTML() native.HTML                    { return "<b>h</b>" }
func (HTMLEnvStr) HTML(native.Env) native.HTML       { return "<b>h</b>" }
func (CSSStr) CSS() native.CSS                       { return "1px" }
func (CSSEnvStr) CSS(native.Env) native.CSS          { return "1px" }
func (JSStr) JS() native.JS                          { return "1" }
func (JSEnvStr) JS(native.Env) native.JS             { return "1" }
func (JSONStr) JSON() native.JSON                    { return "1" }
func (JSONEnvStr) JSON(native.Env) native.JSON       { return "1" }
func (MdStr) Markdown() native.Markdown              { return "*m*" }
func (MdEnvStr) Markdown(native.Env) native.Markdown { return "*m*" }

func ptr[T any](v T) *T { return &v }

var theTime = time.Date(2020, 2, 3, 4, 5, 6, 0, time.UTC)

// registry: type class name -> a "full" value (non-nil, non-empty, one element where it has elements)
var registry = map[string]any{
	"bool": true, "int": int(5), "int8": int8(5), "int16": int16(5), "int32": int32(5), "int64": int64(5),
	"uint": uint(5), "uint8": uint8(5), "uint16": uint16(5), "uint32": uint32(5), "uint64": uint64(5),
	"uintptr": uintptr(5), "float32": float32(1.5), "float64": float64(1.5),
	"complex64": complex64(1 + 2i), "complex128": complex128(1 + 2i), "string": "a",

	"N.bool": NBool(true), "N.int": NInt(5), "N.uint8": NUint8(5), "N.uintptr": NUintptr(5),
	"N.float64": NFloat64(1.5), "N.complex128": NComplex128(1 + 2i), "N.string": NString("a"),
	"NN.uintptr": NNUintptr(5), "NN.int": NNInt(5),

	"[]byte": []byte("ab"), "N.bytes": NBytes("ab"),

	"T.Stringer.string": StrStringer("x"), "T.Stringer.int": IntStringer(1), "T.Stringer.uintptr": UintptrStringer(1),
	"T.Stringer.struct": StructStringer{1}, "T.Stringer.ptr": &PtrStringer{1},
	"T.Stringer.chan": make(ChanStringer), "T.Stringer.func": FuncStringer(func() {}),
	"T.EnvStringer": EnvStr{1}, "T.error.struct": ErrStruct{1}, "T.error.ptr": &ErrPtr{1},
	"*T.Stringer.struct": &StructStringer{1},

	"HTML": native.HTML("<b>h</b>"), "CSS": native.CSS("1px"), "JS": native.JS("1"), "JSON": native.JSON("1"),
	"Markdown":       native.Markdown("*m*"),
	"T.HTMLStringer": HTMLStr{1}, "T.HTMLEnvStringer": HTMLEnvStr{1},
	"T.CSSStringer": CSSStr{1}, "T.CSSEnvStringer": CSSEnvStr{1},
	"T.JSStringer": JSStr{1}, "T.JSEnvStringer": JSEnvStr{1},
	"T.JSONStringer": JSONStr{1}, "T.JSONEnvStringer": JSONEnvStr{1},
	"T.MarkdownStringer": MdStr{1}, "T.MarkdownEnvStringer": MdEnvStr{1},

	"[]int": []int{1}, "[]string": []string{"a"}, "[]chan": []chan int{make(chan int)}, "[]func": []func(){func() {}},
	"[]uintptr": []uintptr{5}, "[]any.int": []any{1}, "[]any.chan": []any{make(chan int)},
	"[2]int": [2]int{1, 2}, "[1]chan": [1]chan int{make(chan int)},
	"[][]int": [][]int{{1}}, "[]*int": []*int{ptr(1)}, "[]T.Stringer.struct": []StructStringer{{1}},
	"map[string]int": map[string]int{"a": 1}, "map[int]string": map[int]string{1: "a"},
	"map[bool]int": map[bool]int{true: 1}, "map[float64]int": map[float64]int{1.5: 1},
	"map[complex128]int": map[complex128]int{1 + 2i: 1}, "map[uintptr]int": map[uintptr]int{5: 1},
	"map[N.uintptr]int":         map[NUintptr]int{5: 1},
	"map[string]chan":           map[string]chan int{"a": make(chan int)},
	"map[[2]int]int":            map[[2]int]int{{1, 2}: 1},
	"map[T.Stringer.struct]int": map[StructStringer]int{{1}: 1},
	"map[T.Stringer.int]int":    map[IntStringer]int{1: 1},
	"M.Stringer.badkey":         MapStringerBadKey{{1, 2}: 1},
	"N.map":                     NMap{"a": 1},
	"map[string]any.int":        map[string]any{"a": 1},
	"map[any.int]int":           map[any]int{1: 1},
	"map[string][]chan":         map[string][]chan int{"a": {make(chan int)}},
	"[]map[uintptr]int":         []map[uintptr]int{{5: 1}},
	"*map[uintptr]int":          ptr(map[uintptr]int{5: 1}),
	"S.ok":                      SOk{1, "b"}, "S.chan": SChan{make(chan int)}, "S.unexpchan": SUnexpChan{1, make(chan int)},
	"S.uintptr": SUintptr{5}, "S.mapuintptr": SMapU{map[uintptr]int{5: 1}},
	"*int": ptr(5), "*S.ok": &SOk{1, "b"}, "*chan": ptr(make(chan int)), "**int": ptr(ptr(5)), "*uintptr": ptr(uintptr(5)),
	"time.Time": theTime, "*time.Time": &theTime,
	"func": func() {}, "chan": make(chan int),
	"Rec": Rec{1, &Rec{2, nil}},
}

var boxTypes = map[string]reflect.Type{
	"any":                 reflect.TypeFor[any](),
	"Stringer":            reflect.TypeFor[fmt.Stringer](),
	"EnvStringer":         reflect.TypeFor[native.EnvStringer](),
	"error":               reflect.TypeFor[error](),
	"HTMLStringer":        reflect.TypeFor[native.HTMLStringer](),
	"HTMLEnvStringer":     reflect.TypeFor[native.HTMLEnvStringer](),
	"CSSStringer":         reflect.TypeFor[native.CSSStringer](),
	"CSSEnvStringer":      reflect.TypeFor[native.CSSEnvStringer](),
	"JSStringer":          reflect.TypeFor[native.JSStringer](),
	"JSEnvStringer":       reflect.TypeFor[native.JSEnvStringer](),
	"JSONStringer":        reflect.TypeFor[native.JSONStringer](),
	"JSONEnvStringer":     reflect.TypeFor[native.JSONEnvStringer](),
	"MarkdownStringer":    reflect.TypeFor[native.MarkdownStringer](),
	"MarkdownEnvStringer": reflect.TypeFor[native.MarkdownEnvStringer](),
}

var implNames = []string{"Stringer", "EnvStringer", "error", "HTMLStringer", "HTMLEnvStringer", "CSSStringer",
	"CSSEnvStringer", "JSStringer", "JSEnvStringer", "JSONStringer", "JSONEnvStringer", "MarkdownStringer",
	"MarkdownEnvStringer"}

// kindName spells reflect kinds as the specification does.
func kindName(k reflect.Kind) string {
	switch k {
	case reflect.Interface:
		return "iface"
	case reflect.Pointer:
		return "ptr"
	case reflect.UnsafePointer:
		return "unsafeptr"
	}
	return k.String()
}

// ------------------------------------------------------------------------------------ one observation

type c09Case struct {
	ID    int      `json:"id"`
	Ctx   string   `json:"ctx"`
	Type  string   `json:"type"`
	Val   string   `json:"val"`
	Boxes []string `json:"boxes"`
}

// buildRun declares v through the pointer p (so that its static type is p's element type), builds
// the template of context c and runs it. It returns outcome classes only.
func buildRun(c ctxDef, p any) (o map[string]any) {
	o = map[string]any{"builds": "ok", "bmsg": "", "runerr": "notrun", "rmsg": "", "astctx": "", "url": false}
	files := scriggo.Files{}
	for n, s := range c.files {
		files[n] = []byte(s)
	}
	var seen []string
	inURL := false
	opts := &scriggo.BuildOptions{
		Globals: native.Declarations{"v": p},
		ExpandedTransformer: func(tree *ast.Tree) error {
			var walk func(n ast.Node, url bool)
			walk = func(root ast.Node, url bool) {
				astutil.Inspect(root, func(n ast.Node) bool {
					switch n := n.(type) {
					case *ast.URL:
						for _, ch := range n.Value {
							walk(ch, true)
						}
						return false
					case *ast.Import:
						if n.Tree != nil {
							walk(n.Tree, url)
						}
					case *ast.Extends:
						if n.Tree != nil {
							walk(n.Tree, url)
						}
					case *ast.Render:
						if n.Tree != nil {
							walk(n.Tree, url)
						}
					case *ast.Show:
						for _, e := range n.Expressions {
							if id, ok := e.(*ast.Identifier); ok && id.Name == "v" {
								seen = append(seen, n.Context.String())
								inURL = inURL || url
							}
						}
					}
					return true
				})
			}
			walk(tree, false)
			return nil
		},
	}
	var t *scriggo.Template
	func() {
		defer func() {
			if r := recover(); r != nil {
				o["builds"], o["bmsg"] = "hostpanic", fmt.Sprint(r)
			}
		}()
		var err error
		t, err = scriggo.BuildTemplate(files, c.main, opts)
		if err != nil {
			var be *scriggo.BuildError
			if errors.As(err, &be) {
				o["builds"] = "builderror"
			} else {
				o["builds"] = "othererr"
			}
			o["bmsg"] = err.Error()
		}
	}()
	o["astctx"] = strings.Join(seen, ",")
	o["url"] = inURL
	if o["builds"] != "ok" {
		return o
	}
	func() {
		defer func() {
			if r := recover(); r != nil {
				o["runerr"], o["rmsg"] = "hostpanic", fmt.Sprint(r)
			}
		}()
		var buf bytes.Buffer
		err := t.Run(&buf, nil, nil)
		var pe *scriggo.PanicError
		switch {
		case err == nil:
			o["runerr"] = "none"
		case errors.As(err, &pe):
			o["runerr"], o["rmsg"] = "panic", err.Error()
		case strings.Contains(err.Error(), "cannot show"):
			// renderer.go reports an unshowable value with a plain error "cannot show value of type T";
			// there is no public type for it, so the class is recognised by these two words.
			o["runerr"], o["rmsg"] = "cannotshow", err.Error()
		default:
			o["runerr"], o["rmsg"] = "othererr", err.Error()
		}
	}()
	return o
}

var ctlCache sync.Map // ctx name -> "ok" | class

// control: the same template with v declared as a string builds and runs. It establishes that a
// failure with another type is due to the type and not to the template of the context.
func control(name string, c ctxDef) string {
	if s, ok := ctlCache.Load(name); ok {
		return s.(string)
	}
	s := "a"
	o := buildRun(c, &s)
	r := "ok"
	if o["builds"] != "ok" {
		r = "build:" + o["builds"].(string)
	} else if o["runerr"] != "none" {
		r = "run:" + o["runerr"].(string)
	}
	ctlCache.Store(name, r)
	return r
}

func each(raw json.RawMessage, seed int64) []any {
	var k c09Case
	drv.Must(json.Unmarshal(raw, &k))
	rec := map[string]any{"id": k.ID, "ctx": k.Ctx, "type": k.Type, "val": k.Val, "known": true,
		"ctl": "", "kind": "", "impl": []string{}, "o": []any{}}
	c, okc := contexts[k.Ctx]
	full, okt := registry[k.Type]
	if !okc || !okt || (k.Val != "full" && k.Val != "zero") {
		rec["known"] = false
		return []any{rec}
	}
	val := reflect.ValueOf(full)
	typ := val.Type()
	if k.Val == "zero" {
		val = reflect.Zero(typ)
	}
	rec["ctl"] = control(k.Ctx, c)
	rec["kind"] = kindName(typ.Kind())
	impl := []string{}
	for _, n := range implNames {
		if typ.Implements(boxTypes[n]) {
			impl = append(impl, n)
		}
	}
	sort.Strings(impl)
	rec["impl"] = impl
	var obs []any
	for _, box := range k.Boxes {
		st := typ
		if box != "static" {
			bt, ok := boxTypes[box]
			if !ok || !typ.Implements(bt) {
				obs = append(obs, map[string]any{"box": box, "builds": "unbindable", "bmsg": "", "runerr": "notrun", "rmsg": "", "astctx": "", "url": false})
				continue
			}
			st = bt
		}
		p := reflect.New(st)
		p.Elem().Set(val)
		o := buildRun(c, p.Interface())
		o["box"] = box
		obs = append(obs, o)
	}
	rec["o"] = obs
	return []any{rec}
}

func main() {
	drv.Main(&drv.Sub{Each: each})
}

package main

import (
	"verifharness/drv"

	"bytes"
	"encoding/json"
	"errors"
	"flag"
	"fmt"
	"io"
	"reflect"
	"strings"

	"github.com/open2b/scriggo"
	"github.com/open2b/scriggo/ast"
	"github.com/open2b/scriggo/ast/astutil"
	"github.com/open2b/scriggo/native"
	"github.com/yuin/goldmark"
	"github.com/yuin/goldmark/renderer/html"
)

// C06: autoescaping confines every shown untrusted value to its syntactic slot.
//
// The driver has two modes and no oracle in either: it concretises a document (a sequence of
// fragments exported by TLC), puts a show statement at a hole, calls the public API and logs.
// A case may carry "fmt": "HTML" (default) | "JS" | "CSS" | "JSON" | "MD": the format of the template file
// (index.html / .js / .css / .json / .md; imported and rendered files have the same extension unless
// the via names another one).
//
//   -mode ctx   case {id, frags}: the document is built with `{{ x }}` appended and
//               BuildOptions.ExpandedTransformer records the Context the real lexer gave to that
//               ast.Show, and whether it sits in an ast.URL node (0 no, 1 URL, 2 srcset).
//               Observation {id, ctx, url}; ctx -1 = the document does not build, -2 = it builds but
//               contains no Show node (the lexer did not lex the hole), -3 = host panic.
//               (-mode ctxall: the same for a hole at every fragment boundary i = 0..n of the
//               document, observation {id, frags, ctx: [...], url: [...]}; -mode ctxat: the same for the
//               hole at boundary "hole" of the case, observation {id, ctx, url}.)
//               Only the show of the hole is read: a document may contain other show statements
//               (`{% show itea; using %}`, `{{ N() }}`), which show something else than x.
//   -mode conf  case {id, frags, hole, via, pt}: the document with a show at boundary `hole` is
//               rendered with every value of the dictionary below (and with the benign value of the
//               same Go type and shape).  via selects how the value reaches the hole: "direct"
//               `{{ x }}`, "macro" `{{ M(x) }}` with M declared at the top of the file, "macroin" M
//               declared at the hole, "import" M imported from another file, "render" / "rendertxt"
//               `{{ render "part.html" }}` / `{{ render "part.txt" }}` whose only content is `{{ x }}`;
//               "macro:R" (R = string, html, css, js, json, markdown) `{{ M(x) }}` with M declared with
//               the result type R (its body is lexed and escaped for R, the call is shown in the
//               context of the hole), "import:E" (E = html, md, js, css, json, txt) M imported from a
//               file with the extension E.
//               "holes" / "after": boundaries of further shows `{{ y }}` of the same document before / after
//               the hole, y a string variable whose value is always the benign "x" (several shows on one
//               renderer; only the show at "hole" receives the dictionary).  "vset": "attr" renders only the part of the dictionary
//               that matters for attribute values, "block" a part that breaks every format of a body (default: all of it).
//               For a Markdown file every output is also converted by goldmark (plain CommonMark, raw HTML
//               kept: html.WithUnsafe) and the conversion is logged as "html": the Trace specification
//               compares the structure of the conversions.
//               Observation {id, frags, hole, via, pt, outs: [{v, c, t, b, oc, out}]}: v value index,
//               c value class, t 1 for the trusted types, b index (1-based, in outs) of the benign
//               partner, oc "ok" | "builderr" | "runerr" | "hostpanic", out the rendered bytes.
//
// The TLA+ Trace specifications tokenise the documents and the rendered outputs and judge.

var mode = flag.String("mode", "ctx", "ctx | ctxall | ctxat | conf")

// ---- the context-breaking dictionary ---------------------------------------------------------------

type strT struct{ s string }

func (s strT) String() string { return s.s }

type pairT struct {
	A string
	B int
}

type entry struct {
	class   string
	val     any
	trusted bool
	benign  int // index of the benign partner; -1: the entry is itself benign
}

var dict []entry

func add(class string, benign any, trusted bool, vals ...any) {
	bi := len(dict)
	dict = append(dict, entry{"benign:" + class, benign, trusted, -1})
	for i := 0; i+1 < len(vals); i += 2 {
		dict = append(dict, entry{vals[i].(string), vals[i+1], trusted, bi})
	}
}

func init() {
	add("string", "x", false,
		"dq", `"`, "sq", `'`, "lt", `<`, "gt", `>`, "amp", `&`, "endscript", `</script>`, "endstyle", `</style>`,
		"endtitle", `</title>`, "endtextarea", `</textarea>`, "endcomment", `-->`, "endcomment2", `--!>`, "endblock", `*/`,
		"bslash", `\`, "bslashend", `a\`, "nl", "a\nb", "cr", "a\rb", "ls", "a\u2028b", "ps", "a\u2029b", "bq", "`",
		"dollarbrace", `${`, "space", `a b`, "eq", `=`, "slash", `/`, "jsurl", `javascript:alert(1)`, "quotent", `&quot;`,
		"aposent", `&#39;`, "nul", "a\x00b", "badutf8", "a\xff\xfeb", "cdataend", `]]>`, "urlopen", `url(`, "empty", ``,
		"rbrack", `]`, "lbrack", `[`, "rparen", `)`, "lparen", `(`, "rbrace", `}`, "lbrace", `{`, "semi", `;`, "colon", `:`,
		"comma", `,`, "qmark", `?`, "hash", `#`, "tab", "a\tb", "ff", "a\fb", "star", `*`, "dash", `-`, "bang", `!`,
		"attrinj", `x onmouseover=alert(1)`, "tagbreak", `"><script>alert(1)</script>`, "jsbreak", `';alert(1)//`,
		"jsbreak2", `";alert(1)//`, "blockbreak", `*/alert(1)/*`, "scriptbreak", `</script><script>alert(1)//`,
		"cssbreak", `red;}*{x:expression(1)`, "tplbreak", "`+alert(1)+`", "rebreak", `/+alert(1)+/`, "selfclose", `/>`,
		"startscript", `<script>`, "startcomment", `<!--`, "word", `alert`,
		// end tags do not need their `>`: a space or `/` after the name is enough
		"endscriptsp", `</script x`, "endscriptslash", `</script/`, "endstylesp", `</style x`, "endtitlesp", `</title x`,
		"endtextareasp", `</textarea x`, "dblescape", `<!--<script `, "endxmpsp", `</xmp x`,
		// Markdown syntax (inline and, after a line ending, block level)
		"mdemph", `*x*`, "mdemph2", `_x_`, "mdstrong", `**x**`, "mdlink", `[a](http://e.example/)`, "mdimg", `![a](b)`,
		"mdcode", "`a`", "mdautolink", `<http://e.example/>`, "mdhtml", `<b>a</b>`, "mdheading", `# a`, "mdlist", `- a`,
		"mdquote", `> a`, "mdhr", `***`, "mdolist", `1. a`, "mdfence", "```", "mdnlemph", "a\n*x*", "mdnlheading", "a\n# b",
		"mdnllist", "a\n- b", "mdnlfence", "a\n```\nb", "mdnlsetext", "a\n===", "mdnlindent", "a\n\n    b", "mdnltag", "a\n<b>c</b>",
		"mdref", `[a]: http://e.example/`, "mdentity", `&ast;x&ast;`, "mdbsl", `\*x\*`)
	add("int", 1, false, "int", 1234567)
	add("negint", -1, false, "negint", -7)
	add("float", 1.5, false, "float", 2.25)
	add("bool", false, false, "bool", true)
	add("stringer", fmt.Stringer(strT{"x"}), false, "stringer:tagbreak", fmt.Stringer(strT{`"><script>alert(1)</script>`}),
		"stringer:space", fmt.Stringer(strT{`a b`}), "stringer:jsbreak", fmt.Stringer(strT{`';alert(1)//`}), "stringer:bslash", fmt.Stringer(strT{`\`}))
	add("error", error(errors.New("x")), false, "error:tagbreak", error(errors.New(`"><script>alert(1)</script>`)),
		"error:jsbreak", error(errors.New(`';alert(1)//`)), "error:space", error(errors.New(`a b`)))
	add("strings", []string{"x", "x"}, false, "strings", []string{`"`, `</script>`}, "strings2", []string{`';alert(1)//`, " "})
	add("ints", []int{1, -1}, false, "ints", []int{123, -45})
	add("mapval", map[string]string{"k": "x"}, false, "mapval", map[string]string{"k": `"</script>`}, "mapval2", map[string]string{"k": `\`})
	add("mapkey", map[string]int{"x": 1}, false, "mapkey", map[string]int{`"'</script>`: 1})
	add("struct", pairT{"x", 1}, false, "struct", pairT{`"'</script>\`, 5})
	// the trusted types: negative control (they may contribute markup or code)
	add("html", native.HTML("x"), true, "html", native.HTML(`<b a="c">t</b><!--`))
	add("js", native.JS("x"), true, "js", native.JS(`alert(1)/*`))
	add("css", native.CSS("x"), true, "css", native.CSS(`red;}</style>`))
	add("json", native.JSON("1"), true, "json", native.JSON(`{"a":[1,"</b>"]}`))
	add("markdown", native.Markdown("x"), true, "markdown", native.Markdown("# t\n<b>"))
}

// typeOf returns the declared type of the global for a dictionary value (interfaces stay interfaces)
func typeOf(v any) reflect.Type {
	switch v.(type) {
	case strT:
		return reflect.TypeOf((*fmt.Stringer)(nil)).Elem()
	case error:
		return reflect.TypeOf((*error)(nil)).Elem()
	}
	return reflect.TypeOf(v)
}

// ---- concretiser ----------------------------------------------------------------------------------

type kase struct {
	ID    int             `json:"id"`
	Fmt   string          `json:"fmt"` // "HTML" (default), "JS", "CSS", "JSON", "MD": the format (extension) of the template file
	Frags [][]int         `json:"frags"`
	Hole  int             `json:"hole"`
	Holes []int           `json:"holes"` // further shows `{{ y }}` (y is always "x") before the hole: their boundaries (<= hole)
	After []int           `json:"after"` // further shows `{{ y }}` after the hole: their boundaries (>= hole)
	Vset  string          `json:"vset"`  // "" = the whole dictionary, "attr" = attrSet, "block" = blockSet
	Via   string          `json:"via"`
	PT    json.RawMessage `json:"pt"`
}

// split returns the text before and after the boundary hole.  The other shows of the case are
// `{{ y }}`: those of k.Holes (boundaries <= hole) come before the hole, those of k.After (boundaries
// >= hole) after it; a boundary may occur several times.
func split(k *kase, hole int) (pre, suf string) {
	var a, b bytes.Buffer
	ys := func(list []int, i int, w *bytes.Buffer) {
		for _, h := range list {
			if h == i {
				w.WriteString("{{ y }}")
			}
		}
	}
	for i := 0; i <= len(k.Frags); i++ {
		if i <= hole {
			ys(k.Holes, i, &a)
		}
		if i >= hole {
			ys(k.After, i, &b)
		}
		if i < len(k.Frags) {
			if i < hole {
				a.Write(drv.BytesOf(k.Frags[i]))
			} else {
				b.Write(drv.BytesOf(k.Frags[i]))
			}
		}
	}
	return a.String(), b.String()
}

// the benign value of the other holes
var yval = "x"

// attrSet: the classes of the dictionary rendered when a case says "vset": "attr"
var attrSet = map[string]bool{}

func init() {
	for _, c := range []string{"benign:string", "dq", "sq", "lt", "gt", "amp", "space", "eq", "slash", "bq", "tab", "nl", "cr", "ff", "empty",
		"qmark", "hash", "comma", "semi", "colon", "bslash", "quotent", "aposent", "nul", "attrinj", "tagbreak", "selfclose", "jsurl", "word",
		"benign:stringer", "stringer:space", "stringer:tagbreak", "benign:error", "error:space", "benign:strings", "strings2",
		"benign:int", "int", "benign:html", "html"} {
		attrSet[c] = true
	}
}

// blockSet: the classes rendered when a case says "vset": "block" (a show in or behind the body of a macro or
// using statement): values that leave the slot when they are escaped for another format than the slot's
var blockSet = map[string]bool{}

func init() {
	for _, c := range []string{"benign:string", "dq", "sq", "lt", "amp", "space", "semi", "bslash", "nl", "endscript", "endstyle", "tagbreak",
		"jsbreak", "jsbreak2", "cssbreak", "word", "mdemph", "mdhtml", "mdnlheading", "benign:int", "int", "benign:strings", "strings", "strings2",
		"benign:mapval", "mapval", "benign:html", "html", "benign:js", "js"} {
		blockSet[c] = true
	}
}

// inVset reports whether the value class is rendered for the value set of a case
func inVset(vset, class string) bool {
	switch vset {
	case "attr":
		return attrSet[class]
	case "block":
		return blockSet[class]
	}
	return true
}

// goldmark as a plain CommonMark converter that keeps raw HTML
var md = goldmark.New(goldmark.WithRendererOptions(html.WithUnsafe()))

func convert(src []byte, out io.Writer) error { return md.Convert(src, out) }

func ext(format string) string {
	switch format {
	case "JS":
		return ".js"
	case "CSS":
		return ".css"
	case "JSON":
		return ".json"
	case "MD":
		return ".md"
	}
	return ".html"
}

// files returns the template files and the name of the main file
func files(format, pre, suf, via string) (scriggo.Files, string, bool) {
	fs := scriggo.Files{}
	e := ext(format)
	main := "index" + e
	switch via {
	case "direct", "":
		fs[main] = []byte(pre + "{{ x }}" + suf)
	case "macro":
		fs[main] = []byte("{% macro M(v T) %}{{ v }}{% end macro %}" + pre + "{{ M(x) }}" + suf)
	case "macroin":
		fs[main] = []byte(pre + "{% macro M(v T) %}{{ v }}{% end macro %}{{ M(x) }}" + suf)
	case "import":
		fs["imp"+e] = []byte("{% macro M(v T) %}{{ v }}{% end macro %}")
		fs[main] = []byte(`{% import "imp` + e + `" %}` + pre + "{{ M(x) }}" + suf)
	case "render":
		fs["part"+e] = []byte("{{ x }}")
		fs[main] = []byte(pre + `{{ render "part` + e + `" }}` + suf)
	case "rendertxt":
		fs["part.txt"] = []byte("{{ x }}")
		fs[main] = []byte(pre + `{{ render "part.txt" }}` + suf)
	default:
		if r, ok := strings.CutPrefix(via, "macro:"); ok {
			// a macro with an explicit result type: its body is a template of that format
			fs[main] = []byte("{% macro M(v T) " + r + " %}{{ v }}{% end macro %}" + pre + "{{ M(x) }}" + suf)
		} else if x, ok := strings.CutPrefix(via, "import:"); ok {
			// a macro imported from a file of another format
			fs["imp."+x] = []byte("{% macro M(v T) %}{{ v }}{% end macro %}")
			fs[main] = []byte(`{% import "imp.` + x + `" %}` + pre + "{{ M(x) }}" + suf)
		} else {
			return nil, "", false
		}
	}
	return fs, main, true
}

// ---- mode ctx -------------------------------------------------------------------------------------

type showVisitor struct {
	ctx, url []int
	inURL    int
}

func (v *showVisitor) Visit(n ast.Node) astutil.Visitor {
	switch n := n.(type) {
	case *ast.URL:
		w := &showVisitor{inURL: 1}
		if n.Attribute == "srcset" {
			w.inURL = 2
		}
		for _, c := range n.Value {
			astutil.Walk(w, c)
		}
		v.ctx = append(v.ctx, w.ctx...)
		v.url = append(v.url, w.url...)
		return nil
	case *ast.Show:
		// the show of the hole is `{{ x }}`
		if len(n.Expressions) == 1 {
			if id, ok := n.Expressions[0].(*ast.Identifier); ok && id.Name == "x" {
				v.ctx = append(v.ctx, int(n.Context))
				v.url = append(v.url, v.inURL)
			}
		}
	}
	return v
}

func contextAt(k *kase, hole int) (ctx, url int) {
	defer func() {
		if r := recover(); r != nil {
			ctx, url = -3, 0
		}
	}()
	pre, suf := split(k, hole)
	fs, main, _ := files(k.Fmt, pre, suf, "direct")
	x := ""
	v := &showVisitor{}
	_, err := scriggo.BuildTemplate(fs, main, &scriggo.BuildOptions{
		Globals:           native.Declarations{"x": &x, "y": &yval},
		MarkdownConverter: convert,
		ExpandedTransformer: func(tree *ast.Tree) error {
			astutil.Walk(v, tree)
			return nil
		},
	})
	if err != nil {
		return -1, 0
	}
	if len(v.ctx) == 0 {
		return -2, 0
	}
	return v.ctx[0], v.url[0]
}

// ctxEnd: the hole at the end of the document only (mode ctx; one document per node of the prefix tree).
// A template that ends inside a URL attribute value does not build ("unexpected EOF"): the context of
// a hole depends only on the text before it, so the build is retried with a closing `"`, `'` or space
// after the hole, and the closer that was needed is logged.
func ctxEnd(k *kase) []any {
	n := len(k.Frags)
	for _, closer := range []string{"", `"`, `'`, " "} {
		kk := *k
		if closer != "" {
			kk.Frags = append(append([][]int{}, k.Frags...), drv.IntsS(closer))
		}
		c, u := contextAt(&kk, n)
		if c != -1 || closer == " " {
			if c == -1 {
				closer = ""
			}
			return []any{map[string]any{"id": k.ID, "ctx": c, "url": u, "closer": drv.IntsS(closer)}}
		}
	}
	return nil
}

// ctxAt: the hole at boundary k.Hole (mode ctxat)
func ctxAt(k *kase) []any {
	c, u := contextAt(k, k.Hole)
	return []any{map[string]any{"id": k.ID, "ctx": c, "url": u}}
}

func ctxObs(k *kase) []any {
	n := len(k.Frags)
	ctx := make([]int, n+1)
	url := make([]int, n+1)
	for i := 0; i <= n; i++ {
		ctx[i], url[i] = contextAt(k, i)
	}
	return []any{map[string]any{"id": k.ID, "frags": k.Frags, "ctx": ctx, "url": url}}
}

// ---- mode conf ------------------------------------------------------------------------------------

func render(t *scriggo.Template, typ reflect.Type, v any) (out []byte, oc string) {
	defer func() {
		if r := recover(); r != nil {
			out, oc = []byte(fmt.Sprint(r)), "hostpanic"
		}
	}()
	// the global x is declared as (*T)(nil): its value is supplied as a *T (T may be an interface type)
	p := reflect.New(typ)
	p.Elem().Set(reflect.ValueOf(v))
	var buf bytes.Buffer
	if err := t.Run(&buf, map[string]any{"x": p.Interface()}, nil); err != nil {
		return []byte(err.Error()), "runerr"
	}
	return buf.Bytes(), "ok"
}

func build(fs scriggo.Files, main string, typ reflect.Type) (t *scriggo.Template, err error) {
	defer func() {
		if r := recover(); r != nil {
			t, err = nil, fmt.Errorf("hostpanic: %v", r)
		}
	}()
	return scriggo.BuildTemplate(fs, main, &scriggo.BuildOptions{
		Globals:           native.Declarations{"x": reflect.Zero(reflect.PointerTo(typ)).Interface(), "T": typ, "y": &yval},
		MarkdownConverter: convert,
	})
}

func confObs(k *kase) []any {
	pre, suf := split(k, k.Hole)
	fs, main, ok := files(k.Fmt, pre, suf, k.Via)
	if !ok {
		panic("driver: unknown via " + k.Via)
	}
	// the part of the dictionary this case renders; pos = position in outs (1-based) of every entry
	pos := make([]int, len(dict))
	n := 0
	for i, e := range dict {
		if !inVset(k.Vset, e.class) {
			continue
		}
		n++
		pos[i] = n
	}
	outs := make([]any, 0, n)
	built := map[reflect.Type]*scriggo.Template{}
	failed := map[reflect.Type]string{}
	for i, e := range dict {
		if pos[i] == 0 {
			continue
		}
		typ := typeOf(e.val)
		t, have := built[typ]
		if _, bad := failed[typ]; !have && !bad {
			var err error
			t, err = build(fs, main, typ)
			if err != nil {
				if strings.HasPrefix(err.Error(), "hostpanic") {
					failed[typ] = "hostpanic"
				} else {
					failed[typ] = "builderr"
				}
			} else {
				built[typ] = t
			}
		}
		b := pos[i]
		if e.benign >= 0 {
			b = pos[e.benign]
			if b == 0 {
				panic("driver: value set without the benign partner of " + e.class)
			}
		}
		tr := 0
		if e.trusted {
			tr = 1
		}
		rec := map[string]any{"v": i, "c": e.class, "t": tr, "b": b}
		if oc, bad := failed[typ]; bad {
			rec["oc"], rec["out"] = oc, []int{}
		} else {
			out, oc := render(t, typ, e.val)
			rec["oc"] = oc
			if oc == "ok" {
				rec["out"] = drv.Ints(out)
				if k.Fmt == "MD" {
					var h bytes.Buffer
					if err := md.Convert(out, &h); err != nil {
						rec["oc"], rec["msg"] = "converr", err.Error()
					}
					rec["html"] = drv.Ints(h.Bytes())
				}
			} else {
				rec["out"] = []int{}
				rec["msg"] = string(out)
			}
		}
		outs = append(outs, rec)
	}
	pt := k.PT
	if pt == nil {
		pt = json.RawMessage(`{}`)
	}
	holes, after := k.Holes, k.After
	if holes == nil {
		holes = []int{}
	}
	if after == nil {
		after = []int{}
	}
	return []any{map[string]any{"id": k.ID, "fmt": k.Fmt, "frags": k.Frags, "hole": k.Hole, "holes": holes, "after": after, "vset": k.Vset,
		"via": k.Via, "pt": pt, "outs": outs}}
}

func main() {
	drv.Main(&drv.Sub{
		Each: func(raw json.RawMessage, seed int64) []any {
			var k kase
			drv.Must(json.Unmarshal(raw, &k))
			if k.Frags == nil {
				k.Frags = [][]int{}
			}
			if k.Fmt == "" {
				k.Fmt = "HTML"
			}
			switch *mode {
			case "conf":
				return confObs(&k)
			case "ctxall":
				return ctxObs(&k)
			case "ctxat":
				return ctxAt(&k)
			}
			return ctxEnd(&k)
		},
	})
}

// Driver c10: runs ONE compiled artefact many times - concurrently with the gate events of the
// native calls forced into a TLC-exported order, concurrently without constraints, and
// sequentially with different variable values - and logs the pool/gate events (verif hooks),
// what the host function saw, and whether each run's output equals that of a single run of a
// freshly built copy with the same inputs. Built with -race. No oracle.
package main

import (
	"bytes"
	"context"
	"encoding/json"
	"fmt"
	"math/rand"
	"runtime"
	"strings"
	"sync"
	"time"

	"github.com/open2b/scriggo"
	"github.com/open2b/scriggo/native"
	"github.com/open2b/scriggo/verifbridge"
	"verifharness/drv"
)

type c10Case struct {
	ID    int    `json:"id"`
	Runs  int    `json:"runs"`
	Calls int    `json:"calls"`
	Sched []int  `json:"sched"`
	Kind  string `json:"kind"` // "" (sched) | "free" | "hist"
	N     int    `json:"n"`
	Gmp   int    `json:"gmp"`
}

type ctxKey struct{}

type session struct {
	mu      sync.Mutex
	cond    *sync.Cond
	t       int
	events  []map[string]any
	vmRun   map[uintptr]int // vm -> run id
	pending int             // run id to assign to the next unseen vm that emits run-start
	ptrs    map[uintptr]int
	sched   []int
	pos     int
	timeout bool
	gated   bool
	done    map[int]bool // runs whose VM has ended
	goCalls int          // calls started with `go`
	asyncs  int          // host functions of go calls that have run
}

var cur *session
var curMu sync.RWMutex

func hook(vm, env uintptr, ev string, a int, b uintptr) {
	curMu.RLock()
	s := cur
	curMu.RUnlock()
	if s == nil {
		return
	}
	s.mu.Lock()
	defer s.mu.Unlock()
	if ev == "run-start" {
		if s.pending != 0 { // (a VM address may be reused by a later run: always rebind)
			s.vmRun[vm] = s.pending
			s.pending = 0
			s.cond.Broadcast()
		}
		return
	}
	if ev == "run-end" {
		if r, ok := s.vmRun[vm]; ok {
			s.done[r] = true
			s.cond.Broadcast()
		}
		delete(s.vmRun, vm)
		return
	}
	if ev != "native-call" && ev != "args-get" && ev != "args-put" {
		return
	}
	r, ok := s.vmRun[vm]
	if !ok {
		return // a nested VM (function value called back); not part of the modelled protocol
	}
	if s.gated && !s.timeout {
		deadline := time.Now().Add(3 * time.Second)
		for !s.timeout && s.pos < len(s.sched) && s.sched[s.pos] != r {
			if s.sched[s.pos] > 0 && s.done[s.sched[s.pos]] {
				s.pos++ // that run has ended (a `go` call has one gate event less than the schedule planned)
				s.cond.Broadcast()
				continue
			}
			if time.Now().After(deadline) {
				s.timeout = true
				s.cond.Broadcast()
				break
			}
			waitCond(s.cond, 50*time.Millisecond)
		}
		if !s.timeout && s.pos < len(s.sched) {
			s.pos++
			s.cond.Broadcast()
		}
	}
	e := map[string]any{"t": s.t, "ev": "gate", "run": r, "g": ev, "ptr": 0, "go": 0}
	if ev == "native-call" && a == 1 {
		e["go"] = 1
		s.goCalls++
	}
	if ev != "native-call" {
		id, ok := s.ptrs[b]
		if !ok {
			id = len(s.ptrs) + 1
			s.ptrs[b] = id
		}
		e["ptr"] = id
	}
	s.events = append(s.events, e)
}

// waitCond waits on c (whose lock is held) for at most d.
func waitCond(c *sync.Cond, d time.Duration) {
	t := time.AfterFunc(d, c.Broadcast)
	c.Wait()
	t.Stop()
}

// F is the host function of the artefact: it reports the run it executes for (from the run's
// context) and the run its arguments belong to (encoded in the first argument).
func F(env native.Env, x int, tag string) int {
	r, _ := env.Context().Value(ctxKey{}).(int)
	curMu.RLock()
	s := cur
	curMu.RUnlock()
	if s != nil && r > 0 {
		s.mu.Lock()
		async := 0
		if strings.HasPrefix(tag, "go") {
			async = 1
			s.asyncs++
		}
		s.events = append(s.events, map[string]any{"t": s.t, "ev": "host", "run": r, "seen": x / 1000, "async": async})
		s.mu.Unlock()
	}
	runtime.Gosched()
	return x + len(tag)
}

// Input returns the run's input (programs have no Run variables). It takes an argument so that it
// goes through the argument pool like every other call.
func Input(env native.Env, dummy int) int {
	r, _ := env.Context().Value(ctxKey{}).(int)
	curMu.RLock()
	s := cur
	curMu.RUnlock()
	if s != nil && r > 0 {
		s.mu.Lock()
		s.events = append(s.events, map[string]any{"t": s.t, "ev": "host", "run": r, "seen": r, "async": 0})
		s.mu.Unlock()
	}
	if r < 0 {
		r = -r
	}
	return r * 1000
}

var pkgs = native.Packages{"p": native.Package{Name: "p", Declarations: native.Declarations{"F": F, "Input": Input}}}

type artefact struct {
	name string
	run  func(ctx context.Context, x any) (string, string) // output+prints, error text
}

// withGo makes the first native call of the artefact a go statement (its output does not depend on it)
var withGo bool

func tmplSrc(calls int) string {
	var b strings.Builder
	if withGo {
		b.WriteString(`{%% go F(x, "go") %%}`)
		calls--
	}
	for k := 0; k < calls; k++ {
		fmt.Fprintf(&b, "[{{ F(x, %q) }}]", strings.Repeat("a", k+1))
	}
	// a macro used as a function VALUE that reads the run's global (a callable must not outlive its run)
	b.WriteString("{% macro G %}({{ x }}){% end %}{% var fv = G %}{{ fv() }}")
	b.WriteString("{% x = x + 1 %}<{{ x }}>{{ fv() }}")
	return b.String()
}

func progSrc(calls int) string {
	var b strings.Builder
	// note is used as a function VALUE (deferred, assigned) and reads a package-level variable that depends on the
	// run's input: a callable must not outlive its run
	b.WriteString("package main\nimport \"p\"\nvar g = 5\nfunc note() { println(g) }\nfunc main() {\n\tv := p.Input(0)\n\tg += v\n\tdefer note()\n\th := note\n\th()\n")
	if withGo && calls > 1 {
		b.WriteString("\tgo p.F(v, \"go\")\n")
		calls--
	}
	for k := 0; k < calls-1; k++ { // Input is one of the `calls` native calls
		fmt.Fprintf(&b, "\tprintln(p.F(v, %q))\n", strings.Repeat("a", k+1))
	}
	b.WriteString("\tprintln(g)\n}\n")
	return b.String()
}

func buildTemplate(calls int) artefact {
	t, err := scriggo.BuildTemplate(scriggo.Files{"index.txt": []byte(tmplSrc(calls))}, "index.txt",
		&scriggo.BuildOptions{AllowGoStmt: true, Globals: native.Declarations{"F": F, "x": (*int)(nil)}})
	drv.Must(err)
	return artefact{"template", func(ctx context.Context, x any) (string, string) {
		var buf bytes.Buffer
		err := t.Run(&buf, map[string]any{"x": x}, &scriggo.RunOptions{Context: ctx})
		return buf.String(), errText(err)
	}}
}

func buildProgram(calls int) artefact {
	p, err := scriggo.Build(scriggo.Files{"main.go": []byte(progSrc(calls))}, &scriggo.BuildOptions{AllowGoStmt: true, Packages: pkgs})
	drv.Must(err)
	return artefact{"program", func(ctx context.Context, x any) (string, string) {
		var mu sync.Mutex
		var sb strings.Builder
		err := p.Run(&scriggo.RunOptions{Context: ctx, Print: func(v any) { mu.Lock(); fmt.Fprint(&sb, v); mu.Unlock() }})
		return sb.String(), errText(err)
	}}
}

func errText(err error) string {
	if err == nil {
		return ""
	}
	return err.Error()
}

func newSession(t int) *session {
	s := &session{t: t, vmRun: map[uintptr]int{}, ptrs: map[uintptr]int{}, done: map[int]bool{}}
	s.cond = sync.NewCond(&s.mu)
	return s
}

// startRun launches run r of art and waits until its VM has been identified.
func startRun(s *session, art artefact, r int, x any, wg *sync.WaitGroup, res []map[string]any) {
	s.mu.Lock()
	s.pending = r
	s.mu.Unlock()
	wg.Add(1)
	go func() {
		defer wg.Done()
		outcome := "ok"
		var out, e string
		func() {
			defer func() {
				if v := recover(); v != nil {
					outcome = "hostpanic"
					e = fmt.Sprint(v)
				}
			}()
			out, e = art.run(context.WithValue(context.Background(), ctxKey{}, r), x)
		}()
		res[r-1] = map[string]any{"run": r, "out": out, "err": e, "outcome": outcome}
	}()
	s.mu.Lock()
	deadline := time.Now().Add(2 * time.Second)
	for s.pending != 0 && time.Now().Before(deadline) {
		waitCond(s.cond, 20*time.Millisecond)
	}
	s.mu.Unlock()
}

func runBatch(c c10Case, form string, build func(int) artefact) []any {
	kind := c.Kind
	if kind == "" {
		kind = "sched"
	}
	s := newSession(c.ID)
	s.events = append(s.events, map[string]any{"t": c.ID, "ev": "reset", "kind": kind, "runs": c.Runs, "calls": c.Calls, "form": form})
	s.sched = c.Sched
	s.gated = kind == "sched"
	art := build(c.Calls)
	// reference: a single run of a freshly built copy for each input (not traced)
	refs := make([][2]string, c.Runs)
	for r := 1; r <= c.Runs; r++ {
		fresh := build(c.Calls)
		// (negative run id: the host functions do not log reference runs, whose go calls may still be in flight later)
		o, e := fresh.run(context.WithValue(context.Background(), ctxKey{}, -r), r*1000)
		refs[r-1] = [2]string{o, e}
	}
	curMu.Lock()
	cur = s
	curMu.Unlock()
	res := make([]map[string]any, c.Runs)
	var wg sync.WaitGroup
	if kind == "hist" {
		for r := 1; r <= c.Runs; r++ {
			startRun(s, art, r, r*1000, &wg, res)
			wg.Wait()
		}
	} else {
		old := 0
		if c.Gmp > 0 {
			old = runtime.GOMAXPROCS(c.Gmp)
		}
		// in a gated batch no VM may pass a gate before all runs are registered
		if s.gated {
			s.mu.Lock()
			hold := append([]int{-1}, s.sched...)
			s.sched = hold
			s.mu.Unlock()
		}
		for r := 1; r <= c.Runs; r++ {
			startRun(s, art, r, r*1000, &wg, res)
		}
		if s.gated {
			s.mu.Lock()
			s.pos = 1
			s.cond.Broadcast()
			s.mu.Unlock()
		}
		wg.Wait()
		if old > 0 {
			runtime.GOMAXPROCS(old)
		}
	}
	// the host functions of go calls run asynchronously: give them a moment to report
	for k := 0; k < 400; k++ {
		s.mu.Lock()
		pending := s.goCalls - s.asyncs
		s.mu.Unlock()
		if pending <= 0 {
			break
		}
		time.Sleep(250 * time.Microsecond)
	}
	curMu.Lock()
	cur = nil
	curMu.Unlock()
	s.mu.Lock()
	defer s.mu.Unlock()
	for r := 1; r <= c.Runs; r++ {
		x := res[r-1]
		outcome := x["outcome"].(string)
		if s.timeout {
			outcome = "gate-timeout"
		}
		same := x["out"].(string) == refs[r-1][0] && x["err"].(string) == refs[r-1][1]
		s.events = append(s.events, map[string]any{"t": c.ID, "ev": "result", "run": r, "same": same, "outcome": outcome,
			"out": x["out"], "ref": refs[r-1][0], "err": x["err"]})
	}
	out := make([]any, len(s.events))
	for i, e := range s.events {
		out[i] = e
	}
	return out
}

// ptrVar: a pointer variable is shared with the caller across repeated runs, a value is copied.
func ptrVar(id int) []any {
	t, err := scriggo.BuildTemplate(scriggo.Files{"index.txt": []byte(`{% x = x + 10 %}{{ x }}`)}, "index.txt",
		&scriggo.BuildOptions{Globals: native.Declarations{"x": (*int)(nil)}})
	drv.Must(err)
	ok := true
	detail := ""
	v := 1
	for k := 0; k < 3; k++ {
		var buf bytes.Buffer
		if err := t.Run(&buf, map[string]any{"x": &v}, nil); err != nil {
			ok = false
		}
		fresh, _ := scriggo.BuildTemplate(scriggo.Files{"index.txt": []byte(`{% x = x + 10 %}{{ x }}`)}, "index.txt",
			&scriggo.BuildOptions{Globals: native.Declarations{"x": (*int)(nil)}})
		w := v - 10
		var fb bytes.Buffer
		fresh.Run(&fb, map[string]any{"x": &w}, nil)
		if buf.String() != fb.String() || w != v { // same behaviour as a fresh copy given the same input
			ok = false
		}
		detail += buf.String() + " "
	}
	u := 1
	for k := 0; k < 3; k++ {
		var buf bytes.Buffer
		t.Run(&buf, map[string]any{"x": u}, nil)
		var fb bytes.Buffer
		fresh, _ := scriggo.BuildTemplate(scriggo.Files{"index.txt": []byte(`{% x = x + 10 %}{{ x }}`)}, "index.txt",
			&scriggo.BuildOptions{Globals: native.Declarations{"x": (*int)(nil)}})
		fresh.Run(&fb, map[string]any{"x": 1}, nil)
		if u != 1 || buf.String() != fb.String() {
			ok = false
		}
		detail += buf.String() + " "
	}
	return []any{
		map[string]any{"t": id, "ev": "reset", "kind": "ptrvar", "runs": 1, "calls": 0, "form": "template"},
		map[string]any{"t": id, "ev": "ptrvar", "ok": ok, "detail": detail, "final": v},
	}
}

func main() {
	verifbridge.SetRuntimeTracer(hook)
	drv.Main(&drv.Sub{
		Serial: true,
		Each: func(raw json.RawMessage, seed int64) []any {
			var c c10Case
			drv.Must(json.Unmarshal(raw, &c))
			if c.Kind == "ptrvar" {
				return ptrVar(c.ID)
			}
			var out []any
			withGo = c.ID%2 == 0 && c.Calls >= 2
			out = append(out, runBatch(c, "template", buildTemplate)...)
			c2 := c
			c2.ID = c.ID + 5000000
			out = append(out, runBatch(c2, "program", buildProgram)...)
			return out
		},
		Extra: func(seed int64, n int) []json.RawMessage {
			r := rand.New(rand.NewSource(seed))
			var out []json.RawMessage
			for i := 0; i < n; i++ {
				c := c10Case{ID: 1000000 + i, Calls: 1 + r.Intn(3), Sched: []int{}}
				switch i % 3 {
				case 0:
					c.Kind, c.Runs, c.Gmp = "free", 2+r.Intn(31), []int{1, 2, 4, 16}[r.Intn(4)]
				case 1:
					c.Kind, c.Runs = "hist", 2+r.Intn(6)
				case 2:
					c.Kind, c.Runs = "ptrvar", 1
				}
				m, _ := json.Marshal(c)
				out = append(out, m)
			}
			return out
		},
	})
}

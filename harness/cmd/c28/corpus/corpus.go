// Package corpus is the template corpus shared by the C27 and C28 drivers: small template sources
// written so that every node type of package ast is produced by the real parser at least once.
// It contains inputs only (no expected values).
package corpus

// Template is one corpus entry: the files of a template file system and the name of the main file.
type Template struct {
	Name  string
	Main  string
	Files map[string]string
}

func one(name, src string) Template {
	return Template{Name: name, Main: "index.html", Files: map[string]string{"index.html": src}}
}

// Templates is the corpus.
var Templates = []Template{
	one("text", "just text\n"),
	one("show", "{{ a }} and {{ a + 1 }}{% show a, b %}"),
	one("comment", "x {# a comment #} y"),
	one("raw", "{% raw %} {{ not parsed }} {% end raw %}{% raw code %}x{% end raw code %}"),
	one("if", "{% if a %}A{% end %}"),
	one("ifelse", "{% if a > 1 %}A{% else %}B{% end %}"),
	one("ifelseif", "{% if x := f(); x > 1 %}A{% else if x < 0 %}B{% else %}C{% end if %}"),
	one("for", "{% for i := 0; i < 10; i++ %}{{ i }}{% if i == 3 %}{% break %}{% end %}{% if i == 4 %}{% continue %}{% end %}{% end for %}"),
	one("forcond", "{% for a < 10 %}x{% end %}{% for %}{% break %}{% end %}"),
	one("forin", "{% for v in vs %}{{ v }}{% else %}none{% end %}"),
	one("forrange", "{% for i, v := range vs %}{{ i }}{{ v }}{% else %}empty{% end %}{% for range vs %}.{% end %}{% for k = range m %}{% end %}"),
	one("switch", "{% switch x := f(); x %} \n {% case 1, 2 %}one{% fallthrough %}{% case 3 %}three{% default %}other{% end switch %}"),
	one("switchnoexpr", "{% switch %}{% case a > 1 %}big{% case a < 0 %}neg{% end %}"),
	one("typeswitch", "{% switch v := x.(type) %} \n {% case int, string %}{{ v }}{% case nil %}nil{% default %}other{% end %}{% switch y := 1; x.(type) %}{% case []int %}s{% end %}"),
	one("select", "{% select %} \n {% case v := <-ch %}{{ v }}{% case ch2 <- 1 %}sent{% case <-ch3 %}r{% case v, ok = <-ch %}{% default %}none{% end select %}"),
	one("macro", "{% macro M %}body{% end macro %}{% macro N(a int, b, c string, d ...float64) %}{{ a }}{% end %}{{ M() }}{{ N(1, \"x\", \"y\") }}"),
	one("macroresult", "{% macro M(s string) html %}<b>{{ s }}</b>{% end macro %}{% macro Empty() %}{% end %}"),
	one("using", "{% show itea; using %}content{% end using %}{% var v = itea; using markdown %}# t{% end %}{% f(itea()); using macro(a int) string %}{{ a }}{% end using %}"),
	one("usingmore", "{% x = itea; using html %}<i>i</i>{% end %}{% x := itea + itea; using %}y{% end using %}"),
	one("vars", "{% var a int %}{% var b, c = 1, \"s\" %}{% var d []string = nil %}{% var e, f2 float64 %}"),
	one("consts", "{% const a = 1 %}{% const b, c int = 2, 3 %}{%% const ( d = iota; e; f ) %%}"),
	one("assign", "{% a = 1 %}{% a, b = b, a %}{% c := 1 %}{% d, e := f() %}{% a += 1 %}{% a -= 1 %}{% a *= 2 %}{% a /= 2 %}{% a %= 2 %}{% a &= 1 %}{% a |= 1 %}{% a ^= 1 %}{% a &^= 1 %}{% a <<= 1 %}{% a >>= 1 %}{% a++ %}{% a-- %}{% m[\"k\"] = 1 %}{% s.f = 2 %}{% *p = 3 %}{% _ = a %}"),
	one("types", "{% type T int %}{% type A = string %}{% type S struct { a int; b, c string `tag`; T; *U } %}{% type F func(a int, b ...string) (x int, err error) %}{% type G func(int) string %}"),
	one("typeexprs", "{% var a [3]int %}{% var b [...]int %}{% var c []int %}{% var d map[string][]int %}{% var e chan int %}{% var f <-chan int %}{% var g chan<- int %}{% var h *int %}{% var i interface{} %}{% var j func() %}{% var k struct{} %}{% var l pkg.T %}{% var m chan (<-chan int) %}{% var n (int) %}"),
	one("literals", "{{ 1 }}{{ 1.5 }}{{ 2i }}{{ 'c' }}{{ \"s\" }}{{ `raw` }}{{ 0x1F }}{{ 1_000 }}{{ true }}{{ nil }}"),
	one("binary", "{{ a == b }}{{ a != b }}{{ a < b }}{{ a <= b }}{{ a > b }}{{ a >= b }}{{ a && b }}{{ a || b }}{{ a + b }}{{ a - b }}{{ a * b }}{{ a / b }}{{ a % b }}{{ a & b }}{{ a | b }}{{ a ^ b }}{{ a &^ b }}{{ a << b }}{{ a >> b }}{{ a and b }}{{ a or b }}{{ a contains b }}{{ a not contains b }}"),
	one("unary", "{{ -a }}{{ +a }}{{ !a }}{{ ^a }}{{ *p }}{{ &a }}{{ <-c }}{{ not a }}{{ - -a }}{{ !(!a) }}{{ -(a + b) }}{{ not (a and b) }}"),
	one("precedence", "{{ a + b * c }}{{ (a + b) * c }}{{ a - (b - c) }}{{ a - b - c }}{{ a * (b / c) }}{{ a || b && c }}{{ (a || b) && c }}{{ a == b || c < d && e }}{{ a or b and not c }}{{ a contains b and c }}{{ -a * b }}{{ -(a * b) }}{{ a << b + c }}{{ (a << b) + c }}{{ a < b == c }}{{ a == (b < c) }}"),
	one("postfix", "{{ f() }}{{ f(a) }}{{ f(a, b) }}{{ f(a...) }}{{ f(a, b...) }}{{ a[0] }}{{ a[i][j] }}{{ a[1:2] }}{{ a[:2] }}{{ a[1:] }}{{ a[:] }}{{ a[1:2:3] }}{{ a[:2:3] }}{{ a.b }}{{ a.b.c }}{{ a.(int) }}{{ a.(*T) }}{{ a.b(c)[d].e }}{{ f()() }}{{ a.(pkg.T) }}"),
	one("postfixparen", "{{ (a + b)[0] }}{{ (a + b).f }}{{ (*p).f }}{{ (*p)[0] }}{{ (-a).(int) }}{{ (a + b)(c) }}{{ (*p)(c) }}{{ (<-c)(x) }}{{ (&a).b }}{{ (a + b)[1:2] }}{{ (f)(x) }}{{ ((a)) }}{{ (a.b).c }}"),
	one("conversions", "{{ (*T)(x) }}{{ (<-chan int)(x) }}{{ (chan int)(x) }}{{ (func())(x) }}{{ (func() int)(x) }}{{ []byte(s) }}{{ map[string]int(m) }}{{ interface{}(x) }}{{ (chan<- int)(x) }}{{ ([]int)(x) }}{{ string(b) }}"),
	one("composite", "{{ []int{} }}{{ []int{1, 2} }}{{ map[string]int{\"a\": 1, \"b\": 2} }}{{ T{} }}{{ T{a: 1} }}{{ pkg.T{1, 2} }}{{ [...]int{1} }}{{ [2]int{0: 1, 1: 2} }}{{ [][]int{{1}, {2, 3}} }}{{ map[string]T{\"k\": {1}} }}{{ &T{} }}{{ struct{ a int }{1} }}{{ ([]int{1}) }}{{ []int{1}[0] }}"),
	one("funclit", "{% f := func() {} %}{% g := func(a, b int, c ...string) (int, error) { return a + b, nil } %}{{ func() int { return 1 }() }}{% h := func(x int) (r int) { r = x; return } %}"),
	one("default", "{{ a default b }}{{ f() default 1 }}{{ a default b + 1 }}{{ render \"p.html\" default \"x\" }}"),
	{Name: "render", Main: "index.html", Files: map[string]string{"index.html": "{{ render \"part.html\" }}{{ render \"part.html\" default \"d\" }}", "part.html": "part {{ 1 }}"}},
	{Name: "extends", Main: "index.html", Files: map[string]string{"index.html": "{% extends \"layout.html\" %}{% macro Body %}b{% end %}{% var V = 1 %}", "layout.html": "<html>{{ Body() }}</html>"}},
	{Name: "import", Main: "index.html", Files: map[string]string{"index.html": "{% import \"imp.html\" %}{% import p \"imp.html\" %}{% import . \"imp2.html\" %}{% import \"imp.html\" for M, N %}{{ M() }}{{ p.N() }}", "imp.html": "{% macro M %}m{% end %}{% macro N %}n{% end %}{% var X = 1 %}", "imp2.html": "{% macro O %}o{% end %}"}},
	one("url", "<a href=\"{{ u }}\">x</a><img src=\"/p/{{ a }}?q={{ b }}\"><form action=\"{{ c }}#f\">"),
	one("statements", "{%%\n x := 1\n var y = 2\n if x > y { x = y } else if x == 0 { y = 1 } else { x++ }\n for i := 0; i < 3; i++ { continue }\n for _, v := range vs { _ = v; break }\n { z := 3; _ = z }\n show x, y\n%%}"),
	one("stmtflow", "{%%\n f := func(n int) int {\n  defer g()\n  defer func() { recover() }()\n  go g()\n  go h(n, 1)\n L:\n  for i := 0; i < n; i++ {\n   for {\n    if i == 1 { continue L }\n    break L\n   }\n  }\n  if n > 0 { goto End }\n  n++\n End:\n  return n\n }\n _ = f\n%%}"),
	one("stmtswitch", "{%%\n switch x := v.(type) {\n case int, string:\n  _ = x\n case nil:\n default:\n }\n switch a {\n case 1:\n  fallthrough\n case 2:\n  b = 1\n default:\n  b = 2\n }\n switch { case a > 1: b = 3 }\n%%}"),
	one("stmtselect", "{%%\n f := func(ch chan int, out chan<- int) {\n  select {\n  case v := <-ch:\n   out <- v\n  case out <- 1:\n  case <-ch:\n  default:\n  }\n  ch <- 2\n  var w = <-ch\n  _ = w\n }\n _ = f\n%%}"),
	one("stmttypes", "{%%\n type P struct { X, Y int; Name string `json:\"name\"`; *Q; pkg.R }\n type Q = map[string][]P\n type Fn func(a int, b ...string) (n int, err error)\n var p = P{X: 1, Y: 2}\n var q = &P{1, 2, \"n\", nil, pkg.R{}}\n var arr = [3]int{1, 2, 3}\n var ch = make(chan<- (<-chan int), 1)\n var fn Fn\n var e interface{} = p\n _, _, _, _, _, _ = q, arr, ch, fn, e, p.X\n%%}"),
	one("stmtlabels", "{%%\n f := func() {\n Outer:\n  for {\n   switch {\n   case true:\n    break Outer\n   }\n  }\n Empty:\n }\n _ = f\n%%}"),
	one("nested", "{% for i, p := range products %}{% if p.Price > 10 and not p.Hidden %}<li class=\"{{ class default \"item\" }}\">{{ i + 1 }}. {{ p.Name }} {{ p.Tags[0] }} {{ len(p.Tags[1:]) }}</li>{% else if p.Alt.(string) != \"\" %}{{ p.Alt }}{% end %}{% end %}"),
	one("macrocalls", "{% macro Item(name string, n int) %}{{ name }}: {{ n * 2 }}{% end %}{% for k, v := range m %}{{ Item(k, v) }}{% end %}{{ Item(\"x\", f(1, g(2))[0].y) }}"),
	one("mdcontext", "{% var s = []string{\"a\", \"b\"} %}{% x := map[string]interface{}{\"k\": []int{1}} %}{{ x[\"k\"].([]int)[0] }}{{ s[len(s)-1] }}"),
}

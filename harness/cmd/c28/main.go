package main

import (
	"encoding/json"
	"errors"
	"flag"
	"fmt"
	"go/ast"
	"go/parser"
	"go/token"
	"os"
	"path/filepath"
	"reflect"
	"sort"
	"strconv"

	"verifharness/cmd/c28/corpus"
	"verifharness/drv"

	"github.com/open2b/scriggo"
	sast "github.com/open2b/scriggo/ast"
	"github.com/open2b/scriggo/ast/astutil"
)

// C28: cloning a tree gives an independent equal copy; walking visits every node once.
//
// -schema writes the schema of package ast obtained by reflection (node kinds, child fields, scalar
// fields), cross-checked against the struct types declared in <repo>/ast/ast.go.
// Otherwise every case {id, name} names a corpus template: the driver parses it with the real parser,
// and for every node of the tree logs the pointer graph of the subtree, of its clone
// (CloneNode / CloneExpression / CloneTree), the Visit callbacks of Walk and Inspect, and the graph of
// the original again after every mutable field of the clone has been mutated. It judges nothing.

// kinds lists a zero pointer of every struct type of package ast that is a node or part of a node.
var kinds = []any{
	(*sast.ArrayType)(nil), (*sast.Assignment)(nil), (*sast.BasicLiteral)(nil), (*sast.BinaryOperator)(nil),
	(*sast.Block)(nil), (*sast.Break)(nil), (*sast.Call)(nil), (*sast.Case)(nil), (*sast.ChanType)(nil),
	(*sast.Comment)(nil), (*sast.CompositeLiteral)(nil), (*sast.Const)(nil), (*sast.Continue)(nil),
	(*sast.Default)(nil), (*sast.Defer)(nil), (*sast.Extends)(nil), (*sast.Fallthrough)(nil), (*sast.Field)(nil),
	(*sast.For)(nil), (*sast.ForIn)(nil), (*sast.ForRange)(nil), (*sast.Func)(nil), (*sast.FuncType)(nil),
	(*sast.Go)(nil), (*sast.Goto)(nil), (*sast.Identifier)(nil), (*sast.If)(nil), (*sast.Import)(nil),
	(*sast.Index)(nil), (*sast.Interface)(nil), (*sast.KeyValue)(nil), (*sast.Label)(nil), (*sast.MapType)(nil),
	(*sast.Package)(nil), (*sast.Parameter)(nil), (*sast.Placeholder)(nil), (*sast.Raw)(nil), (*sast.Render)(nil),
	(*sast.Return)(nil), (*sast.Select)(nil), (*sast.SelectCase)(nil), (*sast.Selector)(nil), (*sast.Send)(nil),
	(*sast.Show)(nil), (*sast.SliceType)(nil), (*sast.Slicing)(nil), (*sast.Statements)(nil), (*sast.StructType)(nil),
	(*sast.Switch)(nil), (*sast.Text)(nil), (*sast.Tree)(nil), (*sast.TypeAssertion)(nil), (*sast.TypeDeclaration)(nil),
	(*sast.TypeSwitch)(nil), (*sast.UnaryOperator)(nil), (*sast.URL)(nil), (*sast.Using)(nil), (*sast.Var)(nil),
}

// notKinds are the struct types of ast.go that are not nodes or parts of the tree structure.
var notKinds = map[string]bool{"Position": true, "Cut": true, "Upvar": true, "expression": true}

var (
	nodeIface = reflect.TypeOf((*sast.Node)(nil)).Elem()
	exprIface = reflect.TypeOf((*sast.Expression)(nil)).Elem()
	treeType  = reflect.TypeOf((*sast.Tree)(nil))
)

// fieldMode classifies a struct field: "one" (a child), "list" (children), "xref" (the expanded tree
// of another file), "scalar", or "" (not part of the tree: embedded position/expression, fields filled
// by the type checker).
func fieldMode(f reflect.StructField) string {
	if !f.IsExported() || f.Anonymous || f.Name == "IR" || f.Name == "Upvars" || f.Name == "Reflect" {
		return ""
	}
	t := f.Type
	switch t.Kind() {
	case reflect.String, reflect.Bool, reflect.Int, reflect.Int8, reflect.Int16, reflect.Int32, reflect.Int64:
		return "scalar"
	case reflect.Interface:
		return "one"
	case reflect.Ptr:
		if t == treeType {
			return "xref"
		}
		if t.Elem().Kind() == reflect.Struct {
			return "one"
		}
	case reflect.Struct:
		if t.Name() == "Cut" {
			return "scalar"
		}
	case reflect.Slice:
		if t.Elem().Kind() == reflect.Uint8 {
			return "scalar"
		}
		return "list"
	}
	return ""
}

func writeSchema(out, repo string) error {
	var recs []any
	listed := map[string]bool{}
	for _, k := range kinds {
		pt := reflect.TypeOf(k)
		t := pt.Elem()
		listed[t.Name()] = true
		fs, ss := []any{}, []string{}
		for i := 0; i < t.NumField(); i++ {
			switch m := fieldMode(t.Field(i)); m {
			case "one", "list", "xref":
				fs = append(fs, map[string]any{"n": t.Field(i).Name, "m": m})
			case "scalar":
				ss = append(ss, t.Field(i).Name)
			}
		}
		recs = append(recs, map[string]any{"k": t.Name(), "node": pt.Implements(nodeIface), "expr": pt.Implements(exprIface), "f": fs, "s": ss})
	}
	// cross-check with the source: every struct type declared in ast.go is listed (or known not to be a node)
	fset := token.NewFileSet()
	file, err := parser.ParseFile(fset, filepath.Join(repo, "ast", "ast.go"), nil, 0)
	if err != nil {
		return err
	}
	var missing []string
	for _, d := range file.Decls {
		gd, ok := d.(*ast.GenDecl)
		if !ok || gd.Tok != token.TYPE {
			continue
		}
		for _, sp := range gd.Specs {
			ts := sp.(*ast.TypeSpec)
			if _, ok := ts.Type.(*ast.StructType); ok {
				if !listed[ts.Name.Name] && !notKinds[ts.Name.Name] {
					missing = append(missing, ts.Name.Name)
				}
			}
		}
	}
	sort.Strings(missing)
	f, err := os.Create(out)
	if err != nil {
		return err
	}
	defer f.Close()
	enc := json.NewEncoder(f)
	for _, r := range recs {
		if err := enc.Encode(r); err != nil {
			return err
		}
	}
	if len(missing) > 0 {
		return fmt.Errorf("struct types of ast.go missing from the driver's kind list: %v", missing)
	}
	return nil
}

// ---------------------------------------------------------------------------------------------
// pointer graphs

type gfield struct {
	N string `json:"n"`
	M string `json:"m"`
	C []int  `json:"c"`
}

type gnode struct {
	K string     `json:"k"`
	P bool       `json:"p"` // pseudo node: part of the tree structure but not an ast.Node (Field, Parameter, KeyValue)
	V [][]string `json:"v"`
	F []gfield   `json:"f"`
}

// graph is a subtree in pre-order with local numbering (1..n); Pids are the identities of the nodes:
// numbers assigned to pointers by ids, shared by every graph of one observation.
type graph struct {
	Nodes []gnode `json:"nodes"`
	Pids  []int   `json:"pids"`
}

type ids struct {
	m    map[uintptr]int
	vals map[int]reflect.Value // pid -> addressable struct value
}

func (d *ids) of(p uintptr) int {
	if n, ok := d.m[p]; ok {
		return n
	}
	n := len(d.m) + 1
	d.m[p] = n
	return n
}

type builder struct {
	ids   *ids
	g     *graph
	local map[int]int // pid -> local index
}

// add returns the local index of the node held by v (0 for nil).
func (b *builder) add(v reflect.Value) int {
	for v.Kind() == reflect.Interface {
		if v.IsNil() {
			return 0
		}
		v = v.Elem()
	}
	var sv reflect.Value
	switch v.Kind() {
	case reflect.Ptr:
		if v.IsNil() {
			return 0
		}
		sv = v.Elem()
	case reflect.Struct:
		if !v.CanAddr() {
			return 0
		}
		sv = v
	default:
		return 0
	}
	if sv.Kind() != reflect.Struct {
		return 0
	}
	pid := b.ids.of(sv.Addr().Pointer())
	if l, ok := b.local[pid]; ok {
		return l
	}
	b.ids.vals[pid] = sv
	t := sv.Type()
	_, isNode := sv.Addr().Interface().(sast.Node)
	b.g.Nodes = append(b.g.Nodes, gnode{K: t.Name(), P: !isNode, V: [][]string{}, F: []gfield{}})
	b.g.Pids = append(b.g.Pids, pid)
	l := len(b.g.Nodes)
	b.local[pid] = l
	var vs [][]string
	var fs []gfield
	if n, ok := sv.Addr().Interface().(sast.Node); ok {
		if p := posOf(n); p != nil {
			vs = append(vs, []string{"pos", fmt.Sprintf("%d:%d:%d:%d", p.Line, p.Column, p.Start, p.End)})
		} else {
			vs = append(vs, []string{"pos", "nil"})
		}
		if e, ok := n.(sast.Expression); ok {
			vs = append(vs, []string{"parenthesis", strconv.Itoa(parenOf(e))})
		}
	}
	for i := 0; i < t.NumField(); i++ {
		f := t.Field(i)
		fv := sv.Field(i)
		switch m := fieldMode(f); m {
		case "scalar":
			vs = append(vs, []string{f.Name, scalar(fv)})
		case "one", "xref":
			fs = append(fs, gfield{N: f.Name, M: m, C: []int{b.add(fv)}})
		case "list":
			c := []int{}
			for j := 0; j < fv.Len(); j++ {
				c = append(c, b.add(fv.Index(j)))
			}
			fs = append(fs, gfield{N: f.Name, M: m, C: c})
		}
	}
	if vs != nil {
		b.g.Nodes[l-1].V = vs
	}
	if fs != nil {
		b.g.Nodes[l-1].F = fs
	}
	return l
}

func posOf(n sast.Node) (p *sast.Position) {
	defer func() {
		if recover() != nil {
			p = nil
		}
	}()
	return n.Pos()
}

func parenOf(e sast.Expression) (n int) {
	defer func() {
		if recover() != nil {
			n = -1
		}
	}()
	return e.Parenthesis()
}

func scalar(fv reflect.Value) string {
	switch fv.Kind() {
	case reflect.String:
		return fv.String()
	case reflect.Bool:
		return strconv.FormatBool(fv.Bool())
	case reflect.Slice:
		return string(fv.Bytes())
	case reflect.Struct:
		return fmt.Sprint(fv.Interface())
	}
	return strconv.FormatInt(fv.Int(), 10)
}

func graphOf(d *ids, root any) *graph {
	b := &builder{ids: d, g: &graph{Nodes: []gnode{}, Pids: []int{}}, local: map[int]int{}}
	if root != nil {
		b.add(reflect.ValueOf(root))
	}
	return b.g
}

// mutate changes every mutable field of every node of g (a clone): scalars, positions, parenthesis,
// bytes of byte slices; then it clears every element of every child slice.
func mutate(d *ids, g *graph) {
	for _, pid := range g.Pids {
		sv := d.vals[pid]
		t := sv.Type()
		if n, ok := sv.Addr().Interface().(sast.Node); ok {
			if p := posOf(n); p != nil {
				p.Line++
				p.Column++
				p.Start++
				p.End++
			}
			if e, ok := n.(sast.Expression); ok {
				func() {
					defer func() { recover() }()
					e.SetParenthesis(e.Parenthesis() + 1)
				}()
			}
		}
		for i := 0; i < t.NumField(); i++ {
			if fieldMode(t.Field(i)) != "scalar" {
				continue
			}
			fv := sv.Field(i)
			switch fv.Kind() {
			case reflect.String:
				fv.SetString(fv.String() + "~")
			case reflect.Bool:
				fv.SetBool(!fv.Bool())
			case reflect.Slice:
				bs := fv.Bytes()
				for j := range bs {
					bs[j] ^= 0x20
				}
			case reflect.Struct:
				for j := 0; j < fv.NumField(); j++ {
					if fv.Field(j).Kind() == reflect.Int {
						fv.Field(j).SetInt(fv.Field(j).Int() + 1)
					}
				}
			default:
				fv.SetInt(fv.Int() + 1)
			}
		}
	}
	for _, pid := range g.Pids {
		sv := d.vals[pid]
		t := sv.Type()
		for i := 0; i < t.NumField(); i++ {
			if fieldMode(t.Field(i)) != "list" {
				continue
			}
			fv := sv.Field(i)
			for j := 0; j < fv.Len(); j++ {
				fv.Index(j).Set(reflect.Zero(fv.Index(j).Type()))
			}
		}
	}
}

// ---------------------------------------------------------------------------------------------

var errStop = errors.New("tree captured")

func parseExpanded(t corpus.Template) (tree *sast.Tree, err error) {
	defer func() {
		if r := recover(); r != nil {
			tree, err = nil, fmt.Errorf("panic: %v", r)
		}
	}()
	files := scriggo.Files{}
	for n, s := range t.Files {
		files[n] = []byte(s)
	}
	_, err = scriggo.BuildTemplate(files, t.Main, &scriggo.BuildOptions{
		ExpandedTransformer: func(tr *sast.Tree) error { tree = tr; return errStop },
	})
	if tree != nil {
		return tree, nil
	}
	return nil, err
}

type visitor struct {
	local map[uintptr]int
	log   *[]int
}

func logOf(local map[uintptr]int, n sast.Node) int {
	if n == nil {
		return 0
	}
	v := reflect.ValueOf(n)
	if v.Kind() != reflect.Ptr {
		return -2
	}
	if v.IsNil() {
		return -1 // a non-nil interface holding a nil pointer
	}
	if l, ok := local[v.Pointer()]; ok {
		return l
	}
	return -2
}

func (w visitor) Visit(n sast.Node) astutil.Visitor {
	*w.log = append(*w.log, logOf(w.local, n))
	if n == nil {
		return nil
	}
	return w
}

func try(f func()) (outcome string) {
	defer func() {
		if r := recover(); r != nil {
			outcome = "panic"
		}
	}()
	f()
	return "ok"
}

// roots returns every ast.Node of the tree reachable without crossing into another file's tree, in
// pre-order, each with the nodes below it.
type rootInfo struct {
	node   sast.Node
	below  []int // indices in the roots slice of the proper descendants
	inExpr bool  // the nearest ast.Node above is an expression
}

func collectRoots(v reflect.Value, seen map[uintptr]bool, out *[]rootInfo, inExpr bool) []int {
	for v.Kind() == reflect.Interface {
		if v.IsNil() {
			return nil
		}
		v = v.Elem()
	}
	self := -1
	if v.Kind() == reflect.Ptr {
		if v.IsNil() || seen[v.Pointer()] {
			return nil
		}
		seen[v.Pointer()] = true
		if n, ok := v.Interface().(sast.Node); ok && v.Elem().Kind() == reflect.Struct {
			*out = append(*out, rootInfo{node: n, inExpr: inExpr})
			self = len(*out) - 1
			_, inExpr = n.(sast.Expression)
		}
		v = v.Elem()
	}
	var below []int
	switch v.Kind() {
	case reflect.Struct:
		t := v.Type()
		for i := 0; i < t.NumField(); i++ {
			if m := fieldMode(t.Field(i)); m == "one" || m == "list" {
				below = append(below, collectRoots(v.Field(i), seen, out, inExpr)...)
			}
		}
	case reflect.Slice:
		for i := 0; i < v.Len(); i++ {
			e := v.Index(i)
			if e.Kind() == reflect.Struct && e.CanAddr() {
				e = e.Addr()
			}
			below = append(below, collectRoots(e, seen, out, inExpr)...)
		}
	}
	if self >= 0 {
		(*out)[self].below = below
		return append([]int{self}, below...)
	}
	return below
}

func observe(caseID int, name string, tree *sast.Tree) []any {
	var roots []rootInfo
	collectRoots(reflect.ValueOf(tree), map[uintptr]bool{}, &roots, false)
	// which subtrees make CloneNode / Walk panic (to tell a root cause from its ancestors)
	cpanic := make([]bool, len(roots))
	wpanic := make([]bool, len(roots))
	for i, r := range roots {
		cpanic[i] = try(func() { astutil.CloneNode(r.node) }) == "panic"
		var sink []int
		wpanic[i] = try(func() { astutil.Walk(visitor{map[uintptr]int{}, &sink}, r.node) }) == "panic"
	}
	anyBelow := func(flags []bool, below []int) bool {
		for _, j := range below {
			if flags[j] {
				return true
			}
		}
		return false
	}
	var out []any
	for i, r := range roots {
		apis := []string{"CloneNode"}
		if _, ok := r.node.(sast.Expression); ok && !r.inExpr {
			// CloneExpression: once per maximal expression (its sub-expressions are cloned with it, and
			// each of them is also the root of a CloneNode observation, which delegates to CloneExpression)
			apis = append(apis, "CloneExpression")
		}
		if _, ok := r.node.(*sast.Tree); ok {
			apis = append(apis, "CloneTree")
		}
		for _, api := range apis {
			d := &ids{m: map[uintptr]int{}, vals: map[int]reflect.Value{}}
			orig := graphOf(d, r.node)
			o := map[string]any{"id": caseID, "tree": name, "sub": i, "api": api, "kind": orig.Nodes[0].K, "orig": orig,
				"cbelow": anyBelow(cpanic, r.below), "wbelow": anyBelow(wpanic, r.below)}
			// Walk and Inspect (logged once per node, with the CloneNode record)
			wlog, ilog := []int{}, []int{}
			o["walk"], o["inspect"] = "skip", "skip"
			if api == "CloneNode" {
				local := map[uintptr]int{}
				for l, pid := range orig.Pids {
					local[d.vals[pid].Addr().Pointer()] = l + 1
				}
				o["walk"] = try(func() { astutil.Walk(visitor{local, &wlog}, r.node) })
				o["inspect"] = try(func() {
					astutil.Inspect(r.node, func(n sast.Node) bool {
						ilog = append(ilog, logOf(local, n))
						return true
					})
				})
			}
			o["wlog"], o["ilog"] = wlog, ilog
			// clone
			var c sast.Node
			o["clone"] = try(func() {
				switch api {
				case "CloneNode":
					c = astutil.CloneNode(r.node)
				case "CloneExpression":
					c = astutil.CloneExpression(r.node.(sast.Expression))
				case "CloneTree":
					c = astutil.CloneTree(r.node.(*sast.Tree))
				}
			})
			empty := &graph{Nodes: []gnode{}, Pids: []int{}}
			o["copy"], o["after"] = empty, empty
			if o["clone"] == "ok" && c != nil {
				cg := graphOf(d, c)
				o["copy"] = cg
				o["mutate"] = try(func() { mutate(d, cg) })
				o["after"] = graphOf(d, r.node)
			} else {
				o["mutate"] = "skip"
			}
			out = append(out, o)
		}
	}
	return out
}

var (
	flagSchema = flag.Bool("schema", false, "write the reflected schema of package ast to -out and exit")
	flagRepo   = flag.String("repo", "/repo", "repository root (for the cross-check of the schema with ast/ast.go)")
	flagNames  = flag.Bool("names", false, "write one case {id, name} per corpus template to -out and exit")
)

func main() {
	drv.Main(&drv.Sub{
		Serial: true, // trees are mutated in place; keep each template's work on one goroutine
		Whole: func(in, out string, seed int64, args []string) error {
			if *flagSchema {
				return writeSchema(out, *flagRepo)
			}
			if *flagNames {
				f, err := os.Create(out)
				if err != nil {
					return err
				}
				defer f.Close()
				enc := json.NewEncoder(f)
				for i, t := range corpus.Templates {
					if err := enc.Encode(map[string]any{"id": i + 1, "name": t.Name}); err != nil {
						return err
					}
				}
				return nil
			}
			cases, err := drv.ReadLines(in)
			if err != nil {
				return err
			}
			byName := map[string]corpus.Template{}
			for _, t := range corpus.Templates {
				byName[t.Name] = t
			}
			f, err := os.Create(out)
			if err != nil {
				return err
			}
			defer f.Close()
			enc := json.NewEncoder(f)
			enc.SetEscapeHTML(false)
			for _, raw := range cases {
				var k struct {
					ID   int    `json:"id"`
					Name string `json:"name"`
				}
				if err := json.Unmarshal(raw, &k); err != nil {
					return err
				}
				t, ok := byName[k.Name]
				if !ok {
					return fmt.Errorf("unknown corpus template %q", k.Name)
				}
				tree, perr := parseExpanded(t)
				if tree == nil {
					if err := enc.Encode(map[string]any{"id": k.ID, "tree": k.Name, "api": "parse", "error": fmt.Sprint(perr)}); err != nil {
						return err
					}
					continue
				}
				for _, o := range observe(k.ID, k.Name, tree) {
					if err := enc.Encode(o); err != nil {
						return err
					}
				}
			}
			return nil
		},
	})
}

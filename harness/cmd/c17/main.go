package main

import (
	"verifharness/drv"

	"bytes"
	"encoding/json"
	"flag"
	"fmt"
	"strconv"
	"strings"

	"github.com/open2b/scriggo"
	"github.com/open2b/scriggo/native"
)

// C17: globals declared without a value, supplied to Run by value or by pointer.
//
// A case is a sequence of references in EXECUTION order; the driver synthesises the template file
// set that performs them, builds it, runs it twice with the same variables and logs the rendered
// bytes, UsedVars() and the caller-side variables.  It computes no expected value.
//
//	case {id, sup:"value"|"pointer", ext:bool, init:[vX,vY], refs:[{sc,op,var,hoist,v}]}
//	sc:  top | macro | closure | imported | rendered | layout | extending | pkgvar
//	op:  "r" prints [sc:value]; "w" assigns v
//	hoist=1 (macro, closure): the declaration is the first thing of the file body instead of being
//	      just before its use, i.e. the compiler meets that reference first.
//
// ext=false: index.html is the body.  ext=true: index.html extends layout.html, layout.html is the
// body and the "extending" references are macros declared by index.html and called by the layout.
// pkgvar is a silent reference to the variable X of the native package "p" (a different variable
// that has the same name as the global X); it prints nothing.
type c17Ref struct {
	Sc    string `json:"sc"`
	Op    string `json:"op"`
	Var   string `json:"var"`
	Hoist int    `json:"hoist"`
	V     int    `json:"v"`
}

type c17Case struct {
	ID   int      `json:"id"`
	Sup  string   `json:"sup"`
	Ext  bool     `json:"ext"`
	Init []int    `json:"init"`
	Refs []c17Ref `json:"refs"`
}

// -files: also log the synthesised sources (used for samples and replays; too bulky for whole runs)
var flagFiles = flag.Bool("files", false, "log the synthesised template sources")

func access(r c17Ref) string {
	if r.Op == "w" {
		return "{% " + r.Var + " = " + strconv.Itoa(r.V) + " %}"
	}
	return "[" + r.Sc + ":{{ " + r.Var + " }}]"
}

func synth(c *c17Case) scriggo.Files {
	var imports, head, body, imported, extending strings.Builder
	files := scriggo.Files{}
	hasImported, hasPkg := false, false
	for k, r := range c.Refs {
		i := strconv.Itoa(k + 1)
		switch r.Sc {
		case "top", "layout":
			body.WriteString(access(r))
		case "macro":
			decl := "{% macro M" + i + " %}" + access(r) + "{% end %}"
			if r.Hoist == 1 {
				head.WriteString(decl)
			} else {
				body.WriteString(decl)
			}
			body.WriteString("{{ M" + i + "() }}")
		case "closure":
			var decl, use string
			if r.Op == "w" {
				decl = "{% F" + i + " := func() { " + r.Var + " = " + strconv.Itoa(r.V) + " } %}"
				use = "{% F" + i + "() %}"
			} else {
				decl = "{% F" + i + " := func() int { return " + r.Var + " } %}"
				use = "[closure:{{ F" + i + "() }}]"
			}
			if r.Hoist == 1 {
				head.WriteString(decl)
			} else {
				body.WriteString(decl)
			}
			body.WriteString(use)
		case "imported":
			hasImported = true
			imported.WriteString("{% macro I" + i + " %}" + access(r) + "{% end %}")
			body.WriteString("{{ I" + i + "() }}")
		case "rendered":
			files["partial"+i+".html"] = []byte(access(r))
			body.WriteString("{{ render \"partial" + i + ".html\" }}")
		case "extending":
			extending.WriteString("{% macro E" + i + " %}" + access(r) + "{% end %}")
			body.WriteString("{{ E" + i + "() }}")
		case "pkgvar":
			hasPkg = true
			if r.Op == "w" {
				body.WriteString("{% p.X = " + strconv.Itoa(r.V) + " %}")
			} else {
				body.WriteString("{% if p.X == -1 %}{% end %}")
			}
		}
	}
	if hasImported {
		imports.WriteString("{% import \"imported.html\" %}")
		files["imported.html"] = []byte(imported.String())
	}
	if hasPkg {
		imports.WriteString("{% import \"p\" %}")
	}
	main := imports.String() + head.String() + body.String()
	if c.Ext {
		files["index.html"] = []byte("{% extends \"layout.html\" %}" + extending.String())
		files["layout.html"] = []byte(main)
	} else {
		files["index.html"] = []byte(main)
	}
	return files
}

func run(c *c17Case) (rec map[string]any) {
	rec = map[string]any{"id": c.ID, "sup": c.Sup, "ext": c.Ext, "init": c.Init, "refs": c.Refs,
		"out1": []int{}, "out2": []int{}, "used": []string{}, "caller1": []int{}, "caller2": []int{}, "err": ""}
	stage := "build"
	defer func() {
		if r := recover(); r != nil {
			rec["outcome"] = "hostpanic-" + stage
			rec["err"] = fmt.Sprint(r)
		}
	}()
	files := synth(c)
	if *flagFiles {
		src := map[string]string{}
		for n, b := range files {
			src[n] = string(b)
		}
		rec["files"] = src
	}
	px := 77
	opts := &scriggo.BuildOptions{
		Globals:  native.Declarations{"X": (*int)(nil), "Y": (*int)(nil)},
		Packages: native.Packages{"p": native.Package{Name: "p", Declarations: native.Declarations{"X": &px}}},
	}
	t, err := scriggo.BuildTemplate(files, "index.html", opts)
	if err != nil {
		rec["outcome"] = "builderror"
		rec["err"] = err.Error()
		return rec
	}
	used := t.UsedVars()
	if used == nil {
		used = []string{}
	}
	rec["used"] = used
	cx, cy := c.Init[0], c.Init[1]
	var vars map[string]any
	if c.Sup == "pointer" {
		vars = map[string]any{"X": &cx, "Y": &cy}
	} else {
		vars = map[string]any{"X": cx, "Y": cy}
	}
	stage = "run"
	for n := 1; n <= 2; n++ {
		var buf bytes.Buffer
		err = t.Run(&buf, vars, nil)
		rec["out"+strconv.Itoa(n)] = drv.Ints(buf.Bytes())
		rec["caller"+strconv.Itoa(n)] = []int{cx, cy}
		if err != nil {
			rec["outcome"] = "runerror"
			rec["err"] = err.Error()
			return rec
		}
	}
	rec["outcome"] = "ok"
	return rec
}

func main() {
	drv.Main(&drv.Sub{
		Each: func(raw json.RawMessage, seed int64) []any {
			var c c17Case
			drv.Must(json.Unmarshal(raw, &c))
			return []any{run(&c)}
		},
	})
}

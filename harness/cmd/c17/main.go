package main

import (
	"verifharness/drv"

	"bytes"
	"encoding/json"
	"flag"
	"fmt"
	"math/rand"
	"strconv"
	"strings"

	"github.com/open2b/scriggo"
	"github.com/open2b/scriggo/native"
)

// C17: globals declared without a value, supplied to Run by value or by pointer.
//
// A case is a sequence of references in EXECUTION order; the driver synthesises the template file
// set that performs them, builds it, runs it twice with the same variables and logs the rendered
// bytes, UsedVars() and the caller-side variables.  It computes no expected value.
//
//	case {id, typ:"int"|"any", sup:"value"|"pointer", ext:bool, init:[vX,vY], refs:[{sc,op,var,hoist,v,nest,join}]}
//	sc:  top | macro | closure | imported | rendered | layout | extending | pkgvar
//	op:  "r" prints [sc:value]; "d" prints [sc:value] through `X default 7`; "w" assigns v
//	hoist=1 (macro, closure): the declaration is the first thing of the file body instead of being
//	      just before its use, i.e. the compiler meets that reference first.
//	nest: 1 the access is inside a function literal declared where the access would be, 2 inside a macro
//	      declared there (tags [sc-c:..] / [sc-m:..])
//	join=1: the access is appended to the macro / file of the previous reference (same sc), which is
//	      called / rendered once
//
// ext=false: index.html is the body.  ext=true: index.html extends layout.html, layout.html is the
// body and the "extending" references are macros declared by index.html and called by the layout.
// pkgvar is a silent reference to the variable X of the native package "p" (a different variable
// that has the same name as the global X); it prints nothing.
type c17Ref struct {
	Sc    string `json:"sc"`
	Op    string `json:"op"`
	Var   string `json:"var"`
	Hoist int    `json:"hoist"`
	V     int    `json:"v"`
	Nest  int    `json:"nest"`
	Join  int    `json:"join"`
}

type c17Case struct {
	ID   int      `json:"id"`
	Typ  string   `json:"typ"`
	Sup  string   `json:"sup"`
	Ext  bool     `json:"ext"`
	Init []int    `json:"init"`
	Refs []c17Ref `json:"refs"`
}

// -files: also log the synthesised sources (used for samples and replays; too bulky for whole runs)
var flagFiles = flag.Bool("files", false, "log the synthesised template sources")

func tag(r c17Ref) string {
	switch r.Nest {
	case 1:
		return r.Sc + "-c"
	case 2:
		return r.Sc + "-m"
	}
	return r.Sc
}

// direct is the access written in template text.
func direct(r c17Ref) string {
	switch r.Op {
	case "w":
		return "{% " + r.Var + " = " + strconv.Itoa(r.V) + " %}"
	case "d":
		return "[" + tag(r) + ":{{ " + r.Var + " default 7 }}]"
	}
	return "[" + tag(r) + ":{{ " + r.Var + " }}]"
}

// closure returns the declaration of a function literal named name that performs the access (depth-1
// further literals inside it) and the text that calls it.
func closure(c *c17Case, r c17Ref, name string, depth int) (decl, use string) {
	if r.Op == "w" {
		body := r.Var + " = " + strconv.Itoa(r.V)
		if depth == 2 {
			body = "g := func() { " + body + " }; g()"
		}
		return "{% " + name + " := func() { " + body + " } %}", "{% " + name + "() %}"
	}
	body := "return " + r.Var
	if depth == 2 {
		body = "g := func() " + c.Typ + " { " + body + " }; return g()"
	}
	return "{% " + name + " := func() " + c.Typ + " { " + body + " } %}", "[" + tag(r) + ":{{ " + name + "() }}]"
}

// access is the access of reference k (0-based) as written inside its macro / file / body.
func access(c *c17Case, r c17Ref, k int) string {
	i := strconv.Itoa(k + 1)
	switch r.Nest {
	case 1:
		decl, use := closure(c, r, "G"+i, 1)
		return decl + use
	case 2:
		return "{% macro N" + i + " %}" + direct(r) + "{% end %}{{ N" + i + "() }}"
	}
	return direct(r)
}

func synth(c *c17Case) scriggo.Files {
	var imports, head, body, imported, extending strings.Builder
	files := scriggo.Files{}
	hasImported, hasPkg := false, false
	n := len(c.Refs)
	for k := 0; k < n; k++ {
		r := c.Refs[k]
		i := strconv.Itoa(k + 1)
		// the members of the container that starts at k
		content := access(c, r, k)
		last := k
		if r.Sc == "macro" || r.Sc == "imported" || r.Sc == "rendered" || r.Sc == "extending" {
			for last+1 < n && c.Refs[last+1].Join == 1 {
				last++
				content += access(c, c.Refs[last], last)
			}
		}
		switch r.Sc {
		case "top", "layout":
			body.WriteString(content)
		case "macro":
			decl := "{% macro M" + i + " %}" + content + "{% end %}"
			if r.Hoist == 1 {
				head.WriteString(decl)
			} else {
				body.WriteString(decl)
			}
			body.WriteString("{{ M" + i + "() }}")
		case "closure":
			decl, use := closure(c, r, "F"+i, 1+r.Nest)
			if r.Hoist == 1 {
				head.WriteString(decl)
			} else {
				body.WriteString(decl)
			}
			body.WriteString(use)
		case "imported":
			hasImported = true
			imported.WriteString("{% macro I" + i + " %}" + content + "{% end %}")
			body.WriteString("{{ I" + i + "() }}")
		case "rendered":
			files["partial"+i+".html"] = []byte(content)
			body.WriteString("{{ render \"partial" + i + ".html\" }}")
		case "extending":
			extending.WriteString("{% macro E" + i + " %}" + content + "{% end %}")
			body.WriteString("{{ E" + i + "() }}")
		case "pkgvar":
			hasPkg = true
			if r.Op == "w" {
				body.WriteString("{% p.X = " + strconv.Itoa(r.V) + " %}")
			} else {
				body.WriteString("{% if p.X == -1 %}{% end %}")
			}
		}
		k = last
	}
	if hasImported {
		imports.WriteString("{% import \"imported.html\" %}")
		files["imported.html"] = []byte(imported.String())
	}
	if hasPkg {
		imports.WriteString("{% import \"p\" %}")
	}
	main := imports.String() + head.String() + body.String()
	if c.Ext {
		files["index.html"] = []byte("{% extends \"layout.html\" %}" + extending.String())
		files["layout.html"] = []byte(main)
	} else {
		files["index.html"] = []byte(main)
	}
	return files
}

// asInt logs the caller's variable of type any: its int, or -1 when it no longer holds an int.
func asInt(v any) int {
	if i, ok := v.(int); ok {
		return i
	}
	return -1
}

func run(c *c17Case) (rec map[string]any) {
	rec = map[string]any{"id": c.ID, "typ": c.Typ, "sup": c.Sup, "ext": c.Ext, "init": c.Init, "refs": c.Refs,
		"out1": []int{}, "out2": []int{}, "used": []string{}, "caller1": []int{}, "caller2": []int{}, "err": ""}
	stage := "build"
	defer func() {
		if r := recover(); r != nil {
			rec["outcome"] = "hostpanic-" + stage
			rec["err"] = fmt.Sprint(r)
		}
	}()
	files := synth(c)
	if *flagFiles {
		src := map[string]string{}
		for n, b := range files {
			src[n] = string(b)
		}
		rec["files"] = src
	}
	px := 77
	globals := native.Declarations{"X": (*int)(nil), "Y": (*int)(nil)}
	if c.Typ == "any" {
		globals = native.Declarations{"X": (*any)(nil), "Y": (*any)(nil)}
	}
	opts := &scriggo.BuildOptions{
		Globals:  globals,
		Packages: native.Packages{"p": native.Package{Name: "p", Declarations: native.Declarations{"X": &px}}},
	}
	t, err := scriggo.BuildTemplate(files, "index.html", opts)
	if err != nil {
		rec["outcome"] = "builderror"
		rec["err"] = err.Error()
		return rec
	}
	used := t.UsedVars()
	if used == nil {
		used = []string{}
	}
	rec["used"] = used
	cx, cy := c.Init[0], c.Init[1]
	var ax, ay any = c.Init[0], c.Init[1]
	var vars map[string]any
	switch {
	case c.Sup == "pointer" && c.Typ == "any":
		vars = map[string]any{"X": &ax, "Y": &ay}
	case c.Sup == "pointer":
		vars = map[string]any{"X": &cx, "Y": &cy}
	default:
		vars = map[string]any{"X": cx, "Y": cy}
	}
	stage = "run"
	for n := 1; n <= 2; n++ {
		var buf bytes.Buffer
		err = t.Run(&buf, vars, nil)
		rec["out"+strconv.Itoa(n)] = drv.Ints(buf.Bytes())
		if c.Typ == "any" {
			rec["caller"+strconv.Itoa(n)] = []int{asInt(ax), asInt(ay)}
		} else {
			rec["caller"+strconv.Itoa(n)] = []int{cx, cy}
		}
		if err != nil {
			rec["outcome"] = "runerror"
			rec["err"] = err.Error()
			return rec
		}
	}
	rec["outcome"] = "ok"
	return rec
}

// extra returns n seeded random cases (ids from 1000000) over the whole alphabet, longer than the exhaustive
// space: 3 to 5 references to one or two globals.  Every field is echoed in the observation.
func extra(seed int64, n int) []json.RawMessage {
	rnd := rand.New(rand.NewSource(seed))
	var out []json.RawMessage
	for len(out) < n {
		c := c17Case{ID: 1000000 + len(out), Init: []int{5, 6}, Ext: rnd.Intn(2) == 1}
		switch rnd.Intn(3) {
		case 0:
			c.Typ, c.Sup = "int", "value"
		case 1:
			c.Typ, c.Sup = "int", "pointer"
		default:
			c.Typ, c.Sup = "any", "pointer"
		}
		scopes := []string{"top", "macro", "closure", "imported", "rendered", "pkgvar", "macro", "imported"}
		if c.Ext {
			scopes = []string{"layout", "extending", "macro", "closure", "imported", "rendered", "pkgvar", "macro", "extending"}
		}
		ln := 3 + rnd.Intn(3)
		twoVars := rnd.Intn(2) == 1
		for k := 0; k < ln; k++ {
			r := c17Ref{Var: "X", Op: []string{"r", "r", "d", "w", "w"}[rnd.Intn(5)]}
			if twoVars && rnd.Intn(2) == 1 {
				r.Var = "Y"
			}
			if k > 0 && rnd.Intn(3) == 0 {
				p := c.Refs[k-1]
				if p.Sc == "macro" || p.Sc == "imported" || p.Sc == "rendered" || p.Sc == "extending" {
					r.Sc, r.Hoist, r.Join = p.Sc, p.Hoist, 1
				}
			}
			if r.Join == 0 {
				r.Sc = scopes[rnd.Intn(len(scopes))]
				if r.Sc == "macro" || r.Sc == "closure" {
					r.Hoist = rnd.Intn(2)
				}
			}
			switch r.Sc {
			case "macro", "imported", "rendered", "extending":
				r.Nest = rnd.Intn(3)
			case "closure":
				r.Nest = rnd.Intn(2)
			case "pkgvar":
				r.Op, r.Var = "r", "X"
			}
			if r.Op == "d" && (r.Nest == 1 || r.Sc == "closure") {
				r.Op = "r"
			}
			if r.Op == "w" {
				r.V = 10 + k + 1
			}
			c.Refs = append(c.Refs, r)
		}
		m, _ := json.Marshal(c)
		out = append(out, m)
	}
	return out
}

func main() {
	drv.Main(&drv.Sub{
		Each: func(raw json.RawMessage, seed int64) []any {
			var c c17Case
			drv.Must(json.Unmarshal(raw, &c))
			return []any{run(&c)}
		},
		Extra: extra,
	})
}

package main

// C08: values shown as JavaScript or JSON.  A case is {id, desc[, cx]}: the DESCRIPTOR of a Go value
// (spec/valuelit/ValueLit.tla lists the grammar).  The driver builds the value by reflection, declares it
// as the global x with its concrete static type, renders x in four contexts through Template.Run and logs
// the rendered literal.  No expected value is computed here.  With -oracle (used by checks/c08.py ONLY for
// cases the TLA+ judge has already failed) each observation also says whether encoding/json, run on the
// same value, decodes to the same data as the rendered text.

import (
	"bytes"
	"encoding/json"
	"errors"
	"flag"
	"fmt"
	"math/rand"
	"reflect"
	"strconv"
	"strings"
	"time"

	"verifharness/drv"

	"github.com/open2b/scriggo"
	"github.com/open2b/scriggo/native"
)

// ---- registry of struct types (mirrored by the struct menu of spec/valuelit/MC_ValueLit.tla) ----

type S0 struct{}
type S1 struct {
	A int64
	B string `json:"b"`
	c bool
}
type S2 struct {
	A int64          `json:"a,omitempty"`
	B string         `json:",omitempty"`
	C any            `json:"c,omitempty"`
	D *int64         `json:"d,omitempty"`
	E []any          `json:"e,omitempty"`
	F float64        `json:"f,omitempty"`
	G map[string]any `json:"g,omitempty"`
	H bool           `json:"h,omitempty"`
	L []byte         `json:"l,omitempty"`
}
type S3 struct {
	Skip int64 `json:"-"`
	Dash int64 `json:"-,"`
	X    any
	Y    any `json:"a b"`
}
type Inner struct {
	P int64
	Q string `json:"q"`
}
type hidden struct{ R int64 }
type S4 struct {
	Inner
	hidden
	Z int64
}
type S5 struct {
	T time.Time
	N *S1 `json:"n,omitempty"`
	K [2]any
	U uint64 `json:"u"`
}

var registry = map[string]reflect.Type{
	"S0": reflect.TypeOf(S0{}), "S1": reflect.TypeOf(S1{}), "S2": reflect.TypeOf(S2{}), "S3": reflect.TypeOf(S3{}),
	"S4": reflect.TypeOf(S4{}), "S5": reflect.TypeOf(S5{}), "Inner": reflect.TypeOf(Inner{}), "hidden": reflect.TypeOf(hidden{}),
}

var (
	anyType  = reflect.TypeOf((*any)(nil)).Elem()
	timeType = reflect.TypeOf(time.Time{})
	_        = S1{}.c
	_        = S4{}.hidden
)

// ---- descriptors ----

type Field struct {
	Name   []int `json:"name"`
	Hastag int   `json:"hastag"`
	Tag    []int `json:"tag"`
	Exp    int   `json:"exp"`
	Emb    int   `json:"emb"`
	Iface  int   `json:"iface"`
	V      *Desc `json:"v"`
}
type Ent struct {
	Key []int `json:"key"`
	V   *Desc `json:"v"`
}
type Desc struct {
	K      string  `json:"k"`
	B      int     `json:"b"`
	Ty     string  `json:"ty"`
	Txt    []int   `json:"txt"`
	S      []int   `json:"s"`
	Nil    int     `json:"nil"`
	V      *Desc   `json:"v"`
	Typed  int     `json:"typed"`
	Kids   []*Desc `json:"kids"`
	Kk     string  `json:"kk"`
	Ents   []Ent   `json:"ents"`
	Fields []Field `json:"fields"`
	Y      int     `json:"y"`
	Mo     int     `json:"mo"`
	D      int     `json:"d"`
	H      int     `json:"h"`
	Mi     int     `json:"mi"`
	Sec    int     `json:"sec"`
	Ns     int     `json:"ns"`
	Off    int     `json:"off"`
	Utc    int     `json:"utc"`
}

var intTypes = map[string]reflect.Type{
	"int": reflect.TypeOf(int(0)), "int8": reflect.TypeOf(int8(0)), "int16": reflect.TypeOf(int16(0)), "int32": reflect.TypeOf(int32(0)),
	"int64": reflect.TypeOf(int64(0)), "uint": reflect.TypeOf(uint(0)), "uint8": reflect.TypeOf(uint8(0)), "uint16": reflect.TypeOf(uint16(0)),
	"uint32": reflect.TypeOf(uint32(0)), "uint64": reflect.TypeOf(uint64(0)), "uintptr": reflect.TypeOf(uintptr(0)),
}

func str(a []int) string { return string(drv.BytesOf(a)) }

// set stores v (possibly the invalid Value = untyped nil) into dst.
func set(dst, v reflect.Value) error {
	if !v.IsValid() {
		switch dst.Kind() {
		case reflect.Interface, reflect.Pointer, reflect.Slice, reflect.Map:
			return nil // stays the zero value (nil)
		}
		return fmt.Errorf("nil for %s", dst.Type())
	}
	if !v.Type().AssignableTo(dst.Type()) {
		return fmt.Errorf("%s not assignable to %s", v.Type(), dst.Type())
	}
	dst.Set(v)
	return nil
}

// elemOf is the element type of a slice/array descriptor: the hint's, or (typed) the common type of the
// children, else any.
func elemOf(d *Desc, hint reflect.Type, kids []reflect.Value) reflect.Type {
	if hint != nil && (hint.Kind() == reflect.Slice || hint.Kind() == reflect.Array) {
		return hint.Elem()
	}
	if d.Typed == 1 {
		var t reflect.Type
		for _, k := range kids {
			if !k.IsValid() || (t != nil && k.Type() != t) {
				return anyType
			}
			t = k.Type()
		}
		if t == nil {
			return intTypes["int64"]
		}
		return t
	}
	return anyType
}

// build constructs the Go value a descriptor describes.  hint is the static type the context demands
// (a struct field's type) or nil.  The invalid reflect.Value stands for the untyped nil.
func build(d *Desc, hint reflect.Type) (reflect.Value, error) {
	none := reflect.Value{}
	if hint != nil && hint.Kind() == reflect.Interface {
		hint = nil
	}
	switch d.K {
	case "nil":
		return none, nil
	case "bool":
		return reflect.ValueOf(d.B == 1), nil
	case "int":
		t, ok := intTypes[d.Ty]
		if !ok {
			return none, fmt.Errorf("unknown int type %q", d.Ty)
		}
		v := reflect.New(t).Elem()
		if t.Kind() >= reflect.Uint && t.Kind() <= reflect.Uintptr {
			n, err := strconv.ParseUint(str(d.Txt), 10, t.Bits())
			if err != nil {
				return none, err
			}
			v.SetUint(n)
		} else {
			n, err := strconv.ParseInt(str(d.Txt), 10, t.Bits())
			if err != nil {
				return none, err
			}
			v.SetInt(n)
		}
		return v, nil
	case "float":
		bits := 64
		if d.Ty == "float32" {
			bits = 32
		}
		f, err := strconv.ParseFloat(str(d.Txt), bits)
		if err != nil {
			return none, err
		}
		if bits == 32 {
			return reflect.ValueOf(float32(f)), nil
		}
		return reflect.ValueOf(f), nil
	case "str":
		return reflect.ValueOf(str(d.S)), nil
	case "bytes":
		if d.Nil == 1 {
			return reflect.ValueOf([]byte(nil)), nil
		}
		b := make([]byte, len(d.S))
		copy(b, drv.BytesOf(d.S))
		return reflect.ValueOf(b), nil
	case "time":
		loc := time.UTC
		if d.Utc != 1 {
			loc = time.FixedZone("", d.Off*60)
		}
		t := time.Date(d.Y, time.Month(d.Mo), d.D, d.H, d.Mi, d.Sec, d.Ns, loc)
		if t.Year() != d.Y || int(t.Month()) != d.Mo || t.Day() != d.D || t.Hour() != d.H || t.Minute() != d.Mi || t.Second() != d.Sec {
			return none, errors.New("time fields were normalised")
		}
		return reflect.ValueOf(t), nil
	case "ptr":
		if d.Nil == 1 {
			if hint != nil && hint.Kind() == reflect.Pointer {
				return reflect.Zero(hint), nil
			}
			return reflect.ValueOf((*int64)(nil)), nil
		}
		var eh reflect.Type
		if hint != nil && hint.Kind() == reflect.Pointer {
			eh = hint.Elem()
		}
		v, err := build(d.V, eh)
		if err != nil {
			return none, err
		}
		et := anyType
		if eh != nil {
			et = eh
		} else if v.IsValid() {
			et = v.Type()
		}
		p := reflect.New(et)
		return p, set(p.Elem(), v)
	case "slice", "array":
		var eh reflect.Type
		if hint != nil && (hint.Kind() == reflect.Slice || hint.Kind() == reflect.Array) {
			eh = hint.Elem()
		}
		kids := make([]reflect.Value, len(d.Kids))
		for i, k := range d.Kids {
			v, err := build(k, eh)
			if err != nil {
				return none, err
			}
			kids[i] = v
		}
		et := elemOf(d, hint, kids)
		var s reflect.Value
		if d.K == "slice" {
			if et.Kind() == reflect.Uint8 && et == intTypes["uint8"] {
				return none, errors.New("a []uint8 is described by the kind bytes")
			}
			if d.Nil == 1 {
				return reflect.Zero(reflect.SliceOf(et)), nil
			}
			s = reflect.MakeSlice(reflect.SliceOf(et), len(kids), len(kids))
		} else {
			if hint != nil && hint.Kind() == reflect.Array && hint.Len() != len(kids) {
				return none, errors.New("array length")
			}
			s = reflect.New(reflect.ArrayOf(len(kids), et)).Elem()
		}
		for i, v := range kids {
			if err := set(s.Index(i), v); err != nil {
				return none, err
			}
		}
		return s, nil
	case "map":
		var kt reflect.Type
		switch d.Kk {
		case "string":
			kt = reflect.TypeOf("")
		case "int":
			kt = reflect.TypeOf(int(0))
		case "bool":
			kt = reflect.TypeOf(false)
		default:
			return none, fmt.Errorf("unknown key kind %q", d.Kk)
		}
		et := anyType
		if hint != nil && hint.Kind() == reflect.Map {
			if hint.Key() != kt {
				return none, errors.New("map key type")
			}
			et = hint.Elem()
		}
		mt := reflect.MapOf(kt, et)
		if d.Nil == 1 {
			return reflect.Zero(mt), nil
		}
		m := reflect.MakeMapWithSize(mt, len(d.Ents))
		for _, e := range d.Ents {
			k := reflect.New(kt).Elem()
			switch d.Kk {
			case "string":
				k.SetString(str(e.Key))
			case "int":
				n, err := strconv.ParseInt(str(e.Key), 10, 64)
				if err != nil {
					return none, err
				}
				k.SetInt(n)
			case "bool":
				k.SetBool(str(e.Key) == "true")
			}
			v, err := build(e.V, et)
			if err != nil {
				return none, err
			}
			ev := reflect.New(et).Elem()
			if err := set(ev, v); err != nil {
				return none, err
			}
			if m.MapIndex(k).IsValid() {
				return none, errors.New("duplicate map key")
			}
			m.SetMapIndex(k, ev)
		}
		return m, nil
	case "struct":
		t, ok := registry[d.Ty]
		if !ok {
			return none, fmt.Errorf("unknown struct type %q", d.Ty)
		}
		if hint != nil && hint != t {
			return none, fmt.Errorf("struct %s where %s is demanded", t, hint)
		}
		if t.NumField() != len(d.Fields) {
			return none, fmt.Errorf("descriptor of %s has %d fields", d.Ty, len(d.Fields))
		}
		s := reflect.New(t).Elem()
		for i := range d.Fields {
			f, sf := &d.Fields[i], t.Field(i)
			tag, hastag := sf.Tag.Lookup("json")
			// binding check: the descriptor's field metadata is what reflection says about the Go type
			if str(f.Name) != sf.Name || (f.Hastag == 1) != hastag || str(f.Tag) != tag || (f.Exp == 1) != sf.IsExported() ||
				(f.Emb == 1) != sf.Anonymous || (f.Iface == 1) != (sf.Type.Kind() == reflect.Interface) {
				return none, fmt.Errorf("descriptor field %d of %s does not describe %s", i, d.Ty, sf.Name)
			}
			if !sf.IsExported() {
				continue // keeps its zero value (the descriptor says so too)
			}
			v, err := build(f.V, sf.Type)
			if err != nil {
				return none, err
			}
			if err := set(s.Field(i), v); err != nil {
				return none, err
			}
		}
		return s, nil
	}
	return none, fmt.Errorf("unknown descriptor kind %q", d.K)
}

// ---- contexts ----

type context struct{ name, file, pre, post string }

var contexts = []context{
	{"js_script", "index.html", "<script>var v = ", ";</script>"},
	{"js_file", "index.js", "var v = ", ";\n"},
	{"json_file", "index.json", "", ""},
	{"json_script", "index.html", `<script type="application/ld+json">`, "</script>"},
}

var oracle = flag.Bool("oracle", false, "also consult encoding/json (violation path only)")

func render(c context, v reflect.Value) (st, out, errs string) {
	defer func() {
		if r := recover(); r != nil {
			st, out, errs = "hostpanic", "", fmt.Sprint(r)
		}
	}()
	var g any
	if v.IsValid() {
		p := reflect.New(v.Type())
		p.Elem().Set(v)
		g = p.Interface()
	} else {
		var x any
		g = &x
	}
	src := c.pre + "{{ x }}" + c.post
	t, err := scriggo.BuildTemplate(scriggo.Files{c.file: []byte(src)}, c.file, &scriggo.BuildOptions{Globals: native.Declarations{"x": g}})
	if err != nil {
		var be *scriggo.BuildError
		if errors.As(err, &be) {
			return "builderr", "", err.Error()
		}
		return "hostpanic", "", "build: " + err.Error()
	}
	var b bytes.Buffer
	if err := t.Run(&b, nil, nil); err != nil {
		return "runerr", "", err.Error()
	}
	s := b.String()
	if strings.HasPrefix(s, c.pre) && strings.HasSuffix(s, c.post) && len(s) >= len(c.pre)+len(c.post) {
		s = s[len(c.pre) : len(s)-len(c.post)]
	}
	return "ok", s, ""
}

// consult is the oracle guard: does encoding/json, on the same value, give the same data as the rendered text?
func consult(v reflect.Value, st, out string) string {
	var iv any
	if v.IsValid() {
		iv = v.Interface()
	}
	ref, err := json.Marshal(iv)
	if err != nil {
		if st != "ok" {
			return "agree" // both refuse
		}
		return "disagree"
	}
	if st != "ok" {
		return "disagree"
	}
	if !json.Valid([]byte(out)) {
		if strings.Contains(out, "new Date(") {
			return "na" // not JSON by design: encoding/json cannot say anything
		}
		return "disagree"
	}
	var a, b any
	if json.Unmarshal(ref, &a) != nil || json.Unmarshal([]byte(out), &b) != nil {
		return "disagree"
	}
	if reflect.DeepEqual(a, b) {
		return "agree"
	}
	return "disagree"
}

func each(c json.RawMessage, seed int64) []any {
	var k struct {
		ID   int             `json:"id"`
		Desc json.RawMessage `json:"desc"`
		Cx   []string        `json:"cx"`
	}
	drv.Must(json.Unmarshal(c, &k))
	var d Desc
	drv.Must(json.Unmarshal(k.Desc, &d))
	v, err := build(&d, nil)
	var recs []any
	for _, cx := range contexts {
		if len(k.Cx) > 0 {
			keep := false
			for _, n := range k.Cx {
				keep = keep || n == cx.name
			}
			if !keep {
				continue
			}
		}
		rec := map[string]any{"id": k.ID, "ctx": cx.name, "desc": k.Desc}
		if err != nil {
			rec["st"], rec["out"], rec["err"] = "descerror", []int{}, err.Error()
		} else {
			st, out, errs := render(cx, v)
			rec["st"], rec["out"], rec["err"] = st, drv.IntsS(out), errs
			if *oracle {
				rec["oracle"] = consult(v, st, out)
			}
		}
		recs = append(recs, rec)
	}
	return recs
}

// ---- seeded random descriptors (echoed whole in the observations) ----

type gen struct{ r *rand.Rand }

func ints(s string) []int { return drv.IntsS(s) }

var runeMenu = []rune{'a', 'Z', '0', ' ', '"', '\'', '\\', '<', '>', '&', '/', '\n', '\r', '\t', 0, 0x1f, 0x7f, 0xe9, 0x2028, 0x2029, 0xfeff, 0xfffd, 0x1F600, '{', '}', '[', ']', ':', ',', '-', '+', '.', 'e', 'E'}

func (g *gen) text(max int) string {
	var b strings.Builder
	n := g.r.Intn(max + 1)
	for i := 0; i < n; i++ {
		switch g.r.Intn(40) {
		case 0:
			b.WriteString("</script>")
		case 1:
			if g.r.Intn(6) == 0 {
				b.WriteByte(byte(128 + g.r.Intn(128))) // not UTF-8: outside the reference (skipped and counted)
			} else {
				b.WriteString("\u2028")
			}
		default:
			b.WriteRune(runeMenu[g.r.Intn(len(runeMenu))])
		}
	}
	return b.String()
}

func (g *gen) digits(n int) string {
	b := make([]byte, n)
	for i := range b {
		b[i] = byte('0' + g.r.Intn(10))
	}
	if b[0] == '0' {
		b[0] = '1'
	}
	if b[n-1] == '0' {
		b[n-1] = '7'
	}
	return string(b)
}

func (g *gen) intLeaf(ty string) map[string]any {
	t := intTypes[ty]
	bits := t.Bits()
	var txt string
	if t.Kind() >= reflect.Uint && t.Kind() <= reflect.Uintptr {
		var u uint64
		switch g.r.Intn(4) {
		case 0:
			u = 0
		case 1:
			u = ^uint64(0) >> (64 - bits)
		default:
			u = g.r.Uint64() >> (64 - bits) >> g.r.Intn(bits)
		}
		txt = strconv.FormatUint(u, 10)
	} else {
		var n int64
		switch g.r.Intn(5) {
		case 0:
			n = 0
		case 1:
			n = -1 << (bits - 1)
		case 2:
			n = 1<<(bits-1) - 1
		default:
			n = int64(g.r.Uint64()) >> (64 - bits) >> g.r.Intn(bits)
		}
		txt = strconv.FormatInt(n, 10)
	}
	return map[string]any{"k": "int", "ty": ty, "txt": ints(txt)}
}

// floatLeaf: at most 15 (float64) / 6 (float32) significant digits, so the text IS the shortest
// round-trip text of the value it parses to.
func (g *gen) floatLeaf(ty string) map[string]any {
	switch g.r.Intn(14) {
	case 0:
		return map[string]any{"k": "float", "ty": ty, "txt": ints("NaN")}
	case 1:
		return map[string]any{"k": "float", "ty": ty, "txt": ints("+Inf")}
	case 2:
		return map[string]any{"k": "float", "ty": ty, "txt": ints("-Inf")}
	case 3:
		return map[string]any{"k": "float", "ty": ty, "txt": ints("0")}
	}
	maxd, maxe := 15, 290
	if ty == "float32" {
		maxd, maxe = 6, 30
	}
	ds := g.digits(1 + g.r.Intn(maxd))
	e := g.r.Intn(2*maxe+1) - maxe
	if g.r.Intn(2) == 0 {
		e = g.r.Intn(25) - 12
	}
	txt := ds[:1]
	if len(ds) > 1 {
		txt += "." + ds[1:]
	}
	txt += "e" + strconv.Itoa(e)
	if g.r.Intn(2) == 0 {
		txt = "-" + txt
	}
	return map[string]any{"k": "float", "ty": ty, "txt": ints(txt)}
}

func (g *gen) timeLeaf() map[string]any {
	y := 1900 + g.r.Intn(200)
	if g.r.Intn(6) == 0 {
		y = 1 + g.r.Intn(9999)
	}
	mo := 1 + g.r.Intn(12)
	off := (g.r.Intn(105) - 48) * 15
	utc := 0
	switch g.r.Intn(4) {
	case 0:
		off, utc = 0, 1
	case 1:
		off = 0
	}
	ns := []int{0, 0, 1000000 * g.r.Intn(1000), g.r.Intn(1000000000), 999999999, 1}[g.r.Intn(6)]
	return map[string]any{"k": "time", "y": y, "mo": mo, "d": 1 + g.r.Intn(28), "h": g.r.Intn(24), "mi": g.r.Intn(60), "sec": g.r.Intn(60),
		"ns": ns, "off": off, "utc": utc}
}

var intNames = []string{"int", "int8", "int16", "int32", "int64", "uint", "uint8", "uint16", "uint32", "uint64", "uintptr"}
var nilDesc = map[string]any{"k": "nil"}

func (g *gen) leaf() map[string]any {
	switch g.r.Intn(12) {
	case 0:
		return nilDesc
	case 1:
		return map[string]any{"k": "bool", "b": g.r.Intn(2)}
	case 2, 3:
		return g.intLeaf(intNames[g.r.Intn(len(intNames))])
	case 4, 5:
		return g.floatLeaf([]string{"float64", "float64", "float32"}[g.r.Intn(3)])
	case 6, 7:
		return map[string]any{"k": "str", "s": ints(g.text(8))}
	case 8:
		return g.timeLeaf()
	case 9:
		return g.bytesLeaf()
	case 10:
		return map[string]any{"k": "ptr", "nil": 1, "v": nilDesc}
	}
	return map[string]any{"k": "ptr", "nil": 0, "v": g.leaf()}
}

func (g *gen) bytesLeaf() map[string]any {
	if g.r.Intn(4) == 0 {
		return map[string]any{"k": "bytes", "nil": 1, "s": []int{}}
	}
	b := make([]int, g.r.Intn(7))
	for i := range b {
		b[i] = g.r.Intn(256)
	}
	return map[string]any{"k": "bytes", "nil": 0, "s": b}
}

func (g *gen) any(depth int) map[string]any {
	if depth <= 0 || g.r.Intn(3) == 0 {
		return g.leaf()
	}
	n := g.r.Intn(4)
	switch g.r.Intn(8) {
	case 0, 1:
		if g.r.Intn(8) == 0 {
			return map[string]any{"k": "slice", "typed": g.r.Intn(2), "nil": 1, "kids": []any{}}
		}
		kids := make([]any, n)
		typed := g.r.Intn(3) / 2
		var proto map[string]any
		for i := range kids {
			kids[i] = g.any(depth - 1)
			if typed == 1 { // same-typed children: re-draw leaves of one kind
				if proto == nil {
					proto = g.typedLeaf()
				}
				kids[i] = g.like(proto)
			}
		}
		return map[string]any{"k": "slice", "typed": typed, "nil": 0, "kids": kids}
	case 2:
		kids := make([]any, n)
		for i := range kids {
			kids[i] = g.any(depth - 1)
		}
		return map[string]any{"k": "array", "typed": 0, "nil": 0, "kids": kids}
	case 3, 4:
		kk := []string{"string", "string", "int", "bool"}[g.r.Intn(4)]
		if g.r.Intn(8) == 0 {
			return map[string]any{"k": "map", "kk": kk, "nil": 1, "ents": []any{}}
		}
		seen := map[string]bool{}
		var ents []any
		for i := 0; i < n; i++ {
			var key string
			switch kk {
			case "string":
				key = strings.ToValidUTF8(g.text(4), "?")
				if key == "__proto__" {
					key = "p"
				}
			case "int":
				key = strconv.Itoa(g.r.Intn(41) - 20)
			default:
				key = []string{"true", "false"}[g.r.Intn(2)]
			}
			if seen[key] {
				continue
			}
			seen[key] = true
			ents = append(ents, map[string]any{"key": ints(key), "v": g.any(depth - 1)})
		}
		if ents == nil {
			ents = []any{}
		}
		return map[string]any{"k": "map", "kk": kk, "nil": 0, "ents": ents}
	case 5:
		return map[string]any{"k": "ptr", "nil": 0, "v": g.any(depth - 1)}
	}
	names := []string{"S0", "S1", "S2", "S3", "S4", "S5"}
	return g.forType(registry[names[g.r.Intn(len(names))]], depth-1)
}

func (g *gen) typedLeaf() map[string]any {
	switch g.r.Intn(5) {
	case 0:
		return map[string]any{"k": "bool", "b": 0}
	case 1:
		return g.intLeaf([]string{"int", "int64", "uint16", "uint64"}[g.r.Intn(4)])
	case 2:
		return g.floatLeaf("float64")
	case 3:
		return g.timeLeaf()
	}
	return map[string]any{"k": "str", "s": []int{}}
}

func (g *gen) like(p map[string]any) map[string]any {
	switch p["k"] {
	case "bool":
		return map[string]any{"k": "bool", "b": g.r.Intn(2)}
	case "int":
		return g.intLeaf(p["ty"].(string))
	case "float":
		return g.floatLeaf(p["ty"].(string))
	case "time":
		return g.timeLeaf()
	}
	return map[string]any{"k": "str", "s": ints(g.text(6))}
}

// forType draws a descriptor for a static Go type (struct fields).
func (g *gen) forType(t reflect.Type, depth int) map[string]any {
	switch {
	case t == timeType:
		return g.timeLeaf()
	case t.Kind() == reflect.Interface:
		return g.any(depth)
	case t.Kind() == reflect.Bool:
		return map[string]any{"k": "bool", "b": g.r.Intn(2)}
	case t.Kind() == reflect.String:
		return map[string]any{"k": "str", "s": ints(g.text(g.r.Intn(2) * 6))}
	case t.Kind() >= reflect.Int && t.Kind() <= reflect.Uintptr:
		return g.intLeaf(t.Kind().String())
	case t.Kind() == reflect.Float64 || t.Kind() == reflect.Float32:
		return g.floatLeaf(t.Kind().String())
	case t.Kind() == reflect.Slice && t.Elem().Kind() == reflect.Uint8:
		return g.bytesLeaf()
	case t.Kind() == reflect.Pointer:
		if g.r.Intn(3) == 0 {
			return map[string]any{"k": "ptr", "nil": 1, "v": nilDesc}
		}
		return map[string]any{"k": "ptr", "nil": 0, "v": g.forType(t.Elem(), depth)}
	case t.Kind() == reflect.Slice:
		if g.r.Intn(3) == 0 {
			return map[string]any{"k": "slice", "typed": 0, "nil": g.r.Intn(2), "kids": []any{}}
		}
		kids := make([]any, 1+g.r.Intn(2))
		for i := range kids {
			kids[i] = g.forType(t.Elem(), depth-1)
		}
		return map[string]any{"k": "slice", "typed": 0, "nil": 0, "kids": kids}
	case t.Kind() == reflect.Array:
		kids := make([]any, t.Len())
		for i := range kids {
			kids[i] = g.forType(t.Elem(), depth-1)
		}
		return map[string]any{"k": "array", "typed": 0, "nil": 0, "kids": kids}
	case t.Kind() == reflect.Map:
		if g.r.Intn(3) == 0 {
			return map[string]any{"k": "map", "kk": "string", "nil": g.r.Intn(2), "ents": []any{}}
		}
		return map[string]any{"k": "map", "kk": "string", "nil": 0, "ents": []any{
			map[string]any{"key": ints("k"), "v": g.forType(t.Elem(), depth-1)}, map[string]any{"key": ints("K<"), "v": g.forType(t.Elem(), depth-1)}}}
	case t.Kind() == reflect.Struct:
		fields := make([]any, t.NumField())
		for i := range fields {
			sf := t.Field(i)
			tag, hastag := sf.Tag.Lookup("json")
			f := map[string]any{"name": ints(sf.Name), "hastag": b2i(hastag), "tag": ints(tag), "exp": b2i(sf.IsExported()), "emb": b2i(sf.Anonymous),
				"iface": b2i(sf.Type.Kind() == reflect.Interface)}
			if sf.IsExported() {
				f["v"] = g.forType(sf.Type, depth)
			} else {
				f["v"] = zeroDesc(sf.Type)
			}
			fields[i] = f
		}
		name := t.Name()
		return map[string]any{"k": "struct", "ty": name, "fields": fields}
	}
	panic("forType: " + t.String())
}

func zeroDesc(t reflect.Type) map[string]any {
	switch t.Kind() {
	case reflect.Bool:
		return map[string]any{"k": "bool", "b": 0}
	case reflect.Int64:
		return map[string]any{"k": "int", "ty": "int64", "txt": ints("0")}
	case reflect.Struct:
		fields := make([]any, t.NumField())
		for i := range fields {
			sf := t.Field(i)
			tag, hastag := sf.Tag.Lookup("json")
			fields[i] = map[string]any{"name": ints(sf.Name), "hastag": b2i(hastag), "tag": ints(tag), "exp": b2i(sf.IsExported()), "emb": b2i(sf.Anonymous),
				"iface": b2i(sf.Type.Kind() == reflect.Interface), "v": zeroDesc(sf.Type)}
		}
		return map[string]any{"k": "struct", "ty": t.Name(), "fields": fields}
	}
	panic("zeroDesc: " + t.String())
}

func b2i(b bool) int {
	if b {
		return 1
	}
	return 0
}

func extra(seed int64, n int) []json.RawMessage {
	g := &gen{rand.New(rand.NewSource(seed))}
	out := make([]json.RawMessage, 0, n)
	for i := 0; i < n; i++ {
		m, err := json.Marshal(map[string]any{"id": 1000000 + i, "desc": g.any(1 + g.r.Intn(3))})
		drv.Must(err)
		out = append(out, m)
	}
	return out
}

func main() {
	drv.Main(&drv.Sub{Each: each, Extra: extra})
}

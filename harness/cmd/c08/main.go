package main

import (
	"bytes"
	"encoding/json"
	"fmt"
	"math"
	"reflect"
	"time"

	"github.com/open2b/scriggo"
	"github.com/open2b/scriggo/native"
)

type Inner struct {
	P int64
	Q string `json:"q"`
}
type inner2 struct{ R int64 }
type S4 struct {
	Inner
	inner2
	Z int64
}
type NB []byte

func show(file, src string, v any) string {
	var g any
	if v == nil {
		var x any
		g = &x
	} else {
		p := reflect.New(reflect.TypeOf(v))
		p.Elem().Set(reflect.ValueOf(v))
		g = p.Interface()
	}
	t, err := scriggo.BuildTemplate(scriggo.Files{file: []byte(src)}, file, &scriggo.BuildOptions{Globals: native.Declarations{"x": g}})
	if err != nil {
		return "BUILDERR " + err.Error()
	}
	var b bytes.Buffer
	if err := t.Run(&b, nil, nil); err != nil {
		return "RUNERR " + err.Error()
	}
	return b.String()
}

func main() {
	vals := []any{math.NaN(), math.Inf(1), math.Inf(-1), map[string]any{"a": math.NaN()}, []byte(nil), []byte{}, NB{1, 2}, S4{Inner{1, "q"}, inner2{3}, 2},
		time.Date(2006, 1, 2, 15, 4, 5, 500000000, time.UTC), time.Date(2006, 1, 2, 15, 4, 5, 123456789, time.FixedZone("X", -3*3600-1800)),
		map[bool]any{true: 1, false: 2}, map[int]any{10: 1, 2: 2, -1: 3}, float32(0.1), 5e-324, 1e21, uint64(math.MaxUint64), "a\"< \U0001F600\x00", map[float64]any{1.5: 1},
		[0]int{}, [2]any{nil, 1}, math.Copysign(0, -1), struct{ A any `json:"a,omitempty"` }{0}, uintptr(5), int8(-128)}
	for _, v := range vals {
		j, err := json.Marshal(v)
		fmt.Printf("%T\n  js  : %s\n  json: %s\n  ldjs: %s\n  std : %s %v\n", v, show("i.html", "<script>var v = {{ x }};</script>", v), show("i.json", "{{ x }}", v), show("i.html", `<script type="application/ld+json">{{ x }}</script>`, v), j, err)
	}
}

package main

import (
	"verifharness/drv"

	"encoding/json"
	"errors"
	"fmt"

	"github.com/open2b/scriggo/native"
)

// C22: native.Package / CombinedPackage LookupFunc + Lookup, CombinedImporter.Import.
// The driver scripts the callback / importers as the case says and logs events; it judges nothing.

type c22Case struct {
	ID    int        `json:"id"`
	Fam   string     `json:"fam"`
	Kind  string     `json:"kind"`
	Pkgs  [][]string `json:"pkgs"`
	At    int        `json:"at"`
	Res   string     `json:"res"`
	Chain []string   `json:"chain"`
}

type c22Decl struct {
	I int
	N string
}

type scriptedImporter struct {
	res    string
	idx    int
	called *[]int
}

var errScript = errors.New("callback error E")

func (s scriptedImporter) Import(path string) (native.ImportablePackage, error) {
	*s.called = append(*s.called, s.idx)
	switch s.res {
	case "pkg":
		return native.Package{Name: fmt.Sprintf("p%d", s.idx)}, nil
	case "err":
		return nil, fmt.Errorf("importer %d failed", s.idx)
	}
	return nil, nil
}

func declJSON(d native.Declaration) []any {
	if d == nil {
		return []any{0, ""}
	}
	dd := d.(c22Decl)
	return []any{dd.I, dd.N}
}

func main() {
	drv.Main(&drv.Sub{
		Each: func(raw json.RawMessage, seed int64) []any {
			var c c22Case
			drv.Must(json.Unmarshal(raw, &c))
			var out []any
			if c.Fam == "import" {
				var called []int
				var chain native.CombinedImporter
				for i, r := range c.Chain {
					chain = append(chain, scriptedImporter{res: r, idx: i + 1, called: &called})
				}
				pkg, err := chain.Import("x/y")
				ret := []any{"nil", 0}
				if err != nil {
					var k int
					fmt.Sscanf(err.Error(), "importer %d failed", &k)
					ret = []any{"err", k}
				} else if pkg != nil {
					var k int
					fmt.Sscanf(pkg.PackageName(), "p%d", &k)
					ret = []any{"pkg", k}
				}
				if called == nil {
					called = []int{}
				}
				out = append(out, map[string]any{"t": c.ID, "ev": "import", "chain": c.Chain, "ret": ret, "called": called})
				return out
			}
			pkgsJSON := make([][]string, len(c.Pkgs))
			var pkgs []native.ImportablePackage
			names := map[string]bool{}
			for i, ns := range c.Pkgs {
				pkgsJSON[i] = append([]string{}, ns...)
				decls := native.Declarations{}
				for _, n := range ns {
					decls[n] = c22Decl{i + 1, n}
					names[n] = true
				}
				pkgs = append(pkgs, native.Package{Name: fmt.Sprintf("p%d", i+1), Declarations: decls})
			}
			var target native.ImportablePackage
			if c.Kind == "pkg" {
				target = pkgs[0]
			} else {
				target = native.CombinedPackage(pkgs)
			}
			out = append(out, map[string]any{"t": c.ID, "ev": "reset", "kind": c.Kind, "pkgs": pkgsJSON, "at": c.At, "res": c.Res})
			n := 0
			err := target.LookupFunc(func(name string, decl native.Declaration) error {
				n++
				res := "nil"
				var e error
				if c.At != 0 && n == c.At {
					res = c.Res
					if c.Res == "stop" {
						e = native.StopLookup
					} else {
						e = errScript
					}
				}
				out = append(out, map[string]any{"t": c.ID, "ev": "call", "name": name, "decl": declJSON(decl), "res": res})
				return e
			})
			val := "nil"
			if err == errScript {
				val = "err"
			} else if err != nil {
				val = "other:" + err.Error()
			}
			out = append(out, map[string]any{"t": c.ID, "ev": "ret", "val": val})
			for _, n := range []string{"a", "b", "c", "d", "zz"} {
				out = append(out, map[string]any{"t": c.ID, "ev": "lookup", "name": n, "decl": declJSON(target.Lookup(n))})
			}
			return out
		},
	})
}

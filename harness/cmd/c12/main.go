package main

import (
	"verifharness/drv"

	"bytes"
	"encoding/json"
	"errors"
	"flag"
	"fmt"
	"math/rand"
	"os"
	goruntime "runtime"
	"strings"

	"github.com/open2b/scriggo"
	"github.com/open2b/scriggo/native"
)

// C12 (and the defer/panic/recover part of C01): PanicFlow.
//
// A case is a closed program {id, prog}: prog[f] is the body of function f (prog[1] = main), a list of
// statements {op, a}:
//
//	print k | call f | defer f | panic k | recover (log recover()'s result) | drecover (defer recover())
//	stop e | fatal v (native calls env.Stop / env.Fatal) | dstop e | dfatal v | dprint k | dpanic k
//	(the same as *directly deferred* native / builtin calls)
//
// The driver concretises the program in several source shapes ("variants"), runs each through the public
// API under a host recover(), and logs what happened. It judges nothing and computes no expected value;
// `lines` says on which source line the concretiser put each statement.
type stmt struct {
	Op string `json:"op"`
	A  int    `json:"a"`
}

type c12Case struct {
	ID       int      `json:"id"`
	Prog     [][]stmt `json:"prog"`
	Variants []string `json:"variants,omitempty"`
}

var (
	flagVariants = flag.String("variants", "func", "comma separated source shapes: func,closure,method,callback,template,tmacro")
	flagGC       = flag.Bool("gcsrc", false, "also emit the plain-Go rendering of each program (oracle guard input)")
)

type stopErr struct{ n int }

func (e *stopErr) Error() string { return fmt.Sprintf("stop error E%d", e.n) }

type fatalVal struct{ n int }

// recorder collects what one run did, in order.
type recorder struct {
	ev      []int // printed ints and recover results (100 = nil, 100+v)
	endAt   int   // len(ev) when Stop/Fatal was first called, -1 if never
	ends    int   // number of Stop/Fatal calls that were made
	stops   [3]*stopErr
	fatals  [3]*fatalVal
	strange []string
}

func newRecorder() *recorder {
	r := &recorder{endAt: -1}
	for i := range r.stops {
		r.stops[i] = &stopErr{i}
		r.fatals[i] = &fatalVal{i}
	}
	return r
}

func (r *recorder) print(v any) {
	switch x := v.(type) {
	case int:
		r.ev = append(r.ev, x)
	case string:
		if strings.TrimSpace(x) != "" {
			r.strange = append(r.strange, "print:"+x)
		}
	default:
		r.strange = append(r.strange, fmt.Sprintf("print:%T", v))
	}
}

func (r *recorder) pkg() native.Packages {
	return native.Packages{"ext": native.Package{Name: "ext", Declarations: r.decls()}}
}

func (r *recorder) decls() native.Declarations {
	return native.Declarations{
		"P": func(k int) { r.ev = append(r.ev, k) },
		"R": func(v any) {
			switch x := v.(type) {
			case nil:
				r.ev = append(r.ev, 100)
			case int:
				r.ev = append(r.ev, 100+x)
			default:
				r.strange = append(r.strange, "recover:"+safeString(v))
				r.ev = append(r.ev, 199)
			}
		},
		"Stop": func(env native.Env, e int) {
			if r.endAt < 0 {
				r.endAt = len(r.ev)
			}
			r.ends++
			env.Stop(r.stops[e])
		},
		"Fatal": func(env native.Env, v int) {
			if r.endAt < 0 {
				r.endAt = len(r.ev)
			}
			r.ends++
			env.Fatal(r.fatals[v])
		},
		"Do": func(f func()) { f() },
	}
}

// ---------------------------------------------------------------- concretisers

type source struct {
	files   map[string]string
	main    string
	lines   [][]int  // lines[f-1][i-1] = line of statement i of function f (0 when not applicable)
	paths   []string // paths[f-1] = file that contains function f
	pkgs    []string // pkgs[f-1] = for a program, the path of the package that contains function f (templates: the file)
	tmpl    bool
	variant string
}

type writer struct {
	b    bytes.Buffer
	line int
}

func (w *writer) ln(ind int, s string) int {
	w.line++
	w.b.WriteString(strings.Repeat("\t", ind))
	w.b.WriteString(s)
	w.b.WriteByte('\n')
	return w.line
}

// emitBody writes the statements of function f. call/defer of Scriggo functions are written by callStmt.
func emitBody(w *writer, c *c12Case, f int, ind int, lines [][]int, pfx string, callStmt func(w *writer, ind int, deferred bool, g int) int) {
	body := c.Prog[f-1]
	lines[f-1] = make([]int, len(body))
	for i, s := range body {
		var l int
		switch s.Op {
		case "print":
			if pfx == "" {
				l = w.ln(ind, fmt.Sprintf("println(%d)", s.A))
			} else {
				l = w.ln(ind, fmt.Sprintf("%sP(%d)", pfx, s.A))
			}
		case "call":
			l = callStmt(w, ind, false, s.A)
		case "defer":
			l = callStmt(w, ind, true, s.A)
		case "panic":
			l = w.ln(ind, fmt.Sprintf("panic(%d)", gcUnique(pfx, s.A, f, i)))
		case "recover":
			if (f+i)%2 == 0 {
				l = w.ln(ind, fmt.Sprintf("%sR(recover())", pfx0(pfx)))
			} else {
				l = w.ln(ind, fmt.Sprintf("r%d := recover()", i))
				w.ln(ind, fmt.Sprintf("%sR(r%d)", pfx0(pfx), i))
			}
		case "drecover":
			l = w.ln(ind, "defer recover()")
		case "stop":
			l = w.ln(ind, fmt.Sprintf("%sStop(%d)", pfx0(pfx), s.A))
		case "fatal":
			l = w.ln(ind, fmt.Sprintf("%sFatal(%d)", pfx0(pfx), s.A))
		case "dstop":
			l = w.ln(ind, fmt.Sprintf("defer %sStop(%d)", pfx0(pfx), s.A))
		case "dfatal":
			l = w.ln(ind, fmt.Sprintf("defer %sFatal(%d)", pfx0(pfx), s.A))
		case "dprint":
			if pfx == "" {
				l = w.ln(ind, fmt.Sprintf("defer println(%d)", s.A))
			} else {
				l = w.ln(ind, fmt.Sprintf("defer %sP(%d)", pfx, s.A))
			}
		case "dpanic":
			l = w.ln(ind, fmt.Sprintf("defer panic(%d)", gcUnique(pfx, s.A, f, i)))
		default:
			panic("unknown statement " + s.Op)
		}
		lines[f-1][i] = l
	}
}

// gcUnique: in the plain-Go rendering every panic statement panics with its own value k + 1000*u (the check
// reduces values modulo 1000): gc's crash output merges two consecutive panics that have the same value into
// one line "panic: v [recovered, repanicked]", which would hide the older panic's recovered flag.
func gcUnique(pfx string, k, f, i int) int {
	if pfx != "x" {
		return k
	}
	return k + 1000*(f*64+i+1)
}

// programs use the builtin println for prints (pfx == "") and ext.X for the natives
func pfx0(pfx string) string {
	if pfx == "" {
		return "ext."
	}
	return pfx
}

func usesExt(c *c12Case, variant string) bool {
	for _, b := range c.Prog {
		for _, s := range b {
			switch s.Op {
			case "recover", "stop", "fatal", "dstop", "dfatal":
				return true
			case "call":
				if variant == "callback" {
					return true
				}
			}
		}
	}
	return false
}

func samePaths(n int, p string) []string {
	out := make([]string, n)
	for i := range out {
		out[i] = p
	}
	return out
}

// goProgram: variants func (top-level functions), method (methods of a defined type), callback (calls go
// through the native ext.Do(f)), closure (every function is a function literal at its single use site).
// gc == true renders the same program as plain Go for the gc toolchain (oracle guard only).
func goProgram(c *c12Case, variant string, gc bool) *source {
	n := len(c.Prog)
	src := &source{main: "main.go", lines: make([][]int, n), paths: samePaths(n, "main.go"), pkgs: samePaths(n, "main"), variant: variant}
	w := &writer{}
	w.ln(0, "package main")
	w.ln(0, "")
	pfx := ""
	fpfx := ""
	if gc {
		// only the functions, named p<ID>_f<N> / p<ID>_main: the check assembles many programs into one
		// file with the helpers xP / xR / xDo and a dispatching main
		pfx = "x"
		fpfx = fmt.Sprintf("p%d_", c.ID)
		w = &writer{}
	} else if usesExt(c, variant) {
		w.ln(0, `import "ext"`)
		w.ln(0, "")
	}
	if variant == "method" {
		w.ln(0, "type T int")
		w.ln(0, "")
	}
	var call func(w *writer, ind int, deferred bool, g int) int
	name := func(g int) string {
		if variant == "method" {
			return fmt.Sprintf("T(%d).F%d", g, g)
		}
		return fmt.Sprintf("%sf%d", fpfx, g)
	}
	kw := func(d bool) string {
		if d {
			return "defer "
		}
		return ""
	}
	switch variant {
	case "closure":
		call = func(w *writer, ind int, deferred bool, g int) int {
			l := w.ln(ind, kw(deferred)+"func() {")
			emitBody(w, c, g, ind+1, src.lines, pfx, call)
			w.ln(ind, "}()")
			return l
		}
	case "callback":
		call = func(w *writer, ind int, deferred bool, g int) int {
			if deferred {
				// a deferred function stays the deferred function itself (recover() must be called directly by it)
				return w.ln(ind, "defer "+name(g)+"()")
			}
			return w.ln(ind, fmt.Sprintf("%sDo(%s)", pfx0(pfx), name(g)))
		}
	default:
		call = func(w *writer, ind int, deferred bool, g int) int {
			return w.ln(ind, kw(deferred)+name(g)+"()")
		}
	}
	if variant != "closure" {
		for f := n; f >= 2; f-- {
			if variant == "method" {
				w.ln(0, fmt.Sprintf("func (t T) F%d() {", f))
			} else {
				w.ln(0, fmt.Sprintf("func %sf%d() {", fpfx, f))
			}
			emitBody(w, c, f, 1, src.lines, pfx, call)
			w.ln(0, "}")
			w.ln(0, "")
		}
	}
	w.ln(0, fmt.Sprintf("func %smain() {", fpfx))
	emitBody(w, c, 1, 1, src.lines, pfx, call)
	w.ln(0, "}")
	src.files = map[string]string{"main.go": w.b.String()}
	return src
}

// template: the program inside one {%% ... %%} block of index.html; functions are function literals bound
// to variables declared before use ("template"), or - variant tmacro - macros of an imported file lib.html
// whose bodies are {%% %%} blocks (so a panic inside a function has path lib.html).
func template(c *c12Case, variant string) *source {
	n := len(c.Prog)
	src := &source{main: "index.html", lines: make([][]int, n), paths: samePaths(n, "index.html"), tmpl: true, variant: variant}
	src.pkgs = src.paths
	files := map[string]string{}
	if variant == "tmacro" {
		lw := &writer{}
		call := func(w *writer, ind int, deferred bool, g int) int {
			if deferred {
				return w.ln(ind, fmt.Sprintf("defer M%d()", g))
			}
			return w.ln(ind, fmt.Sprintf("_ = M%d()", g))
		}
		for f := n; f >= 2; f-- {
			lw.ln(0, fmt.Sprintf("{%% macro M%d %%}{%%%%", f))
			emitBody(lw, c, f, 1, src.lines, "", call)
			lw.ln(0, "%%}{% end macro %}")
			src.paths[f-1] = "lib.html"
		}
		files["lib.html"] = lw.b.String()
		w := &writer{}
		w.ln(0, `{% import "lib.html" %}{%%`)
		emitBody(w, c, 1, 1, src.lines, "", call)
		w.ln(0, "%%}")
		files["index.html"] = w.b.String()
		src.files = files
		return src
	}
	w := &writer{}
	w.ln(0, "{%%")
	var call func(w *writer, ind int, deferred bool, g int) int
	call = func(w *writer, ind int, deferred bool, g int) int {
		w.ln(ind, fmt.Sprintf("f%d := func() {", g))
		emitBody(w, c, g, ind+1, src.lines, "", call)
		w.ln(ind, "}")
		if deferred {
			return w.ln(ind, fmt.Sprintf("defer f%d()", g))
		}
		return w.ln(ind, fmt.Sprintf("f%d()", g))
	}
	emitBody(w, c, 1, 1, src.lines, "", call)
	w.ln(0, "%%}")
	files["index.html"] = w.b.String()
	src.files = files
	return src
}

// tmplFix: in templates the natives are globals (no package qualifier) and println is the builtin.
func tmplFix(s string) string { return strings.ReplaceAll(s, "ext.", "") }

// ---------------------------------------------------------------- running

// safeString describes a value without calling methods of types the driver does not own: an Error or String
// method of the code under test may itself be broken (internal/runtime.stopError.Error calls itself), and a stack
// overflow cannot be recovered.
func safeString(v any) string {
	switch x := v.(type) {
	case nil:
		return "nil"
	case string:
		return "string: " + x
	case int:
		return fmt.Sprintf("int: %d", x)
	case *stopErr:
		return fmt.Sprintf("*main.stopErr: E%d", x.n)
	case *fatalVal:
		return fmt.Sprintf("*main.fatalVal: V%d", x.n)
	case goruntime.Error:
		return fmt.Sprintf("%T: %s", v, x.Error())
	}
	return fmt.Sprintf("%T", v)
}

func chainOf(p *scriggo.PanicError) (out []any) {
	defer func() {
		if r := recover(); r != nil {
			out = append(out, map[string]any{"v": -2, "rec": false, "path": fmt.Sprint("walk panicked: ", r), "line": 0})
		}
	}()
	out = []any{}
	for k := 0; p != nil && k < 64; k++ {
		// the public Next never returns nil: the end of the chain is a wrapper of a nil runtime
		// error, whose Error() is the empty string
		if p.Error() == "" {
			break
		}
		v := -1
		if x, ok := p.Message().(int); ok {
			v = x
		}
		out = append(out, map[string]any{"v": v, "rec": p.Recovered(), "path": p.Path(), "line": p.Position().Line,
			"msg": safeString(p.Message())})
		p = p.Next()
	}
	return out
}

func runOne(c *c12Case, variant string) map[string]any {
	var src *source
	switch variant {
	case "template", "tmacro":
		src = template(c, variant)
	default:
		src = goProgram(c, variant, false)
	}
	rec := newRecorder()
	run := map[string]any{"variant": variant, "lines": src.lines, "paths": src.paths, "pkgs": src.pkgs}
	var runFn func() error
	fsys := scriggo.Files{}
	for k, v := range src.files {
		if src.tmpl {
			v = tmplFix(v)
		}
		fsys[k] = []byte(v)
	}
	buildErr := func() (err error) {
		defer func() {
			if r := recover(); r != nil {
				err = fmt.Errorf("build panicked: %v", r)
			}
		}()
		if src.tmpl {
			g := native.Declarations{}
			for k, v := range rec.decls() {
				g[k] = v
			}
			t, err := scriggo.BuildTemplate(fsys, src.main, &scriggo.BuildOptions{Globals: g})
			if err != nil {
				return err
			}
			var out bytes.Buffer
			runFn = func() error { return t.Run(&out, nil, &scriggo.RunOptions{Print: rec.print}) }
			return nil
		}
		p, err := scriggo.Build(fsys, &scriggo.BuildOptions{Packages: rec.pkg()})
		if err != nil {
			return err
		}
		runFn = func() error { return p.Run(&scriggo.RunOptions{Print: rec.print}) }
		return nil
	}()
	if buildErr != nil {
		run["built"] = false
		var be *scriggo.BuildError
		if errors.As(buildErr, &be) {
			run["builderr"] = be.Error()
		} else {
			run["builderr"] = "non-BuildError: " + buildErr.Error()
		}
		run["out"], run["outcome"], run["val"], run["chain"], run["after"], run["ends"] = []int{}, "nobuild", 0, []any{}, 0, 0
		run["dclass"] = ""
		return run
	}
	run["built"] = true
	outcome, val, chain, detail, dclass := "ok", 0, []any{}, "", ""
	func() {
		defer func() {
			if r := recover(); r != nil {
				outcome, val = "hostpanic", -1
				detail = safeString(r)
				dclass = fmt.Sprintf("%T", r) // the Go type of the value the host recovered
				if fv, ok := r.(*fatalVal); ok {
					for i, x := range rec.fatals {
						if x == fv {
							outcome, val = "fatal", i
						}
					}
				}
			}
		}()
		err := runFn()
		if err == nil {
			return
		}
		if pe, ok := err.(*scriggo.PanicError); ok {
			outcome = "panic"
			chain = chainOf(pe)
			return
		}
		outcome, val = "error", -1
		detail = safeString(err)
		for i, x := range rec.stops {
			if err == error(x) { // identity: the very value given to Stop
				outcome, val = "stop", i
			}
		}
	}()
	ev := rec.ev
	if ev == nil {
		ev = []int{}
	}
	after := 0
	if rec.endAt >= 0 {
		after = len(ev) - rec.endAt
	}
	run["out"], run["outcome"], run["val"], run["chain"], run["after"], run["ends"] = ev, outcome, val, chain, after, rec.ends
	run["dclass"] = dclass
	if detail != "" {
		run["detail"] = detail
	}
	if len(rec.strange) > 0 {
		run["strange"] = rec.strange
	}
	return run
}

func each(raw json.RawMessage, seed int64) []any {
	var c c12Case
	drv.Must(json.Unmarshal(raw, &c))
	variants := c.Variants
	if len(variants) == 0 {
		variants = strings.Split(*flagVariants, ",")
	}
	runs := []any{}
	for _, v := range variants {
		runs = append(runs, runOne(&c, v))
	}
	o := map[string]any{"id": c.ID, "prog": c.Prog, "runs": runs}
	if *flagGC {
		o["gcsrc"] = goProgram(&c, "func", true).files["main.go"]
		o["gcmain"] = fmt.Sprintf("p%d_main", c.ID)
	}
	if os.Getenv("C12_DUMP") != "" {
		for _, v := range variants {
			var s *source
			if v == "template" || v == "tmacro" {
				s = template(&c, v)
			} else {
				s = goProgram(&c, v, false)
			}
			for k, f := range s.files {
				fmt.Fprintf(os.Stderr, "---- case %d %s %s\n%s", c.ID, v, k, f)
			}
		}
	}
	return []any{o}
}

// ---------------------------------------------------------------- seeded random programs (larger than TLC's bounds)

func extra(seed int64, n int) []json.RawMessage {
	r := rand.New(rand.NewSource(seed))
	var out []json.RawMessage
	for i := 0; i < n; i++ {
		maxStmts := 6 + r.Intn(7)
		maxDepth := 3 + r.Intn(2)
		prog := [][]stmt{{}}
		left := maxStmts
		var gen func(f, depth int)
		gen = func(f, depth int) {
			var deferred []int
			for left > 0 && r.Intn(5) != 0 {
				left--
				var s stmt
				switch k := r.Intn(20); {
				case k < 3:
					s = stmt{"print", 7}
				case k < 6 && depth < maxDepth:
					prog = append(prog, []stmt{})
					g := len(prog)
					s = stmt{"call", g}
					prog[f-1] = append(prog[f-1], s)
					gen(g, depth+1)
					continue
				case k < 10:
					prog = append(prog, []stmt{})
					g := len(prog)
					s = stmt{"defer", g}
					deferred = append(deferred, g)
				case k < 13:
					s = stmt{"panic", 1 + r.Intn(2)}
				case k < 16:
					s = stmt{"recover", 0}
				case k == 16:
					s = stmt{"drecover", 0}
				case k == 17:
					s = stmt{"dprint", 8}
				case k == 18:
					s = stmt{"dpanic", 1 + r.Intn(2)}
				default:
					s = []stmt{{"stop", 1}, {"fatal", 1}, {"dstop", 1}, {"dfatal", 1}}[r.Intn(4)]
				}
				prog[f-1] = append(prog[f-1], s)
				if s.Op == "panic" {
					break // statements after an unconditional panic never run (and gc vets them as unreachable)
				}
			}
			if depth < maxDepth+1 {
				for j := len(deferred) - 1; j >= 0; j-- {
					gen(deferred[j], depth+1)
				}
			}
		}
		gen(1, 1)
		m, _ := json.Marshal(map[string]any{"id": 1000000 + i, "prog": prog})
		out = append(out, m)
	}
	return out
}

func main() {
	drv.Main(&drv.Sub{Each: each, Extra: extra})
}

package main

// C03: Build accepts a program exactly when the Go type checker does.
// Case {id, verdict, rule, prog}: prog is the AST record exported by MC_Types.tla. The driver prints the AST as
// Go source (string templates), calls scriggo.Build and logs the class of the result:
//   ok | builderror (*scriggo.BuildError) | othererror | hostpanic
// It computes no expected value. With -oracle (oracle guard: violation path and spec development ONLY) the same source
// is also given to go/types from the standard library and its verdict is logged in separate fields.

import (
	"encoding/json"
	"fmt"
	"go/ast"
	"go/parser"
	"go/token"
	"go/types"
	"os"
	"strconv"
	"strings"

	"verifharness/drv"

	"github.com/open2b/scriggo"
	"github.com/open2b/scriggo/native"
)

type Expr struct {
	K      string `json:"k"`
	Name   string `json:"name"`
	Lk     string `json:"lk"`
	N      int    `json:"n"`
	D      int    `json:"d"`
	Op     string `json:"op"`
	T      string `json:"t"`
	Pkg    string `json:"pkg"`
	X      *Expr  `json:"x"`
	Y      *Expr  `json:"y"`
	F      *Expr  `json:"f"`
	I      *Expr  `json:"i"`
	Lo     *Expr  `json:"lo"`
	Key    *Expr  `json:"key"`
	Val    *Expr  `json:"val"`
	Param  string `json:"param"`
	Ret    *Expr  `json:"ret"`
	Arg    *Expr  `json:"arg"`
	Args   []Expr `json:"args"`
	Spread bool   `json:"spread"`
}

type Clause struct {
	IsDef bool     `json:"isdef"`
	Es    []Expr   `json:"es"`
	Ts    []string `json:"ts"`
	Ck    string   `json:"ck"`
	Names []string `json:"names"`
	Lhs   []Expr   `json:"lhs"`
	Ch    *Expr    `json:"ch"`
	E     *Expr    `json:"e"`
	Body  []Stmt   `json:"body"`
}

type Stmt struct {
	K       string   `json:"k"`
	Names   []string `json:"names"`
	Name    string   `json:"name"`
	T       string   `json:"t"`
	Es      []Expr   `json:"es"`
	Lhs     []Expr   `json:"lhs"`
	Op      string   `json:"op"`
	X       *Expr    `json:"x"`
	E       *Expr    `json:"e"`
	Ch      *Expr    `json:"ch"`
	Cond    *Expr    `json:"cond"`
	Tag     *Expr    `json:"tag"`
	Init    []Stmt   `json:"init"`
	Then    []Stmt   `json:"then"`
	Els     []Stmt   `json:"els"`
	Body    []Stmt   `json:"body"`
	HasElse bool     `json:"haselse"`
	HasCond bool     `json:"hascond"`
	HasTag  bool     `json:"hastag"`
	Label   string   `json:"label"`
	Bind    string   `json:"bind"`
	Res     []string `json:"res"`
	Clauses []Clause `json:"clauses"`
}

type Param struct {
	Name string `json:"name"`
	T    string `json:"t"`
}

type Top struct {
	K      string   `json:"k"`
	Name   string   `json:"name"`
	T      string   `json:"t"`
	E      *Expr    `json:"e"`
	Params []Param  `json:"params"`
	Res    []string `json:"res"`
	Body   []Stmt   `json:"body"`
}

type Import struct {
	Alias string `json:"alias"`
	Path  string `json:"path"`
}

type Prog struct {
	Imports []Import `json:"imports"`
	Tops    []Top    `json:"tops"`
	Pre     bool     `json:"pre"`
	Params  []Param  `json:"params"`
	Res     []string `json:"res"`
	Body    []Stmt   `json:"body"`
}

type Case struct {
	ID   int             `json:"id"`
	Prog json.RawMessage `json:"prog"`
}

// ------------------------------------------------------------------------------------------ printing

func isLeaf(e *Expr) bool {
	return e.K == "id" || e.K == "lit" && !(e.Lk != "string" && e.N < 0)
}

func sub(e *Expr) string {
	if isLeaf(e) {
		return expr(e)
	}
	return "(" + expr(e) + ")"
}

func exprs(es []Expr) string {
	var b []string
	for i := range es {
		b = append(b, expr(&es[i]))
	}
	return strings.Join(b, ", ")
}

func expr(e *Expr) string {
	switch e.K {
	case "id":
		return e.Name
	case "lit":
		switch e.Lk {
		case "int":
			return strconv.Itoa(e.N)
		case "float":
			s := strconv.FormatFloat(float64(e.N)/float64(e.D), 'f', -1, 64)
			if !strings.Contains(s, ".") {
				s += ".0"
			}
			return s
		case "string":
			return strconv.Quote(strings.Repeat("s", e.N))
		}
	case "un":
		return e.Op + sub(e.X)
	case "bin":
		return sub(e.X) + " " + e.Op + " " + sub(e.Y)
	case "call":
		s := sub(e.F) + "(" + exprs(e.Args)
		if e.Spread {
			s += "..."
		}
		return s + ")"
	case "conv":
		t := e.T
		if strings.ContainsAny(t, "*[( ") {
			t = "(" + t + ")"
		}
		return t + "(" + expr(e.X) + ")"
	case "index":
		return sub(e.X) + "[" + expr(e.I) + "]"
	case "slice":
		return sub(e.X) + "[" + expr(e.Lo) + ":]"
	case "builtin":
		if e.Name == "make" {
			return "make([]int, " + exprs(e.Args) + ")"
		}
		return e.Name + "(" + exprs(e.Args) + ")"
	case "sel":
		return e.Pkg + "." + e.Name
	case "assert":
		return sub(e.X) + ".(" + e.T + ")"
	case "slicelit":
		return "[]int{" + exprs(e.Args) + "}"
	case "maplit":
		return "map[string]int{" + expr(e.Key) + ": " + expr(e.Val) + "}"
	case "flcall":
		return "func(" + e.Param + " int) int { return " + expr(e.Ret) + " }(" + expr(e.Arg) + ")"
	}
	panic("driver: unknown expression kind " + e.K)
}

// header: an expression in an if/for/switch header (a composite literal must be parenthesised there)
func header(e *Expr) string {
	if e.K == "slicelit" || e.K == "maplit" {
		return "(" + expr(e) + ")"
	}
	return expr(e)
}

func results(res []string) string {
	switch len(res) {
	case 0:
		return ""
	case 1:
		return " " + res[0]
	}
	return " (" + strings.Join(res, ", ") + ")"
}

func simple(s *Stmt) string {
	switch s.K {
	case "var":
		t := "var " + strings.Join(s.Names, ", ")
		if s.T != "" {
			t += " " + s.T
		}
		if len(s.Es) > 0 {
			t += " = " + exprs(s.Es)
		}
		return t
	case "const":
		t := "const " + s.Name
		if s.T != "" {
			t += " " + s.T
		}
		return t + " = " + expr(s.E)
	case "typedecl":
		return "type " + s.Name + " int"
	case "define":
		return strings.Join(s.Names, ", ") + " := " + exprs(s.Es)
	case "assign":
		return exprs(s.Lhs) + " = " + exprs(s.Es)
	case "opassign":
		return expr(s.X) + " " + s.Op + "= " + expr(s.E)
	case "incdec":
		return expr(s.X) + s.Op
	case "expr":
		return expr(s.E)
	case "go", "defer":
		return s.K + " " + expr(s.E)
	case "send":
		return sub(s.Ch) + " <- " + expr(s.E)
	case "return":
		if len(s.Es) == 0 {
			return "return"
		}
		return "return " + exprs(s.Es)
	case "break", "continue":
		if s.Label != "" {
			return s.K + " " + s.Label
		}
		return s.K
	case "use":
		return "_ = " + s.Name
	case "fallthrough":
		return "fallthrough"
	}
	return ""
}

func stmts(b *strings.Builder, ss []Stmt, ind string) {
	for i := range ss {
		stmt(b, &ss[i], ind)
	}
}

func stmt(b *strings.Builder, s *Stmt, ind string) {
	if t := simple(s); t != "" {
		b.WriteString(ind + t + "\n")
		return
	}
	if s.Label != "" {
		b.WriteString(ind + s.Label + ":\n")
	}
	switch s.K {
	case "if":
		b.WriteString(ind + "if ")
		if len(s.Init) > 0 {
			b.WriteString(simple(&s.Init[0]) + "; ")
		}
		b.WriteString(header(s.Cond) + " {\n")
		stmts(b, s.Then, ind+"\t")
		if s.HasElse {
			b.WriteString(ind + "} else {\n")
			stmts(b, s.Els, ind+"\t")
		}
		b.WriteString(ind + "}\n")
	case "for":
		if s.HasCond {
			b.WriteString(ind + "for " + header(s.Cond) + " {\n")
		} else {
			b.WriteString(ind + "for {\n")
		}
		stmts(b, s.Body, ind+"\t")
		b.WriteString(ind + "}\n")
	case "switch":
		if s.HasTag {
			b.WriteString(ind + "switch " + header(s.Tag) + " {\n")
		} else {
			b.WriteString(ind + "switch {\n")
		}
		for i := range s.Clauses {
			c := &s.Clauses[i]
			if c.IsDef {
				b.WriteString(ind + "default:\n")
			} else {
				b.WriteString(ind + "case " + exprs(c.Es) + ":\n")
			}
			stmts(b, c.Body, ind+"\t")
		}
		b.WriteString(ind + "}\n")
	case "tswitch":
		b.WriteString(ind + "switch ")
		if s.Bind != "" {
			b.WriteString(s.Bind + " := ")
		}
		b.WriteString(sub(s.X) + ".(type) {\n")
		for i := range s.Clauses {
			c := &s.Clauses[i]
			if c.IsDef {
				b.WriteString(ind + "default:\n")
			} else {
				b.WriteString(ind + "case " + strings.Join(c.Ts, ", ") + ":\n")
			}
			stmts(b, c.Body, ind+"\t")
		}
		b.WriteString(ind + "}\n")
	case "select":
		b.WriteString(ind + "select {\n")
		for i := range s.Clauses {
			c := &s.Clauses[i]
			switch c.Ck {
			case "default":
				b.WriteString(ind + "default:\n")
			case "recv":
				b.WriteString(ind + "case <-" + sub(c.Ch) + ":\n")
			case "recvdef":
				b.WriteString(ind + "case " + strings.Join(c.Names, ", ") + " := <-" + sub(c.Ch) + ":\n")
			case "recvassign":
				b.WriteString(ind + "case " + exprs(c.Lhs) + " = <-" + sub(c.Ch) + ":\n")
			case "send":
				b.WriteString(ind + "case " + sub(c.Ch) + " <- " + expr(c.E) + ":\n")
			default:
				panic("driver: unknown select clause " + c.Ck)
			}
			stmts(b, c.Body, ind+"\t")
		}
		b.WriteString(ind + "}\n")
	case "block":
		b.WriteString(ind + "{\n")
		stmts(b, s.Body, ind+"\t")
		b.WriteString(ind + "}\n")
	case "closure":
		b.WriteString(ind)
		if len(s.Res) > 0 {
			b.WriteString(strings.TrimSuffix(strings.Repeat("_, ", len(s.Res)), ", ") + " = ")
		}
		b.WriteString("func()" + results(s.Res) + " {\n")
		stmts(b, s.Body, ind+"\t")
		b.WriteString(ind + "}()\n")
	default:
		panic("driver: unknown statement kind " + s.K)
	}
}

func params(ps []Param) string {
	var b []string
	for _, p := range ps {
		b = append(b, p.Name+" "+p.T)
	}
	return strings.Join(b, ", ")
}

var preludeLocals = [][2]string{{"vi", "int"}, {"vi8", "int8"}, {"vu8", "uint8"}, {"vf", "float64"}, {"vs", "string"}, {"vb", "bool"},
	{"vn", "N"}, {"vp", "*int"}, {"vsl", "[]int"}, {"vm", "map[string]int"}, {"vfn", "func(int) int"}, {"va", "any"},
	{"ve", "error"}, {"vch", "chan int"}, {"vns", "NS"}}

const preludePkg = `type N int
type NS []int
func f0() {}
func f1(a int) int { return a }
func f2() (int, string) { return 0, "" }
func f3(a int, b string) {}
func fv(a ...int) {}
func fvs(s string, a ...int) {}
`

// source returns the whole program and the text of the part that varies (shown in samples)
func source(p *Prog) (string, string) {
	var v strings.Builder
	for _, im := range p.Imports {
		if im.Alias != "" {
			v.WriteString("import " + im.Alias + " " + strconv.Quote(im.Path) + "\n")
		} else {
			v.WriteString("import " + strconv.Quote(im.Path) + "\n")
		}
	}
	for i := range p.Tops {
		t := &p.Tops[i]
		switch t.K {
		case "func":
			v.WriteString("func " + t.Name + "(" + params(t.Params) + ")" + results(t.Res) + " {\n")
			stmts(&v, t.Body, "\t")
			v.WriteString("}\n")
		case "var":
			v.WriteString("var " + t.Name + " " + t.T + "\n")
		case "varinit":
			s := Stmt{K: "var", Names: []string{t.Name}, T: t.T, Es: []Expr{*t.E}}
			v.WriteString(simple(&s) + "\n")
		case "type":
			v.WriteString("type " + t.Name + " int\n")
		case "const":
			s := Stmt{K: "const", Name: t.Name, T: t.T, E: t.E}
			v.WriteString(simple(&s) + "\n")
		default:
			panic("driver: unknown top-level declaration " + t.K)
		}
	}
	v.WriteString("func g(" + params(p.Params) + ")" + results(p.Res) + " {\n")
	var pre strings.Builder
	if p.Pre {
		for _, l := range preludeLocals {
			pre.WriteString("\tvar " + l[0] + " " + l[1] + "\n")
		}
		for _, l := range preludeLocals {
			pre.WriteString("\t_ = " + l[0] + "\n")
		}
	}
	var body strings.Builder
	stmts(&body, p.Body, "\t")
	head := v.String()
	// imports must precede every declaration: the prelude follows them
	imports, rest := splitImports(head)
	full := "package main\n" + imports + preludePkg + rest + pre.String() + body.String() + "}\nfunc main() {}\n"
	return full, head + body.String() + "}"
}

func splitImports(head string) (string, string) {
	var im, rest strings.Builder
	for _, ln := range strings.SplitAfter(head, "\n") {
		if strings.HasPrefix(ln, "import ") {
			im.WriteString(ln)
		} else {
			rest.WriteString(ln)
		}
	}
	return im.String(), rest.String()
}

// ------------------------------------------------------------------------------------------ the system under test

var packages = native.Packages{"p": native.Package{Name: "p", Declarations: native.Declarations{"F": func(a int) int { return a }}}}

func build(src string) (class, msg string) {
	defer func() {
		if r := recover(); r != nil {
			class, msg = "hostpanic", fmt.Sprint(r)
		}
	}()
	_, err := scriggo.Build(scriggo.Files{"main.go": []byte(src)}, &scriggo.BuildOptions{Packages: packages, AllowGoStmt: true})
	if err == nil {
		return "ok", ""
	}
	if _, ok := err.(*scriggo.BuildError); ok {
		return "builderror", err.Error()
	}
	return "othererror", fmt.Sprintf("%T: %v", err, err)
}

// ------------------------------------------------------------------------------------------ oracle guard (go/types)

type oracleImporter struct{}

func (oracleImporter) Import(path string) (*types.Package, error) {
	if path != "p" {
		return nil, fmt.Errorf("package %q not found", path)
	}
	pkg := types.NewPackage("p", "p")
	intT := types.Typ[types.Int]
	sig := types.NewSignatureType(nil, nil, nil, types.NewTuple(types.NewVar(token.NoPos, pkg, "a", intT)),
		types.NewTuple(types.NewVar(token.NoPos, pkg, "", intT)), false)
	pkg.Scope().Insert(types.NewFunc(token.NoPos, pkg, "F", sig))
	pkg.MarkComplete()
	return pkg, nil
}

func oracle(src string) (class, msg string) {
	fset := token.NewFileSet()
	f, err := parser.ParseFile(fset, "main.go", src, parser.SkipObjectResolution)
	if err != nil {
		return "reject", "syntax: " + err.Error()
	}
	var first error
	conf := types.Config{Importer: oracleImporter{}, Error: func(e error) {
		if first == nil {
			first = e
		}
	}}
	conf.Check("main", fset, []*ast.File{f}, nil)
	if first != nil {
		return "reject", first.Error()
	}
	return "accept", ""
}

func main() {
	useOracle := false
	for i, a := range os.Args {
		if a == "-oracle" {
			useOracle = true
			os.Args = append(os.Args[:i], os.Args[i+1:]...)
			break
		}
	}
	drv.Main(&drv.Sub{
		Each: func(raw json.RawMessage, seed int64) []any {
			var c Case
			drv.Must(json.Unmarshal(raw, &c))
			var p Prog
			drv.Must(json.Unmarshal(c.Prog, &p))
			full, shown := source(&p)
			class, msg := build(full)
			if len(msg) > 200 {
				msg = msg[:200]
			}
			o := map[string]any{"id": c.ID, "prog": c.Prog, "src": shown, "builds": class, "msg": msg}
			if useOracle {
				g, gm := oracle(full)
				if len(gm) > 200 {
					gm = gm[:200]
				}
				o["gotypes"], o["gomsg"] = g, gm
			}
			return []any{o}
		},
	})
}

package main

import (
	"verifharness/drv"

	"encoding/json"
	"math/rand"

	"github.com/open2b/scriggo"
	"github.com/open2b/scriggo/builtin"
)

// C24: HTMLEscape. Case {id, s}; observations {id, fn, s, out} for both entry points.
func main() {
	drv.Main(&drv.Sub{
		Each: func(c json.RawMessage, seed int64) []any {
			var k struct {
				ID int   `json:"id"`
				S  []int `json:"s"`
			}
			drv.Must(json.Unmarshal(c, &k))
			s := string(drv.BytesOf(k.S))
			return []any{
				map[string]any{"id": k.ID, "fn": "scriggo.HTMLEscape", "s": k.S, "out": drv.IntsS(string(scriggo.HTMLEscape(s)))},
				map[string]any{"id": k.ID, "fn": "builtin.HtmlEscape", "s": k.S, "out": drv.IntsS(string(builtin.HtmlEscape(s)))},
			}
		},
		Extra: func(seed int64, n int) []json.RawMessage {
			r := rand.New(rand.NewSource(seed))
			var out []json.RawMessage
			special := []byte("<>&\"';#a")
			for i := 0; i < n; i++ {
				ln := r.Intn(120)
				b := make([]int, ln)
				for j := range b {
					if r.Intn(3) == 0 {
						b[j] = int(special[r.Intn(len(special))])
					} else {
						b[j] = r.Intn(256)
					}
				}
				m, _ := json.Marshal(map[string]any{"id": 1000000 + i, "s": b})
				out = append(out, m)
			}
			return out
		},
	})
}

package main

import (
	"verifharness/drv"

	"context"
	"encoding/json"
	"flag"
	"fmt"
	"os"
	"runtime"
	"sort"
	"strings"
	"sync"
	"time"

	"github.com/open2b/scriggo"
)

// C01: interpreted programs behave like gc.  Four case families, told apart by "fam":
//
//	intalu    {id, op, k, k2, x, y, forms}   one integer operation, written in several source forms
//	initorder {id, nv, nf, deps, orders}     a package-level dependency graph, written in one or two textual orders
//	conv      {id, op, ...}                  string <-> int / []byte / []rune conversions
//	variadic / select / constuse / maprange  the cases of GoMisc.tla (one small program each)
//	minigo    {id, prog, forms}              a program of the mini language of MiniGo.tla, written in one or more source forms
//	pkginit   {id, imps, vars, inits, forms} a program of several packages (PkgInit.tla): go.mod + one directory per package
//	godata    {id, ops, capk}                a straight-line program over composite data (GoData.tla): the operations are Go statements
//	goiface   {id, ops}                      a straight-line program over interface values (GoIface.tla): the operations are Go statements
//
// The driver only writes Go source for a case (string templates), builds and runs it with the public
// API and logs what was printed / returned.  No expected value is computed here.
var (
	flagChunk   = flag.Int("chunk", 200, "intalu / conv cases per generated program")
	flagKeepSrc = flag.Bool("keepsrc", false, "echo the generated source in the observations (oracle guard, replays)")
)

// ---------------------------------------------------------------- running one program

type runResult struct {
	Lines   [][]any // printed lines: the arguments of each println, separators removed
	Outcome string  // ok | builderror | panic | exit | hostpanic | timeout | error
	Msg     string
}

// runProgram builds and runs src, capturing print/println through RunOptions.Print.
func runProgram(src string) (res runResult) {
	return runFiles(scriggo.Files{"main.go": []byte(src)})
}

// runFiles builds and runs the program made of files (main.go, and go.mod + one directory per imported package).
func runFiles(files scriggo.Files) (res runResult) {
	return runFilesLim(files, 20*time.Second, 0)
}

// runFilesLim is runFiles with a time limit and (maxLines > 0) a limit on the number of printed lines: a program that
// prints more is stopped and its outcome is "runaway" (a loop that never ends would otherwise fill the memory of the driver
// before the time limit).
func runFilesLim(files scriggo.Files, limit time.Duration, maxLines int) (res runResult) {
	var cur []any
	var mu sync.Mutex
	runaway := false
	defer func() {
		if r := recover(); r != nil {
			res.Outcome, res.Msg = "hostpanic", fmt.Sprint(r)
		}
		if len(cur) > 0 {
			res.Lines = append(res.Lines, cur)
		}
	}()
	p, err := scriggo.Build(files, nil)
	if err != nil {
		if _, ok := err.(*scriggo.BuildError); ok {
			return runResult{Outcome: "builderror", Msg: err.Error()}
		}
		return runResult{Outcome: "error", Msg: fmt.Sprintf("%T: %v", err, err)}
	}
	ctx, cancel := context.WithTimeout(context.Background(), limit)
	defer cancel()
	err = p.Run(&scriggo.RunOptions{Context: ctx, Print: func(v any) {
		mu.Lock()
		defer mu.Unlock()
		if runaway {
			return
		}
		if s, ok := v.(string); ok {
			if s == "\n" {
				res.Lines = append(res.Lines, cur)
				cur = nil
				if maxLines > 0 && len(res.Lines) >= maxLines {
					runaway = true
					cancel()
				}
				return
			}
			if s == " " {
				return
			}
		}
		cur = append(cur, v)
	}})
	mu.Lock()
	over := runaway
	mu.Unlock()
	switch e := err.(type) {
	case nil:
		res.Outcome = "ok"
		if over {
			res.Outcome = "runaway"
		}
	case *scriggo.PanicError:
		res.Outcome, res.Msg = "panic", e.String()
	case *scriggo.ExitError:
		res.Outcome, res.Msg = "exit", e.Error()
	default:
		if over {
			res.Outcome = "runaway"
		} else if err == context.DeadlineExceeded {
			res.Outcome = "timeout"
		} else {
			res.Outcome, res.Msg = "error", fmt.Sprintf("%T: %v", err, err)
		}
	}
	return res
}

// text of a printed line, as gc's println would write it (arguments separated by one space)
func lineText(l []any) string {
	parts := make([]string, len(l))
	for i, v := range l {
		parts[i] = fmt.Sprint(v)
	}
	return strings.Join(parts, " ")
}

func rawText(r runResult) string {
	var b strings.Builder
	for _, l := range r.Lines {
		b.WriteString(lineText(l))
		b.WriteByte('\n')
	}
	if r.Outcome != "ok" {
		b.WriteString(r.Outcome + ": " + r.Msg + "\n")
	}
	return b.String()
}

// ---------------------------------------------------------------- big integers <-> decimal text

type big struct {
	S int   `json:"s"`
	L []int `json:"l"`
}

// decimal text of a big integer given as base-10^4 limbs (no arithmetic: digit groups are concatenated)
func (b big) dec() string {
	if b.S == 0 || len(b.L) == 0 {
		return "0"
	}
	var sb strings.Builder
	if b.S < 0 {
		sb.WriteByte('-')
	}
	for i := len(b.L) - 1; i >= 0; i-- {
		if i == len(b.L)-1 {
			fmt.Fprintf(&sb, "%d", b.L[i])
		} else {
			fmt.Fprintf(&sb, "%04d", b.L[i])
		}
	}
	return sb.String()
}

// limbs of a printed decimal (cut into groups of four digits from the right)
func bigOf(dec string) (big, bool) {
	s := 1
	if strings.HasPrefix(dec, "-") {
		s, dec = -1, dec[1:]
	}
	dec = strings.TrimLeft(dec, "0")
	if dec == "" {
		return big{S: 0, L: []int{}}, true
	}
	var l []int
	for len(dec) > 0 {
		n := len(dec) - 4
		if n < 0 {
			n = 0
		}
		v := 0
		for _, ch := range dec[n:] {
			if ch < '0' || ch > '9' {
				return big{}, false
			}
			v = v*10 + int(ch-'0')
		}
		l = append(l, v)
		dec = dec[:n]
	}
	return big{S: s, L: l}, true
}

func isIntValue(v any) bool {
	switch v.(type) {
	case int, int8, int16, int32, int64, uint, uint8, uint16, uint32, uint64, uintptr:
		return true
	}
	return false
}

// ---------------------------------------------------------------- intalu

type aluCase struct {
	ID    int      `json:"id"`
	Fam   string   `json:"fam"`
	Op    string   `json:"op"`
	K     string   `json:"k"`
	K2    string   `json:"k2"`
	X     big      `json:"x"`
	Y     big      `json:"y"`
	Forms []string `json:"forms"`
}

var goOp = map[string]string{"add": "+", "sub": "-", "mul": "*", "div": "/", "rem": "%", "and": "&", "or": "|", "xor": "^",
	"andnot": "&^", "shl": "<<", "shr": ">>", "eq": "==", "ne": "!=", "lt": "<", "le": "<=", "gt": ">", "ge": ">=", "neg": "-", "not": "^"}

func isCmp(op string) bool {
	switch op {
	case "eq", "ne", "lt", "le", "gt", "ge":
		return true
	}
	return false
}

var formNo = map[string]int{"var": 0, "lit": 1, "assign": 2, "cond": 3}

// aluSource writes one program for a chunk of cases.
func aluSource(cs []aluCase) string {
	var b, m strings.Builder
	b.WriteString("package main\n\n")
	b.WriteString("func rec(id int, form int) {\n\tif e := recover(); e != nil {\n\t\tif err, ok := e.(error); ok {\n\t\t\tprintln(\"P\", id, form, err.Error())\n\t\t} else {\n\t\t\tprintln(\"Q\", id, form)\n\t\t}\n\t}\n}\n\n")
	for _, c := range cs {
		rt := c.K // result type
		wide := "int64"
		if strings.HasPrefix(c.K, "u") {
			wide = "uint64"
		}
		if c.Op == "conv" {
			rt = c.K2
			wide = "int64"
			if strings.HasPrefix(c.K2, "u") {
				wide = "uint64"
			}
		}
		for _, form := range c.Forms {
			f := formNo[form]
			fn := fmt.Sprintf("c%d_%d", c.ID, f)
			tn := fmt.Sprintf("t%d_%d", c.ID, f)
			unary := c.Op == "neg" || c.Op == "not" || c.Op == "conv"
			switch {
			case c.Op == "conv":
				fmt.Fprintf(&b, "func %s(x %s) %s { return %s(x) }\n", fn, c.K, rt, c.K2)
			case unary:
				fmt.Fprintf(&b, "func %s(x %s) %s { return %sx }\n", fn, c.K, rt, goOp[c.Op])
			case isCmp(c.Op) && form == "var":
				fmt.Fprintf(&b, "func %s(x %s, y %s) bool { return x %s y }\n", fn, c.K, c.K2, goOp[c.Op])
			case isCmp(c.Op) && form == "lit":
				fmt.Fprintf(&b, "func %s(x %s, y %s) bool { return x %s %s }\n", fn, c.K, c.K2, goOp[c.Op], c.Y.dec())
			case isCmp(c.Op) && form == "cond":
				fmt.Fprintf(&b, "func %s(x %s, y %s) bool {\n\tif x %s y {\n\t\treturn true\n\t}\n\treturn false\n}\n", fn, c.K, c.K2, goOp[c.Op])
			case form == "var":
				fmt.Fprintf(&b, "func %s(x %s, y %s) %s { return x %s y }\n", fn, c.K, c.K2, rt, goOp[c.Op])
			case form == "lit":
				fmt.Fprintf(&b, "func %s(x %s, y %s) %s { return x %s %s }\n", fn, c.K, c.K2, rt, goOp[c.Op], c.Y.dec())
			case form == "assign":
				fmt.Fprintf(&b, "func %s(x %s, y %s) %s {\n\tx %s= y\n\treturn x\n}\n", fn, c.K, c.K2, rt, goOp[c.Op])
			}
			if unary {
				fmt.Fprintf(&b, "func %s(x %s) {\n\tdefer rec(%d, %d)\n\tr := %s(x)\n\tprintln(\"V\", %d, %d, r, %s(r))\n}\n", tn, c.K, c.ID, f, fn, c.ID, f, wide)
				fmt.Fprintf(&m, "\t%s(%s)\n", tn, c.X.dec())
			} else if isCmp(c.Op) {
				fmt.Fprintf(&b, "func %s(x %s, y %s) {\n\tdefer rec(%d, %d)\n\tr := %s(x, y)\n\tprintln(\"B\", %d, %d, r)\n}\n", tn, c.K, c.K2, c.ID, f, fn, c.ID, f)
				fmt.Fprintf(&m, "\t%s(%s, %s)\n", tn, c.X.dec(), c.Y.dec())
			} else {
				fmt.Fprintf(&b, "func %s(x %s, y %s) {\n\tdefer rec(%d, %d)\n\tr := %s(x, y)\n\tprintln(\"V\", %d, %d, r, %s(r))\n}\n", tn, c.K, c.K2, c.ID, f, fn, c.ID, f, wide)
				fmt.Fprintf(&m, "\t%s(%s, %s)\n", tn, c.X.dec(), c.Y.dec())
			}
		}
	}
	// main calls groups of at most 60 calls each: a Scriggo function can refer to at most 256 others
	calls := strings.Split(strings.TrimSuffix(m.String(), "\n"), "\n")
	var mm strings.Builder
	for g := 0; g*60 < len(calls); g++ {
		fmt.Fprintf(&b, "\nfunc g%d() {\n%s\n}\n", g, strings.Join(calls[g*60:min(g*60+60, len(calls))], "\n"))
		fmt.Fprintf(&mm, "\tg%d()\n", g)
	}
	b.WriteString("\nfunc main() {\n" + mm.String() + "}\n")
	return b.String()
}

type key struct{ id, form int }

// aluRun runs a chunk and returns one observation per (case, form).
func aluRun(cs []aluCase, retry bool) []any {
	src := aluSource(cs)
	res := runProgram(src)
	if (res.Outcome == "builderror" || res.Outcome == "hostpanic") && len(cs) > 1 && retry {
		// find the culprit: every case alone
		var out []any
		for _, c := range cs {
			out = append(out, aluRun([]aluCase{c}, false)...)
		}
		return out
	}
	got := map[key]map[string]any{}
	for _, l := range res.Lines {
		if len(l) < 3 {
			continue
		}
		tag, _ := l[0].(string)
		id, ok1 := l[1].(int)
		f, ok2 := l[2].(int)
		if !ok1 || !ok2 {
			continue
		}
		o := map[string]any{}
		switch {
		case tag == "V" && len(l) == 5 && isIntValue(l[3]) && isIntValue(l[4]):
			v, _ := bigOf(fmt.Sprint(l[3]))
			w, _ := bigOf(fmt.Sprint(l[4]))
			o["t"], o["v"], o["w"], o["msg"] = "int", v, w, ""
			o["vt"] = fmt.Sprintf("%T", l[3])
		case tag == "B" && len(l) == 4:
			bv, ok := l[3].(bool)
			if !ok {
				continue
			}
			v := big{S: 0, L: []int{}}
			if bv {
				v = big{S: 1, L: []int{1}}
			}
			o["t"], o["v"], o["w"], o["msg"], o["vt"] = "bool", v, v, "", "bool"
		case tag == "P" && len(l) == 4:
			z := big{S: 0, L: []int{}}
			o["t"], o["v"], o["w"], o["msg"], o["vt"] = "panic", z, z, fmt.Sprint(l[3]), ""
		case tag == "Q":
			z := big{S: 0, L: []int{}}
			o["t"], o["v"], o["w"], o["msg"], o["vt"] = "panic", z, z, "non-error panic value", ""
		default:
			continue
		}
		got[key{id, f}] = o
	}
	var out []any
	for _, c := range cs {
		for _, form := range c.Forms {
			o := got[key{c.ID, formNo[form]}]
			if o == nil {
				z := big{S: 0, L: []int{}}
				t := "none"
				if res.Outcome != "ok" {
					t = res.Outcome
				}
				o = map[string]any{"t": t, "v": z, "w": z, "msg": res.Msg, "vt": ""}
			}
			o["id"], o["fam"], o["op"], o["k"], o["k2"], o["x"], o["y"], o["form"] = c.ID, "intalu", c.Op, c.K, c.K2, c.X, c.Y, form
			o["forms"] = c.Forms
			if *flagKeepSrc {
				o["src"] = src
				o["raw"] = rawText(res)
			}
			out = append(out, o)
		}
	}
	return out
}

// ---------------------------------------------------------------- initorder

type initCase struct {
	ID     int     `json:"id"`
	Fam    string  `json:"fam"`
	NV     int     `json:"nv"`
	NF     int     `json:"nf"`
	Deps   [][]int `json:"deps"`
	Orders []int   `json:"orders"` // textual orders to write the graph in: 0 = as listed, 1 = every list reversed
}

// initSource: variable i is  var vI = t(I, <referenced variables and calls of referenced functions>);
// function j refers to variables by reading them and to functions by `_ = fJ` (never calls: recursion
// among the functions must not run).  The references are written in the order of deps (reversed when rev).
func initSource(c initCase, rev bool) string {
	depsOf := func(n int) []int {
		d := c.Deps[n-1]
		if !rev {
			return d
		}
		r := make([]int, len(d))
		for i, x := range d {
			r[len(d)-1-i] = x
		}
		return r
	}
	var b strings.Builder
	b.WriteString("package main\n\nfunc t(n int, d ...int) int {\n\tprintln(n)\n\treturn n\n}\n\n")
	for i := 1; i <= c.NV; i++ {
		fmt.Fprintf(&b, "var v%d = t(%d", i, i)
		for _, d := range depsOf(i) {
			if d <= c.NV {
				fmt.Fprintf(&b, ", v%d", d)
			} else {
				fmt.Fprintf(&b, ", f%d()", d)
			}
		}
		b.WriteString(")\n")
	}
	for j := c.NV + 1; j <= c.NV+c.NF; j++ {
		fmt.Fprintf(&b, "\nfunc f%d() int {\n\ts := 0\n", j)
		for _, d := range depsOf(j) {
			if d <= c.NV {
				fmt.Fprintf(&b, "\ts += v%d\n", d)
			} else {
				fmt.Fprintf(&b, "\t_ = f%d\n", d)
			}
		}
		b.WriteString("\treturn s\n}\n")
	}
	b.WriteString("\nfunc main() {\n\tprintln(0)\n}\n")
	return b.String()
}

func initRun(c initCase) []any {
	orders := c.Orders
	if len(orders) == 0 {
		orders = []int{0}
	}
	var out []any
	for _, ord := range orders {
		src := initSource(c, ord == 1)
		res := runProgram(src)
		order := []int{}
		for _, l := range res.Lines {
			if len(l) == 1 {
				if n, ok := l[0].(int); ok {
					order = append(order, n)
					continue
				}
			}
			order = append(order, -1)
		}
		form := "asc"
		if ord == 1 {
			form = "desc"
		}
		o := map[string]any{"id": c.ID, "fam": "initorder", "nv": c.NV, "nf": c.NF, "deps": c.Deps, "orders": orders, "form": form,
			"outcome": res.Outcome, "order": order, "msg": res.Msg}
		if *flagKeepSrc {
			o["src"] = src
			o["raw"] = rawText(res)
		}
		out = append(out, o)
	}
	return out
}

// ---------------------------------------------------------------- conv

type convCase struct {
	ID  int    `json:"id"`
	Fam string `json:"fam"`
	Op  string `json:"op"`
	K   string `json:"k"`
	V   int    `json:"v"`
	A   []int  `json:"a"`
}

func strLit(a []int) string {
	var b strings.Builder
	b.WriteByte('"')
	for _, c := range a {
		fmt.Fprintf(&b, "\\x%02x", c)
	}
	b.WriteByte('"')
	return b.String()
}

func intList(a []int) string {
	parts := make([]string, len(a))
	for i, v := range a {
		parts[i] = fmt.Sprint(v)
	}
	return strings.Join(parts, ", ")
}

func convSource(cs []convCase) string {
	var b, m strings.Builder
	b.WriteString("package main\n\n")
	b.WriteString("func showS(id int, s string) {\n\tprint(\"S\", \" \", id)\n\tfor i := 0; i < len(s); i++ {\n\t\tprint(\" \", s[i])\n\t}\n\tprintln()\n}\n")
	b.WriteString("func showR(id int, r []rune) {\n\tprint(\"S\", \" \", id)\n\tfor i := 0; i < len(r); i++ {\n\t\tprint(\" \", r[i])\n\t}\n\tprintln()\n}\n")
	b.WriteString("func showB(id int, r []byte) {\n\tprint(\"S\", \" \", id)\n\tfor i := 0; i < len(r); i++ {\n\t\tprint(\" \", r[i])\n\t}\n\tprintln()\n}\n")
	b.WriteString("func showI(id int, r []int) {\n\tprint(\"S\", \" \", id)\n\tfor i := 0; i < len(r); i++ {\n\t\tprint(\" \", r[i])\n\t}\n\tprintln()\n}\n\n")
	for _, c := range cs {
		switch c.Op {
		case "i2s":
			fmt.Fprintf(&b, "func c%d(x %s) string { return string(x) }\n", c.ID, c.K)
			fmt.Fprintf(&m, "\tshowS(%d, c%d(%d))\n", c.ID, c.ID, c.V)
		case "r2s":
			fmt.Fprintf(&b, "func c%d(r []rune) string { return string(r) }\n", c.ID)
			fmt.Fprintf(&m, "\tshowS(%d, c%d([]rune{%s}))\n", c.ID, c.ID, intList(c.A))
		case "s2r":
			fmt.Fprintf(&b, "func c%d(s string) []rune { return []rune(s) }\n", c.ID)
			fmt.Fprintf(&m, "\tshowR(%d, c%d(%s))\n", c.ID, c.ID, strLit(c.A))
		case "range":
			fmt.Fprintf(&b, "func c%d(s string) []int {\n\to := []int{}\n\tfor i, r := range s {\n\t\to = append(o, i, int(r))\n\t}\n\treturn o\n}\n", c.ID)
			fmt.Fprintf(&m, "\tshowI(%d, c%d(%s))\n", c.ID, c.ID, strLit(c.A))
		case "s2b":
			fmt.Fprintf(&b, "func c%d(s string) []byte { return []byte(s) }\n", c.ID)
			fmt.Fprintf(&m, "\tshowB(%d, c%d(%s))\n", c.ID, c.ID, strLit(c.A))
		case "b2s":
			fmt.Fprintf(&b, "func c%d(r []byte) string { return string(r) }\n", c.ID)
			fmt.Fprintf(&m, "\tshowS(%d, c%d([]byte{%s}))\n", c.ID, c.ID, intList(c.A))
		}
	}
	calls := strings.Split(strings.TrimSuffix(m.String(), "\n"), "\n")
	var mm strings.Builder
	for g := 0; g*60 < len(calls); g++ {
		fmt.Fprintf(&b, "\nfunc g%d() {\n%s\n}\n", g, strings.Join(calls[g*60:min(g*60+60, len(calls))], "\n"))
		fmt.Fprintf(&mm, "\tg%d()\n", g)
	}
	b.WriteString("\nfunc main() {\n" + mm.String() + "}\n")
	return b.String()
}

func convRun(cs []convCase, retry bool) []any {
	src := convSource(cs)
	res := runProgram(src)
	if res.Outcome != "ok" && len(cs) > 1 && retry {
		var out []any
		for _, c := range cs {
			out = append(out, convRun([]convCase{c}, false)...)
		}
		return out
	}
	got := map[int][]int{}
	for _, l := range res.Lines {
		if len(l) < 2 {
			continue
		}
		if tag, _ := l[0].(string); tag != "S" {
			continue
		}
		id, ok := l[1].(int)
		if !ok {
			continue
		}
		vals := []int{}
		for _, v := range l[2:] {
			switch x := v.(type) {
			case uint8:
				vals = append(vals, int(x))
			case int32:
				vals = append(vals, int(x))
			case int:
				vals = append(vals, x)
			default:
				vals = append(vals, -999999)
			}
		}
		got[id] = vals
	}
	var out []any
	for _, c := range cs {
		o := map[string]any{"id": c.ID, "fam": "conv", "op": c.Op, "k": c.K, "v": c.V, "a": c.A, "msg": ""}
		if vals, ok := got[c.ID]; ok {
			o["outcome"], o["out"] = "ok", vals
		} else {
			o["outcome"], o["out"], o["msg"] = "none", []int{}, res.Msg
			if res.Outcome != "ok" {
				o["outcome"] = res.Outcome
			}
		}
		if *flagKeepSrc {
			o["src"] = src
			o["raw"] = rawText(res)
		}
		out = append(out, o)
	}
	return out
}

// ---------------------------------------------------------------- minigo

type node = map[string]any

func nodesOf(v any) []node {
	a, _ := v.([]any)
	out := make([]node, len(a))
	for i, x := range a {
		out[i], _ = x.(map[string]any)
	}
	return out
}

func asNode(v any) node { n, _ := v.(map[string]any); return n }
func asInt(v any) int   { f, _ := v.(float64); return int(f) }
func asStr(v any) string {
	s, _ := v.(string)
	return s
}

var fieldName = map[int]string{1: "a", 2: "b"}

// mgR renders a program of the mini language as Go source.
type mgR struct {
	funcs   [][]node // bodies of the top-level functions f1, f2, ...
	literal bool     // source form "literal": references to top-level functions are written as function literals
}

// mgExpr writes an expression of the mini language as Go source.
func (g *mgR) expr(e node) string {
	switch asStr(e["e"]) {
	case "c":
		if n := asInt(e["n"]); n < 0 {
			return fmt.Sprintf("(%d)", n)
		}
		return fmt.Sprint(asInt(e["n"]))
	case "str":
		var a []int
		for _, x := range e["b"].([]any) {
			a = append(a, asInt(x))
		}
		return strLit(a)
	case "v":
		return fmt.Sprintf("v%d", asInt(e["v"]))
	case "nocond": // the absent condition of a for statement
		return ""
	case "bin", "cmp":
		return "(" + g.expr(asNode(e["a"])) + " " + asStr(e["op"]) + " " + g.expr(asNode(e["b"])) + ")"
	case "and":
		return "(" + g.expr(asNode(e["a"])) + " && " + g.expr(asNode(e["b"])) + ")"
	case "or":
		return "(" + g.expr(asNode(e["a"])) + " || " + g.expr(asNode(e["b"])) + ")"
	case "not":
		return "(!" + g.expr(asNode(e["a"])) + ")"
	case "idx":
		return g.expr(asNode(e["a"])) + "[" + g.expr(asNode(e["i"])) + "]"
	case "mapget":
		return g.expr(asNode(e["a"])) + "[" + g.expr(asNode(e["k"])) + "]"
	case "len":
		return "len(" + g.expr(asNode(e["a"])) + ")"
	case "cap":
		return "cap(" + g.expr(asNode(e["a"])) + ")"
	case "slice":
		return g.expr(asNode(e["a"])) + "[" + g.expr(asNode(e["lo"])) + ":" + g.expr(asNode(e["hi"])) + "]"
	case "field":
		return g.expr(asNode(e["a"])) + "." + fieldName[asInt(e["f"])]
	case "addr":
		return fmt.Sprintf("&v%d", asInt(e["v"]))
	case "nilptr":
		return "(*S)(nil)"
	case "nilmap":
		return "map[int]int(nil)"
	case "nilslice":
		if asStr(e["ty"]) == "func" {
			return "[]func() int(nil)"
		}
		return "[]int(nil)"
	case "mkmap":
		return "map[int]int{}"
	case "mkslice":
		return fmt.Sprintf("make([]int, %d, %d)", asInt(e["len"]), asInt(e["cap"]))
	case "mkfuncs":
		return fmt.Sprintf("make([]func() int, %d)", asInt(e["len"]))
	case "lit", "slicelit":
		es := nodesOf(e["es"])
		parts := make([]string, len(es))
		for i, x := range es {
			parts[i] = g.expr(x)
		}
		switch {
		case asStr(e["e"]) == "slicelit":
			return "[]int{" + strings.Join(parts, ", ") + "}"
		case asStr(e["of"]) == "st":
			return "S{" + strings.Join(parts, ", ") + "}"
		}
		return fmt.Sprintf("[%d]int{%s}", len(es), strings.Join(parts, ", "))
	case "append":
		return "append(" + g.expr(asNode(e["a"])) + ", " + g.expr(asNode(e["x"])) + ")"
	case "clo":
		return "func() int {\n" + g.block(nodesOf(e["body"]), "\t\t\t") + "\t\t}"
	case "fn": // a top-level function: by name, or (form "literal") written out as a function literal where it is used
		i := asInt(e["i"])
		if g.literal && i >= 1 && i <= len(g.funcs) {
			return "func() int {\n" + g.block(g.funcs[i-1], "\t\t\t") + "\t\t}"
		}
		return fmt.Sprintf("f%d", i)
	case "recover":
		return "recover()"
	case "isnil":
		return "(" + g.expr(asNode(e["a"])) + " == nil)"
	case "call":
		return g.expr(asNode(e["f"])) + "()"
	case "box":
		return "any(" + g.expr(asNode(e["a"])) + ")"
	case "assert":
		return g.expr(asNode(e["a"])) + ".(" + asStr(e["ty"]) + ")"
	}
	return "/*?" + asStr(e["e"]) + "*/"
}

func (g *mgR) simple(s node) string {
	switch asStr(s["s"]) {
	case "set":
		lv := asNode(s["lv"])
		var l string
		switch asStr(lv["l"]) {
		case "v":
			l = fmt.Sprintf("v%d", asInt(lv["v"]))
		case "idx":
			l = fmt.Sprintf("v%d[%s]", asInt(lv["v"]), g.expr(asNode(lv["i"])))
		case "map":
			l = fmt.Sprintf("v%d[%s]", asInt(lv["v"]), g.expr(asNode(lv["k"])))
		case "field":
			l = fmt.Sprintf("v%d.%s", asInt(lv["v"]), fieldName[asInt(lv["f"])])
		}
		return l + " = " + g.expr(asNode(s["e"]))
	case "nop":
		return ""
	}
	return "/*?*/"
}

func lbl(s node, key string) string {
	if l := asStr(s[key]); l != "" {
		return " " + l
	}
	return ""
}

func (g *mgR) block(b []node, ind string) string {
	var o strings.Builder
	for _, s := range b {
		switch asStr(s["s"]) {
		case "nop":
		case "label":
			fmt.Fprintf(&o, "%s:\n", asStr(s["name"]))
		case "decl":
			fmt.Fprintf(&o, "%sv%d := %s\n%s_ = v%d\n", ind, asInt(s["v"]), g.expr(asNode(s["e"])), ind, asInt(s["v"]))
		case "set":
			fmt.Fprintf(&o, "%s%s\n", ind, g.simple(s))
		case "print":
			es := nodesOf(s["es"])
			parts := make([]string, len(es))
			for i, x := range es {
				parts[i] = g.expr(asNode(x["e"]))
			}
			fmt.Fprintf(&o, "%sprintln(%s)\n", ind, strings.Join(parts, ", "))
		case "if":
			fmt.Fprintf(&o, "%sif %s {\n%s%s}", ind, g.expr(asNode(s["c"])), g.block(nodesOf(s["a"]), ind+"\t"), ind)
			if eb := nodesOf(s["b"]); len(eb) > 0 {
				fmt.Fprintf(&o, " else {\n%s%s}", g.block(eb, ind+"\t"), ind)
			}
			o.WriteString("\n")
		case "for":
			if l := asStr(s["label"]); l != "" {
				fmt.Fprintf(&o, "%s:\n", l)
			}
			init := ""
			if v := asInt(s["v"]); v != 0 {
				init = fmt.Sprintf("v%d := %s", v, g.expr(asNode(s["init"])))
			}
			cond, post := g.expr(asNode(s["cond"])), g.simple(asNode(s["post"]))
			if init == "" && cond == "" && post == "" { // the bare for statement
				fmt.Fprintf(&o, "%sfor {\n%s%s}\n", ind, g.block(nodesOf(s["body"]), ind+"\t"), ind)
				break
			}
			fmt.Fprintf(&o, "%sfor %s; %s; %s {\n%s%s}\n", ind, init, cond, post, g.block(nodesOf(s["body"]), ind+"\t"), ind)
		case "ranges", "rangesl":
			if l := asStr(s["label"]); l != "" {
				fmt.Fprintf(&o, "%s:\n", l)
			}
			iv, rv := "_", "_"
			use := ""
			if v := asInt(s["iv"]); v != 0 {
				iv = fmt.Sprintf("v%d", v)
				use += fmt.Sprintf("%s\t_ = v%d\n", ind, v)
			}
			if v := asInt(s["rv"]); v != 0 {
				rv = fmt.Sprintf("v%d", v)
				use += fmt.Sprintf("%s\t_ = v%d\n", ind, v)
			}
			head := fmt.Sprintf("for %s, %s := range %s", iv, rv, g.expr(asNode(s["e"])))
			if iv == "_" && rv == "_" {
				head = "for range " + g.expr(asNode(s["e"]))
			}
			fmt.Fprintf(&o, "%s%s {\n%s%s%s}\n", ind, head, use, g.block(nodesOf(s["body"]), ind+"\t"), ind)
		case "switch":
			fmt.Fprintf(&o, "%sswitch %s {\n", ind, g.expr(asNode(s["e"])))
			for _, c := range nodesOf(s["clauses"]) {
				if d, _ := c["def"].(bool); d {
					fmt.Fprintf(&o, "%sdefault:\n", ind)
				} else {
					var vals []string
					for _, x := range c["vals"].([]any) {
						vals = append(vals, fmt.Sprint(asInt(x)))
					}
					fmt.Fprintf(&o, "%scase %s:\n", ind, strings.Join(vals, ", "))
				}
				o.WriteString(g.block(nodesOf(c["body"]), ind+"\t"))
				if ft, _ := c["ft"].(bool); ft {
					fmt.Fprintf(&o, "%s\tfallthrough\n", ind)
				}
			}
			fmt.Fprintf(&o, "%s}\n", ind)
		case "select":
			fmt.Fprintf(&o, "%sselect {\n%sdefault:\n%s%s}\n", ind, ind, g.block(nodesOf(s["body"]), ind+"\t"), ind)
		case "break", "continue", "goto":
			fmt.Fprintf(&o, "%s%s%s\n", ind, asStr(s["s"]), lbl(s, "label"))
		case "del":
			fmt.Fprintf(&o, "%sdelete(v%d, %s)\n", ind, asInt(s["v"]), g.expr(asNode(s["k"])))
		case "expr":
			fmt.Fprintf(&o, "%s_ = %s\n", ind, g.expr(asNode(s["e"])))
		case "ret":
			fmt.Fprintf(&o, "%sreturn %s\n", ind, g.expr(asNode(s["e"])))
		case "defer":
			fmt.Fprintf(&o, "%sdefer %s()\n", ind, g.expr(asNode(s["f"])))
		case "panic":
			fmt.Fprintf(&o, "%spanic(%s)\n", ind, g.expr(asNode(s["e"])))
		default:
			fmt.Fprintf(&o, "%s/*?%s*/\n", ind, asStr(s["s"]))
		}
	}
	return o.String()
}

type mgCase struct {
	ID    int            `json:"id"`
	Fam   string         `json:"fam"`
	Shape string         `json:"shape"`
	Forms []string       `json:"forms"` // source forms to write the program in ("named", "literal"); none: one form ""
	Prog  map[string]any `json:"prog"`
	Exp   map[string]any `json:"exp"`
	Alt   map[string]any `json:"alt"` // carried through untouched, like exp
	Nest  map[string]any `json:"nest"` // carried through untouched (what the judge's signature names, MiniGoNest.tla)
	Tmo   int            `json:"tmo"`  // time limit of the run in milliseconds (0: 20 s)
}

// the most lines a program of the mini language may print (the longest expected output has a few hundred)
const mgMaxLines = 20000

func mgSource(c mgCase, form string) string {
	g := &mgR{literal: form == "literal"}
	if fs, ok := c.Prog["funcs"].([]any); ok {
		for _, f := range fs {
			g.funcs = append(g.funcs, nodesOf(f))
		}
	}
	var b strings.Builder
	b.WriteString("package main\n\ntype S struct{ a, b int }\n\n")
	if !g.literal {
		for i, f := range g.funcs {
			fmt.Fprintf(&b, "func f%d() int {\n%s}\n\n", i+1, g.block(f, "\t"))
		}
	}
	b.WriteString("func main() {\n" + g.block(nodesOf(c.Prog["body"]), "\t") + "}\n")
	return b.String()
}

func mgRun(c mgCase) []any {
	forms := c.Forms
	if len(forms) == 0 {
		forms = []string{""}
	}
	var out []any
	for _, form := range forms {
		out = append(out, mgRunForm(c, form))
	}
	return out
}

func mgRunForm(c mgCase, form string) any {
	src := mgSource(c, form)
	limit := 20 * time.Second
	if c.Tmo > 0 {
		limit = time.Duration(c.Tmo) * time.Millisecond
	}
	res := runFilesLim(scriggo.Files{"main.go": []byte(src)}, limit, mgMaxLines)
	if (res.Outcome == "runaway" || res.Outcome == "timeout") && len(res.Lines) > 400 { // (the log keeps the beginning)
		res.Lines = res.Lines[:400]
	}
	lines := [][]any{}
	for _, l := range res.Lines {
		toks := []any{}
		for _, v := range l {
			switch x := v.(type) {
			case string:
				toks = append(toks, map[string]any{"k": "s", "n": 0, "s": drv.IntsS(x)})
			case bool:
				n := 0
				if x {
					n = 1
				}
				toks = append(toks, map[string]any{"k": "b", "n": n, "s": []int{}})
			case int:
				toks = append(toks, map[string]any{"k": "i", "n": x, "s": []int{}})
			case uint8:
				toks = append(toks, map[string]any{"k": "i", "n": int(x), "s": []int{}})
			case int32:
				toks = append(toks, map[string]any{"k": "i", "n": int(x), "s": []int{}})
			default:
				toks = append(toks, map[string]any{"k": fmt.Sprintf("%T", v), "n": 0, "s": drv.IntsS(fmt.Sprint(v))})
			}
		}
		lines = append(lines, toks)
	}
	// (the program is not echoed: the check joins the observation with its case by id)
	o := map[string]any{"id": c.ID, "fam": "minigo", "shape": c.Shape, "exp": c.Exp, "form": form,
		"out": lines, "outcome": res.Outcome, "msg": drv.IntsS(res.Msg)}
	if c.Forms != nil {
		o["forms"] = c.Forms
	}
	if c.Alt != nil {
		o["alt"] = c.Alt
	}
	if c.Nest != nil {
		o["nest"] = c.Nest
	}
	if c.Tmo > 0 {
		o["tmo"] = c.Tmo
	}
	if *flagKeepSrc {
		o["src"] = src
		o["raw"] = rawText(res)
	}
	return o
}

// ---------------------------------------------------------------- misc: variadic, select, constuse

type miscCase struct {
	ID  int    `json:"id"`
	Fam string `json:"fam"`
	// variadic
	NFix int    `json:"nfix"`
	Ety  string `json:"ety"`
	Form string `json:"form"`
	Mode string `json:"mode"`
	NVar int    `json:"nvar"`
	Src  int    `json:"spread"`
	// select
	Types []string `json:"types"`
	Dirs  []string `json:"dirs"`
	Ready int      `json:"ready"`
	Def   int      `json:"def"`
	// constuse
	Kind string   `json:"kind"`
	Decl int      `json:"decl"`
	How  string   `json:"how"`
	Uses []string `json:"uses"`
	// maprange (Form is shared with variadic)
	Kt    string `json:"kt"`
	Vt    string `json:"vt"`
	Live  int    `json:"live"`
	ILive int    `json:"ilive"`
}

// the value n of element type t, as a Go expression: n itself, or the string of n bytes
func valOf(t string, n int) string {
	if t == "string" {
		return `"` + strings.Repeat("x", n) + `"`
	}
	return fmt.Sprint(n)
}

// the expression that prints as the number behind a value of element type t
func numOf(t string, e string) string {
	if t == "string" {
		return "len(" + e + ")"
	}
	return e
}

func variadicSource(c miscCase) string {
	var b strings.Builder
	b.WriteString("package main\n\n")
	params, shows := "", ""
	for j := 1; j <= c.NFix; j++ {
		params += fmt.Sprintf("a%d int, ", j)
		shows += fmt.Sprintf("\tprint(\" \", a%d)\n", j)
	}
	sig := "(" + params + "v ..." + c.Ety + ")"
	body := " {\n\tprint(\"F\")\n" + shows +
		"\tif v == nil {\n\t\tprint(\" \", 1)\n\t} else {\n\t\tprint(\" \", 0)\n\t}\n\tprint(\" \", len(v))\n" +
		"\tfor i := 0; i < len(v); i++ {\n\t\tprint(\" \", " + numOf(c.Ety, "v[i]") + ")\n\t}\n\tprintln()\n" +
		"\tif len(v) > 0 {\n\t\tv[0] = " + valOf(c.Ety, 77) + "\n\t}\n}"
	if c.Form == "named" {
		b.WriteString("func f" + sig + body + "\n\n")
	}
	b.WriteString("func main() {\n")
	if c.Form != "named" {
		b.WriteString("\tf := func" + sig + strings.ReplaceAll(body, "\n", "\n\t") + "\n")
	}
	args := []string{}
	for j := 1; j <= c.NFix; j++ {
		args = append(args, fmt.Sprint(100+j))
	}
	if c.Mode == "args" {
		for j := 1; j <= c.NVar; j++ {
			args = append(args, valOf(c.Ety, 10+j))
		}
		b.WriteString("\tf(" + strings.Join(args, ", ") + ")\n")
	} else {
		switch c.Src {
		case 0:
			b.WriteString("\ts := []" + c.Ety + "(nil)\n")
		case 1:
			b.WriteString("\ts := []" + c.Ety + "{}\n")
		default:
			b.WriteString("\ts := []" + c.Ety + "{" + valOf(c.Ety, 21) + ", " + valOf(c.Ety, 22) + "}\n")
		}
		args = append(args, "s...")
		b.WriteString("\tf(" + strings.Join(args, ", ") + ")\n")
		if c.Src == 2 {
			b.WriteString("\tprintln(\"S\", " + numOf(c.Ety, "s[0]") + ")\n")
		}
	}
	b.WriteString("}\n")
	return b.String()
}

func selectSource(c miscCase) string {
	var b strings.Builder
	b.WriteString("package main\n\nfunc main() {\n")
	n := len(c.Dirs)
	for i := 1; i <= n; i++ {
		fmt.Fprintf(&b, "\tc%d := make(chan %s, 1)\n", i, c.Types[i-1])
	}
	for i := 1; i <= n; i++ {
		// a send case can proceed iff its channel is empty, a receive case iff it holds a value
		if (c.Dirs[i-1] == "send") != (i == c.Ready) {
			fmt.Fprintf(&b, "\tc%d <- %s\n", i, valOf(c.Types[i-1], 50+i))
		}
	}
	b.WriteString("\tchosen, got := -5, -1\n\tselect {\n")
	for i := 1; i <= n; i++ {
		if c.Dirs[i-1] == "send" {
			fmt.Fprintf(&b, "\tcase c%d <- %s:\n\t\tchosen = %d\n", i, valOf(c.Types[i-1], 10+i), i)
		} else {
			fmt.Fprintf(&b, "\tcase v := <-c%d:\n\t\tchosen = %d\n\t\tgot = %s\n", i, i, numOf(c.Types[i-1], "v"))
		}
	}
	if c.Def == 1 {
		b.WriteString("\tdefault:\n\t\tchosen = 0\n")
	}
	b.WriteString("\t}\n\tprint(\"R\", \" \", chosen, \" \", got)\n")
	for i := 1; i <= n; i++ {
		fmt.Fprintf(&b, "\tprint(\" \", len(c%d))\n\tif len(c%d) > 0 {\n\t\tw := <-c%d\n\t\tprint(\" \", %s)\n\t} else {\n\t\tprint(\" \", -1)\n\t}\n", i, i, i, numOf(c.Types[i-1], "w"))
	}
	b.WriteString("\tprintln()\n}\n")
	return b.String()
}

func constuseSource(c miscCase) string {
	var b strings.Builder
	b.WriteString("package main\n\ntype B bool\ntype I int\n\n")
	k := "true"
	if c.Kind == "int" {
		k = "1"
	}
	if c.Decl == 1 {
		b.WriteString("const k = " + k + "\n\n")
		k = "k"
	}
	b.WriteString("func ty(x interface{}) string {\n\tswitch x.(type) {\n")
	for _, t := range []string{"bool", "B", "int", "I", "int8", "float64"} {
		fmt.Fprintf(&b, "\tcase %s:\n\t\treturn \"%s\"\n", t, t)
	}
	b.WriteString("\t}\n\treturn \"?\"\n}\n\nfunc main() {\n")
	for j, u := range c.Uses {
		t := u
		if u == "any" {
			t = "interface{}"
		}
		if c.How == "var" {
			fmt.Fprintf(&b, "\tvar x%d %s = %s\n", j+1, t, k)
		} else {
			fmt.Fprintf(&b, "\tx%d := %s(%s)\n", j+1, t, k)
		}
	}
	for j := range c.Uses {
		fmt.Fprintf(&b, "\tt%d := ty(x%d)\n", j+1, j+1)
	}
	b.WriteString("\tprint(\"T\")\n")
	for j := range c.Uses {
		fmt.Fprintf(&b, "\tprint(\" \", t%d)\n", j+1)
	}
	b.WriteString("\tprintln()\n}\n")
	return b.String()
}

// maprangeSource: a range statement over a map literal with one entry (7 / "a" -> 8 / "b"), between other live variables.
// A string is shown as its length and its bytes, one println each.
func maprangeSource(c miscCase) string {
	var b strings.Builder
	b.WriteString("package main\n\nfunc main() {\n")
	lit := func(t string, n int, str string) string {
		if t == "string" {
			return `"` + str + `"`
		}
		return fmt.Sprint(n)
	}
	hasK, hasV := c.Form == "k" || c.Form == "kv", c.Form == "kv" || c.Form == "v"
	if hasK {
		b.WriteString("\tka := " + lit(c.Kt, 100, "k") + "\n")
	}
	if hasV {
		b.WriteString("\tva := " + lit(c.Vt, 200, "v") + "\n")
	}
	if c.Live >= 1 {
		b.WriteString("\ts1 := \"p\"\n")
	}
	if c.Live >= 2 {
		b.WriteString("\ts2 := \"q\"\n")
	}
	if c.ILive >= 1 {
		b.WriteString("\tn1 := 3\n")
	}
	m := fmt.Sprintf("map[%s]%s{%s: %s}", c.Kt, c.Vt, lit(c.Kt, 7, "a"), lit(c.Vt, 8, "b"))
	switch c.Form {
	case "k":
		b.WriteString("\tfor k := range " + m + " {\n\t\tka += k\n\t}\n")
	case "kv":
		b.WriteString("\tfor k, v := range " + m + " {\n\t\tka += k\n\t\tva += v\n\t}\n")
	default:
		b.WriteString("\tfor _, v := range " + m + " {\n\t\tva += v\n\t}\n")
	}
	show := func(t, v string) {
		if t == "string" {
			fmt.Fprintf(&b, "\tprintln(1, len(%s))\n\tfor j := 0; j < len(%s); j++ {\n\t\tprintln(1, int(%s[j]))\n\t}\n", v, v, v)
		} else {
			fmt.Fprintf(&b, "\tprintln(1, %s)\n", v)
		}
	}
	if hasK {
		show(c.Kt, "ka")
	}
	if hasV {
		show(c.Vt, "va")
	}
	if c.Live >= 1 {
		show("string", "s1")
	}
	if c.Live >= 2 {
		show("string", "s2")
	}
	if c.ILive >= 1 {
		show("int", "n1")
	}
	b.WriteString("}\n")
	return b.String()
}

// miscRun runs the program of a case and logs the tokens of its lines (without the leading tag) as "out":
// integers for variadic and select (booleans and other values never occur), type names for constuse.
func miscRun(raw []byte) []any {
	var c miscCase
	o := map[string]any{}
	if err := json.Unmarshal(raw, &c); err != nil {
		return []any{map[string]any{"id": 0, "fam": "misc", "outcome": "badcase", "out": []any{}, "msg": err.Error()}}
	}
	_ = json.Unmarshal(raw, &o) // echo every field of the case
	var src string
	switch c.Fam {
	case "variadic":
		src = variadicSource(c)
	case "select":
		src = selectSource(c)
	case "maprange":
		src = maprangeSource(c)
	default:
		src = constuseSource(c)
	}
	res := runProgram(src)
	out := []any{}
	for _, l := range res.Lines {
		if len(l) == 0 {
			continue
		}
		for _, v := range l[1:] {
			switch x := v.(type) {
			case int:
				out = append(out, x)
			case string:
				if c.Fam == "constuse" {
					out = append(out, x)
				} else {
					out = append(out, -999)
				}
			default:
				if c.Fam == "constuse" {
					out = append(out, fmt.Sprintf("%T", v))
				} else {
					out = append(out, -998)
				}
			}
		}
	}
	o["outcome"], o["out"], o["msg"] = res.Outcome, out, res.Msg
	if *flagKeepSrc {
		o["src"] = src
		o["raw"] = rawText(res)
	}
	return []any{o}
}

// ---------------------------------------------------------------- godata: value semantics of composite data (GoData.tla)

// A case is a straight-line program: the fixed declarations of GoData.tla, then the operations (Go statements, written
// by the specification's alphabet) in order; the observable state is printed before the first and after every operation.
// capk[l] says for the l-th printed line which of cap(s), cap(t), cap(u) it shows (the specification leaves the
// capacity after a growing append open: the reference tells where it is fixed).
type gdCase struct {
	ID   int      `json:"id"`
	Ops  []string `json:"ops"`
	CapK [][]int  `json:"capk"`
}

const gdPreamble = `package main

type T struct {
	x int
	a [2]int
}

func main() {
	i := 1
	a := [3]int{1, 2, 3}
	b := [3]int{4, 5, 6}
	s := make([]int, 2, 4)
	s[0], s[1] = 11, 12
	var t []int
	u := []int{21, 22, 23}
	m := map[int]int{1: 31}
	var n map[int]int
	p := T{41, [2]int{42, 43}}
	q := T{51, [2]int{52, 53}}
	var pi *int
	var pt *T
	f := func() {}
	_ = f
`

// the statements that print one line of observable state (no closure, no address taken: printing must not change
// how the variables are stored)
func gdShow(capk []int) string {
	var b strings.Builder
	b.WriteString("\tprint(i, \" \", a[0], \" \", a[1], \" \", a[2], \" \", b[0], \" \", b[1], \" \", b[2], \" \")\n")
	for k, v := range []string{"s", "t", "u"} {
		b.WriteString("\tprint(" + v + " == nil, \" \", len(" + v + "), \" \")\n")
		if k < len(capk) && capk[k] == 1 {
			b.WriteString("\tprint(cap(" + v + "), \" \")\n")
		}
		b.WriteString("\tfor _, e := range " + v + " {\n\t\tprint(e, \" \")\n\t}\n")
	}
	for _, v := range []string{"m", "n"} {
		b.WriteString("\tprint(" + v + " == nil, \" \", len(" + v + "), \" \", " + v + "[1], \" \", " + v + "[2], \" \", " + v + "[3], \" \")\n")
	}
	b.WriteString("\tprint(p.x, \" \", p.a[0], \" \", p.a[1], \" \", q.x, \" \", q.a[0], \" \", q.a[1], \" \")\n")
	b.WriteString("\tif pi == nil {\n\t\tprint(true, \" \")\n\t} else {\n\t\tprint(false, \" \", *pi, \" \")\n\t}\n")
	b.WriteString("\tif pt == nil {\n\t\tprint(true, \" \")\n\t} else {\n\t\tprint(false, \" \", pt.x, \" \", pt.a[0], \" \", pt.a[1], \" \")\n\t}\n")
	b.WriteString("\tprintln()\n")
	return b.String()
}

func gdSource(c gdCase) string {
	var b strings.Builder
	b.WriteString(gdPreamble)
	capk := func(l int) []int {
		if l < len(c.CapK) {
			return c.CapK[l]
		}
		return nil
	}
	b.WriteString(gdShow(capk(0)))
	for j, op := range c.Ops {
		b.WriteString("\t" + op + "\n")
		b.WriteString(gdShow(capk(j + 1)))
	}
	b.WriteString("}\n")
	return b.String()
}

// gdRun logs the printed lines as sequences of integers (true = 1, false = 0; -999 for any other value), the outcome
// and the message of the panic as bytes.
func gdRun(raw []byte) []any {
	var c gdCase
	o := map[string]any{}
	if err := json.Unmarshal(raw, &c); err != nil {
		return []any{map[string]any{"id": 0, "fam": "godata", "ops": []any{}, "outcome": "badcase", "out": []any{}, "msg": []int{}}}
	}
	_ = json.Unmarshal(raw, &o) // echo every field of the case
	src := gdSource(c)
	res := runFilesLim(scriggo.Files{"main.go": []byte(src)}, 10*time.Second, 1000)
	out := [][]int{}
	for _, l := range res.Lines {
		line := []int{}
		for _, v := range l {
			switch x := v.(type) {
			case int:
				line = append(line, x)
			case bool:
				if x {
					line = append(line, 1)
				} else {
					line = append(line, 0)
				}
			default:
				line = append(line, -999)
			}
		}
		out = append(out, line)
	}
	o["outcome"], o["out"], o["msg"] = res.Outcome, out, drv.IntsS(res.Msg)
	if *flagKeepSrc {
		o["src"] = src
		o["raw"] = rawText(res)
	}
	return []any{o}
}

// ---------------------------------------------------------------- goiface: dynamic types of interface values (GoIface.tla)

// A case is a straight-line program: the fixed declarations of GoIface.tla, then the operations (Go statements, written
// by the specification's alphabet) in order; the observable state is printed before the first and after every operation
// by a fixed epilogue: the interface variables e and g through a type switch (no fmt), then the typed variables.
type giCase struct {
	ID  int      `json:"id"`
	Ops []string `json:"ops"`
}

const giPreamble = `package main

type I int
type S string
type T struct{ A int }

func shows(x string) {
	print(len(x), " ")
	for j := 0; j < len(x); j++ {
		print(int(x[j]), " ")
	}
}

func show(x interface{}) {
	switch v := x.(type) {
	case nil:
		print(0, " ")
	case int:
		print(1, " ", v, " ")
	case string:
		print(2, " ")
		shows(v)
	case bool:
		print(3, " ", v, " ")
	case I:
		print(4, " ", int(v), " ")
	case S:
		print(5, " ")
		shows(string(v))
	case *int:
		if v == nil {
			print(6, " ", true, " ")
		} else {
			print(6, " ", false, " ", *v, " ")
		}
	case []int:
		print(7, " ", v == nil, " ", len(v), " ")
	case T:
		print(8, " ", v.A, " ")
	case float64:
		print(9, " ", int(v), " ")
	case int32:
		print(10, " ", int(v), " ")
	default:
		print(99, " ")
	}
}

func main() {
	var e interface{}
	var g interface{} = 1
	i := 2
	n := I(3)
	s := ` + "`a`" + `
	z := S(` + "`b`" + `)
	b := true
	var p *int
	var l []int
	t := T{4}
	k := 0
	ok := false
`

const giShow = `	show(e)
	show(g)
	print(i, " ", int(n), " ")
	shows(s)
	shows(string(z))
	print(b, " ")
	if p == nil {
		print(true, " ")
	} else {
		print(false, " ", *p, " ")
	}
	print(l == nil, " ", len(l), " ", t.A, " ", k, " ", ok, " ")
	println()
`

func giSource(c giCase) string {
	var b strings.Builder
	b.WriteString(giPreamble)
	b.WriteString(giShow)
	for _, op := range c.Ops {
		b.WriteString("\t" + op + "\n")
		b.WriteString(giShow)
	}
	b.WriteString("}\n")
	return b.String()
}

// giRun logs the printed lines as sequences of integers (true = 1, false = 0; -999 for any other value), the outcome
// and the message of the panic as bytes.
func giRun(raw []byte) []any {
	var c giCase
	o := map[string]any{}
	if err := json.Unmarshal(raw, &c); err != nil {
		return []any{map[string]any{"id": 0, "fam": "goiface", "ops": []any{}, "outcome": "badcase", "out": []any{}, "msg": []int{}}}
	}
	_ = json.Unmarshal(raw, &o) // echo every field of the case
	src := giSource(c)
	res := runFilesLim(scriggo.Files{"main.go": []byte(src)}, 10*time.Second, 1000)
	out := [][]int{}
	for _, l := range res.Lines {
		line := []int{}
		for _, v := range l {
			switch x := v.(type) {
			case int:
				line = append(line, x)
			case bool:
				if x {
					line = append(line, 1)
				} else {
					line = append(line, 0)
				}
			default:
				line = append(line, -999)
			}
		}
		out = append(out, line)
	}
	o["outcome"], o["out"], o["msg"] = res.Outcome, out, drv.IntsS(res.Msg)
	if *flagKeepSrc {
		o["src"] = src
		o["raw"] = rawText(res)
	}
	return []any{o}
}

// ---------------------------------------------------------------- pkginit

type pkgRef struct {
	P int `json:"p"`
	V int `json:"v"`
}

type pkgCase struct {
	ID    int        `json:"id"`
	Fam   string     `json:"fam"`
	Imps  [][]int    `json:"imps"`
	Vars  [][]pkgRef `json:"vars"`
	Inits [][]pkgRef `json:"inits"`
	Forms []int      `json:"forms"`
}

var pkgNames = []string{"p", "q", "r", "s", "u", "w"}

// pkgFiles writes the program of PkgInit.tla: module a.b, the last package is main (main.go), package i < n lives
// in the directory pkgNames[i-1].  Variable k of package i is  var Vk = t(10i+k, <what it reads or 0>)  ; the k-th
// init function prints 10i+2+k and the variable it is going to write, then writes it; Dump prints 10i+9 and the
// variables and calls Dump of the imported packages (which also makes every import used).
//
//	form 0: one import declaration per imported package; variables, init functions, Dump
//	form 1: one grouped import declaration; init functions, Dump, t, variables
func pkgFiles(c pkgCase, form int) (files scriggo.Files, names []string) {
	n := len(c.Imps)
	name := func(i int) string {
		if i == n {
			return "main"
		}
		return pkgNames[i-1]
	}
	ref := func(i int, r pkgRef) string {
		if r.P == i {
			return fmt.Sprintf("V%d", r.V)
		}
		return fmt.Sprintf("%s.V%d", name(r.P), r.V)
	}
	files = scriggo.Files{"go.mod": []byte("module a.b\n\ngo 1.21\n")}
	names = []string{"go.mod"}
	for i := 1; i <= n; i++ {
		if i < n && len(c.Vars[i-1])+len(c.Inits[i-1])+len(c.Imps[i-1]) == 0 {
			used := false
			for _, im := range c.Imps {
				for _, j := range im {
					used = used || j == i
				}
			}
			if !used {
				continue // the package is not part of the program
			}
		}
		var imports, vars, inits, dump strings.Builder
		if form == 0 {
			for _, j := range c.Imps[i-1] {
				fmt.Fprintf(&imports, "import \"a.b/%s\"\n", name(j))
			}
		} else if len(c.Imps[i-1]) > 0 {
			imports.WriteString("import (\n")
			for _, j := range c.Imps[i-1] {
				fmt.Fprintf(&imports, "\t\"a.b/%s\"\n", name(j))
			}
			imports.WriteString(")\n")
		}
		tfn := "func t(tag int, x int) int {\n\tprintln(tag, x)\n\treturn (2*x + tag) % 1000\n}\n"
		for k, r := range c.Vars[i-1] {
			x := "0"
			if r.P != 0 {
				x = ref(i, r)
			}
			fmt.Fprintf(&vars, "var V%d = t(%d, %s)\n", k+1, 10*i+k+1, x)
		}
		for k, r := range c.Inits[i-1] {
			tag := 10*i + 2 + k + 1
			if r.P == 0 {
				fmt.Fprintf(&inits, "func init() {\n\tprintln(%d, 0)\n}\n\n", tag)
			} else {
				v := ref(i, r)
				fmt.Fprintf(&inits, "func init() {\n\tprintln(%d, %s)\n\t%s = (2*%s + %d) %% 1000\n}\n\n", tag, v, v, v, tag)
			}
		}
		dn := "Dump"
		fmt.Fprintf(&dump, "func %s() {\n\tprintln(%d", dn, 10*i+9)
		for k := range c.Vars[i-1] {
			fmt.Fprintf(&dump, ", V%d", k+1)
		}
		dump.WriteString(")\n")
		for _, j := range c.Imps[i-1] {
			fmt.Fprintf(&dump, "\t%s.Dump()\n", name(j))
		}
		dump.WriteString("}\n")
		var b strings.Builder
		fmt.Fprintf(&b, "package %s\n\n%s\n", name(i), imports.String())
		if form == 0 {
			if vars.Len() > 0 {
				b.WriteString(tfn + "\n" + vars.String() + "\n")
			}
			b.WriteString(inits.String() + dump.String())
		} else {
			b.WriteString(inits.String() + dump.String())
			if vars.Len() > 0 {
				b.WriteString("\n" + tfn + "\n" + vars.String())
			}
		}
		if i == n {
			b.WriteString("\nfunc main() {\n\tDump()\n}\n")
		}
		path := "main.go"
		if i < n {
			path = name(i) + "/" + name(i) + ".go"
		}
		files[path] = []byte(b.String())
		names = append(names, path)
	}
	return files, names
}

func pkgRun(raw []byte) []any {
	var c pkgCase
	if err := json.Unmarshal(raw, &c); err != nil || len(c.Imps) == 0 || len(c.Imps) > len(pkgNames)+1 ||
		len(c.Vars) != len(c.Imps) || len(c.Inits) != len(c.Imps) {
		return []any{map[string]any{"id": c.ID, "fam": "pkginit", "imps": [][]int{{}}, "vars": [][]pkgRef{{}}, "inits": [][]pkgRef{{}},
			"form": 0, "outcome": "badcase", "out": [][]int{}, "msg": fmt.Sprint(err)}}
	}
	forms := c.Forms
	if len(forms) == 0 {
		forms = []int{0}
	}
	var out []any
	for _, form := range forms {
		o := map[string]any{}
		_ = json.Unmarshal(raw, &o) // echo every field of the case
		files, names := pkgFiles(c, form)
		res := runFiles(files)
		lines := [][]int{}
		for _, l := range res.Lines {
			nums := make([]int, len(l))
			for j, v := range l {
				if x, ok := v.(int); ok {
					nums[j] = x
				} else {
					nums[j] = -1
				}
			}
			lines = append(lines, nums)
		}
		o["form"], o["outcome"], o["out"], o["msg"] = form, res.Outcome, lines, res.Msg
		if *flagKeepSrc {
			var b strings.Builder // the files, each after a line "-- path --"
			for _, nm := range names {
				fmt.Fprintf(&b, "-- %s --\n%s", nm, files[nm])
			}
			o["src"] = b.String()
			o["raw"] = rawText(res)
		}
		out = append(out, o)
	}
	return out
}

// ---------------------------------------------------------------- main loop

type job func() []any

func main() {
	drv.Main(&drv.Sub{Whole: func(in, out string, seed int64, args []string) error {
		lines, err := drv.ReadLines(in)
		if err != nil {
			return err
		}
		var jobs []job
		var alu []aluCase
		var conv []convCase
		for _, raw := range lines {
			var h struct {
				Fam string `json:"fam"`
			}
			if err := json.Unmarshal(raw, &h); err != nil {
				return err
			}
			switch h.Fam {
			case "intalu":
				var c aluCase
				if err := json.Unmarshal(raw, &c); err != nil {
					return err
				}
				alu = append(alu, c)
			case "conv":
				var c convCase
				if err := json.Unmarshal(raw, &c); err != nil {
					return err
				}
				conv = append(conv, c)
			case "minigo":
				var c mgCase
				if err := json.Unmarshal(raw, &c); err != nil {
					return err
				}
				jobs = append(jobs, func() []any { return mgRun(c) })
			case "variadic", "select", "constuse", "maprange":
				jobs = append(jobs, func() []any { return miscRun(raw) })
			case "pkginit":
				jobs = append(jobs, func() []any { return pkgRun(raw) })
			case "godata":
				jobs = append(jobs, func() []any { return gdRun(raw) })
			case "goiface":
				jobs = append(jobs, func() []any { return giRun(raw) })
			case "initorder":
				var c initCase
				if err := json.Unmarshal(raw, &c); err != nil {
					return err
				}
				jobs = append(jobs, func() []any { return initRun(c) })
			default:
				return fmt.Errorf("unknown family %q", h.Fam)
			}
		}
		sort.SliceStable(alu, func(i, j int) bool { return alu[i].ID < alu[j].ID })
		for i := 0; i < len(alu); i += *flagChunk {
			part := alu[i:min(i+*flagChunk, len(alu))]
			jobs = append(jobs, func() []any { return aluRun(part, true) })
		}
		for i := 0; i < len(conv); i += *flagChunk {
			part := conv[i:min(i+*flagChunk, len(conv))]
			jobs = append(jobs, func() []any { return convRun(part, true) })
		}
		results := make([][]any, len(jobs))
		var wg sync.WaitGroup
		ch := make(chan int)
		n := *drv.FlagJ
		if n <= 0 {
			n = runtime.NumCPU()
		}
		for w := 0; w < n; w++ {
			wg.Add(1)
			go func() {
				defer wg.Done()
				for i := range ch {
					results[i] = jobs[i]()
				}
			}()
		}
		for i := range jobs {
			ch <- i
		}
		close(ch)
		wg.Wait()
		f, err := os.Create(out)
		if err != nil {
			return err
		}
		defer f.Close()
		enc := json.NewEncoder(f)
		enc.SetEscapeHTML(false)
		for _, rs := range results {
			for _, r := range rs {
				if err := enc.Encode(r); err != nil {
					return err
				}
			}
		}
		return nil
	}})
}

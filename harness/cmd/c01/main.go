package main

import (
	"fmt"
	"os"

	"github.com/open2b/scriggo"
)

func main() {
	src, _ := os.ReadFile(os.Args[1])
	p, err := scriggo.Build(scriggo.Files{"main.go": src}, nil)
	if err != nil {
		fmt.Printf("build error %T: %v\n", err, err)
		return
	}
	err = p.Run(&scriggo.RunOptions{Print: func(v any) { fmt.Printf("[%T %v]", v, v) }})
	fmt.Printf("\nrun: %T %v\n", err, err)
}

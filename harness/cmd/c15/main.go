package main

import (
	"verifharness/drv"

	"bytes"
	"encoding/json"
	"errors"
	"fmt"

	"github.com/open2b/scriggo"
)

// C15: template text is emitted verbatim except for the documented removals.
//
// Case {id, fmt, pieces:[{n, k, s, v, w, d}]}: the driver concatenates the source bytes s of
// the pieces into one template source, builds it as index.<fmt> (with a one-byte partial file
// p.<fmt> = "R" next to it, for the render piece) and runs it. It logs the
// pieces as given, the source it built and the bytes that Run wrote (ints). It judges nothing:
// a build error is logged as outcome "builderr" (Trace_Cut.tla decides what is judged).

type piece struct {
	N string `json:"n"` // catalogue name (echoed)
	K string `json:"k"` // kind: text show render stmt comment raw shebang (echoed)
	S []int  `json:"s"` // source bytes
	V []int  `json:"v"` // echoed (output of a show / content of a raw block)
	W int    `json:"w"` // echoed (for raw: number of source bytes before the content)
	D int    `json:"d"` // echoed (1 opens a block, 2 closes one)
}

type c15Case struct {
	ID     int     `json:"id"`
	Fmt    string  `json:"fmt"`
	Pieces []piece `json:"pieces"`
}

func runOne(src []byte, ext string) (outcome string, out []byte, errclass string) {
	defer func() {
		if r := recover(); r != nil {
			outcome, errclass = "hostpanic", fmt.Sprint(r)
		}
	}()
	fsys := scriggo.Files{"index." + ext: src, "p." + ext: []byte("R")}
	t, err := scriggo.BuildTemplate(fsys, "index."+ext, nil)
	if err != nil {
		var be *scriggo.BuildError
		if errors.As(err, &be) {
			return "builderr", nil, "BuildError"
		}
		return "builderr", nil, "other"
	}
	var buf bytes.Buffer
	if err := t.Run(&buf, nil, nil); err != nil {
		var pe *scriggo.PanicError
		if errors.As(err, &pe) {
			return "runerr", buf.Bytes(), "PanicError"
		}
		return "runerr", buf.Bytes(), "other"
	}
	return "ok", buf.Bytes(), ""
}

func main() {
	drv.Main(&drv.Sub{
		Each: func(raw json.RawMessage, seed int64) []any {
			var c c15Case
			drv.Must(json.Unmarshal(raw, &c))
			var src []byte
			for i := range c.Pieces {
				p := &c.Pieces[i]
				src = append(src, drv.BytesOf(p.S)...)
				if p.S == nil {
					p.S = []int{}
				}
				if p.V == nil {
					p.V = []int{}
				}
			}
			if c.Pieces == nil {
				c.Pieces = []piece{}
			}
			outcome, out, ec := runOne(src, c.Fmt)
			return []any{map[string]any{
				"id": c.ID, "fmt": c.Fmt, "pieces": c.Pieces, "src": drv.Ints(src),
				"outcome": outcome, "out": drv.Ints(out), "errclass": ec,
			}}
		},
	})
}

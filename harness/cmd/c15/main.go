package main

import (
	"verifharness/drv"

	"bytes"
	"encoding/json"
	"errors"
	"fmt"

	"github.com/open2b/scriggo"
)

// C15: template text is emitted verbatim except for the documented removals.
//
// Case {id, fmt, names:[catalogue name...], parts:[[byte...]...]}: parts are the source bytes of the
// pieces (spec/cut/Cut.tla catalogue). The driver concatenates the parts into one template
// source, builds it as index.<fmt> (with a one-byte partial file p.<fmt> = "R" next to it, for
// the render piece) and runs it. It logs the piece names as given, the source it built and the
// bytes that Run wrote (ints). It judges nothing: a build error is logged as outcome "builderr"
// (Trace_Cut.tla decides what is judged).

type c15Case struct {
	ID    int      `json:"id"`
	Fmt   string   `json:"fmt"`
	Names []string `json:"names"`
	Parts [][]int  `json:"parts"`
}

func runOne(src []byte, ext string) (outcome string, out []byte, errclass string) {
	defer func() {
		if r := recover(); r != nil {
			outcome, errclass = "hostpanic", noDigits(fmt.Sprint(r))
		}
	}()
	fsys := scriggo.Files{"index." + ext: src, "p." + ext: []byte("R")}
	t, err := scriggo.BuildTemplate(fsys, "index."+ext, nil)
	if err != nil {
		var be *scriggo.BuildError
		if errors.As(err, &be) {
			return "builderr", nil, "BuildError"
		}
		return "builderr", nil, "other"
	}
	var buf bytes.Buffer
	if err := t.Run(&buf, nil, nil); err != nil {
		var pe *scriggo.PanicError
		if errors.As(err, &pe) {
			return "runerr", buf.Bytes(), "PanicError"
		}
		return "runerr", buf.Bytes(), "other"
	}
	return "ok", buf.Bytes(), ""
}

// noDigits replaces every run of digits with N, so that a panic message names a class of panics.
func noDigits(s string) string {
	var b []byte
	for i := 0; i < len(s); i++ {
		if '0' <= s[i] && s[i] <= '9' {
			if len(b) == 0 || b[len(b)-1] != 'N' {
				b = append(b, 'N')
			}
			continue
		}
		b = append(b, s[i])
	}
	return string(b)
}

func main() {
	drv.Main(&drv.Sub{
		Each: func(raw json.RawMessage, seed int64) []any {
			var c c15Case
			drv.Must(json.Unmarshal(raw, &c))
			var src []byte
			for _, p := range c.Parts {
				src = append(src, drv.BytesOf(p)...)
			}
			if c.Names == nil {
				c.Names = []string{}
			}
			outcome, out, ec := runOne(src, c.Fmt)
			return []any{map[string]any{
				"id": c.ID, "fmt": c.Fmt, "names": c.Names, "src": drv.Ints(src),
				"outcome": outcome, "out": drv.Ints(out), "errclass": ec,
			}}
		},
	})
}

// Driver c21: builds sources that fail and logs, for every *BuildError, the reported path and
// position together with the bytes of every file of the build. No oracle.
package main

import (
	"encoding/json"
	"errors"
	"io/fs"
	"math/rand"
	"os"
	"path/filepath"
	"regexp"
	"sort"
	"strings"

	"github.com/open2b/scriggo"
	"verifharness/drv"
)

type c21Case struct {
	ID    int              `json:"id"`
	Kind  string           `json:"kind"` // "program" | "template"
	Entry string           `json:"entry"`
	Files map[string][]int `json:"files"`
	Src   []int            `json:"src"`
}

var quotedRe = regexp.MustCompile("(\"[^\"]*\"|'[^']*'|[0-9]+)")

// msgClass abstracts a message to its first words without literals (identity of a finding).
func msgClass(m string) string {
	m = quotedRe.ReplaceAllString(m, "_")
	w := strings.Fields(m)
	if len(w) > 3 {
		w = w[:3]
	}
	return strings.Join(w, " ")
}

func run(c c21Case) []any {
	if c.Files == nil {
		c.Files = map[string][]int{c.Entry: c.Src}
	}
	files := scriggo.Files{}
	for n, b := range c.Files {
		files[n] = drv.BytesOf(b)
	}
	var err error
	outcome := "ok"
	func() {
		defer func() {
			if v := recover(); v != nil {
				outcome = "hostpanic"
			}
		}()
		if c.Kind == "program" {
			_, err = scriggo.Build(files, nil)
		} else {
			_, err = scriggo.BuildTemplate(files, c.Entry, nil)
		}
	}()
	rec := map[string]any{"id": c.ID, "kind": c.Kind, "entry": c.Entry, "files": c.Files, "outcome": outcome,
		"path": "", "line": 0, "column": 0, "start": 0, "end": 0, "msg": "", "msgclass": "", "known": false, "file": []int{}}
	if outcome == "ok" && err != nil {
		var be *scriggo.BuildError
		if errors.As(err, &be) {
			rec["outcome"] = "builderror"
			p := be.Position()
			rec["path"], rec["line"], rec["column"], rec["start"], rec["end"] = be.Path(), p.Line, p.Column, p.Start, p.End
			m := be.Message()
			if len(m) > 120 {
				m = m[:120]
			}
			rec["msg"] = m
			rec["msgclass"] = msgClass(be.Message())
			if f, ok := c.Files[be.Path()]; ok {
				rec["known"] = true
				rec["file"] = f
			}
		} else {
			rec["outcome"] = "othererror"
		}
	}
	return []any{rec}
}

func main() {
	drv.Main(&drv.Sub{
		Each: func(raw json.RawMessage, seed int64) []any {
			var c c21Case
			drv.Must(json.Unmarshal(raw, &c))
			return run(c)
		},
		Extra: corpus,
	})
}

// sources that declare huge arrays make the compiler allocate tens of GB (known finding of C04, upstream issue
// #545): 7+ digit literals, ^uint(0) and 1<<NN constants
var hugeLiteral = regexp.MustCompile(`[0-9]{7,}|\^uint(64)?\(0\)|1\s*<<\s*[3-6][0-9]`)

// corpus derives seeded failing sources from the repository corpus (mutations that usually break
// the syntax or the typing somewhere in the middle of a realistic file).
func corpus(seed int64, n int) []json.RawMessage {
	root := os.Getenv("VERIF_CORPUS")
	if root == "" {
		root = "/repo/test/compare/testdata"
	}
	var files []string
	filepath.WalkDir(root, func(p string, d fs.DirEntry, err error) error {
		if err == nil && !d.IsDir() {
			switch filepath.Ext(p) {
			case ".go", ".html", ".txt", ".md":
				if st, e := d.Info(); e == nil && st.Size() < 5000 {
					files = append(files, p)
				}
			}
		}
		return nil
	})
	sort.Strings(files)
	if len(files) == 0 {
		return nil
	}
	r := rand.New(rand.NewSource(seed))
	frags := []string{"é", "€", "\r\n", "\t", "§x", "{{ 1 +", "{% if %}", ")", "(", "}", "{", "\"", "`", "undefined_x", "1 +* 2", ":=", "\xef\xbb\xbf", "\xff", "var int", "\n\n"}
	var out []json.RawMessage
	for i := 0; i < n; i++ {
		p := files[r.Intn(len(files))]
		b, err := os.ReadFile(p)
		if err != nil || len(b) == 0 || hugeLiteral.Match(b) {
			// (sources declaring huge arrays make the compiler allocate gigabytes: a C04 finding, not wanted here)
			continue
		}
		k := 1 + r.Intn(2)
		for j := 0; j < k; j++ {
			a := r.Intn(len(b) + 1)
			f := frags[r.Intn(len(frags))]
			b = append(append(append([]byte{}, b[:a]...), f...), b[a:]...)
		}
		c := c21Case{ID: 10000000 + i}
		if filepath.Ext(p) == ".go" {
			c.Kind, c.Entry, c.Files = "program", "main.go", map[string][]int{"main.go": drv.Ints(b)}
		} else {
			name := "index" + filepath.Ext(p)
			c.Kind, c.Entry, c.Files = "template", name, map[string][]int{name: drv.Ints(b)}
		}
		m, _ := json.Marshal(c)
		out = append(out, m)
	}
	return out
}

// Driver c19: builds and runs programs/templates under embedder configurations exported by TLC;
// every supplied host function is a distinct Go function that logs itself, and the callNative
// hook logs every host function the VM invokes (by code pointer). No oracle.
package main

import (
	"bytes"
	"encoding/json"
	"errors"
	"fmt"
	"reflect"
	"runtime"
	"sort"
	"strings"
	"sync"
	"time"

	"github.com/open2b/scriggo"
	"github.com/open2b/scriggo/native"
	"github.com/open2b/scriggo/verifbridge"
	"verifharness/drv"
)

type site struct {
	Kind string `json:"kind"`
	Pkg  string `json:"pkg"`
	Fn   string `json:"fn"`
}

type c19Case struct {
	ID       int      `json:"id"`
	Importer []string `json:"importer"`
	Globals  []string `json:"globals"`
	AllowGo  bool     `json:"allowgo"`
	Prog     []site   `json:"prog"`
	Hist     bool     `json:"hist"`
}

var (
	mu           sync.Mutex
	wrapCalls    int
	hookCalls    int
	hookNames    [][2]string
	hookIDs      []string
	unknown      int
	builtinCalls int
	active       bool
)

func logWrap(name string) int {
	mu.Lock()
	wrapCalls++
	mu.Unlock()
	return 1
}

// distinct functions, so that each has its own code pointer
func p1A() int { return logWrap("p1.A") }
func p1B() int { return logWrap("p1.B") }
func p2A() int { return logWrap("p2.A") }
func gA() int  { return logWrap(".A") }
func p1C() int { return logWrap("p1.C") }
func gA2() int { return logWrap(".A(2)") }

// exists in the binary but is never supplied to scriggo
func notSupplied() int { return logWrap("NOT-SUPPLIED") }

var byPtr = map[uintptr][2]string{}
var idByPtr = map[uintptr]string{}

func init() {
	for id, f := range map[string]any{"p1A": p1A, "p1B": p1B, "p2A": p2A, "gA": gA, "p1C": p1C, "gA2": gA2} {
		idByPtr[reflect.ValueOf(f).Pointer()] = id
	}
	byPtr[reflect.ValueOf(p1C).Pointer()] = [2]string{"p1", "C"}
	byPtr[reflect.ValueOf(gA2).Pointer()] = [2]string{"", "A"}
	byPtr[reflect.ValueOf(p1A).Pointer()] = [2]string{"p1", "A"}
	byPtr[reflect.ValueOf(p1B).Pointer()] = [2]string{"p1", "B"}
	byPtr[reflect.ValueOf(p2A).Pointer()] = [2]string{"p2", "A"}
	byPtr[reflect.ValueOf(gA).Pointer()] = [2]string{"", "A"}
	_ = notSupplied
}

func hook(vm, env uintptr, ev string, a int, b uintptr) {
	if ev != "native-call" {
		return
	}
	mu.Lock()
	defer mu.Unlock()
	if !active {
		return
	}
	hookCalls++
	if n, ok := byPtr[b]; ok {
		hookNames = append(hookNames, n)
		hookIDs = append(hookIDs, idByPtr[b])
	} else if f := runtime.FuncForPC(b); f != nil && strings.HasPrefix(f.Name(), "github.com/open2b/scriggo/internal/") {
		// the interpreter's own implementation of a builtin (print, println, close ... started with defer/go):
		// not host functionality of the embedder; its output goes through the configured print hook
		builtinCalls++
	} else {
		unknown++
	}
}

func ident(pkg string) string {
	if i := strings.LastIndexByte(pkg, '/'); i >= 0 {
		return pkg[i+1:]
	}
	return pkg
}

func callExpr(s site) string {
	if s.Pkg == "#" {
		return s.Fn + "(1)"
	}
	if s.Pkg == "" {
		return s.Fn + "()"
	}
	return ident(s.Pkg) + "." + s.Fn + "()"
}

func funcExpr(s site) string {
	if s.Pkg == "" {
		return s.Fn
	}
	return ident(s.Pkg) + "." + s.Fn
}

func goSource(c c19Case) string {
	var b strings.Builder
	b.WriteString("package main\n")
	seen := map[string]bool{}
	for _, s := range c.Prog {
		if s.Pkg != "" && s.Pkg != "#" && !seen[s.Pkg] {
			seen[s.Pkg] = true
			fmt.Fprintf(&b, "import %q\n", s.Pkg)
		}
	}
	b.WriteString("func main() {\n")
	for k, s := range c.Prog {
		switch s.Kind {
		case "direct":
			fmt.Fprintf(&b, "\t%s\n", callExpr(s))
		case "value":
			fmt.Fprintf(&b, "\tf%d := %s\n\tf%d()\n", k, funcExpr(s), k)
		case "closure":
			fmt.Fprintf(&b, "\tfunc() { %s }()\n", callExpr(s))
		case "defer":
			fmt.Fprintf(&b, "\tdefer %s\n", callExpr(s))
		case "go":
			fmt.Fprintf(&b, "\tgo %s\n", callExpr(s))
		}
	}
	b.WriteString("}\n")
	return b.String()
}

func tmplSource(c c19Case) string {
	var b strings.Builder
	seen := map[string]bool{}
	for _, s := range c.Prog {
		if s.Pkg != "" && s.Pkg != "#" && !seen[s.Pkg] {
			seen[s.Pkg] = true
			fmt.Fprintf(&b, "{%% import %q %%}", s.Pkg)
		}
	}
	for k, s := range c.Prog {
		if s.Pkg == "#" { // a builtin has no value to show
			switch s.Kind {
			case "direct":
				fmt.Fprintf(&b, "{%%%% %s %%%%}", callExpr(s))
				continue
			case "closure":
				fmt.Fprintf(&b, "{%%%% func() { %s }() %%%%}", callExpr(s))
				continue
			}
		}
		switch s.Kind {
		case "direct":
			fmt.Fprintf(&b, "{{ %s }}", callExpr(s))
		case "value":
			fmt.Fprintf(&b, "{%% f%d := %s %%}{{ f%d() }}", k, funcExpr(s), k)
		case "closure":
			fmt.Fprintf(&b, "{%% macro M%d %%}{{ %s }}{%% end %%}{{ M%d() }}", k, callExpr(s), k)
		case "defer":
			fmt.Fprintf(&b, "{%%%% defer %s %%%%}", callExpr(s))
		case "go":
			fmt.Fprintf(&b, "{%%%% go %s %%%%}", callExpr(s))
		}
	}
	return b.String()
}

func names(d native.Declarations) []string {
	out := []string{}
	for k := range d {
		out = append(out, k)
	}
	sort.Strings(out)
	return out
}

func buildAndRun(c c19Case, form string, step int, pk native.Packages, globals, p1decls, p2decls native.Declarations) map[string]any {
	mu.Lock()
	wrapCalls, hookCalls, hookNames, hookIDs, unknown, builtinCalls, active = 0, 0, nil, nil, 0, 0, true
	mu.Unlock()
	build := "ok"
	src := ""
	func() {
		defer func() {
			if v := recover(); v != nil {
				build = "hostpanic"
			}
		}()
		opts := &scriggo.BuildOptions{AllowGoStmt: c.AllowGo, Packages: pk}
		var run func() error
		var err error
		if form == "program" {
			src = goSource(c)
			var p *scriggo.Program
			p, err = scriggo.Build(scriggo.Files{"main.go": []byte(src)}, opts)
			if err == nil {
				run = func() error { return p.Run(&scriggo.RunOptions{Print: func(any) {}}) }
			}
		} else {
			src = tmplSource(c)
			opts.Globals = globals
			var t *scriggo.Template
			t, err = scriggo.BuildTemplate(scriggo.Files{"index.txt": []byte(src)}, "index.txt", opts)
			if err == nil {
				run = func() error { return t.Run(&bytes.Buffer{}, nil, &scriggo.RunOptions{Print: func(any) {}}) }
			}
		}
		if err != nil {
			var be *scriggo.BuildError
			if errors.As(err, &be) {
				build = "builderror"
			} else {
				build = "othererror"
			}
			return
		}
		if rerr := run(); rerr != nil {
			build = "runerror:" + rerr.Error()
		}
	}()
	for k := 0; k < 200; k++ { // a `go` call of a host function completes asynchronously
		mu.Lock()
		done := wrapCalls+builtinCalls >= hookCalls
		mu.Unlock()
		if done {
			break
		}
		time.Sleep(100 * time.Microsecond)
	}
	mu.Lock()
	defer mu.Unlock()
	active = false
	calls := make([][2]string, len(hookNames))
	copy(calls, hookNames)
	ids := append([]string{}, hookIDs...)
	// what the embedder's objects declare now, and the identities behind the declarations
	decl := [][]any{}
	supplied := []string{}
	addID := func(f any) { supplied = append(supplied, idByPtr[reflect.ValueOf(f).Pointer()]) }
	for _, p := range c.Importer {
		switch p {
		case "p1":
			decl = append(decl, []any{"p1", names(p1decls)})
			for _, f := range p1decls {
				addID(f)
			}
		case "p2":
			decl = append(decl, []any{"p2", names(p2decls)})
			for _, f := range p2decls {
				addID(f)
			}
		}
	}
	if form == "template" {
		decl = append(decl, []any{"", names(globals)})
		for _, f := range globals {
			addID(f)
		}
	}
	sort.Strings(supplied)
	return map[string]any{"id": c.ID, "form": form, "step": step, "importer": c.Importer, "globals": c.Globals, "allowgo": c.AllowGo, "hist": c.Hist,
		"prog": c.Prog, "build": build, "calls": calls, "callids": ids, "supplied": supplied, "decl": decl,
		"unknown": unknown, "wrapcalls": wrapCalls + builtinCalls, "hookcalls": hookCalls, "builtincalls": builtinCalls, "src": src}
}

func main() {
	verifbridge.SetRuntimeTracer(hook)
	drv.Main(&drv.Sub{
		Serial: true,
		Each: func(raw json.RawMessage, seed int64) []any {
			var c c19Case
			drv.Must(json.Unmarshal(raw, &c))
			// the embedder's own objects: in a history they are MUTATED IN PLACE between the two builds
			p1decls := native.Declarations{"A": p1A, "B": p1B}
			p2decls := native.Declarations{"A": p2A}
			pk := native.Packages{}
			for _, p := range c.Importer {
				switch p {
				case "p1":
					pk["p1"] = native.Package{Name: "p1", Declarations: p1decls}
				case "p2":
					pk["p2"] = native.Package{Name: "p2", Declarations: p2decls}
				}
			}
			globals := native.Declarations{}
			for _, g := range c.Globals {
				if g == "A" {
					globals["A"] = gA
				}
			}
			var out []any
			usesGlobal, usesBuiltin := false, false
			for _, s := range c.Prog {
				if s.Pkg == "" {
					usesGlobal = true
				}
				if s.Pkg == "#" {
					usesBuiltin = true
				}
			}
			forms := []string{"template"}
			if !usesGlobal && len(c.Globals) == 0 {
				forms = []string{"program", "template"}
			}
			_ = usesBuiltin
			steps := 1
			if c.Hist {
				steps = 2
			}
			for _, form := range forms {
				// fresh embedder objects for each form
				p1decls["A"], p1decls["B"] = p1A, p1B
				delete(p1decls, "C")
				if len(c.Globals) > 0 {
					globals["A"] = gA
				}
				for step := 1; step <= steps; step++ {
					if step == 2 {
						// same maps, same lengths, other contents
						delete(p1decls, "B")
						p1decls["C"] = p1C
						if _, ok := globals["A"]; ok {
							globals["A"] = gA2
						}
					}
					out = append(out, buildAndRun(c, form, step, pk, globals, p1decls, p2decls))
				}
			}
			return out
		},
	})
}

// Driver c14: concretises ConcGo programs as Go source, builds them with the real scriggo
// (AllowGoStmt) and runs them under several GOMAXPROCS values with seeded yields injected at
// the channel-operation hooks. Logs printed output and outcome. No oracle: `exp` is carried
// through untouched from TLC.
package main

import (
	"context"
	"encoding/json"
	"errors"
	"flag"
	"fmt"
	"math/rand"
	"runtime"
	"strings"
	"sync"
	"sync/atomic"
	"time"

	"github.com/open2b/scriggo"
	"github.com/open2b/scriggo/verifbridge"
	"verifharness/drv"
)

type instr struct {
	Op  string `json:"op"`
	Ch  int    `json:"ch"`
	Ch2 int    `json:"ch2"`
	V   int    `json:"v"`
	Add int    `json:"add"`
	T   int    `json:"t"`
	Chs []int  `json:"chs"`
}

type prog struct {
	ID      int       `json:"id"`
	Shape   string    `json:"shape"`
	Chans   []int     `json:"chans"`
	Threads [][]instr `json:"threads"`
}

type c14Case struct {
	ID    int             `json:"id"`
	Prog  json.RawMessage `json:"prog"`
	Exp   []int           `json:"exp"`
	Shape string          `json:"shape"`
}

func concretise(p prog) string {
	var b strings.Builder
	b.WriteString("package main\n\nfunc main() {\n")
	for i, c := range p.Chans {
		fmt.Fprintf(&b, "\tc%d := make(chan int, %d)\n", i+1, c)
	}
	if len(p.Threads) > 1 {
		b.WriteString("\tvar ")
		for t := 2; t <= len(p.Threads); t++ {
			if t > 2 {
				b.WriteString(", ")
			}
			fmt.Fprintf(&b, "t%d", t)
		}
		b.WriteString(" func()\n")
	}
	body := func(ins []instr, indent string) {
		fmt.Fprintf(&b, "%sacc := 0\n%s_ = acc\n", indent, indent)
		for _, i := range ins {
			switch i.Op {
			case "send":
				fmt.Fprintf(&b, "%sc%d <- %d\n", indent, i.Ch, i.V)
			case "sendacc":
				fmt.Fprintf(&b, "%sc%d <- acc\n", indent, i.Ch)
			case "recv":
				fmt.Fprintf(&b, "%sacc += <-c%d\n", indent, i.Ch)
			case "recvp":
				fmt.Fprintf(&b, "%sprintln(<-c%d)\n", indent, i.Ch)
			case "close":
				fmt.Fprintf(&b, "%sclose(c%d)\n", indent, i.Ch)
			case "go":
				fmt.Fprintf(&b, "%sgo t%d()\n", indent, i.T)
			case "range":
				fmt.Fprintf(&b, "%sfor v := range c%d {\n%s\tacc += v\n%s}\n", indent, i.Ch, indent, indent)
			case "rangep":
				fmt.Fprintf(&b, "%sfor v := range c%d {\n%s\tprintln(v)\n%s}\n", indent, i.Ch, indent, indent)
			case "rangefwd":
				fmt.Fprintf(&b, "%sfor v := range c%d {\n%s\tc%d <- v + %d\n%s}\n", indent, i.Ch, indent, i.Ch2, i.Add, indent)
			case "selrecv":
				fmt.Fprintf(&b, "%sselect {\n", indent)
				for _, c := range i.Chs {
					fmt.Fprintf(&b, "%scase v := <-c%d:\n%s\tacc += v\n", indent, c, indent)
				}
				fmt.Fprintf(&b, "%s}\n", indent)
			case "print":
				fmt.Fprintf(&b, "%sprintln(acc)\n", indent)
			case "printc":
				fmt.Fprintf(&b, "%sprintln(%d)\n", indent, i.V)
			}
		}
	}
	for t := 2; t <= len(p.Threads); t++ {
		fmt.Fprintf(&b, "\tt%d = func() {\n", t)
		body(p.Threads[t-1], "\t\t")
		b.WriteString("\t}\n")
	}
	body(p.Threads[0], "\t")
	b.WriteString("}\n")
	return b.String()
}

var yieldSeed atomic.Int64
var yieldOn atomic.Bool

func hook(vm, env uintptr, ev string, a int, b uintptr) {
	if !yieldOn.Load() || !strings.HasPrefix(ev, "block-") && ev != "go" && !strings.HasSuffix(ev, "-done") {
		return
	}
	// cheap deterministic-ish perturbation of the schedule at the channel operation points
	x := yieldSeed.Add(0x9E3779B97F4A7C15 >> 1)
	x ^= int64(vm)
	switch (x >> 7) & 7 {
	case 0, 1, 2:
		runtime.Gosched()
	case 3:
		time.Sleep(time.Duration((x>>11)&63) * time.Microsecond)
	}
}

var flagReps = flag.Int("reps", 2, "repetitions per GOMAXPROCS value")

func main() {
	verifbridge.SetRuntimeTracer(hook)
	drv.Main(&drv.Sub{
		Serial: true,
		Each: func(raw json.RawMessage, seed int64) []any {
			var c c14Case
			drv.Must(json.Unmarshal(raw, &c))
			var p prog
			drv.Must(json.Unmarshal(c.Prog, &p))
			src := concretise(p)
			var out []any
			rec := func(gmp int, outcome, detail string, printed []int) {
				if printed == nil {
					printed = []int{}
				}
				exp := c.Exp
				if exp == nil {
					exp = []int{}
				}
				out = append(out, map[string]any{"id": c.ID, "kind": "run", "shape": c.Shape, "prog": c.Prog, "src": src, "gmp": gmp,
					"exp": exp, "out": printed, "outcome": outcome, "detail": detail, "where": ""})
			}
			pr, err := scriggo.Build(scriggo.Files{"main.go": []byte(src)}, &scriggo.BuildOptions{AllowGoStmt: true})
			if err != nil {
				rec(0, "builderror", err.Error(), nil)
				return out
			}
			r := rand.New(rand.NewSource(seed + int64(c.ID)))
			for _, gmp := range []int{1, 2, 4, 16} {
				old := runtime.GOMAXPROCS(gmp)
				for k := 0; k < *flagReps; k++ {
					yieldSeed.Store(r.Int63())
					yieldOn.Store(k > 0 || gmp > 1) // first run at GOMAXPROCS=1 is undisturbed
					var mu sync.Mutex
					var printed []int
					ctx, cancel := context.WithTimeout(context.Background(), 10*time.Second)
					outcome, detail := "ok", ""
					func() {
						defer func() {
							if v := recover(); v != nil {
								outcome, detail = "hostpanic", fmt.Sprint(v)
							}
						}()
						err := pr.Run(&scriggo.RunOptions{Context: ctx, Print: func(v any) {
							mu.Lock()
							if n, ok := v.(int); ok {
								printed = append(printed, n)
							} else if s, ok := v.(string); !ok || (s != "\n" && s != " ") {
								printed = append(printed, -999999)
							}
							mu.Unlock()
						}})
						var pe *scriggo.PanicError
						switch {
						case err == nil:
						case errors.Is(err, context.DeadlineExceeded):
							outcome = "deadlock-or-hang"
						case errors.As(err, &pe):
							outcome, detail = "panic", pe.Error()
						default:
							outcome, detail = "error", err.Error()
						}
					}()
					cancel()
					mu.Lock()
					cp := append([]int{}, printed...)
					mu.Unlock()
					if len(detail) > 200 {
						detail = detail[:200]
					}
					rec(gmp, outcome, detail, cp)
				}
				runtime.GOMAXPROCS(old)
			}
			yieldOn.Store(false)
			return out
		},
	})
}

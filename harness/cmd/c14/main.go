// Driver c14: concretises ConcGo programs as Go source, builds them with the real scriggo
// (AllowGoStmt) and runs them under several GOMAXPROCS values with seeded yields injected at
// the channel-operation hooks. Logs printed output and outcome. No oracle: `exp` is carried
// through untouched from TLC.
package main

import (
	"context"
	"encoding/json"
	"errors"
	"flag"
	"fmt"
	"math/rand"
	"runtime"
	"strings"
	"sync"
	"sync/atomic"
	"time"

	"github.com/open2b/scriggo"
	"github.com/open2b/scriggo/native"
	"github.com/open2b/scriggo/verifbridge"
	"verifharness/drv"
)

type instr struct {
	Op  string `json:"op"`
	Ch  int    `json:"ch"`
	Ch2 int    `json:"ch2"`
	V   int    `json:"v"`
	Add int    `json:"add"`
	T   int    `json:"t"`
	Chs []int  `json:"chs"`
	// selsend: the channels and the values of the send cases
	Schs []int `json:"schs"`
	Vs   []int `json:"vs"`
	// selnb (select with default, in a loop of N iterations when N > 1): what is added to acc when a
	// send case proceeds / when the default clause runs
	N    int `json:"n"`
	Hit  int `json:"hit"`
	Dflt int `json:"dflt"`
	// recvok, loopok: what is added to acc when the channel turns out to be closed
	Nok int `json:"nok"`
	// defer: the body of the deferred function
	Ds []instr `json:"ds"`
}

type prog struct {
	ID      int       `json:"id"`
	Shape   string    `json:"shape"`
	Chans   []int     `json:"chans"`
	Threads [][]instr `json:"threads"`
	// Native lists the threads (1-based) that are started as a `go` statement on a HOST function or
	// builtin instead of a Scriggo function: their body is a single send (go p.Send(c, v)) or a
	// single close (go close(c)). Same semantics in the model; a different path in the VM.
	Native []int `json:"native"`
	// Style selects how Scriggo threads are written: 0 closures without parameters, 1 and 2 function
	// literals taking the channels and a number as parameters and returning a (discarded) result.
	Style int `json:"style"`
}

type c14Case struct {
	ID    int             `json:"id"`
	Prog  json.RawMessage `json:"prog"`
	Exp   []int           `json:"exp"`
	Shape string          `json:"shape"`
}

func concretise(p prog) string {
	var b strings.Builder
	b.WriteString("package main\n\nimport \"p\"\n\nvar _ = p.Send\n\nfunc main() {\n")
	for i, c := range p.Chans {
		if c < 0 { // a nil channel
			fmt.Fprintf(&b, "\tvar c%d chan int\n", i+1)
			continue
		}
		fmt.Fprintf(&b, "\tc%d := make(chan int, %d)\n", i+1, c)
	}
	for i := range p.Chans { // a shape may leave a channel unused
		fmt.Fprintf(&b, "\t_ = c%d\n", i+1)
	}
	native := map[int]bool{}
	for _, t := range p.Native {
		native[t] = true
	}
	chanParams, chanArgs := "", ""
	for i := range p.Chans {
		chanParams += fmt.Sprintf("c%d chan int, ", i+1)
		chanArgs += fmt.Sprintf("c%d, ", i+1)
	}
	var sig, ret string
	call := func(t int) string { return fmt.Sprintf("t%d()", t) }
	switch p.Style {
	case 1:
		sig, ret = "func(k int, "+strings.TrimSuffix(chanParams, ", ")+") int", "\t\treturn k\n"
		call = func(t int) string { return fmt.Sprintf("t%d(%d, %s)", t, t, strings.TrimSuffix(chanArgs, ", ")) }
	case 2:
		sig, ret = "func("+chanParams+"k int) bool", "\t\treturn k > 0\n"
		call = func(t int) string { return fmt.Sprintf("t%d(%s%d)", t, chanArgs, t) }
	default:
		sig = "func()"
	}
	var scriggoThreads []int
	for t := 2; t <= len(p.Threads); t++ {
		if !native[t] {
			scriggoThreads = append(scriggoThreads, t)
		}
	}
	if len(scriggoThreads) > 0 {
		b.WriteString("\tvar ")
		for i, t := range scriggoThreads {
			if i > 0 {
				b.WriteString(", ")
			}
			fmt.Fprintf(&b, "t%d", t)
		}
		fmt.Fprintf(&b, " %s\n", sig)
	}
	goStmt := func(t int) string {
		if native[t] {
			i := p.Threads[t-1][0]
			if i.Op == "close" {
				return fmt.Sprintf("go close(c%d)", i.Ch)
			}
			return fmt.Sprintf("go p.Send(c%d, %d)", i.Ch, i.V)
		}
		return "go " + call(t)
	}
	var emit func(ins []instr, indent string, kexpr string)
	emit = func(ins []instr, indent string, kexpr string) {
		for _, i := range ins {
			switch i.Op {
			case "send":
				fmt.Fprintf(&b, "%sc%d <- %d%s\n", indent, i.Ch, i.V, kexpr)
			case "sendacc":
				fmt.Fprintf(&b, "%sc%d <- acc\n", indent, i.Ch)
			case "recv":
				fmt.Fprintf(&b, "%sacc += <-c%d\n", indent, i.Ch)
			case "recvp":
				fmt.Fprintf(&b, "%sprintln(<-c%d)\n", indent, i.Ch)
			case "recvok":
				if p.Style == 0 {
					fmt.Fprintf(&b, "%sif v, ok := <-c%d; ok {\n%s\tacc += v\n%s} else {\n%s\tacc += v + %d\n%s}\n", indent, i.Ch, indent, indent, indent, i.Nok, indent)
				} else {
					fmt.Fprintf(&b, "%s{\n%s\tv, ok := <-c%d\n%s\tacc += v\n%s\tif !ok {\n%s\t\tacc += %d\n%s\t}\n%s}\n", indent, indent, i.Ch, indent, indent, indent, i.Nok, indent, indent)
				}
			case "loopok":
				fmt.Fprintf(&b, "%sfor {\n%s\tv, ok := <-c%d\n%s\tif !ok {\n%s\t\tacc += %d\n%s\t\tbreak\n%s\t}\n%s\tacc += v\n%s}\n", indent, indent, i.Ch, indent, indent, i.Nok, indent, indent, indent, indent)
			case "close":
				fmt.Fprintf(&b, "%sclose(c%d)\n", indent, i.Ch)
			case "go":
				fmt.Fprintf(&b, "%s%s\n", indent, goStmt(i.T))
			case "range":
				fmt.Fprintf(&b, "%sfor v := range c%d {\n%s\tacc += v\n%s}\n", indent, i.Ch, indent, indent)
			case "rangep":
				fmt.Fprintf(&b, "%sfor v := range c%d {\n%s\tprintln(v)\n%s}\n", indent, i.Ch, indent, indent)
			case "rangefwd":
				fmt.Fprintf(&b, "%sfor v := range c%d {\n%s\tc%d <- v + %d\n%s}\n", indent, i.Ch, indent, i.Ch2, i.Add, indent)
			case "selrecv":
				fmt.Fprintf(&b, "%sselect {\n", indent)
				for _, c := range i.Chs {
					fmt.Fprintf(&b, "%scase v := <-c%d:\n%s\tacc += v\n", indent, c, indent)
				}
				fmt.Fprintf(&b, "%s}\n", indent)
			case "selsend":
				fmt.Fprintf(&b, "%sselect {\n", indent)
				for _, c := range i.Chs {
					fmt.Fprintf(&b, "%scase v := <-c%d:\n%s\tacc += v\n", indent, c, indent)
				}
				for k, c := range i.Schs {
					fmt.Fprintf(&b, "%scase c%d <- %d:\n", indent, c, i.Vs[k])
				}
				fmt.Fprintf(&b, "%s}\n", indent)
			case "selnb":
				ind := indent
				if i.N > 1 {
					fmt.Fprintf(&b, "%sfor i := 0; i < %d; i++ {\n", indent, i.N)
					ind = indent + "\t"
				}
				fmt.Fprintf(&b, "%sselect {\n", ind)
				for _, c := range i.Chs {
					fmt.Fprintf(&b, "%scase v := <-c%d:\n%s\tacc += v\n", ind, c, ind)
				}
				for k, c := range i.Schs {
					fmt.Fprintf(&b, "%scase c%d <- %d:\n%s\tacc += %d\n", ind, c, i.Vs[k], ind, i.Hit)
				}
				fmt.Fprintf(&b, "%sdefault:\n%s\tacc += %d\n%s}\n", ind, ind, i.Dflt, ind)
				if i.N > 1 {
					fmt.Fprintf(&b, "%s}\n", indent)
				}
			case "print":
				fmt.Fprintf(&b, "%sprintln(acc)\n", indent)
			case "printc":
				fmt.Fprintf(&b, "%sprintln(%d)\n", indent, i.V)
			case "lenp":
				fmt.Fprintf(&b, "%sprintln(len(c%d))\n", indent, i.Ch)
			case "capp":
				fmt.Fprintf(&b, "%sprintln(cap(c%d))\n", indent, i.Ch)
			case "lenacc":
				fmt.Fprintf(&b, "%sacc += len(c%d)\n", indent, i.Ch)
			case "add":
				fmt.Fprintf(&b, "%sacc += %d\n", indent, i.V)
			case "defer":
				if len(i.Ds) == 1 && i.Ds[0].Op == "close" {
					fmt.Fprintf(&b, "%sdefer close(c%d)\n", indent, i.Ds[0].Ch)
				} else {
					fmt.Fprintf(&b, "%sdefer func() {\n", indent)
					emit(i.Ds, indent+"\t", kexpr)
					fmt.Fprintf(&b, "%s}()\n", indent)
				}
			case "recover":
				fmt.Fprintf(&b, "%srecover()\n", indent)
			case "panic":
				fmt.Fprintf(&b, "%spanic(\"boom\")\n", indent)
			}
		}
	}
	body := func(ins []instr, indent string, t int) {
		// in the styles with parameters every sent constant goes through the numeric parameter k (passed
		// as the thread's number), so a goroutine that does not receive its arguments intact prints wrong sums
		kexpr := ""
		if t > 1 && p.Style != 0 {
			kexpr = fmt.Sprintf(" + k - %d", t)
		}
		fmt.Fprintf(&b, "%sacc := 0%s\n%s_ = acc\n", indent, kexpr, indent)
		emit(ins, indent, kexpr)
	}
	for _, t := range scriggoThreads {
		fmt.Fprintf(&b, "\tt%d = %s {\n", t, sig)
		body(p.Threads[t-1], "\t\t", t)
		b.WriteString(ret)
		b.WriteString("\t}\n")
	}
	body(p.Threads[0], "\t", 1)
	b.WriteString("}\n")
	return b.String()
}

// Send is the host function of `go p.Send(c, v)`.
func Send(c chan int, v int) { c <- v }

var pkgs = native.Packages{"p": native.Package{Name: "p", Declarations: native.Declarations{"Send": Send}}}

var yieldSeed atomic.Int64
var yieldOn atomic.Bool

func hook(vm, env uintptr, ev string, a int, b uintptr) {
	if !yieldOn.Load() || !strings.HasPrefix(ev, "block-") && ev != "go" && !strings.HasSuffix(ev, "-done") {
		return
	}
	// cheap deterministic-ish perturbation of the schedule at the channel operation points
	x := yieldSeed.Add(0x9E3779B97F4A7C15 >> 1)
	x ^= int64(vm)
	switch (x >> 7) & 7 {
	case 0, 1, 2:
		runtime.Gosched()
	case 3:
		time.Sleep(time.Duration((x>>11)&63) * time.Microsecond)
	}
}

var flagReps = flag.Int("reps", 2, "repetitions per GOMAXPROCS value")

func main() {
	verifbridge.SetRuntimeTracer(hook)
	drv.Main(&drv.Sub{
		Serial: true,
		Each: func(raw json.RawMessage, seed int64) []any {
			var c c14Case
			drv.Must(json.Unmarshal(raw, &c))
			var p prog
			drv.Must(json.Unmarshal(c.Prog, &p))
			src := concretise(p)
			var out []any
			rec := func(gmp int, outcome, detail string, printed []int) {
				if printed == nil {
					printed = []int{}
				}
				exp := c.Exp
				if exp == nil {
					exp = []int{}
				}
				out = append(out, map[string]any{"id": c.ID, "kind": "run", "shape": c.Shape, "prog": c.Prog, "src": src, "gmp": gmp,
					"exp": exp, "out": printed, "outcome": outcome, "detail": detail, "where": ""})
			}
			pr, err := scriggo.Build(scriggo.Files{"main.go": []byte(src)}, &scriggo.BuildOptions{AllowGoStmt: true, Packages: pkgs})
			if err != nil {
				rec(0, "builderror", err.Error(), nil)
				return out
			}
			r := rand.New(rand.NewSource(seed + int64(c.ID)))
			hangs := 0
			for _, gmp := range []int{1, 2, 4, 16} {
				old := runtime.GOMAXPROCS(gmp)
				// (a program that hung twice is not run again: every hang costs the whole timeout)
				for k := 0; k < *flagReps && hangs < 2; k++ {
					yieldSeed.Store(r.Int63())
					yieldOn.Store(k > 0 || gmp > 1) // first run at GOMAXPROCS=1 is undisturbed
					var mu sync.Mutex
					var printed []int
					ctx, cancel := context.WithTimeout(context.Background(), 5*time.Second)
					outcome, detail := "ok", ""
					func() {
						defer func() {
							if v := recover(); v != nil {
								outcome, detail = "hostpanic", fmt.Sprint(v)
							}
						}()
						err := pr.Run(&scriggo.RunOptions{Context: ctx, Print: func(v any) {
							mu.Lock()
							if n, ok := v.(int); ok {
								printed = append(printed, n)
							} else if s, ok := v.(string); !ok || (s != "\n" && s != " ") {
								printed = append(printed, -999999)
							}
							mu.Unlock()
						}})
						var pe *scriggo.PanicError
						switch {
						case err == nil:
						case errors.Is(err, context.DeadlineExceeded):
							outcome = "deadlock-or-hang"
							hangs++
						case errors.As(err, &pe):
							outcome, detail = "panic", pe.Error()
						default:
							outcome, detail = "error", err.Error()
						}
					}()
					cancel()
					mu.Lock()
					cp := append([]int{}, printed...)
					mu.Unlock()
					if len(detail) > 200 {
						detail = detail[:200]
					}
					rec(gmp, outcome, detail, cp)
				}
				runtime.GOMAXPROCS(old)
			}
			yieldOn.Store(false)
			return out
		},
	})
}

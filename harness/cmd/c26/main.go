package main

import (
	"verifharness/drv"

	"bytes"
	"encoding/json"
	"fmt"
	"math/rand"
	"os"
	"sync"

	"github.com/open2b/scriggo"
	"github.com/open2b/scriggo/native"
	"github.com/yuin/goldmark"
	"github.com/yuin/goldmark/extension"
	"github.com/yuin/goldmark/parser"
	"github.com/yuin/goldmark/renderer/html"
)

// C26: Markdown escaping neutralises Markdown syntax.
//
// Case {id, s, pl}: s is the byte string (int array) passed to Run as the template variable x, pl
// the list of placement names to show it in (empty or absent = every placement).
// Observation {id, pl, s, st, out, html}: out is the slice of the real rendered Markdown between the
// fixed template text that surrounds {{ x }} in the .md template of that placement; html is what
// goldmark (the CommonMark converter scriggo itself depends on, configured as in cmd/scriggo) makes
// of the WHOLE rendered document. st is "ok", or the class of what happened instead ("runerr",
// "hostpanic", "nodelim": the fixed text was not found around the value - then out is the whole
// output; "gmerr": goldmark failed). Nothing is expected, unescaped or compared here: the TLA+
// Trace specification judges (and reads html only for records failing its completeness clause).

type placement struct {
	name string
	pre  string // template text before {{ x }}
	post string // template text after {{ x }}
	t    *scriggo.Template
}

// The same frames are described (as text / element structure) in spec/mdescape/MdEscape.tla, Frame(pl).
var placements = []*placement{
	{name: "para", pre: "X ", post: " Y\n"},              // inside a paragraph
	{name: "start", pre: "X\n\n", post: "\n\nY\n"},       // at the start of a line that follows a blank line
	{name: "cont", pre: "X\n", post: "\nY\n"},            // at the start of a line inside a paragraph
	{name: "list", pre: "- ", post: "\n"},                // after a list marker
	{name: "heading", pre: "# ", post: "\n"},             // after an ATX heading marker
	{name: "quote", pre: "> ", post: "\n"},               // after a block quote marker
	{name: "codetab", pre: "X\n\n\tP ", post: " Q\n\nY\n"},  // inside a tab-indented code block
	{name: "codesp", pre: "X\n\n    P ", post: " Q\n\nY\n"}, // inside a four-space-indented code block
}

var (
	byName    = map[string]*placement{}
	buildOnce sync.Once
	md        goldmark.Markdown
)

func build() {
	for _, p := range placements {
		src := p.pre + `{{ x }}` + p.post
		t, err := scriggo.BuildTemplate(scriggo.Files{"index.md": []byte(src)}, "index.md",
			&scriggo.BuildOptions{Globals: native.Declarations{"x": (*string)(nil)}})
		if err != nil {
			fmt.Fprintf(os.Stderr, "driver: cannot build template of placement %s (%q): %v\n", p.name, src, err)
			os.Exit(2)
		}
		p.t = t
		byName[p.name] = p
	}
	// the options of cmd/scriggo/main.go (goldmarkOptions)
	md = goldmark.New(
		goldmark.WithRendererOptions(html.WithUnsafe()),
		goldmark.WithParserOptions(parser.WithAutoHeadingID()),
		goldmark.WithExtensions(extension.GFM),
		goldmark.WithExtensions(extension.Footnote),
	)
}

func render(p *placement, s string) (out, whole []byte, st string) {
	defer func() {
		if r := recover(); r != nil {
			out, whole, st = []byte(fmt.Sprint(r)), nil, "hostpanic"
		}
	}()
	var buf bytes.Buffer
	if err := p.t.Run(&buf, map[string]any{"x": s}, nil); err != nil {
		return []byte(err.Error()), nil, "runerr"
	}
	b := buf.Bytes()
	if len(b) < len(p.pre)+len(p.post) || !bytes.HasPrefix(b, []byte(p.pre)) || !bytes.HasSuffix(b, []byte(p.post)) {
		return b, b, "nodelim"
	}
	return b[len(p.pre) : len(b)-len(p.post)], b, "ok"
}

func convert(doc []byte) (h []byte, ok bool) {
	defer func() {
		if r := recover(); r != nil {
			h, ok = []byte(fmt.Sprint(r)), false
		}
	}()
	var buf bytes.Buffer
	if err := md.Convert(doc, &buf); err != nil {
		return []byte(err.Error()), false
	}
	return buf.Bytes(), true
}

func main() {
	drv.Main(&drv.Sub{
		Each: func(raw json.RawMessage, seed int64) []any {
			buildOnce.Do(build)
			var k struct {
				ID int      `json:"id"`
				S  []int    `json:"s"`
				Pl []string `json:"pl"`
			}
			drv.Must(json.Unmarshal(raw, &k))
			if k.S == nil {
				k.S = []int{}
			}
			s := string(drv.BytesOf(k.S))
			var ps []*placement
			if len(k.Pl) == 0 {
				ps = placements
			} else {
				for _, n := range k.Pl {
					p, ok := byName[n]
					if !ok {
						fmt.Fprintf(os.Stderr, "driver: unknown placement %q in case %d\n", n, k.ID)
						os.Exit(2)
					}
					ps = append(ps, p)
				}
			}
			recs := make([]any, 0, len(ps))
			for _, p := range ps {
				out, whole, st := render(p, s)
				h := []byte{}
				if st == "ok" {
					var ok bool
					if h, ok = convert(whole); !ok {
						st = "gmerr"
					}
				}
				recs = append(recs, map[string]any{"id": k.ID, "pl": p.name, "s": k.S, "st": st,
					"out": drv.Ints(out), "html": drv.Ints(h)})
			}
			return recs
		},
		// Seeded extra inputs: fragments of Markdown syntax (the dictionary of the property's quantifier)
		// joined with random text. Inputs only.
		Extra: func(seed int64, n int) []json.RawMessage {
			r := rand.New(rand.NewSource(seed))
			frags := []string{"*", "**", "_", "__", "[", "]", "(", ")", "](", "![", "<", ">", "&", "#", "##", "-", "+", "=", "1.", "1)",
				"`", "```", "~~~", "~~", "\\", "|", "!", ":", "{", "}", ".", " ", "  ", "    ", "\t", "\n", "\n\n", "\r", "\r\n",
				"a", "b", "ab", "1", "0", "&amp;", "&#42;", "&#x2a;", "&lt;", "<b>", "</b>", "<!--", "-->", "<a@b.cc>", "<http://a.bb>",
				"http://a.bb", "www.a.bb", "a@b.cc", "[a](b)", "[a]: b", "[^1]", "[ ]", "[x]", "---", "***", "___", "===", "|-|", "\\\n", "  \n",
				"\u00a0", "\u00e9", "\"", "'"}
			out := make([]json.RawMessage, 0, n)
			for i := 0; i < n; i++ {
				var b []byte
				for k := 1 + r.Intn(6); k > 0; k-- {
					b = append(b, frags[r.Intn(len(frags))]...)
				}
				m, _ := json.Marshal(map[string]any{"id": 1000000 + i, "s": drv.Ints(b)})
				out = append(out, m)
			}
			return out
		},
	})
}

// Driver c11: runs the catalogue programs of spec/cancel/MC_Cancel.tla on the real scriggo with a
// cancellable context, cancels at the point the case names (using the -tags verif run-time hooks
// as triggers), and logs the hook events, the cancellation and what Run returned. No oracle.
package main

import (
	"bytes"
	"context"
	"encoding/json"
	"errors"
	"fmt"
	"os"
	"runtime"
	"sync"
	"time"

	"github.com/open2b/scriggo"
	"github.com/open2b/scriggo/verifbridge"
	"verifharness/drv"
)

type c11Case struct {
	ID     int    `json:"id"`
	Name   string `json:"name"`
	Term   bool   `json:"term"`
	Blocks bool   `json:"blocks"`
	NVM    int    `json:"nvm"`
	Point  string `json:"point"`
}

var programs = map[string]string{
	"loop":                  `package main; func main() { for { } }`,
	"loopcall":              `package main; func f(x int) int { return x + 1 }; func main() { a := 0; for { a = f(a) } }`,
	"nestedloops":           `package main; func f(x int) int { return x + 1 }; func main() { a := 0; for { for i := 0; i < 1000; i++ { for j := 0; j < 10; j++ { a = f(a) } } } }`,
	"recursionloop":         `package main; func f(n int) int { if n == 0 { return 0 }; return f(n-1) + 1 }; func main() { for { f(50) } }`,
	"deferrecoverloop":      `package main; func g() { defer func() { recover() }(); panic(1) }; func main() { for { g() } }`,
	"selectdefault":         `package main; func main() { c := make(chan int); for { select { case <-c: default: } } }`,
	"funcvarrecursion":      `package main; var g func(int) int; func main() { g = func(n int) int { if n == 0 { return 0 }; return g(n-1) + 1 }; for { g(30) } }`,
	"localfuncvarrecursion": `package main; func main() { var g func(int) int; g = func(n int) int { if n == 0 { return 0 }; return g(n-1) + 1 }; for { g(100) } }`,
	"callbackloop":          `package main; func apply(f func(int) int, n int) int { return f(n) }; func main() { k := 1; f := func(n int) int { x := 0; for i := 0; i < 1000; i++ { x += i * k }; return x }; for { apply(f, 3) } }`,
	"structloop":            `package main; type T struct{ n int }; func inc(t *T) { t.n++ }; func main() { t := &T{}; for { inc(t) } }`,
	"closureloop":           `package main; func main() { n := 0; f := func() { n++ }; for { f() } }`,
	"recv":                  `package main; func main() { c := make(chan int); <-c }`,
	"send":                  `package main; func main() { c := make(chan int); c <- 1 }`,
	"select2":               `package main; func main() { c := make(chan int); d := make(chan string); select { case <-c: case <-d: } }`,
	"selectsend":            `package main; func main() { c := make(chan int); d := make(chan string); select { case c <- 1: case v := <-d: _ = v } }`,
	"rangechan":             `package main; func main() { c := make(chan int); for v := range c { _ = v } }`,
	"nilrecv":               `package main; func main() { var c chan int; <-c }`,
	"nilsend":               `package main; func main() { var c chan int; c <- 1 }`,
	"emptyselect":           `package main; func main() { var c chan int; select { case <-c: } }`,
	"recvincall":            `package main; func f(c chan int) int { return <-c }; func main() { c := make(chan int); x := 0; for i := 0; i < 100; i++ { x += i }; f(c) }`,
	"workthenrecv":          `package main; func main() { c := make(chan int); x := 0; for i := 0; i < 1000; i++ { x += i }; <-c }`,
	"bufferedfull":          `package main; func main() { c := make(chan int, 2); c <- 1; c <- 2; c <- 3 }`,
	"mainblock_gospin":      `package main; func main() { c := make(chan int); go func() { for { } }(); <-c }`,
	"mainspin_goblock":      `package main; func main() { c := make(chan int); go func() { <-c }(); for { } }`,
	"mainblock_goblock":     `package main; func main() { c := make(chan int); d := make(chan int); go func() { <-d }(); <-c }`,
	"mainend_goblock":       `package main; func main() { c := make(chan int); go func() { <-c }(); x := 0; for i := 0; i < 1000; i++ { x += i } }`,
	"mainend_gospin":        `package main; func main() { go func() { for { } }(); x := 0; for i := 0; i < 1000; i++ { x += i } }`,
	"pingpong_forever":      `package main; func main() { a := make(chan int); b := make(chan int); go func() { for { v := <-a; b <- v + 1 } }(); v := 0; for { a <- v; v = <-b } }`,
	"finish":                `package main; func main() { x := 0; for i := 0; i < 100; i++ { x += i } }`,
	"finishlong":            `package main; func f(x int) int { return x + 1 }; func main() { x := 0; for i := 0; i < 20000; i++ { x = f(x) } }`,
}

var templates = map[string]string{
	"tmplfor":       `a{% for true %}b{% end %}c`,
	"tmplmacroloop": `{% macro M %}x{% end %}{% for true %}{{ M() }}{% end %}`,
	"tmplrecv":      `{%% c := make(chan int) %%}a{{ <-c }}b`,
	"tmplfuncvar":   `{%% var g func(int) int; g = func(n int) int { if n == 0 { return 0 }; return g(n-1) + 1 } %%}{% for true %}{{ g(50) }}{% end %}`,
	"tmplfinish":    `{% for i := 0; i < 100; i++ %}{{ i }}{% end %}`,
}

type event struct {
	vm  uintptr
	ev  string
	a   int
	drv string // "cancel", "return", ...
	rec map[string]any
}

type recorder struct {
	mu      sync.Mutex
	on      bool
	events  []map[string]any
	t       int
	vms     map[uintptr]int
	nvm     int
	trigger func(ev string, vmIdx int) // called with mu held
}

var rec = &recorder{}

func (r *recorder) hook(vm, env uintptr, ev string, a int, b uintptr) {
	r.mu.Lock()
	if !r.on {
		r.mu.Unlock()
		return
	}
	idx, ok := r.vms[vm]
	if !ok || ev == "run-start" { // (a VM address may be reused by a later VM: a run-start always names a new VM)
		r.nvm++
		idx = r.nvm
		r.vms[vm] = idx
	}
	if ev == "watcher-fired" || ev == "watcher-released" {
		// reported with the VM whose runFunc started the watcher
	}
	r.events = append(r.events, map[string]any{"t": r.t, "ev": "rt", "rt": ev, "vm": idx, "a": a})
	trig := r.trigger
	r.mu.Unlock()
	if trig != nil {
		trig(ev, idx)
	}
}

func (r *recorder) log(m map[string]any) {
	r.mu.Lock()
	m["t"] = r.t
	r.events = append(r.events, m)
	r.mu.Unlock()
}

func isBlock(ev string) bool {
	return ev == "block-recv" || ev == "block-send" || ev == "block-select" || ev == "block-range"
}

func runCase(c c11Case) []any {
	rec.mu.Lock()
	rec.on, rec.events, rec.t, rec.vms, rec.trigger, rec.nvm = true, nil, c.ID, map[uintptr]int{}, nil, 0
	rec.mu.Unlock()
	rec.log(map[string]any{"ev": "reset", "name": c.Name, "term": c.Term, "point": c.Point})

	var run func(ctx context.Context) error
	if src, ok := programs[c.Name]; ok {
		p, err := scriggo.Build(scriggo.Files{"main.go": []byte(src)}, &scriggo.BuildOptions{AllowGoStmt: true})
		if err != nil {
			fmt.Fprintln(os.Stderr, "c11: catalogue program does not build:", c.Name, err)
			os.Exit(2)
		}
		run = func(ctx context.Context) error { return p.Run(&scriggo.RunOptions{Context: ctx}) }
	} else if src, ok := templates[c.Name]; ok {
		t, err := scriggo.BuildTemplate(scriggo.Files{"index.txt": []byte(src)}, "index.txt", &scriggo.BuildOptions{AllowGoStmt: true})
		if err != nil {
			fmt.Fprintln(os.Stderr, "c11: catalogue template does not build:", c.Name, err)
			os.Exit(2)
		}
		run = func(ctx context.Context) error { return t.Run(&bytes.Buffer{}, nil, &scriggo.RunOptions{Context: ctx}) }
	} else {
		fmt.Fprintln(os.Stderr, "c11: unknown catalogue name", c.Name)
		os.Exit(2)
	}

	base := runtime.NumGoroutine()
	ctx, cancel := context.WithCancel(context.Background())
	var once sync.Once
	var cancelAt time.Time
	var cmu sync.Mutex
	doCancel := func() {
		once.Do(func() {
			rec.log(map[string]any{"ev": "cancel"}) // the cause is logged before it is triggered
			cmu.Lock()
			cancelAt = time.Now()
			cmu.Unlock()
			cancel()
		})
	}
	switch c.Point {
	case "pre":
		doCancel()
	case "start":
		rec.mu.Lock()
		rec.trigger = func(ev string, vm int) {
			if ev == "run-start" && vm == 1 {
				doCancel()
			}
		}
		rec.mu.Unlock()
	case "block":
		rec.mu.Lock()
		rec.trigger = func(ev string, vm int) {
			if isBlock(ev) {
				doCancel()
			}
		}
		rec.mu.Unlock()
	case "blockasync":
		rec.mu.Lock()
		rec.trigger = func(ev string, vm int) {
			if isBlock(ev) {
				go func() { time.Sleep(300 * time.Microsecond); doCancel() }()
			}
		}
		rec.mu.Unlock()
	case "running":
		go func() { time.Sleep(3 * time.Millisecond); doCancel() }()
	}

	type result struct {
		err   error
		panic any
	}
	resc := make(chan result, 1)
	go func() {
		defer func() {
			if v := recover(); v != nil {
				resc <- result{panic: v}
			}
		}()
		resc <- result{err: run(ctx)}
	}()
	const boundMs = 5000
	kind := ""
	var res result
	select {
	case res = <-resc:
	case <-time.After(10 * time.Second):
		kind = "hang"
	}
	retAt := time.Now()
	if kind == "" {
		var pe *scriggo.PanicError
		switch {
		case res.panic != nil:
			kind = "hostpanic"
		case res.err == nil:
			kind = "own"
		case res.err == context.Canceled:
			kind = "ctxerr"
		case errors.As(res.err, &pe):
			kind = "panicerror"
		default:
			kind = "other"
		}
	}
	delay := -1
	cmu.Lock()
	if !cancelAt.IsZero() {
		delay = int(retAt.Sub(cancelAt) / time.Millisecond)
		if delay < 0 {
			delay = 0
		}
	}
	cmu.Unlock()
	detail := ""
	if res.panic != nil {
		detail = fmt.Sprint(res.panic)
	} else if res.err != nil {
		detail = res.err.Error()
	}
	if len(detail) > 100 {
		detail = detail[:100]
	}
	rec.log(map[string]any{"ev": "return", "kind": kind, "delay": delay, "bound": boundMs, "detail": detail})
	if c.Point == "late" {
		doCancel()
	}
	// release anything still running (goroutines of the program keep the env; cancel stops them)
	doCancel()
	leaked := 0
	for k := 0; k < 400; k++ {
		leaked = runtime.NumGoroutine() - base
		if leaked <= 0 {
			leaked = 0
			break
		}
		time.Sleep(500 * time.Microsecond)
	}
	if kind == "hang" {
		leaked = 0 // already reported as a hang; the stuck goroutines are its consequence
	}
	rec.log(map[string]any{"ev": "end", "leaked": leaked})
	rec.mu.Lock()
	rec.on = false
	evs := rec.events
	rec.mu.Unlock()
	out := make([]any, len(evs))
	for i, e := range evs {
		out[i] = e
	}
	return out
}

func main() {
	verifbridge.SetRuntimeTracer(rec.hook)
	drv.Main(&drv.Sub{
		Serial: true,
		Each: func(raw json.RawMessage, seed int64) []any {
			var c c11Case
			drv.Must(json.Unmarshal(raw, &c))
			return runCase(c)
		},
	})
}

package main

import (
	"verifharness/drv"

	"encoding/json"
	"errors"
	"flag"
	"fmt"
	"io"
	"io/fs"
	"math/rand"
	"sort"
	"testing/fstest"

	"github.com/open2b/scriggo"
)

// C23: scriggo.Files as an io/fs file system.
// Case {id, files:[{n,d}], name, ops:[{op,n}] | seqs:[[code]]}: build the map, Open(name), perform the operations on the
// handle, log every result. The driver judges nothing (Trace_FilesFS.tla does).
//
// -fstest switches to the oracle guard used ONLY on the violation path: testing/fstest.TestFS on the
// case's tree, logged as {id, fstest:"ok"|"fail", msg}.

type fileRec struct {
	N []int `json:"n"`
	D []int `json:"d"`
}

type opRec struct {
	Op string `json:"op"`
	N  int    `json:"n"`
}

type c23Case struct {
	ID    int       `json:"id"`
	Files []fileRec `json:"files"`
	Name  []int     `json:"name"`
	Ops   []opRec   `json:"ops"`
	// Seqs: several operation sequences, each run on a fresh handle (operations coded as integers:
	// 0 stat, 1 close, 10+n read(n), 20+n readdir(n)); observation id = id*4096 + index.
	Seqs [][]int `json:"seqs"`
}

func decodeOps(codes []int) []opRec {
	ops := make([]opRec, len(codes))
	for i, c := range codes {
		switch {
		case c == 0:
			ops[i] = opRec{"stat", 0}
		case c == 1:
			ops[i] = opRec{"close", 0}
		case c >= 10 && c < 19:
			ops[i] = opRec{"read", c - 10}
		case c >= 19 && c < 40:
			ops[i] = opRec{"readdir", c - 20}
		default:
			ops[i] = opRec{"unknown", c}
		}
	}
	return ops
}

var flagFstest = flag.Bool("fstest", false, "oracle guard: run testing/fstest.TestFS on each case's tree")

func class(err error) string {
	switch {
	case err == nil:
		return "nil"
	case err == io.EOF:
		return "EOF"
	case errors.Is(err, io.EOF):
		return "wrappedEOF"
	case errors.Is(err, fs.ErrNotExist):
		return "notexist"
	case errors.Is(err, fs.ErrInvalid):
		return "invalid"
	case errors.Is(err, fs.ErrClosed):
		return "closed"
	}
	return "other"
}

func typeClass(m fs.FileMode) string {
	switch m.Type() {
	case 0:
		return "file"
	case fs.ModeDir:
		return "dir"
	}
	return "other"
}

func b01(b bool) int {
	if b {
		return 1
	}
	return 0
}

func clampSize(n int64) int {
	if n < 0 {
		return -1
	}
	if n > 1<<30 {
		return 1 << 30
	}
	return int(n)
}

func noInfo() map[string]any {
	return map[string]any{"name": []int{}, "isdir": 0, "mtyp": "", "size": 0, "perm": 0}
}

func infoOf(fi fs.FileInfo) map[string]any {
	m := fi.Mode()
	// IsDir() and Mode().IsDir() must tell the same story; a disagreement is logged as type "other"
	t := typeClass(m)
	if fi.IsDir() != m.IsDir() {
		t = "other"
	}
	return map[string]any{"name": drv.IntsS(fi.Name()), "isdir": b01(fi.IsDir()), "mtyp": t, "size": clampSize(fi.Size()), "perm": int(m.Perm())}
}

// statOfPath: Open(q) + Stat + Close on the same file system, logged next to a directory entry.
func statOfPath(fsys fs.FS, q string) (out map[string]any) {
	out = map[string]any{"err": "other", "name": []int{}, "isdir": 0, "mtyp": "", "size": 0, "perm": 0}
	defer func() {
		if r := recover(); r != nil {
			out["err"] = "hostpanic"
		}
	}()
	f, err := fsys.Open(q)
	if err != nil {
		out["err"] = class(err)
		return
	}
	defer f.Close()
	fi, err := f.Stat()
	if err != nil {
		out["err"] = class(err)
		return
	}
	for k, v := range infoOf(fi) {
		out[k] = v
	}
	out["err"] = "nil"
	return
}

// result: every record has op, n, err; stat adds info, read adds data, readdir adds ents.
func result(op string, n int, err string) map[string]any {
	r := map[string]any{"op": op, "n": n, "err": err}
	switch op {
	case "stat":
		r["info"] = noInfo()
	case "read":
		r["data"] = []int{}
	case "readdir":
		r["ents"] = []any{}
	}
	return r
}

func step(fsys fs.FS, name string, f fs.File, op opRec) (res map[string]any) {
	res = result(op.Op, op.N, "nil")
	defer func() {
		if r := recover(); r != nil {
			res = result(op.Op, op.N, "hostpanic")
		}
	}()
	switch op.Op {
	case "stat":
		fi, err := f.Stat()
		res["err"] = class(err)
		if err == nil {
			res["info"] = infoOf(fi)
		}
	case "close":
		res["err"] = class(f.Close())
	case "read":
		n := op.N
		if n < 0 {
			n = 0
		}
		buf := make([]byte, n)
		k, err := f.Read(buf)
		res["err"] = class(err)
		if k < 0 || k > n {
			res["err"] = "badcount"
			k = 0
		}
		res["data"] = drv.Ints(buf[:k])
	case "readdir":
		d, ok := f.(fs.ReadDirFile)
		if !ok {
			res["err"] = "noreaddir"
			return
		}
		list, err := d.ReadDir(op.N)
		res["err"] = class(err)
		ents := make([]any, 0, len(list))
		for _, e := range list {
			ent := map[string]any{"name": drv.IntsS(e.Name()), "isdir": b01(e.IsDir()), "typ": typeClass(e.Type()), "ierr": "nil", "info": noInfo()}
			fi, ierr := e.Info()
			ent["ierr"] = class(ierr)
			if ierr == nil {
				ent["info"] = infoOf(fi)
			}
			q := e.Name()
			if name != "." {
				q = name + "/" + e.Name()
			}
			ent["st"] = statOfPath(fsys, q)
			ents = append(ents, ent)
		}
		res["ents"] = ents
	default:
		res["err"] = "unknown-op"
	}
	return
}

func runCase(c *c23Case, id int, opsToRun []opRec) map[string]any {
	fsys := scriggo.Files{}
	for _, f := range c.Files {
		fsys[string(drv.BytesOf(f.N))] = drv.BytesOf(f.D)
	}
	name := string(drv.BytesOf(c.Name))
	files := make([]any, len(c.Files))
	for i, f := range c.Files {
		files[i] = map[string]any{"n": append([]int{}, f.N...), "d": append([]int{}, f.D...)}
	}
	// the operations are echoed inside res (op, n); when Open fails none is performed
	obs := map[string]any{"id": id, "files": files, "name": append([]int{}, c.Name...)}
	open := map[string]any{"err": "nil", "perr": 0, "rdf": 0}
	var f fs.File
	func() {
		defer func() {
			if r := recover(); r != nil {
				open["err"] = "hostpanic"
				f = nil
			}
		}()
		var err error
		f, err = fsys.Open(name)
		open["err"] = class(err)
		var pe *fs.PathError
		if errors.As(err, &pe) {
			open["perr"] = 1
		}
		if err != nil {
			f = nil
		} else if f == nil {
			open["err"] = "nilfile"
		}
		if _, ok := f.(fs.ReadDirFile); ok {
			open["rdf"] = 1
		}
	}()
	obs["open"] = open
	res := []any{}
	if f != nil {
		for _, op := range opsToRun {
			res = append(res, step(fsys, name, f, op))
		}
	}
	obs["res"] = res
	return obs
}

func runFstest(c *c23Case) map[string]any {
	fsys := scriggo.Files{}
	var names []string
	for _, f := range c.Files {
		fsys[string(drv.BytesOf(f.N))] = drv.BytesOf(f.D)
		names = append(names, string(drv.BytesOf(f.N)))
	}
	out := map[string]any{"id": c.ID, "fstest": "ok", "msg": ""}
	func() {
		defer func() {
			if r := recover(); r != nil {
				out["fstest"] = "fail"
				out["msg"] = fmt.Sprint("panic: ", r)
			}
		}()
		if err := fstest.TestFS(fsys, names...); err != nil {
			out["fstest"] = "fail"
			out["msg"] = err.Error()
		}
	}()
	return out
}

// extra: seeded random trees (depth <= 3, names with dots and Unicode, empty files) and longer
// operation sequences. Conflicting names are avoided by construction (a name is dropped when it is, or
// has, a directory prefix that is already a file).
func extra(seed int64, n int) []json.RawMessage {
	r := rand.New(rand.NewSource(seed))
	elems := []string{"a", "b", "c", "d", "e", "a.b", ".x", "...", "ü", "d.b", "d-", "日本", "A", "z z", "a\\b", "x:y"}
	probesBad := []string{"", "/", "/a", "a/", "a//b", "./a", "a/./b", "a/../b", "..", "\xff", "a/\xc3(", "zz", "a/zz/zz"}
	var out []json.RawMessage
	for i := 0; i < n; i++ {
		nf := r.Intn(7)
		set := map[string]bool{}
		for j := 0; j < nf; j++ {
			depth := 1 + r.Intn(3)
			p := ""
			for k := 0; k < depth; k++ {
				if k > 0 {
					p += "/"
				}
				p += elems[r.Intn(len(elems))]
			}
			set[p] = true
		}
		var names []string
		for p := range set {
			names = append(names, p)
		}
		sort.Strings(names)
		var keep []string
		for _, p := range names {
			ok := true
			for _, q := range names {
				if q != p && len(q) > len(p) && q[:len(p)+1] == p+"/" {
					ok = false // p would be both a file and a directory
				}
			}
			if ok {
				keep = append(keep, p)
			}
		}
		r.Shuffle(len(keep), func(a, b int) { keep[a], keep[b] = keep[b], keep[a] })
		files := []any{}
		dirs := map[string]bool{".": true}
		for _, p := range keep {
			d := make([]int, r.Intn(4)*r.Intn(3))
			for k := range d {
				d[k] = r.Intn(256)
			}
			files = append(files, map[string]any{"n": drv.IntsS(p), "d": d})
			for k := 0; k < len(p); k++ {
				if p[k] == '/' {
					dirs[p[:k]] = true
				}
			}
		}
		var cands []string
		cands = append(cands, keep...)
		for d := range dirs {
			cands = append(cands, d, d, d) // directories are where most of the contract is
		}
		sort.Strings(cands)
		cands = append(cands, probesBad[r.Intn(len(probesBad))])
		name := cands[r.Intn(len(cands))]
		nops := 1 + r.Intn(8)
		ops := []any{}
		for k := 0; k < nops; k++ {
			var o map[string]any
			switch x := r.Intn(20); {
			case x < 3:
				o = map[string]any{"op": "stat", "n": 0}
			case x < 4:
				o = map[string]any{"op": "close", "n": 0}
			case x < 9:
				o = map[string]any{"op": "read", "n": r.Intn(5)}
			default:
				o = map[string]any{"op": "readdir", "n": r.Intn(5) - 1}
			}
			ops = append(ops, o)
		}
		m, _ := json.Marshal(map[string]any{"id": 1000000000 + i, "files": files, "name": drv.IntsS(name), "ops": ops})
		out = append(out, m)
	}
	return out
}

func main() {
	drv.Main(&drv.Sub{
		Each: func(raw json.RawMessage, seed int64) []any {
			var c c23Case
			drv.Must(json.Unmarshal(raw, &c))
			if *flagFstest {
				return []any{runFstest(&c)}
			}
			if c.Seqs != nil {
				out := make([]any, len(c.Seqs))
				for k, codes := range c.Seqs {
					out[k] = runCase(&c, c.ID*4096+k, decodeOps(codes))
				}
				return out
			}
			return []any{runCase(&c, c.ID, c.Ops)}
		},
		Extra: extra,
	})
}

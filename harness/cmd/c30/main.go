// Driver c30: builds each generated source several times in this process and logs digests of the
// disassembly, of UsedVars and of the behaviour. The check runs this driver in several processes.
package main

import (
	"bytes"
	"crypto/sha256"
	"encoding/hex"
	"encoding/json"
	"flag"
	"fmt"
	"sort"
	"strings"

	"github.com/open2b/scriggo"
	"github.com/open2b/scriggo/native"
	"verifharness/drv"
)

type c30Case struct {
	ID    int     `json:"id"`
	NV    int     `json:"nv"`
	Refs  [][]int `json:"refs"`
	FRefs []int   `json:"frefs"`
	Feats []string `json:"feats"`
}

// feature programs (MC_Determinism.FeatCases): the text of each feature as a program and as a template
type feat struct {
	decls, stmts string            // program: package-level declarations, statements of main
	tmpl         string            // template text
	files        map[string]string // additional template files
}

var featOrder = []string{"multival", "namedbool", "ifacetrue", "namedconst", "closure2", "closure3", "complexmul", "complexsub",
	"sameline", "maplit", "switchgoto", "deferrecover", "natives", "twofiles", "methodsval", "structs"}

var featTab = map[string]feat{
	"multival": {decls: "func mv() (int, string, int) { return 1, \"s\", 3 }\nvar ma, mb, mc = mv()\nvar md, _, me = mv()\n", stmts: "println(ma, mb, mc, md, me)\n",
		tmpl: "{% var ta, tb, tc = 1, \"s\", 3 %}{{ ta }}{{ tb }}{{ tc }}"},
	"namedbool": {decls: "type B bool\nvar bx B = true\nvar by B = false\n", stmts: "println(bool(bx), bool(by))\n",
		tmpl: "{% type TB bool %}{% var tbx TB = true %}{{ tbx }}"},
	"ifacetrue": {stmts: "var it interface{} = true\nvar jf interface{} = false\n_, isb := it.(bool)\nprintln(it, jf, isb)\n",
		tmpl: "{% var tit interface{} = true %}{% _, tisb := tit.(bool) %}{{ tisb }}"},
	"namedconst": {decls: "type I int\nconst kc = 1\nvar ix I = kc\nvar iy interface{} = kc\n", stmts: "_, isi := iy.(int)\nprintln(int(ix), isi)\n",
		tmpl: "{% type TI int %}{% const tkc = 1 %}{% var tix TI = tkc %}{% var tiy interface{} = tkc %}{% _, tisi := tiy.(int) %}{{ tix }}{{ tisi }}"},
	"closure2": {decls: "func cl2(a, b int) func() int { return func() int { return a*10 + b } }\n", stmts: "println(cl2(1, 2)())\n",
		tmpl: "{% cl := func(a, b int) func() int { return func() int { return a*10 + b } } %}{{ cl(1, 2)() }}"},
	"closure3": {decls: "func cl3(a string, b int, c float64) (func() string, func() int) { return func() string { return a }, func() int { return b + int(c) } }\n", stmts: "c3a, c3b := cl3(\"x\", 2, 3)\nprintln(c3a(), c3b())\n",
		tmpl: "{% macro C3(a string, b int, c string) %}{% f := func() string { return a + c } %}{% g := func() int { return b } %}{{ f() }}{{ g() }}{% end %}{{ C3(\"x\", 2, \"z\") }}"},
	"complexmul": {decls: "func cm1(x, y complex128) complex128 { return x * y }\nfunc cm2(x, y complex128) complex128 { return x*y + x }\n", stmts: "println(cm1(1+2i, 3i), cm2(2i, 3))\n",
		tmpl: "{% cm := func(x, y complex128) complex128 { return x * y } %}{% cm2 := func(x, y complex128) complex128 { return x*y + x } %}{{ real(cm(1+2i, 3i)) }}{{ imag(cm2(2i, 3)) }}"},
	"complexsub": {decls: "func cs1(x, y complex128) complex128 { return x - y }\nfunc cs2(x, y complex64) complex64 { return x/y - x }\n", stmts: "println(cs1(1+2i, 3i), cs2(2i, 3))\n",
		tmpl: "{% cs := func(x, y complex128) complex128 { return x - y } %}{{ real(cs(1+2i, 3i)) }}"},
	"sameline": {decls: "func s1() int { return 1 }; func s2() int { return 2 }; func s3() int { return s1() + s2() }\n", stmts: "println(s3(), s2(), s1())\n",
		tmpl: "{% macro S1 %}1{% end %}{% macro S2 %}2{% end %}{% macro S3 %}{{ S1() }}{{ S2() }}{% end %}{{ S3() }}"},
	"maplit": {decls: "var ml = map[string]int{\"a\": 1, \"b\": 2, \"c\": 3, \"d\": 4}\n", stmts: "println(len(ml), ml[\"a\"]+ml[\"d\"])\n",
		tmpl: "{% var tml = map[string]int{\"a\": 1, \"b\": 2, \"c\": 3} %}{{ len(tml) }}{{ tml[\"b\"] }}"},
	"switchgoto": {decls: "func sg(n int) string {\n\ti := 0\nL:\n\tswitch {\n\tcase n > 2:\n\t\tn--\n\t\ti++\n\t\tgoto L\n\tcase n == 2:\n\t\treturn \"two\"\n\tdefault:\n\t\treturn \"other\"\n\t}\n\treturn \"\"\n}\n", stmts: "println(sg(5), sg(1))\n",
		tmpl: "{% switch tn := 2; tn %}{% case 3, 4 %}a{% case 2 %}b{% default %}c{% end %}"},
	"deferrecover": {decls: "func dr() (r int) {\n\tdefer func() {\n\t\tif v := recover(); v != nil {\n\t\t\tr = 7\n\t\t}\n\t}()\n\tvar m map[string]int\n\tm[\"a\"] = 1\n\treturn 1\n}\n", stmts: "println(dr())\n",
		tmpl: "{% dr := func() (r int) { defer func() { if v := recover(); v != nil { r = 7 } }(); var m map[string]int; m[\"a\"] = 1; return 1 } %}{{ dr() }}"},
	"natives": {stmts: "println(p.A(1), p.B(2), p.C(3), p.K1, p.K2, p.V1, p.V2)\n",
		tmpl: "{{ p.A(1) }}{{ p.B(2) }}{{ p.C(3) }}{{ p.K2 }}"},
	"twofiles": {decls: "func tf1() int { return 1 }\n", stmts: "println(tf1())\n",
		tmpl: "{% import \"fa.txt\" %}{% import fb \"fb.txt\" %}{{ FA() }}{{ fb.FB() }}{{ FA2() }}",
		files: map[string]string{"fa.txt": "{% macro FA %}a{% end %}{% macro FA2 %}a2{% end %}", "fb.txt": "{% macro FB %}b{% end %}{% macro FB2 %}b2{% end %}"}},
	"methodsval": {decls: "var fv1 = func(a int) int { return a + gv1 }\nvar gv1 = 4\nvar fv2 = func(a int) int { return fv1(a) * gv1 }\n", stmts: "println(fv2(2))\n",
		tmpl: "{% var tg = 4 %}{% tf1 := func(a int) int { return a + tg } %}{% tf2 := func(a int) int { return tf1(a) * tg } %}{{ tf2(2) }}"},
	"structs": {decls: "type S1 struct {\n\tA int\n\tB string\n\tC []int\n}\nvar sv = S1{A: 1, B: \"b\", C: []int{1, 2}}\nvar sp = &S1{B: \"p\"}\n", stmts: "println(sv.A, sv.B, len(sv.C), sp.B)\n",
		tmpl: "{% type TS struct { A int; B string } %}{% var tsv = TS{A: 1, B: \"b\"} %}{{ tsv.A }}{{ tsv.B }}"},
}

func featSrc(c c30Case, form string) scriggo.Files {
	has := map[string]bool{}
	for _, f := range c.Feats {
		has[f] = true
	}
	var b strings.Builder
	if form == "program" {
		var decls, stmts strings.Builder
		for _, n := range featOrder {
			if has[n] {
				decls.WriteString(featTab[n].decls)
				stmts.WriteString(featTab[n].stmts)
			}
		}
		b.WriteString("package main\n\n")
		if has["natives"] {
			b.WriteString("import \"p\"\n\n")
		}
		b.WriteString(decls.String())
		b.WriteString("\nfunc main() {\n" + stmts.String() + "}\n")
		return scriggo.Files{"main.go": []byte(b.String())}
	}
	files := scriggo.Files{}
	if has["natives"] {
		b.WriteString("{% import \"p\" %}")
	}
	for _, n := range featOrder {
		if has[n] {
			// imports must precede the rest
			if n == "twofiles" {
				continue
			}
		}
	}
	if has["twofiles"] {
		t := featTab["twofiles"].tmpl
		i := strings.Index(t, "{{")
		b.WriteString(t[:i])
		for name, src := range featTab["twofiles"].files {
			files[name] = []byte(src)
		}
	}
	for _, n := range featOrder {
		if !has[n] {
			continue
		}
		t := featTab[n].tmpl
		if n == "twofiles" {
			t = t[strings.Index(t, "{{"):]
		}
		b.WriteString(t)
		b.WriteString("\n")
	}
	files["index.txt"] = []byte(b.String())
	return files
}

var flagProc = flag.Int("proc", 1, "process number (logged)")
var flagReps = flag.Int("reps", 3, "builds per source in this process")

func h(b []byte) string {
	s := sha256.Sum256(b)
	return hex.EncodeToString(s[:8])
}

func name(t int) string {
	if t == 0 {
		return "f()"
	}
	return fmt.Sprintf("v%d", t)
}

func progSrc(c c30Case) string {
	var b strings.Builder
	b.WriteString("package main\n\nimport \"p\"\n\n")
	for v := 1; v <= c.NV; v++ {
		fmt.Fprintf(&b, "var v%d = g(\"v%d\"", v, v)
		for _, t := range c.Refs[v-1] {
			fmt.Fprintf(&b, ", %s", name(t))
		}
		b.WriteString(")\n")
	}
	b.WriteString("\nfunc f() int {\n\ts := 0\n")
	for _, t := range c.FRefs {
		fmt.Fprintf(&b, "\ts += v%d\n", t)
	}
	b.WriteString("\treturn s + p.K1 + p.K2\n}\n\n")
	b.WriteString("func g(n string, xs ...int) int {\n\tprintln(n)\n\ts := len(n)\n\tfor _, x := range xs {\n\t\ts += x\n\t}\n\treturn s + p.A(1) + p.B(2)\n}\n\n")
	b.WriteString("type T1 struct{ a, b int }\ntype T2 []T1\ntype T3 map[string]T2\n\n")
	b.WriteString("func main() {\n\tvar t T3\n\t_ = t\n\tprintln(")
	for v := 1; v <= c.NV; v++ {
		if v > 1 {
			b.WriteString(", ")
		}
		fmt.Fprintf(&b, "v%d", v)
	}
	b.WriteString(")\n\tprintln(f(), p.C(3), p.V1, p.V2)\n}\n")
	return b.String()
}

// template form: variables become globals of the template, the function a macro
func tmplSrc(c c30Case) string {
	var b strings.Builder
	b.WriteString("{% import \"p\" %}")
	b.WriteString("{% macro F %}")
	for _, t := range c.FRefs {
		fmt.Fprintf(&b, "{{ g%d }}", t)
	}
	b.WriteString("{{ p.K1 }}{% end %}")
	for v := 1; v <= c.NV; v++ {
		fmt.Fprintf(&b, "{%% macro M%d %%}[v%d", v, v)
		for _, t := range c.Refs[v-1] {
			if t == 0 {
				b.WriteString("{{ F() }}")
			} else {
				fmt.Fprintf(&b, "{{ g%d }}", t)
				if m := minInt(t, v-1); m >= 1 {
					fmt.Fprintf(&b, "{{ M%d() }}", m)
				}
			}
		}
		b.WriteString("]{% end %}")
	}
	for v := c.NV; v >= 1; v-- {
		fmt.Fprintf(&b, "{{ M%d() }}{{ p.A(g%d) }}", v, v)
	}
	return b.String()
}

func minInt(a, b int) int {
	if a < b {
		return a
	}
	return b
}

var pkgs = native.Packages{"p": native.Package{Name: "p", Declarations: native.Declarations{
	"A": func(x int) int { return x + 1 }, "B": func(x int) int { return x * 2 }, "C": func(x int) int { return x - 1 },
	"K1": 7, "K2": 9, "V1": new(int), "V2": new(string),
}}}

func build(c c30Case, form string) (asm, used, out string) {
	defer func() {
		if v := recover(); v != nil {
			out = "hostpanic:" + fmt.Sprint(v)
		}
	}()
	if form == "program" {
		files := scriggo.Files{"main.go": []byte(progSrc(c))}
		if c.Feats != nil {
			files = featSrc(c, form)
		}
		p, err := scriggo.Build(files, &scriggo.BuildOptions{Packages: pkgs})
		if err != nil {
			return "-", "-", "builderror:" + err.Error()
		}
		a, _ := p.Disassemble("main")
		var sb strings.Builder
		rerr := p.Run(&scriggo.RunOptions{Print: func(v any) { fmt.Fprint(&sb, v) }})
		return h(a), "-", h([]byte(sb.String() + fmt.Sprint(rerr)))
	}
	globals := native.Declarations{}
	vars := map[string]any{}
	for v := 1; v <= c.NV; v++ {
		globals[fmt.Sprintf("g%d", v)] = (*int)(nil)
		vars[fmt.Sprintf("g%d", v)] = v * 10
	}
	tfiles := scriggo.Files{"index.txt": []byte(tmplSrc(c))}
	if c.Feats != nil {
		tfiles = featSrc(c, form)
	}
	t, err := scriggo.BuildTemplate(tfiles, "index.txt", &scriggo.BuildOptions{Packages: pkgs, Globals: globals})
	if err != nil {
		return "-", "-", "builderror:" + err.Error()
	}
	a := t.Disassemble(-1)
	uv := t.UsedVars()
	sorted := sort.StringsAreSorted(uv)
	var buf bytes.Buffer
	rerr := t.Run(&buf, vars, nil)
	return h(a), fmt.Sprint(uv, sorted), h([]byte(buf.String() + fmt.Sprint(rerr)))
}

func main() {
	drv.Main(&drv.Sub{
		Each: func(raw json.RawMessage, seed int64) []any {
			var c c30Case
			drv.Must(json.Unmarshal(raw, &c))
			var out []any
			for _, form := range []string{"program", "template"} {
				for r := 0; r < *flagReps; r++ {
					asm, used, o := build(c, form)
					id := c.ID * 2
					if form == "template" {
						id++
					}
					out = append(out, map[string]any{"id": id, "case": c.ID, "form": form, "proc": *flagProc, "rep": r, "asm": asm, "used": used, "out": o})
				}
			}
			return out
		},
	})
}

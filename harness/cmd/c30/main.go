// Driver c30: builds each generated source several times in this process and logs digests of the
// disassembly, of UsedVars and of the behaviour. The check runs this driver in several processes.
package main

import (
	"bytes"
	"crypto/sha256"
	"encoding/hex"
	"encoding/json"
	"flag"
	"fmt"
	"sort"
	"strings"

	"github.com/open2b/scriggo"
	"github.com/open2b/scriggo/native"
	"verifharness/drv"
)

type c30Case struct {
	ID    int     `json:"id"`
	NV    int     `json:"nv"`
	Refs  [][]int `json:"refs"`
	FRefs []int   `json:"frefs"`
}

var flagProc = flag.Int("proc", 1, "process number (logged)")
var flagReps = flag.Int("reps", 3, "builds per source in this process")

func h(b []byte) string {
	s := sha256.Sum256(b)
	return hex.EncodeToString(s[:8])
}

func name(t int) string {
	if t == 0 {
		return "f()"
	}
	return fmt.Sprintf("v%d", t)
}

func progSrc(c c30Case) string {
	var b strings.Builder
	b.WriteString("package main\n\nimport \"p\"\n\n")
	for v := 1; v <= c.NV; v++ {
		fmt.Fprintf(&b, "var v%d = g(\"v%d\"", v, v)
		for _, t := range c.Refs[v-1] {
			fmt.Fprintf(&b, ", %s", name(t))
		}
		b.WriteString(")\n")
	}
	b.WriteString("\nfunc f() int {\n\ts := 0\n")
	for _, t := range c.FRefs {
		fmt.Fprintf(&b, "\ts += v%d\n", t)
	}
	b.WriteString("\treturn s + p.K1 + p.K2\n}\n\n")
	b.WriteString("func g(n string, xs ...int) int {\n\tprintln(n)\n\ts := len(n)\n\tfor _, x := range xs {\n\t\ts += x\n\t}\n\treturn s + p.A(1) + p.B(2)\n}\n\n")
	b.WriteString("type T1 struct{ a, b int }\ntype T2 []T1\ntype T3 map[string]T2\n\n")
	b.WriteString("func main() {\n\tvar t T3\n\t_ = t\n\tprintln(")
	for v := 1; v <= c.NV; v++ {
		if v > 1 {
			b.WriteString(", ")
		}
		fmt.Fprintf(&b, "v%d", v)
	}
	b.WriteString(")\n\tprintln(f(), p.C(3), p.V1, p.V2)\n}\n")
	return b.String()
}

// template form: variables become globals of the template, the function a macro
func tmplSrc(c c30Case) string {
	var b strings.Builder
	b.WriteString("{% import \"p\" %}")
	b.WriteString("{% macro F %}")
	for _, t := range c.FRefs {
		fmt.Fprintf(&b, "{{ g%d }}", t)
	}
	b.WriteString("{{ p.K1 }}{% end %}")
	for v := 1; v <= c.NV; v++ {
		fmt.Fprintf(&b, "{%% macro M%d %%}[v%d", v, v)
		for _, t := range c.Refs[v-1] {
			if t == 0 {
				b.WriteString("{{ F() }}")
			} else {
				fmt.Fprintf(&b, "{{ g%d }}", t)
				if m := minInt(t, v-1); m >= 1 {
					fmt.Fprintf(&b, "{{ M%d() }}", m)
				}
			}
		}
		b.WriteString("]{% end %}")
	}
	for v := c.NV; v >= 1; v-- {
		fmt.Fprintf(&b, "{{ M%d() }}{{ p.A(g%d) }}", v, v)
	}
	return b.String()
}

func minInt(a, b int) int {
	if a < b {
		return a
	}
	return b
}

var pkgs = native.Packages{"p": native.Package{Name: "p", Declarations: native.Declarations{
	"A": func(x int) int { return x + 1 }, "B": func(x int) int { return x * 2 }, "C": func(x int) int { return x - 1 },
	"K1": 7, "K2": 9, "V1": new(int), "V2": new(string),
}}}

func build(c c30Case, form string) (asm, used, out string) {
	defer func() {
		if v := recover(); v != nil {
			out = "hostpanic:" + fmt.Sprint(v)
		}
	}()
	if form == "program" {
		p, err := scriggo.Build(scriggo.Files{"main.go": []byte(progSrc(c))}, &scriggo.BuildOptions{Packages: pkgs})
		if err != nil {
			return "-", "-", "builderror:" + err.Error()
		}
		a, _ := p.Disassemble("main")
		var sb strings.Builder
		rerr := p.Run(&scriggo.RunOptions{Print: func(v any) { fmt.Fprint(&sb, v) }})
		return h(a), "-", h([]byte(sb.String() + fmt.Sprint(rerr)))
	}
	globals := native.Declarations{}
	vars := map[string]any{}
	for v := 1; v <= c.NV; v++ {
		globals[fmt.Sprintf("g%d", v)] = (*int)(nil)
		vars[fmt.Sprintf("g%d", v)] = v * 10
	}
	t, err := scriggo.BuildTemplate(scriggo.Files{"index.txt": []byte(tmplSrc(c))}, "index.txt", &scriggo.BuildOptions{Packages: pkgs, Globals: globals})
	if err != nil {
		return "-", "-", "builderror:" + err.Error()
	}
	a := t.Disassemble(-1)
	uv := t.UsedVars()
	sorted := sort.StringsAreSorted(uv)
	var buf bytes.Buffer
	rerr := t.Run(&buf, vars, nil)
	return h(a), fmt.Sprint(uv, sorted), h([]byte(buf.String() + fmt.Sprint(rerr)))
}

func main() {
	drv.Main(&drv.Sub{
		Each: func(raw json.RawMessage, seed int64) []any {
			var c c30Case
			drv.Must(json.Unmarshal(raw, &c))
			var out []any
			for _, form := range []string{"program", "template"} {
				for r := 0; r < *flagReps; r++ {
					asm, used, o := build(c, form)
					id := c.ID * 2
					if form == "template" {
						id++
					}
					out = append(out, map[string]any{"id": id, "case": c.ID, "form": form, "proc": *flagProc, "rep": r, "asm": asm, "used": used, "out": o})
				}
			}
			return out
		},
	})
}

package main

import (
	"verifharness/drv"

	"bytes"
	"context"
	"encoding/json"
	"errors"
	"fmt"
	"os"
	"path/filepath"
	"runtime"
	"sort"
	"strconv"
	"strings"
	"sync"
	"time"

	"github.com/open2b/scriggo"
	"github.com/open2b/scriggo/native"
)

// C20: implementation limits. The driver concretises one case of the sweep plan exported by
// MC_Limits.tla into a program / template that needs n units of one resource, builds and runs it
// with the real scriggo and logs {builds, run, printed}. It judges nothing and computes no
// expected value: the checksum every program prints is recomputed by Trace_Limits.tla.
//
// Case {id, rid, res, cap, points, locate, span, lo, hi, base, step, mod, kind, w, m}: one per resource.
//
//	points : the n of the sweep plan; one program each.
//	locate : also find the actual threshold (largest n that builds / smallest n refused) inside
//	         [lo, hi] by galloping away from cap and bisecting, then sweep span around it.
//
// EVERY program built is logged as an observation (id = rid*100000+n) and judged.
//
// Value of unit i (1-based): v(i) = base + step*(i % mod). Each program folds the values read back
// through the resource under test into h = (h*w + v) % m (kind "hash", left fold from h=0) or
// E_i = (v_i + w*E_{i+1}) % m (kind "nest", E_{n+1}=0), or shows v(n) only (kind "single"), and
// prints the result.

type lcase struct {
	ID     int    `json:"id"`
	Rid    int    `json:"rid"`
	Res    string `json:"res"`
	Cap    int    `json:"cap"`
	Points []int  `json:"points"`
	Locate bool   `json:"locate"`
	Span   int    `json:"span"`
	Lo     int    `json:"lo"`
	Hi     int    `json:"hi"`
	Base   int    `json:"base"`
	Step   int    `json:"step"`
	Mod    int    `json:"mod"`
	Kind   string `json:"kind"`
	W      int    `json:"w"`
	M      int    `json:"m"`
}

func (c *lcase) v(i int) int { return c.Base + c.Step*(i%c.Mod) }

// step returns the statement "h = (h*w + x) % m".
func (c *lcase) fold(x string) string {
	return fmt.Sprintf("h = (h*%d + %s) %% %d", c.W, x, c.M)
}

type prog struct {
	files    scriggo.Files
	opts     *scriggo.BuildOptions
	template bool
}

// gen concretises (resource, n). Every use sits in its own block so that temporaries are released
// and the resource aimed at is the first one to run out.
func gen(c *lcase, n int) (*prog, error) {
	var b strings.Builder
	w := func(format string, a ...any) { fmt.Fprintf(&b, format, a...) }
	p := &prog{opts: &scriggo.BuildOptions{}}
	head := func() { w("package main\n\n") }
	switch c.Res {
	case "intlocals":
		head()
		w("func main() {\n")
		for i := 1; i <= n; i++ {
			w("\ta%d := %d\n", i, c.v(i))
		}
		w("\th := 0\n")
		for i := 1; i <= n; i++ {
			w("\t{ %s }\n", c.fold(fmt.Sprintf("a%d", i)))
		}
		w("\tprint(h)\n}\n")
	case "floatlocals":
		head()
		w("func main() {\n")
		for i := 1; i <= n; i++ {
			w("\tf%d := %d.5\n", i, c.v(i))
		}
		w("\th := 0\n")
		for i := 1; i <= n; i++ {
			w("\t{ %s }\n", c.fold(fmt.Sprintf("int(f%d)", i)))
		}
		w("\tprint(h)\n}\n")
	case "stringlocals":
		head()
		w("func main() {\n")
		for i := 1; i <= n; i++ {
			w("\ts%d := %q\n", i, strings.Repeat("x", c.v(i)))
		}
		w("\th := 0\n")
		for i := 1; i <= n; i++ {
			w("\t{ %s }\n", c.fold(fmt.Sprintf("len(s%d)", i)))
		}
		w("\tprint(h)\n}\n")
	case "generallocals":
		head()
		w("func main() {\n")
		for i := 1; i <= n; i++ {
			w("\tg%d := []int{%d}\n", i, c.v(i))
		}
		w("\th := 0\n")
		for i := 1; i <= n; i++ {
			w("\t{ %s }\n", c.fold(fmt.Sprintf("g%d[0]", i)))
		}
		w("\tprint(h)\n}\n")
	case "indirect":
		// n int variables captured (and written) by a closure: indirect registers.
		head()
		w("func main() {\n")
		for i := 1; i <= n; i++ {
			w("\tvar a%d int\n", i)
		}
		w("\tset := func() {\n")
		for i := 1; i <= n; i++ {
			w("\t\t{ a%d = %d }\n", i, c.v(i))
		}
		w("\t}\n\tset()\n\th := 0\n")
		for i := 1; i <= n; i++ {
			w("\t{ %s }\n", c.fold(fmt.Sprintf("a%d", i)))
		}
		w("\tprint(h)\n}\n")
	case "temps":
		// right-nested expression: the left operand of every level stays live in a temporary.
		head()
		w("func id(x int) int { return x }\n\nfunc main() {\n\th := ")
		for i := 1; i <= n; i++ {
			w("(id(%d) + %d*", c.v(i), c.W)
		}
		w("0")
		for i := 1; i <= n; i++ {
			w(") %% %d", c.M)
		}
		w("\n\tprint(h)\n}\n")
	case "args":
		head()
		w("func f(")
		for i := 1; i <= n; i++ {
			if i > 1 {
				w(", ")
			}
			w("p%d", i)
		}
		w(" int) int {\n\th := 0\n")
		for i := 1; i <= n; i++ {
			w("\t{ %s }\n", c.fold(fmt.Sprintf("p%d", i)))
		}
		w("\treturn h\n}\n\nfunc main() {\n\tprint(f(")
		for i := 1; i <= n; i++ {
			if i > 1 {
				w(", ")
			}
			w("%d", c.v(i))
		}
		w("))\n}\n")
	case "intconsts":
		head()
		w("func main() {\n\th := 0\n")
		for i := 1; i <= n; i++ {
			w("\t{ %s }\n", c.fold(strconv.Itoa(c.v(i))))
		}
		w("\tprint(h)\n}\n")
	case "floatconsts":
		head()
		w("func main() {\n\th := 0\n")
		for i := 1; i <= n; i++ {
			w("\t{ f := %d.5; %s }\n", c.v(i), c.fold("int(f)"))
		}
		w("\tprint(h)\n}\n")
	case "stringconsts":
		head()
		w("func main() {\n\th := 0\n")
		for i := 1; i <= n; i++ {
			w("\t{ s := %q; %s }\n", strings.Repeat("x", c.v(i)), c.fold("len(s)"))
		}
		w("\tprint(h)\n}\n")
	case "generalconsts":
		// distinct complex constants live in the general values table
		head()
		w("func main() {\n\th := 0\n")
		for i := 1; i <= n; i++ {
			w("\t{ c := %d + 1i; %s }\n", c.v(i), c.fold("int(real(c))"))
		}
		w("\tprint(h)\n}\n")
	case "types":
		// n distinct array types; the length observed at run time through a slice of the array
		head()
		w("func main() {\n\th := 0\n")
		for i := 1; i <= n; i++ {
			w("\t{ p := new([%d]int); s := p[:]; %s }\n", c.v(i), c.fold("len(s)"))
		}
		w("\tprint(h)\n}\n")
	case "sfuncs":
		head()
		for i := 1; i <= n; i++ {
			w("func f%d() int { return %d }\n", i, c.v(i))
		}
		w("\nfunc main() {\n\th := 0\n")
		for i := 1; i <= n; i++ {
			w("\t{ %s }\n", c.fold(fmt.Sprintf("f%d()", i)))
		}
		w("\tprint(h)\n}\n")
	case "nfuncs":
		head()
		w("import \"p\"\n\nfunc main() {\n\th := 0\n")
		decl := native.Declarations{}
		for i := 1; i <= n; i++ {
			v := c.v(i)
			decl[fmt.Sprintf("F%d", i)] = func() int { return v }
			w("\t{ %s }\n", c.fold(fmt.Sprintf("p.F%d()", i)))
		}
		w("\tprint(h)\n}\n")
		p.opts.Packages = native.Packages{"p": native.Package{Name: "p", Declarations: decl}}
	case "fieldwrites":
		// n distinct field paths written and read in ONE function
		head()
		w("type S struct {\n")
		for i := 1; i <= n; i++ {
			w("\tF%d int\n", i)
		}
		w("}\n\nfunc main() {\n\tvar x S\n")
		for i := 1; i <= n; i++ {
			w("\t{ x.F%d = %d }\n", i, c.v(i))
		}
		w("\th := 0\n")
		for i := 1; i <= n; i++ {
			w("\t{ %s }\n", c.fold(fmt.Sprintf("x.F%d", i)))
		}
		w("\tprint(h)\n}\n")
	case "fieldreads":
		// n distinct field paths read in one function; the writes are spread over several functions
		head()
		const chunk = 100
		w("type S struct {\n")
		for i := 1; i <= n; i++ {
			w("\tF%d int\n", i)
		}
		w("}\n")
		nf := 0
		for lo := 1; lo <= n; lo += chunk {
			nf++
			w("\nfunc set%d(x *S) {\n", nf)
			for i := lo; i < lo+chunk && i <= n; i++ {
				w("\t{ x.F%d = %d }\n", i, c.v(i))
			}
			w("}\n")
		}
		w("\nfunc main() {\n\tvar x S\n")
		for k := 1; k <= nf; k++ {
			w("\tset%d(&x)\n", k)
		}
		w("\th := 0\n")
		for i := 1; i <= n; i++ {
			w("\t{ %s }\n", c.fold(fmt.Sprintf("x.F%d", i)))
		}
		w("\tprint(h)\n}\n")
	case "selectcases":
		// one ready case (the last) among n; the others wait on a nil channel
		head()
		w("func main() {\n\tvar d chan int\n\t_ = d\n\tc := make(chan int, 1)\n\tc <- %d\n\th := 0\n\tselect {\n", c.v(n))
		for i := 1; i < n; i++ {
			w("\tcase <-d:\n\t\th = 7\n")
		}
		w("\tcase x := <-c:\n\t\t%s\n\t}\n\tprint(h)\n}\n", c.fold("x"))
	case "globals":
		// n package-level variables of the four register kinds in turn, written and read by
		// several functions
		head()
		const chunk = 100
		for i := 1; i <= n; i++ {
			w("var g%d %s\n", i, [4]string{"int", "float64", "string", "[]int"}[i%4])
		}
		nf := 0
		for lo := 1; lo <= n; lo += chunk {
			nf++
			w("\nfunc set%d() {\n", nf)
			for i := lo; i < lo+chunk && i <= n; i++ {
				switch i % 4 {
				case 0:
					w("\t{ g%d = %d }\n", i, c.v(i))
				case 1:
					w("\t{ g%d = %d.5 }\n", i, c.v(i))
				case 2:
					w("\t{ g%d = %q }\n", i, strings.Repeat("x", c.v(i)))
				case 3:
					w("\t{ g%d = []int{%d} }\n", i, c.v(i))
				}
			}
			w("}\n\nfunc get%d(h int) int {\n", nf)
			for i := lo; i < lo+chunk && i <= n; i++ {
				x := fmt.Sprintf([4]string{"g%d", "int(g%d)", "len(g%d)", "g%d[0]"}[i%4], i)
				w("\t{ %s }\n", c.fold(x))
			}
			w("\treturn h\n}\n")
		}
		w("\nfunc main() {\n")
		for k := 1; k <= nf; k++ {
			w("\tset%d()\n", k)
		}
		w("\th := 0\n")
		for k := 1; k <= nf; k++ {
			w("\th = get%d(h)\n", k)
		}
		w("\tprint(h)\n}\n")
	case "jumps":
		// n if-else blocks in one body, the else branch taken every time: n distinct forward jump
		// targets spread over the whole address range of a long function body
		head()
		w("func main() {\n\th := 0\n")
		for i := 1; i <= n; i++ {
			w("\t{ if h < 0 { h = 7 } else { %s } }\n", c.fold(strconv.Itoa(c.v(i))))
		}
		w("\tprint(h)\n}\n")
	case "tmplstringconsts":
		p.template = true
		w("{%% var h = 0 %%}\n")
		for i := 1; i <= n; i++ {
			w("{%% if h >= 0 %%}{%% var s = %q %%}{%% %s %%}{%% end %%}\n", strings.Repeat("x", c.v(i)), c.fold("len(s)"))
		}
		w("{{ h }}\n")
	case "tmpltypes":
		p.template = true
		w("{%% var h = 0 %%}\n")
		for i := 1; i <= n; i++ {
			w("{%% if h >= 0 %%}{%% var p = new([%d]int) %%}{%% var s = p[:] %%}{%% %s %%}{%% end %%}\n", c.v(i), c.fold("len(s)"))
		}
		w("{{ h }}\n")
	default:
		if err := genMore(c, n, p, &b); err != nil {
			return nil, err
		}
	}
	if p.files != nil {
		return p, nil
	}
	if p.template {
		p.files = scriggo.Files{"index.txt": []byte(b.String())}
	} else {
		p.files = scriggo.Files{"main.go": []byte(b.String())}
	}
	return p, nil
}

const runTimeout = 40 * time.Second

type outcome struct {
	builds  string // ok | limiterror | otherbuilderror | othererror | hostpanic
	run     string // ok | panic | error | timeout | hostpanic | none
	printed int    // the integer printed, -1 when none / not an integer
	msg     string
	raw     string
}

func short(s string) string {
	if len(s) > 160 {
		return s[:160]
	}
	return s
}

// exec builds and runs one program. Only public types are used to classify errors.
func exec(p *prog) (o outcome) {
	o = outcome{builds: "hostpanic", run: "none", printed: -1}
	var out bytes.Buffer
	var runner func(ctx context.Context) error
	func() {
		defer func() {
			if r := recover(); r != nil {
				o.builds, o.msg = "hostpanic", short(fmt.Sprint(r))
			}
		}()
		var err error
		if p.template {
			var t *scriggo.Template
			t, err = scriggo.BuildTemplate(p.files, "index.txt", p.opts)
			if err == nil {
				runner = func(ctx context.Context) error {
					out.Reset()
					return t.Run(&out, nil, &scriggo.RunOptions{Context: ctx})
				}
			}
		} else {
			var pr *scriggo.Program
			pr, err = scriggo.Build(p.files, p.opts)
			if err == nil {
				runner = func(ctx context.Context) error {
					out.Reset()
					return pr.Run(&scriggo.RunOptions{Context: ctx, Print: func(v any) { fmt.Fprint(&out, v) }})
				}
			}
		}
		if err == nil {
			o.builds = "ok"
			return
		}
		o.msg = short(err.Error())
		var be *scriggo.BuildError
		switch {
		case errors.As(err, &be) && strings.Contains(be.Message(), "exceeded"):
			o.builds = "limiterror"
		case errors.As(err, &be):
			o.builds = "otherbuilderror"
		default:
			o.builds = "othererror"
		}
	}()
	if o.builds != "ok" {
		return
	}
	func() {
		defer func() {
			if r := recover(); r != nil {
				o.run, o.msg = "hostpanic", short(fmt.Sprint(r))
			}
		}()
		// These programs run in milliseconds. A run still going after runTimeout is cancelled; it is
		// logged as "timeout" only if that happens three times in a row.
		var err error
		for try := 0; try < 3; try++ {
			ctx, cancel := context.WithTimeout(context.Background(), runTimeout)
			err = runner(ctx)
			cancel()
			if !errors.Is(err, context.DeadlineExceeded) {
				break
			}
		}
		var pe *scriggo.PanicError
		switch {
		case err == nil:
			o.run = "ok"
		case errors.Is(err, context.DeadlineExceeded):
			o.run, o.msg = "timeout", "run cancelled after "+runTimeout.String()+" (3 times)"
		case errors.As(err, &pe):
			o.run, o.msg = "panic", short(err.Error())
		default:
			o.run, o.msg = "error", short(err.Error())
		}
	}()
	o.raw = short(strings.TrimSpace(out.String()))
	if v, err := strconv.Atoi(o.raw); err == nil && v >= 0 && v < 1<<31 {
		o.printed = v
	}
	return
}

func record(c *lcase, n int, phase string, o outcome) map[string]any {
	return map[string]any{
		"id": c.Rid*100000 + n, "rid": c.Rid, "res": c.Res, "cap": c.Cap, "n": n, "phase": phase,
		"base": c.Base, "step": c.Step, "mod": c.Mod, "kind": c.Kind, "w": c.W, "m": c.M,
		"builds": o.builds, "run": o.run, "printed": o.printed, "msg": o.msg, "raw": o.raw,
	}
}

var (
	sem    = make(chan struct{}, runtime.NumCPU())
	srcDir = os.Getenv("C20_SRC_DIR") // when set, the source of every program is written there
)

func probe(c *lcase, n int) outcome {
	sem <- struct{}{}
	defer func() { <-sem }()
	p, err := gen(c, n)
	if err != nil {
		panic(err)
	}
	if srcDir != "" {
		for name, data := range p.files {
			_ = os.WriteFile(filepath.Join(srcDir, fmt.Sprintf("%d_%s", c.Rid*100000+n, strings.ReplaceAll(name, "/", "_"))), data, 0o644)
		}
	}
	return exec(p)
}

// sweep runs the planned points, then (if asked) locates a boundary between "builds" and "refused"
// inside [lo, hi] starting from cap and sweeps span around it. It assumes nothing about where the
// boundary is; when there is none in the range (every n builds, or none), the final sweep is simply
// around the end reached.
func sweep(c *lcase) []any {
	memo := map[int]outcome{}
	phase := map[int]string{}
	var mu sync.Mutex
	get := func(n int, ph string) outcome {
		mu.Lock()
		o, ok := memo[n]
		mu.Unlock()
		if ok {
			return o
		}
		o = probe(c, n)
		mu.Lock()
		if _, dup := memo[n]; !dup {
			memo[n] = o
			phase[n] = ph
		}
		mu.Unlock()
		return o
	}
	par := func(ns []int, ph string) {
		var wg sync.WaitGroup
		for _, n := range ns {
			wg.Add(1)
			go func(n int) { defer wg.Done(); get(n, ph) }(n)
		}
		wg.Wait()
	}
	par(c.Points, "point")
	if c.Locate {
		clamp := func(n int) int {
			if n < c.Lo {
				return c.Lo
			}
			if n > c.Hi {
				return c.Hi
			}
			return n
		}
		okAt := func(n int) bool { return get(n, "locate").builds == "ok" }
		good, bad := -1, -1 // good builds, bad does not, good < bad
		start := clamp(c.Cap)
		if okAt(start) {
			good = start
			for d := 1; good < c.Hi; d *= 2 {
				n := clamp(start + d)
				if okAt(n) {
					good = n
				} else {
					bad = n
					break
				}
			}
		} else {
			bad = start
			for d := 1; bad > c.Lo; d *= 2 {
				n := clamp(start - d)
				if okAt(n) {
					good = n
					break
				}
				bad = n
			}
		}
		if good >= 0 && bad >= 0 {
			for bad-good > 1 {
				mid := (good + bad) / 2
				if okAt(mid) {
					good = mid
				} else {
					bad = mid
				}
			}
		}
		centre := good
		if centre < 0 {
			centre = bad
		}
		var ns []int
		for n := centre - c.Span + 1; n <= centre+c.Span; n++ {
			if n >= c.Lo && n <= c.Hi {
				ns = append(ns, n)
			}
		}
		par(ns, "around")
	}
	var order []int
	for n := range memo {
		order = append(order, n)
	}
	sort.Ints(order)
	var out []any
	for _, n := range order {
		out = append(out, record(c, n, phase[n], memo[n]))
	}
	return out
}

func main() {
	drv.Main(&drv.Sub{
		Each: func(raw json.RawMessage, seed int64) []any {
			var c lcase
			drv.Must(json.Unmarshal(raw, &c))
			if c.Mod <= 0 {
				c.Mod = 1 << 30
			}
			return sweep(&c)
		},
	})
}

// readers writes chunked functions <name>K(h int) int, each folding expr(i) for its units, and returns
// the statements that thread h through them.
func readers(c *lcase, b *strings.Builder, n, chunk int, name string, expr func(i int) string) string {
	var calls strings.Builder
	k := 0
	for lo := 1; lo <= n; lo += chunk {
		k++
		fmt.Fprintf(b, "\nfunc %s%d(h int) int {\n", name, k)
		for i := lo; i < lo+chunk && i <= n; i++ {
			fmt.Fprintf(b, "\t{ %s }\n", expr(i))
		}
		b.WriteString("\treturn h\n}\n")
		fmt.Fprintf(&calls, "\th = %s%d(h)\n", name, k)
	}
	return calls.String()
}

// pkgVarDecl is the declaration of package-level variable i of a register kind, with an initialiser.
func pkgVarDecl(c *lcase, kind string, name string, i int) string {
	switch kind {
	case "int":
		return fmt.Sprintf("var %s%d = %d\n", name, i, c.v(i))
	case "float":
		return fmt.Sprintf("var %s%d = %d.5\n", name, i, c.v(i))
	case "string":
		return fmt.Sprintf("var %s%d = %q\n", name, i, strings.Repeat("x", c.v(i)))
	}
	return fmt.Sprintf("var %s%d = []int{%d}\n", name, i, c.v(i))
}

func pkgVarRead(kind string, name string, i int) string {
	switch kind {
	case "int":
		return fmt.Sprintf("%s%d", name, i)
	case "float":
		return fmt.Sprintf("int(%s%d)", name, i)
	case "string":
		return fmt.Sprintf("len(%s%d)", name, i)
	}
	return fmt.Sprintf("%s%d[0]", name, i)
}

// genMore: variants whose entries around the limit come from the allocation paths the builder treats
// separately (nil, zero values of non-comparable types, composite zero values, function values and
// literals), and resources consumed by package-level initialisers ($initvars) of the main package,
// of an imported package and of an imported template file.
func genMore(c *lcase, n int, p *prog, b *strings.Builder) error {
	w := func(format string, a ...any) { fmt.Fprintf(b, format, a...) }
	complexUnit := func(i int) string {
		return fmt.Sprintf("{ c := %d + 1i; %s }", c.v(i), c.fold("int(real(c))"))
	}
	nilUnit := func(i int) string {
		return fmt.Sprintf("{ var e interface{} = nil; x := 7; if e == nil { x = %d }; %s }", c.v(i), c.fold("x"))
	}
	switch {
	case c.Res == "generalnil" || c.Res == "generalzero":
		// n-1 distinct complex constants, then the first use of nil / of the zero value of a slice
		// type (the variadic parameter of f(g()) when g's results leave it without arguments) as the LAST general value
		w("package main\n\nfunc two() (int, int) { return 0, 0 }\n\nfunc vz(x, y int, a ...int) int { return x + y + len(a) }\n\n")
		w("func main() {\n\th := 0\n")
		for i := 1; i < n; i++ {
			w("\t%s\n", complexUnit(i))
		}
		if c.Res == "generalnil" {
			w("\t%s\n", nilUnit(n))
		} else {
			w("\t{ x := %d + vz(two()); %s }\n", c.v(n), c.fold("x"))
		}
		w("\tprint(h)\n}\n")
	case c.Res == "generalmix":
		// complex constants, zero values of distinct non-comparable types and nil in turn
		w("package main\n\nfunc two() (int, int) { return 0, 0 }\n\n")
		for i := 1; i <= n; i++ {
			if i%3 == 2 {
				w("func z%d(x, y int, a ...[%d]int) int { return %d + x + y + len(a) }\n", i, i, c.v(i))
			}
		}
		w("\nfunc main() {\n\th := 0\n")
		for i := 1; i <= n; i++ {
			switch i % 3 {
			case 1:
				w("\t%s\n", complexUnit(i))
			case 2:
				w("\t{ %s }\n", c.fold(fmt.Sprintf("z%d(two())", i)))
			case 0:
				w("\t%s\n", nilUnit(i))
			}
		}
		w("\tprint(h)\n}\n")
	case c.Res == "typesmix":
		// distinct types reached through new, make, a composite zero value and a map literal in turn
		w("package main\n\nfunc main() {\n\th := 0\n")
		for i := 1; i <= n; i++ {
			k := c.v(i)
			switch i % 4 {
			case 0:
				w("\t{ p := new([%d]int); s := p[:]; %s }\n", k, c.fold("len(s)"))
			case 1:
				w("\t{ s := make([][%d]int, 1); t := s[0][:]; %s }\n", k, c.fold("len(t)"))
			case 2:
				w("\t{ z := struct{ A [%d]int }{}; t := z.A[:]; %s }\n", k, c.fold("len(t)"))
			case 3:
				w("\t{ m := map[[%d]int]int{}; var k [%d]int; m[k] = %d; %s }\n", k, k, k, c.fold("m[k]"))
			}
		}
		w("\tprint(h)\n}\n")
	case c.Res == "sfuncmix":
		// direct calls, function values and function literals in turn
		w("package main\n\n")
		for i := 1; i <= n; i++ {
			if i%3 != 0 {
				w("func f%d() int { return %d }\n", i, c.v(i))
			}
		}
		w("\nfunc main() {\n\th := 0\n")
		for i := 1; i <= n; i++ {
			switch i % 3 {
			case 1:
				w("\t{ %s }\n", c.fold(fmt.Sprintf("f%d()", i)))
			case 2:
				w("\t{ g := f%d; %s }\n", i, c.fold("g()"))
			case 0:
				w("\t{ g := func() int { return %d }; %s }\n", c.v(i), c.fold("g()"))
			}
		}
		w("\tprint(h)\n}\n")
	case c.Res == "nfuncvals":
		// native functions used as values
		w("package main\n\nimport \"p\"\n\nfunc main() {\n\th := 0\n")
		decl := native.Declarations{}
		for i := 1; i <= n; i++ {
			v := c.v(i)
			decl[fmt.Sprintf("F%d", i)] = func() int { return v }
			w("\t{ g := p.F%d; %s }\n", i, c.fold("g()"))
		}
		w("\tprint(h)\n}\n")
		p.opts.Packages = native.Packages{"p": native.Package{Name: "p", Declarations: decl}}
	case strings.HasPrefix(c.Res, "pkgvars_"):
		// n package-level variables of ONE register kind, with initialisers: registers of $initvars
		kind := strings.TrimPrefix(c.Res, "pkgvars_")
		w("package main\n\n")
		for i := 1; i <= n; i++ {
			w("%s", pkgVarDecl(c, kind, "g", i))
		}
		calls := readers(c, b, n, 100, "get", func(i int) string { return c.fold(pkgVarRead(kind, "g", i)) })
		w("\nfunc main() {\n\th := 0\n%s\tprint(h)\n}\n", calls)
	case strings.HasPrefix(c.Res, "pkginit_"):
		// n distinct constants / types used ONLY by one package-level initialiser
		what := strings.TrimPrefix(c.Res, "pkginit_")
		elem := map[string]string{"strings": "string", "general": "complex128", "types": "interface{}", "ints": "int"}[what]
		w("package main\n\nvar g = []%s{\n", elem)
		for i := 1; i <= n; i++ {
			switch what {
			case "strings":
				w("\t%q,\n", strings.Repeat("x", c.v(i)))
			case "general":
				w("\t%d + 1i,\n", c.v(i))
			case "types":
				w("\t[%d]int{},\n", c.v(i))
			case "ints":
				w("\t%d,\n", c.v(i))
			}
		}
		w("}\n")
		chunk := 100
		if what == "ints" {
			chunk = 2000
		}
		calls := readers(c, b, n, chunk, "get", func(i int) string {
			switch what {
			case "strings":
				return c.fold(fmt.Sprintf("len(g[%d])", i-1))
			case "general":
				return c.fold(fmt.Sprintf("int(real(g[%d]))", i-1))
			case "types":
				return fmt.Sprintf("x := g[%d].([%d]int); %s", i-1, c.v(i), c.fold("len(x[:])"))
			}
			return c.fold(fmt.Sprintf("g[%d]", i-1))
		})
		w("\nfunc main() {\n\th := 0\n%s\tprint(h)\n}\n", calls)
	case c.Res == "libvars_string" || c.Res == "libinit_general":
		// the same inside an imported Scriggo package
		var lib strings.Builder
		lib.WriteString("package lib\n\n")
		var calls string
		if c.Res == "libvars_string" {
			for i := 1; i <= n; i++ {
				lib.WriteString(pkgVarDecl(c, "string", "g", i))
			}
			calls = readers(c, &lib, n, 100, "Get", func(i int) string { return c.fold(pkgVarRead("string", "g", i)) })
		} else {
			lib.WriteString("var g = []complex128{\n")
			for i := 1; i <= n; i++ {
				fmt.Fprintf(&lib, "\t%d + 1i,\n", c.v(i))
			}
			lib.WriteString("}\n")
			calls = readers(c, &lib, n, 100, "Get", func(i int) string { return c.fold(fmt.Sprintf("int(real(g[%d]))", i-1)) })
		}
		w("package main\n\nimport \"a.b/lib\"\n\nfunc main() {\n\th := 0\n%s\tprint(h)\n}\n", strings.ReplaceAll(calls, "h = Get", "h = lib.Get"))
		p.files = scriggo.Files{"go.mod": []byte("module a.b\ngo 1.16\n"), "main.go": []byte(b.String()), "lib/lib.go": []byte(lib.String())}
	case c.Res == "tmplimpvars":
		// n string variables declared at the top level of an imported template file
		p.template = true
		var lib strings.Builder
		for i := 1; i <= n; i++ {
			fmt.Fprintf(&lib, "{%% var G%d = %q %%}\n", i, strings.Repeat("x", c.v(i)))
		}
		w("{%% import lib \"lib.txt\" %%}\n{%% var h = 0 %%}\n")
		for i := 1; i <= n; i++ {
			w("{%% if h >= 0 %%}{%% %s %%}{%% end %%}\n", c.fold(fmt.Sprintf("len(lib.G%d)", i)))
		}
		w("{{ h }}\n")
		p.files = scriggo.Files{"index.txt": []byte(b.String()), "lib.txt": []byte(lib.String())}
	case c.Res == "tmplstringsel":
		// n distinct map keys written as selectors (m.k1): string values added by the selector path
		p.template = true
		m := map[string]int{}
		w("{%% var h = 0 %%}\n")
		for i := 1; i <= n; i++ {
			m[fmt.Sprintf("k%d", i)] = c.v(i)
			w("{%% if h >= 0 %%}{%% %s %%}{%% end %%}\n", c.fold(fmt.Sprintf("m.k%d", i)))
		}
		w("{{ h }}\n")
		p.opts.Globals = native.Declarations{"m": &m}
	default:
		return fmt.Errorf("unknown resource %q", c.Res)
	}
	return nil
}

package main

import (
	"encoding/json"
	"errors"
	"flag"
	"fmt"
	"math/rand"
	"reflect"
	"sort"
	"strconv"
	"strings"

	"verifharness/cmd/c28/corpus"
	"verifharness/drv"

	"github.com/open2b/scriggo"
	"github.com/open2b/scriggo/ast"
)

// C27: printing a parsed tree gives source that parses back to the same tree.
//
// Case {id, mode, t, pred, src:[tokens], lits:[[bytes]]} (exported by TLC) or {id, mode, text} (corpus /
// random source). The driver joins the tokens with one space (a token "#n" stands for the literal whose
// source bytes are lits[n-1]), parses the source with the real parser (T1), calls the real String
// method, parses the result again (T2) and logs both trees as generic dumps without positions. It
// judges nothing: the TLA+ Trace specification compares the trees.

type node struct {
	K string  `json:"k"`
	V []any   `json:"v"` // decimal/bool/name strings; byte arrays for data fields (see dump)
	C []*node `json:"c"`
}

func leaf(k string) *node { return &node{K: k, V: []any{}, C: []*node{}} }

// dataFields are the string fields that hold data (what a literal denotes, a literal's spelling, raw
// text) rather than a name: they are dumped as byte arrays, so that the comparison is exact whatever
// bytes they contain.
var dataFields = map[string]bool{"Path": true, "Value": true, "Text": true}

var errStop = errors.New("tree captured")

// parse returns the unexpanded tree of a template source as produced by the parser (the build is
// stopped by the transformer, before type checking).
func parse(src string) (tree *ast.Tree, panicked bool) {
	defer func() {
		if r := recover(); r != nil {
			tree, panicked = nil, true
		}
	}()
	_, _ = scriggo.BuildTemplate(scriggo.Files{"index.html": []byte(src)}, "index.html", &scriggo.BuildOptions{
		UnexpandedTransformer: func(t *ast.Tree) error { tree = t; return errStop },
	})
	return tree, false
}

var treeType = reflect.TypeOf((*ast.Tree)(nil))

// dump renders a node generically: kind = Go type name, v = exported scalar fields in declaration
// order, c = child fields in declaration order (a slice becomes a "list" node, nil becomes "nil").
// Positions, the parenthesis count, checker-filled fields (IR, Upvars, Reflect) and expanded trees
// are not part of the dump.
func dump(v reflect.Value) *node {
	for v.Kind() == reflect.Interface {
		if v.IsNil() {
			return leaf("nil")
		}
		v = v.Elem()
	}
	if v.Kind() == reflect.Ptr {
		if v.IsNil() {
			return leaf("nil")
		}
		v = v.Elem()
	}
	if v.Kind() != reflect.Struct {
		return leaf("?" + v.Kind().String())
	}
	t := v.Type()
	n := leaf(t.Name())
	for i := 0; i < t.NumField(); i++ {
		f := t.Field(i)
		if !f.IsExported() || f.Anonymous || f.Name == "IR" || f.Name == "Upvars" || f.Name == "Reflect" || f.Type == treeType {
			continue
		}
		fv := v.Field(i)
		switch fv.Kind() {
		case reflect.String:
			if dataFields[f.Name] {
				n.V = append(n.V, drv.IntsS(fv.String()))
			} else {
				n.V = append(n.V, fv.String())
			}
		case reflect.Bool:
			n.V = append(n.V, strconv.FormatBool(fv.Bool()))
		case reflect.Int, reflect.Int8, reflect.Int16, reflect.Int32, reflect.Int64:
			n.V = append(n.V, strconv.FormatInt(fv.Int(), 10))
		case reflect.Interface, reflect.Ptr:
			n.C = append(n.C, dump(fv))
		case reflect.Struct:
			if f.Type.Name() == "Cut" {
				n.V = append(n.V, fmt.Sprint(fv.Interface()))
			} else {
				n.C = append(n.C, dump(fv))
			}
		case reflect.Slice:
			if f.Type.Elem().Kind() == reflect.Uint8 {
				n.V = append(n.V, drv.Ints(fv.Bytes()))
				continue
			}
			l := leaf("list")
			for j := 0; j < fv.Len(); j++ {
				l.C = append(l.C, dump(fv.Index(j)))
			}
			n.C = append(n.C, l)
		}
	}
	return n
}

// subject returns the node under test of a parsed one-construct template.
func subject(tree *ast.Tree, mode string) ast.Node {
	for _, n := range tree.Nodes {
		if _, ok := n.(*ast.Text); ok {
			continue
		}
		if mode == "expr" {
			if sh, ok := n.(*ast.Show); ok && len(sh.Expressions) == 1 {
				return sh.Expressions[0]
			}
			return nil
		}
		return n
	}
	return nil
}

func wrap(mode, s string) string {
	if mode == "expr" {
		return "{{ " + s + " }}"
	}
	return "{% " + s + " %}"
}

// parseSubject returns the dump of the construct and the node itself.
func parseSubject(mode, s string) (*node, ast.Node) {
	tree, panicked := parse(wrap(mode, s))
	if panicked {
		return leaf("hostpanic"), nil
	}
	if tree == nil {
		return leaf("error"), nil
	}
	n := subject(tree, mode)
	if n == nil {
		return leaf("error"), nil
	}
	return dump(reflect.ValueOf(n)), n
}

func stringOf(n ast.Node) (s string, ok bool) {
	defer func() {
		if r := recover(); r != nil {
			s, ok = "", false
		}
	}()
	return n.(fmt.Stringer).String(), true
}

// subObs is the observation of one sub-expression node (second pass, -subs).
type subObs struct {
	T1   *node  `json:"T1"`
	T2   *node  `json:"T2"`
	Kids []int  `json:"kids"`
	Str  string `json:"str"`
}

var flagSubs = flag.Bool("subs", false, "also log String()/re-parse of every sub-expression node")

// collect appends, in post-order, one observation per ast.Expression node reachable from v (and for
// the construct itself when root is set) and returns the indices (1-based) of the nearest ones.
func collect(v reflect.Value, out *[]subObs, root bool, mode string) []int {
	for v.Kind() == reflect.Interface {
		if v.IsNil() {
			return nil
		}
		v = v.Elem()
	}
	var self ast.Node
	if v.Kind() == reflect.Ptr {
		if v.IsNil() {
			return nil
		}
		if n, ok := v.Interface().(ast.Node); ok && v.Elem().Kind() == reflect.Struct {
			if _, isExpr := n.(ast.Expression); isExpr || root {
				self = n
			}
		}
		v = v.Elem()
	}
	var kids []int
	switch v.Kind() {
	case reflect.Struct:
		t := v.Type()
		for i := 0; i < t.NumField(); i++ {
			f := t.Field(i)
			if !f.IsExported() || f.Anonymous || f.Name == "IR" || f.Name == "Upvars" || f.Name == "Reflect" || f.Type == treeType {
				continue
			}
			if t.Name() == "Import" && (f.Name == "Ident" || f.Name == "For") {
				continue // declared names ('.', '_', A), not expressions: they have no source form of their own
			}
			kids = append(kids, collect(v.Field(i), out, false, "expr")...)
		}
	case reflect.Slice:
		if v.Type().Elem().Kind() != reflect.Uint8 {
			for i := 0; i < v.Len(); i++ {
				kids = append(kids, collect(v.Index(i), out, false, "expr")...)
			}
		}
	}
	if self == nil {
		return kids
	}
	if kids == nil {
		kids = []int{}
	}
	o := subObs{T1: dump(reflect.ValueOf(self)), T2: leaf("hostpanic"), Kids: kids}
	if s, ok := stringOf(self); ok {
		o.Str = s
		o.T2, _ = parseSubject(mode, s)
	}
	*out = append(*out, o)
	return []int{len(*out)}
}

type c27Case struct {
	ID   int             `json:"id"`
	Mode string          `json:"mode"`
	T    json.RawMessage `json:"t"`
	Pred json.RawMessage `json:"pred"`
	Src  []string        `json:"src"`
	Lits [][]int         `json:"lits"`
	Text string          `json:"text"`
}

// join concretises a token sequence: tokens separated by one space, literal holes filled in.
func join(src []string, lits [][]int) string {
	var b strings.Builder
	for i, tok := range src {
		if i > 0 {
			b.WriteByte(' ')
		}
		if len(tok) > 1 && tok[0] == '#' {
			if n, err := strconv.Atoi(tok[1:]); err == nil && n >= 1 && n <= len(lits) {
				b.Write(drv.BytesOf(lits[n-1]))
				continue
			}
		}
		b.WriteString(tok)
	}
	return b.String()
}

var (
	noModel = json.RawMessage(`{"k":"none","v":[],"c":[]}`)
	noPred  = json.RawMessage(`{"cls":"none","k1":"-","k2":"-"}`)
)

func each(raw json.RawMessage, seed int64) []any {
	var k c27Case
	drv.Must(json.Unmarshal(raw, &k))
	if k.T == nil {
		k.T, k.Pred, k.Src = noModel, noPred, []string{}
	} else {
		k.Text = join(k.Src, k.Lits)
	}
	if k.Lits == nil {
		k.Lits = [][]int{}
	}
	o := map[string]any{"id": k.ID, "mode": k.Mode, "t": k.T, "pred": k.Pred, "src": k.Src, "lits": k.Lits, "text": k.Text}
	t1, n := parseSubject(k.Mode, k.Text)
	o["T1"] = t1
	o["str"] = ""
	o["T2"] = leaf("none")
	subs := []subObs{}
	if n != nil && *flagSubs {
		collect(reflect.ValueOf(n), &subs, true, k.Mode)
	}
	o["subs"] = subs
	if n == nil {
		return []any{o}
	}
	s, ok := stringOf(n)
	if !ok {
		o["T2"] = leaf("hostpanic")
		return []any{o}
	}
	o["str"] = s
	o["T2"], _ = parseSubject(k.Mode, s)
	return []any{o}
}

// ---------------------------------------------------------------------------------------------
// extra cases: every expression / printable statement found in the corpus templates (their own
// source text, cut out by position), plus seeded random expression sources.

var stmtKinds = map[string]bool{"Assignment": true, "Var": true, "Send": true, "Defer": true, "Go": true,
	"Show": true, "TypeDeclaration": true, "Goto": true, "Extends": true, "Import": true}

func harvest(v reflect.Value, src string, out map[string]string, seen map[uintptr]bool) {
	for v.Kind() == reflect.Interface {
		if v.IsNil() {
			return
		}
		v = v.Elem()
	}
	if v.Kind() == reflect.Ptr {
		if v.IsNil() || seen[v.Pointer()] {
			return
		}
		seen[v.Pointer()] = true
		if n, ok := v.Interface().(ast.Node); ok && v.Elem().Kind() == reflect.Struct {
			if p := n.Pos(); p != nil && p.Start >= 0 && p.End < len(src) && p.Start <= p.End {
				text := src[p.Start : p.End+1]
				if _, isExpr := n.(ast.Expression); isExpr {
					out["expr\x00"+text] = "expr"
				} else if stmtKinds[v.Elem().Type().Name()] && !strings.Contains(text, "{%") && !strings.Contains(text, "{{") {
					out["stmt\x00"+text] = "stmt"
				}
			}
		}
		v = v.Elem()
	}
	switch v.Kind() {
	case reflect.Struct:
		for i := 0; i < v.NumField(); i++ {
			f := v.Type().Field(i)
			if !f.IsExported() || f.Anonymous || f.Name == "IR" || f.Name == "Upvars" || f.Name == "Reflect" || f.Type == treeType {
				continue
			}
			harvest(v.Field(i), src, out, seen)
		}
	case reflect.Slice:
		if v.Type().Elem().Kind() == reflect.Uint8 {
			return
		}
		for i := 0; i < v.Len(); i++ {
			harvest(v.Index(i), src, out, seen)
		}
	}
}

var (
	rBin = []string{"==", "!=", "<", "<=", ">", ">=", "&&", "||", "+", "-", "*", "/", "%", "&", "|", "^", "&^", "<<", ">>", "and", "or", "contains", "not contains"}
	rUn  = []string{"-", "+", "!", "^", "*", "&", "<-", "not "}
	rTyp = []string{"int", "*T", "[]T", "map[string]T", "chan T", "<-chan T", "chan<- T", "chan (<-chan T)", "chan<- chan T", "func()", "func() T", "func(int) (T, error)", "interface{}", "struct{ a int }", "[3]T", "pkg.T", "[]*T", "*[]T", "map[K][]V", "<-chan chan<- T", "chan chan T"}
	rLit = []string{"a", "b", "c", "x.y", "a1", "2.5", "\"s\"", "'r'", "`w`", "3i", "nil", "true"}
)

var rPathChars = []string{"a", "b", "f", "n", "t", "x", "u", "0", "1", ".", "-", "_", "\\", "\"", "'", "`", " ", "\t", "\x7f",
	"\u00e9", "\u00a0", "\u4e16", "%", "}", "{", "#", ":"}

// randStringLit returns a string literal in one of several spellings; with path set its value is a
// valid template path (random elements, optional "/" or "../" prefix).
func randStringLit(r *rand.Rand, path bool) string {
	elem := func() string {
		for {
			var e string
			for i, n := 0, 1+r.Intn(4); i < n; i++ {
				e += rPathChars[r.Intn(len(rPathChars))]
			}
			if e != "." && e != ".." {
				return e
			}
		}
	}
	v := elem()
	if path {
		for i, n := 0, r.Intn(3); i < n; i++ {
			v += "/" + elem()
		}
		v = []string{"", "", "/", "../", "../../"}[r.Intn(5)] + v
	}
	switch r.Intn(4) {
	case 0:
		if !strings.ContainsAny(v, "`\r") {
			return "`" + v + "`"
		}
	case 1:
		return strconv.QuoteToASCII(v)
	case 2:
		return `"` + strings.NewReplacer(`\`, `\\`, `"`, `\"`).Replace(v) + `"`
	}
	return strconv.Quote(v)
}

func randExpr(r *rand.Rand, d int) string {
	if d <= 0 || r.Intn(6) == 0 {
		switch r.Intn(12) {
		case 0:
			return "render " + randStringLit(r, true)
		case 1:
			return randStringLit(r, false)
		}
		return rLit[r.Intn(len(rLit))]
	}
	par := func(s string) string {
		if r.Intn(2) == 0 {
			return "(" + s + ")"
		}
		return s
	}
	sub := func() string { return randExpr(r, d-1) }
	opd := sub
	switch r.Intn(14) {
	case 0, 1, 2:
		return par(sub()) + " " + rBin[r.Intn(len(rBin))] + " " + par(sub())
	case 3, 4:
		return rUn[r.Intn(len(rUn))] + par(sub())
	case 5:
		n := r.Intn(3)
		args := make([]string, n)
		for i := range args {
			args[i] = sub()
		}
		dots := ""
		if n > 0 && r.Intn(5) == 0 {
			dots = "..."
		}
		return par(sub()) + "(" + strings.Join(args, ", ") + dots + ")"
	case 6:
		return par(sub()) + "[" + []string{"0", "1", sub()}[r.Intn(3)] + "]"
	case 7:
		switch r.Intn(4) {
		case 0:
			return par(sub()) + "[" + sub() + ":" + sub() + "]"
		case 1:
			return par(sub()) + "[:" + sub() + "]"
		case 2:
			return par(sub()) + "[" + sub() + ":]"
		}
		return par(sub()) + "[" + sub() + ":" + sub() + ":" + sub() + "]"
	case 8:
		return par(opd()) + ".f"
	case 9:
		return par(opd()) + ".(" + rTyp[r.Intn(len(rTyp))] + ")"
	case 10:
		return "(" + rTyp[r.Intn(len(rTyp))] + ")(" + sub() + ")"
	case 11:
		return []string{"[]T", "map[string]T", "T", "pkg.T", "[...]T", "[2]T"}[r.Intn(6)] + "{}"
	case 12:
		return "[]" + rTyp[r.Intn(len(rTyp))] + "{}"
	}
	return "(" + sub() + ")"
}

func randStmt(r *rand.Rand) string {
	e := func() string { return randExpr(r, 2) }
	switch r.Intn(11) {
	case 9:
		return "extends " + randStringLit(r, true)
	case 10:
		return "import " + []string{"", "", "a ", ". ", "_ "}[r.Intn(5)] + randStringLit(r, true)
	case 0:
		return "a " + []string{"=", ":=", "+=", "-=", "*=", "/=", "%=", "&=", "|=", "^=", "&^=", "<<=", ">>="}[r.Intn(13)] + " " + e()
	case 1:
		return "a, b = " + e() + ", " + e()
	case 2:
		return "var a " + rTyp[r.Intn(len(rTyp))]
	case 3:
		return "var a, b " + rTyp[r.Intn(len(rTyp))] + " = " + e() + ", " + e()
	case 4:
		return "var a = " + e()
	case 5:
		return e() + " <- " + e()
	case 6:
		return []string{"defer ", "go "}[r.Intn(2)] + "f(" + e() + ")"
	case 7:
		return "show " + e() + ", " + e()
	}
	return "type A " + []string{"", "= "}[r.Intn(2)] + rTyp[r.Intn(len(rTyp))]
}

func extra(seed int64, n int) []json.RawMessage {
	var out []json.RawMessage
	id := 1000000
	add := func(mode, text string) {
		m, _ := json.Marshal(map[string]any{"id": id, "mode": mode, "text": text})
		out = append(out, m)
		id++
	}
	// corpus: deterministic, independent of the seed
	found := map[string]string{}
	var keys []string
	for _, tpl := range corpus.Templates {
		for _, src := range tpl.Files {
			tree, _ := parse(src)
			if tree == nil {
				continue
			}
			harvest(reflect.ValueOf(tree), src, found, map[uintptr]bool{})
		}
	}
	for k := range found {
		keys = append(keys, k)
	}
	sort.Strings(keys)
	for _, k := range keys {
		add(found[k], k[5:])
	}
	// seeded random sources
	id = 2000000
	r := rand.New(rand.NewSource(seed))
	for i := 0; i < n; i++ {
		if i%8 == 7 {
			add("stmt", randStmt(r))
		} else {
			add("expr", randExpr(r, 1+r.Intn(4)))
		}
	}
	return out
}

func main() {
	drv.Main(&drv.Sub{Each: each, Extra: extra})
}

package main

import (
	"verifharness/drv"

	"bufio"
	"bytes"
	"context"
	"encoding/json"
	"errors"
	"flag"
	"fmt"
	"os"
	"os/exec"
	"path/filepath"
	"runtime"
	"runtime/debug"
	"strconv"
	"strings"
	"sync"
	"time"

	"github.com/open2b/scriggo"
	"github.com/open2b/scriggo/native"
)

// X01: MiniTmpl, the reference semantics of the template language's control constructs
// (spec/tmplsem). Case {id, fam, fmt, pre, glob, tree, src, shape}: src is the source text
// (bytes) of tree, written by the TLA+ printer; lay names the layout: the files that the
// template is spread over (single file, import, extends, render), whose fixed texts TLC
// exported once (-frame file: {lay, fmt, files: [{name, head, tail, hole}]}); glob lists the
// globals the host declares ([{n, t: "str"|"int", s: bytes, i}]). The driver writes the
// files of the layout (head+src+tail for the file with the hole), builds the first one with
// those globals, runs it into a buffer and logs what happened: outcome "ok" (out = the bytes
// written), "builderror", "runerror", "hostpanic" or "timeout", with the error text in msg.
// tree, pre, glob are echoed untouched for the judge (Trace_TmplSem.tla). It judges nothing
// and computes no expected value.

type glob struct {
	N string `json:"n"`
	T string `json:"t"`
	S []int  `json:"s"`
	I int    `json:"i"`
}

var flagFrame = flag.String("frame", "", "ndjson of {pre, head, tail}: the texts around every template")

type frameFile struct {
	Name string `json:"name"`
	Head []int  `json:"head"`
	Tail []int  `json:"tail"`
	Hole bool   `json:"hole"`
}

type frame struct {
	Lay   string      `json:"lay"`
	Fmt   string      `json:"fmt"`
	Files []frameFile `json:"files"`
}

var (
	framesOnce sync.Once
	frames     = map[string]frame{}
)

func frameOf(lay, ext string) frame {
	framesOnce.Do(func() {
		lines, err := drv.ReadLines(*flagFrame)
		drv.Must(err)
		for _, l := range lines {
			var f frame
			drv.Must(json.Unmarshal(l, &f))
			frames[f.Lay+"."+f.Fmt] = f
		}
	})
	return frames[lay+"."+ext]
}

type x01Case struct {
	ID   int             `json:"id"`
	Fam  string          `json:"fam"`
	Fmt  string          `json:"fmt"`
	Lay  string          `json:"lay"`
	Pre  string          `json:"pre"`
	Glob []glob          `json:"glob"`
	Tree json.RawMessage `json:"tree"`
	Src  []int           `json:"src"`
}

func runOne(files scriggo.Files, name string, globs []glob) (outcome string, out []byte, msg string) {
	defer func() {
		if r := recover(); r != nil {
			// (%T only: the Error method of an internal scriggo value may not terminate)
			outcome, msg = "hostpanic", fmt.Sprintf("%T", r)
			if s, ok := r.(string); ok {
				msg = s
			}
		}
	}()
	decl := native.Declarations{}
	for _, g := range globs {
		if g.T == "str" {
			s := string(drv.BytesOf(g.S))
			decl[g.N] = &s
		} else {
			i := g.I
			decl[g.N] = &i
		}
	}
	t, err := scriggo.BuildTemplate(files, name, &scriggo.BuildOptions{Globals: decl})
	if err != nil {
		return "builderror", nil, err.Error()
	}
	ctx, cancel := context.WithTimeout(context.Background(), 10*time.Second)
	defer cancel()
	var buf bytes.Buffer
	if err := t.Run(&buf, nil, &scriggo.RunOptions{Context: ctx}); err != nil {
		if errors.Is(err, context.DeadlineExceeded) {
			return "timeout", buf.Bytes(), "deadline exceeded"
		}
		var pe *scriggo.PanicError
		if errors.As(err, &pe) {
			return "runerror", buf.Bytes(), pe.Error()
		}
		return "runerror", buf.Bytes(), fmt.Sprintf("%T", err)
	}
	return "ok", buf.Bytes(), ""
}

func each(raw json.RawMessage) map[string]any {
	var c x01Case
	drv.Must(json.Unmarshal(raw, &c))
	if c.Glob == nil {
		c.Glob = []glob{}
	}
	for i := range c.Glob {
		if c.Glob[i].S == nil {
			c.Glob[i].S = []int{}
		}
	}
	src := drv.BytesOf(c.Src)
	// the files of the layout: the file with the hole is head + src + tail, the others are head; the first one is the entry
	files := scriggo.Files{}
	entry := ""
	for _, f := range frameOf(c.Lay, c.Fmt).Files {
		b := drv.BytesOf(f.Head)
		if f.Hole {
			b = append(append(b, src...), drv.BytesOf(f.Tail)...)
		}
		files[f.Name+"."+c.Fmt] = b
		if entry == "" {
			entry = f.Name + "." + c.Fmt
		}
	}
	outcome, out, msg := runOne(files, entry, c.Glob)
	return map[string]any{
		"id": c.ID, "fam": c.Fam, "fmt": c.Fmt, "lay": c.Lay, "pre": c.Pre, "glob": c.Glob, "tree": c.Tree,
		"src": drv.Ints(src), "outcome": outcome, "out": drv.Ints(out), "msg": msg,
	}
}

// A template can take the whole process down (a Go stack overflow inside the VM is fatal and
// cannot be recovered), so the cases run in CHILD processes: a child appends the number of a
// case to <out>.started before it runs it and its observation to <out> as soon as it has
// one. When a child dies, the parent runs the cases that were started and not finished
// alone, one child each: those that kill their child again are logged with outcome
// "hostfatal" (msg = the fatal error line of the child); the cases not yet started go to a
// new child.

func child(in, out string) error {
	cases, err := drv.ReadLines(in)
	if err != nil {
		return err
	}
	debug.SetMaxStack(128 << 20) // fail fast instead of growing a stack to 1 GB
	fo, err := os.Create(out)
	if err != nil {
		return err
	}
	fs, err := os.Create(out + ".started")
	if err != nil {
		return err
	}
	var mu sync.Mutex
	var wg sync.WaitGroup
	ch := make(chan int, 1024)
	for w := 0; w < runtime.NumCPU(); w++ {
		wg.Add(1)
		go func() {
			defer wg.Done()
			for i := range ch {
				mu.Lock()
				fmt.Fprintf(fs, "%d\n", i)
				mu.Unlock()
				b, err := json.Marshal(map[string]any{"k": i, "obs": each(cases[i])})
				drv.Must(err)
				mu.Lock()
				fo.Write(append(b, '\n'))
				mu.Unlock()
			}
		}()
	}
	for i := range cases {
		ch <- i
	}
	close(ch)
	wg.Wait()
	fs.Close()
	return fo.Close()
}

// runChild runs the cases idx in one child process; it returns the observations the child
// wrote, the indexes it had started, and the fatal line of its stderr if it died.
func runChild(cases []json.RawMessage, idx []int, dir string, n int) (map[int]json.RawMessage, map[int]bool, string) {
	in := filepath.Join(dir, fmt.Sprintf("child%d.in", n))
	out := filepath.Join(dir, fmt.Sprintf("child%d.out", n))
	f, err := os.Create(in)
	drv.Must(err)
	for _, i := range idx {
		f.Write(append(append([]byte(nil), cases[i]...), '\n'))
	}
	drv.Must(f.Close())
	cmd := exec.Command(os.Args[0], "-child", "-in", in, "-out", out, "-frame", *flagFrame)
	var stderr bytes.Buffer
	cmd.Stderr = &stderr
	runErr := cmd.Run()
	done := map[int]json.RawMessage{}
	if lines, err := drv.ReadLines(out); err == nil {
		for _, l := range lines {
			var rec struct {
				K   int             `json:"k"`
				Obs json.RawMessage `json:"obs"`
			}
			if json.Unmarshal(l, &rec) == nil && rec.Obs != nil { // (a torn last line is not an observation)
				done[idx[rec.K]] = rec.Obs
			}
		}
	}
	started := map[int]bool{}
	if b, err := os.ReadFile(out + ".started"); err == nil {
		for _, w := range strings.Fields(string(b)) {
			if k, err := strconv.Atoi(w); err == nil && k < len(idx) {
				started[idx[k]] = true
			}
		}
	}
	fatal := ""
	if runErr != nil {
		fatal = "child died: " + runErr.Error()
		for _, l := range strings.Split(stderr.String(), "\n") {
			if strings.HasPrefix(l, "fatal error:") || strings.HasPrefix(l, "panic:") {
				fatal = l
				break
			}
		}
	}
	return done, started, fatal
}

func parent(in, out string) error {
	cases, err := drv.ReadLines(in)
	if err != nil {
		return err
	}
	dir, err := os.MkdirTemp(filepath.Dir(out), "x01children")
	if err != nil {
		return err
	}
	defer os.RemoveAll(dir)
	obs := make([]json.RawMessage, len(cases))
	todo := make([]int, len(cases))
	for i := range cases {
		todo[i] = i
	}
	n := 0
	for len(todo) > 0 {
		n++
		done, started, fatal := runChild(cases, todo, dir, n)
		var rest, suspects []int
		for _, i := range todo {
			if o, ok := done[i]; ok {
				obs[i] = o
			} else if started[i] {
				suspects = append(suspects, i)
			} else {
				rest = append(rest, i)
			}
		}
		if fatal == "" && len(rest)+len(suspects) > 0 {
			return fmt.Errorf("child %d ended normally with %d cases unfinished", n, len(rest)+len(suspects))
		}
		if fatal != "" && len(suspects) == 0 && len(rest) == len(todo) {
			return fmt.Errorf("child %d died before it started a case: %s", n, fatal)
		}
		for _, i := range suspects { // alone, one child each
			n++
			d, _, f := runChild(cases, []int{i}, dir, n)
			if o, ok := d[i]; ok {
				obs[i] = o
				continue
			}
			var c x01Case
			drv.Must(json.Unmarshal(cases[i], &c))
			if c.Glob == nil {
				c.Glob = []glob{}
			}
			for j := range c.Glob {
				if c.Glob[j].S == nil {
					c.Glob[j].S = []int{}
				}
			}
			b, err := json.Marshal(map[string]any{
				"id": c.ID, "fam": c.Fam, "fmt": c.Fmt, "lay": c.Lay, "pre": c.Pre, "glob": c.Glob, "tree": c.Tree,
				"src": c.Src, "outcome": "hostfatal", "out": []int{}, "msg": f,
			})
			drv.Must(err)
			obs[i] = b
		}
		todo = rest
	}
	fo, err := os.Create(out)
	if err != nil {
		return err
	}
	w := bufio.NewWriterSize(fo, 1<<20)
	for _, o := range obs {
		w.Write(o)
		w.WriteByte('\n')
	}
	if err := w.Flush(); err != nil {
		return err
	}
	return fo.Close()
}

var flagChild = flag.Bool("child", false, "run the cases in this process (internal)")

func main() {
	drv.Main(&drv.Sub{
		Whole: func(in, out string, seed int64, args []string) error {
			if *flagChild {
				return child(in, out)
			}
			return parent(in, out)
		},
	})
}

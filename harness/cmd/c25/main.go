package main

import (
	"verifharness/drv"

	"encoding/json"
	"fmt"
	"math/rand"
	"net/http"
	"net/url"
	"strconv"
	"time"

	"github.com/open2b/scriggo/builtin"
	"github.com/open2b/scriggo/native"
)

// C25: builtin functions. Case {id, fn, args}; one observation {id, fn, args, k, v, msg} per case:
//   k = "ok" (v = rendered result), "err" (a non-nil error was returned) or "hostpanic" (the call panicked).
// The driver concretises the arguments, calls the real builtin under recover() and logs. It judges nothing and
// computes no expected value. Argument / result encodings (shared with spec/builtins/Builtins.tla):
//   string            array of byte values           []string  array of such arrays
//   small int, bool   JSON number / true / false     64-bit int  its decimal text as a byte array ("dec")

type raw = json.RawMessage

func str(a raw) string {
	var x []int
	drv.Must(json.Unmarshal(a, &x))
	return string(drv.BytesOf(x))
}

func num(a raw) int {
	var x int
	drv.Must(json.Unmarshal(a, &x))
	return x
}

func name(a raw) string {
	var x string
	drv.Must(json.Unmarshal(a, &x))
	return x
}

// dec concretises a 64-bit integer given as decimal text.
func dec(a raw) int {
	n, err := strconv.ParseInt(str(a), 10, 64)
	drv.Must(err)
	return int(n)
}

func strs(a raw) []string {
	var x [][]int
	drv.Must(json.Unmarshal(a, &x))
	out := make([]string, len(x))
	for i := range x {
		out[i] = string(drv.BytesOf(x[i]))
	}
	return out
}

func nums(a raw) []int {
	var x []int
	drv.Must(json.Unmarshal(a, &x))
	if x == nil {
		x = []int{}
	}
	return x
}

// renderings
func S(s string) any { return drv.IntsS(s) }
func D(i int) any    { return drv.IntsS(strconv.Itoa(i)) }
func L(ss []string) any {
	out := make([][]int, len(ss))
	for i := range ss {
		out[i] = drv.IntsS(ss[i])
	}
	return out
}
func LL(sss [][]string) any {
	out := make([]any, len(sss))
	for i := range sss {
		out[i] = L(sss[i])
	}
	return out
}

// target builds the second argument of UnmarshalJSON / UnmarshalYAML; get renders what it points to afterwards.
func target(kind string) (v any, get func() any) {
	switch kind {
	case "any":
		var x any
		return &x, func() any { return x }
	case "int":
		var x int
		return &x, func() any { return x }
	case "ints":
		var x []int
		return &x, func() any { return x }
	case "map":
		var x map[string]any
		return &x, func() any { return x }
	case "nil":
		return nil, func() any { return nil }
	case "nonptr":
		return []int{}, func() any { return nil }
	case "nilptr":
		return (*int)(nil), func() any { return nil }
	}
	panic("driver: unknown target " + kind)
}

func jsonOf(v any) any {
	b, err := json.Marshal(v)
	drv.Must(err)
	return S(string(b))
}

// value concretises the first argument of MarshalJSON/MarshalJSONIndent/MarshalYAML: a JSON text, or a named
// value that has no JSON text.
func value(a raw) any {
	doc := str(a)
	switch doc {
	case "chan":
		return make(chan int)
	case "func":
		return func() {}
	}
	var v any
	drv.Must(json.Unmarshal([]byte(doc), &v))
	return v
}

func fmtTime(t builtin.Time) any { return S(t.UTC().Format(time.RFC3339Nano)) }

func slice(kind string, a raw) any {
	switch kind {
	case "ints":
		return nums(a)
	case "strs":
		return strs(a)
	case "nil":
		return nil
	case "nonslice":
		return 5
	case "nonslice-str":
		return "abc"
	}
	panic("driver: unknown slice kind " + kind)
}

func renderSlice(v any) any {
	switch s := v.(type) {
	case []int:
		return s
	case []string:
		return L(s)
	}
	return []int{}
}

// the dispatch table: function name -> call of the real builtin
var table = map[string]func(a []raw) (any, error){
	"Abbreviate":    func(a []raw) (any, error) { return S(builtin.Abbreviate(str(a[0]), num(a[1]))), nil },
	"Abs":           func(a []raw) (any, error) { return D(builtin.Abs(dec(a[0]))), nil },
	"Max":           func(a []raw) (any, error) { return D(builtin.Max(dec(a[0]), dec(a[1]))), nil },
	"Min":           func(a []raw) (any, error) { return D(builtin.Min(dec(a[0]), dec(a[1]))), nil },
	"Base64":        func(a []raw) (any, error) { return S(builtin.Base64(str(a[0]))), nil },
	"Hex":           func(a []raw) (any, error) { return S(builtin.Hex(str(a[0]))), nil },
	"Md5":           func(a []raw) (any, error) { return S(builtin.Md5(str(a[0]))), nil },
	"Sha1":          func(a []raw) (any, error) { return S(builtin.Sha1(str(a[0]))), nil },
	"Sha256":        func(a []raw) (any, error) { return S(builtin.Sha256(str(a[0]))), nil },
	"HmacSHA1":      func(a []raw) (any, error) { return S(builtin.HmacSHA1(str(a[0]), str(a[1]))), nil },
	"HmacSHA256":    func(a []raw) (any, error) { return S(builtin.HmacSHA256(str(a[0]), str(a[1]))), nil },
	"Capitalize":    func(a []raw) (any, error) { return S(builtin.Capitalize(str(a[0]))), nil },
	"CapitalizeAll": func(a []raw) (any, error) { return S(builtin.CapitalizeAll(str(a[0]))), nil },
	"ToLower":       func(a []raw) (any, error) { return S(builtin.ToLower(str(a[0]))), nil },
	"ToUpper":       func(a []raw) (any, error) { return S(builtin.ToUpper(str(a[0]))), nil },
	"ToKebab":       func(a []raw) (any, error) { return S(builtin.ToKebab(str(a[0]))), nil },
	"QueryEscape":   func(a []raw) (any, error) { return S(builtin.QueryEscape(str(a[0]))), nil },
	// QueryEscape's output placed in a URL query and read back through the builtin form value
	"FormValueOfEscaped": func(a []raw) (any, error) {
		q := builtin.QueryEscape(str(a[0]))
		req := &http.Request{Method: "GET", URL: &url.URL{Path: "/", RawQuery: "f=" + q}}
		return S(builtin.NewFormData(req, 10).Value("f")), nil
	},
	"HasPrefix":  func(a []raw) (any, error) { return builtin.HasPrefix(str(a[0]), str(a[1])), nil },
	"HasSuffix":  func(a []raw) (any, error) { return builtin.HasSuffix(str(a[0]), str(a[1])), nil },
	"Index":      func(a []raw) (any, error) { return builtin.Index(str(a[0]), str(a[1])), nil },
	"IndexAny":   func(a []raw) (any, error) { return builtin.IndexAny(str(a[0]), str(a[1])), nil },
	"LastIndex":  func(a []raw) (any, error) { return builtin.LastIndex(str(a[0]), str(a[1])), nil },
	"RuneCount":  func(a []raw) (any, error) { return builtin.RuneCount(str(a[0])), nil },
	"Join":       func(a []raw) (any, error) { return S(builtin.Join(strs(a[0]), str(a[1]))), nil },
	"Replace":    func(a []raw) (any, error) { return S(builtin.Replace(str(a[0]), str(a[1]), str(a[2]), num(a[3]))), nil },
	"ReplaceAll": func(a []raw) (any, error) { return S(builtin.ReplaceAll(str(a[0]), str(a[1]), str(a[2]))), nil },
	"Split":      func(a []raw) (any, error) { return L(builtin.Split(str(a[0]), str(a[1]))), nil },
	"SplitAfter": func(a []raw) (any, error) { return L(builtin.SplitAfter(str(a[0]), str(a[1]))), nil },
	"SplitN":     func(a []raw) (any, error) { return L(builtin.SplitN(str(a[0]), str(a[1]), num(a[2]))), nil },
	"SplitAfterN": func(a []raw) (any, error) {
		return L(builtin.SplitAfterN(str(a[0]), str(a[1]), num(a[2]))), nil
	},
	"Trim":       func(a []raw) (any, error) { return S(builtin.Trim(str(a[0]), str(a[1]))), nil },
	"TrimLeft":   func(a []raw) (any, error) { return S(builtin.TrimLeft(str(a[0]), str(a[1]))), nil },
	"TrimRight":  func(a []raw) (any, error) { return S(builtin.TrimRight(str(a[0]), str(a[1]))), nil },
	"TrimPrefix": func(a []raw) (any, error) { return S(builtin.TrimPrefix(str(a[0]), str(a[1]))), nil },
	"TrimSuffix": func(a []raw) (any, error) { return S(builtin.TrimSuffix(str(a[0]), str(a[1]))), nil },
	"Reverse": func(a []raw) (any, error) {
		s := slice(name(a[0]), a[1])
		builtin.Reverse(s)
		return renderSlice(s), nil
	},
	"Sort": func(a []raw) (any, error) {
		s := slice(name(a[0]), a[1])
		var less func(i, j int) bool
		if name(a[2]) == "less" {
			switch x := s.(type) {
			case []int:
				less = func(i, j int) bool { return x[i] < x[j] }
			case []string:
				less = func(i, j int) bool { return x[i] < x[j] }
			default:
				less = func(i, j int) bool { return i < j }
			}
		}
		builtin.Sort(s, less)
		return renderSlice(s), nil
	},
	"FormatInt": func(a []raw) (any, error) { return S(builtin.FormatInt(dec(a[0]), num(a[1]))), nil },
	"FormatFloat": func(a []raw) (any, error) {
		return S(builtin.FormatFloat(float64(num(a[0])), str(a[1]), num(a[2]))), nil
	},
	"ParseInt": func(a []raw) (any, error) {
		i, err := builtin.ParseInt(str(a[0]), num(a[1]))
		return D(i), err
	},
	"ParseFloat": func(a []raw) (any, error) {
		f, err := builtin.ParseFloat(str(a[0]))
		return S(strconv.FormatFloat(f, 'f', -1, 64)), err
	},
	"ParseDuration": func(a []raw) (any, error) {
		d, err := builtin.ParseDuration(str(a[0]))
		return D(int(d)), err
	},
	"ParseTime": func(a []raw) (any, error) {
		t, err := builtin.ParseTime(str(a[0]), str(a[1]))
		if err != nil {
			return S(""), err
		}
		return fmtTime(t), nil
	},
	"Date": func(a []raw) (any, error) {
		t, err := builtin.Date(dec(a[0]), dec(a[1]), dec(a[2]), dec(a[3]), dec(a[4]), dec(a[5]), dec(a[6]), str(a[7]))
		if err != nil {
			return S(""), err
		}
		return fmtTime(t), nil
	},
	"MarshalJSON": func(a []raw) (any, error) {
		j, err := builtin.MarshalJSON(value(a[0]))
		return S(string(j)), err
	},
	"MarshalJSONIndent": func(a []raw) (any, error) {
		j, err := builtin.MarshalJSONIndent(value(a[0]), str(a[1]), str(a[2]))
		return S(string(j)), err
	},
	"MarshalYAML": func(a []raw) (any, error) {
		y, err := builtin.MarshalYAML(value(a[0]))
		return S(y), err
	},
	"IndentJSON": func(a []raw) (any, error) {
		return S(string(builtin.IndentJSON(native.JSON(str(a[0])), str(a[1]), str(a[2])))), nil
	},
	"UnmarshalJSON": func(a []raw) (any, error) {
		v, get := target(name(a[1]))
		if err := builtin.UnmarshalJSON(str(a[0]), v); err != nil {
			return S(""), err
		}
		return jsonOf(get()), nil
	},
	"UnmarshalYAML": func(a []raw) (any, error) {
		v, get := target(name(a[1]))
		if err := builtin.UnmarshalYAML(str(a[0]), v); err != nil {
			return S(""), err
		}
		return S(fmt.Sprintf("%v", get())), nil
	},
	"RegExp": func(a []raw) (any, error) { builtin.RegExp(str(a[0])); return true, nil },
	"Regexp.Match": func(a []raw) (any, error) { return builtin.RegExp(str(a[0])).Match(str(a[1])), nil },
	"Regexp.Find":  func(a []raw) (any, error) { return S(builtin.RegExp(str(a[0])).Find(str(a[1]))), nil },
	"Regexp.Split": func(a []raw) (any, error) { return L(builtin.RegExp(str(a[0])).Split(str(a[1]), num(a[2]))), nil },
	"Sprintf": func(a []raw) (any, error) {
		ss := strs(a[1])
		args := make([]any, len(ss))
		for i := range ss {
			args[i] = ss[i]
		}
		return S(builtin.Sprintf(str(a[0]), args...)), nil
	},
	"Sprint": func(a []raw) (any, error) {
		ss := strs(a[0])
		args := make([]any, len(ss))
		for i := range ss {
			args[i] = ss[i]
		}
		return S(builtin.Sprint(args...)), nil
	},
}

func call(fn string, a []raw) (k string, v any, msg string) {
	defer func() {
		if r := recover(); r != nil {
			k, v, msg = "hostpanic", []int{}, fmt.Sprint(r)
		}
	}()
	f, ok := table[fn]
	if !ok {
		return "nofn", []int{}, "driver: no such function " + fn
	}
	res, err := f(a)
	if err != nil {
		return "err", []int{}, err.Error()
	}
	return "ok", res, ""
}

func main() {
	drv.Main(&drv.Sub{
		Each: func(c json.RawMessage, seed int64) []any {
			var k struct {
				ID   int    `json:"id"`
				Fn   string `json:"fn"`
				Args []raw  `json:"args"`
			}
			drv.Must(json.Unmarshal(c, &k))
			kind, v, msg := call(k.Fn, k.Args)
			// the message is logged for the reader of a report only (it is not judged)
			if max := map[string]int{"hostpanic": 100, "err": 40}[kind]; len(msg) > max {
				msg = msg[:max]
			}
			return []any{map[string]any{"id": k.ID, "fn": k.Fn, "args": k.Args, "k": kind, "v": v, "msg": drv.IntsS(msg)}}
		},
		Extra: extra,
	})
}

// ---- seeded random cases: byte strings with valid and invalid UTF-8, all byte values ----

var pieces = [][]byte{
	[]byte("é"), []byte("€"), []byte("😀"), []byte("�"), []byte("È"), []byte("ß"), []byte("İ"), []byte("ı"), []byte("ɐ"), []byte("ſ"),
	{0xe2, 0x82}, {0xf0, 0x9f}, {0xc3}, {0xa9}, {0xff}, {0xfe}, {0xc0, 0x80}, {0xed, 0xa0, 0x80}, {0x00},
	[]byte(" "), []byte("\t"), []byte("\n"), []byte("\r"), []byte("\f"), []byte("."), []byte(","), []byte("..."),
	[]byte("%"), []byte("+"), []byte("~"), []byte("&"), []byte("="), []byte("-"), []byte("_"), []byte("/"),
	[]byte("a"), []byte("b"), []byte("Z"), []byte("0"), []byte("9"), []byte("ab"), []byte("Ab"), []byte("aB"),
}

func randBytes(r *rand.Rand, max int) []int {
	n := r.Intn(max + 1)
	var b []byte
	for len(b) < n {
		switch r.Intn(4) {
		case 0:
			b = append(b, byte(r.Intn(256)))
		case 1:
			b = append(b, byte(32+r.Intn(95)))
		default:
			b = append(b, pieces[r.Intn(len(pieces))]...)
		}
	}
	return drv.Ints(b)
}

// part returns a (possibly empty) substring of s or, sometimes, an unrelated string
func part(r *rand.Rand, s []int) []int {
	if len(s) == 0 || r.Intn(4) == 0 {
		return randBytes(r, 3)
	}
	i := r.Intn(len(s))
	if r.Intn(3) == 0 {
		i = 0
	}
	j := i + r.Intn(len(s)-i+1)
	if r.Intn(3) == 0 {
		j = len(s)
	}
	return append([]int{}, s[i:j]...)
}

func decOf(n int64) []int { return drv.IntsS(strconv.FormatInt(n, 10)) }

var bigInts = []int64{0, 1, -1, 7, 12, 1 << 31, -(1 << 31), 1<<63 - 1, -1 << 63, 1<<63 - 2, -1<<63 + 1, 292277026596, 1e9, -1e9}

func extra(seed int64, n int) []json.RawMessage {
	r := rand.New(rand.NewSource(seed))
	ws := [][]int{{}, {32}, {9}, {10}, {13}, {32, 32}, {9, 32}}
	docs := []string{`1`, `[1]`, `{"a":[1,2]}`, `"a b"`, `[]`, `{}`, `null`, `[[1],{"b":"c"}]`}
	targets := []string{"any", "int", "ints", "map", "nil", "nonptr", "nilptr"}
	wsOrAny := func() []int {
		if r.Intn(2) == 0 {
			return ws[r.Intn(len(ws))]
		}
		return randBytes(r, 3)
	}
	gens := []func() (string, []any){
		func() (string, []any) { return "QueryEscape", []any{randBytes(r, 40)} },
		func() (string, []any) { return "FormValueOfEscaped", []any{randBytes(r, 40)} },
		func() (string, []any) { return "Abbreviate", []any{randBytes(r, 40), r.Intn(34) - 3} },
		func() (string, []any) { return "Abbreviate", []any{randBytes(r, 40), r.Intn(34) - 3} },
		func() (string, []any) { return "Base64", []any{randBytes(r, 24)} },
		func() (string, []any) { return "Hex", []any{randBytes(r, 24)} },
		func() (string, []any) { return "RuneCount", []any{randBytes(r, 40)} },
		func() (string, []any) {
			return []string{"Capitalize", "CapitalizeAll", "ToLower", "ToUpper", "ToKebab"}[r.Intn(5)], []any{randBytes(r, 24)}
		},
		func() (string, []any) {
			s := randBytes(r, 24)
			return []string{"HasPrefix", "HasSuffix", "Index", "LastIndex", "TrimPrefix", "TrimSuffix"}[r.Intn(6)], []any{s, part(r, s)}
		},
		func() (string, []any) {
			s := randBytes(r, 24)
			return []string{"IndexAny", "Trim", "TrimLeft", "TrimRight"}[r.Intn(4)], []any{s, part(r, s)}
		},
		func() (string, []any) {
			s := randBytes(r, 24)
			if r.Intn(2) == 0 {
				return "ReplaceAll", []any{s, part(r, s), randBytes(r, 3)}
			}
			return "Replace", []any{s, part(r, s), randBytes(r, 3), r.Intn(6) - 2}
		},
		func() (string, []any) {
			s := randBytes(r, 24)
			sep := part(r, s)
			if len(sep) > 2 {
				sep = sep[:2]
			}
			switch r.Intn(4) {
			case 0:
				return "Split", []any{s, sep}
			case 1:
				return "SplitAfter", []any{s, sep}
			case 2:
				return "SplitN", []any{s, sep, r.Intn(6) - 2}
			}
			return "SplitAfterN", []any{s, sep, r.Intn(6) - 2}
		},
		func() (string, []any) {
			k := r.Intn(5)
			el := make([][]int, k)
			for i := range el {
				el[i] = randBytes(r, 6)
			}
			return "Join", []any{el, randBytes(r, 3)}
		},
		func() (string, []any) {
			return "MarshalJSONIndent", []any{drv.IntsS(docs[r.Intn(len(docs))]), wsOrAny(), wsOrAny()}
		},
		func() (string, []any) {
			d := drv.IntsS(docs[r.Intn(len(docs))])
			if r.Intn(3) == 0 {
				d = randBytes(r, 8)
			}
			d = append(append(append([]int{}, ws[r.Intn(len(ws))]...), d...), ws[r.Intn(len(ws))]...)
			return "IndentJSON", []any{d, wsOrAny(), wsOrAny()}
		},
		func() (string, []any) {
			return []string{"UnmarshalJSON", "UnmarshalYAML"}[r.Intn(2)], []any{randBytes(r, 16), targets[r.Intn(len(targets))]}
		},
		func() (string, []any) { return "ParseInt", []any{randBytes(r, 6), r.Intn(42) - 3} },
		func() (string, []any) {
			return []string{"ParseFloat", "ParseDuration", "RegExp", "Sha1", "Sha256", "Md5"}[r.Intn(6)], []any{randBytes(r, 10)}
		},
		func() (string, []any) { return "ParseTime", []any{randBytes(r, 10), randBytes(r, 12)} },
		func() (string, []any) {
			a := make([]any, 8)
			for i := 0; i < 7; i++ {
				a[i] = decOf(bigInts[r.Intn(len(bigInts))])
			}
			a[7] = randBytes(r, 8)
			return "Date", a
		},
		func() (string, []any) {
			return "Sprintf", []any{randBytes(r, 12), [][]int{randBytes(r, 4), randBytes(r, 4)}[:r.Intn(3)]}
		},
		func() (string, []any) {
			return []string{"HmacSHA1", "HmacSHA256"}[r.Intn(2)], []any{randBytes(r, 10), randBytes(r, 10)}
		},
	}
	var out []json.RawMessage
	for i := 0; i < n; i++ {
		fn, args := gens[i%len(gens)]()
		m, _ := json.Marshal(map[string]any{"id": 1000000 + i, "fn": fn, "args": args})
		out = append(out, m)
	}
	return out
}

// Driver c13: a failing output writer (C13).  For each catalogue template of
// spec/writer/MC_Writer.tla (known here by name) it does a counting run (n = number of Write calls
// of a fault-free render, full = its output) and then runs EVERY failure index k in 1..n+1
// (k = n+1 never fails) under every writer mode, with a writer that records each attempt and
// fails at attempt k with the sentinel error E.  It only logs - one record per template:
//
//	{id, name, kind, n, full, ckind, cdetail, modelled, outsF, outsO,
//	 runs: [{t, k, mode, w: [[len, accepted, ok, rec, via], ...], kind, detail, rec, ndefer, acc, post}, ...]}
//
// (n, full, ckind: the counting run; w: every Write/WriteString call in order; rec: number of panics the
// template had recovered at that moment; via: 0 Write, 1 WriteString, 2 the Markdown converter called at a
// macro's return, 3 the converter called for a shown Markdown value; acc: bytes accepted up to and including
// the first failing attempt).  No oracle here - spec/writer/Trace_Writer.tla judges the log.
//
// writer modes:  fail   - attempt k returns (0, E); later attempts are accepted (and logged)
//
//	short  - attempt k accepts the first half of the bytes and returns (len/2, E)
//	sticky - attempt k and every later attempt return (0, E)
//	*+sw   - the same, the writer also implements io.StringWriter
//	         (renderer.go newStringWriter takes another path then)
package main

import (
	"encoding/json"
	"errors"
	"fmt"
	"io"
	"math/rand"
	"runtime"
	"strconv"
	"strings"

	"github.com/open2b/scriggo"
	"github.com/open2b/scriggo/native"
	"verifharness/drv"
)

type c13Case struct {
	ID       int             `json:"id"`
	Name     string          `json:"name"`
	Kind     string          `json:"kind"`     // catalogue classification (echoed; used only in signatures)
	Modelled bool            `json:"modelled"` // echoed
	OutsF    json.RawMessage `json:"outsF"`    // the model's outcome sets of the shape (echoed; drift diagnostic in the Trace spec)
	OutsO    json.RawMessage `json:"outsO"`
	K        int             `json:"k"`     // optional: only this failure index (replay)
	Mode     string          `json:"mode"`  // optional: only this mode (replay)
	Modes    []string        `json:"modes"` // optional: restrict modes
}

// ---- the sentinel error -------------------------------------------------------------------------
type sentinel struct{ msg string }

func (e *sentinel) Error() string { return e.msg }

// ---- the recording / failing writer -------------------------------------------------------------
type recW struct {
	k      int
	mode   string
	e      error
	nrec   *int // the template's recover counter (sampled at each attempt)
	inConv *int // set by the driver's Markdown converter around its writes (2 or 3)
	n      int  // attempts so far
	failed bool
	acc    []byte // bytes accepted up to and including the (first) failing attempt
	post   int    // bytes accepted after the first failure
	w      [][5]int
}

func (w *recW) attempt(p []byte, via int) (int, error) {
	w.n++
	if w.inConv != nil && *w.inConv != 0 {
		via = *w.inConv
	}
	if w.n == w.k || (w.failed && w.mode == "sticky") {
		m := 0
		if w.mode == "short" && !w.failed {
			m = len(p) / 2
			w.acc = append(w.acc, p[:m]...)
		}
		w.failed = true
		w.w = append(w.w, [5]int{len(p), m, 0, *w.nrec, via})
		return m, w.e
	}
	if w.failed {
		w.post += len(p)
	} else {
		w.acc = append(w.acc, p...)
	}
	w.w = append(w.w, [5]int{len(p), len(p), 1, *w.nrec, via})
	return len(p), nil
}

type plainW struct{ r *recW }

func (w plainW) Write(p []byte) (int, error) { return w.r.attempt(p, 0) }

type strW struct{ r *recW }

func (w strW) Write(p []byte) (int, error)       { return w.r.attempt(p, 0) }
func (w strW) WriteString(s string) (int, error) { return w.r.attempt([]byte(s), 1) }

// ---- values shown -------------------------------------------------------------------------------
type stringerT struct{ s string }

func (s stringerT) String() string { return s.s }

type envStringerT struct{}

func (envStringerT) String(env native.Env) string { return "env<&>" }

type htmlStringerT struct{}

func (htmlStringerT) HTML() native.HTML { return "<i>h</i>" }

type structT struct {
	A int
	B string
	C []string
}

var values = map[string]func() any{
	"str":      func() any { return "a<b>&\"c'd é/?=x y;\\\n" },
	"plain":    func() any { return "hello" },
	"empty":    func() any { return "" },
	"query":    func() any { return "p?a=1&b=2" },
	"int":      func() any { return 42 },
	"float":    func() any { return 1.5 },
	"bool":     func() any { return true },
	"slice":    func() any { return []string{"a<", "b&", "c"} },
	"ints":     func() any { return []int{1, 2, 3} },
	"map":      func() any { return map[string]int{"a<": 1, "b": 2} },
	"struct":   func() any { return structT{1, "x<\"", []string{"p", "q"}} },
	"ptr":      func() any { return &structT{2, "y", nil} },
	"stringer": func() any { return stringerT{"s<t>&"} },
	"envstr":   func() any { return envStringerT{} },
	"htmlstr":  func() any { return htmlStringerT{} },
	"html":     func() any { return native.HTML("<b>x</b>&amp;") },
	"err":      func() any { return errors.New("e<r>") },
	"bytes":    func() any { return []byte("x<y") },
	"md":       func() any { return native.Markdown("# t *x*") },
	"js":       func() any { return native.JS("f(1)") },
	"css":      func() any { return native.CSS("red") },
	"json":     func() any { return native.JSON(`{"a":1}`) },
	"anys":     func() any { return []any{1, "a<", nil, 2.5, []byte("z")} },
}

// contexts: file extension + source around {{ v }}
var contexts = map[string][2]string{
	"html":     {"index.html", `<p>{{ v }}</p>`},
	"html2":    {"index.html", `{{ v }}{{ v }}`},
	"tag":      {"index.html", `<a {{ v }} x>t</a>`},
	"attrq":    {"index.html", `<a title="a {{ v }} b">t</a>`},
	"attrsq":   {"index.html", `<a title='{{ v }}'>t</a>`},
	"attru":    {"index.html", `<a title={{ v }}>t</a>`},
	"url":      {"index.html", `<a href="/p/{{ v }}">t</a>`},
	"urlq":     {"index.html", `<a href="/p?{{ v }}={{ v }}&x={{ v }}">t</a>`},
	"urlstate": {"index.html", `<a href="{{ v }}{{ v }}">t</a><a href="{{ v }}?b=1">u</a><p>{{ v }}</p>`},
	"urlu":     {"index.html", `<a href={{ v }}>t</a>`},
	"srcset":   {"index.html", `<img srcset="{{ v }} 1x, /b/{{ v }}?q={{ v }} 2x">`},
	"js":       {"index.html", `<script>var a = {{ v }}; f({{ v }})</script>`},
	"jsstr":    {"index.html", `<script>var a = "x{{ v }}y" + '{{ v }}';</script>`},
	"jsattr":   {"index.html", `<a onclick="f({{ v }})">t</a>`},
	"css":      {"index.html", `<style>a { width: {{ v }} }</style>`},
	"cssstr":   {"index.html", `<style>a { font: "{{ v }}" }</style>`},
	"cssattr":  {"index.html", `<a style="color: {{ v }}">t</a>`},
	"jsonld":   {"index.html", `<script type="application/ld+json">{"a": {{ v }}, "b": "{{ v }}"}</script>`},
	"jsfile":   {"index.js", `var a = {{ v }}; var b = "{{ v }}";`},
	"cssfile":  {"index.css", `a { width: {{ v }}; font: "{{ v }}" }`},
	"jsonfile": {"index.json", `{"a": {{ v }}, "b": "{{ v }}"}`},
	"mdfile":   {"index.md", "# {{ v }}\n\n\t{{ v }}\n\n    {{ v }}\n"},
	"txtfile":  {"index.txt", `a {{ v }} b`},
}

// ---- structural templates (names exported by MC_Writer.tla's Catalogue) -------------------------
type tmpl struct {
	files map[string]string
	main  string
	val   string // name of the value bound to v (default "str")
}

const recoverBlock = `{%% defer func() { if r := recover(); r != nil { rec() } }() %%}`

var named = map[string]tmpl{
	"text":            {files: map[string]string{"index.html": `hello <b>world</b>`}},
	"text3":           {files: map[string]string{"index.html": `a{% if true %}b{% end %}c{% if false %}d{% else %}e{% end %}`}},
	"empty":           {files: map[string]string{"index.html": ``}},
	"show":            {files: map[string]string{"index.html": `a{{ v }}b`}},
	"show2":           {files: map[string]string{"index.html": `{{ v }}{{ 5 }}{{ "k<" }}{{ v }}`}},
	"showstmt":        {files: map[string]string{"index.html": `{% show v, 1, "x" %}`}},
	"macro":           {files: map[string]string{"index.html": `{% macro M %}<b>m</b>{% end %}a{{ M() }}b{{ M() }}c`}},
	"macroargs":       {files: map[string]string{"index.html": `{% macro M(s string) %}<i>{{ s }}</i>{% end %}a{{ M("x<y") }}b{{ M(v.(string)) }}`}},
	"macrovar":        {files: map[string]string{"index.html": `{% macro M %}m&amp;{{ v }}{% end %}{% var s = M() %}a{{ s }}b{{ s }}`}},
	"macroattr":       {files: map[string]string{"index.html": `{% macro M %}m<{{ v }}{% end %}<a title="{{ M() }}">t</a>`}},
	"macrojs":         {files: map[string]string{"index.html": `{% macro M %}m<{{ v }}{% end %}<script>var a = {{ M() }};</script>`}},
	"macrourl":        {files: map[string]string{"index.html": `{% macro M %}m?{{ v }}{% end %}<a href="/x/{{ M() }}&c={{ M() }}">t</a>`}},
	"nested":          {files: map[string]string{"index.html": `{% macro B %}b{{ v }}{% end %}{% macro A %}a1{{ B() }}a2{% end %}x{{ A() }}y`}},
	"nestedbuf":       {files: map[string]string{"index.html": `{% macro B %}b{{ v }}{% end %}{% macro A %}a1<{{ B() }}a2{% end %}<a title="{{ A() }}">x</a>`}},
	"nestedbuf2":      {files: map[string]string{"index.html": `{% macro B %}b{{ v }}{% end %}{% macro A %}a1<span title="{{ B() }}">a2</span>{% end %}<a title="{{ A() }}">x</a>{{ A() }}`}},
	"recursive":       {files: map[string]string{"index.html": `{% macro R(n int) %}{% if n > 0 %}<i>{{ n }}{{ R(n-1) }}</i>{% end %}{% end %}{{ R(3) }}`}},
	"render":          {files: map[string]string{"index.html": `a{{ render "p.html" }}b{{ render "p.html" }}`, "p.html": `<p>{{ 1+1 }}{{ v }}</p>`}},
	"rendertxt":       {files: map[string]string{"index.html": `a{{ render "p.txt" }}b<a title="{{ render "p.txt" }}">`, "p.txt": `t<{{ v }}`}},
	"rendernest":      {files: map[string]string{"index.html": `a{{ render "p.html" }}b`, "p.html": `<p>{{ render "q.html" }}</p>`, "q.html": `q{{ v }}`}},
	"mdmacro":         {files: map[string]string{"index.html": `{% macro M() markdown %}# t {{ v }}{% end %}<div>{{ M() }}</div>after`}},
	"mdmacro2":        {files: map[string]string{"index.html": `{% macro M() markdown %}# t{% end %}{{ M() }}{{ M() }}`}},
	"mdpartial":       {files: map[string]string{"index.html": `<div>{{ render "p.md" }}</div>`, "p.md": "# title {{ v }}\n"}},
	"mdmacrobuf":      {files: map[string]string{"index.html": `{% macro M() markdown %}# t{% end %}{% macro H %}<i>{{ M() }}</i>{% end %}<a title="{{ H() }}">x</a>`}},
	"mdinmacro":       {files: map[string]string{"index.html": `{% macro M() markdown %}# t{% end %}{% macro H %}<i>{{ M() }}</i>{% end %}a{{ H() }}b`}},
	"mdvalue":         {files: map[string]string{"index.html": `<div>{{ v }}</div>{{ v }}`}, val: "md"},
	"mdfilehtml":      {main: "index.md", files: map[string]string{"index.md": "# t\n\n{{ v }}\n\n{{ render \"p.html\" }}\n", "p.html": `<b>{{ v }}</b>`}},
	"for":             {files: map[string]string{"index.html": `<ul>{% for i, s := range items %}<li>{{ i }}:{{ s }}</li>{% end %}</ul>`}},
	"forbreak":        {files: map[string]string{"index.html": `{% for i := 0; i < 5; i++ %}{% if i == 1 %}{% continue %}{% end %}{% if i == 3 %}{% break %}{% end %}<{{ i }}>{% end %}z`}},
	"formacro":        {files: map[string]string{"index.html": `{% macro M(s string) %}[{{ s }}]{% end %}{% for s in items %}{{ M(s) }}{% else %}none{% end %}`}},
	"switch":          {files: map[string]string{"index.html": `{% switch v.(type) %}{% case string %}s{{ v }}{% default %}d{% end %}z`}},
	"recovermain":     {files: map[string]string{"index.html": recoverBlock + `a{{ v }}b{{ v }}c`}},
	"recovermacro":    {files: map[string]string{"index.html": `{% macro M %}` + recoverBlock + `m1{{ v }}m2{% end %}a{{ M() }}b{{ M() }}c`}},
	"recovermacrobuf": {files: map[string]string{"index.html": `{% macro M %}` + recoverBlock + `m1{{ v }}m2{% end %}<a title="{{ M() }}">x</a>{{ M() }}`}},
	"recoverouter":    {files: map[string]string{"index.html": `{% macro M %}m1{{ v }}m2{% end %}{% macro O %}` + recoverBlock + `o1{{ M() }}o2{% end %}a{{ O() }}b`}},
	"recovermd":       {files: map[string]string{"index.html": `{% macro M() markdown %}# t {{ v }}{% end %}{% macro O %}` + recoverBlock + `o1{{ M() }}o2{% end %}a{{ O() }}b`}},
	"recoverrepanic":  {files: map[string]string{"index.html": `{%% defer func() { if r := recover(); r != nil { rec(); panic(r) } }() %%}a{{ v }}b`}},
	"recoverpartial":  {files: map[string]string{"index.html": `a{{ render "p.html" }}b`, "p.html": recoverBlock + `p1{{ v }}p2`}},
	"defernorecover":  {files: map[string]string{"index.html": `{%% defer func() { deferred() }() %%}a{{ v }}b`}},
	"defermacro":      {files: map[string]string{"index.html": `{% macro M %}{%% defer func() { deferred() }() %%}m1{{ v }}m2{% end %}a{{ M() }}b`}},
	"defertwo":        {files: map[string]string{"index.html": `{%% defer func() { deferred() }() %%}` + recoverBlock + `{%% defer func() { deferred() }() %%}a{{ v }}b`}},
	"recoverdeep":     {files: map[string]string{"index.html": recoverBlock + `{% macro M %}{%% defer func() { deferred() }() %%}m{{ v }}{% end %}a{{ M() }}b`}},
	"import":          {files: map[string]string{"index.html": `{% import "imp.html" %}a{{ M() }}b{{ N("q<") }}`, "imp.html": `{% macro M %}<b>i</b>{% end %}{% macro N(s string) %}n{{ s }}{{ M() }}{% end %}`}},
	"importas":        {files: map[string]string{"index.html": `{% import p "imp.html" %}a{{ p.M() }}<a title="{{ p.M() }}">`, "imp.html": `{% macro M %}<b>i</b>{{ v }}{% end %}`}},
	"extends":         {files: map[string]string{"index.html": `{% extends "layout.html" %}{% macro Body %}<p>{{ v }}</p>{% end %}{% macro Title %}t{% end %}`, "layout.html": `<title>{{ Title() }}</title><body>{{ Body() }}</body>`}},
	"using":           {files: map[string]string{"index.html": `a{% show itea; using %}<b>{{ v }}</b>{% end using %}c`}},
	"usingvar":        {files: map[string]string{"index.html": `{% var s = itea; using %}u<{{ v }}{% end using %}a{{ s }}b<a title="{{ s }}">`}},
	"usingmacro":      {files: map[string]string{"index.html": `{% macro W(body html) %}<div>{{ body }}</div>{% end %}{% show W(itea); using %}<b>{{ v }}</b>{% end using %}z`}},
	"usingmacrokw":    {files: map[string]string{"index.html": `a{% show itea(); using macro %}<b>{{ v }}</b>{% end using %}c`}},
	"raw":             {files: map[string]string{"index.html": `a{% raw %}{{ x }}{% end raw %}b{{ v }}`}},
	"funclit":         {files: map[string]string{"index.html": `{%% f := func(s string) string { return s + "<" } %%}a{{ f("x") }}b{{ f(v.(string)) }}`}},
	"callback":        {files: map[string]string{"index.html": `{% macro M %}<b>m{{ v }}</b>{% end %}a{{ apply(M) }}b`}},
	"stringercall":    {files: map[string]string{"index.html": `a{{ v }}b<a title="{{ v }}" href="{{ v }}">`}, val: "stringer"},
}

var fragments = []string{
	`text<br>`,
	`{{ v }}`,
	`<p>{{ v }}</p>`,
	`<a title="{{ v }}">t</a>`,
	`<a title={{ v }}>t</a>`,
	`<a href="/p/{{ v }}?a={{ v }}&b={{ w }}">t</a>`,
	`<a href="{{ w }}{{ v }}">t</a>`,
	`<script>var a = {{ w }}; var s = "{{ v }}";</script>`,
	`<style>a { width: {{ w }}; font: "{{ v }}" }</style>`,
	`{{ M() }}`,
	`{{ N(v.(string)) }}`,
	`<a title="{{ M() }}">t</a>`,
	`{{ MD() }}`,
	`<a title="{{ H() }}">t</a>`,
	`{{ H() }}`,
	`{{ render "p.html" }}`,
	`{{ render "p.md" }}`,
	`{% for s in items %}<li>{{ s }}</li>{% end %}`,
	`{% if w != nil %}y{{ w }}{% else %}n{% end %}`,
	`{{ R() }}`,
	`{{ D() }}`,
	`{% var s = M() %}{{ s }}`,
	`{{ imp.I() }}`,
	`{{ 7 }}{{ "q&" }}`,
}

const genPrologue = `{% import imp "imp.html" %}` +
	`{% macro M %}<b>m</b>{{ v }}{% end %}` +
	`{% macro N(s string) %}[{{ s }}]{% end %}` +
	`{% macro MD() markdown %}# t {{ v }}{% end %}` +
	`{% macro H %}<i>{{ MD() }}</i>{{ M() }}{% end %}` +
	`{% macro R %}` + recoverBlock + `r1{{ v }}r2{{ M() }}{% end %}` +
	`{% macro D %}{%% defer func() { deferred() }() %%}d1{{ v }}d2{% end %}`

var genFiles = map[string]string{
	"p.html":   `<p>{{ v }}</p>`,
	"p.md":     "# title {{ v }}\n",
	"imp.html": `{% macro I %}<b>i</b>{{ v }}{% end %}`,
}

func lookup(name string) (tmpl, error) {
	if t, ok := named[name]; ok {
		return t, nil
	}
	p := strings.Split(name, "/")
	if len(p) == 3 && p[0] == "cx" {
		c, ok := contexts[p[1]]
		_, ok2 := values[p[2]]
		if !ok || !ok2 {
			return tmpl{}, fmt.Errorf("unknown context/value in %q", name)
		}
		return tmpl{files: map[string]string{c[0]: c[1]}, main: c[0], val: p[2]}, nil
	}
	if len(p) == 4 && p[0] == "gen" { // gen/<val>/<wval>/<i,j,k...>
		var b strings.Builder
		b.WriteString(genPrologue)
		for _, s := range strings.Split(p[3], ",") {
			i, err := strconv.Atoi(s)
			if err != nil || i < 0 || i >= len(fragments) {
				return tmpl{}, fmt.Errorf("bad fragment index in %q", name)
			}
			b.WriteString(fragments[i])
		}
		files := map[string]string{"index.html": b.String()}
		for k, v := range genFiles {
			files[k] = v
		}
		return tmpl{files: files, val: p[1] + "/" + p[2]}, nil
	}
	return tmpl{}, fmt.Errorf("unknown template %q", name)
}

var allModes = []string{"fail", "short", "sticky", "fail+sw", "short+sw", "sticky+sw"}

func each(raw json.RawMessage, seed int64) []any {
	var c c13Case
	drv.Must(json.Unmarshal(raw, &c))
	tm, err := lookup(c.Name)
	if err != nil {
		panic(err) // the catalogue and the driver disagree: machinery failure
	}
	if tm.main == "" {
		tm.main = "index.html"
	}
	vname, wname := tm.val, "int"
	if vname == "" {
		vname = "str"
	}
	if i := strings.IndexByte(vname, '/'); i >= 0 {
		vname, wname = vname[:i], vname[i+1:]
	}
	files := scriggo.Files{}
	for k, v := range tm.files {
		files[k] = []byte(v)
	}
	var inConv int // one template is run serially inside each()
	conv := func(src []byte, out io.Writer) error {
		// a piecewise converter that reports the writer's error unchanged; it notes who called it
		// (OpReturn of a Markdown macro, or the show of a native.Markdown value) for the log only
		inConv = 2
		if calledFrom("showInHTML") {
			inConv = 3
		}
		defer func() { inConv = 0 }()
		if _, err := out.Write([]byte("<md>")); err != nil {
			return err
		}
		if _, err := out.Write(src); err != nil {
			return err
		}
		_, err := io.WriteString(out, "</md>")
		return err
	}
	// the template's variables (one template is run serially inside each(); set before every run)
	var vvar, wvar any
	var items []string
	var nrec, ndefer int
	apply := func(f func() native.HTML) native.HTML { return "(" + f() + ")" }
	opts := &scriggo.BuildOptions{
		MarkdownConverter: conv,
		Globals: native.Declarations{
			"v": &vvar, "w": &wvar, "items": &items, "apply": apply,
			"rec": func() { nrec++ }, "deferred": func() { ndefer++ },
		},
	}
	rec := map[string]any{"id": c.ID, "name": c.Name, "kind": c.Kind, "modelled": c.Modelled,
		"outsF": orEmpty(c.OutsF), "outsO": orEmpty(c.OutsO), "n": 0, "full": []int{}, "ckind": "nil", "cdetail": ""}
	runs := []any{}
	t0 := c.ID * 10000
	template, err := func() (t *scriggo.Template, err error) {
		defer func() {
			if r := recover(); r != nil {
				err = fmt.Errorf("hostpanic in build: %v", r)
			}
		}()
		return scriggo.BuildTemplate(files, tm.main, opts)
	}()
	if err != nil {
		rec["ckind"], rec["cdetail"], rec["runs"] = "builderror", err.Error(), runs
		return []any{rec}
	}
	run := func(t, k int, mode string) (*recW, string, string) {
		nrec, ndefer = 0, 0
		e := &sentinel{"E-write-failed"}
		w := &recW{k: k, mode: strings.TrimSuffix(mode, "+sw"), e: e, nrec: &nrec, inConv: &inConv, w: [][5]int{}}
		var out io.Writer = plainW{w}
		if strings.HasSuffix(mode, "+sw") {
			out = strW{w}
		}
		vvar, wvar = values[vname](), values[wname]()
		items = []string{"a<", "b"}
		kind, detail := "nil", ""
		func() {
			defer func() {
				if r := recover(); r != nil {
					kind = "hostpanic"
					detail = fmt.Sprint(r)
					if re, ok := r.(error); ok && errors.Is(re, e) {
						detail += " [errors.Is E]"
					}
				}
			}()
			err := template.Run(out, nil, nil)
			switch {
			case err == nil:
			case err == error(e):
				kind = "E"
			default:
				kind = "other"
				detail = fmt.Sprintf("%T: %v", err, err)
				if errors.Is(err, e) {
					kind = "wrappedE"
				}
			}
		}()
		inConv = 0
		if mode != "count" {
			runs = append(runs, map[string]any{"t": t, "k": k, "mode": mode, "w": w.w, "kind": kind, "detail": detail,
				"rec": nrec, "ndefer": ndefer, "acc": drv.Ints(w.acc), "post": w.post})
		}
		return w, kind, detail
	}
	// counting run: never fails
	cw, kind, detail := run(t0, 0, "count")
	n := cw.n
	rec["n"], rec["full"], rec["ckind"], rec["cdetail"] = n, drv.Ints(cw.acc), kind, detail
	if kind != "nil" || n > 900 {
		// outside the property's domain (the fault-free render itself fails): no failing run is made
		if kind == "nil" {
			rec["ckind"] = "toolong"
		}
		rec["runs"] = runs
		return []any{rec}
	}
	modes := allModes
	if len(c.Modes) > 0 {
		modes = c.Modes
	}
	for mi, mode := range allModes {
		if c.Mode != "" && c.Mode != mode {
			continue
		}
		if c.Mode == "" && !contains(modes, mode) {
			continue
		}
		for k := 1; k <= n+1; k++ {
			if c.K != 0 && c.K != k {
				continue
			}
			run(t0+(mi+1)*1000+k, k, mode)
		}
	}
	rec["runs"] = runs
	return []any{rec}
}

// calledFrom reports whether a function whose name ends with name is on the call stack (log only).
func calledFrom(name string) bool {
	pc := make([]uintptr, 32)
	n := runtime.Callers(2, pc)
	fr := runtime.CallersFrames(pc[:n])
	for {
		f, more := fr.Next()
		if strings.HasSuffix(f.Function, "."+name) {
			return true
		}
		if !more {
			return false
		}
	}
}

func orEmpty(m json.RawMessage) json.RawMessage {
	if len(m) == 0 {
		return json.RawMessage("[]")
	}
	return m
}

func contains(a []string, s string) bool {
	for _, x := range a {
		if x == s {
			return true
		}
	}
	return false
}

func extra(seed int64, n int) []json.RawMessage {
	r := rand.New(rand.NewSource(seed))
	vals := []string{"str", "plain", "query", "stringer", "html", "empty"}
	wvals := []string{"int", "slice", "map", "struct", "str", "md", "stringer", "anys", "bool"}
	var out []json.RawMessage
	for i := 0; i < n; i++ {
		ln := 1 + r.Intn(5)
		idx := make([]string, ln)
		for j := range idx {
			idx[j] = strconv.Itoa(r.Intn(len(fragments)))
		}
		name := "gen/" + vals[r.Intn(len(vals))] + "/" + wvals[r.Intn(len(wvals))] + "/" + strings.Join(idx, ",")
		m, _ := json.Marshal(map[string]any{"id": 100000 + i, "name": name, "kind": "gen"})
		out = append(out, m)
	}
	return out
}

func main() {
	drv.Main(&drv.Sub{Each: each, Extra: extra})
}

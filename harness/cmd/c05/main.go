package main

import (
	"verifharness/drv"

	"bytes"
	"context"
	"encoding/json"
	"errors"
	"fmt"
	"os"
	"os/exec"
	"reflect"
	"runtime/debug"
	"strings"
	"time"
	"unsafe"

	"github.com/open2b/scriggo"
	"github.com/open2b/scriggo/native"
)

// C05: running compiled code never panics into the host.
//
// Two kinds of case, both exported by TLC:
//
//	{id, kind:"fault", fault, situation, form, opt}   (spec/faults/MC_Faults.tla; opt = run options: "none" | "cancelable")
//	{id, kind:"show", value, ctx, box}                (spec/faults/MC_Faults.tla: odd values x template contexts)
//	{id, kind:"url", attr, items:[[k, piece]...]} (spec/faults/MC_URLState.tla; k 0 = text, 1 = shown value)
//
// For a fault case the driver writes ONE program (or template) from string templates: the statements
// registered under `fault` are placed in the syntactic `situation` (top level of main, callee, deferred
// call, closure, function value, template show / statement / macro / block), optionally with a
// recover() (`form`), builds it, runs it under a host recover() and logs the outcome class and message.
// For a url case it writes `<a href="...">`-style templates with the pieces as text and as shown values.
// It judges nothing and computes no expected value: Trace_Faults.tla / Trace_URLState.tla do.

// ------------------------------------------------------------------------------------ catalogue

// fault is the concretisation of a fault class: `setup` declares the operands (so that nothing is a
// compile-time constant error), `stmt` is the faulting statement, `show` (optional) the same fault as
// an expression of a showable type.  "$H" is replaced by "host." in programs and "" in templates.
type fault struct {
	setup, stmt, show string
	decl              string // package-level declarations (programs only; such a fault has no template form)
}

var faults = map[string]fault{}

func def(name, setup, stmt, show string) { faults[name] = fault{setup: setup, stmt: stmt, show: show} }

var intKinds = []string{"int", "int8", "int16", "int32", "int64", "uint", "uint8", "uint16", "uint32", "uint64"}

func init() {
	// division by zero, every integer kind, / and %, plus the assignment forms and a constant numerator
	for _, k := range intKinds {
		def("div_"+k, "var z "+k+"; var o "+k+" = 7", "_ = o / z", "o / z")
		def("rem_"+k, "var z "+k+"; var o "+k+" = 7", "_ = o % z", "o % z")
	}
	def("divassign_int", "var z int; var o int = 7", "o /= z", "")
	def("remassign_int", "var z int; var o int = 7", "o %= z", "")
	def("divconst_int", "var z int", "_ = 7 / z", "7 / z")
	def("divconst_uint8", "var z uint8", "_ = 7 / z", "7 / z")
	// nil dereference
	def("nilptr_load", "var p *int", "_ = *p", "*p")
	def("nilptr_store", "var p *int", "*p = 1", "")
	def("nilptr_field_load", "var p *struct{ F int }", "_ = p.F", "p.F")
	def("nilptr_field_store", "var p *struct{ F int }", "p.F = 1", "")
	def("nilptr_array_index", "var p *[3]int; i := 1", "_ = p[i]", "p[i]")
	def("nilptr_array_store", "var p *[3]int; i := 1", "p[i] = 1", "")
	def("nilptr_array_slice", "var p *[3]int", "_ = p[:]", "len(p[:])")
	def("nilptr_array_range", "var p *[3]int", "for _, x := range p { _ = x }", "")
	def("nilptr_native_field", "var p *$HS", "_ = p.F", "p.F")
	def("nilptr_native_field_store", "var p *$HS", "p.F = 1", "")
	def("nilptr_native_method", "var p *$HS", "_ = p.M()", "p.M()")
	def("nilifc_method", "var e error", "_ = e.Error()", "e.Error()")
	def("nilfunc_call", "var fn func()", "fn()", "")
	def("nilfunc_call_result", "var fn func() int", "_ = fn()", "fn()")
	def("nilfunc_defer", "var fn func()", "func() { defer fn() }()", "")
	def("nilmap_write", "var m map[string]int; k := \"a\"", "m[k] = 1", "")
	def("nilmap_write_const", "var m map[int]int", "m[3] = 1", "")
	def("nilmap_write_any", "var m map[any]any; var k any = 1", "m[k] = k", "")
	// index out of range
	def("idx_slice_var", "s := []int{1, 2, 3}; i := 5", "_ = s[i]", "s[i]")
	def("idx_slice_const", "s := []int{1, 2, 3}", "_ = s[5]", "s[5]")
	def("idx_slice_neg", "s := []int{1, 2, 3}; i := -1", "_ = s[i]", "s[i]")
	def("idx_slice_store_var", "s := []int{1, 2, 3}; i := 5", "s[i] = 1", "")
	def("idx_slice_store_const", "s := []int{1, 2, 3}", "s[5] = 1", "")
	def("idx_slice_string_elem", "s := []string{\"a\"}; i := 5", "_ = s[i]", "s[i]")
	def("idx_array_var", "a := [3]int{}; i := 5", "_ = a[i]", "a[i]")
	def("idx_array_store_var", "a := [3]int{}; i := 5", "a[i] = 1", "")
	def("idx_string_var", "s := \"abc\"; i := 5", "_ = s[i]", "s[i]")
	def("idx_string_const", "s := \"abc\"", "_ = s[5]", "s[5]")
	def("idx_addr", "s := []int{1, 2, 3}; i := 5", "_ = &s[i]", "")
	def("idx_incr", "s := []int{1, 2, 3}; i := 5", "s[i]++", "")
	// slice bounds
	def("slice_slice_hi", "s := []int{1, 2, 3}; i := 5", "_ = s[:i]", "len(s[:i])")
	def("slice_slice_const", "s := []int{1, 2, 3}", "_ = s[:5]", "len(s[:5])")
	def("slice_slice_lo_gt_hi", "s := []int{1, 2, 3}; i := 2; j := 1", "_ = s[i:j]", "len(s[i:j])")
	def("slice_slice_neg", "s := []int{1, 2, 3}; i := -1", "_ = s[i:]", "len(s[i:])")
	def("slice_slice_cap3", "s := []int{1, 2, 3}; i := 5", "_ = s[0:1:i]", "len(s[0:1:i])")
	def("slice_array_hi", "a := [3]int{}; i := 5", "_ = a[:i]", "len(a[:i])")
	def("slice_string_hi", "s := \"abc\"; i := 5", "_ = s[:i]", "s[:i]")
	def("slice_string_lo_gt_hi", "s := \"abc\"; i := 2; j := 1", "_ = s[i:j]", "s[i:j]")
	def("slice_string_neg", "s := \"abc\"; i := -1", "_ = s[i:]", "s[i:]")
	// type assertions
	def("assert_fail", "var x any = \"s\"", "_ = x.(int)", "x.(int)")
	def("assert_nil", "var x any", "_ = x.(int)", "x.(int)")
	def("assert_iface_fail", "var x any = 1", "_ = x.(error)", "x.(error).Error()")
	def("assert_iface_nil", "var x any", "_ = x.(error)", "x.(error).Error()")
	def("assert_fail_native", "var x any = 1", "_ = x.($HS)", "x.($HS).F")
	def("assert_fail_error", "var x error = $HErr", "_ = x.($HStringer)", "x.($HStringer).String()")
	// channels
	def("close_nil", "var c chan int", "close(c)", "")
	def("close_closed", "c := make(chan int); close(c)", "close(c)", "")
	def("send_closed", "c := make(chan int, 1); close(c)", "c <- 1", "")
	def("send_closed_const", "c := make(chan string, 1); close(c)", "c <- \"a\"", "")
	def("send_closed_select", "c := make(chan int, 1); close(c)", "select { case c <- 1: default: }", "")
	// maps and hashing
	def("unhash_read", "m := map[any]int{}; var k any = []int{1}", "_ = m[k]", "m[k]")
	def("unhash_read_ok", "m := map[any]int{}; var k any = []int{1}", "_, ok := m[k]; _ = ok", "")
	def("unhash_read_nilmap", "var m map[any]int; var k any = []int{1}", "_ = m[k]", "m[k]")
	def("unhash_read_mapkey", "m := map[any]int{1: 1}; var k any = map[int]int{}", "_ = m[k]", "m[k]")
	def("unhash_read_funckey", "m := map[any]int{1: 1}; var k any = func() {}", "_ = m[k]", "m[k]")
	def("unhash_write", "m := map[any]int{}; var k any = []int{1}", "m[k] = 1", "")
	def("unhash_delete", "m := map[any]int{}; var k any = []int{1}", "delete(m, k)", "")
	def("unhash_literal", "var k any = []int{1}", "_ = map[any]int{k: 1}", "len(map[any]int{k: 1})")
	def("unhash_write_funckey", "m := map[any]int{}; var k any = func() {}", "m[k] = 1", "")
	def("unhash_write_mapkey", "m := map[any]int{}; var k any = map[int]int{}", "m[k] = 1", "")
	def("unhash_write_nilmap", "var m map[any]int; var k any = []int{1}", "m[k] = 1", "")
	def("unhash_delete_funckey", "m := map[any]int{1: 1}; var k any = func() {}", "delete(m, k)", "")
	def("unhash_delete_mapkey", "m := map[any]int{1: 1}; var k any = map[int]int{}", "delete(m, k)", "")
	def("unhash_delete_nilmap", "var m map[any]int; var k any = []int{1}", "delete(m, k)", "")
	def("unhash_delete_structkey", "m := map[struct{ X any }]int{}; k := struct{ X any }{[]int{1}}", "delete(m, k)", "")
	def("unhash_write_structkey", "m := map[struct{ X any }]int{}; k := struct{ X any }{[]int{1}}", "m[k] = 1", "")
	def("unhash_structkey", "m := map[struct{ X any }]int{}; k := struct{ X any }{[]int{1}}", "_ = m[k]", "m[k]")
	// make
	def("make_slice_neglen", "n := -1", "_ = make([]int, n)", "len(make([]int, n))")
	def("make_slice_negcap", "n := -1", "_ = make([]int, 0, n)", "len(make([]int, 0, n))")
	def("make_slice_len_gt_cap", "n := 5", "_ = make([]int, n, 2)", "len(make([]int, n, 2))")
	def("make_slice_huge", "n := 1 << 62", "_ = make([]byte, n)", "len(make([]byte, n))")
	def("make_slice_hugecap", "n := 1 << 62", "_ = make([]int, 0, n)", "len(make([]int, 0, n))")
	def("make_chan_neg", "n := -1", "_ = make(chan int, n)", "len(make(chan int, n))")
	def("make_chan_huge", "n := 1 << 62", "_ = make(chan int, n)", "len(make(chan int, n))")
	def("make_map_neg", "n := -1", "_ = make(map[int]int, n)", "len(make(map[int]int, n))")
	def("make_map_huge", "n := 1 << 62", "_ = make(map[int]int, n)", "len(make(map[int]int, n))")
	// conversions
	def("conv_slice_arrayptr", "s := []int{1, 2}", "_ = (*[4]int)(s)", "(*[4]int)(s)[0]")
	// comparing uncomparable interface values
	def("cmp_eq", "var a any = []int{1}; var b any = []int{1}", "_ = a == b", "a == b")
	def("cmp_neq", "var a any = []int{1}; var b any = []int{1}", "_ = a != b", "a != b")
	def("cmp_if", "var a any = []int{1}; var b any = []int{1}", "if a == b { a = nil }", "")
	def("cmp_switch", "var a any = []int{1}; var b any = []int{1}", "switch a { case b: }", "")
	def("cmp_struct", "a := struct{ X any }{[]int{1}}; b := a", "_ = a == b", "a == b")
	def("cmp_array", "a := [1]any{[]int{1}}; b := a", "_ = a == b", "a == b")
	def("cmp_map_value", "var a any = map[int]int{}; var b any = map[int]int{}", "_ = a == b", "a == b")
	def("cmp_func_value", "var a any = func() {}; b := a", "_ = a == b", "a == b")
	// append overflow
	def("append_overflow", "n := 1 << 62; s := make([]struct{}, n)", "s = append(s, s...)", "")
	// explicit panics (baseline: the documented PanicError path)
	def("panic_string", "v := \"boom\"", "panic(v)", "")
	def("panic_int", "v := 7", "panic(v)", "")
	def("panic_error", "var v error = $HErr", "panic(v)", "")
	def("panic_nilvalue", "var v any", "panic(v)", "")
	// panics raised inside native callbacks
	def("native_panic_error", "", "$HPanicErr()", "$HPanicErrV()")
	def("native_panic_string", "", "$HPanicStr()", "$HPanicStrV()")
	def("native_panic_int", "", "$HPanicInt()", "")
	def("native_panic_runtime", "", "$HPanicRT()", "$HPanicRTV()")
	def("native_panic_custom_rterr", "", "$HPanicMyRT()", "")
	def("native_method_panic", "var v $HS", "_ = v.P()", "v.P()")
	def("native_callback_panic", "", "$HCall(func() { panic(\"cb\") })", "")
	def("native_callback_fault", "z := 0", "$HCall(func() { _ = 1 / z })", "")
	def("native_callback_recovered", "z := 0", "$HCall(func() { defer func() { recover() }(); _ = 1 / z })", "")
	def("native_variadic_panic", "", "$HPanicVar(1, 2)", "")
	// finite recursion (gc runs it; the register stack of the VM must grow)
	faults["recursion_1000"] = fault{decl: "func rec(n int) {\n\tif n == 0 {\n\t\treturn\n\t}\n\trec(n - 1)\n}", stmt: "rec(1000)"}
	faults["recursion_1000_result"] = fault{decl: "func rec(n int) int {\n\tif n == 0 {\n\t\treturn 0\n\t}\n\treturn 1 + rec(n-1)\n}", stmt: "_ = rec(1000)"}
	// the run is ended by a native function that calls env.Stop(err) (documented: Run returns err; deferred calls do not run)
	def("stop_native", "", "$HStop()", "$HStopV()")
	def("stop_in_callback", "", "$HCall(func() { $HStop() })", "")
	def("stop_after_recovered_panic", "", "func() { defer func() { recover() }(); panic(\"x\") }(); $HStop()", "")
	// no fault at all (baseline of every situation and form)
	def("nofault", "v := 1", "_ = v", "v")
	// values that cannot be shown (template only)
	def("show_unshowable_chan", "var v any = make(chan int)", "", "v")
	def("show_unshowable_func", "var v any = func() {}", "", "v")
	def("show_unshowable_nested", "var v any = []any{make(chan int)}", "", "v")
	def("show_nil_any", "var v any", "", "v")
	def("show_nil_error", "var v error", "", "v")
}

// ------------------------------------------------------------------------------------ the host package

// S is a native struct type; M has a value receiver (calling it through a nil *S faults in Go).
type S struct{ F int }

func (s S) M() int { return s.F }
func (s S) P() int { var m map[int]int; m[1] = 1; return 0 }

type myRT struct{}

func (myRT) Error() string { return "my runtime error" }
func (myRT) RuntimeError() {}

var errHost = errors.New("host error value")

// errStop is the error given to env.Stop by the Stop / StopV natives.
var errStop = errors.New("stopped by the host")

func hostDecls() native.Declarations {
	rt := func() { var m map[string]int; m["a"] = 1 }
	e := errHost
	return native.Declarations{
		"S":         reflect.TypeFor[S](),
		"Stringer":  reflect.TypeFor[fmt.Stringer](),
		"Err":       &e,
		"PanicErr":  func() { panic(errHost) },
		"PanicErrV": func() int { panic(errHost) },
		"PanicStr":  func() { panic("host string") },
		"PanicStrV": func() int { panic("host string") },
		"PanicInt":  func() { panic(7) },
		"PanicRT":   rt,
		"PanicRTV":  func() int { rt(); return 0 },
		"PanicMyRT": func() { panic(myRT{}) },
		"PanicVar":  func(a ...int) { panic(fmt.Sprint(a)) },
		"Call":      func(f func()) { f() },
		"Stop":      func(env native.Env) { env.Stop(errStop) },
		"StopV":     func(env native.Env) int { env.Stop(errStop); return 0 },
	}
}

// ------------------------------------------------------------------------------------ program / template text

func subst(s string, tmpl bool) string {
	if tmpl {
		return strings.ReplaceAll(s, "$H", "")
	}
	return strings.ReplaceAll(s, "$H", "host.")
}

const recoverStmt = `defer func() { if recover() != nil { print("R") } }()`

// program returns the source of main.go for (fault, situation, form).  `ok` is false when the
// combination has no concretisation (the grid of MC_Faults.tla never asks for those).
func program(f fault, situation, form string) (string, bool) {
	if f.stmt == "" {
		return "", false
	}
	setup, stmt := subst(f.setup, false), subst(f.stmt, false)
	rIn, rOut := "", ""
	switch form {
	case "plain":
	case "recover":
		rIn = recoverStmt
	case "recover_outer":
		rOut = recoverStmt
	default:
		return "", false
	}
	body := func(parts ...string) string {
		var b strings.Builder
		for _, p := range parts {
			if p != "" {
				b.WriteString("\t" + p + "\n")
			}
		}
		return b.String()
	}
	var b strings.Builder
	b.WriteString("package main\n\nimport \"host\"\n\nvar _ = host.Err\n\n")
	if f.decl != "" {
		b.WriteString(f.decl + "\n\n")
	}
	switch situation {
	case "top":
		if rOut != "" {
			return "", false
		}
		b.WriteString("func main() {\n" + body(rIn, setup, stmt, `print("after")`) + "}\n")
	case "callee":
		b.WriteString("func f() {\n" + body(rIn, setup, stmt) + "}\n\n")
		b.WriteString("func main() {\n" + body(rOut, "f()", `print("after")`) + "}\n")
	case "callee_args":
		// the callee takes parameters and returns results (other register layout than main)
		b.WriteString("func f(pa int, ps string) (int, string) {\n" + body(rIn, setup, stmt, "return pa, ps") + "}\n\n")
		b.WriteString("func main() {\n" + body(rOut, `x, y := f(1, "y")`, "_, _ = x, y", `print("after")`) + "}\n")
	case "deferred":
		b.WriteString("func main() {\n" + body(rOut, "defer func() {\n"+body(rIn, setup, stmt)+"\t}()") + "}\n")
	case "deferred_named":
		b.WriteString("func f() {\n" + body(rIn, setup, stmt) + "}\n\n")
		b.WriteString("func main() {\n" + body(rOut, "defer f()") + "}\n")
	case "closure":
		// the operands are captured variables of the enclosing function
		b.WriteString("func main() {\n" + body(rOut, setup, "func() {\n"+body(rIn, stmt)+"\t}()", `print("after")`) + "}\n")
	case "funcvar":
		b.WriteString("func f() {\n" + body(rIn, setup, stmt) + "}\n\n")
		b.WriteString("func main() {\n" + body(rOut, "g := f", "g()", `print("after")`) + "}\n")
	case "funcvar_lit":
		b.WriteString("func main() {\n" + body(rOut, "g := func() {\n"+body(rIn, setup, stmt)+"\t}", "g()", `print("after")`) + "}\n")
	case "seq_a", "seq_b", "seq_c", "seq_d":
		// multi-step panic / recover sequences (form "recover": the first deferred call of main recovers at the end)
		if rOut != "" {
			return "", false
		}
		b.WriteString(seqBody(situation, rIn, setup, stmt, "func inner() {", "}\n\nfunc main() {", "}\n"))
	default:
		return "", false
	}
	return b.String(), true
}

// seqBody writes the multi-step sequences:
//
//	seq_a: the fault is raised in main; while it is in flight a deferred call calls inner(), which raises and
//	       recovers an unrelated panic; then an earlier deferred call recovers (form "recover").
//	seq_b: main panics with "A"; a deferred call calls inner(), in which the fault is raised and recovered.
//	seq_c: main panics with "A"; a deferred call raises the fault itself (it replaces "A").
//	seq_d: main panics with "A"; a deferred call recovers "A" and then raises the fault.
func seqBody(situation, rIn, setup, stmt, openInner, between, closeMain string) string {
	ln := func(ind int, parts ...string) string {
		var b strings.Builder
		for _, p := range parts {
			if p != "" {
				b.WriteString(strings.Repeat("\t", ind) + p + "\n")
			}
		}
		return b.String()
	}
	var b strings.Builder
	b.WriteString(openInner + "\n")
	b.WriteString(ln(1, "defer func() { recover() }()"))
	if situation == "seq_b" {
		b.WriteString(ln(1, setup, stmt))
	} else {
		b.WriteString(ln(1, `panic("B")`))
	}
	b.WriteString(between + "\n")
	b.WriteString(ln(1, rIn))
	switch situation {
	case "seq_a":
		b.WriteString(ln(1, "defer func() { inner() }()", setup, stmt, `print("after")`))
	case "seq_b":
		b.WriteString(ln(1, "defer func() { inner() }()", `panic("A")`))
	case "seq_c":
		b.WriteString(ln(1, "defer func() {") + ln(2, setup, stmt) + ln(1, "}()", `panic("A")`))
	case "seq_d":
		b.WriteString(ln(1, "defer func() {") + ln(2, "recover()", setup, stmt) + ln(1, "}()", `panic("A")`))
	}
	b.WriteString(closeMain)
	return b.String()
}

// template returns the source of index.html for (fault, situation, form).
func template(f fault, situation, form string) (string, bool) {
	if f.decl != "" {
		return "", false
	}
	setup, stmt, show := subst(f.setup, true), subst(f.stmt, true), subst(f.show, true)
	rIn := ""
	switch form {
	case "plain":
	case "recover":
		rIn = recoverStmt
	default:
		return "", false
	}
	stmts := func(s string) string { // "a; b" -> "{% a %}{% b %}"
		var b strings.Builder
		for _, p := range strings.Split(s, "; ") {
			if p != "" {
				b.WriteString("{% " + p + " %}")
			}
		}
		return b.String()
	}
	switch situation {
	case "tmpl_show":
		if show == "" || rIn != "" {
			return "", false
		}
		return "a" + stmts(setup) + "b{{ " + show + " }}c", true
	case "tmpl_show_attr":
		if show == "" || rIn != "" {
			return "", false
		}
		return "a" + stmts(setup) + `<a href="?x={{ ` + show + ` }}">c</a>`, true
	case "tmpl_stmt":
		if stmt == "" || rIn != "" || strings.Contains(stmt, "{") && strings.Contains(stmt, "for ") {
			return "", false
		}
		if strings.ContainsAny(stmt, "{}") {
			// statements with a block are written in a {%% %%} block
			return "", false
		}
		return "a" + stmts(setup) + "b" + stmts(stmt) + "c", true
	case "tmpl_block":
		if stmt == "" {
			return "", false
		}
		if rIn != "" {
			return "a{%%\n\tfunc() {\n\t\t" + rIn + "\n\t\t" + setup + "\n\t\t" + stmt + "\n\t}()\n%%}c", true
		}
		return "a{%%\n\t" + setup + "\n\t" + stmt + "\n%%}c", true
	case "tmpl_macro":
		if rIn != "" {
			return "", false
		}
		if show != "" {
			return "a{% macro M %}" + stmts(setup) + "b{{ " + show + " }}c{% end %}d{{ M() }}e", true
		}
		if stmt == "" || strings.ContainsAny(stmt, "{}") {
			return "", false
		}
		return "a{% macro M %}" + stmts(setup) + "b" + stmts(stmt) + "c{% end %}d{{ M() }}e", true
	case "tmpl_seq_a", "tmpl_seq_b", "tmpl_seq_c", "tmpl_seq_d":
		// the same sequences with function literals in a {%% %%} block
		if stmt == "" {
			return "", false
		}
		return "a{%%\n" + seqBody(situation[len("tmpl_"):], rIn, setup, stmt, "inner := func() {", "}\nfunc() {", "}()\n") + "%%}c", true
	case "tmpl_macro_block":
		if stmt == "" {
			return "", false
		}
		if rIn != "" {
			return "a{% macro M %}{%%\n\tfunc() {\n\t\t" + rIn + "\n\t\t" + setup + "\n\t\t" + stmt + "\n\t}()\n%%}c{% end %}d{{ M() }}e", true
		}
		return "a{% macro M %}{%%\n\t" + setup + "\n\t" + stmt + "\n%%}c{% end %}d{{ M() }}e", true
	}
	return "", false
}

// ------------------------------------------------------------------------------------ running

type result struct {
	built    bool
	builderr string
	outcome  string // nil | panicerror | hostpanic | othererror | builderror
	msg      string
	printed  string
	out      []byte
}

// runUnderRecover calls run under a host recover and classifies what came back using public types only.
func runUnderRecover(run func() error) (outcome, msg string) {
	defer func() {
		if r := recover(); r != nil {
			outcome, msg = "hostpanic", fmt.Sprintf("%T: %v", r, r)
			if os.Getenv("C05_STACK") != "" { // by hand, to locate a finding
				msg += "\n" + string(debug.Stack())
			}
		}
	}()
	err := run()
	if err == nil {
		return "nil", ""
	}
	if err == error(errStop) { // identity: the very value given to env.Stop
		return "stoperr", ""
	}
	if errors.Is(err, context.Canceled) || errors.Is(err, context.DeadlineExceeded) {
		return "ctxerr", ""
	}
	var pe *scriggo.PanicError
	if errors.As(err, &pe) {
		return "panicerror", pe.String()
	}
	return "othererror", fmt.Sprintf("%T: %v", err, err)
}

func buildRun(src string, tmpl bool, vars map[string]any, extraGlobals native.Declarations) (res result) {
	return buildRunOpt(src, "index.html", tmpl, vars, extraGlobals, "none")
}

// buildRunOpt builds and runs; opt "cancelable" passes a cancelable (never canceled) context in the run options.
func buildRunOpt(src, name string, tmpl bool, vars map[string]any, extraGlobals native.Declarations, opt string) (res result) {
	var printed strings.Builder
	ro := &scriggo.RunOptions{Print: func(v any) { fmt.Fprint(&printed, v) }}
	if opt == "cancelable" {
		ctx, cancel := context.WithCancel(context.Background())
		defer cancel()
		ro.Context = ctx
	}
	decls := hostDecls()
	var run func() error
	var out bytes.Buffer
	berr := func() (err error) {
		defer func() {
			if r := recover(); r != nil {
				err = buildPanic{fmt.Sprintf("build panicked: %v", r)}
			}
		}()
		if tmpl {
			g := native.Declarations{}
			for k, v := range decls {
				g[k] = v
			}
			for k, v := range extraGlobals {
				g[k] = v
			}
			t, err := scriggo.BuildTemplate(scriggo.Files{name: []byte(src)}, name, &scriggo.BuildOptions{Globals: g})
			if err != nil {
				return err
			}
			run = func() error { return t.Run(&out, vars, ro) }
			return nil
		}
		p, err := scriggo.Build(scriggo.Files{"go.mod": []byte("module m\n\ngo 1.21\n"), "main.go": []byte(src)},
			&scriggo.BuildOptions{Packages: native.Packages{"host": native.Package{Name: "host", Declarations: decls}}})
		if err != nil {
			return err
		}
		run = func() error { return p.Run(ro) }
		return nil
	}()
	if berr != nil {
		res.outcome, res.builderr = "builderror", berr.Error()
		if _, ok := berr.(buildPanic); ok {
			res.outcome = "buildpanic" // Build / BuildTemplate itself panicked into the host
		}
		return res
	}
	res.built = true
	res.outcome, res.msg = runUnderRecover(run)
	res.printed = printed.String()
	res.out = out.Bytes()
	return res
}

type buildPanic struct{ msg string }

func (e buildPanic) Error() string { return e.msg }

func clip(s string, n int) string {
	if len(s) > n {
		return s[:n]
	}
	return s
}

// ------------------------------------------------------------------------------------ cases

type c05Case struct {
	ID        int     `json:"id"`
	Kind      string  `json:"kind"`
	Fault     string  `json:"fault"`
	Situation string  `json:"situation"`
	Form      string  `json:"form"`
	Attr      string  `json:"attr"`
	Items     [][]any `json:"items"`
	Opt       string  `json:"opt"`
	Value     string  `json:"value"`
	Ctx       string  `json:"ctx"`
	Box       string  `json:"box"`
	Isolate   bool    `json:"isolate"` // run the case in a child process (it may kill the process instead of panicking)
	Src       string  `json:"src"`     // kind "raw" (used by hand to minimise a finding): the source itself
	Tmpl      bool    `json:"tmpl"`    // kind "raw": template (index.html) or program (main.go)
}

func faultCase(k *c05Case) map[string]any {
	if k.Opt == "" {
		k.Opt = "none"
	}
	o := map[string]any{"id": k.ID, "kind": "fault", "fault": k.Fault, "situation": k.Situation, "form": k.Form, "opt": k.Opt}
	f, ok := faults[k.Fault]
	var src string
	tmpl := strings.HasPrefix(k.Situation, "tmpl_")
	if ok {
		if tmpl {
			src, ok = template(f, k.Situation, k.Form)
		} else {
			src, ok = program(f, k.Situation, k.Form)
		}
	}
	if !ok {
		// no concretisation: reported as such (the check treats it as a machinery problem, never as a verdict)
		o["outcome"], o["msg"], o["src"], o["printed"], o["recovered"] = "noconcretisation", "", "", "", false
		return o
	}
	r := buildRunOpt(src, "index.html", tmpl, nil, nil, k.Opt)
	o["src"] = src
	o["outcome"] = r.outcome
	o["msg"] = clip(r.msg+r.builderr, 300)
	o["printed"] = r.printed
	o["recovered"] = strings.Contains(r.printed, "R")
	o["after"] = strings.Contains(r.printed, "after")
	return o
}

var urlShape = map[string][2]string{
	"href":   {`<a href="`, `">x</a>`},
	"src":    {`<img src="`, `">`},
	"srcset": {`<img srcset="`, `">`},
}

func urlCase(k *c05Case) map[string]any {
	o := map[string]any{"id": k.ID, "kind": "url", "attr": k.Attr, "items": k.Items}
	sh, ok := urlShape[k.Attr]
	if !ok {
		o["outcome"], o["msg"], o["out"], o["src"] = "noconcretisation", "", []int{}, ""
		return o
	}
	var b strings.Builder
	b.WriteString(sh[0])
	g := native.Declarations{}
	vars := map[string]any{}
	n := 0
	for _, it := range k.Items {
		kind, _ := it[0].(float64)
		var piece []byte
		if arr, ok := it[1].([]any); ok {
			for _, x := range arr {
				v, _ := x.(float64)
				piece = append(piece, byte(v))
			}
		}
		if kind == 0 {
			b.Write(piece)
		} else {
			n++
			name := fmt.Sprintf("p%d", n)
			g[name] = (*string)(nil)
			vars[name] = string(piece)
			b.WriteString("{{ " + name + " }}")
		}
	}
	b.WriteString(sh[1])
	src := b.String()
	r := buildRun(src, true, vars, g)
	o["src"] = src
	o["outcome"] = r.outcome
	o["msg"] = clip(r.msg+r.builderr, 300)
	o["out"] = drv.Ints(r.out)
	o["pre"] = drv.IntsS(sh[0])
	o["post"] = drv.IntsS(sh[1])
	return o
}

// isolated runs one case in a child process (this same binary with C05_CHILD=1, the case on stdin, the observation
// on stdout).  If the child dies - the Go run time kills a process whose goroutine stack overflows, no recover()
// sees that - the observation says so: outcome "processdeath".
func isolated(raw json.RawMessage, k *c05Case) map[string]any {
	ctx, cancel := context.WithTimeout(context.Background(), 5*time.Minute)
	defer cancel()
	cmd := exec.CommandContext(ctx, os.Args[0])
	cmd.Env = append(os.Environ(), "C05_CHILD=1", "GOTRACEBACK=none")
	cmd.Stdin = bytes.NewReader(raw)
	var stdout, stderr bytes.Buffer
	cmd.Stdout, cmd.Stderr = &stdout, &stderr
	err := cmd.Run()
	var o map[string]any
	if err == nil && json.Unmarshal(stdout.Bytes(), &o) == nil {
		return o
	}
	first, _, _ := strings.Cut(stderr.String(), "\n")
	if i := strings.Index(stderr.String(), "fatal error:"); i >= 0 {
		first, _, _ = strings.Cut(stderr.String()[i:], "\n")
	}
	cx := showContexts[k.Ctx]
	return map[string]any{"id": k.ID, "kind": "show", "value": k.Value, "ctx": k.Ctx, "box": k.Box, "src": cx[1],
		"outcome": "processdeath", "msg": clip(fmt.Sprintf("child: %v: %s", err, first), 300), "out": ""}
}

func child() {
	debug.SetMaxStack(16 << 20) // die early and cheaply on unbounded recursion
	var k c05Case
	drv.Must(json.NewDecoder(os.Stdin).Decode(&k))
	drv.Must(json.NewEncoder(os.Stdout).Encode(showCase(&k)))
}

func main() {
	if os.Getenv("C05_CHILD") != "" {
		child()
		return
	}
	drv.Main(&drv.Sub{
		Each: func(c json.RawMessage, seed int64) []any {
			var k c05Case
			drv.Must(json.Unmarshal(c, &k))
			if k.Kind == "url" {
				return []any{urlCase(&k)}
			}
			if k.Kind == "show" {
				if k.Isolate {
					return []any{isolated(c, &k)}
				}
				return []any{showCase(&k)}
			}
			if k.Kind == "raw" {
				r := buildRun(subst(k.Src, k.Tmpl), k.Tmpl, nil, nil)
				return []any{map[string]any{"id": k.ID, "kind": "raw", "outcome": r.outcome, "msg": clip(r.msg+r.builderr, 2000),
					"printed": r.printed, "out": string(r.out)}}
			}
			return []any{faultCase(&k)}
		},
	})
}

// ------------------------------------------------------------------------------------ odd shown values

type base struct{ ID int }

// Item embeds a struct of a non-exported type; ItemP embeds a pointer to it.
type Item struct {
	base
	Name string
}
type ItemP struct {
	*base
	Name string
}
type hidden struct{ a, b int }
type Plain struct{ A int }
type WithChan struct {
	A int
	C chan int
}
type WithFunc struct{ F func() }

// VS has a value-receiver String method (calling it through a nil *VS faults in Go); PS a pointer-receiver one.
type VS struct{ A int }

func (v VS) String() string { return "vs" }

type PS struct{ A int }

func (p *PS) String() string { return "ps" }

// value-receiver show methods (calling them through a nil pointer faults in Go)
type VE struct{ A int }

func (VE) Error() string { return "ve" }

type VH struct{ A int }

func (VH) HTML() native.HTML { return "<b>vh</b>" }

type VC struct{ A int }

func (VC) CSS() native.CSS { return "red" }

type VJ struct{ A int }

func (VJ) JS() native.JS { return "1" }

type VN struct{ A int }

func (VN) JSON() native.JSON { return "1" }

type VM struct{ A int }

func (VM) Markdown() native.Markdown { return "*vm*" }

type VEnv struct{ A int }

func (VEnv) String(native.Env) string { return "venv" }

var pointee int

type Node struct {
	V    int
	Next *Node
}

// showValues returns the value registered under a name.  Values that would make the process die (not panic) are
// not in the table: self-referencing pointers, maps and slices overflow the goroutine stack in showInJS/showInJSON.
func showValue(name string) (any, bool) {
	switch name {
	case "nil_interface": // the global has type any in both boxes
		return nil, true
	case "embed_unexported":
		return Item{base{1}, "n"}, true
	case "embed_unexported_ptr":
		return ItemP{&base{1}, "n"}, true
	case "embed_unexported_nilptr":
		return ItemP{nil, "n"}, true
	case "ptr_embed_unexported":
		return &Item{base{1}, "n"}, true
	case "slice_embed_unexported":
		return []Item{{base{1}, "n"}}, true
	case "map_embed_unexported":
		return map[string]Item{"k": {base{1}, "n"}}, true
	case "unexported_fields_only":
		return hidden{1, 2}, true
	case "struct_chan_field":
		return WithChan{1, make(chan int)}, true
	case "struct_func_field":
		return WithFunc{func() {}}, true
	case "nil_ptr_time":
		return (*time.Time)(nil), true
	case "nil_ptr_value_stringer":
		return (*VS)(nil), true
	case "nil_ptr_value_error":
		return (*VE)(nil), true
	case "nil_ptr_value_html":
		return (*VH)(nil), true
	case "nil_ptr_value_css":
		return (*VC)(nil), true
	case "nil_ptr_value_js":
		return (*VJ)(nil), true
	case "nil_ptr_value_json":
		return (*VN)(nil), true
	case "nil_ptr_value_markdown":
		return (*VM)(nil), true
	case "nil_ptr_value_envstringer":
		return (*VEnv)(nil), true
	case "unsafe_pointer":
		return unsafe.Pointer(&pointee), true
	case "unsafe_pointer_nil":
		return unsafe.Pointer(nil), true
	case "struct_unsafe_pointer_field":
		return struct{ P unsafe.Pointer }{unsafe.Pointer(&pointee)}, true
	case "nil_ptr_ptr_stringer":
		return (*PS)(nil), true
	case "nil_ptr_struct":
		return (*Plain)(nil), true
	case "ptr_ptr_nil":
		var p *Plain
		return &p, true
	case "chan":
		return make(chan int), true
	case "nil_chan":
		return (chan int)(nil), true
	case "func":
		return func() {}, true
	case "nil_func":
		return (func())(nil), true
	case "complex":
		return complex(1, 2), true
	case "nil_map":
		return (map[string]int)(nil), true
	case "nil_slice":
		return ([]int)(nil), true
	case "map_int_key":
		return map[int]string{1: "a"}, true
	case "map_any_key":
		return map[any]int{[2]int{1, 2}: 1, "s": 2}, true
	case "map_struct_key":
		return map[Plain]int{{1}: 1}, true
	case "slice_any_chan":
		return []any{1, make(chan int)}, true
	case "slice_nil_ptr_stringer":
		return []any{(*VS)(nil), (*time.Time)(nil)}, true
	case "map_value_nil_ptr_time":
		return map[string]*time.Time{"t": nil}, true
	case "array_of_struct":
		return [2]Plain{{1}, {2}}, true
	case "list_node":
		return &Node{1, &Node{2, nil}}, true
	case "error_nil_ptr":
		return error((*ptrErr)(nil)), true
	case "zero_time":
		return time.Time{}, true
	case "duration":
		return time.Duration(0), true
	case "cyclic_ptr": // only when asked by hand / by the isolated probe of checks/c05.py: may kill the process
		n := &Node{V: 1}
		n.Next = n
		return n, true
	case "cyclic_map":
		m := map[string]any{}
		m["self"] = m
		return m, true
	case "cyclic_slice":
		sl := []any{nil}
		sl[0] = sl
		return sl, true
	}
	return nil, false
}

type ptrErr struct{ msg string }

func (e *ptrErr) Error() string { return "ptrErr" }

// showContexts: the template file and source for every context ({{ v }} marks the show).
var showContexts = map[string][2]string{
	"text":        {"index.txt", "a {{ v }} b"},
	"html":        {"index.html", "<p>{{ v }}</p>"},
	"tag":         {"index.html", "<div {{ v }}>x</div>"},
	"qattr":       {"index.html", `<div title="{{ v }}">x</div>`},
	"uattr":       {"index.html", `<div title={{ v }}>x</div>`},
	"css":         {"index.css", "a{width:{{ v }}}"},
	"cssstr":      {"index.css", `a{content:"{{ v }}"}`},
	"js":          {"index.js", "var x = {{ v }};"},
	"jsstr":       {"index.js", `var x = "{{ v }}";`},
	"json":        {"index.json", `{"a":{{ v }}}`},
	"jsonstr":     {"index.json", `{"a":"{{ v }}"}`},
	"md":          {"index.md", "text {{ v }}\n"},
	"tabcode":     {"index.md", "p\n\n\t{{ v }}\n"},
	"spacescode":  {"index.md", "p\n\n    {{ v }}\n"},
	"urlq":        {"index.html", `<a href="{{ v }}">x</a>`},
	"urlquery":    {"index.html", `<a href="/p?a={{ v }}&b=1">x</a>`},
	"urlset":      {"index.html", `<img srcset="{{ v }} 2x">`},
	"html.script": {"index.html", "<script>var x = {{ v }};</script>"},
	"html.jsstr":  {"index.html", `<script>var x = '{{ v }}';</script>`},
	"html.ldjson": {"index.html", `<script type="application/ld+json">{"a":{{ v }}}</script>`},
	"html.style":  {"index.html", "<style>a{width:{{ v }}}</style>"},
	"js.macro":    {"index.js", "{% macro M %}{{ v }}{% end %}var x = {{ M() }};"},
	"json.for":    {"index.json", `[{% for i := 0; i < 2; i++ %}{{ v }}{% if i == 0 %},{% end %}{% end %}]`},
}

// showCase shows the value `value` in the context `ctx`; box "static": the global v has the value's own type,
// box "any": it has type any (the show is checked at run time only).
func showCase(k *c05Case) map[string]any {
	o := map[string]any{"id": k.ID, "kind": "show", "value": k.Value, "ctx": k.Ctx, "box": k.Box}
	val, ok1 := showValue(k.Value)
	cx, ok2 := showContexts[k.Ctx]
	if !ok1 || !ok2 || k.Box != "static" && k.Box != "any" {
		o["outcome"], o["msg"], o["src"], o["out"] = "noconcretisation", "", "", ""
		return o
	}
	var decl any
	if k.Box == "any" || val == nil {
		x := val
		decl = &x
	} else {
		p := reflect.New(reflect.TypeOf(val))
		p.Elem().Set(reflect.ValueOf(val))
		decl = p.Interface()
	}
	r := buildRunOpt(cx[1], cx[0], true, nil, native.Declarations{"v": decl}, "none")
	o["src"] = cx[1]
	o["outcome"] = r.outcome
	o["msg"] = clip(r.msg+r.builderr, 300)
	o["out"] = clip(string(r.out), 200)
	return o
}

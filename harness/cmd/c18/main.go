package main

import (
	"verifharness/drv"

	"encoding/json"
	"errors"
	"flag"
	"fmt"
	"io/fs"
	"math/rand"
	"sort"
	"strings"
	"sync"
	"time"

	"github.com/open2b/scriggo"
)

// C18: template file loading.  A case is a file graph {id, files, entry, refs:[{o,k,p}]} with
// every path given as its "/"-separated elements.  The driver writes one template source per
// file, serves them through a recording fs.FS (and, second pass, the same wrapped as a
// scriggo.FormatFS), calls scriggo.BuildTemplate under recover with a watchdog, and logs every
// Open (name, success, number of Read calls on the handle) and the class of the outcome.
// It judges nothing.

type ref struct {
	O []string `json:"o"`
	K string   `json:"k"`
	P []string `json:"p"`
}

type c18Case struct {
	ID    int        `json:"id"`
	Files [][]string `json:"files"`
	Entry []string   `json:"entry"`
	Refs  []ref      `json:"refs"`
}

const openCap = 64          // far above what any build of <= 5 files and <= 8 references needs
const watchdog = 5 * time.Second

// -fmtmod k: the FormatFS pass is made for the cases whose id is a multiple of k (1 = all)
var fmtMod = flag.Int("fmtmod", 1, "FormatFS pass for ids divisible by this")

var errRunaway = errors.New("c18 harness: too many Open calls, build cut off")

type openRec struct {
	name string
	ok   bool
	rd   int
}

type recFS struct {
	files   scriggo.Files
	mu      sync.Mutex
	opens   []*openRec
	formats []string
	runaway bool
}

func (r *recFS) Open(name string) (fs.File, error) {
	r.mu.Lock()
	rec := &openRec{name: name}
	r.opens = append(r.opens, rec)
	over := len(r.opens) > openCap
	if over {
		r.runaway = true
	}
	r.mu.Unlock()
	if over {
		return nil, errRunaway
	}
	f, err := r.files.Open(name)
	if err != nil {
		return nil, err
	}
	r.mu.Lock()
	rec.ok = true
	r.mu.Unlock()
	return &recFile{File: f, fsys: r, rec: rec}, nil
}

type recFile struct {
	fs.File
	fsys *recFS
	rec  *openRec
}

func (f *recFile) Read(p []byte) (int, error) {
	f.fsys.mu.Lock()
	f.rec.rd++
	f.fsys.mu.Unlock()
	return f.File.Read(p)
}

// fmtFS is the recording file system seen as a scriggo.FormatFS.
type fmtFS struct{ *recFS }

func (f fmtFS) Format(name string) (scriggo.Format, error) {
	f.mu.Lock()
	f.formats = append(f.formats, name)
	f.mu.Unlock()
	if strings.HasSuffix(name, ".html") {
		return scriggo.FormatHTML, nil
	}
	return scriggo.FormatText, nil
}

func join(el []string) string { return strings.Join(el, "/") }

// source writes the template source of file number idx: the references in the given order;
// extends and import are statements, render expressions go into the body of a macro.
func source(c *c18Case, idx int) string {
	var b strings.Builder
	name := join(c.Files[idx])
	inMacro, hadMacro := false, false
	open := func() {
		if !inMacro {
			fmt.Fprintf(&b, "{%% macro M%d %%}", idx+1)
			inMacro, hadMacro = true, true
		}
	}
	closeM := func() {
		if inMacro {
			b.WriteString("{% end %}")
			inMacro = false
		}
	}
	for _, r := range c.Refs {
		if join(r.O) != name {
			continue
		}
		p := join(r.P)
		switch r.K {
		case "extends":
			closeM()
			fmt.Fprintf(&b, "{%% extends %q %%}", p)
		case "import":
			closeM()
			fmt.Fprintf(&b, "{%% import %q %%}", p)
		case "render":
			open()
			fmt.Fprintf(&b, "{{ render %q }}", p)
		case "renderd":
			open()
			fmt.Fprintf(&b, "{{ render %q default \"\" }}", p)
		}
	}
	closeM()
	if !hadMacro {
		fmt.Fprintf(&b, "{%% macro M%d %%}x{%% end %%}", idx+1)
	}
	return b.String()
}

type outcome struct {
	cls string
	msg string
}

func build(fsys fs.FS, entry string) (o outcome) {
	defer func() {
		if p := recover(); p != nil {
			o = outcome{"hostpanic", fmt.Sprint(p)}
		}
	}()
	_, err := scriggo.BuildTemplate(fsys, entry, nil)
	var be *scriggo.BuildError
	switch {
	case err == nil:
		return outcome{"nil", ""}
	case errors.As(err, &be):
		return outcome{"builderror", err.Error()}
	case errors.Is(err, fs.ErrNotExist):
		return outcome{"notexist", err.Error()}
	}
	return outcome{"other", err.Error()}
}

func runOne(c *c18Case, fsk string) map[string]any {
	files := scriggo.Files{}
	for i := range c.Files {
		files[join(c.Files[i])] = []byte(source(c, i))
	}
	rec := &recFS{files: files}
	var fsys fs.FS = rec
	if fsk == "format" {
		fsys = fmtFS{rec}
	}
	done := make(chan outcome, 1)
	go func() { done <- build(fsys, join(c.Entry)) }()
	var o outcome
	ret := true
	select {
	case o = <-done:
	case <-time.After(watchdog):
		o, ret = outcome{"hang", ""}, false
	}
	rec.mu.Lock()
	opens := make([]any, 0, len(rec.opens))
	for _, r := range rec.opens {
		opens = append(opens, map[string]any{"n": strings.Split(r.name, "/"), "ok": r.ok, "rd": r.rd})
	}
	formats := make([]any, 0, len(rec.formats))
	for _, n := range rec.formats {
		formats = append(formats, strings.Split(n, "/"))
	}
	runaway := rec.runaway
	rec.mu.Unlock()
	refs := make([]any, 0, len(c.Refs))
	for _, r := range c.Refs {
		refs = append(refs, map[string]any{"o": r.O, "k": r.K, "p": r.P})
	}
	return map[string]any{"id": c.ID, "fsk": fsk, "files": c.Files, "entry": c.Entry, "refs": refs,
		"opens": opens, "formats": formats, "cls": o.cls, "msg": drv.IntsS(o.msg), "ret": ret, "runaway": runaway}
}

var names = [][]string{{"a.html"}, {"b.html"}, {"d", "a.html"}, {"d", "b.html"}, {"d", "e", "a.html"}}
var kinds = []string{"extends", "import", "render", "renderd"}
var paths = []string{
	"a.html", "b.html", "d/a.html", "d/b.html", "e/a.html", "d/e/a.html",
	"/a.html", "/b.html", "/d/a.html", "/d/b.html", "/d/e/a.html",
	"../a.html", "../b.html", "../d/b.html", "../e/a.html", "../../a.html", "../../b.html", "../../d/a.html",
	"../../../a.html", "../../d/e/a.html", "../../../d/b.html",
	"", ".", "..", "/", "./a.html", "a.html/", "d//a.html", "d/../a.html", "/../a.html", "../", "d/./a.html",
	"../a.html/..", "/.", ".././a.html", "//a.html", "e/../../../b.html", "/d/../a.html",
}

// formOf writes a path that leads from a file in directory dir to the file target: its absolute
// form or the relative form ("../" for every directory to leave, then the rest).  Input generation
// only - what a path resolves to is decided by the TLA+ reference, never here.
func formOf(r *rand.Rand, dir, target []string) string {
	if r.Intn(2) == 0 {
		return "/" + join(target)
	}
	c := 0
	for c < len(dir) && c < len(target)-1 && dir[c] == target[c] {
		c++
	}
	return strings.Repeat("../", len(dir)-c) + join(target[c:])
}

// treeRefs: a reference graph grown from the entry file, every file visited gets 1-3 references
// (mostly to files of the tree, written in absolute or relative form; sometimes any path form),
// files expanded breadth first until 8 references are written.
func treeRefs(r *rand.Rand, files [][]string, entry []string) []map[string]any {
	var refs []map[string]any
	seen := map[string]bool{join(entry): true}
	queue := [][]string{entry}
	for len(queue) > 0 && len(refs) < 8 {
		f := queue[0]
		queue = queue[1:]
		dir := f[:len(f)-1]
		n := 1 + r.Intn(3)
		ks := make([]int, n)
		for j := range ks {
			ks[j] = 1 + r.Intn(3) // import, render, renderd
			if r.Intn(3) != 0 {
				ks[j] = 2 + r.Intn(2)
			}
		}
		sort.Ints(ks)
		for j := 0; j < n && len(refs) < 8; j++ {
			var p string
			if r.Intn(5) != 0 {
				t := files[r.Intn(len(files))]
				if r.Intn(4) != 0 { // mostly a file not yet in the tree (fewer cycles, deeper trees)
					for k := 0; k < 6 && seen[join(t)]; k++ {
						t = files[r.Intn(len(files))]
					}
				}
				p = formOf(r, dir, t)
				if !seen[join(t)] {
					seen[join(t)] = true
					queue = append(queue, t)
				}
			} else {
				p = paths[r.Intn(21)] // a valid form, wherever it leads from here
			}
			refs = append(refs, map[string]any{"o": f, "k": kinds[ks[j]], "p": strings.Split(p, "/")})
		}
	}
	return refs
}

func main() {
	drv.Main(&drv.Sub{
		Each: func(raw json.RawMessage, seed int64) []any {
			var c c18Case
			drv.Must(json.Unmarshal(raw, &c))
			if c.Refs == nil {
				c.Refs = []ref{}
			}
			if *fmtMod > 1 && c.ID%*fmtMod != 0 {
				return []any{runOne(&c, "plain")}
			}
			return []any{runOne(&c, "plain"), runOne(&c, "format")}
		},
		// seeded random graphs beyond the bounds of the model-checked space: up to 5 files and 8
		// references, any path form; mostly in template statement order, sometimes not; every
		// third one tree-shaped (treeRefs)
		Extra: func(seed int64, n int) []json.RawMessage {
			r := rand.New(rand.NewSource(seed))
			var out []json.RawMessage
			for i := 0; i < n; i++ {
				var files [][]string
				for _, nm := range names {
					if r.Intn(10) < 7 {
						files = append(files, nm)
					}
				}
				if len(files) == 0 {
					files = append(files, names[r.Intn(len(names))])
				}
				entry := files[r.Intn(len(files))]
				if r.Intn(25) == 0 {
					entry = names[r.Intn(len(names))]
				}
				if i%3 == 2 { // every third graph is grown as a tree from the entry file
					m, _ := json.Marshal(map[string]any{"id": 900000000 + i, "files": files, "entry": entry, "refs": treeRefs(r, files, entry)})
					out = append(out, m)
					continue
				}
				nrefs := r.Intn(9)
				refs := make([]map[string]any, 0, nrefs)
				type kr struct {
					o, k int
					p    string
				}
				var krs []kr
				for j := 0; j < nrefs; j++ {
					k := r.Intn(len(kinds))
					if k == 0 && r.Intn(2) == 0 {
						k = 2
					}
					krs = append(krs, kr{r.Intn(len(files)), k, paths[r.Intn(len(paths))]})
				}
				if r.Intn(5) != 0 {
					sort.SliceStable(krs, func(a, b int) bool {
						if krs[a].o != krs[b].o {
							return krs[a].o < krs[b].o
						}
						return krs[a].k < krs[b].k
					})
				}
				for _, x := range krs {
					refs = append(refs, map[string]any{"o": files[x.o], "k": kinds[x.k], "p": strings.Split(x.p, "/")})
				}
				m, _ := json.Marshal(map[string]any{"id": 900000000 + i, "files": files, "entry": entry, "refs": refs})
				out = append(out, m)
			}
			return out
		},
	})
}

package main

import (
	"verifharness/drv"

	"bytes"
	"encoding/json"
	"fmt"
	"math/rand"
	"os"
	"sync"
	"unicode/utf8"

	"github.com/open2b/scriggo"
	"github.com/open2b/scriggo/native"
)

// C07: escaped values decode back to the original text.
//
// Case {id, s, cx}: s is the byte string (int array) assigned to the template variable x, cx the
// list of context names to render it in (empty or absent = every context).
// Observation {id, ctx, s, out, st}: out is the slice of the real rendered output between the
// fixed text that surrounds {{ x }} in the template of that context (in css_file_dq_tail the slice
// also holds the fixed letter that follows the value inside the string); st is "ok", or the class of
// what happened instead ("runerr", "hostpanic", "nodelim": the fixed text was not found around the
// value - then out is the whole output).  No decoding and no expectation is computed here: the
// TLA+ Trace specification decodes and judges.
//
// Case {id, at, segs}: a URL program - the content of ONE URL attribute (at = "href": <a href="...">,
// at = "srcset": <img srcset="...">) made of several segments, each {k:"t", b: literal template text}
// or {k:"v", b: the string shown there by {{ xN }}}.
// Observation {id, ctx:"url_prog", s:[], at, segs, out, st}: out is the rendered attribute value
// (between the quotes).

type context struct {
	name string
	file string // the extension selects the template format
	pre  string // template text before {{ x }}
	tail string // fixed template text between {{ x }} and post that is part of the observed slice
	post string // template text after the observed slice
	t    *scriggo.Template
}

var contexts = []*context{
	{name: "html_text", file: "index.html", pre: `<p>`, post: `</p>`},
	{name: "attr_dq", file: "index.html", pre: `<p title="`, post: `">`},
	{name: "attr_sq", file: "index.html", pre: `<p title='`, post: `'>`},
	{name: "attr_unq", file: "index.html", pre: `<p title=`, post: `>`},
	{name: "js_script_dq", file: "index.html", pre: `<script>var a="`, post: `";</script>`},
	{name: "js_file_sq", file: "index.js", pre: `var a='`, post: `';`},
	{name: "json_file", file: "index.json", pre: `"`, post: `"`},
	{name: "css_style_dq", file: "index.html", pre: `<style>a{b:"`, post: `"}</style>`},
	{name: "css_file_sq", file: "index.css", pre: `a{b:'`, post: `'}`},
	{name: "css_file_dq_tail", file: "index.css", pre: `a{b:"`, tail: `c`, post: `"}`}, // a hex letter right after the value
	{name: "url_query_dq", file: "index.html", pre: `<a href="/p?q=`, post: `">`},
	{name: "url_path_dq", file: "index.html", pre: `<a href="/`, post: `">`},
	{name: "url_path_unq", file: "index.html", pre: `<a href=/`, post: `>`},
}

var (
	byName    = map[string]*context{}
	buildOnce sync.Once
)

// build compiles every template once; they are reused (Run is safe for concurrent use).
func build() {
	for _, c := range contexts {
		src := c.pre + `{{ x }}` + c.tail + c.post
		t, err := scriggo.BuildTemplate(scriggo.Files{c.file: []byte(src)}, c.file,
			&scriggo.BuildOptions{Globals: native.Declarations{"x": (*string)(nil)}})
		if err != nil {
			// a template of the fixed menu not building is a machinery failure, not an observation
			fmt.Fprintf(os.Stderr, "driver: cannot build template of context %s (%q): %v\n", c.name, src, err)
			os.Exit(2)
		}
		c.t = t
		byName[c.name] = c
	}
}

func render(c *context, s string) (out []byte, st string) {
	defer func() {
		if r := recover(); r != nil {
			out, st = []byte(fmt.Sprint(r)), "hostpanic"
		}
	}()
	var buf bytes.Buffer
	if err := c.t.Run(&buf, map[string]any{"x": s}, nil); err != nil {
		return []byte(err.Error()), "runerr"
	}
	b := buf.Bytes()
	if len(b) < len(c.pre)+len(c.post) || !bytes.HasPrefix(b, []byte(c.pre)) || !bytes.HasSuffix(b, []byte(c.post)) {
		return b, "nodelim"
	}
	return b[len(c.pre) : len(b)-len(c.post)], "ok"
}

type seg struct {
	K string `json:"k"`
	B []int  `json:"b"`
}

const (
	progPost = `">`
	maxVars  = 8
)

// progPres is the template text in front of the attribute value, per attribute.
var progPres = map[string]string{"href": `<a href="`, "srcset": `<img srcset="`}

// progTemplates caches the built template of every program shape (its source text).
var progTemplates sync.Map

// progGlobals declares x1..x8 as string variables whose values are given to Run.
var progGlobals = func() native.Declarations {
	d := native.Declarations{}
	for i := 1; i <= maxVars; i++ {
		d[fmt.Sprintf("x%d", i)] = (*string)(nil)
	}
	return d
}()

// program renders the segments as the content of one href attribute: literal segments are template
// text, value segments are {{ x1 }}, {{ x2 }}, ... in order.
func program(id int, at string, segs []seg) map[string]any {
	if at == "" {
		at = "href"
	}
	progPre, ok := progPres[at]
	if !ok {
		fmt.Fprintf(os.Stderr, "driver: unknown attribute %q in case %d\n", at, id)
		os.Exit(2)
	}
	var src bytes.Buffer
	vars := map[string]any{}
	src.WriteString(progPre)
	for _, sg := range segs {
		switch sg.K {
		case "t":
			src.Write(drv.BytesOf(sg.B))
		case "v":
			n := len(vars) + 1
			if n > maxVars {
				fmt.Fprintf(os.Stderr, "driver: more than %d values in case %d\n", maxVars, id)
				os.Exit(2)
			}
			name := fmt.Sprintf("x%d", n)
			src.WriteString("{{ " + name + " }}")
			vars[name] = string(drv.BytesOf(sg.B))
		default:
			fmt.Fprintf(os.Stderr, "driver: unknown segment kind %q in case %d\n", sg.K, id)
			os.Exit(2)
		}
	}
	src.WriteString(progPost)
	rec := map[string]any{"id": id, "ctx": "url_prog", "s": []int{}, "at": at, "segs": segs}
	out, st := func() (out []byte, st string) {
		defer func() {
			if r := recover(); r != nil {
				out, st = []byte(fmt.Sprint(r)), "hostpanic"
			}
		}()
		var t *scriggo.Template
		if v, ok := progTemplates.Load(src.String()); ok {
			t = v.(*scriggo.Template)
		} else {
			var err error
			t, err = scriggo.BuildTemplate(scriggo.Files{"index.html": src.Bytes()}, "index.html",
				&scriggo.BuildOptions{Globals: progGlobals})
			if err != nil {
				return []byte(err.Error()), "builderr"
			}
			progTemplates.Store(src.String(), t)
		}
		var buf bytes.Buffer
		if err := t.Run(&buf, vars, nil); err != nil {
			return []byte(err.Error()), "runerr"
		}
		b := buf.Bytes()
		if len(b) < len(progPre)+len(progPost) || !bytes.HasPrefix(b, []byte(progPre)) || !bytes.HasSuffix(b, []byte(progPost)) {
			return b, "nodelim"
		}
		return b[len(progPre) : len(b)-len(progPost)], "ok"
	}()
	rec["out"], rec["st"] = drv.Ints(out), st
	return rec
}

func main() {
	drv.Main(&drv.Sub{
		Each: func(raw json.RawMessage, seed int64) []any {
			buildOnce.Do(build)
			var k struct {
				ID   int      `json:"id"`
				S    []int    `json:"s"`
				Cx   []string `json:"cx"`
				Segs []seg    `json:"segs"`
				At   string   `json:"at"`
			}
			drv.Must(json.Unmarshal(raw, &k))
			if k.Segs != nil {
				for i := range k.Segs {
					if k.Segs[i].B == nil {
						k.Segs[i].B = []int{}
					}
				}
				return []any{program(k.ID, k.At, k.Segs)}
			}
			if k.S == nil {
				k.S = []int{}
			}
			s := string(drv.BytesOf(k.S))
			var cs []*context
			if len(k.Cx) == 0 {
				cs = contexts
			} else {
				for _, n := range k.Cx {
					c, ok := byName[n]
					if !ok {
						fmt.Fprintf(os.Stderr, "driver: unknown context %q in case %d\n", n, k.ID)
						os.Exit(2)
					}
					cs = append(cs, c)
				}
			}
			recs := make([]any, 0, len(cs))
			for _, c := range cs {
				out, st := render(c, s)
				recs = append(recs, map[string]any{"id": k.ID, "ctx": c.name, "s": k.S, "out": drv.Ints(out), "st": st})
			}
			return recs
		},
		Extra: extra,
	})
}

// extra returns n seeded random strings: valid UTF-8, invalid UTF-8 and mixtures biased towards
// the characters that escapers and decoders treat specially.  Rendered in every context.
func extra(seed int64, n int) []json.RawMessage {
	r := rand.New(rand.NewSource(seed))
	special := []byte("<>&\"'\\ \t\n\r\f\x00;#%+=`/?:(){}-._~!*,@[]|^xXuU0123456789abcdefABCDEFg")
	runes := []rune{0xE9, 0x80, 0xA0, 0x3CC, 0x7FF, 0x800, 0x2028, 0x2029, 0xFFFD, 0xFEFF, 0xD7FF, 0xE000, 0xFFFF, 0x10000, 0x1F600, 0x10FFFF}
	frags := []string{"&amp;", "&lt", "&#60;", "&#x3c;", "&#0;", "\\u003c", "\\x3c", "\\3c ", "\\\n", "%3c", "%3C", "%", "%4", "%zz", "</script>", "</style>", "-->", "]]>", "\r\n", "\\0", "\xed\xa0\x80", "\xc0\xaf", "\xf4\x90\x80\x80", "\xe2\x80"}
	var out []json.RawMessage
	for i := 0; i < n; i++ {
		mode := i % 4 // 0 random bytes, 1 valid UTF-8 only, 2 specials-heavy mixture, 3 fragments mixture
		ln := r.Intn(20)
		if r.Intn(10) == 0 {
			ln = r.Intn(100)
		}
		var b []byte
		for len(b) < ln {
			switch {
			case mode == 0:
				b = append(b, byte(r.Intn(256)))
			case mode == 1:
				switch r.Intn(3) {
				case 0:
					b = append(b, special[r.Intn(len(special))])
				case 1:
					b = utf8.AppendRune(b, runes[r.Intn(len(runes))])
				default:
					var c rune
					for {
						c = rune(r.Intn(0x110000))
						if c < 0xD800 || c > 0xDFFF {
							break
						}
					}
					b = utf8.AppendRune(b, c)
				}
			case mode == 2:
				switch r.Intn(8) {
				case 0:
					b = append(b, byte(r.Intn(256)))
				case 1:
					b = utf8.AppendRune(b, runes[r.Intn(len(runes))])
				default:
					b = append(b, special[r.Intn(len(special))])
				}
			default:
				switch r.Intn(4) {
				case 0:
					b = append(b, frags[r.Intn(len(frags))]...)
				case 1:
					b = append(b, byte(r.Intn(128)))
				default:
					b = append(b, special[r.Intn(len(special))])
				}
			}
		}
		if mode == 1 && !utf8.Valid(b) {
			panic("generator: mode 1 must be valid UTF-8")
		}
		m, _ := json.Marshal(map[string]any{"id": 1000000 + i, "s": drv.Ints(b)})
		out = append(out, m)
	}
	return out
}

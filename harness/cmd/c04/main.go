// Driver c04: builds (and disassembles) every input in every role on the real scriggo, in child
// processes so that a panic in the lexer goroutine (which kills the process) is observed as an
// outcome of that input. It logs outcome codes; the TLA+ Trace_Build spec judges them. With
// -proto it also records the lexer/parser token protocol events of sampled builds (verif hooks)
// for Trace_LexProto.
package main

import (
	"bufio"
	"bytes"
	"encoding/json"
	"errors"
	"flag"
	"fmt"
	"io/fs"
	"math/rand"
	"os"
	"os/exec"
	"path/filepath"
	"regexp"
	"runtime"
	"sort"
	"strings"
	"sync"
	"time"

	"github.com/open2b/scriggo"
	"github.com/open2b/scriggo/verifbridge"
	"verifharness/drv"
)

var (
	flagIn     = drv.FlagIn
	flagOut    = drv.FlagOut
	flagSeed   = drv.FlagSeed
	flagExtra  = drv.FlagExtra // number of corpus-derived seeded inputs (truncations, mutations)
	flagWorker = flag.Bool("worker", false, "")
	flagProto  = flag.Int("proto", 0, "record the token protocol of every n-th input (0: never)")
	flagCorpus = flag.String("corpus", "/repo/test/compare/testdata", "")
	flagFrom   = flag.Int("from", 0, "")
)

type ccase struct {
	ID int   `json:"id"`
	S  []int `json:"s"`
}

type role struct {
	name  string
	files func(s []byte) (scriggo.Files, string) // files, entry name ("" for a program)
}

var roles = []role{
	{"html", func(s []byte) (scriggo.Files, string) { return scriggo.Files{"index.html": s}, "index.html" }},
	{"css", func(s []byte) (scriggo.Files, string) { return scriggo.Files{"index.css": s}, "index.css" }},
	{"js", func(s []byte) (scriggo.Files, string) { return scriggo.Files{"index.js": s}, "index.js" }},
	{"json", func(s []byte) (scriggo.Files, string) { return scriggo.Files{"index.json": s}, "index.json" }},
	{"md", func(s []byte) (scriggo.Files, string) { return scriggo.Files{"index.md": s}, "index.md" }},
	{"txt", func(s []byte) (scriggo.Files, string) { return scriggo.Files{"index.txt": s}, "index.txt" }},
	{"progbody", func(s []byte) (scriggo.Files, string) {
		return scriggo.Files{"main.go": append(append([]byte("package main\nfunc main() {\n"), s...), "\n}\n"...)}, ""
	}},
	{"prog", func(s []byte) (scriggo.Files, string) { return scriggo.Files{"main.go": s}, "" }},
	{"imported", func(s []byte) (scriggo.Files, string) {
		return scriggo.Files{"index.html": []byte(`{% import "imp.html" %}a`), "imp.html": s}, "index.html"
	}},
	{"extended", func(s []byte) (scriggo.Files, string) {
		return scriggo.Files{"index.html": []byte(`{% extends "lay.html" %}{% macro M %}a{% end %}`), "lay.html": s}, "index.html"
	}},
	{"rendered", func(s []byte) (scriggo.Files, string) {
		return scriggo.Files{"index.html": []byte(`a{{ render "par.html" }}b`), "par.html": s}, "index.html"
	}},
}

const (
	ocBuilt = iota
	ocBuildError
	ocOtherError
	ocHostPanic
	ocCrash
	ocHang
	ocLeak
	ocDisasmPanic
)

// ---------------------------------------------------------------------------------------- worker

type protoRec struct {
	mu   sync.Mutex
	on   bool
	lex  map[uintptr]*[2][][2]any
	keys []uintptr
}

var proto = &protoRec{}

func (p *protoRec) tracer(id uintptr, proc int, ev string, n int) {
	p.mu.Lock()
	defer p.mu.Unlock()
	if !p.on {
		return
	}
	t, ok := p.lex[id]
	if !ok {
		t = &[2][][2]any{}
		p.lex[id] = t
		p.keys = append(p.keys, id)
	}
	t[proc] = append(t[proc], [2]any{ev, n})
}

func buildOnce(r role, s []byte) (code int, where string) {
	files, entry := r.files(s)
	type res struct {
		code  int
		where string
	}
	ch := make(chan res, 1)
	go func() {
		defer func() {
			if v := recover(); v != nil {
				ch <- res{ocHostPanic, firstFrame(string(stack())) + "|" + msgClass(v)}
			}
		}()
		var err error
		var disasm func()
		if entry == "" {
			var p *scriggo.Program
			p, err = scriggo.Build(files, nil)
			if err == nil {
				disasm = func() { p.Disassemble("main") }
			}
		} else {
			var t *scriggo.Template
			t, err = scriggo.BuildTemplate(files, entry, nil)
			if err == nil {
				disasm = func() { t.Disassemble(-1); t.Disassemble(0); t.Disassemble(5) }
			}
		}
		if err != nil {
			var be *scriggo.BuildError
			if errors.As(err, &be) {
				ch <- res{ocBuildError, ""}
			} else {
				ch <- res{ocOtherError, ""}
			}
			return
		}
		func() {
			defer func() {
				if v := recover(); v != nil {
					ch <- res{ocDisasmPanic, firstFrame(string(stack())) + "|" + msgClass(v)}
				}
			}()
			disasm()
			ch <- res{ocBuilt, ""}
		}()
	}()
	select {
	case x := <-ch:
		return x.code, x.where
	case <-time.After(5 * time.Second):
		return ocHang, r.name
	}
}

func stack() []byte {
	b := make([]byte, 1<<16)
	return b[:runtime.Stack(b, false)]
}

var hugeLiteral = regexp.MustCompile(`[0-9]{7,}`)

// hugeConstant matches the other spellings of a huge constant used as an array length in the corpus (issue 545).
var hugeConstant = regexp.MustCompile(`\^uint(64)?\(0\)|1\s*<<\s*[3-6][0-9]`)

var frameRe = regexp.MustCompile(`github\.com/open2b/scriggo[^\s(]*\.([A-Za-z_(*)\.0-9]+)\(`)

// firstFrame returns the first scriggo function in a stack dump (the identity of a crash site).
func firstFrame(st string) string {
	lines := strings.Split(st, "\n")
	// a panic recovered and raised again by a deferred function: the origin is below the LAST
	// "panic(" frame of the dump
	start := 0
	for i, line := range lines {
		if strings.HasPrefix(line, "panic(") {
			start = i + 1
		}
	}
	for _, line := range lines[start:] {
		if strings.Contains(line, "github.com/open2b/scriggo") && !strings.Contains(line, "verifharness") && strings.Contains(line, "(") && !strings.HasPrefix(line, "\t") {
			i := strings.LastIndex(line, "(")
			f := line[:i]
			f = strings.TrimPrefix(f, "github.com/open2b/scriggo/")
			return f
		}
	}
	return "unknown"
}

func worker() {
	cases, err := drv.ReadLines(*flagIn)
	drv.Must(err)
	out, err := os.OpenFile(*flagOut, os.O_CREATE|os.O_WRONLY|os.O_APPEND, 0o644)
	drv.Must(err)
	pout, err := os.OpenFile(*flagOut+".proto", os.O_CREATE|os.O_WRONLY|os.O_APPEND, 0o644)
	drv.Must(err)
	verifbridge.SetLexTracer(proto.tracer)
	// warm up so that the goroutine baseline is stable
	buildOnce(roles[0], []byte("a"))
	time.Sleep(5 * time.Millisecond)
	for i := *flagFrom; i < len(cases); i++ {
		var c ccase
		drv.Must(json.Unmarshal(cases[i], &c))
		s := drv.BytesOf(c.S)
		oc := make([]int, len(roles))
		where := ""
		traceIt := *flagProto > 0 && c.ID%*flagProto == 0
		var protoOut []any
		for ri, r := range roles {
			base := runtime.NumGoroutine()
			if traceIt {
				proto.mu.Lock()
				proto.on, proto.lex, proto.keys = true, map[uintptr]*[2][][2]any{}, nil
				proto.mu.Unlock()
			}
			// announce what is being built, so that the parent can attribute a process crash
			fmt.Fprintf(os.Stderr, "@@ %d %d\n", i, ri)
			code, w := buildOnce(r, s)
			if code == ocHang {
				oc[ri], where = code, w
				if hugeLiteral.Match(s) {
					// identity of the known resource-exhaustion finding (huge array types); any other hang is a different finding
					where += "|source has a 7+ digit literal"
				} else if hugeConstant.Match(s) {
					where += "|source has a ^uint(0) or 1<<NN constant"
				}
				writeObs(out, c, oc[:ri+1], where)
				os.Exit(3)
			}
			if code <= ocOtherError || code == ocDisasmPanic || code == ocHostPanic {
				// every goroutine started by the build must be gone
				leaked := true
				for k := 0; k < 200; k++ {
					if runtime.NumGoroutine() <= base {
						leaked = false
						break
					}
					runtime.Gosched()
					if k > 20 {
						time.Sleep(500 * time.Microsecond)
					}
				}
				if leaked && code <= ocOtherError {
					code, w = ocLeak, r.name
				}
			}
			if traceIt {
				proto.mu.Lock()
				proto.on = false
				for k, id := range proto.keys {
					t := proto.lex[id]
					L, P := t[0], t[1]
					if L == nil {
						L = [][2]any{}
					}
					if P == nil {
						P = [][2]any{}
					}
					protoOut = append(protoOut, map[string]any{"id": c.ID*1000 + ri*10 + k, "case": c.ID, "role": r.name, "L": L, "P": P})
				}
				proto.mu.Unlock()
			}
			oc[ri] = code
			if w != "" && where == "" {
				where = w
			}
		}
		writeObs(out, c, oc, where)
		for _, p := range protoOut {
			b, _ := json.Marshal(p)
			pout.Write(append(b, '\n'))
		}
	}
}

var digitsRe = regexp.MustCompile(`[0-9]+`)

// msgClass is the panic message with numbers abstracted (part of the identity of a finding).
func msgClass(v any) string {
	s := fmt.Sprint(v)
	if e, ok := v.(error); ok {
		s = e.Error()
	}
	if i := strings.IndexByte(s, '\n'); i >= 0 {
		s = s[:i]
	}
	s = digitsRe.ReplaceAllString(s, "N")
	if len(s) > 80 {
		s = s[:80]
	}
	return s
}

func writeObs(out *os.File, c ccase, oc []int, where string) {
	msg := ""
	if i := strings.IndexByte(where, '|'); i >= 0 {
		where, msg = where[:i], where[i+1:]
	}
	b, _ := json.Marshal(map[string]any{"id": c.ID, "s": c.S, "oc": oc, "where": where, "msg": msg})
	out.Write(append(b, '\n'))
}

// ---------------------------------------------------------------------------------------- parent

func main() {
	flag.Parse()
	if *flagWorker {
		worker()
		return
	}
	cases, err := drv.ReadLines(*flagIn)
	drv.Must(err)
	cases = append(cases, corpusCases(*flagSeed, *flagExtra)...)
	dir := filepath.Dir(*flagOut)
	nw := runtime.NumCPU()
	chunk := (len(cases) + nw*4 - 1) / (nw * 4)
	if chunk < 1 {
		chunk = 1
	}
	type job struct{ k, lo, hi int }
	var jobs []job
	for k, lo := 0, 0; lo < len(cases); k, lo = k+1, lo+chunk {
		hi := lo + chunk
		if hi > len(cases) {
			hi = len(cases)
		}
		jobs = append(jobs, job{k, lo, hi})
	}
	self, _ := os.Executable()
	var wg sync.WaitGroup
	jc := make(chan job)
	failed := make(chan error, len(jobs))
	for w := 0; w < nw; w++ {
		wg.Add(1)
		go func() {
			defer wg.Done()
			for j := range jc {
				in := filepath.Join(dir, fmt.Sprintf("c04_chunk_%d.in", j.k))
				out := filepath.Join(dir, fmt.Sprintf("c04_chunk_%d.out", j.k))
				os.Remove(out)
				os.Remove(out + ".proto")
				f, _ := os.Create(in)
				bw := bufio.NewWriter(f)
				for _, c := range cases[j.lo:j.hi] {
					bw.Write(c)
					bw.WriteByte('\n')
				}
				bw.Flush()
				f.Close()
				from, crashes := 0, 0
				for from < j.hi-j.lo {
					cmd := exec.Command(self, "-worker", "-in", in, "-out", out, "-proto", fmt.Sprint(*flagProto), "-from", fmt.Sprint(from))
					var stderr bytes.Buffer
					cmd.Stderr = &stderr
					err := cmd.Run()
					if err == nil {
						break
					}
					// the child died: which case was it working on?
					done := countLines(out)
					es := stderr.String()
					ci, ri := -1, -1
					if k := strings.LastIndex(es, "@@ "); k >= 0 {
						fmt.Sscanf(es[k:], "@@ %d %d", &ci, &ri)
					}
					if ee, ok := err.(*exec.ExitError); ok && ee.ExitCode() == 3 {
						from = done // hang: the child logged it itself
						continue
					}
					if ci < 0 || ci != done {
						failed <- fmt.Errorf("worker died outside a case (chunk %d, done %d, announced %d): %s", j.k, done, ci, tailStr(es, 600))
						break
					}
					var c ccase
					json.Unmarshal(cases[j.lo+ci], &c)
					oc := make([]int, ri+1)
					oc[ri] = ocCrash
					fo, _ := os.OpenFile(out, os.O_WRONLY|os.O_APPEND, 0o644)
					writeObs(fo, c, oc, crashSite(es)+"|"+crashMsg(es))
					fo.Close()
					from = ci + 1
					crashes++
					if crashes > 200 {
						failed <- fmt.Errorf("more than 200 process crashes in one chunk; last: %s", tailStr(es, 400))
						break
					}
				}
			}
		}()
	}
	for _, j := range jobs {
		jc <- j
	}
	close(jc)
	wg.Wait()
	select {
	case e := <-failed:
		fmt.Fprintln(os.Stderr, "c04:", e)
		os.Exit(2)
	default:
	}
	// concatenate
	o, _ := os.Create(*flagOut)
	po, _ := os.Create(*flagOut + ".proto")
	for _, j := range jobs {
		out := filepath.Join(dir, fmt.Sprintf("c04_chunk_%d.out", j.k))
		b, _ := os.ReadFile(out)
		o.Write(b)
		b, _ = os.ReadFile(out + ".proto")
		po.Write(b)
		os.Remove(out)
		os.Remove(out + ".proto")
		os.Remove(filepath.Join(dir, fmt.Sprintf("c04_chunk_%d.in", j.k)))
	}
	o.Close()
	po.Close()
}

func crashSite(stderr string) string {
	// "panic: ..." followed by "goroutine N [running]:" and frames
	i := strings.Index(stderr, "\npanic: ")
	if i < 0 {
		i = strings.Index(stderr, "panic: ")
	}
	if i < 0 {
		i = strings.Index(stderr, "fatal error: ")
	}
	if i < 0 {
		return "unknown"
	}
	return firstFrame(stderr[i:])
}

func crashMsg(stderr string) string {
	i := strings.Index(stderr, "panic: ")
	if i < 0 {
		return ""
	}
	return msgClass(strings.TrimPrefix(stderr[i:], "panic: "))
}

func tailStr(s string, n int) string {
	if len(s) > n {
		return s[len(s)-n:]
	}
	return s
}

func countLines(p string) int {
	b, err := os.ReadFile(p)
	if err != nil {
		return 0
	}
	return bytes.Count(b, []byte("\n"))
}

// corpusCases derives seeded inputs from the repository's comparison corpus: truncations at
// random byte offsets and fragment-level mutations (the exhaustive short-string space comes
// from TLC; these extend it toward realistic sources).
func corpusCases(seed int64, n int) []json.RawMessage {
	if n <= 0 {
		return nil
	}
	var files []string
	filepath.WalkDir(*flagCorpus, func(p string, d fs.DirEntry, err error) error {
		if err == nil && !d.IsDir() {
			switch filepath.Ext(p) {
			case ".go", ".html", ".txt", ".md", ".js", ".css", ".json", ".script":
				if st, e := d.Info(); e == nil && st.Size() < 6000 {
					files = append(files, p)
				}
			}
		}
		return nil
	})
	sort.Strings(files)
	if len(files) == 0 {
		return nil
	}
	r := rand.New(rand.NewSource(seed))
	frags := []string{"{{", "}}", "{%", "%}", "{#", "#}", "{%%", "%%}", "\"", "'", "`", "/*", "*/", "//", "<", ">", "\n", "\\", "(", ")", "{", "}", "[", "]", "0x", "1e", ".", "..", "...", "\x00", "\xff", "\xef\xbb\xbf", "raw", "end", "macro", "if", "for", "func", "switch", "select", "case", "import", "extends", "render", "var", ":=", "<-", "chan"}
	var out []json.RawMessage
	for i := 0; i < n; i++ {
		b, err := os.ReadFile(files[r.Intn(len(files))])
		if err != nil || len(b) == 0 {
			continue
		}
		switch r.Intn(4) {
		case 0: // truncation
			b = b[:r.Intn(len(b)+1)]
		case 1: // delete a span
			a := r.Intn(len(b))
			z := a + r.Intn(20)
			if z > len(b) {
				z = len(b)
			}
			b = append(append([]byte{}, b[:a]...), b[z:]...)
		case 2: // insert a fragment
			a := r.Intn(len(b) + 1)
			f := frags[r.Intn(len(frags))]
			b = append(append(append([]byte{}, b[:a]...), f...), b[a:]...)
		case 3: // truncate and append a fragment
			a := r.Intn(len(b) + 1)
			b = append(append([]byte{}, b[:a]...), frags[r.Intn(len(frags))]...)
		}
		m, _ := json.Marshal(map[string]any{"id": 10000000 + i, "s": drv.Ints(b)})
		out = append(out, m)
	}
	return out
}

package main

import (
	"verifharness/drv"

	"bytes"
	"encoding/json"
	"errors"
	"fmt"
	"io"
	"io/fs"
	"strings"

	"github.com/open2b/scriggo"
)

// C16: render / import / extends compose like their documented expansions.
//
// A case carries, besides fields that are only echoed (they are the judge's business), a list of
// VARIANTS.  Each variant is a complete template file set written out by the TLA+ specification
// (Compose.tla: Syntax / expansions) as source fragments, and the name of the file to build.
// The driver concatenates the fragments, builds the named file, runs it, and logs for every
// variant the outcome class and the rendered bytes.  It computes no expected value and compares
// nothing.
//
//	case {id, ..., variants:[{name, main, files:[{path, src:[fragment...]}]}]}
//	obs  = case + variants[i].{outcome, out, err}
//	outcome: ok | builderr | notexist | runerr | hostpanic-build | hostpanic-run
//
// The Markdown converter handed to BuildTemplate is a fixture that brackets the Markdown source
// (it makes "converted to HTML" visible without a CommonMark implementation).
type c16File struct {
	Path string   `json:"path"`
	Src  []string `json:"src"`
}

type c16Variant struct {
	Name    string    `json:"name"`
	Main    string    `json:"main"`
	Files   []c16File `json:"files"`
	Outcome string    `json:"outcome"`
	Out     []int     `json:"out"`
	Err     string    `json:"err"`
}

func conv(src []byte, out io.Writer) error {
	_, err := out.Write([]byte("[md:"))
	if err == nil {
		_, err = out.Write(src)
	}
	if err == nil {
		_, err = out.Write([]byte(":md]"))
	}
	return err
}

func runVariant(v *c16Variant) {
	v.Out = []int{}
	stage := "build"
	defer func() {
		if r := recover(); r != nil {
			v.Outcome = "hostpanic-" + stage
			v.Err = fmt.Sprint(r)
		}
	}()
	files := scriggo.Files{}
	for _, f := range v.Files {
		files[f.Path] = []byte(strings.Join(f.Src, ""))
	}
	t, err := scriggo.BuildTemplate(files, v.Main, &scriggo.BuildOptions{MarkdownConverter: conv})
	if err != nil {
		var be *scriggo.BuildError
		switch {
		case errors.As(err, &be):
			v.Outcome = "builderr"
		case errors.Is(err, fs.ErrNotExist):
			v.Outcome = "notexist"
		default:
			v.Outcome = "builderr-other"
		}
		v.Err = err.Error()
		return
	}
	stage = "run"
	var buf bytes.Buffer
	if err := t.Run(&buf, nil, nil); err != nil {
		v.Outcome = "runerr"
		v.Err = err.Error()
		v.Out = drv.Ints(buf.Bytes())
		return
	}
	v.Outcome = "ok"
	v.Out = drv.Ints(buf.Bytes())
}

func main() {
	drv.Main(&drv.Sub{
		Each: func(c json.RawMessage, seed int64) []any {
			var rec map[string]json.RawMessage
			drv.Must(json.Unmarshal(c, &rec))
			var vs []c16Variant
			drv.Must(json.Unmarshal(rec["variants"], &vs))
			for i := range vs {
				runVariant(&vs[i])
			}
			out := map[string]any{}
			for k, v := range rec {
				out[k] = v
			}
			out["variants"] = vs
			return []any{out}
		},
	})
}

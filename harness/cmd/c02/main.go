package main

import (
	"verifharness/drv"

	"encoding/json"
	"errors"
	"fmt"
	"go/ast"
	"go/constant"
	"go/parser"
	"go/token"
	"go/types"
	"os"
	"strings"

	"github.com/open2b/scriggo"
)

// C02: compile-time constant arithmetic.
//
// A case is exported by TLC (MC_Const): the expression as a structured record, its Go source text
// `src`, the reference literal `reflit` (the value computed by the TLA+ reference, as Go literal
// text), `vt` (integer type through which the value is additionally printed, "" = none) and `dt`
// (1 = observe the dynamic type of `var i interface{} = c`). The driver only splices these texts
// into program templates, builds/runs them with the real scriggo and logs what happened:
//
//	P0:  package main; const c = <src>; func main() {}          -> builds / build error text
//	P1:  the same plus println(c == <reflit>), var v <vt> = c; println(v), type switch on c
//
// It judges nothing. Printed decimals are re-chunked (digit string -> base 10^4 limbs, no
// arithmetic) into the BigInt JSON form {"s","l"} used by the specification.
//
// -mode oracle: the oracle guard (go/types + go/constant on the same P0/P1 source). It is run by
// checks/c02.py only on records that the Trace specification has already rejected, and while
// developing the specification; never on the passing path.

type c02Case struct {
	ID     int             `json:"id"`
	Expr   json.RawMessage `json:"expr"`
	Src    []int           `json:"src"`
	RefLit []int           `json:"reflit"`
	VT     string          `json:"vt"`
	DT     int             `json:"dt"`
	// Kids are the non-leaf operands of a depth-2 expression, observed as constants of their own.
	Kids []c02Case `json:"kids"`
}

type bigJSON struct {
	S int   `json:"s"`
	L []int `json:"l"`
}

// chunk re-chunks a printed decimal ("-123456") into sign + little-endian base-10^4 limbs.
func chunk(dec string) (bigJSON, bool) {
	s := 1
	if strings.HasPrefix(dec, "-") {
		s = -1
		dec = dec[1:]
	}
	if dec == "" {
		return bigJSON{L: []int{}}, false
	}
	for _, c := range dec {
		if c < '0' || c > '9' {
			return bigJSON{L: []int{}}, false
		}
	}
	dec = strings.TrimLeft(dec, "0")
	if dec == "" {
		return bigJSON{S: 0, L: []int{}}, true
	}
	l := []int{}
	for len(dec) > 0 {
		k := len(dec) - 4
		if k < 0 {
			k = 0
		}
		d := 0
		for _, c := range dec[k:] {
			d = d*10 + int(c-'0')
		}
		l = append(l, d)
		dec = dec[:k]
	}
	return bigJSON{S: s, L: l}, true
}

var dtTypes = []string{"bool", "string", "int", "int8", "int16", "int32", "int64", "uint", "uint8", "uint16", "uint32",
	"uint64", "uintptr", "float32", "float64", "complex64", "complex128"}

func programs(k *c02Case) (p0, p1 string) {
	src := string(drv.BytesOf(k.Src))
	p0 = "package main\n\nconst c = " + src + "\n\nfunc main() {}\n"
	var b strings.Builder
	b.WriteString("package main\n\nconst c = " + src + "\n\nfunc main() {\n")
	if len(k.RefLit) > 0 {
		b.WriteString("\tprintln(\"eq\", c == " + string(drv.BytesOf(k.RefLit)) + ")\n")
	}
	if k.VT != "" {
		b.WriteString("\tvar v " + k.VT + " = c\n\tprintln(\"v\", v)\n")
	}
	if k.DT == 1 {
		b.WriteString("\tvar i interface{} = c\n\tswitch i.(type) {\n")
		for _, t := range dtTypes {
			b.WriteString("\tcase " + t + ":\n\t\tprintln(\"dt\", \"" + t + "\")\n")
		}
		b.WriteString("\tdefault:\n\t\tprintln(\"dt\", \"other\")\n\t}\n")
	}
	b.WriteString("}\n")
	return p0, b.String()
}

// build builds src with the real scriggo; class is "ok", "builderr" (a *scriggo.BuildError), "err" or "hostpanic".
func build(src string) (p *scriggo.Program, class string, msg string) {
	defer func() {
		if r := recover(); r != nil {
			p, class, msg = nil, "hostpanic", fmt.Sprint(r)
		}
	}()
	p, err := scriggo.Build(scriggo.Files{"main.go": []byte(src)}, nil)
	if err != nil {
		var be *scriggo.BuildError
		if errors.As(err, &be) {
			return nil, "builderr", be.Message()
		}
		return nil, "err", err.Error()
	}
	return p, "ok", ""
}

func run(p *scriggo.Program) (lines [][]string, class string, msg string) {
	defer func() {
		if r := recover(); r != nil {
			class, msg = "hostpanic", fmt.Sprint(r)
		}
	}()
	var cur []string
	err := p.Run(&scriggo.RunOptions{Print: func(v any) {
		s := fmt.Sprint(v)
		for {
			i := strings.IndexByte(s, '\n')
			if i < 0 {
				break
			}
			cur = append(cur, s[:i])
			lines = append(lines, strings.Fields(strings.Join(cur, "")))
			cur = nil
			s = s[i+1:]
		}
		if s != "" {
			cur = append(cur, s)
		}
	}})
	if err != nil {
		return lines, "runerr", err.Error()
	}
	return lines, "ok", ""
}

func observe(k *c02Case, oracle bool) map[string]any {
	kids := []any{}
	for i := range k.Kids {
		kids = append(kids, observe(&k.Kids[i], oracle))
	}
	o := map[string]any{"id": k.ID, "expr": k.Expr, "src": k.Src, "reflit": k.RefLit, "vt": k.VT, "dt": k.DT,
		"builds": "", "msg": []int{}, "chk": "none", "chkmsg": []int{}, "eq": "", "hasv": 0,
		"v": bigJSON{L: []int{}}, "dtobs": "", "kids": kids}
	p0, p1 := programs(k)
	var lines [][]string
	if oracle {
		cls, msg := oracleCheck(p0)
		o["builds"], o["msg"] = cls, drv.IntsS(msg)
		if cls != "ok" {
			return o
		}
		if len(k.RefLit) == 0 && k.VT == "" && k.DT != 1 {
			return o
		}
		var cls1, msg1 string
		lines, cls1, msg1 = oracleRun(p1, k)
		o["chk"], o["chkmsg"] = cls1, drv.IntsS(msg1)
	} else {
		_, cls, msg := build(p0)
		o["builds"], o["msg"] = cls, drv.IntsS(msg)
		if cls != "ok" {
			return o
		}
		if len(k.RefLit) == 0 && k.VT == "" && k.DT != 1 {
			return o
		}
		p, cls1, msg1 := build(p1)
		if cls1 != "ok" {
			o["chk"], o["chkmsg"] = "chk-"+cls1, drv.IntsS(msg1)
			return o
		}
		var cls2, msg2 string
		lines, cls2, msg2 = run(p)
		if cls2 != "ok" {
			o["chk"], o["chkmsg"] = "chk-"+cls2, drv.IntsS(msg2)
			return o
		}
		o["chk"] = "ran"
	}
	for _, f := range lines {
		if len(f) != 2 {
			continue
		}
		switch f[0] {
		case "eq":
			o["eq"] = f[1]
		case "v":
			if b, ok := chunk(f[1]); ok {
				o["hasv"], o["v"] = 1, b
			} else {
				o["hasv"], o["chkmsg"] = 2, drv.IntsS(f[1])
			}
		case "dt":
			o["dtobs"] = f[1]
		}
	}
	return o
}

// ---------------------------------------------------------------------------------------------
// oracle guard: go/types + go/constant on the same source (violation path / spec development only)

func oracleTypes(src string) (*types.Package, *types.Info, *ast.File, error) {
	fset := token.NewFileSet()
	f, err := parser.ParseFile(fset, "main.go", src, 0)
	if err != nil {
		return nil, nil, nil, err
	}
	info := &types.Info{Types: map[ast.Expr]types.TypeAndValue{}, Defs: map[*ast.Ident]types.Object{}}
	var first error
	conf := types.Config{Error: func(e error) {
		if first == nil {
			first = e
		}
	}}
	pkg, _ := conf.Check("main", fset, []*ast.File{f}, info)
	return pkg, info, f, first
}

func oracleCheck(p0 string) (class, msg string) {
	_, _, _, err := oracleTypes(p0)
	if err != nil {
		return "builderr", err.Error()
	}
	return "ok", ""
}

// oracleRun type-checks P1 and reads the constant values go/types computed for `c == reflit`, for c
// (when an integer is to be printed) and c's default type.
func oracleRun(p1 string, k *c02Case) (lines [][]string, class, msg string) {
	pkg, info, f, err := oracleTypes(p1)
	if err != nil {
		return nil, "chk-builderr", err.Error()
	}
	c := pkg.Scope().Lookup("c").(*types.Const)
	ast.Inspect(f, func(n ast.Node) bool {
		if be, ok := n.(*ast.BinaryExpr); ok && be.Op == token.EQL {
			if id, ok := be.X.(*ast.Ident); ok && id.Name == "c" {
				if tv, ok := info.Types[be]; ok && tv.Value != nil {
					lines = append(lines, []string{"eq", tv.Value.String()})
				}
			}
		}
		return true
	})
	if k.VT != "" {
		if v := constant.ToInt(c.Val()); v.Kind() == constant.Int {
			lines = append(lines, []string{"v", v.ExactString()})
		}
	}
	if k.DT == 1 {
		if b, ok := types.Default(c.Type()).Underlying().(*types.Basic); ok {
			lines = append(lines, []string{"dt", types.Typ[b.Kind()].Name()})
		}
	}
	return lines, "ran", ""
}

func main() {
	oracle := false
	for i, a := range os.Args {
		if a == "-oracle" {
			oracle = true
			os.Args = append(os.Args[:i], os.Args[i+1:]...)
			break
		}
	}
	drv.Main(&drv.Sub{
		Each: func(raw json.RawMessage, seed int64) (out []any) {
			var k c02Case
			drv.Must(json.Unmarshal(raw, &k))
			defer func() {
				if r := recover(); r != nil {
					out = []any{map[string]any{"id": k.ID, "expr": k.Expr, "src": k.Src, "reflit": k.RefLit, "vt": k.VT,
						"dt": k.DT, "builds": "hostpanic", "msg": drv.IntsS(fmt.Sprint(r)), "chk": "none", "chkmsg": []int{},
						"eq": "", "hasv": 0, "v": bigJSON{L: []int{}}, "dtobs": "", "kids": []any{}}}
				}
			}()
			return []any{observe(&k, oracle)}
		},
	})
}

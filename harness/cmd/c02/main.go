package main

import (
	"verifharness/drv"

	"encoding/json"
	"errors"
	"fmt"
	"go/ast"
	"go/constant"
	"go/parser"
	"go/token"
	"go/types"
	"os"
	"strings"

	"github.com/open2b/scriggo"
)

// C02: compile-time constant arithmetic.
//
// A case is exported by TLC (MC_Const): the expression as a structured record, its Go source text
// `src`, the reference literal `reflit` (the value computed by the TLA+ reference, as Go literal
// text), `vt` (integer type through which the value is additionally printed, "" = none) and `dt`
// (1 = observe the dynamic type of `var i interface{} = c`). The driver only splices these texts
// into program templates, builds/runs them with the real scriggo and logs what happened:
//
//	P0:  package main; const c = <src>; func main() {}          -> builds / build error text
//	P1:  the same plus println(c == <reflit>), var v <vt> = c; println(v), type switch on c
//
// A program case (`decls`) is a history of named constant declarations k1, k2, ... whose expressions name the
// earlier ones; P0 is built for every prefix, P1 observes all constants of the longest prefix that builds (when P1
// itself cannot be built or run, that is logged on the prefix's last declaration and the shorter prefix is observed).
//
// It judges nothing. Printed decimals are re-chunked (digit string -> base 10^4 limbs, no
// arithmetic) into the BigInt JSON form {"s","l"} used by the specification.
//
// -mode oracle: the oracle guard (go/types + go/constant on the same P0/P1 source). It is run by
// checks/c02.py only on records that the Trace specification has already rejected, and while
// developing the specification; never on the passing path.

type c02Case struct {
	ID     int             `json:"id"`
	Expr   json.RawMessage `json:"expr"`
	Src    []int           `json:"src"`
	RefLit []int           `json:"reflit"`
	VT     string          `json:"vt"`
	DT     int             `json:"dt"`
	// Kids are the non-leaf operands of a depth-2 expression, observed as constants of their own.
	Kids []c02Case `json:"kids"`
	// A program case (a history of constant declarations) has Decls instead of Expr/Src/...: declaration i is
	// `const <Name> = <Src>`, placed at package level (Scope "pkg") or inside func main (Scope "func").
	Name  []int     `json:"name"`
	Scope string    `json:"scope"`
	Decls []c02Case `json:"decls"`
}

type bigJSON struct {
	S int   `json:"s"`
	L []int `json:"l"`
}

// chunk re-chunks a printed decimal ("-123456") into sign + little-endian base-10^4 limbs.
func chunk(dec string) (bigJSON, bool) {
	s := 1
	if strings.HasPrefix(dec, "-") {
		s = -1
		dec = dec[1:]
	}
	if dec == "" {
		return bigJSON{L: []int{}}, false
	}
	for _, c := range dec {
		if c < '0' || c > '9' {
			return bigJSON{L: []int{}}, false
		}
	}
	dec = strings.TrimLeft(dec, "0")
	if dec == "" {
		return bigJSON{S: 0, L: []int{}}, true
	}
	l := []int{}
	for len(dec) > 0 {
		k := len(dec) - 4
		if k < 0 {
			k = 0
		}
		d := 0
		for _, c := range dec[k:] {
			d = d*10 + int(c-'0')
		}
		l = append(l, d)
		dec = dec[:k]
	}
	return bigJSON{S: s, L: l}, true
}

var dtTypes = []string{"bool", "string", "int", "int8", "int16", "int32", "int64", "uint", "uint8", "uint16", "uint32",
	"uint64", "uintptr", "float32", "float64", "complex64", "complex128"}

// decl is one constant declaration of a program text.
type decl struct {
	name string
	k    *c02Case
}

// layout writes a program: the declarations (at package level or inside main) and, when checks is set, the
// observing statements for every declaration, after all declarations.
func layout(ds []decl, scope string, checks bool) string {
	var b strings.Builder
	b.WriteString("package main\n\n")
	ind := ""
	if scope == "func" {
		b.WriteString("func main() {\n")
		ind = "\t"
	}
	for _, d := range ds {
		b.WriteString(ind + "const " + d.name + " = " + string(drv.BytesOf(d.k.Src)) + "\n")
	}
	if scope != "func" {
		b.WriteString("\nfunc main() {\n")
	}
	if checks {
		for _, d := range ds {
			n, q := d.name, "\""+d.name+"\""
			if len(d.k.RefLit) > 0 {
				b.WriteString("\tprintln(\"eq\", " + q + ", " + n + " == " + string(drv.BytesOf(d.k.RefLit)) + ")\n")
			}
			if d.k.VT != "" {
				b.WriteString("\tvar v_" + n + " " + d.k.VT + " = " + n + "\n\tprintln(\"v\", " + q + ", v_" + n + ")\n")
			}
			if d.k.DT == 1 {
				b.WriteString("\tvar i_" + n + " interface{} = " + n + "\n\tswitch i_" + n + ".(type) {\n")
				for _, t := range dtTypes {
					b.WriteString("\tcase " + t + ":\n\t\tprintln(\"dt\", " + q + ", \"" + t + "\")\n")
				}
				b.WriteString("\tdefault:\n\t\tprintln(\"dt\", " + q + ", \"other\")\n\t}\n")
			}
		}
	}
	b.WriteString("}\n")
	return b.String()
}

func needsChecks(ds []decl) bool {
	for _, d := range ds {
		if len(d.k.RefLit) > 0 || d.k.VT != "" || d.k.DT == 1 {
			return true
		}
	}
	return false
}

// build builds src with the real scriggo; class is "ok", "builderr" (a *scriggo.BuildError), "err" or "hostpanic".
func build(src string) (p *scriggo.Program, class string, msg string) {
	defer func() {
		if r := recover(); r != nil {
			p, class, msg = nil, "hostpanic", fmt.Sprint(r)
		}
	}()
	p, err := scriggo.Build(scriggo.Files{"main.go": []byte(src)}, nil)
	if err != nil {
		var be *scriggo.BuildError
		if errors.As(err, &be) {
			return nil, "builderr", be.Message()
		}
		return nil, "err", err.Error()
	}
	return p, "ok", ""
}

func run(p *scriggo.Program) (lines [][]string, class string, msg string) {
	defer func() {
		if r := recover(); r != nil {
			class, msg = "hostpanic", fmt.Sprint(r)
		}
	}()
	var cur []string
	err := p.Run(&scriggo.RunOptions{Print: func(v any) {
		s := fmt.Sprint(v)
		for {
			i := strings.IndexByte(s, '\n')
			if i < 0 {
				break
			}
			cur = append(cur, s[:i])
			lines = append(lines, strings.Fields(strings.Join(cur, "")))
			cur = nil
			s = s[i+1:]
		}
		if s != "" {
			cur = append(cur, s)
		}
	}})
	if err != nil {
		return lines, "runerr", err.Error()
	}
	return lines, "ok", ""
}

func blank(k *c02Case) map[string]any {
	return map[string]any{"id": k.ID, "expr": k.Expr, "src": k.Src, "reflit": k.RefLit, "vt": k.VT, "dt": k.DT,
		"builds": "", "msg": []int{}, "chk": "none", "chkmsg": []int{}, "eq": "", "hasv": 0,
		"v": bigJSON{L: []int{}}, "dtobs": "", "kids": []any{}}
}

// buildP0 builds (or, for the oracle guard, type-checks) a program without observing statements.
func buildP0(src string, oracle bool) (class, msg string) {
	if oracle {
		return oracleCheck(src)
	}
	_, class, msg = build(src)
	return class, msg
}

// runP1 builds and runs (oracle guard: type-checks and reads the constant values of) the observing program and
// stores what it printed in the observation records of the declarations. If the observing program cannot be
// built or run, the failure is logged on the last declaration only and false is returned.
func runP1(ds []decl, scope string, oracle bool, recs []map[string]any) bool {
	all := recs
	set := func(k string, v any) {
		for _, o := range recs {
			o[k] = v
		}
	}
	recs = recs[len(recs)-1:]
	p1 := layout(ds, scope, true)
	var lines [][]string
	if oracle {
		var cls, msg string
		lines, cls, msg = oracleRun(p1, ds)
		if cls != "ran" {
			set("chk", cls)
			set("chkmsg", drv.IntsS(msg))
			return false
		}
		recs = all
		set("chk", cls)
	} else {
		p, cls1, msg1 := build(p1)
		if cls1 != "ok" {
			set("chk", "chk-"+cls1)
			set("chkmsg", drv.IntsS(msg1))
			return false
		}
		var cls2, msg2 string
		lines, cls2, msg2 = run(p)
		if cls2 != "ok" {
			set("chk", "chk-"+cls2)
			set("chkmsg", drv.IntsS(msg2))
			return false
		}
		recs = all
		set("chk", "ran")
	}
	for _, f := range lines {
		if len(f) != 3 {
			continue
		}
		var o map[string]any
		for i, d := range ds {
			if d.name == f[1] {
				o = all[i]
			}
		}
		if o == nil {
			continue
		}
		switch f[0] {
		case "eq":
			o["eq"] = f[2]
		case "v":
			if b, ok := chunk(f[2]); ok {
				o["hasv"], o["v"] = 1, b
			} else {
				o["hasv"], o["chkmsg"] = 2, drv.IntsS(f[2])
			}
		case "dt":
			o["dtobs"] = f[2]
		}
	}
	return true
}

func observe(k *c02Case, oracle bool) map[string]any {
	if len(k.Decls) > 0 {
		return observeProg(k, oracle)
	}
	kids := []any{}
	for i := range k.Kids {
		kids = append(kids, observe(&k.Kids[i], oracle))
	}
	o := blank(k)
	o["kids"] = kids
	ds := []decl{{"c", k}}
	cls, msg := buildP0(layout(ds, "pkg", false), oracle)
	o["builds"], o["msg"] = cls, drv.IntsS(msg)
	if cls != "ok" || !needsChecks(ds) {
		return o
	}
	runP1(ds, "pkg", oracle, []map[string]any{o})
	return o
}

// observeProg observes a history of constant declarations: the build outcome of every prefix 1..i (so that the
// first rejected declaration is known), and the values of all constants of the longest prefix that builds, read
// by one observing program after all of its declarations.
func observeProg(k *c02Case, oracle bool) map[string]any {
	ds := make([]decl, len(k.Decls))
	recs := make([]map[string]any, len(k.Decls))
	for i := range k.Decls {
		d := &k.Decls[i]
		ds[i] = decl{string(drv.BytesOf(d.Name)), d}
		recs[i] = blank(d)
		delete(recs[i], "id")
		recs[i]["name"] = d.Name
	}
	nobs := 0
	for i := range ds {
		cls, msg := buildP0(layout(ds[:i+1], k.Scope, false), oracle)
		recs[i]["builds"], recs[i]["msg"] = cls, drv.IntsS(msg)
		if cls != "ok" {
			break
		}
		nobs = i + 1
	}
	// the observing program over the longest prefix that builds; when it cannot be built or run, the failure is
	// logged on the last declaration of that prefix and the constants before it are observed without it
	for m := nobs; m > 0 && needsChecks(ds[:m]); m-- {
		if runP1(ds[:m], k.Scope, oracle, recs[:m]) {
			break
		}
	}
	return map[string]any{"id": k.ID, "scope": k.Scope, "nobs": nobs, "decls": recs}
}

// ---------------------------------------------------------------------------------------------
// oracle guard: go/types + go/constant on the same source (violation path / spec development only)

func oracleTypes(src string) (*types.Package, *types.Info, *ast.File, error) {
	fset := token.NewFileSet()
	f, err := parser.ParseFile(fset, "main.go", src, 0)
	if err != nil {
		return nil, nil, nil, err
	}
	info := &types.Info{Types: map[ast.Expr]types.TypeAndValue{}, Defs: map[*ast.Ident]types.Object{}}
	var first error
	conf := types.Config{Error: func(e error) {
		if first == nil {
			first = e
		}
	}}
	pkg, _ := conf.Check("main", fset, []*ast.File{f}, info)
	return pkg, info, f, first
}

func oracleCheck(p0 string) (class, msg string) {
	_, _, _, err := oracleTypes(p0)
	if err != nil {
		return "builderr", err.Error()
	}
	return "ok", ""
}

// oracleRun type-checks P1 and reads the constant values go/types computed for the arguments of the
// println("eq", "<name>", <name> == reflit) statements, for the named constants (when an integer is to be printed)
// and their default types.
func oracleRun(p1 string, ds []decl) (lines [][]string, class, msg string) {
	_, info, f, err := oracleTypes(p1)
	if err != nil {
		return nil, "chk-builderr", err.Error()
	}
	consts := map[string]*types.Const{}
	for id, obj := range info.Defs {
		if c, ok := obj.(*types.Const); ok {
			consts[id.Name] = c
		}
	}
	ast.Inspect(f, func(n ast.Node) bool {
		call, ok := n.(*ast.CallExpr)
		if !ok || len(call.Args) != 3 {
			return true
		}
		if fn, ok := call.Fun.(*ast.Ident); !ok || fn.Name != "println" {
			return true
		}
		tag, ok1 := call.Args[0].(*ast.BasicLit)
		name, ok2 := call.Args[1].(*ast.BasicLit)
		if ok1 && ok2 && tag.Value == "\"eq\"" {
			if tv, ok := info.Types[call.Args[2]]; ok && tv.Value != nil {
				lines = append(lines, []string{"eq", strings.Trim(name.Value, "\""), tv.Value.String()})
			}
		}
		return true
	})
	for _, d := range ds {
		c := consts[d.name]
		if c == nil {
			continue
		}
		if d.k.VT != "" {
			if v := constant.ToInt(c.Val()); v.Kind() == constant.Int {
				lines = append(lines, []string{"v", d.name, v.ExactString()})
			}
		}
		if d.k.DT == 1 {
			if b, ok := types.Default(c.Type()).Underlying().(*types.Basic); ok {
				lines = append(lines, []string{"dt", d.name, types.Typ[b.Kind()].Name()})
			}
		}
	}
	return lines, "ran", ""
}

func main() {
	oracle := false
	for i, a := range os.Args {
		if a == "-oracle" {
			oracle = true
			os.Args = append(os.Args[:i], os.Args[i+1:]...)
			break
		}
	}
	drv.Main(&drv.Sub{
		Each: func(raw json.RawMessage, seed int64) (out []any) {
			var k c02Case
			drv.Must(json.Unmarshal(raw, &k))
			defer func() {
				if r := recover(); r != nil {
					o := blank(&k)
					o["builds"], o["msg"] = "hostpanic", drv.IntsS(fmt.Sprint(r))
					if len(k.Decls) > 0 { // a program: the panic is logged on its first declaration
						d := blank(&k.Decls[0])
						delete(d, "id")
						d["name"], d["builds"], d["msg"] = k.Decls[0].Name, "hostpanic", o["msg"]
						ds := []any{d}
						for i := 1; i < len(k.Decls); i++ {
							e := blank(&k.Decls[i])
							delete(e, "id")
							e["name"] = k.Decls[i].Name
							ds = append(ds, e)
						}
						o = map[string]any{"id": k.ID, "scope": k.Scope, "nobs": 0, "decls": ds}
					}
					out = []any{o}
				}
			}()
			return []any{observe(&k, oracle)}
		},
	})
}

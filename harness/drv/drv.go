// Package drv is the shared main loop of the drivers. A driver replays TLC-generated cases into the real scriggo code and logs what it did.
// It contains no oracle: it concretises cases, calls the public API (plus the -tags verif hooks)
// and writes observations as ndjson; the TLA+ Trace specifications judge them.
package drv

import (
	"bufio"
	"encoding/json"
	"flag"
	"fmt"
	"os"
	"runtime"
	"sync"
)

// Sub is a driver sub-command: it maps one case (raw JSON) to zero or more observation records.
type Sub struct {
	// Each is called once per case, possibly concurrently.
	Each func(c json.RawMessage, seed int64) []any
	// Extra, if non-nil, returns additional seeded cases (echoed in their observations).
	Extra func(seed int64, n int) []json.RawMessage
	// Serial forces one case at a time (timing- or goroutine-count-sensitive families).
	Serial bool
	// Whole, if non-nil, replaces the per-case loop entirely.
	Whole func(in, out string, seed int64, args []string) error
}

var (
	FlagIn    = flag.String("in", "", "cases ndjson")
	FlagOut   = flag.String("out", "", "observations ndjson")
	FlagSeed  = flag.Int64("seed", 1, "seed for any random choice")
	FlagExtra = flag.Int("extra", 0, "number of extra seeded cases")
	FlagJ     = flag.Int("j", 0, "parallelism (0 = NumCPU)")
)

func Main(s *Sub) {
	flag.Parse()
	if s.Whole != nil {
		if err := s.Whole(*FlagIn, *FlagOut, *FlagSeed, flag.Args()); err != nil {
			fmt.Fprintln(os.Stderr, "driver:", err)
			os.Exit(2)
		}
		return
	}
	cases, err := ReadLines(*FlagIn)
	if err != nil {
		fmt.Fprintln(os.Stderr, "driver:", err)
		os.Exit(2)
	}
	if s.Extra != nil && *FlagExtra > 0 {
		cases = append(cases, s.Extra(*FlagSeed, *FlagExtra)...)
	}
	j := *FlagJ
	if j <= 0 {
		j = runtime.NumCPU()
	}
	if s.Serial {
		j = 1
	}
	results := make([][]any, len(cases))
	var wg sync.WaitGroup
	ch := make(chan int, 1024)
	for w := 0; w < j; w++ {
		wg.Add(1)
		go func() {
			defer wg.Done()
			for i := range ch {
				results[i] = s.Each(cases[i], *FlagSeed)
			}
		}()
	}
	for i := range cases {
		ch <- i
	}
	close(ch)
	wg.Wait()
	f, err := os.Create(*FlagOut)
	if err != nil {
		fmt.Fprintln(os.Stderr, "driver:", err)
		os.Exit(2)
	}
	w := bufio.NewWriterSize(f, 1<<20)
	enc := json.NewEncoder(w)
	enc.SetEscapeHTML(false)
	for _, rs := range results {
		for _, r := range rs {
			if err := enc.Encode(r); err != nil {
				fmt.Fprintln(os.Stderr, "driver:", err)
				os.Exit(2)
			}
		}
	}
	w.Flush()
	f.Close()
}

func ReadLines(path string) ([]json.RawMessage, error) {
	if path == "" {
		return nil, nil
	}
	f, err := os.Open(path)
	if err != nil {
		return nil, err
	}
	defer f.Close()
	var out []json.RawMessage
	sc := bufio.NewScanner(f)
	sc.Buffer(make([]byte, 1<<20), 1<<28)
	for sc.Scan() {
		b := sc.Bytes()
		if len(b) == 0 {
			continue
		}
		out = append(out, json.RawMessage(append([]byte(nil), b...)))
	}
	return out, sc.Err()
}

// ints converts bytes to the int-array text representation shared with the specifications.
func Ints(b []byte) []int {
	out := make([]int, len(b))
	for i, c := range b {
		out[i] = int(c)
	}
	return out
}

func IntsS(s string) []int { return Ints([]byte(s)) }

func BytesOf(a []int) []byte {
	out := make([]byte, len(a))
	for i, c := range a {
		out[i] = byte(c)
	}
	return out
}

func Must(err error) {
	if err != nil {
		panic(err)
	}
}

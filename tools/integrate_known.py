#!/usr/bin/env python3
"""tools/integrate_known.py Cxx [suffix-text]  - move PROPOSED_KNOWN of checks/cxx.py into known-findings.json (kind known) and empty it."""
import sys, json, importlib, re
sys.path.insert(0, '/verif/lib'); sys.path.insert(0, '/verif/checks')
pid = sys.argv[1]; suffix = sys.argv[2] if len(sys.argv) > 2 else ''
m = importlib.import_module(pid.lower())
kf = json.load(open('/verif/known-findings.json'))
n = 0
for e in m.PROPOSED_KNOWN:
    kf.append({'property': pid, 'kind': e.get('kind', 'known'), **({'commit': e['commit']} if e.get('commit') else {}), 'signature': e['signature'], 'what': e['what'] + suffix})
    n += 1
json.dump(kf, open('/verif/known-findings.json', 'w'), indent=1)
p = f'/verif/checks/{pid.lower()}.py'
s = open(p).read()
i = s.index('PROPOSED_KNOWN = [')
if s[i:].startswith('PROPOSED_KNOWN = []'):
    print('already empty'); sys.exit(0)
j = s.index('\n]', i)
s = s[:i] + 'PROPOSED_KNOWN = []   # integrated into known-findings.json' + s[j + 2:]
open(p, 'w').write(s)
print('moved', n)

#!/usr/bin/env python3
"""tools/store_seed.py cXX  - copy /tmp/seed_cXX_out/{patchN.diff, metaN.json, *demoN*} into seeded/CXX-N/"""
import os, shutil, glob, sys
for fam in sys.argv[1:]:
    out = '/tmp/seed_%s_out' % fam
    for n in (1, 2, 3):
        p = out + '/patch%d.diff' % n
        if not os.path.exists(p):
            continue
        d = '/verif/seeded/%s-%d' % (fam.upper(), n)
        os.makedirs(d, exist_ok=True)
        shutil.copy(p, d + '/patch.diff')
        if os.path.exists(out + '/meta%d.json' % n):
            shutil.copy(out + '/meta%d.json' % n, d + '/meta_agent.json')
        for dm in glob.glob(out + '/*demo%d*' % n):
            if os.path.isdir(dm):
                shutil.copytree(dm, d + '/demo%d' % n, dirs_exist_ok=True)
            elif dm.endswith('_test.go'):
                shutil.copy(dm, d + '/seed_demo%d_test.go' % n)
            else:
                shutil.copy(dm, d)
        print('stored', d, os.listdir(d))

#!/usr/bin/env python3
"""usage: tools/seedrun.py <seed-id> <Cxx> [Cyy ...] [--tier thorough]
Applies seeded/<seed-id>/patch.diff in a scratch worktree of /repo HEAD, runs the checks against it (VERIF_REPO), records
the verdicts in seeded/<seed-id>/meta.json under detected_by, removes the worktree."""
import json, os, re, subprocess, sys, time
ROOT = '/verif'
args = [a for a in sys.argv[1:] if not a.startswith('--')]
tier = 'thorough' if '--tier' in sys.argv and sys.argv[sys.argv.index('--tier') + 1] == 'thorough' else 'quick'
args = [a for a in args if a not in ('thorough', 'quick')]
sid, checks = args[0], args[1:]
d = f'{ROOT}/seeded/{sid}'
wt = f'/tmp/sr_{sid}_{os.getpid()}'
subprocess.run(['git', '-C', '/repo', 'worktree', 'add', '-q', wt, 'HEAD'], check=True)
try:
    r = subprocess.run(f'git apply {d}/patch.diff 2>/dev/null || git apply --3way {d}/patch.diff', shell=True, cwd=wt, capture_output=True, text=True)
    meta = json.load(open(d + '/meta.json')) if os.path.exists(d + '/meta.json') else {'id': sid, 'property': sid.split('-')[0]}
    det = meta.setdefault('detected_by', {})
    if r.returncode != 0:
        for c in checks:
            det[c] = 'patch no longer applies to /repo HEAD (needs porting)'
    else:
        b = subprocess.run('go build ./...', shell=True, cwd=wt, env=dict(os.environ, GOFLAGS='-mod=mod', GOPROXY='off'), capture_output=True, text=True)
        for c in checks:
            p = subprocess.run(['./check', c, '--tier', tier], cwd=ROOT, env=dict(os.environ, VERIF_REPO=wt), capture_output=True, text=True)
            sigs = re.findall(r'signature: (.*)', p.stdout)
            if p.returncode == 1:
                det[c] = f'{tier}: VIOLATION ' + '; '.join(s[:140] for s in sigs[:2])
            elif p.returncode == 0:
                det[c] = f'{tier}: missed (exit 0)'
            else:
                det[c] = f'{tier}: check error (exit {p.returncode}): ' + p.stdout[-200:].replace('\n', ' ')
            print(sid, c, det[c][:200])
            vh = subprocess.run(['git', '-C', ROOT, 'rev-parse', '--short', 'HEAD'], capture_output=True, text=True).stdout.strip()
            rh = subprocess.run(['git', '-C', '/repo', 'rev-parse', '--short', 'HEAD'], capture_output=True, text=True).stdout.strip()
            meta.setdefault('runs', []).append({'check': c, 'tier': tier, 'when': time.strftime('%Y-%m-%dT%H:%MZ', time.gmtime()), 'verif_commit': vh, 'repo_commit': rh,
                                                'verdict': 'VIOLATION' if p.returncode == 1 else 'missed' if p.returncode == 0 else 'check-error'})
    json.dump(meta, open(d + '/meta.json', 'w'), indent=1)
finally:
    subprocess.run(['git', '-C', '/repo', 'worktree', 'remove', '--force', wt], capture_output=True)

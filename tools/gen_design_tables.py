#!/usr/bin/env python3
"""Regenerates the generated parts of DESIGN.md (between <!-- GEN:x --> markers) from known-findings.json and seeded/*/meta.json."""
import json, glob, os, re
ROOT = '/verif'
K = json.load(open(ROOT + '/known-findings.json'))
def esc(s): return s.replace('|', '\\|').replace('\n', ' ')
rows = []
seen = set()
for e in K:
    if e['kind'] == 'fixed':
        key = (e['property'], e.get('commit'))
        if key in seen: continue
        seen.add(key)
        what = re.sub(r'^fixed: property=\S+ \S+ ', '', e['what'])
        rows.append(f"| {e['property']} | fix `{e.get('commit')}` | {esc(what)[:420]} |")
known = {}
for e in K:
    if e['kind'] == 'known':
        known.setdefault(e['property'], []).append(e)
for p in sorted(known):
    for e in known[p][:40]:
        rows.append(f"| {p} | known finding | {esc(e['what'])[:420]} |")
findings = "| property | disposition | defect (minimal input / what happened) |\n|---|---|---|\n" + "\n".join(sorted(rows, key=lambda r: r.split('|')[1]))
srows = []
for m in sorted(glob.glob(ROOT + '/seeded/*/meta.json')):
    j = json.load(open(m))
    c = j.get('confirmed', {})
    det = j.get('detected_by', {})
    dets = '; '.join(f"{k}: {v}" for k, v in det.items()) if det else 'not run yet'
    missed_before = sorted({r['check'] for r in j.get('runs', []) if r['verdict'] == 'missed'} | set(j.get('missed_before_strengthening', [])))
    if j.get('obsolete'):
        dets = 'NO LONGER A REGRESSION: ' + j['obsolete']
    if missed_before:
        dets += ' (first missed by ' + ', '.join(missed_before) + '; the check was then strengthened)'
    if not j.get('summary'):
        a = m.replace('meta.json', 'meta_agent.json')
        if os.path.exists(a):
            aj = json.load(open(a))
            j.setdefault('id', os.path.basename(os.path.dirname(m)))
            j['summary'] = aj.get('summary', ''); j['needs'] = aj.get('needs', '')
    conf = 'demo clean=%s, with patch=%s, tests=%s/%s' % (c.get('demo_on_clean_tree'), c.get('demo_with_patch'), c.get('existing_tests_root'), c.get('existing_tests_test_module'))
    srows.append(f"| {j['id']} | {esc(j.get('summary',''))[:260]} | {esc(str(j.get('needs','')))[:260]} | {conf} | {esc(dets)[:300]} |")
seeds = "| seeded change | what it is | what it needs to manifest | confirmation | detected by (check: tier/verdict) |\n|---|---|---|---|---|\n" + "\n".join(srows)
# status table: per property, from checks/*.py META, evidence/*.json, known-findings.json, seeded/*/meta.json
import sys, importlib
sys.path.insert(0, ROOT + '/lib'); sys.path.insert(0, ROOT + '/checks')
strows = []
for i in range(1, 31):
    pid = 'C%02d' % i
    try:
        m = importlib.import_module(pid.lower())
    except Exception as e:
        strows.append(f"| {pid} | (module error {e}) | | | | |"); continue
    fams = getattr(m, 'FAMS', None) or []
    mods = []
    for f in fams:
        mods += sorted(os.path.basename(x)[:-4] for x in glob.glob(f'{ROOT}/spec/{f}/*.tla'))
    if not mods:
        src = open(f'{ROOT}/checks/{pid.lower()}.py').read()
        fm = re.findall(r'fams=\[([^\]]*)\]', src)
        for f in re.findall(r'"(\w+)"', ' '.join(fm)):
            mods += sorted(os.path.basename(x)[:-4] for x in glob.glob(f'{ROOT}/spec/{f}/*.tla'))
    ev = {}
    try: ev = json.load(open(f'{ROOT}/evidence/{pid}.json'))
    except Exception: pass
    cov = ev.get('coverage', {})
    nk = sum(1 for e in K if e['property'] == pid and e['kind'] == 'known')
    nf = len({e.get('commit') for e in K if e['property'] == pid and e['kind'] == 'fixed'})
    sd = []
    for mm in sorted(glob.glob(f'{ROOT}/seeded/{pid}-*/meta.json')):
        j = json.load(open(mm)); v = j.get('detected_by', {}).get(pid, '')
        sd.append(os.path.basename(os.path.dirname(mm)) + (':obsolete' if j.get('obsolete') else ':caught' if 'VIOLATION' in v else ':MISSED' if 'missed' in v else ':?'))
    strows.append(f"| {pid} | {m.META.get('level','')} | {', '.join(dict.fromkeys(mods))[:200]} | {ev.get('tier','')}: states={cov.get('states','')} judged={cov.get('evaluations', cov.get('judged',''))} wall={ev.get('wall_s','')}s | {nf} fix commits, {nk} known | {' '.join(sd)} |")
status = "| property | level | TLA+ modules | last evidence (tier: states / observations judged / wall) | defects | own seeds |\n|---|---|---|---|---|---|\n" + "\n".join(strows)
d = open(ROOT + '/DESIGN.md').read()
for tag, body in (('FINDINGS', findings), ('SEEDS', seeds), ('STATUS', status)):
    a, b = f'<!-- GEN:{tag} -->', f'<!-- /GEN:{tag} -->'
    if a in d:
        i = d.index(a) + len(a); j = d.index(b)
        d = d[:i] + '\n' + body + '\n' + d[j:]
open(ROOT + '/DESIGN.md', 'w').write(d)
print('tables regenerated:', len(rows), 'findings,', len(srows), 'seeds')

#!/usr/bin/env python3
"""Delta-minimise a C04 finding: usage minimize_c04.py replays/C04/<n>  (uses .work/C04/bin/c04)"""
import json, subprocess, sys, os, tempfile
from pathlib import Path
ROOT = Path(__file__).resolve().parent.parent
BIN = ROOT / ".work/C04/bin/c04"

def run(bs):
    with tempfile.TemporaryDirectory(dir=ROOT / ".work") as d:
        cin = Path(d) / "in"; out = Path(d) / "out"
        cin.write_text(json.dumps({"id": 1, "s": list(bs)}) + "\n")
        subprocess.run([str(BIN), "-in", str(cin), "-out", str(out)], stdout=subprocess.DEVNULL, stderr=subprocess.DEVNULL)
        o = json.loads(out.read_text().splitlines()[0])
        bad = [c for c in o["oc"] if c not in (0, 1, 2)]
        return (bad[0], o["where"], o["msg"]) if bad else None

def main():
    rd = ROOT / sys.argv[1]
    s = bytes(json.loads((rd / "case.json").read_text())["s"])
    target = run(s)
    print("target", target, len(s))
    n = 2
    while len(s) >= 1:
        chunk = max(1, len(s) // n)
        reduced = False
        i = 0
        while i < len(s):
            t = s[:i] + s[i + chunk:]
            if run(t) == target:
                s = t; reduced = True
            else:
                i += chunk
        if not reduced:
            if chunk == 1:
                break
            n = min(len(s), n * 2)
    print("minimal:", repr(s))

main()

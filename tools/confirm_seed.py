#!/usr/bin/env python3
"""Confirm a seeded change myself: demo passes on the clean tree, patch applies and builds, demo fails with the
patch, the repository's existing test suites still pass with the patch.  Writes seeded/<id>/meta.json."""
import json, os, re, shutil, subprocess, sys, glob
ROOT = '/verif'
def sh(cmd, cwd, timeout=1500):
    env = dict(os.environ, GOFLAGS='-mod=mod', GOPROXY='off')
    p = subprocess.run(cmd, shell=True, cwd=cwd, env=env, stdout=subprocess.PIPE, stderr=subprocess.STDOUT, text=True, timeout=timeout)
    return p.returncode, p.stdout
def main(sid):
    d = f'{ROOT}/seeded/{sid}'
    agent = json.load(open(d + '/meta_agent.json')) if os.path.exists(d + '/meta_agent.json') else {}
    wt = f'/tmp/conf_{sid}'
    subprocess.run(['git', '-C', '/repo', 'worktree', 'remove', '--force', wt], capture_output=True)
    subprocess.run(['git', '-C', '/repo', 'worktree', 'add', '-q', wt, 'HEAD'], check=True)
    head = subprocess.check_output(['git', '-C', '/repo', 'rev-parse', '--short', 'HEAD'], text=True).strip()
    res = {'base_commit_for_confirmation': head}
    # demo placement
    demo_cmd = None
    tests = glob.glob(d + '/*_test.go')
    for t in tests:
        pkg = re.search(r'(?m)^package (\w+)', open(t).read()).group(1)
        sub = {'native': 'native/', 'native_test': 'native/', 'builtin': 'builtin/', 'builtin_test': 'builtin/', 'main': 'cmd/scriggo/',
               'compiler': 'internal/compiler/', 'runtime': 'internal/runtime/', 'ast': 'ast/', 'astutil': 'ast/astutil/', 'astutil_test': 'ast/astutil/', 'ast_test': 'ast/'}.get(pkg, '')
        dst = wt + '/' + sub
        name = os.path.basename(t)
        if not name.startswith('seed_'):
            name = 'seed_' + name
        shutil.copy(t, dst + name)
        fn = re.findall(r'func (Test\w+)\(', open(t).read())
        demo_cmd = f"go test -count=1 -run '^({'|'.join(fn)})$' ./" + sub
    for dm in glob.glob(d + '/demo*'):
        if os.path.isdir(dm):
            n = re.sub(r'\D', '', os.path.basename(dm))
            os.makedirs(f'{wt}/cmd/seeddemo{n}', exist_ok=True)
            shutil.copy(dm + '/main.go', f'{wt}/cmd/seeddemo{n}/main.go')
            demo_cmd = f'go run ./cmd/seeddemo{n}'
    res['demo_cmd'] = demo_cmd
    rc0, out0 = sh(demo_cmd, wt)
    res['demo_on_clean_tree'] = 'pass' if rc0 == 0 else 'FAIL'
    rca, outa = sh(f'git apply {d}/patch.diff 2>&1 || git apply --3way {d}/patch.diff 2>&1', wt)
    res['patch_applies'] = rca == 0
    if rca == 0:
        rcb, outb = sh('go build ./... && go build -tags verif ./...', wt)
        res['builds'] = rcb == 0
        rc1, out1 = sh(demo_cmd, wt)
        res['demo_with_patch'] = 'fail' if rc1 != 0 else 'PASS'
        res['demo_failure_excerpt'] = '\n'.join([l for l in out1.splitlines() if 'FAIL' in l or 'panic' in l or 'want' in l or 'got' in l][:4])[:600]
        rct, outt = sh("go test -count=1 -skip 'SeedDemo' ./... 2>&1 | grep -v 'no test files' | tail -15", wt)
        res['existing_tests_root'] = 'pass' if 'FAIL' not in outt and rct == 0 else 'FAIL'
        rcu, outu = sh("go test -vet=off -count=1 ./... 2>&1 | grep -v 'no test files' | tail -6", wt + '/test')
        res['existing_tests_test_module'] = 'pass' if 'FAIL' not in outu else 'FAIL'
    subprocess.run(['git', '-C', '/repo', 'worktree', 'remove', '--force', wt], capture_output=True)
    meta = {'id': sid, 'property': sid.split('-')[0],
            'summary': agent.get('summary', ''), 'needs': agent.get('needs', ''),
            'confirmed': res}
    old = {}
    if os.path.exists(d + '/meta.json'):
        old = json.load(open(d + '/meta.json'))
    old.update(meta)
    json.dump(old, open(d + '/meta.json', 'w'), indent=1)
    print(sid, json.dumps({k: v for k, v in res.items() if k != 'demo_failure_excerpt'}))
for s in sys.argv[1:]:
    try:
        main(s)
    except Exception as e:
        print(s, 'ERROR', e)

#!/bin/bash
# usage: tools/try_seed.sh <name> <patch.diff> <Cxx> [more checks...]
# Applies a seeded change in a scratch worktree of /repo (never in /repo itself), runs the given checks against it
# through VERIF_REPO, prints their verdict lines, removes the worktree.
set -u
name=$1; patch=$(realpath $2); shift 2
wt=/tmp/try_$name
git -C /repo worktree remove --force $wt 2>/dev/null
git -C /repo worktree add -q $wt HEAD || exit 2
if ! git -C $wt apply "$patch" 2>/dev/null && ! git -C $wt apply --3way "$patch"; then echo "PATCH DOES NOT APPLY"; git -C /repo worktree remove --force $wt; exit 2; fi
(cd $wt && GOFLAGS=-mod=mod GOPROXY=off go build ./... ) || { echo "DOES NOT BUILD"; git -C /repo worktree remove --force $wt; exit 2; }
cd /verif
for c in "$@"; do
  out=$(VERIF_REPO=$wt ./check $c 2>&1); rc=$?
  echo "== $c on seeded/$name: exit $rc"
  echo "$out" | grep -E "^VIOLATION|signature|CHECK-ERROR" | head -8; echo "$out" | grep -c "^KNOWN" | sed "s/^/known-finding lines: /"
done
git -C /repo worktree remove --force $wt

---------------------------- MODULE Trace_FilesFS ----------------------------
(* Judges observations of the real scriggo.Files: one record per case
     {id, files:[{n,d}], name, open:{err,perr,rdf}, res:[{op,n,err, info | data | ents}]}
   The logged operation sequence is replayed through the REFERENCE machine of FilesFS (handle state
   advanced by the logged results) and every logged result must satisfy the contract.
   Mode = "judge"       the contract holds (property-level; the only source of verdicts)
   Mode = "drift"       which variant ("as_written", "fixed") of the implementation-shaped model predicts the
                        observation exactly (model_drift measurement, diagnostic only). *)
EXTENDS FilesFS, TLC, Json
CONSTANTS Mode, KeepPerCause

Defined(r) == TreeOk(r.files)          \* the property speaks about valid, non-conflicting maps only
Predicted(r, variant) ==
  LET o == ImplOpen(r.files, r.name) IN
  /\ r.open.err = o.err
  /\ (o.err = "nil" => r.res = ImplRunFrom(r.files, o.g, r.res, 1, variant))     \* r.res[i] carries op and n
\* "" = accepted (or outside the property's precondition: skipped and counted, never failed)
DriftCause(pa, pf) == IF pa /\ pf THEN "" ELSE IF ~pa /\ ~pf THEN "drift-both" ELSE IF ~pa THEN "drift-as_written" ELSE "drift-fixed"
RecCause(r) == IF ~Defined(r) THEN ""
               ELSE IF Mode = "judge" THEN CaseCause(r.files, r.name, r.open, r.res)
               ELSE DriftCause(Predicted(r, "as_written"), Predicted(r, "fixed"))
Sig(c) == [fam |-> "filesfs", cause |-> c]

(* ---- record walk: as the skeleton of spec/lib2/Trace_HTMLEscape.tla, except that the bad records kept
        are the first KeepPerCause of EVERY distinct cause (bounded, so not quadratic): thousands of
        records of an already known cause must not hide one record of a new cause ---- *)
VARIABLES l, nbad, nskip, bad, cnt
Obs == ndJsonDeserialize("obs.ndjson")
Init == l = 1 /\ nbad = 0 /\ nskip = 0 /\ bad = <<>> /\ cnt = <<>>
\* (r, c, have are operator arguments, not LET definitions: TLC evaluates an argument once)
Walk(r, c, have) ==
           /\ nskip' = nskip + (IF c = "" /\ ~Defined(r) THEN 1 ELSE 0)
           /\ nbad' = nbad + (IF c = "" THEN 0 ELSE 1)
           /\ cnt' = IF c = "" THEN cnt
                     ELSE IF have = {} THEN Append(cnt, [cause |-> c, count |-> 1])
                     ELSE [j \in DOMAIN cnt |-> IF j \in have THEN [cause |-> c, count |-> cnt[j].count + 1] ELSE cnt[j]]
           /\ bad' = IF c # "" /\ (have = {} \/ \A j \in have : cnt[j].count < KeepPerCause)
                     THEN Append(bad, [k |-> l, id |-> r.id, sig |-> Sig(c)]) ELSE bad
WalkC(r, c) == Walk(r, c, {j \in DOMAIN cnt : cnt[j].cause = c})
Next == l <= Len(Obs) /\ l' = l + 1 /\ WalkC(Obs[l], RecCause(Obs[l]))
Done == l = Len(Obs) + 1 =>
          /\ ndJsonSerialize("stats.ndjson", <<[n |-> Len(Obs), nbad |-> nbad, ref_undefined |-> nskip, causes |-> cnt]>>)
          /\ ndJsonSerialize("bad.ndjson", bad)
Consumed == TLCGet("stats").diameter - 1 = Len(Obs)
=============================================================================

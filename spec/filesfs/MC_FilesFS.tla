----------------------------- MODULE MC_FilesFS -----------------------------
(* C23.  Exhaustive exploration of one handle on every tree of <= MaxFiles files over a small universe
   of names, for every probe name and every operation (the handle state is finite, so the sequences are
   explored to a fix-point, not only to MaxOps).  The results come from
     Variant = "ref"         the canonical resolution of the contract   (the contract is satisfiable, its
                             design-level invariants hold; this run also exports the cases)
     Variant = "as_written"  the transcription of files.go              (counterexample = diagnostic)
     Variant = "fixed"       the transcription of the proposed repair   (must meet the reference)
   and every result is judged by the reference relation StepCause of FilesFS. *)
EXTENDS FilesFS, TLC, Json, SequencesExt
CONSTANTS Variant, Large, MaxFiles, FullOps, MaxOps, DeepOps

nA == <<97>>                      \* a        (empty file)
nB == <<98>>                      \* b
nD == <<100>>                     \* d        (a FILE named d: conflicts with d/..., such trees are excluded)
nDdotB == <<100, 46, 98>>         \* d.b      ('.' < '/': sorts after directory d only if base names are compared)
nDA == <<100, 47, 97>>            \* d/a
nDC == <<100, 47, 99>>            \* d/c
nDEA == <<100, 47, 101, 47, 97>>  \* d/e/a
nU == <<195, 188, 46, 116>>       \* ü.t
nDE == <<100, 47, 101>>           \* d/e      (implied directory)
Small == {nA, nDdotB, nDA, nDC, nDEA, nU}
Universe == IF Large THEN Small \cup {nD} ELSE Small            \* (b is only a probe: one more plain root file adds nothing)
Content(n) == IF n = nA THEN <<>> ELSE IF n = nB THEN <<120>> ELSE n

Trees == {T \in {[i \in 1..Len(q) |-> [n |-> q[i], d |-> Content(q[i])]] :
                   q \in {SetToSeq(S) : S \in {X \in SUBSET Universe : Cardinality(X) <= MaxFiles}}} : TreeOk(T)}

Probes == Small \cup {nB, nD, Root, nDE}
          \cup {<<122, 122>>, <<100, 47, 122, 122>>, <<97, 47, 120>>, <<100, 47, 101, 47, 97, 47, 120>>, <<100, 47, 101, 47>> \o <<98>>}  \* zz d/zz a/x d/e/a/x d/e/b
          \cup {<<>>, <<47, 97>>, <<97, 47>>, <<100, 47>>, <<100, 47, 46, 46, 47, 97>>, <<46, 47, 97>>, <<100, 47, 47, 97>>,
                <<46, 46>>, <<97, 47, 46>>, <<47>>, <<255>>, <<100, 47, 195>>}                 \* "" /a a/ d/ d/../a ./a d//a .. a/. / \xff d/\xc3

Op(o, n) == [op |-> o, n |-> n]
OpsFor(kind) == IF kind = "file" THEN {Op("stat", 0), Op("read", 0), Op("read", 1), Op("read", 2), Op("close", 0)}
                ELSE {Op("stat", 0), Op("readdir", -1), Op("readdir", 0), Op("readdir", 1), Op("readdir", 2), Op("close", 0), Op("read", 1)}

VARIABLES F, p, h, g, cause, got, rd
vars == <<F, p, h, g, cause, got, rd>>

RefOpenErr(T, q) == IF RefOpen(T, q).kind # "none" THEN "nil" ELSE IF ValidPath(q) THEN "notexist" ELSE "invalid"
Init == /\ F \in Trees /\ p \in Probes
        /\ h = RefOpen(F, p)
        /\ LET o == IF Variant = "ref" THEN [err |-> RefOpenErr(F, p), g |-> ImplNone] ELSE ImplOpen(F, p) IN
           /\ g = o.g
           /\ cause = (IF OpenCause(F, p, o) # "" THEN OpenCause(F, p, o) ELSE IF o.err # "nil" THEN "-" ELSE "")   \* "-": nothing opened, no step
        /\ got = <<>> /\ rd = <<>>

Do(op) == /\ cause = "" /\ op \in OpsFor(h.kind)
          /\ LET s == IF Variant = "ref" THEN [res |-> RefStep(F, h, op), g |-> g] ELSE ImplStep(F, g, op, Variant) IN
             /\ cause' = StepCause(F, h, s.res)
             /\ h' = StepNext(F, h, s.res)
             /\ g' = s.g
             /\ got' = IF op.op = "readdir" /\ ~h.closed THEN got \o EntNames(s.res.ents) ELSE got
             /\ rd' = IF op.op = "read" /\ ~h.closed THEN rd \o s.res.data ELSE rd
          /\ UNCHANGED <<F, p>>
DoStat == Do(Op("stat", 0))
DoClose == Do(Op("close", 0))
DoRead == \E n \in 0..2 : Do(Op("read", n))
DoReadDirPage == \E n \in 1..2 : Do(Op("readdir", n))
DoReadDirAll == \E n \in {-1, 0} : Do(Op("readdir", n))
Next == DoStat \/ DoClose \/ DoRead \/ DoReadDirPage \/ DoReadDirAll

(* every result produced (by the canonical reference / by the transcription) satisfies the contract *)
MeetsRef == cause \in {"", "-"}
(* design-level invariants of the reference machine (evaluated while every step so far was accepted) *)
PosInRange == cause = "" => CASE h.kind = "dir" -> h.pos <= Len(Listing(F, h.path))
                              [] h.kind = "file" -> h.pos <= Len(DataOf(F, h.path))
                              [] OTHER -> FALSE
PagesConcatenate == (cause = "" /\ h.kind = "dir") => got = Sub(Listing(F, h.path), 1, h.pos)      \* paginate correctly
EachChildOnce == cause = "" => Cardinality(SeqSet(got)) = Len(got)
BytesConcatenate == (cause = "" /\ h.kind = "file") => rd = Sub(DataOf(F, h.path), 1, h.pos)
ListingSorted == h.kind = "dir" => LET L == Listing(F, h.path) IN
                    /\ \A i, j \in DOMAIN L : i < j => LexLess(L[i], L[j])
                    /\ SeqSet(L) = Children(F, h.path)
                    /\ \A c \in SeqSet(L) : IsFile(F, Join(h.path, c)) # IsDir(F, Join(h.path, c))      \* a child is a file xor a directory
ImpliedDirsExist == \A i \in DOMAIN F : \A k \in 1..Len(F[i].n) :
                       F[i].n[k] = Slash => RefOpen(F, Sub(F[i].n, 1, k - 1)).kind = "dir"
FilesOpenAsFiles == \A i \in DOMAIN F : RefOpen(F, F[i].n).kind = "file"

(* case export (only in the "ref" run): one line per tree x probe name, carrying every operation sequence to
   run on a fresh handle of that name:
     - all sequences of length <= FullOps over the full operation alphabet (OpsFor),
     - all sequences of length <= MaxOps over the state-changing operations (CoreOps),
     - all sequences of length <= DeepOps over the paging operations (PagingOps).
   (The model check itself explores every operation in every reachable handle state, whatever the length.)
   An operation is written as one integer: 0 stat, 1 close, 10+n read(n), 20+n readdir(n). *)
Code(o) == CASE o.op = "stat" -> 0 [] o.op = "close" -> 1 [] o.op = "read" -> 10 + o.n [] o.op = "readdir" -> 20 + o.n
PagingOps(kind) == IF kind = "file" THEN {Op("read", 1), Op("read", 2)}
                   ELSE {Op("readdir", -1), Op("readdir", 1), Op("readdir", 2)}
CoreOps(kind) == PagingOps(kind) \cup {Op("close", 0)}
AllSeqs(kind) == SeqsUpTo(OpsFor(kind), FullOps) \cup SeqsUpTo(CoreOps(kind), MaxOps) \cup SeqsUpTo(PagingOps(kind), DeepOps)
\* only the maximal sequences are run: a proper prefix of an exported sequence is judged as part of it
Maximal(A, kind) == {s \in A : \A o \in OpsFor(kind) : Append(s, o) \notin A}
SeqSetOf(kind) == Maximal(AllSeqs(kind), kind)
Coded(S) == AsTuple([i \in 1..Len(S) |-> AsTuple([j \in 1..Len(S[i]) |-> Code(S[i][j])])])
\* (everything used more than once is an operator ARGUMENT: TLC evaluates an argument once)
CasesWith(TS, PS, FS, DS) ==
  [i \in 1..(Len(TS) * Len(PS)) |->
      LET T == TS[((i - 1) \div Len(PS)) + 1]
          q == PS[((i - 1) % Len(PS)) + 1] IN
      [id |-> i, files |-> T, name |-> q,
       seqs |-> LET k == RefOpen(T, q).kind IN IF k = "file" THEN FS ELSE IF k = "dir" THEN DS ELSE << <<>> >>]]
Cases == CasesWith(SetToSeq(Trees), SetToSeq(Probes), Coded(SetToSeq(SeqSetOf("file"))), Coded(SetToSeq(SeqSetOf("dir"))))
ASSUME Variant = "ref" => ndJsonSerialize("cases.ndjson", Cases)
=============================================================================

------------------------------- MODULE FilesFS -------------------------------
(* C23.  scriggo.Files as an io/fs file system.

   Part I  (REFERENCE) states the io/fs contract for a tree given by a map of valid, non-conflicting
   slash-separated names: what Open / Stat / Read(n) / ReadDir(n) / Close on one handle may answer,
   and how the handle state (offset of a file, next index of a directory, closed) advances.
   Sources: the doc comments of fs.FS, fs.ValidPath, fs.File, fs.ReadDirFile, fs.DirEntry, io.Reader,
   and the property statement ("listings are sorted, contain each child once with the right file
   mode, and paginate correctly").  The reference is a RELATION on (state, logged result): the
   contract leaves choices open (a Read may return fewer bytes, ReadDir(n>0) fewer entries).

   Part II (IMPLEMENTATION-SHAPED) transcribes files.go (Open, filesDir.ReadDir, filesFile.Read/
   Stat/Close) branch by branch, in two variants: "as_written" and "fixed" (the proposed repair).
   It decides nothing about the code (DESIGN 2.3): MC_FilesFS checks it against Part I.

   Text = sequence of bytes.  A tree F is a sequence of records [n |-> name, d |-> content].
   A result record r = [op, n, err] + info (stat) / data (read) / ents (readdir); booleans are 0/1 (JSON). *)
EXTENDS Integers, Sequences, FiniteSets, Text, Utf8

Slash == 47
Dot == 46
Root == <<Dot>>

(* ======================================================================================= *)
(* Part I - REFERENCE                                                                        *)
(* ======================================================================================= *)

\* fs.ValidPath as documented: UTF-8, "." or slash-separated elements none of which is "", "." or ".."
\* (TLC re-evaluates a LET definition at every use but evaluates an operator argument once: values used
\*  several times are passed as arguments of helper operators throughout this module)
RECURSIVE ElemsOkFrom(_, _)
ElemOk(e) == ~(e = <<>> \/ e = <<Dot>> \/ e = <<Dot, Dot>>)
ElemsOkAt(p, i, j) == IF j = 0 THEN ElemOk(From(p, i)) ELSE ElemOk(Sub(p, i, j - 1)) /\ ElemsOkFrom(p, j + 1)
ElemsOkFrom(p, i) == ElemsOkAt(p, i, IndexByteFrom(p, Slash, i))
IsUtf8(p) == (\A k \in DOMAIN p : p[k] < 128) \/ Valid(p)       \* (ASCII shortcut, then Utf8!Valid = utf8.ValidString)
ValidPath(p) == (p = Root \/ ElemsOkFrom(p, 1)) /\ IsUtf8(p)

NameSet(F) == {F[i].n : i \in DOMAIN F}
\* the property's precondition: valid names, no duplicates, no name that is also a directory of another
TreeOk(F) == /\ \A i \in DOMAIN F : ValidPath(F[i].n) /\ F[i].n # Root
             /\ \A i, j \in DOMAIN F : i # j => (F[i].n # F[j].n /\ ~HasPrefix(F[j].n, F[i].n \o <<Slash>>))

IsFile(F, p) == p \in NameSet(F)
DataOf(F, p) == F[CHOOSE i \in DOMAIN F : F[i].n = p].d
DirPrefix(p) == IF p = Root THEN <<>> ELSE p \o <<Slash>>
\* implied directories exist: every proper prefix of a file name at a slash, and the root
IsDir(F, p) == p = Root \/ \E m \in NameSet(F) : HasPrefix(m, p \o <<Slash>>)
Join(p, c) == DirPrefix(p) \o c
RECURSIVE LastSlashFrom(_, _)
LastSlashFrom(p, i) == IF i = 0 THEN 0 ELSE IF p[i] = Slash THEN i ELSE LastSlashFrom(p, i - 1)
Base(p) == From(p, LastSlashFrom(p, Len(p)) + 1)                \* final path element ("." for the root)

\* the children of directory p, as base names (a set: each child once)
ChildCut(rest, j) == IF j = 0 THEN rest ELSE Sub(rest, 1, j - 1)
ChildOfRest(rest) == ChildCut(rest, IndexByteFrom(rest, Slash, 1))
ChildOf(m, pre) == ChildOfRest(From(m, Len(pre) + 1))
Children(F, p) == {ChildOf(m, DirPrefix(p)) : m \in {x \in NameSet(F) : HasPrefix(x, DirPrefix(p))}}

\* byte-wise lexicographic order (what "sorted by filename" means for Go strings)
RECURSIVE LexLessFrom(_, _, _)
LexLessFrom(a, b, i) == IF i > Len(b) THEN FALSE
                        ELSE IF i > Len(a) THEN TRUE
                        ELSE IF a[i] # b[i] THEN a[i] < b[i]
                        ELSE LexLessFrom(a, b, i + 1)
LexLess(a, b) == LexLessFrom(a, b, 1)
\* the listing: every child exactly once, in increasing name order
SortedSeqOf(S) == [k \in 1..Cardinality(S) |-> CHOOSE x \in S : Cardinality({y \in S : LexLess(y, x)}) = k - 1]
AsTuple(f) == SubSeq(f, 1, Len(f))                              \* forces the function into an explicit tuple
Listing(F, p) == AsTuple(SortedSeqOf(Children(F, p)))
SeqSet(s) == {s[i] : i \in DOMAIN s}

(* ---- handle state ---- *)
\* kind: "file" | "dir" | "none" (Open must fail); pos: byte offset / index of the next entry
RefOpen(F, p) == [kind |-> IF ~ValidPath(p) THEN "none" ELSE IF IsFile(F, p) THEN "file"
                           ELSE IF IsDir(F, p) THEN "dir" ELSE "none",
                  path |-> p, pos |-> 0, closed |-> FALSE,
                  all |-> FALSE]          \* all: a ReadDir(n<=0) was accepted on this handle (diagnosis only)

\* Open: valid existing name (file or implied directory, "." included) opens; a name that is not
\* ValidPath is rejected with ErrInvalid or ErrNotExist (fs.FS doc allows both); a valid missing
\* name with ErrNotExist.  The *PathError wrapper is "should" in the doc: logged, not judged.
OpenCause(F, p, o) ==
  IF o.err = "hostpanic" THEN "hostpanic"
  ELSE IF ~ValidPath(p) THEN (IF o.err \in {"invalid", "notexist"} THEN "" ELSE
                              IF o.err = "nil" THEN "invalid-name-opened" ELSE "invalid-name-wrong-error")
  ELSE IF IsFile(F, p) THEN (IF o.err = "nil" THEN "" ELSE "file-not-opened")
  ELSE IF IsDir(F, p) THEN (IF o.err = "nil" THEN "" ELSE "directory-not-opened")
  ELSE IF o.err = "notexist" THEN "" ELSE IF o.err = "nil" THEN "missing-name-opened" ELSE "missing-name-wrong-error"

\* FileInfo of path q (from Stat, or from a DirEntry's Info): base name, directory-ness consistent
\* between IsDir() and Mode().Type(), size = content length for files (size of a directory is
\* "system-dependent": not judged; permission bits are not specified: not judged here)
InfoCauseK(F, q, i, isfile) ==
  IF i.name # Base(q) THEN "name"
  ELSE IF isfile THEN (IF i.isdir # 0 \/ i.mtyp # "file" THEN "mode-of-file"
                       ELSE IF i.size # Len(DataOf(F, q)) THEN "size" ELSE "")
  ELSE IF i.isdir # 1 \/ i.mtyp # "dir" THEN "mode-of-directory" ELSE ""
InfoCause(F, q, i) == InfoCauseK(F, q, i, IsFile(F, q))

StatName(c) == CASE c = "" -> "" [] c = "name" -> "stat-name" [] c = "size" -> "stat-size" [] OTHER -> "stat-mode"
StatCause(F, h, r) ==
  IF r.err # "nil" THEN "stat-error" ELSE StatName(InfoCause(F, h.path, r.info))

\* Read(n) on a file (io.Reader + "reading every file gives consistent results"): the bytes returned
\* are the next k <= n bytes of the content; io.EOF only when nothing is left after them; at the end a
\* Read with n > 0 says io.EOF; a Read with n > 0 and content left makes progress (reading (0, nil)
\* forever would make the file unreadable by io.ReadAll - chosen reading, io.Reader only "discourages" it).
ReadCauseK(r, rem, k) ==
  IF r.err \notin {"nil", "EOF"} THEN "read-error"
  ELSE IF k > r.n THEN "read-more-than-asked"
  ELSE IF k > Len(rem) \/ r.data # Sub(rem, 1, k) THEN "read-wrong-bytes"
  ELSE IF r.err = "EOF" /\ k < Len(rem) THEN "read-eof-before-end"
  ELSE IF r.err = "nil" /\ k = 0 /\ r.n > 0 THEN (IF rem = <<>> THEN "read-no-eof-at-end" ELSE "read-no-progress")
  ELSE ""
ReadCause(F, h, r) == ReadCauseK(r, From(DataOf(F, h.path), h.pos + 1), Len(r.data))

\* one directory entry e for child name c of directory p
EntryInfoName(ic) == CASE ic = "name" -> "entry-info-name" [] ic = "size" -> "entry-info-size"
                        [] ic = "mode-of-file" -> "entry-info-mode-of-file" [] OTHER -> "entry-info-mode-of-directory"
EntryCauseK(F, c, e, q, isfile, ic) ==
  IF e.name # c THEN "entry-name"
  ELSE IF isfile /\ (e.isdir # 0 \/ e.typ # "file") THEN "entry-mode-of-file"
  ELSE IF ~isfile /\ (e.isdir # 1 \/ e.typ # "dir") THEN "entry-mode-of-directory"
  ELSE IF e.ierr # "nil" THEN "entry-info-error"
  ELSE IF ic # "" THEN EntryInfoName(ic)
  \* ... and agrees with Stat of the child opened by its path (logged by the driver in e.st)
  ELSE IF e.st.err # "nil" THEN "entry-child-not-statable"
  ELSE IF e.st.name # e.info.name \/ e.st.isdir # e.info.isdir \/ e.st.mtyp # e.info.mtyp
          \/ e.st.perm # e.info.perm \/ (isfile /\ e.st.size # e.info.size) THEN "entry-info-differs-from-stat"
  ELSE ""
EntryCauseQ(F, c, e, q, isfile) == EntryCauseK(F, c, e, q, isfile, InfoCauseK(F, q, e.info, isfile))
EntryCauseP(F, c, e, q) == EntryCauseQ(F, c, e, q, IsFile(F, q))
EntryCause(F, p, c, e) == EntryCauseP(F, c, e, Join(p, c))
RECURSIVE EntriesCauseFrom(_, _, _, _, _)
FirstOr(c, rest) == IF c # "" THEN c ELSE rest            \* rest is evaluated only when needed (lazy argument)
EntriesCauseFrom(F, p, want, ents, j) ==
  IF j > Len(ents) THEN ""
  ELSE FirstOr(EntryCause(F, p, want[j], ents[j]), EntriesCauseFrom(F, p, want, ents, j + 1))

EntNames(ents) == [j \in 1..Len(ents) |-> ents[j].name]
WrongNames(got, want) == IF SeqSet(got) = SeqSet(want) /\ Len(got) = Len(want) THEN "order" ELSE "set"

\* ReadDir(n) on a directory.  L = the sorted listing, rem = what earlier calls have not returned.
\*  n > 0 : between 1 and n entries, the next ones of rem, nil error; at the end: no entry and io.EOF
\*          (io.EOF itself, and only with an empty slice at the end).
\*  n <= 0: exactly all of rem (possibly none) and a nil error.
ReadDirCauseK(F, h, r, L, rem, k, names) ==
  IF r.err \notin {"nil", "EOF"} THEN "readdir-error"
  ELSE IF r.n > 0 THEN
    IF r.err = "EOF" THEN (IF k # 0 THEN "readdir-eof-with-entries" ELSE IF rem # <<>> THEN "readdir-eof-before-end" ELSE "")
    ELSE IF k = 0 THEN (IF rem = <<>> THEN "readdir-no-eof-at-end" ELSE "readdir-empty-without-error")
    ELSE IF k > r.n THEN "readdir-more-than-n"
    ELSE IF k > Len(rem) \/ names # Sub(rem, 1, k) THEN
         (IF k <= Len(rem) /\ WrongNames(names, Sub(rem, 1, k)) = "order" THEN "readdir-page-not-sorted"
          ELSE IF rem = <<>> /\ h.all THEN "readdir-page-after-all-was-read"      \* entries again after a ReadDir(n<=0) returned everything
          ELSE "readdir-page-wrong-entries")
    ELSE EntriesCauseFrom(F, h.path, rem, r.ents, 1)
  ELSE
    IF r.err # "nil" THEN "readdir-all-error"
    ELSE IF names # rem THEN
         (IF WrongNames(names, rem) = "order" THEN "readdir-all-not-sorted"
          ELSE IF h.pos > 0 /\ names = L THEN "readdir-all-restarts-from-beginning"
          ELSE "readdir-all-wrong-entries")
    ELSE EntriesCauseFrom(F, h.path, rem, r.ents, 1)
ReadDirCauseL(F, h, r, L) == ReadDirCauseK(F, h, r, L, From(L, h.pos + 1), Len(r.ents), AsTuple(EntNames(r.ents)))
ReadDirCause(F, h, r) == ReadDirCauseL(F, h, r, Listing(F, h.path))

\* The judgement of one logged step in handle state h ("" = satisfies the contract).
\* After Close io/fs specifies nothing (any error or answer passes); Read on a directory handle is
\* not specified either.  A panic into the caller is never well-behaved.
StepCause(F, h, r) ==
  IF r.err = "hostpanic" THEN "hostpanic"
  ELSE IF h.closed THEN ""
  ELSE CASE r.op = "stat" -> StatCause(F, h, r)
         [] r.op = "close" -> (IF r.err = "nil" THEN "" ELSE "close-error")
         [] r.op = "read" -> (IF h.kind = "file" THEN ReadCause(F, h, r) ELSE "")
         [] r.op = "readdir" -> (IF h.kind = "dir" THEN (IF r.err = "noreaddir" THEN "directory-without-ReadDir" ELSE ReadDirCause(F, h, r))
                                 ELSE IF r.err \in {"nil", "EOF"} THEN "readdir-on-file-succeeds" ELSE "")
         [] OTHER -> "unknown-op"

\* how an accepted step advances the handle
StepNext(F, h, r) ==
  IF h.closed THEN h
  ELSE CASE r.op = "close" -> [h EXCEPT !.closed = TRUE]
         [] r.op = "read" /\ h.kind = "file" -> [h EXCEPT !.pos = h.pos + Len(r.data)]
         [] r.op = "readdir" /\ h.kind = "dir" -> [h EXCEPT !.pos = h.pos + Len(r.ents), !.all = h.all \/ r.n <= 0]
              \* (an accepted ReadDir(n<=0) returned all the remaining entries: pos is then the length of the listing)
         [] OTHER -> h

\* replay of a whole logged sequence: cause of the first step the contract rejects ("" = none)
RECURSIVE ReplayFrom(_, _, _, _)
ReplayFrom(F, h, res, i) ==
  IF i > Len(res) THEN ""
  ELSE FirstOr(StepCause(F, h, res[i]), ReplayFrom(F, StepNext(F, h, res[i]), res, i + 1))
\* a logged case: [files, name, open, res]
CaseCause(F, p, o, res) ==
  FirstOr(OpenCause(F, p, o), IF o.err # "nil" THEN "" ELSE ReplayFrom(F, RefOpen(F, p), res, 1))

(* ---- a canonical resolution of the contract's choices (used by MC to show the contract is satisfiable
        and to check its design-level invariants; the Trace spec never uses it) ---- *)
NoInfo == [name |-> <<>>, isdir |-> 0, mtyp |-> "", size |-> 0, perm |-> 0]
RefInfo(F, q) == [name |-> Base(q), isdir |-> IF IsFile(F, q) THEN 0 ELSE 1,
                  mtyp |-> IF IsFile(F, q) THEN "file" ELSE "dir",
                  size |-> IF IsFile(F, q) THEN Len(DataOf(F, q)) ELSE 0, perm |-> 0]
RefStat(F, q) == LET i == RefInfo(F, q) IN [err |-> "nil", name |-> i.name, isdir |-> i.isdir, mtyp |-> i.mtyp, size |-> i.size, perm |-> i.perm]
RefEntry(F, p, c) == LET i == RefInfo(F, Join(p, c)) IN
  [name |-> c, isdir |-> i.isdir, typ |-> i.mtyp, ierr |-> "nil", info |-> i, st |-> RefStat(F, Join(p, c))]
\* the logged shape of a result: every record has op, n, err; stat adds info, read adds data, readdir adds ents
Res(op, n, err, data, ents, info) ==
  CASE op = "stat" -> [op |-> op, n |-> n, err |-> err, info |-> info]
    [] op = "read" -> [op |-> op, n |-> n, err |-> err, data |-> data]
    [] op = "readdir" -> [op |-> op, n |-> n, err |-> err, ents |-> ents]
    [] OTHER -> [op |-> op, n |-> n, err |-> err]
Min(a, b) == IF a < b THEN a ELSE b
RefStep(F, h, op) ==
  IF h.closed THEN Res(op.op, op.n, "closed", <<>>, <<>>, NoInfo)
  ELSE CASE op.op = "stat" -> Res("stat", 0, "nil", <<>>, <<>>, RefInfo(F, h.path))
         [] op.op = "close" -> Res("close", 0, "nil", <<>>, <<>>, NoInfo)
         [] op.op = "read" ->
              IF h.kind = "dir" THEN Res("read", op.n, "other", <<>>, <<>>, NoInfo)
              ELSE LET rem == From(DataOf(F, h.path), h.pos + 1) k == Min(op.n, Len(rem)) IN
                   Res("read", op.n, IF rem = <<>> /\ op.n > 0 THEN "EOF" ELSE "nil", Sub(rem, 1, k), <<>>, NoInfo)
         [] op.op = "readdir" ->
              IF h.kind = "file" THEN Res("readdir", op.n, "noreaddir", <<>>, <<>>, NoInfo)
              ELSE LET rem == From(Listing(F, h.path), h.pos + 1)
                       k == IF op.n > 0 THEN Min(op.n, Len(rem)) ELSE Len(rem) IN
                   Res("readdir", op.n, IF op.n > 0 /\ rem = <<>> THEN "EOF" ELSE "nil", <<>>,
                       [j \in 1..k |-> RefEntry(F, h.path, rem[j])], NoInfo)

(* ======================================================================================= *)
(* Part II - IMPLEMENTATION-SHAPED MODEL of files.go                                         *)
(* ======================================================================================= *)
\* handle as in the code: filesFile{name, data, offset, mode} (+ filesDir.n); mode "dir" = fs.ModeDir, "0"
ImplNone == [kind |-> "none", name |-> <<>>, data |-> <<>>, offset |-> 0, mode |-> "0", n |-> 0]

\* Files.Open
ImplOpen(F, name) ==
  IF ValidPath(name) /\ name = Root
    THEN [err |-> "nil", g |-> [kind |-> "dir", name |-> name, data |-> <<>>, offset |-> 0, mode |-> "dir", n |-> 0]]
  ELSE IF ValidPath(name) /\ name \in NameSet(F)                                  \* data, ok := fsys[name]
    THEN [err |-> "nil", g |-> [kind |-> "file", name |-> name, data |-> DataOf(F, name), offset |-> 0, mode |-> "0", n |-> 0]]
  ELSE IF ValidPath(name) /\ \E m \in NameSet(F) : HasPrefix(m, name \o <<Slash>>) \* for n := range fsys { HasPrefix(n, prefix) }
    THEN [err |-> "nil", g |-> [kind |-> "dir", name |-> name, data |-> <<>>, offset |-> 0, mode |-> "dir", n |-> 0]]
  ELSE [err |-> "notexist", g |-> ImplNone]                                        \* &os.PathError{..., os.ErrNotExist}

\* filesFileInfo methods over a (name, data, mode) triple
ImplInfo(name, data, mode) == [name |-> Base(name), isdir |-> IF mode = "dir" THEN 1 ELSE 0,
                               mtyp |-> IF mode = "dir" THEN "dir" ELSE "file", size |-> Len(data), perm |-> 0]
ImplStatOfPath(F, q) == LET o == ImplOpen(F, q) IN
  IF o.err # "nil" THEN [err |-> o.err, name |-> <<>>, isdir |-> 0, mtyp |-> "", size |-> 0, perm |-> 0]
  ELSE LET i == ImplInfo(o.g.name, o.g.data, o.g.mode) IN
       [err |-> "nil", name |-> i.name, isdir |-> i.isdir, mtyp |-> i.mtyp, size |-> i.size, perm |-> i.perm]

\* the `for name := range d.fsys` loop of ReadDir, one iteration per call (map order = order of F; the
\* result is sorted afterwards and the hasDir test is order-independent)
RECURSIVE ImplCollect(_, _, _, _, _)
ImplCollect(F, dir, i, names, hasDir) ==
  IF i > Len(F) THEN names
  ELSE LET name == F[i].n IN
       IF ~HasPrefix(name, dir) THEN ImplCollect(F, dir, i + 1, names, hasDir)                      \* continue
       ELSE LET j == IndexByteFrom(From(name, Len(dir) + 1), Slash, 1) IN                            \* IndexByte(name[len(dir):], '/') + 1
            IF j > 1                                                                                 \* i > 0
            THEN LET nm == Sub(name, 1, Len(dir) + j - 1) IN
                 IF nm \in hasDir THEN ImplCollect(F, dir, i + 1, names, hasDir)                    \* continue
                 ELSE ImplCollect(F, dir, i + 1, Append(names, nm), hasDir \cup {nm})
            ELSE ImplCollect(F, dir, i + 1, Append(names, name), hasDir)
\* sort.Strings (insertion sort; stable, duplicates kept)
RECURSIVE ImplInsert(_, _, _)
ImplInsert(s, x, i) == IF i > Len(s) THEN Append(s, x)
                       ELSE IF LexLess(x, s[i]) THEN Sub(s, 1, i - 1) \o <<x>> \o From(s, i)
                       ELSE ImplInsert(s, x, i + 1)
RECURSIVE ImplSortFrom(_, _, _)
ImplSortFrom(s, i, acc) == IF i > Len(s) THEN acc ELSE ImplSortFrom(s, i + 1, ImplInsert(acc, s[i], 1))
ImplSort(s) == ImplSortFrom(s, 1, <<>>)

\* entries[i] = &filesDirEntry{filesFileInfo{name: name}}   (as written: no data, no mode)
\* fixed: data and mode taken from the map (a name that is not a key is an implied directory)
ImplEntry(F, dirname, full, variant) ==
  LET isf == full \in NameSet(F)
      data == IF variant = "fixed" /\ isf THEN DataOf(F, full) ELSE <<>>
      mode == IF variant = "fixed" /\ ~isf THEN "dir" ELSE "0"
      i == ImplInfo(full, data, mode) IN
  [name |-> i.name, isdir |-> i.isdir, typ |-> i.mtyp, ierr |-> "nil", info |-> i,
   st |-> ImplStatOfPath(F, Join(dirname, i.name))]

ImplReadDirK(F, g, n, variant, names) ==
  LET ent(s) == [j \in 1..Len(s) |-> ImplEntry(F, g.name, s[j], variant)] IN
  IF variant = "as_written" THEN
    IF n > 0 THEN
      IF Len(names) <= g.n THEN [res |-> Res("readdir", n, "EOF", <<>>, <<>>, NoInfo), g |-> g]
      ELSE LET a == From(names, g.n + 1)                                  \* names = names[d.n:]
               b == IF Len(a) > n THEN Sub(a, 1, n) ELSE a IN             \* names = names[:n]
           [res |-> Res("readdir", n, "nil", <<>>, ent(b), NoInfo), g |-> [g EXCEPT !.n = g.n + Len(b)]]
    ELSE [res |-> Res("readdir", n, "nil", <<>>, ent(names), NoInfo), g |-> g]   \* n <= 0: offset neither used nor advanced
  ELSE \* fixed: the offset applies to every n
    IF Len(names) <= g.n THEN [res |-> Res("readdir", n, IF n > 0 THEN "EOF" ELSE "nil", <<>>, <<>>, NoInfo), g |-> g]
    ELSE LET a == From(names, g.n + 1)
             b == IF n > 0 /\ Len(a) > n THEN Sub(a, 1, n) ELSE a IN
         [res |-> Res("readdir", n, "nil", <<>>, ent(b), NoInfo), g |-> [g EXCEPT !.n = g.n + Len(b)]]

ImplReadDir(F, g, n, variant) ==
  ImplReadDirK(F, g, n, variant, ImplSort(ImplCollect(F, IF g.name # Root THEN g.name \o <<Slash>> ELSE <<>>, 1, <<>>, {})))

\* filesFile.Read (also what a filesDir answers: it embeds filesFile with nil data)
ImplRead(g, n) ==
  IF g.offset < 0 THEN [res |-> Res("read", n, "invalid", <<>>, <<>>, NoInfo), g |-> g]
  ELSE IF g.offset = Len(g.data) THEN [res |-> Res("read", n, "EOF", <<>>, <<>>, NoInfo), g |-> g]
  ELSE LET k == Min(n, Len(g.data) - g.offset) IN                          \* copy(p, f.data[f.offset:])
       [res |-> Res("read", n, "nil", Sub(g.data, g.offset + 1, g.offset + k), <<>>, NoInfo), g |-> [g EXCEPT !.offset = g.offset + k]]

ImplStep(F, g, op, variant) ==
  CASE op.op = "stat" -> [res |-> Res("stat", 0, "nil", <<>>, <<>>, ImplInfo(g.name, g.data, g.mode)), g |-> g]
    [] op.op = "close" -> [res |-> Res("close", 0, "nil", <<>>, <<>>, NoInfo), g |-> [g EXCEPT !.offset = -1]]
    [] op.op = "read" -> ImplRead(g, op.n)
    [] op.op = "readdir" -> IF g.kind = "dir" THEN ImplReadDir(F, g, op.n, variant)
                            ELSE [res |-> Res("readdir", op.n, "noreaddir", <<>>, <<>>, NoInfo), g |-> g]   \* *filesFile has no ReadDir

\* whole run of a case through the model: <<open result, results>>
RECURSIVE ImplRunFrom(_, _, _, _, _), ImplRunCons(_, _, _, _, _)
ImplRunFrom(F, g, ops, i, variant) ==
  IF i > Len(ops) THEN <<>> ELSE ImplRunCons(F, ops, i, variant, ImplStep(F, g, ops[i], variant))
ImplRunCons(F, ops, i, variant, s) == <<s.res>> \o ImplRunFrom(F, s.g, ops, i + 1, variant)
=============================================================================

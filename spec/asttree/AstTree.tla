------------------------------- MODULE AstTree -------------------------------
(* C28.  "CloneTree, CloneNode and CloneExpression return trees structurally equal to their input that
   share no mutable node with it, so mutating the copy never changes the original; Walk and Inspect
   visit every node of a tree exactly once."

   A tree is logged (and modelled) as a pointer graph in pre-order:
     g.nodes[i] = [k |-> kind, p |-> pseudo (part of the structure but not an ast.Node: Field,
                   Parameter, KeyValue), v |-> <<<<scalar name, value>>, ...>>,
                   f |-> <<[n |-> field name, m |-> "one" | "list" | "xref", c |-> <<child indices, 0 = nil>>], ...>>]
     g.pids[i]  = identity of node i (a number per distinct pointer, shared by all graphs of one record)
   Child indices are local (position in g.nodes), so two graphs have the same shape and scalars exactly
   when their node sequences are equal.  "xref" fields hold the expanded tree of another file
   (Import/Extends/Render .Tree): cloned with the node, but not part of the tree Walk traverses
   (reading chosen: "a tree" is the tree of one file; astutil's own Dump treats them as external). *)
EXTENDS Integers, Sequences, FiniteSets

(* ---------- reference: Walk ---------- *)
\* nodes Walk must visit below node i, in field order: nil skipped, xref not followed, pseudo nodes transparent
RECURSIVE KidsFrom(_, _, _)
RECURSIVE ElemKids(_, _, _)
ElemKids(g, c, j) ==
  IF j > Len(c) THEN <<>>
  ELSE (IF c[j] = 0 THEN <<>> ELSE IF g.nodes[c[j]].p THEN KidsFrom(g, c[j], 1) ELSE <<c[j]>>) \o ElemKids(g, c, j + 1)
KidsFrom(g, i, x) ==
  IF x > Len(g.nodes[i].f) THEN <<>>
  ELSE (IF g.nodes[i].f[x].m = "xref" THEN <<>> ELSE ElemKids(g, g.nodes[i].f[x].c, 1)) \o KidsFrom(g, i, x + 1)
Kids(g, i) == KidsFrom(g, i, 1)

\* the callbacks of a depth-first pre-order walk that always descends: node, its subtrees, then the nil "exit" call (0)
RECURSIVE Pre(_, _)
RECURSIVE PreAll(_, _, _)
PreAll(g, ks, j) == IF j > Len(ks) THEN <<>> ELSE Pre(g, ks[j]) \o PreAll(g, ks, j + 1)
Pre(g, i) == <<i>> \o PreAll(g, Kids(g, i), 1) \o <<0>>

ToSet(s) == {s[i] : i \in 1..Len(s)}
Count(s, x) == Cardinality({i \in 1..Len(s) : s[i] = x})
Wanted(g, root) == ToSet(Pre(g, root)) \ {0}
\* property clause: every node exactly once (and nothing of the tree twice)
Missing(log, g, root) == {n \in Wanted(g, root) : Count(log, n) = 0}
Repeated(log, g, root) == {n \in Wanted(g, root) : Count(log, n) > 1}
EachOnce(log, g, root) == Missing(log, g, root) = {} /\ Repeated(log, g, root) = {}
\* property clause: what is visited is a node.  "Visit every node exactly once" makes the visits and the nodes correspond
\* one to one: a callback whose argument is a nil pointer wrapped in a non-nil ast.Node (logged as -1: the nil child
\* of some node, e.g. the absent text of an empty raw statement) is a visit of something that is not a node of any
\* tree - Walk's documentation: "on all children other than nil".  Reading chosen for -2 (a node that is not in the
\* graph of this tree, such as a node of the expanded tree of another file): not excluded by the statement, diagnostic.
NonNodes(log) == {i \in 1..Len(log) : log[i] = -1}
OnlyNodes(log) == NonNodes(log) = {}
\* the callback that is "open" when callback i is made: the last earlier visit whose nil "exit" call has not come yet
\* (0: none) - the node among whose children the walk found what it visits at i
RECURSIVE OpenBefore(_, _, _)
OpenBefore(log, j, closed) ==
  IF j = 0 THEN 0
  ELSE IF log[j] = 0 THEN OpenBefore(log, j - 1, closed + 1)
  ELSE IF closed = 0 THEN j ELSE OpenBefore(log, j - 1, closed - 1)
OpenAt(log, i) == OpenBefore(log, i - 1, 0)
\* the edge (visiting node, field) through which a node should have been reached
EdgeTo(g, root, n) ==
  LET E == {<<i, x>> \in (Wanted(g, root) \X (1..8)) : x <= Len(g.nodes[i].f) /\ g.nodes[i].f[x].m # "xref"
                                                       /\ n \in ToSet(ElemKids(g, g.nodes[i].f[x].c, 1))} IN
  IF E = {} THEN <<"-", "-">> ELSE LET e == CHOOSE e \in E : TRUE IN <<g.nodes[e[1]].k, g.nodes[e[1]].f[e[2]].n>>
ParentOf(g, root, n) ==
  LET P == {i \in Wanted(g, root) : n \in ToSet(Kids(g, i))} IN IF P = {} THEN 0 ELSE CHOOSE i \in P : TRUE

(* ---------- reference: Clone ---------- *)
\* first difference between the subtree of A rooted at i and the subtree of B rooted at j, found by descending
\* both in parallel (depth first): <<>> when structurally equal (kinds, scalars, nil-ness and number of children,
\* recursively), else <<kind of the node where they differ, field or scalar name, what differs>>
FirstDiff(a, b) == LET n == IF Len(a) < Len(b) THEN Len(a) ELSE Len(b)
                       D == {i \in 1..n : a[i] # b[i]} IN
                   IF D = {} THEN 0 ELSE CHOOSE i \in D : \A j \in D : i <= j
NilPattern(c) == [e \in 1..Len(c) |-> c[e] = 0]
\* a different node sits in the slot: another kind, or a node of the same kind differing in two or more scalars
\* (position and name, ...); a node differing in a single scalar is a copy of the right node with that scalar wrong
NDiff(x, y) == IF Len(x.v) # Len(y.v) THEN 2 ELSE Cardinality({q \in 1..Len(x.v) : x.v[q] # y.v[q]})
OtherNode(x, y) == x.k # y.k \/ Len(x.f) # Len(y.f) \/ NDiff(x, y) >= 2
RECURSIVE DiffAt(_, _, _, _)
RECURSIVE FieldsDiff(_, _, _, _, _)
RECURSIVE ElemsDiff(_, _, _, _, _)
ElemsDiff(A, ca, B, cb, e) ==
  IF e > Len(ca) THEN <<>>
  ELSE IF ca[e] = 0 THEN ElemsDiff(A, ca, B, cb, e + 1)
  ELSE LET d == DiffAt(A, ca[e], B, cb[e]) IN IF d # <<>> THEN d ELSE ElemsDiff(A, ca, B, cb, e + 1)
FieldsDiff(A, i, B, j, x) ==
  IF x > Len(A[i].f) THEN <<>>
  ELSE LET ca == A[i].f[x].c  cb == B[j].f[x].c IN
       IF \/ NilPattern(ca) # NilPattern(cb)
          \/ \E e \in 1..Len(ca) : ca[e] # 0 /\ OtherNode(A[ca[e]], B[cb[e]])
       THEN <<A[i].k, A[i].f[x].n, "children">>
       ELSE LET d == ElemsDiff(A, ca, B, cb, 1) IN IF d # <<>> THEN d ELSE FieldsDiff(A, i, B, j, x + 1)
DiffAt(A, i, B, j) ==
  LET x == A[i]  y == B[j] IN
  IF x.k # y.k \/ Len(x.f) # Len(y.f) THEN <<x.k, "-", "kind">>
  ELSE IF x.v # y.v THEN LET q == FirstDiff(x.v, y.v) IN <<x.k, IF q = 0 THEN "-" ELSE x.v[q][1], "scalar">>
  ELSE FieldsDiff(A, i, B, j, 1)
DiffOf(a, b) == IF a = <<>> \/ b = <<>> THEN (IF a = b THEN <<>> ELSE <<"-", "-", "size">>) ELSE DiffAt(a, 1, b, 1)
Iso(a, b) == DiffOf(a.nodes, b.nodes) = <<>>                     \* structurally equal: kinds, scalars, shape
Disjoint(a, b) == ToSet(a.pids) \cap ToSet(b.pids) = {}          \* no node of the copy is a node of the original
Unchanged(before, after) == before = after                       \* the original (same pointers, same content) after the copy was mutated
ChangeOf(before, after) == LET d == DiffOf(before.nodes, after.nodes) IN IF d = <<>> THEN <<before.nodes[1].k, "-", "identity">> ELSE d

(* ---------- model: a correct Clone (fresh identities, equal shape) and two broken ones ---------- *)
MaxPid(g) == IF g.pids = <<>> THEN 0 ELSE CHOOSE m \in ToSet(g.pids) : \A x \in ToSet(g.pids) : x <= m
\* a walk that also "visits" a nil child: a -1 callback and its exit call right after the first callback
Spurious(log) == <<log[1], 0 - 1, 0>> \o SubSeq(log, 2, Len(log))
ModelClone(g) == [nodes |-> g.nodes, pids |-> [i \in 1..Len(g.pids) |-> g.pids[i] + MaxPid(g)]]
ShallowClone(g) == [nodes |-> g.nodes, pids |-> [i \in 1..Len(g.pids) |-> IF i = 1 THEN g.pids[i] + MaxPid(g) ELSE g.pids[i]]]
=============================================================================

------------------------------- MODULE AstTree -------------------------------
(* C28.  "CloneTree, CloneNode and CloneExpression return trees structurally equal to their input that
   share no mutable node with it, so mutating the copy never changes the original; Walk and Inspect
   visit every node of a tree exactly once."

   A tree is logged (and modelled) as a pointer graph in pre-order:
     g.nodes[i] = [k |-> kind, p |-> pseudo (part of the structure but not an ast.Node: Field,
                   Parameter, KeyValue), v |-> <<<<scalar name, value>>, ...>>,
                   f |-> <<[n |-> field name, m |-> "one" | "list" | "xref", c |-> <<child indices, 0 = nil>>], ...>>]
     g.pids[i]  = identity of node i (a number per distinct pointer, shared by all graphs of one record)
   Child indices are local (position in g.nodes), so two graphs have the same shape and scalars exactly
   when their node sequences are equal.  "xref" fields hold the expanded tree of another file
   (Import/Extends/Render .Tree): cloned with the node, but not part of the tree Walk traverses
   (reading chosen: "a tree" is the tree of one file; astutil's own Dump treats them as external). *)
EXTENDS Integers, Sequences, FiniteSets

(* ---------- reference: Walk ---------- *)
\* nodes Walk must visit below node i, in field order: nil skipped, xref not followed, pseudo nodes transparent
RECURSIVE KidsFrom(_, _, _)
RECURSIVE ElemKids(_, _, _)
ElemKids(g, c, j) ==
  IF j > Len(c) THEN <<>>
  ELSE (IF c[j] = 0 THEN <<>> ELSE IF g.nodes[c[j]].p THEN KidsFrom(g, c[j], 1) ELSE <<c[j]>>) \o ElemKids(g, c, j + 1)
KidsFrom(g, i, x) ==
  IF x > Len(g.nodes[i].f) THEN <<>>
  ELSE (IF g.nodes[i].f[x].m = "xref" THEN <<>> ELSE ElemKids(g, g.nodes[i].f[x].c, 1)) \o KidsFrom(g, i, x + 1)
Kids(g, i) == KidsFrom(g, i, 1)

\* the callbacks of a depth-first pre-order walk that always descends: node, its subtrees, then the nil "exit" call (0)
RECURSIVE Pre(_, _)
RECURSIVE PreAll(_, _, _)
PreAll(g, ks, j) == IF j > Len(ks) THEN <<>> ELSE Pre(g, ks[j]) \o PreAll(g, ks, j + 1)
Pre(g, i) == <<i>> \o PreAll(g, Kids(g, i), 1) \o <<0>>

ToSet(s) == {s[i] : i \in 1..Len(s)}
Count(s, x) == Cardinality({i \in 1..Len(s) : s[i] = x})
Wanted(g, root) == ToSet(Pre(g, root)) \ {0}
\* property clause: every node exactly once (and nothing of the tree twice)
Missing(log, g, root) == {n \in Wanted(g, root) : Count(log, n) = 0}
Repeated(log, g, root) == {n \in Wanted(g, root) : Count(log, n) > 1}
EachOnce(log, g, root) == Missing(log, g, root) = {} /\ Repeated(log, g, root) = {}
\* the edge (visiting node, field) through which a node should have been reached
EdgeTo(g, root, n) ==
  LET E == {<<i, x>> \in (Wanted(g, root) \X (1..8)) : x <= Len(g.nodes[i].f) /\ g.nodes[i].f[x].m # "xref"
                                                       /\ n \in ToSet(ElemKids(g, g.nodes[i].f[x].c, 1))} IN
  IF E = {} THEN <<"-", "-">> ELSE LET e == CHOOSE e \in E : TRUE IN <<g.nodes[e[1]].k, g.nodes[e[1]].f[e[2]].n>>
ParentOf(g, root, n) ==
  LET P == {i \in Wanted(g, root) : n \in ToSet(Kids(g, i))} IN IF P = {} THEN 0 ELSE CHOOSE i \in P : TRUE

(* ---------- reference: Clone ---------- *)
Iso(a, b) == a.nodes = b.nodes                                   \* same kinds, scalars, shape (local numbering)
Disjoint(a, b) == ToSet(a.pids) \cap ToSet(b.pids) = {}          \* no node of the copy is a node of the original
Unchanged(before, after) == before.nodes = after.nodes           \* the original after the copy was mutated
FirstDiff(a, b) == LET n == IF Len(a) < Len(b) THEN Len(a) ELSE Len(b)
                       D == {i \in 1..n : a[i] # b[i]} IN
                   IF D = {} THEN 0 ELSE CHOOSE i \in D : \A j \in D : i <= j
\* what differs first between two node sequences: <<kind, field or scalar name, cause>>
DiffOf(a, b) ==
  LET i == FirstDiff(a, b) IN
  IF i = 0 THEN <<IF Len(a) > 0 THEN a[1].k ELSE "-", "-", "size">>
  ELSE LET x == a[i]  y == b[i] IN
       IF x.k # y.k THEN <<x.k, "-", "kind">>
       ELSE IF x.v # y.v
            THEN LET j == FirstDiff(x.v, y.v) IN <<x.k, IF j = 0 THEN "-" ELSE x.v[j][1], "scalar">>
            ELSE LET j == FirstDiff(x.f, y.f) IN <<x.k, IF j = 0 THEN "-" ELSE x.f[j].n, "children">>

(* ---------- model: a correct Clone (fresh identities, equal shape) and two broken ones ---------- *)
MaxPid(g) == IF g.pids = <<>> THEN 0 ELSE CHOOSE m \in ToSet(g.pids) : \A x \in ToSet(g.pids) : x <= m
ModelClone(g) == [nodes |-> g.nodes, pids |-> [i \in 1..Len(g.pids) |-> g.pids[i] + MaxPid(g)]]
ShallowClone(g) == [nodes |-> g.nodes, pids |-> [i \in 1..Len(g.pids) |-> IF i = 1 THEN g.pids[i] + MaxPid(g) ELSE g.pids[i]]]
=============================================================================

---------------------------- MODULE MC_AstTreeGen ----------------------------
(* Enumeration of the generated case space of AstTreeGen by TLC: one state per case of space "A" (every
   combination of the alternatives of every production) and of space "B" (every production at every place of every
   production).  Every state is exported through the invariant Export (a line <<"CASE", json>> in TLC's output,
   collected by checks/c28.py). *)
EXTENDS AstTreeGen
CONSTANTS BMod, Seed
VARIABLE c

NP == Len(Prods)
\* sanity of the grammar: names identify productions, classes and contexts are the known ones
ASSUME LET PS == Prods IN
       /\ \A i, j \in 1..Len(PS) : (PS[i].name = PS[j].name /\ PS[i].nt = PS[j].nt) => i = j
       /\ \A i \in 1..Len(PS) : PS[i].nt \in {"T", "S", "Simple", "Expr", "Type"} /\ PS[i].ctx \in {"", "loop", "func"}

\* One initial state per production; its successors are the cases of the production (so that the workers share the
\* enumeration).  Productions are bound as values: TLC re-evaluates a definition such as Prods[i] at every use.
\* Space A is always enumerated in full.  Space B is enumerated in full when BMod = 1; otherwise the slice of it whose
\* index hash is congruent to Seed modulo BMod (the quick tier: a different slice for every seed, BMod seeds cover it).
RECURSIVE VSum(_, _)
VSum(v, k) == IF k > Len(v) THEN 0 ELSE v[k] + VSum(v, k + 1)
InSlice(i, pl, j, m) == (i * 131 + j * 31 + pl[2] * 7 + VSum(pl[1], 1) * 3 + m + Seed) % BMod = 0
Init == \E i \in 1..NP : c = [space |-> "P", i |-> i]
Next == /\ c.space = "P"
        /\ \E p \in {Prods[c.i]} :
             \/ \E v \in Vecs(AltLens(p.items), 1) : c' = CaseA(p, v)
             \/ \E pl \in PlacesB(p) : \E j \in {j \in 1..NP : Prods[j].nt = pl[3]} : \E m \in {1, 2} :
                  /\ InSlice(c.i, pl, j, m)
                  /\ \E q \in {Prods[j]} : c' = CaseB(p, pl[1], pl[2], q, IF m = 1 THEN MinVec(q.items) ELSE MaxVec(q.items))

Export == c.space # "P" => PrintT(<<"CASE", ToJson(c)>>)
WellFormed == c.space # "P" => c.toks # <<>> /\ c.space \in {"A", "B"}
=============================================================================

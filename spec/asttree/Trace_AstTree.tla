----------------------------- MODULE Trace_AstTree -----------------------------
(* Judges observations of the real astutil.CloneNode / CloneExpression / CloneTree / Walk / Inspect,
   one record per line of obs.ndjson - one record per (node of a corpus or generated tree, API):
     {id, tree, sub, api, kind, orig, clone, copy, mutate, after, walk, wlog, inspect, ilog, cbelow, wbelow}
   orig   pointer graph of the subtree rooted at the node (see AstTree.tla)
   clone  "ok" | "panic";  copy = pointer graph of the returned clone (same identity numbering)
   after  pointer graph of the original, logged again after the driver mutated every scalar, position,
          parenthesis count, byte and child-slice element of the clone
   walk / inspect  "ok" | "panic" | "skip";  wlog / ilog = the Visit callbacks as node indices of orig
          (0 = the nil "exit" call, -1 = a non-nil interface holding a nil pointer, -2 = not a node of orig)
   cbelow / wbelow  whether CloneNode / Walk also panics on some subtree strictly below this node
          (then this record is not the root cause: class "masked", counted).

   PROPERTY clauses:  Iso(orig, copy), Disjoint(orig, copy), Unchanged(orig, after), EachOnce(wlog),
   EachOnce(ilog), OnlyNodes(wlog), OnlyNodes(ilog) (no callback with a nil pointer wrapped in a non-nil ast.Node);
   a panic of the API on a subtree none of whose proper subtrees panics.
   DIAGNOSTIC (class "drift"): callback order differs from field order; callbacks with a foreign node. *)
EXTENDS AstTree, TLC, Json, SequencesExt

Obs == ndJsonDeserialize("obs.ndjson")
Sg(op, cause, kind, field) == [fam |-> "asttree", op |-> op, cause |-> cause, kind |-> kind, field |-> field]

\* nodes of the copy that are nodes of the original; the edge <<parent index, field index>> into a node (<<0, 0>>: root)
SharedIdx(r) == {i \in 1..Len(r.copy.pids) : r.copy.pids[i] \in ToSet(r.orig.pids)}
EdgeInto(g, i) == LET E == {e \in (1..Len(g.nodes)) \X (1..8) : e[2] <= Len(g.nodes[e[1]].f) /\ i \in ToSet(g.nodes[e[1]].f[e[2]].c)} IN
                  IF E = {} THEN <<0, 0>> ELSE CHOOSE e \in E : TRUE
CopyCause(x) == CASE x = "kind" -> "copy-differs-kind" [] x = "scalar" -> "copy-differs-scalar"
                  [] x = "children" -> "copy-differs-children" [] OTHER -> "copy-differs-size"
ChangedCause(x) == CASE x = "kind" -> "original-changed-kind" [] x = "scalar" -> "original-changed-scalar"
                     [] x = "children" -> "original-changed-children" [] OTHER -> "original-changed-size"
CloneSigs(r) ==
  IF r.clone = "panic" THEN (IF r.cbelow THEN {} ELSE {Sg(r.api, "panic", r.kind, "-")})
  ELSE (IF Iso(r.orig, r.copy) THEN {}
        ELSE LET d == DiffOf(r.orig.nodes, r.copy.nodes) IN {Sg(r.api, CopyCause(d[3]), d[1], d[2])})
       \cup (IF Disjoint(r.orig, r.copy) THEN {}
             ELSE {LET e == EdgeInto(r.copy, i) IN
                   Sg(r.api, "shared-node", IF e[1] = 0 THEN r.copy.nodes[i].k ELSE r.copy.nodes[e[1]].k,
                                            IF e[1] = 0 THEN "-" ELSE r.copy.nodes[e[1]].f[e[2]].n) :
                   i \in {i \in SharedIdx(r) : EdgeInto(r.copy, i)[1] \notin SharedIdx(r)}})
       \cup (IF r.mutate # "ok" \/ Unchanged(r.orig, r.after) THEN {}
             ELSE LET d == ChangeOf(r.orig, r.after) IN {Sg(r.api, ChangedCause(d[3]), d[1], d[2])})

\* a callback with a nil child: named after the node under which it was made and, when that node has exactly one nil
\* single-child field, after that field
NilOneFields(nd) == {x \in 1..Len(nd.f) : nd.f[x].m = "one" /\ nd.f[x].c = <<0>>}
NonNodeSig(op, log, i, r) ==
  LET o == OpenAt(log, i) IN
  IF o = 0 \/ (o > 0 /\ log[o] <= 0) THEN Sg(op, "visited-non-node", "-", "-")
  ELSE LET nd == r.orig.nodes[log[o]]  F == NilOneFields(nd) IN
       Sg(op, "visited-non-node", nd.k, IF Cardinality(F) = 1 THEN nd.f[CHOOSE x \in F : TRUE].n ELSE "-")
VisitSigs(op, outcome, below, log, r) ==
  IF outcome = "skip" THEN {}
  ELSE IF outcome = "panic" THEN (IF below THEN {} ELSE {Sg(op, "panic", r.kind, "-")})
  ELSE {LET e == EdgeTo(r.orig, 1, n) IN Sg(op, "not-visited", e[1], e[2]) :
          n \in {m \in Missing(log, r.orig, 1) : ParentOf(r.orig, 1, m) = 0 \/ Count(log, ParentOf(r.orig, 1, m)) > 0}}
       \cup {Sg(op, "visited-twice", r.orig.nodes[n].k, "-") : n \in Repeated(log, r.orig, 1)}
       \cup {NonNodeSig(op, log, i, r) : i \in NonNodes(log)}

Sigs(r) == CloneSigs(r) \cup VisitSigs("Walk", r.walk, r.wbelow, r.wlog, r) \cup VisitSigs("Inspect", r.inspect, r.wbelow, r.ilog, r)
Masked(r) == (r.clone = "panic" /\ r.cbelow) \/ (r.walk = "panic" /\ r.wbelow)
DriftSigs(r) ==
  (IF r.walk = "ok" /\ EachOnce(r.wlog, r.orig, 1) /\ r.wlog # Pre(r.orig, 1) /\ \A i \in 1..Len(r.wlog) : r.wlog[i] >= 0
   THEN {Sg("Walk", "order-differs-from-field-order", r.kind, "-")} ELSE {})
  \cup {Sg("Walk", "foreign-callback", r.kind, "-") : i \in {i \in 1..Len(r.wlog) : r.wlog[i] = -2}}
Judge(r) == LET s == Sigs(r)  d == DriftSigs(r) IN
            [cls |-> IF s # {} THEN "violation" ELSE IF Masked(r) THEN "masked" ELSE IF d # {} THEN "drift" ELSE "ok",
             sigs |-> s, dsigs |-> d]

(* ---- record walk: every record that is not "ok" is listed with its signatures ---- *)
J == [i \in 1..Len(Obs) |-> Judge(Obs[i])]                  \* each record judged once
VARIABLES l, nbad
Init == l = 1 /\ nbad = 0
Next == l <= Len(Obs) /\ l' = l + 1 /\ nbad' = nbad + (IF J[l].cls = "ok" THEN 0 ELSE 1)
BadIdx == SelectSeq([i \in 1..Len(Obs) |-> i], LAMBDA i : J[i].cls # "ok")
Out == [j \in 1..Len(BadIdx) |->
          LET i == BadIdx[j] IN
          [k |-> i, id |-> Obs[i].id, cls |-> J[i].cls, sigs |-> SetToSeq(J[i].sigs), dsigs |-> SetToSeq(J[i].dsigs)]]
Done == l = Len(Obs) + 1 => ndJsonSerialize("bad.ndjson", IF nbad = 0 THEN <<>> ELSE Out)
Consumed == TLCGet("stats").diameter - 1 = Len(Obs)
=============================================================================

------------------------------ MODULE MC_AstTree ------------------------------
(* Model check over the SCHEMA of package ast (schema.ndjson, produced by reflection on the real Go
   types at check time): every tree of at most MaxNodes nodes is built in pre-order (root: one kind per
   distinct field shape of the schema; children: one kind per shape with at most ChildFields fields), then a
   stack-machine Walk (one action per Visit call, as astutil.Walk recurses) traverses it.
   Invariants at the end: the walk's callbacks are the reference pre-order and satisfy EachOnce; the
   model Clone is accepted by Iso/Disjoint; a shallow clone, a walk that drops a child and a walk that
   "visits" a nil child are rejected (so the judge's predicates are not vacuous). *)
EXTENDS AstTree, TLC, Json
CONSTANTS MaxNodes, MaxList, ChildFields

Schema == ndJsonDeserialize("schema.ndjson")
KindSet == {Schema[i] : i \in 1..Len(Schema)}
Shape(e) == <<[i \in 1..Len(e.f) |-> e.f[i].m], e.node>>
Shapes == {Shape(e) : e \in KindSet}
RootKinds == {CHOOSE e \in KindSet : Shape(e) = sh : sh \in Shapes}
ChildKinds == {e \in RootKinds : Len(e.f) <= ChildFields}
NewNode(e) == [k |-> e.k, p |-> ~e.node, v |-> <<>>,
               f |-> [i \in 1..Len(e.f) |-> [n |-> e.f[i].n, m |-> e.f[i].m, c |-> <<>>]]]

VARIABLES nodes, path, phase, stack, log
vars == <<nodes, path, phase, stack, log>>
G == [nodes |-> nodes, pids |-> [i \in 1..Len(nodes) |-> i]]

Init == /\ \E e \in RootKinds : nodes = <<NewNode(e)>>
        /\ path = <<[n |-> 1, x |-> 1]>> /\ phase = "build" /\ stack = <<>> /\ log = <<>>

Top == path[Len(path)]
SetC(n, x, c) == [nodes EXCEPT ![n].f[x].c = c]
Advance == [path EXCEPT ![Len(path)].x = @ + 1]
\* ---- build: fill the fields of the node on top of the path, depth first ----
Pop == /\ phase = "build" /\ path # <<>> /\ Top.x > Len(nodes[Top.n].f)
       /\ path' = SubSeq(path, 1, Len(path) - 1) /\ UNCHANGED <<nodes, phase, stack, log>>
FillNil == /\ phase = "build" /\ path # <<>> /\ Top.x <= Len(nodes[Top.n].f)
           /\ nodes[Top.n].f[Top.x].m \in {"one", "xref"}
           /\ nodes' = SetC(Top.n, Top.x, <<0>>) /\ path' = Advance /\ UNCHANGED <<phase, stack, log>>
FillChild == /\ phase = "build" /\ path # <<>> /\ Top.x <= Len(nodes[Top.n].f) /\ Len(nodes) < MaxNodes
             /\ nodes[Top.n].f[Top.x].m \in {"one", "xref"}
             /\ \E e \in ChildKinds :
                  /\ nodes' = Append(SetC(Top.n, Top.x, <<Len(nodes) + 1>>), NewNode(e))
                  /\ path' = Append(Advance, [n |-> Len(nodes) + 1, x |-> 1])
             /\ UNCHANGED <<phase, stack, log>>
CloseList == /\ phase = "build" /\ path # <<>> /\ Top.x <= Len(nodes[Top.n].f)
             /\ nodes[Top.n].f[Top.x].m = "list"
             /\ path' = Advance /\ UNCHANGED <<nodes, phase, stack, log>>
AddElem == /\ phase = "build" /\ path # <<>> /\ Top.x <= Len(nodes[Top.n].f) /\ Len(nodes) < MaxNodes
           /\ nodes[Top.n].f[Top.x].m = "list" /\ Len(nodes[Top.n].f[Top.x].c) < MaxList
           /\ \E e \in ChildKinds :
                /\ nodes' = Append(SetC(Top.n, Top.x, Append(nodes[Top.n].f[Top.x].c, Len(nodes) + 1)), NewNode(e))
                /\ path' = Append(path, [n |-> Len(nodes) + 1, x |-> 1])
           /\ UNCHANGED <<phase, stack, log>>
Built == /\ phase = "build" /\ path = <<>>
         /\ phase' = "walk" /\ log' = <<1>> /\ stack' = <<[n |-> 1, ks |-> Kids(G, 1), j |-> 1]>>
         /\ UNCHANGED <<nodes, path>>
\* ---- walk: astutil.Walk as a stack machine ----
STop == stack[Len(stack)]
Visit == /\ phase = "walk" /\ stack # <<>> /\ STop.j <= Len(STop.ks)
         /\ LET ch == STop.ks[STop.j] IN
              /\ log' = Append(log, ch)
              /\ stack' = Append([stack EXCEPT ![Len(stack)].j = @ + 1], [n |-> ch, ks |-> Kids(G, ch), j |-> 1])
         /\ UNCHANGED <<nodes, path, phase>>
Exit == /\ phase = "walk" /\ stack # <<>> /\ STop.j > Len(STop.ks)
        /\ log' = Append(log, 0) /\ stack' = SubSeq(stack, 1, Len(stack) - 1)
        /\ UNCHANGED <<nodes, path, phase>>
Finish == /\ phase = "walk" /\ stack = <<>> /\ phase' = "done" /\ UNCHANGED <<nodes, path, stack, log>>
Next == Pop \/ FillNil \/ FillChild \/ CloseList \/ AddElem \/ Built \/ Visit \/ Exit \/ Finish

\* ---- properties of the model ----
WalkIsPreOrder == phase = "done" => log = Pre(G, 1)
WalkEachOnce == phase = "done" => EachOnce(log, G, 1)
CloneAccepted == phase = "done" => Iso(G, ModelClone(G)) /\ Disjoint(G, ModelClone(G))
ShallowRejected == phase = "done" /\ Len(nodes) >= 2 => ~Disjoint(G, ShallowClone(G))
\* a walk that forgets the last wanted node is rejected
DropLast(s) == LET W == {i \in 1..Len(s) : s[i] # 0 /\ \A j \in (i + 1)..Len(s) : s[j] = 0} IN
               IF W = {} THEN s ELSE LET i == CHOOSE i \in W : TRUE IN SubSeq(s, 1, i - 1) \o SubSeq(s, i + 1, Len(s))
DroppedRejected == phase = "done" => ~EachOnce(DropLast(log), G, 1)
\* the model walk makes callbacks with nodes only; a walk that makes a callback with a nil child is rejected, and the
\* node it was found under is the one the judge names
WalkOnlyNodes == phase = "done" => OnlyNodes(log)
SpuriousRejected == phase = "done" => /\ ~OnlyNodes(Spurious(log)) /\ EachOnce(Spurious(log), G, 1)
                                      /\ OpenAt(Spurious(log), 2) = 1
                                      /\ \A i \in 1..Len(log) : log[i] # 0 /\ i > 1 => log[OpenAt(log, i)] = ParentOf(G, 1, log[i])
Bounded == Len(nodes) <= MaxNodes
=============================================================================

------------------------------ MODULE AstTreeGen ------------------------------
(* C28, generated case space.  The property quantifies over "all trees parsed from the generated and corpus
   programs and templates"; its rationale: "a node kind or field omitted from either [clone, walk] shows up only on
   trees that contain it" - and, symmetrically, a child that is ABSENT (a nil field, an empty list) shows up only on
   trees that lack it.  This module is a grammar of the template language written as productions with CHOICE POINTS:
   every optional part of a construct (label, init statement, condition, else branch, leading text, body, parameter
   names, result list, raw text, marker, type, values, ...) is an alternative of an "A" item, the first alternative
   being the emptiest and the last the fullest.  TLC enumerates two spaces from it:

     space "A" (optional parts): for every production, EVERY combination of the alternatives of its choice points;
                                 the required sub-constructs are the minimal one of their syntactic class;
     space "B" (nesting pairs):  for every production p, every place of p where a sub-construct of class c stands
                                 (p taken with its emptiest alternatives, or with the one alternative that holds the
                                 place), every production q of class c, q with its emptiest and with its fullest
                                 alternatives: q stands at that place of p.

   A case is the token sequence of a template source (the driver concatenates the tokens, parses the text with the
   real parser and logs graphs and callbacks; it knows nothing of what is expected).  Nothing here says what tree the
   parser must build: the judge (Trace_AstTree) compares Clone/Walk with the graph of the tree the parser did build.
   A text of space B that the parser rejects is outside the property's quantifier: skipped and counted. *)
EXTENDS Integers, Sequences, FiniteSets, TLC, Json, SequencesExt

L(s) == [t |-> "L", s |-> s, a |-> <<>>]          \* literal token
N(c) == [t |-> "N", s |-> c, a |-> <<>>]          \* a sub-construct of syntactic class c
A(alts) == [t |-> "A", s |-> "", a |-> alts]      \* choice point: alternatives are sequences of L / N items
O(x) == A(<< <<>>, x >>)                          \* optional part
\* nt: syntactic class of the production; ctx: what must enclose it ("" | "loop" | "func")
P(nt, name, ctx, items) == [nt |-> nt, name |-> name, ctx |-> ctx, items |-> items]

E == N("Expr")      \* expression
Ty == N("Type")     \* type expression
TS == N("T")        \* template-level statement ({% ... %}, {{ ... }}, text, ...)
SS == N("S")        \* statement of a {%% ... %%} script
Si == N("Simple")   \* simple statement (may stand in the init clause of if / for / switch)

\* the minimal construct of every class
MinOf(c) == CASE c = "Expr" -> "a" [] c = "Type" -> "int" [] c = "T" -> "t" [] c = "S" -> "x = 1" [] c = "Simple" -> "x := 1"

ElseT == A(<< <<>>, <<L("{% else %}")>>, <<L("{% else %}"), TS>> >>)
LeadT == A(<< <<>>, <<L(" \n ")>> >>)
ParamsT == A(<< <<>>, <<L("()")>>, <<L("(a "), Ty, L(")")>>, <<L("(a, b "), Ty, L(")")>>, <<L("(a "), Ty, L(", b ..."), Ty, L(")")>> >>)
ParamsF == A(<< <<>>, <<Ty>>, <<L("a "), Ty>>, <<L("a, b "), Ty>>, <<L("a "), Ty, L(", b ..."), Ty>> >>)
ResultsF == A(<< <<>>, <<L(" "), Ty>>, <<L(" ("), Ty, L(", error)")>>, <<L(" (n "), Ty, L(", err error)")>> >>)
VarTail == A(<< <<L(" "), Ty>>, <<L(" = "), E>>, <<L(" "), Ty, L(" = "), E>>, <<L(" = "), E, L(", "), E>> >>)
ConstTail == A(<< <<L(" = "), E>>, <<L(" "), Ty, L(" = "), E>>, <<L(" = "), E, L(", "), E>> >>)

ProdsT == <<
  P("T", "text", "", <<L("some text")>>),
  P("T", "show", "", <<L("{{ "), E, L(" }}")>>),
  P("T", "showstmt", "", <<L("{% show "), E, O(<<L(", "), E>>), L(" %}")>>),
  P("T", "comment", "", <<A(<< <<L("{##}")>>, <<L("{# c #}")>> >>)>>),
  P("T", "raw", "", <<L("{% raw %}"), A(<< <<>>, <<L("x")>>, <<L(" {{ a }} {% if %} ")>> >>), L("{% end"), O(<<L(" raw")>>), L(" %}")>>),
  P("T", "rawmarker", "", <<L("{% raw code %}"), O(<<L("x")>>), L("{% end raw code %}")>>),
  P("T", "if", "", <<L("{% if "), O(<<Si, L("; ")>>), E, L(" %}"), O(<<TS>>),
                     A(<< <<>>, <<L("{% else %}")>>, <<L("{% else %}"), TS>>, <<L("{% else if "), E, L(" %}")>>,
                          <<L("{% else if "), Si, L("; "), E, L(" %}"), TS, L("{% else %}"), TS>> >>), L("{% end if %}")>>),
  P("T", "for", "", <<L("{% for "), A(<< <<>>, <<E>>, <<L(";;")>>, <<L("; "), E, L(";")>>, <<Si, L("; ;")>>, <<L("; ; i++")>>,
                                         <<Si, L("; "), E, L("; i++")>> >>), L(" %}"), O(<<TS>>), L("{% end for %}")>>),
  P("T", "forin", "", <<L("{% for v in "), E, L(" %}"), O(<<TS>>), ElseT, L("{% end %}")>>),
  P("T", "forrange", "", <<L("{% for "), A(<< <<L("range ")>>, <<L("i := range ")>>, <<L("i, v = range ")>>, <<L("i, v := range ")>> >>),
                           E, L(" %}"), O(<<TS>>), ElseT, L("{% end %}")>>),
  P("T", "breakcont", "loop", <<A(<< <<L("{% break %}")>>, <<L("{% continue %}")>> >>)>>),
  P("T", "labelfor", "", <<L("{% L: for %}"), A(<< <<>>, <<L("{% break %}")>>, <<L("{% break L %}")>>, <<L("{% continue L %}")>> >>), O(<<TS>>), L("{% end %}")>>),
  P("T", "switch", "", <<L("{% switch "), A(<< <<>>, <<E>>, <<Si, L(";")>>, <<Si, L("; "), E>> >>), L(" %}"), LeadT,
                         A(<< <<>>, <<L("{% case "), E, L(" %}")>>, <<L("{% default %}")>>, <<L("{% case "), E, L(", "), E, L(" %}"), TS>>,
                              <<L("{% case "), E, L(" %}"), TS, L("{% fallthrough %}{% default %}"), TS>> >>), L("{% end switch %}")>>),
  P("T", "typeswitch", "", <<L("{% switch "), O(<<Si, L("; ")>>), A(<< <<E, L(".(type)")>>, <<L("v := "), E, L(".(type)")>> >>), L(" %}"), LeadT,
                             A(<< <<>>, <<L("{% case "), Ty, L(" %}")>>, <<L("{% case "), Ty, L(", nil %}"), TS, L("{% default %}")>> >>), L("{% end %}")>>),
  P("T", "select", "", <<L("{% select %}"), LeadT,
                         A(<< <<>>, <<L("{% default %}")>>, <<L("{% case v := <-"), E, L(" %}"), TS>>, <<L("{% case "), E, L(" <- "), E, L(" %}")>>,
                              <<L("{% case <-"), E, L(" %}{% case v, ok = <-ch %}"), TS, L("{% default %}"), TS>> >>), L("{% end select %}")>>),
  P("T", "macro", "", <<L("{% macro M"), ParamsT, A(<< <<>>, <<L(" html")>>, <<L(" string")>> >>), L(" %}"), O(<<TS>>), L("{% end macro %}")>>),
  P("T", "return", "func", <<L("{% return %}")>>),
  P("T", "using", "", <<L("{% "), A(<< <<L("show itea")>>, <<L("var v = itea")>>, <<L("x := f(itea) + itea")>> >>), L("; using"),
                        A(<< <<>>, <<L(" html")>>, <<L(" macro")>>, <<L(" macro()")>>, <<L(" macro(a "), Ty, L(")")>>, <<L(" macro(a, b "), Ty, L(") string")>> >>),
                        L(" %}"), O(<<TS>>), L("{% end using %}")>>),
  P("T", "simple", "", <<L("{% "), Si, L(" %}")>>),
  P("T", "var", "", <<L("{% var a"), O(<<L(", b")>>), VarTail, L(" %}")>>),
  P("T", "const", "", <<L("{% const a"), O(<<L(", b")>>), ConstTail, L(" %}")>>),
  P("T", "typedecl", "", <<L("{% type T "), O(<<L("= ")>>), Ty, L(" %}")>>),
  P("T", "import", "", <<L("{% import "), A(<< <<>>, <<L("p ")>>, <<L(". ")>> >>), L("\"imp.html\" %}")>>),
  P("T", "importfor", "", <<L("{% import \"imp.html\" for M"), O(<<L(", N")>>), L(" %}")>>),
  P("T", "extends", "", <<L("{% extends \"layout.html\" %}"), O(<<L("{% macro Body %}b{% end %}")>>)>>),
  P("T", "script", "", <<L("{%% "), A(<< <<>>, <<SS>>, <<SS, L("\n"), SS>> >>), L(" %%}")>>),
  P("T", "url", "", <<L("<a href=\""), A(<< <<>>, <<L("{{ "), E, L(" }}")>>, <<L("/p/{{ a }}?q={{ "), E, L(" }}#f")>> >>), L("\">x</a>")>>),
  P("T", "defergo", "", <<A(<< <<L("{% defer f(")>>, <<L("{% go f(")>> >>), O(<<E>>), L(") %}")>>),
  P("T", "seq", "", <<TS, TS>>)
>>

ProdsSimple == <<
  P("Simple", "assign", "", <<E, A(<< <<L(" = ")>>, <<L(" := ")>>, <<L(" += ")>>, <<L(" &^= ")>> >>), E>>),
  P("Simple", "assign2", "", <<L("a, b"), A(<< <<L(" = ")>>, <<L(" := ")>> >>), E, O(<<L(", "), E>>)>>),
  P("Simple", "incdec", "", <<E, A(<< <<L("++")>>, <<L("--")>> >>)>>),
  P("Simple", "send", "", <<E, L(" <- "), E>>),
  P("Simple", "callstmt", "", <<L("f("), O(<<E>>), L(")")>>)
>>

ProdsS == <<
  P("S", "simple", "", <<Si>>),
  P("S", "block", "", <<L("{ "), A(<< <<>>, <<SS>>, <<SS, L("; "), SS>> >>), L(" }")>>),
  P("S", "if", "", <<L("if "), O(<<Si, L("; ")>>), E, L(" { "), O(<<SS>>), L(" }"),
                     A(<< <<>>, <<L(" else { }")>>, <<L(" else { "), SS, L(" }")>>, <<L(" else if "), E, L(" { }")>>,
                          <<L(" else if "), Si, L("; "), E, L(" { "), SS, L(" } else { "), SS, L(" }")>> >>)>>),
  P("S", "for", "", <<L("for "), A(<< <<>>, <<E, L(" ")>>, <<L(";; ")>>, <<L("; "), E, L("; ")>>, <<Si, L("; ; ")>>, <<L("; ; i++ ")>>,
                                      <<Si, L("; "), E, L("; i++ ")>> >>), L("{ "), O(<<SS>>), L(" }")>>),
  P("S", "forrange", "", <<L("for "), A(<< <<L("range ")>>, <<L("i := range ")>>, <<L("_, v = range ")>>, <<L("i, v := range ")>> >>), E, L(" { "), O(<<SS>>), L(" }")>>),
  P("S", "breakcont", "loop", <<A(<< <<L("break")>>, <<L("continue")>> >>)>>),
  P("S", "labelfor", "", <<L("L: for { "), A(<< <<>>, <<L("break")>>, <<L("break L")>>, <<L("continue L")>> >>), L(" }")>>),
  P("S", "labelend", "", <<L("{ "), O(<<SS, L("; ")>>), L("L: }")>>),
  P("S", "labelstmt", "", <<L("L: "), SS>>),
  P("S", "goto", "func", <<L("goto L; L: "), O(<<SS>>)>>),
  P("S", "switch", "", <<L("switch "), A(<< <<>>, <<E, L(" ")>>, <<Si, L("; ")>>, <<Si, L("; "), E, L(" ")>> >>), L("{ "),
                         A(<< <<>>, <<L("case "), E, L(": ")>>, <<L("default: ")>>, <<L("case "), E, L(", "), E, L(": "), SS, L("; ")>>,
                              <<L("case "), E, L(": "), SS, L("; fallthrough; default: "), SS, L(" ")>> >>), L("}")>>),
  P("S", "typeswitch", "", <<L("switch "), O(<<Si, L("; ")>>), A(<< <<E, L(".(type) ")>>, <<L("v := "), E, L(".(type) ")>> >>), L("{ "),
                             A(<< <<>>, <<L("case "), Ty, L(": ")>>, <<L("case "), Ty, L(", nil: "), SS, L("; default: ")>> >>), L("}")>>),
  P("S", "select", "", <<L("select { "),
                         A(<< <<>>, <<L("default: ")>>, <<L("case v := <-"), E, L(": "), SS, L("; ")>>, <<L("case "), E, L(" <- "), E, L(": ")>>,
                              <<L("case <-"), E, L(": case v, ok = <-ch: "), SS, L("; default: "), SS, L(" ")>> >>), L("}")>>),
  P("S", "return", "func", <<L("return"), A(<< <<>>, <<L(" "), E>>, <<L(" "), E, L(", "), E>> >>)>>),
  P("S", "defergo", "", <<A(<< <<L("defer f(")>>, <<L("go f(")>> >>), O(<<E>>), L(")")>>),
  P("S", "var", "", <<L("var a"), O(<<L(", b")>>), VarTail>>),
  P("S", "const", "", <<L("const a"), O(<<L(", b")>>), ConstTail>>),
  P("S", "constblock", "", <<L("const ( a = iota"), A(<< <<>>, <<L("; b")>>, <<L("; b; c "), Ty, L(" = "), E>> >>), L(" )")>>),
  P("S", "typedecl", "", <<L("type T "), O(<<L("= ")>>), Ty>>),
  P("S", "show", "", <<L("show "), E, O(<<L(", "), E>>)>>)
>>

ProdsExpr == <<
  P("Expr", "lit", "", <<A(<< <<L("a")>>, <<L("1")>>, <<L("1.5")>>, <<L("2i")>>, <<L("'c'")>>, <<L("\"s\"")>>, <<L("`r`")>> >>)>>),
  P("Expr", "paren", "", <<A(<< <<L("("), E, L(")")>>, <<L("(("), E, L("))")>> >>)>>),
  P("Expr", "unary", "", <<A(<< <<L("-")>>, <<L("!")>>, <<L("^")>>, <<L("*")>>, <<L("&")>>, <<L("<-")>>, <<L("not ")>> >>), E>>),
  P("Expr", "binary", "", <<E, A(<< <<L(" + ")>>, <<L(" == ")>>, <<L(" && ")>>, <<L(" << ")>>, <<L(" &^ ")>>, <<L(" and ")>>, <<L(" contains ")>>, <<L(" not contains ")>> >>), E>>),
  P("Expr", "call", "", <<L("f("), A(<< <<>>, <<E>>, <<E, L(", "), E>>, <<E, L("...")>>, <<E, L(", "), E, L("...")>> >>), L(")")>>),
  P("Expr", "callfn", "", <<E, L("("), O(<<E>>), L(")")>>),
  P("Expr", "index", "", <<E, L("["), E, L("]")>>),
  P("Expr", "slicing", "", <<E, L("["), A(<< <<L(":")>>, <<E, L(":")>>, <<L(":"), E>>, <<E, L(":"), E>>, <<L(":"), E, L(":"), E>>, <<E, L(":"), E, L(":"), E>> >>), L("]")>>),
  P("Expr", "selector", "", <<E, L(".f")>>),
  P("Expr", "typeassert", "", <<E, L(".("), Ty, L(")")>>),
  P("Expr", "composite", "", <<Ty, L("{"), A(<< <<>>, <<E>>, <<E, L(", "), E>>, <<E, L(": "), E>>, <<L("{"), E, L("}")>>, <<E, L(": {"), E, L(": "), E, L("}, "), E, L(": {}")>> >>), L("}")>>),
  P("Expr", "funclit", "", <<L("func("), ParamsF, L(")"), ResultsF, L(" { "), O(<<SS>>), L(" }")>>),
  P("Expr", "default", "", <<A(<< <<L("a")>>, <<L("f()")>>, <<L("render \"part.html\"")>> >>), L(" default "), E>>),
  P("Expr", "render", "", <<L("render \"part.html\"")>>),
  P("Expr", "conversion", "", <<A(<< <<L("("), Ty, L(")(")>>, <<L("[]byte(")>> >>), E, L(")")>>)
>>

ProdsType == <<
  P("Type", "name", "", <<A(<< <<L("int")>>, <<L("pkg.T")>> >>)>>),
  P("Type", "ptr", "", <<L("*"), Ty>>),
  P("Type", "slice", "", <<L("[]"), Ty>>),
  P("Type", "array", "", <<L("["), A(<< <<L("...")>>, <<E>> >>), L("]"), Ty>>),
  P("Type", "map", "", <<L("map["), Ty, L("]"), Ty>>),
  P("Type", "chan", "", <<A(<< <<L("chan ")>>, <<L("<-chan ")>>, <<L("chan<- ")>> >>), Ty>>),
  P("Type", "chanchan", "", <<L("chan (<-chan "), Ty, L(")")>>),
  P("Type", "func", "", <<L("func("), ParamsF, L(")"), ResultsF>>),
  P("Type", "struct", "", <<L("struct {"), A(<< <<>>, <<L(" a "), Ty, L(" ")>>, <<L(" T; *U; pkg.R ")>>, <<L(" a "), Ty, L("; T ")>>,
                                                <<L(" a, b "), Ty, L(" `tag`; c "), Ty, L(" ")>> >>), L("}")>>),
  P("Type", "interface", "", <<L("interface{}")>>),
  P("Type", "paren", "", <<L("("), Ty, L(")")>>)
>>

Prods == ProdsT \o ProdsSimple \o ProdsS \o ProdsExpr \o ProdsType
\* productions that are parenthesised when they stand inside another expression (so that the nesting is the one meant)
ParNames == {"unary", "binary", "default", "funclit", "composite", "conversion"}
\* files of the template file system other than the generated one
AuxFiles == << <<"imp.html", "{% macro M %}m{% end %}{% macro N %}n{% end %}{% var X = 1 %}">>,
               <<"part.html", "part {{ 1 }}">>,
               <<"layout.html", "<html>{{ Body() }}</html>">> >>

(* ---------- expansion ---------- *)
AltPos(items) == SelectSeq([i \in 1..Len(items) |-> i], LAMBDA i : items[i].t = "A")
AltLens(items) == LET ap == AltPos(items) IN [k \in 1..Len(ap) |-> Len(items[ap[k]].a)]
RECURSIVE Vecs(_, _)
Vecs(lens, k) == IF k > Len(lens) THEN {<<>>} ELSE {<<c>> \o v : c \in 1..lens[k], v \in Vecs(lens, k + 1)}
MinVec(items) == [k \in 1..Len(AltLens(items)) |-> 1]
MaxVec(items) == AltLens(items)
\* vectors that differ from the emptiest one at exactly position k
Varied(items, k) == LET lens == AltLens(items) IN {[MinVec(items) EXCEPT ![k] = c] : c \in 2..lens[k]}
\* the items of a production under a choice vector, each tagged with the choice point it comes from (0: none)
Tag(x, o) == [t |-> x.t, s |-> x.s, o |-> o]
RECURSIVE Flat(_, _, _, _)
Flat(items, v, i, k) ==
  IF i > Len(items) THEN <<>>
  ELSE IF items[i].t = "A" THEN LET alt == items[i].a[v[k]] IN [j \in 1..Len(alt) |-> Tag(alt[j], k)] \o Flat(items, v, i + 1, k + 1)
  ELSE <<Tag(items[i], 0)>> \o Flat(items, v, i + 1, k)
\* tokens of flat items: the n-th sub-construct place (n = slot) takes rep, every other place the minimal construct
RECURSIVE Toks(_, _, _, _, _)
Toks(f, i, n, slot, rep) ==
  IF i > Len(f) THEN <<>>
  ELSE IF f[i].t = "L" THEN <<f[i].s>> \o Toks(f, i + 1, n, slot, rep)
  ELSE (IF n = slot THEN rep ELSE <<MinOf(f[i].s)>>) \o Toks(f, i + 1, n + 1, slot, rep)
Places(f) == SelectSeq([i \in 1..Len(f) |-> i], LAMBDA i : f[i].t = "N")     \* positions of the sub-construct places

\* a construct of class c as a whole template
Wrap(c, toks) == CASE c = "T" -> toks
                   [] c = "S" -> <<"{%% ">> \o toks \o <<" %%}">>
                   [] c = "Simple" -> <<"{% ">> \o toks \o <<" %}">>
                   [] c = "Expr" -> <<"{{ ">> \o toks \o <<" }}">>
                   [] c = "Type" -> <<"{% var v ">> \o toks \o <<" %}">>
\* what must enclose the construct: a loop (break, continue), a function body (return, goto); a script statement is
\* enclosed inside its script, anything else at template level
SCtx(ctxs, toks) == LET a == IF "loop" \in ctxs THEN <<"for { ">> \o toks \o <<" }">> ELSE toks IN
                    IF "func" \in ctxs THEN <<"f := func() { ">> \o a \o <<" }">> ELSE a
TCtx(ctxs, toks) == LET a == IF "loop" \in ctxs THEN <<"{% for %}">> \o toks \o <<"{% end %}">> ELSE toks IN
                    IF "func" \in ctxs THEN <<"{% macro F %}">> \o a \o <<"{% end %}">> ELSE a
Whole(c, ctxs, toks) == IF c = "S" THEN Wrap("S", SCtx(ctxs, toks)) ELSE TCtx(ctxs, Wrap(c, toks))
NeedsAux == {"import", "importfor", "extends", "render", "default"}
Aux(names) == IF names \cap NeedsAux = {} THEN <<>> ELSE AuxFiles

CaseA(p, v) == [space |-> "A", p |-> p.name, nt |-> p.nt, v |-> v, slot |-> 0, q |-> "-", qnt |-> "-", qv |-> <<>>,
                toks |-> Whole(p.nt, {p.ctx}, Toks(Flat(p.items, v, 1, 1), 1, 1, 0, <<>>)), aux |-> Aux({p.name})]
QToks(q, qv) == LET t == Toks(Flat(q.items, qv, 1, 1), 1, 1, 0, <<>>) IN
                IF q.name \in ParNames THEN <<"(">> \o t \o <<")">> ELSE t
CaseB(p, v, n, q, qv) == [space |-> "B", p |-> p.name, nt |-> p.nt, v |-> v, slot |-> n, q |-> q.name, qnt |-> q.nt, qv |-> qv,
                          toks |-> Whole(p.nt, {p.ctx, q.ctx}, Toks(Flat(p.items, v, 1, 1), 1, 1, n, QToks(q, qv))),
                          aux |-> Aux({p.name, q.name})]
\* the places of p to fill: all places under the emptiest vector; under a vector varied at k, the places inside that alternative
PlacesB(p) ==
  LET fm == Flat(p.items, MinVec(p.items), 1, 1) IN
  {<<MinVec(p.items), n, fm[Places(fm)[n]].s>> : n \in 1..Len(Places(fm))}
  \cup UNION {UNION {LET f == Flat(p.items, v, 1, 1) IN
                     {<<v, n, f[Places(f)[n]].s>> : n \in {m \in 1..Len(Places(f)) : f[Places(f)[m]].o = k}} :
                     v \in Varied(p.items, k)} : k \in 1..Len(AltLens(p.items))}
=============================================================================

------------------------------- MODULE ExprLit -------------------------------
(* C27, literal-carrying constructs:  extends "p",  import [id] "p" [for A, B],  render "p"  and string
   literals.  The tree of such a construct holds a *byte string* (the path the literal denotes; for a
   BasicLiteral the source spelling itself), so "String() parses back to the same tree" demands that the
   printed literal denotes exactly the same bytes.

   (i)  REFERENCE part: the spellings a Go string literal may have in valid source (SpellMin / SpellHex /
        SpellOct / SpellRaw: four ways of writing one byte string), Unquote (what a string literal denotes, Go
        specification "String literals" / "Rune literals"), ValidTemplatePath (which paths valid source may
        name) and Resolve (shape tree with holes -> tree).  TLC checks Unquote(Spell(p)) = p and
        Parse(Print(shape)) = shape for every case of the bounded space (MC_ExprLit).
   (ii) IMPLEMENTATION-SHAPED part: IQuote transcribes strconv.Quote, which Extends/Import/Render.String use
        to print the path.  Unquote(IQuote(p)) = p is evaluated by TLC over the same space (prediction,
        diagnostic).
   Text is a sequence of bytes (integers). *)
EXTENDS ExprPrint

LHexDig(n) == IF n < 10 THEN 48 + n ELSE 87 + n                            \* lower case, as strconv prints
LHex2(b) == <<LHexDig(b \div 16), LHexDig(b % 16)>>
LOct3(b) == <<48 + (b \div 64), 48 + ((b \div 8) % 8), 48 + (b % 8)>>
LIsHex(c) == (c >= 48 /\ c <= 57) \/ (c >= 97 /\ c <= 102) \/ (c >= 65 /\ c <= 70)
LHexVal(c) == IF c <= 57 THEN c - 48 ELSE IF c >= 97 THEN c - 87 ELSE c - 55
LIsOct(c) == c >= 48 /\ c <= 55
RECURSIVE LFlat(_, _)
LFlat(ss, i) == IF i > Len(ss) THEN <<>> ELSE ss[i] \o LFlat(ss, i + 1)
LMapCat(p, F(_)) == LFlat([i \in 1..Len(p) |-> F(p[i])], 1)

(* ------------------------------------------------------------------------------------------------
   (i) reference: spellings of a byte string as a Go string literal
   ------------------------------------------------------------------------------------------------ *)
ShortEsc(b) == CASE b = 7 -> 97 [] b = 8 -> 98 [] b = 9 -> 116 [] b = 10 -> 110 [] b = 11 -> 118 [] b = 12 -> 102 [] b = 13 -> 114
                 [] OTHER -> 0
MinByte(b) == IF b = 92 \/ b = 34 THEN <<92, b>>
              ELSE IF ShortEsc(b) # 0 THEN <<92, ShortEsc(b)>>
              ELSE IF b < 32 \/ b = 127 THEN <<92, 120>> \o LHex2(b)
              ELSE <<b>>                                                   \* also the bytes of non-ASCII characters
SpellMin(p) == <<34>> \o LMapCat(p, MinByte) \o <<34>>                      \* "..." with the escapes that are necessary
HexByte(b) == <<92, 120>> \o LHex2(b)
SpellHex(p) == <<34>> \o LMapCat(p, HexByte) \o <<34>>                      \* "\x61\x2f..."
OctByte(b) == <<92>> \o LOct3(b)
SpellOct(p) == <<34>> \o LMapCat(p, OctByte) \o <<34>>                      \* "\141\057..."
SpellRaw(p) == <<96>> \o p \o <<96>>                                        \* `...`
Spellings == {"min", "hex", "oct", "raw"}
\* a raw string literal cannot contain a back quote, and carriage returns are discarded from it
SpellDefined(sp, p) == sp = "raw" => \A i \in 1..Len(p) : p[i] # 96 /\ p[i] # 13
Spell(sp, p) == CASE sp = "min" -> SpellMin(p) [] sp = "hex" -> SpellHex(p) [] sp = "oct" -> SpellOct(p) [] sp = "raw" -> SpellRaw(p)

(* what a string literal denotes: [ok, val] *)
UOk(v) == [ok |-> TRUE, val |-> v]
UBad == [ok |-> FALSE, val |-> <<>>]
Utf8Enc(r) == IF r < 128 THEN <<r>>
              ELSE IF r < 2048 THEN <<192 + (r \div 64), 128 + (r % 64)>>
              ELSE IF r < 65536 THEN <<224 + (r \div 4096), 128 + ((r \div 64) % 64), 128 + (r % 64)>>
              ELSE <<240 + (r \div 262144), 128 + ((r \div 4096) % 64), 128 + ((r \div 64) % 64), 128 + (r % 64)>>
ValidRune(r) == r >= 0 /\ r <= 1114111 /\ ~(r >= 55296 /\ r <= 57343)
RECURSIVE HexNum(_, _, _, _)
HexNum(s, i, n, acc) == IF n = 0 THEN acc                                  \* -1: not n hexadecimal digits
                        ELSE IF i >= Len(s) \/ ~LIsHex(s[i]) \/ acc > 1114111 THEN -1
                        ELSE HexNum(s, i + 1, n - 1, acc * 16 + LHexVal(s[i]))
SimpleEsc(c) == CASE c = 97 -> 7 [] c = 98 -> 8 [] c = 102 -> 12 [] c = 110 -> 10 [] c = 114 -> 13 [] c = 116 -> 9 [] c = 118 -> 11
                  [] c = 92 -> 92 [] c = 34 -> 34 [] OTHER -> -1                \* \' is not legal in a string literal
RECURSIVE UnqFrom(_, _, _)
UnqFrom(s, i, acc) ==                                     \* s[Len(s)] is the closing quote
  IF i >= Len(s) THEN (IF i = Len(s) THEN UOk(acc) ELSE UBad)
  ELSE IF s[i] = 34 \/ s[i] = 10 THEN UBad
  ELSE IF s[i] # 92 THEN UnqFrom(s, i + 1, Append(acc, s[i]))
  ELSE IF i + 1 >= Len(s) THEN UBad
  ELSE LET c == s[i + 1] IN
       IF SimpleEsc(c) >= 0 THEN UnqFrom(s, i + 2, Append(acc, SimpleEsc(c)))
       ELSE IF c = 120 THEN LET v == HexNum(s, i + 2, 2, 0) IN IF v < 0 THEN UBad ELSE UnqFrom(s, i + 4, Append(acc, v))
       ELSE IF LIsOct(c) THEN
            IF i + 3 < Len(s) /\ LIsOct(s[i + 2]) /\ LIsOct(s[i + 3])
            THEN LET v == (c - 48) * 64 + (s[i + 2] - 48) * 8 + (s[i + 3] - 48) IN
                 IF v > 255 THEN UBad ELSE UnqFrom(s, i + 4, Append(acc, v))
            ELSE UBad
       ELSE IF c = 117 THEN LET v == HexNum(s, i + 2, 4, 0) IN
                            IF v < 0 \/ ~ValidRune(v) THEN UBad ELSE UnqFrom(s, i + 6, acc \o Utf8Enc(v))
       ELSE IF c = 85 THEN LET v == HexNum(s, i + 2, 8, 0) IN
                           IF v < 0 \/ ~ValidRune(v) THEN UBad ELSE UnqFrom(s, i + 10, acc \o Utf8Enc(v))
       ELSE UBad
Unquote(s) ==
  IF Len(s) < 2 THEN UBad
  ELSE IF s[1] = 96 THEN (IF s[Len(s)] = 96 /\ \A i \in 2..Len(s) - 1 : s[i] # 96
                          THEN UOk(SelectSeq(SubSeq(s, 2, Len(s) - 1), LAMBDA b : b # 13)) ELSE UBad)
  ELSE IF s[1] = 34 /\ s[Len(s)] = 34 THEN UnqFrom(s, 2, <<>>)
  ELSE UBad

(* which paths valid source may name (documentation of ValidTemplatePath: a slash-separated file system path,
   elements not empty, not "." and not "..", optionally starting with "/" or with one or more "../"; backslash,
   colon, quotes and control characters are ordinary characters of an element) *)
NextSlash(p, i) == IF \E j \in i + 1..Len(p) : p[j] = 47
                   THEN CHOOSE j \in i + 1..Len(p) : p[j] = 47 /\ \A k \in i + 1..j - 1 : p[k] # 47
                   ELSE Len(p) + 1
ValidElems(p) == \A i \in 0..Len(p) : (i = 0 \/ p[i] = 47) =>
                    LET seg == SubSeq(p, i + 1, NextSlash(p, i) - 1) IN seg # <<>> /\ seg # <<46>> /\ seg # <<46, 46>>
RECURSIVE StripUp(_)
StripUp(p) == IF Len(p) >= 3 /\ SubSeq(p, 1, 3) = <<46, 46, 47>> THEN StripUp(SubSeq(p, 4, Len(p))) ELSE p
ValidTemplatePath(p) == ValidElems(IF Len(p) > 0 /\ p[1] = 47 THEN SubSeq(p, 2, Len(p)) ELSE StripUp(p))

(* shape tree with holes -> tree: a path hole gets the denoted bytes, a literal hole the literal's source *)
PathKinds == {"Render", "Extends", "Import"}
RECURSIVE Resolve(_, _, _)
Resolve(T, litsrc, path) ==
  Nd(T.k,
     [i \in 1..Len(T.v) |-> IF T.v[i] \in LitHoles THEN (IF T.k \in PathKinds THEN path ELSE litsrc) ELSE T.v[i]],
     [i \in 1..Len(T.c) |-> Resolve(T.c[i], litsrc, path)])
RECURSIVE HasPathHole(_)
HasPathHole(T) == (T.k \in PathKinds /\ \E i \in 1..Len(T.v) : T.v[i] \in LitHoles) \/ \E i \in 1..Len(T.c) : HasPathHole(T.c[i])
ModeOf(T) == IF IsStmt(T) THEN "stmt" ELSE "expr"
\* the tree that source (tokens with holes, the holes spelled lit) denotes
RefParse(mode, toks, lit) == LET sh == Parse(mode, toks)  u == Unquote(lit) IN
                             IF sh = Err \/ ~u.ok THEN Err ELSE Resolve(sh, lit, u.val)

(* ------------------------------------------------------------------------------------------------
   (ii) implementation-shaped: strconv.Quote (appendQuotedWith / appendEscapedRune with quote '"',
   ASCIIonly = graphicOnly = false), rune by rune
   ------------------------------------------------------------------------------------------------ *)
\* utf8.DecodeRuneInString on well-formed text (the case space contains whole characters only; a stray byte is
\* RuneError of width 1 as in the code)
DecodeAt(p, i) ==
  LET b == p[i] IN
  IF b < 128 THEN [r |-> b, n |-> 1]
  ELSE IF b >= 194 /\ b < 224 /\ i + 1 <= Len(p) THEN [r |-> (b - 192) * 64 + (p[i + 1] - 128), n |-> 2]
  ELSE IF b >= 224 /\ b < 240 /\ i + 2 <= Len(p) THEN [r |-> (b - 224) * 4096 + (p[i + 1] - 128) * 64 + (p[i + 2] - 128), n |-> 3]
  ELSE IF b >= 240 /\ b < 245 /\ i + 3 <= Len(p)
       THEN [r |-> (b - 240) * 262144 + (p[i + 1] - 128) * 4096 + (p[i + 2] - 128) * 64 + (p[i + 3] - 128), n |-> 4]
  ELSE [r |-> -1, n |-> 1]
\* strconv.IsPrint is a table; outside ASCII it is transcribed for the characters of the case space only
PrintableNonASCII == {233}                                                  \* e-acute; U+00A0 and U+E0001 are not printable
IsPrintRune(r) == (r >= 32 /\ r <= 126) \/ r \in PrintableNonASCII
LHex4(r) == LHex2(r \div 256) \o LHex2(r % 256)
EscRune(p, i, d) ==
  LET r == d.r IN
  IF r = -1 THEN <<92, 120>> \o LHex2(p[i])
  ELSE IF r = 34 \/ r = 92 THEN <<92, r>>
  ELSE IF IsPrintRune(r) THEN SubSeq(p, i, i + d.n - 1)
  ELSE IF ShortEsc(r) # 0 THEN <<92, ShortEsc(r)>>
  ELSE IF r < 32 \/ r = 127 THEN <<92, 120>> \o LHex2(r)
  ELSE IF r < 65536 THEN <<92, 117>> \o LHex4(r)
  ELSE <<92, 85>> \o LHex4(r \div 65536) \o LHex4(r % 65536)
RECURSIVE IQuoteFrom(_, _)
IQuoteFrom(p, i) == IF i > Len(p) THEN <<>> ELSE LET d == DecodeAt(p, i) IN EscRune(p, i, d) \o IQuoteFrom(p, i + d.n)
IQuote(p) == <<34>> \o IQuoteFrom(p, 1) \o <<34>>
\* the tree the String form of the shape denotes: tokens of the transcribed String methods, every path literal
\* re-spelled by strconv.Quote, a string BasicLiteral printed as it was written
ImplLitReparse(shape, lit, path) ==
  LET sh == Parse(ModeOf(shape), IPr(shape))  u == Unquote(IQuote(path)) IN
  IF sh = Err \/ ~u.ok THEN Err ELSE Resolve(sh, lit, u.val)
=============================================================================

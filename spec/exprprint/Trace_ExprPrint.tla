--------------------------- MODULE Trace_ExprPrint ---------------------------
(* Judges observations of the real parser and the real String methods, one record per line of
   obs.ndjson:
     {id, mode, t, pred, src, lits, T1, T2, subs, ...}
   t    the model tree the source was printed from (k = "none" for corpus / random sources); src its tokens,
        a token "#n" standing for the literal whose source bytes are lits[n] (case space of MC_ExprLit)
   pred what the implementation-shaped String model predicted for t: [cls, pairs]
   T1   the real parser's tree of the source,  T2 = the real parser's tree of T1.String()
        (generic dumps without positions and without the count of redundant parentheses, which
        String() deliberately does not reproduce: "ignoring positions" is read as covering it).  Scalar
        fields are strings (names, decimal constants) except the data fields Path / Value / Text, which are
        byte sequences: T1 = T2 compares what a path or string literal denotes byte for byte.
   subs (second pass only, else <<>>) the same pair for every sub-expression node e of the parsed
        construct, in post-order, the construct itself last:  [T1 |-> dump of e, T2 |-> the real
        parser's tree of e.String(), kids |-> indices of the nearest sub-expressions below e].

   PROPERTY clause:   T1 = T2.
   Reading chosen where the statement is ambiguous: nodes whose String form is a *description* rather
   than source ("func literal", "T{...}") are not covered - such records are class "elided" (counted).
   DIAGNOSTIC clauses (class "drift", never a verdict): the real parser agrees with the reference
   parser (Abstract(T1) = t), and the outcome agrees with the implementation-shaped prediction.

   Signatures (second pass): one per root cause = per smallest sub-expression that itself fails the
   property clause while nothing below it does, described by where its re-parsed tree first differs -
   so a known cause never hides another cause in the same record. *)
EXTENDS ExprPrint, TLC, Json, SequencesExt

Obs == ndJsonDeserialize("obs.ndjson")
HasModel(r) == r.t.k # "none"
Unusable(T) == T.k \in {"error", "hostpanic"}

\* the property clause on one (tree, re-parsed tree) pair
Outcome(T1, T2) == IF Unusable(T2) THEN (IF T2.k = "error" /\ Elided(T1) THEN "elided" ELSE "violation")
                   ELSE IF T1 # T2 THEN "violation" ELSE "ok"
Class(r) ==
  IF Unusable(r.T1) THEN (IF HasModel(r) THEN "drift" ELSE "unparsed")       \* nothing to judge
  ELSE IF Outcome(r.T1, r.T2) # "ok" THEN Outcome(r.T1, r.T2)
  ELSE IF HasModel(r) /\ Abstract(r.T1) # r.t THEN "drift"
  ELSE IF HasModel(r) /\ r.pred.cls # "ok" THEN "drift"                       \* model predicted a failure; real code is fine
  ELSE "ok"

Sg(cause, k1, v1, k2) == [fam |-> "exprprint", cause |-> cause, k1 |-> k1, v1 |-> v1, k2 |-> k2]
PairSig(T1, T2) ==
  IF Unusable(T2) THEN Sg(IF T2.k = "error" THEN "reparse-error" ELSE "reparse-hostpanic", T1.k, IF T1.k \in OpKinds THEN T1.v ELSE <<>>, T2.k)
  ELSE LET d == Diverge(T1, T2, "-") IN Sg("tree-differs", d.k1, d.v1, d.k2)
Fails(r, j) == Outcome(r.subs[j].T1, r.subs[j].T2) = "violation"
RECURSIVE FailsBelow(_, _)
FailsBelow(r, j) == \E i \in 1..Len(r.subs[j].kids) : Fails(r, r.subs[j].kids[i]) \/ FailsBelow(r, r.subs[j].kids[i])
RootCauses(r) == {j \in 1..Len(r.subs) : Fails(r, j) /\ ~FailsBelow(r, j)}

SigsOf(r, cls) ==
  CASE cls = "violation" ->
         IF RootCauses(r) # {} THEN {PairSig(r.subs[j].T1, r.subs[j].T2) : j \in RootCauses(r)}
         ELSE {PairSig(r.T1, r.T2)}                                          \* first pass (no subs): coarse
    [] cls = "elided" -> {Sg("elided", "-", <<>>, "-")}
    [] cls = "unparsed" -> {Sg("source-rejected", "-", <<>>, r.T1.k)}
    [] cls = "drift" ->
         IF Unusable(r.T1) THEN {Sg("model-source-rejected", r.t.k, <<>>, r.T1.k)}
         ELSE IF Abstract(r.T1) # r.t THEN LET d == Diverge(Abstract(r.T1), r.t, "-") IN {Sg("parser-vs-model", d.k1, d.v1, d.k2)}
         ELSE {Sg("prediction-not-reproduced", "-", <<>>, "-")}
    [] OTHER -> {}

(* ---- record walk: one state per record; every record that is not "ok" is listed with its signatures ---- *)
J == [i \in 1..Len(Obs) |-> Class(Obs[i])]                  \* each record judged once
VARIABLES l, nbad
Init == l = 1 /\ nbad = 0
Next == l <= Len(Obs) /\ l' = l + 1 /\ nbad' = nbad + (IF J[l] = "ok" THEN 0 ELSE 1)
BadIdx == SelectSeq([i \in 1..Len(Obs) |-> i], LAMBDA i : J[i] # "ok")
Out == [j \in 1..Len(BadIdx) |->
          LET r == Obs[BadIdx[j]]  cls == J[BadIdx[j]] IN
          [k |-> BadIdx[j], id |-> r.id, cls |-> cls, sigs |-> SetToSeq(SigsOf(r, cls))]]
Done == l = Len(Obs) + 1 => ndJsonSerialize("bad.ndjson", IF nbad = 0 THEN <<>> ELSE Out)
Consumed == TLCGet("stats").diameter - 1 = Len(Obs)
=============================================================================

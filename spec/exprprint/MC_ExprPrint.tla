---------------------------- MODULE MC_ExprPrint ----------------------------
(* Exhaustive check of the reference  Parse(Print(t)) = t  over every tree of depth <= MaxDepth built
   from the operator sets BinOps / UnOps (one representative per precedence level in the quick tier,
   every operator in the thorough tier), all postfix forms, composite and function literals,
   parenthesised (conversion) types and a few statements; the state graph grows a tree by one level per
   step.  Every state carries the tree t, its source src = PrintTree(t) and the outcome pred that the
   implementation-shaped String model predicts for it (diagnostic); the check exports the states
   (TLC -dump) as the case set. *)
EXTENDS ExprPrint, TLC, Json, SequencesExt
CONSTANTS BinOps, UnOps, MaxDepth, StmtDepth, FullSib

A == Id("a")
TT == Id("T")
AssertTypes == {TT, Un("*", TT), SliceT(TT), MapT(TT, TT), ChanT("none", TT), ChanT("recv", TT), ChanT("send", TT),
                ChanT("none", ChanT("recv", TT)), ChanT("send", ChanT("none", TT)), ChanT("none", ChanT("send", TT)),
                ChanT("recv", ChanT("recv", TT)), FuncT(Nil), FuncT(TT)}
ConvTypes == AssertTypes \ {TT}
FewTypes == {TT, Un("*", TT), ChanT("recv", TT), FuncT(Nil)}           \* used around non-leaf operands
CompTypes == {TT, SliceT(TT), MapT(TT, TT)}
Atoms2 == {Comp(T, <<>>) : T \in CompTypes} \cup {FuncLit(FuncT(Nil)), FuncLit(FuncT(TT))}

\* expression depth: identifiers 1, type expressions do not add depth, literals with a type/body 2
Max2(a, b) == IF a >= b THEN a ELSE b
RECURSIVE Depth(_)
RECURSIVE MaxDepthOf(_, _)
MaxDepthOf(s, i) == IF i > Len(s) THEN 0 ELSE Max2(Depth(s[i]), MaxDepthOf(s, i + 1))
Depth(t) == CASE t.k = "nil" -> 0
              [] t.k = "Identifier" -> IF t = TT THEN 0 ELSE 1
              [] t.k \in TypeKinds -> 0
              [] t.k = "list" -> MaxDepthOf(t.c, 1)
              [] t.k = "Func" -> 2
              [] t.k = "CompositeLiteral" -> 1 + Max2(1, MaxDepthOf(t.c, 1))
              [] OTHER -> 1 + MaxDepthOf(t.c, 1)

\* every tree having x as a child; the other children come from S (binary, index, call) or are the leaf a
Grow(x, S) ==
  {Bin(op, x, s) : op \in BinOps, s \in S} \cup {Bin(op, s, x) : op \in BinOps, s \in S}
  \cup {Un(op, x) : op \in UnOps}
  \cup {Call(x, <<>>, "false")} \cup {Call(x, <<s>>, "false") : s \in S} \cup {Call(s, <<x>>, "false") : s \in S}
  \cup {Call(A, <<x>>, "true"), Call(A, <<x, A>>, "false"), Call(A, <<A, x>>, "false")}
  \cup {Index(x, s) : s \in S} \cup {Index(s, x) : s \in S}
  \cup {Slicing(x, lo, hi, Nil) : lo \in {Nil, A}, hi \in {Nil, A}} \cup {Slicing(x, lo, A, A) : lo \in {Nil, A}}
  \cup {Slicing(A, x, hi, Nil) : hi \in {Nil, A}} \cup {Slicing(A, lo, x, Nil) : lo \in {Nil, A}}
  \cup {Slicing(A, x, A, A), Slicing(A, Nil, x, A), Slicing(A, A, x, A), Slicing(A, Nil, A, x), Slicing(A, A, A, x)}
  \cup {Selector(x, "f")}
  \cup {Assertion(x, T) : T \in IF x = A THEN AssertTypes ELSE FewTypes}
  \cup {Call(T, <<x>>, "false") : T \in IF x = A THEN ConvTypes ELSE FewTypes \ {TT}}
  \cup {Comp(T, <<x>>) : T \in CompTypes} \cup {Comp(SliceT(TT), <<x, A>>), Comp(SliceT(TT), <<A, x>>)}

RECURSIVE Trees(_)
Trees(d) == IF d = 1 THEN {A}
            ELSE LET P == Trees(d - 1) IN P \cup Atoms2 \cup UNION {Grow(x, P) : x \in P}
\* siblings: every tree one level below the bound (FullSib), or a leaf, a binary, a unary and a postfix expression (quick tier)
FewSib == {A, Bin("+", A, A), Un("-", A), Index(A, A)}
Sib == IF FullSib THEN Trees(MaxDepth - 1) ELSE FewSib

StmtsOf(x) ==
  {Assign(op, <<A>>, <<x>>) : op \in AssignOps} \cup {Assign(op, <<x>>, <<>>) : op \in IncDec}
  \cup {Assign("=", <<x>>, <<A>>), Assign("=", <<A, x>>, <<A, A>>), Assign(":=", <<A, A>>, <<x, A>>)}
  \cup {VarD(<<A>>, Nil, <<x>>), VarD(<<A>>, TT, <<x>>), VarD(<<A, A>>, Nil, <<x, A>>), VarD(<<A, A>>, TT, <<A, x>>)}
  \cup {Send(x, A), Send(A, x), Defer(Call(x, <<>>, "false")), Go(Call(x, <<>>, "false")), Show(<<x>>), Show(<<x, A>>)}
StmtAtoms == {VarD(<<A>>, T, <<>>) : T \in AssertTypes} \cup {VarD(<<A, A>>, TT, <<>>)}

\* What the implementation-shaped String model predicts for x.  Root causes are located as the judge
\* locates them on the real code: the smallest sub-expressions whose own String form does not parse back
\* to them (no failing sub-expression below), each described by where its re-parsed tree first differs.
ImplOutcome(x) == LET y == ImplReparse(x) IN
                  IF y = x THEN "ok" ELSE IF y = Err /\ Elided(x) THEN "elided" ELSE "violation"
RECURSIVE MinFail(_)
MinFail(x) ==
  IF x.k = "nil" THEN {}
  ELSE LET below == UNION {MinFail(x.c[i]) : i \in 1..Len(x.c)} IN
       IF x.k = "list" \/ below # {} THEN below
       ELSE IF ImplOutcome(x) # "violation" THEN {}
       ELSE LET y == ImplReparse(x) IN
            IF y = Err THEN {<<x.k, "error">>} ELSE LET d == Diverge(x, y, "-") IN {<<d.k1, d.k2>>}
PredOf(x) == LET o == ImplOutcome(x) IN
             [cls |-> o, pairs |-> IF o = "violation" THEN SetToSeq(MinFail(x)) ELSE <<>>]

VARIABLES t, src, pred
Carry == src' = PrintTree(t') /\ pred' = PredOf(t')
Init == t \in {A} \cup Atoms2 \cup StmtAtoms /\ src = PrintTree(t) /\ pred = PredOf(t)
GrowExpr == ~IsStmt(t) /\ Depth(t) < MaxDepth /\ t' \in Grow(t, Sib) /\ Carry
MakeStmt == ~IsStmt(t) /\ Depth(t) <= StmtDepth /\ t' \in StmtsOf(t) /\ Carry
Next == GrowExpr \/ MakeStmt

\* the reference printer and parser are inverse on the whole space
RefRoundTrip == Parse(IF IsStmt(t) THEN "stmt" ELSE "expr", src) = t
InBound == IsStmt(t) \/ Depth(t) <= MaxDepth
=============================================================================

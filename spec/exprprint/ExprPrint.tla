------------------------------ MODULE ExprPrint ------------------------------
(* C27.  "For every expression and statement the parser produces from valid source, its String form
   parses back to a structurally identical tree, ignoring positions."

   Abstract syntax trees are uniform records  [k |-> kind, v |-> <<scalar strings>>, c |-> <<children>>]
   (the same shape the driver uses to log the real parser's trees, without positions).

   (i)  REFERENCE part: Print (source with minimal parentheses, as a token sequence; the driver joins
        tokens with one space) and Parse (precedence climbing over the token sequence).  TLC checks
        Parse(Print(t)) = t for every tree of the bounded space (MC_ExprPrint).
   (ii) IMPLEMENTATION-SHAPED part: IPr transcribes the String methods of ast/ast.go (which operands
        they parenthesise, which operators they spell).  Parse(IPr(t)) = t is evaluated by TLC over the
        same space; its counterexamples are *predictions* (diagnostic), replayed into the real code.
   (iii) Judge operators shared with Trace_ExprPrint: Abstract (real dump -> model tree), Diverge, Elided. *)
EXTENDS Integers, Sequences, FiniteSets

Nd(k, v, c) == [k |-> k, v |-> v, c |-> c]
Nil == Nd("nil", <<>>, <<>>)
Err == Nd("error", <<>>, <<>>)
NoModel == Nd("none", <<>>, <<>>)
List(s) == Nd("list", <<>>, s)
Id(n) == Nd("Identifier", <<n>>, <<>>)
Bin(op, a, b) == Nd("BinaryOperator", <<op>>, <<a, b>>)
Un(op, a) == Nd("UnaryOperator", <<op>>, <<a>>)
Call(f, args, dots) == Nd("Call", <<dots>>, <<f, List(args)>>)          \* dots: "true" | "false"
Index(e, i) == Nd("Index", <<>>, <<e, i>>)
Slicing(e, lo, hi, mx) == Nd("Slicing", <<>>, <<e, lo, hi, mx>>)
Selector(e, n) == Nd("Selector", <<n>>, <<e>>)
Assertion(e, T) == Nd("TypeAssertion", <<>>, <<e, T>>)
Comp(T, elems) == Nd("CompositeLiteral", <<>>, <<T, List(elems)>>)
FuncT(res) == Nd("FuncType", <<>>, <<res>>)                               \* func() [res]
FuncLit(ft) == Nd("Func", <<>>, <<ft>>)                                   \* func() [res] { }
SliceT(T) == Nd("SliceType", <<>>, <<T>>)
MapT(K, V) == Nd("MapType", <<>>, <<K, V>>)
ChanT(dir, T) == Nd("ChanType", <<dir>>, <<T>>)                           \* dir: "none" | "recv" | "send"
Assign(op, lhs, rhs) == Nd("Assignment", <<op>>, <<List(lhs), List(rhs)>>)
VarD(ids, T, rhs) == Nd("Var", <<>>, <<List(ids), T, List(rhs)>>)
Send(ch, x) == Nd("Send", <<>>, <<ch, x>>)
Defer(x) == Nd("Defer", <<>>, <<x>>)
Go(x) == Nd("Go", <<>>, <<x>>)
Show(es) == Nd("Show", <<>>, <<List(es)>>)
\* Literal-carrying constructs (case space of MC_ExprLit).  In a *shape* tree the string datum is a hole name
\* ("#1"); ExprLit.Resolve puts the byte strings in: the path an extends/import/render literal denotes, the
\* source spelling of a string BasicLiteral (that is what the parser stores in Value).
Rend(x) == Nd("Render", <<x>>, <<>>)                                      \* render "path"
Ext(x) == Nd("Extends", <<x>>, <<>>)                                      \* extends "path"
Imp(id, x, for) == Nd("Import", <<x>>, <<id, List(for)>>)                 \* import [id] "path" [for A, B]
StrLit(x) == Nd("BasicLiteral", <<"string", x>>, <<>>)
LitHoles == {"#1", "#2"}
ImportNames == {"a", ".", "_"}

Idents == {"a", "b", "c", "f", "T"}
Prec5 == {"*", "/", "%", "<<", ">>", "&", "&^"}
Prec4 == {"+", "-", "|", "^"}
Prec3 == {"==", "!=", "<", "<=", ">", ">=", "contains", "not contains"}
Prec2 == {"&&", "and"}
Prec1 == {"||", "or"}
AllBinOps == Prec5 \cup Prec4 \cup Prec3 \cup Prec2 \cup Prec1
AllUnOps == {"+", "-", "!", "^", "*", "&", "<-", "not"}
BinPrec(op) == IF op \in Prec5 THEN 5 ELSE IF op \in Prec4 THEN 4 ELSE IF op \in Prec3 THEN 3
               ELSE IF op \in Prec2 THEN 2 ELSE 1
AssignOps == {"=", ":=", "+=", "-=", "*=", "/=", "%=", "&=", "|=", "^=", "&^=", "<<=", ">>="}
IncDec == {"++", "--"}
TypeKinds == {"SliceType", "MapType", "ChanType", "FuncType"}
StmtKinds == {"Assignment", "Var", "Send", "Defer", "Go", "Show", "Extends", "Import"}
\* unary binds tighter than every binary operator (also Scriggo's 'not'); postfix/primary tighter still
Prec(t) == IF t.k = "BinaryOperator" THEN BinPrec(t.v[1]) ELSE IF t.k = "UnaryOperator" THEN 6 ELSE 7

(* ------------------------------------------------------------------------------------------------
   (i) reference Print: minimal parentheses
   ------------------------------------------------------------------------------------------------ *)
RECURSIVE Pr(_)
RECURSIVE Commas(_, _)
Par(t) == <<"(">> \o Pr(t) \o <<")">>
Opd(t, min) == IF Prec(t) < min THEN Par(t) ELSE Pr(t)
\* operand of a call / index / slice / selector / type assertion: a primary expression; a type used as
\* conversion operand is parenthesised when it starts with an operator or 'func'/'chan' (Go spec, Conversions)
PostOpd(t) == IF Prec(t) < 7 \/ t.k \in {"ChanType", "FuncType"} THEN Par(t) ELSE Pr(t)
Commas(s, i) == IF i > Len(s) THEN <<>>
                ELSE (IF i > 1 THEN <<",">> ELSE <<>>) \o Pr(s[i]) \o Commas(s, i + 1)
Pr(t) ==
  CASE t.k = "nil" -> <<>>
    [] t.k = "Identifier" -> <<t.v[1]>>
    [] t.k = "BinaryOperator" ->                        \* binary operators associate to the left
         Opd(t.c[1], BinPrec(t.v[1])) \o <<t.v[1]>> \o Opd(t.c[2], BinPrec(t.v[1]) + 1)
    [] t.k = "UnaryOperator" -> <<t.v[1]>> \o Opd(t.c[1], 6)
    [] t.k = "Call" -> PostOpd(t.c[1]) \o <<"(">> \o Commas(t.c[2].c, 1)
                         \o (IF t.v[1] = "true" THEN <<"...">> ELSE <<>>) \o <<")">>
    [] t.k = "Index" -> PostOpd(t.c[1]) \o <<"[">> \o Pr(t.c[2]) \o <<"]">>
    [] t.k = "Slicing" -> PostOpd(t.c[1]) \o <<"[">> \o Pr(t.c[2]) \o <<":">> \o Pr(t.c[3])
                         \o (IF t.c[4] = Nil THEN <<>> ELSE <<":">> \o Pr(t.c[4])) \o <<"]">>
    [] t.k = "Selector" -> PostOpd(t.c[1]) \o <<".", t.v[1]>>
    [] t.k = "TypeAssertion" -> PostOpd(t.c[1]) \o <<".", "(">> \o Pr(t.c[2]) \o <<")">>
    [] t.k = "CompositeLiteral" -> Pr(t.c[1]) \o <<"{">> \o Commas(t.c[2].c, 1) \o <<"}">>
    [] t.k = "FuncType" -> <<"func", "(", ")">> \o Pr(t.c[1])
    [] t.k = "Func" -> Pr(t.c[1]) \o <<"{", "}">>
    [] t.k = "SliceType" -> <<"[", "]">> \o Pr(t.c[1])
    [] t.k = "MapType" -> <<"map", "[">> \o Pr(t.c[1]) \o <<"]">> \o Pr(t.c[2])
    [] t.k = "ChanType" ->
         (CASE t.v[1] = "recv" -> <<"<-", "chan">> [] t.v[1] = "send" -> <<"chan", "<-">> [] OTHER -> <<"chan">>)
         \o (IF t.v[1] = "none" /\ t.c[1].k = "ChanType" /\ t.c[1].v[1] = "recv"
             THEN Par(t.c[1]) ELSE Pr(t.c[1]))          \* 'chan <-chan T' would read as 'chan<- chan T'
    [] t.k = "Assignment" -> Commas(t.c[1].c, 1) \o <<t.v[1]>> \o Commas(t.c[2].c, 1)
    [] t.k = "Var" -> <<"var">> \o Commas(t.c[1].c, 1) \o Pr(t.c[2])
                        \o (IF t.c[3].c = <<>> THEN <<>> ELSE <<"=">> \o Commas(t.c[3].c, 1))
    [] t.k = "Send" -> Pr(t.c[1]) \o <<"<-">> \o Pr(t.c[2])
    [] t.k = "Defer" -> <<"defer">> \o Pr(t.c[1])
    [] t.k = "Go" -> <<"go">> \o Pr(t.c[1])
    [] t.k = "Show" -> <<"show">> \o Commas(t.c[1].c, 1)
    [] t.k = "Render" -> <<"render", t.v[1]>>             \* an operand (primary expression)
    [] t.k = "BasicLiteral" -> <<t.v[2]>>
    [] t.k = "Extends" -> <<"extends", t.v[1]>>
    [] t.k = "Import" -> <<"import">> \o (IF t.c[1] = Nil THEN <<>> ELSE <<t.c[1].v[1]>>) \o <<t.v[1]>>
                           \o (IF t.c[2].c = <<>> THEN <<>> ELSE <<"for">> \o Commas(t.c[2].c, 1))
PrintTree(t) == Pr(t)

(* ------------------------------------------------------------------------------------------------
   (i) reference Parse: precedence climbing over a token sequence.  A result is [t, i]: tree and index
   of the next token; i = 0 marks failure (Tok(s, 0) is "<eof>", so failure propagates).
   ------------------------------------------------------------------------------------------------ *)
Tok(s, i) == IF i >= 1 /\ i <= Len(s) THEN s[i] ELSE "<eof>"
R(t, i) == [t |-> t, i |-> i]
Bad == R(Err, 0)
ResultStart == Idents \cup {"*", "[", "map", "chan", "<-", "func"}
CompTypeKinds == {"Identifier", "SliceType", "MapType", "Selector"}

RECURSIVE PType(_, _)
RECURSIVE PExpr(_, _, _)
RECURSIVE Climb(_, _, _, _)
RECURSIVE PUnary(_, _)
RECURSIVE PPostfix(_, _, _)
RECURSIVE PList(_, _, _, _)
RECURSIVE PExprs(_, _, _)

PFuncType(s, i) ==
  IF Tok(s, i + 1) = "(" /\ Tok(s, i + 2) = ")"
  THEN IF Tok(s, i + 3) \in ResultStart
       THEN LET r == PType(s, i + 3) IN R(FuncT(r.t), r.i)
       ELSE R(FuncT(Nil), i + 3)
  ELSE Bad

PType(s, i) ==
  LET tk == Tok(s, i) IN
  CASE tk = "(" -> LET r == PType(s, i + 1) IN IF Tok(s, r.i) = ")" THEN R(r.t, r.i + 1) ELSE Bad
    [] tk = "*" -> LET r == PType(s, i + 1) IN R(Un("*", r.t), r.i)
    [] tk = "[" -> IF Tok(s, i + 1) = "]" THEN LET r == PType(s, i + 2) IN R(SliceT(r.t), r.i) ELSE Bad
    [] tk = "map" -> IF Tok(s, i + 1) = "["
                     THEN LET k == PType(s, i + 2) IN
                          IF Tok(s, k.i) = "]" THEN LET x == PType(s, k.i + 1) IN R(MapT(k.t, x.t), x.i) ELSE Bad
                     ELSE Bad
    \* "<-" associates with the leftmost chan possible
    [] tk = "chan" -> IF Tok(s, i + 1) = "<-" THEN LET r == PType(s, i + 2) IN R(ChanT("send", r.t), r.i)
                      ELSE LET r == PType(s, i + 1) IN R(ChanT("none", r.t), r.i)
    [] tk = "<-" -> IF Tok(s, i + 1) = "chan" THEN LET r == PType(s, i + 2) IN R(ChanT("recv", r.t), r.i) ELSE Bad
    [] tk = "func" -> PFuncType(s, i)
    [] tk \in Idents -> R(Id(tk), i + 1)
    [] OTHER -> Bad

\* comma-separated expressions up to the closing token; [ts, i, dots]
PList(s, i, close, acc) ==
  IF Tok(s, i) = close THEN [ts |-> acc, i |-> i + 1, dots |-> "false"]
  ELSE LET r == PExpr(s, i, 1) IN
       IF Tok(s, r.i) = "," THEN PList(s, r.i + 1, close, Append(acc, r.t))
       ELSE IF Tok(s, r.i) = close THEN [ts |-> Append(acc, r.t), i |-> r.i + 1, dots |-> "false"]
       ELSE IF Tok(s, r.i) = "..." /\ Tok(s, r.i + 1) = close /\ close = ")"
            THEN [ts |-> Append(acc, r.t), i |-> r.i + 2, dots |-> "true"]
       ELSE [ts |-> <<>>, i |-> 0, dots |-> "false"]

PPostfix(s, t, i) ==
  LET tk == Tok(s, i) IN
  CASE tk = "(" -> LET l == PList(s, i + 1, ")", <<>>) IN
                   IF l.i = 0 THEN Bad ELSE PPostfix(s, Call(t, l.ts, l.dots), l.i)
    [] tk = "[" ->
         LET lo == IF Tok(s, i + 1) = ":" THEN R(Nil, i + 1) ELSE PExpr(s, i + 1, 1) IN
         IF Tok(s, lo.i) = "]" THEN PPostfix(s, Index(t, lo.t), lo.i + 1)
         ELSE IF Tok(s, lo.i) = ":"
         THEN LET hi == IF Tok(s, lo.i + 1) \in {"]", ":"} THEN R(Nil, lo.i + 1) ELSE PExpr(s, lo.i + 1, 1) IN
              IF Tok(s, hi.i) = "]" THEN PPostfix(s, Slicing(t, lo.t, hi.t, Nil), hi.i + 1)
              ELSE IF Tok(s, hi.i) = ":"
              THEN LET mx == PExpr(s, hi.i + 1, 1) IN
                   IF Tok(s, mx.i) = "]" THEN PPostfix(s, Slicing(t, lo.t, hi.t, mx.t), mx.i + 1) ELSE Bad
              ELSE Bad
         ELSE Bad
    [] tk = "." ->
         IF Tok(s, i + 1) = "("
         THEN LET ty == PType(s, i + 2) IN
              IF Tok(s, ty.i) = ")" THEN PPostfix(s, Assertion(t, ty.t), ty.i + 1) ELSE Bad
         ELSE IF Tok(s, i + 1) \in Idents THEN PPostfix(s, Selector(t, Tok(s, i + 1)), i + 2)
         ELSE Bad
    [] tk = "{" /\ t.k \in CompTypeKinds ->
         LET l == PList(s, i + 1, "}", <<>>) IN
         IF l.i = 0 THEN Bad ELSE PPostfix(s, Comp(t, l.ts), l.i)
    [] OTHER -> R(t, i)

PUnary(s, i) ==
  LET tk == Tok(s, i) IN
  IF tk = "<-" /\ Tok(s, i + 1) = "chan" THEN LET ty == PType(s, i) IN PPostfix(s, ty.t, ty.i)
  ELSE IF tk \in AllUnOps THEN LET r == PUnary(s, i + 1) IN R(Un(tk, r.t), r.i)
  ELSE IF tk = "(" THEN LET r == PExpr(s, i + 1, 1) IN
                        IF Tok(s, r.i) = ")" THEN PPostfix(s, r.t, r.i + 1) ELSE Bad
  ELSE IF tk \in {"[", "map", "chan"} THEN LET ty == PType(s, i) IN PPostfix(s, ty.t, ty.i)
  ELSE IF tk = "func" THEN LET ft == PFuncType(s, i) IN
                           IF Tok(s, ft.i) = "{" /\ Tok(s, ft.i + 1) = "}"
                           THEN PPostfix(s, FuncLit(ft.t), ft.i + 2) ELSE PPostfix(s, ft.t, ft.i)
  ELSE IF tk = "render" THEN IF Tok(s, i + 1) \in LitHoles THEN PPostfix(s, Rend(Tok(s, i + 1)), i + 2) ELSE Bad
  ELSE IF tk \in LitHoles THEN PPostfix(s, StrLit(tk), i + 1)
  ELSE IF tk \in Idents THEN PPostfix(s, Id(tk), i + 1)
  ELSE Bad

Climb(s, left, i, minp) ==
  LET op == Tok(s, i) IN
  IF op \in AllBinOps /\ BinPrec(op) >= minp
  THEN LET r == PExpr(s, i + 1, BinPrec(op) + 1) IN Climb(s, Bin(op, left, r.t), r.i, minp)
  ELSE R(left, i)
PExpr(s, i, minp) == LET l == PUnary(s, i) IN Climb(s, l.t, l.i, minp)

PExprs(s, i, acc) == LET r == PExpr(s, i, 1) IN
                     IF Tok(s, r.i) = "," THEN PExprs(s, r.i + 1, Append(acc, r.t))
                     ELSE [ts |-> Append(acc, r.t), i |-> r.i]
RECURSIVE PIdents(_, _, _)
PIdents(s, i, acc) == IF Tok(s, i) \in Idents
                      THEN IF Tok(s, i + 1) = "," THEN PIdents(s, i + 2, Append(acc, Id(Tok(s, i))))
                           ELSE [ts |-> Append(acc, Id(Tok(s, i))), i |-> i + 1]
                      ELSE [ts |-> <<>>, i |-> 0]
Fin(s, t, i) == IF i = Len(s) + 1 THEN t ELSE Err
ParseExpr(s) == LET r == PExpr(s, 1, 1) IN Fin(s, r.t, r.i)
ParseStmt(s) ==
  LET tk == Tok(s, 1) IN
  CASE tk = "var" ->
         LET ids == PIdents(s, 2, <<>>) IN
         IF ids.i = 0 THEN Err
         ELSE IF Tok(s, ids.i) = "=" THEN LET r == PExprs(s, ids.i + 1, <<>>) IN Fin(s, VarD(ids.ts, Nil, r.ts), r.i)
         ELSE LET ty == PType(s, ids.i) IN
              IF Tok(s, ty.i) = "=" THEN LET r == PExprs(s, ty.i + 1, <<>>) IN Fin(s, VarD(ids.ts, ty.t, r.ts), r.i)
              ELSE Fin(s, VarD(ids.ts, ty.t, <<>>), ty.i)
    [] tk = "defer" -> LET r == PExpr(s, 2, 1) IN Fin(s, Defer(r.t), r.i)
    [] tk = "go" -> LET r == PExpr(s, 2, 1) IN Fin(s, Go(r.t), r.i)
    [] tk = "show" -> LET r == PExprs(s, 2, <<>>) IN Fin(s, Show(r.ts), r.i)
    [] tk = "extends" -> IF Tok(s, 2) \in LitHoles THEN Fin(s, Ext(Tok(s, 2)), 3) ELSE Err
    [] tk = "import" ->
         LET j == IF Tok(s, 2) \in ImportNames THEN 3 ELSE 2
             id == IF j = 3 THEN Id(Tok(s, 2)) ELSE Nil IN
         IF Tok(s, j) \notin LitHoles THEN Err
         ELSE IF Tok(s, j + 1) = "for" /\ id = Nil
         THEN LET ids == PIdents(s, j + 2, <<>>) IN IF ids.i = 0 THEN Err ELSE Fin(s, Imp(Nil, Tok(s, j), ids.ts), ids.i)
         ELSE Fin(s, Imp(id, Tok(s, j), <<>>), j + 1)
    [] OTHER ->
         LET l == PExprs(s, 1, <<>>)  op == Tok(s, l.i) IN
         IF op \in IncDec THEN Fin(s, Assign(op, l.ts, <<>>), l.i + 1)
         ELSE IF op \in AssignOps THEN LET r == PExprs(s, l.i + 1, <<>>) IN Fin(s, Assign(op, l.ts, r.ts), r.i)
         ELSE IF op = "<-" /\ Len(l.ts) = 1 THEN LET x == PExpr(s, l.i + 1, 1) IN Fin(s, Send(l.ts[1], x.t), x.i)
         ELSE Err
IsStmt(t) == t.k \in StmtKinds
Parse(mode, s) == IF mode = "stmt" THEN ParseStmt(s) ELSE ParseExpr(s)
RoundTrips(t) == Parse(IF IsStmt(t) THEN "stmt" ELSE "expr", PrintTree(t)) = t

(* ------------------------------------------------------------------------------------------------
   (ii) implementation-shaped: the String methods of ast/ast.go, token for token
   ------------------------------------------------------------------------------------------------ *)
RECURSIVE IPr(_)
RECURSIVE ISep(_, _, _)
IPar(t) == <<"(">> \o IPr(t) \o <<")">>
IsOperator(t) == t.k \in {"BinaryOperator", "UnaryOperator"}
ISep(s, i, sep) == IF i > Len(s) THEN <<>>
                   ELSE (IF i > 1 THEN sep ELSE <<>>) \o IPr(s[i]) \o ISep(s, i + 1, sep)
StringAssignOps == {"=", ":=", "+=", "-=", "*=", "/=", "%=", "++", "--"}      \* the switch in Assignment.String
IPr(t) ==
  CASE t.k = "nil" -> <<>>
    [] t.k = "Identifier" -> <<t.v[1]>>
    [] t.k = "BinaryOperator" ->
         (IF IsOperator(t.c[1]) /\ Prec(t.c[1]) <= Prec(t) THEN IPar(t.c[1]) ELSE IPr(t.c[1])) \o <<t.v[1]>>
         \o (IF IsOperator(t.c[2]) /\ Prec(t.c[2]) <= Prec(t) THEN IPar(t.c[2]) ELSE IPr(t.c[2]))
    [] t.k = "UnaryOperator" ->
         <<t.v[1]>> \o (IF IsOperator(t.c[1]) /\ (t.v[1] = "<-" \/ Prec(t.c[1]) <= 6) THEN IPar(t.c[1]) ELSE IPr(t.c[1]))
    [] t.k = "Call" ->
         LET f == t.c[1] IN
         (IF \/ f.k = "UnaryOperator" /\ f.v[1] \in {"*", "<-"}
             \/ f.k = "FuncType" /\ f.c[1] = Nil
             \/ f.k = "ChanType" THEN IPar(f) ELSE IPr(f))
         \o <<"(">> \o ISep(t.c[2].c, 1, <<",">>) \o (IF t.v[1] = "true" THEN <<"...">> ELSE <<>>) \o <<")">>
    [] t.k = "Index" -> IPr(t.c[1]) \o <<"[">> \o IPr(t.c[2]) \o <<"]">>
    [] t.k = "Slicing" -> IPr(t.c[1]) \o <<"[">> \o IPr(t.c[2]) \o <<":">> \o IPr(t.c[3])
                         \o (IF t.c[4] = Nil THEN <<>> ELSE <<":">> \o IPr(t.c[4])) \o <<"]">>
    [] t.k = "Selector" -> IPr(t.c[1]) \o <<".", t.v[1]>>
    [] t.k = "TypeAssertion" -> IPr(t.c[1]) \o <<".", "(">> \o IPr(t.c[2]) \o <<")">>
    [] t.k = "CompositeLiteral" -> IPr(t.c[1]) \o (IF t.c[2].c = <<>> THEN <<"{", "}">> ELSE <<"{", "...", "}">>)
    [] t.k = "FuncType" -> <<"func", "(", ")">> \o IPr(t.c[1])
    [] t.k = "Func" -> <<"func", "literal">>
    [] t.k = "SliceType" -> <<"[", "]">> \o IPr(t.c[1])
    [] t.k = "MapType" -> <<"map", "[">> \o IPr(t.c[1]) \o <<"]">> \o IPr(t.c[2])
    [] t.k = "ChanType" ->
         (CASE t.v[1] = "recv" -> <<"<-", "chan">> [] t.v[1] = "send" -> <<"chan", "<-">> [] OTHER -> <<"chan">>)
         \o IPr(t.c[1])
    [] t.k = "Assignment" -> ISep(t.c[1].c, 1, <<",">>) \o (IF t.v[1] \in StringAssignOps THEN <<t.v[1]>> ELSE <<>>)
                               \o ISep(t.c[2].c, 1, <<",">>)
    [] t.k = "Var" -> <<"var">> \o ISep(t.c[1].c, 1, <<>>) \o IPr(t.c[2])
                        \o (IF t.c[3].c = <<>> THEN <<>> ELSE <<"=">> \o ISep(t.c[3].c, 1, <<>>))
    [] t.k = "Send" -> IPr(t.c[1]) \o <<"<-">> \o IPr(t.c[2])
    [] t.k = "Defer" -> <<"defer">> \o IPr(t.c[1])
    [] t.k = "Go" -> <<"go">> \o IPr(t.c[1])
    [] t.k = "Show" -> <<"show">> \o ISep(t.c[1].c, 1, <<",">>)
    \* the literal itself is re-spelled by strconv.Quote (ExprLit.IQuote); Import.String writes no space before
    \* 'for' ("p"for A), which is the same token sequence
    [] t.k = "Render" -> <<"render", t.v[1]>>
    [] t.k = "BasicLiteral" -> <<t.v[2]>>
    [] t.k = "Extends" -> <<"extends", t.v[1]>>
    [] t.k = "Import" -> <<"import">> \o (IF t.c[1] = Nil THEN <<>> ELSE <<t.c[1].v[1]>>) \o <<t.v[1]>>
                           \o (IF t.c[2].c = <<>> THEN <<>> ELSE <<"for">> \o ISep(t.c[2].c, 1, <<",">>))
ImplReparse(t) == Parse(IF IsStmt(t) THEN "stmt" ELSE "expr", IPr(t))

(* ------------------------------------------------------------------------------------------------
   (iii) judge operators
   ------------------------------------------------------------------------------------------------ *)
\* ast.OperatorType / AssignmentType / ChanDirection constants (public API of package ast), as logged (decimal)
OpSym(x) ==
  CASE x = "0" -> "==" [] x = "1" -> "!=" [] x = "2" -> "<" [] x = "3" -> "<=" [] x = "4" -> ">" [] x = "5" -> ">="
    [] x = "6" -> "!" [] x = "7" -> "&" [] x = "8" -> "|" [] x = "9" -> "&&" [] x = "10" -> "||" [] x = "11" -> "+"
    [] x = "12" -> "-" [] x = "13" -> "*" [] x = "14" -> "/" [] x = "15" -> "%" [] x = "16" -> "^" [] x = "17" -> "&^"
    [] x = "18" -> "<<" [] x = "19" -> ">>" [] x = "20" -> "contains" [] x = "21" -> "not contains" [] x = "22" -> "<-"
    [] x = "23" -> "&" [] x = "24" -> "*" [] x = "25" -> "and" [] x = "26" -> "or" [] x = "27" -> "not" [] OTHER -> "?"
AssignSym(x) ==
  CASE x = "0" -> "=" [] x = "1" -> ":=" [] x = "2" -> "+=" [] x = "3" -> "-=" [] x = "4" -> "*=" [] x = "5" -> "/="
    [] x = "6" -> "%=" [] x = "7" -> "&=" [] x = "8" -> "|=" [] x = "9" -> "^=" [] x = "10" -> "&^=" [] x = "11" -> "<<="
    [] x = "12" -> ">>=" [] x = "13" -> "++" [] x = "14" -> "--" [] OTHER -> "?"
DirSym(x) == CASE x = "0" -> "none" [] x = "1" -> "recv" [] x = "2" -> "send" [] OTHER -> "?"
LitSym(x) == CASE x = "0" -> "string" [] x = "1" -> "rune" [] x = "2" -> "int" [] x = "3" -> "float" [] x = "4" -> "imaginary" [] OTHER -> "?"

\* Abstract: the driver's generic dump of a real tree (kind = Go type name, v = exported scalar fields in
\* declaration order, c = child fields in declaration order, slices as "list" nodes, nil as "nil") -> model tree
RECURSIVE Abstract(_)
AbsAll(s) == [i \in 1..Len(s) |-> Abstract(s[i])]
Abstract(T) ==
  CASE T.k = "BinaryOperator" -> Nd(T.k, <<OpSym(T.v[1])>>, AbsAll(T.c))
    [] T.k = "UnaryOperator" -> Nd(T.k, <<OpSym(T.v[1])>>, AbsAll(T.c))
    [] T.k = "Slicing" -> Nd(T.k, <<>>, AbsAll(T.c))                                   \* IsFull is implied by Max
    [] T.k = "ChanType" -> Nd(T.k, <<DirSym(T.v[1])>>, AbsAll(T.c))
    [] T.k = "Assignment" -> Nd(T.k, <<AssignSym(T.v[1])>>, AbsAll(T.c))
    [] T.k = "Show" -> Nd(T.k, <<>>, AbsAll(T.c))                                      \* drop Context
    [] T.k = "Extends" /\ Len(T.v) = 2 -> Nd(T.k, <<T.v[1]>>, <<>>)                     \* drop Format
    [] T.k = "BasicLiteral" /\ Len(T.v) = 2 -> Nd(T.k, <<LitSym(T.v[1]), T.v[2]>>, <<>>)
    [] T.k = "CompositeLiteral" /\ Len(T.c) = 2 /\ \A i \in 1..Len(T.c[2].c) : T.c[2].c[i].k = "KeyValue" /\ T.c[2].c[i].c[1] = Nil ->
         Comp(Abstract(T.c[1]), [i \in 1..Len(T.c[2].c) |-> Abstract(T.c[2].c[i].c[2])])
    [] T.k = "FuncType" /\ Len(T.c) = 2 /\ T.c[1].c = <<>> /\ Len(T.c[2].c) <= 1 ->     \* no parameters, 0/1 unnamed result
         FuncT(IF T.c[2].c = <<>> THEN Nil ELSE Abstract(T.c[2].c[1].c[2]))
    [] T.k = "Func" /\ Len(T.c) = 3 /\ T.c[1] = Nil /\ T.c[3].k = "Block" /\ T.c[3].c[1].c = <<>> ->   \* literal, empty body
         FuncLit(Abstract(T.c[2]))
    [] OTHER -> Nd(T.k, T.v, AbsAll(T.c))

\* first point (pre-order) where two trees differ: kind (and operator) on the left, kind on the right;
\* a difference in a list of children is reported as <<owner kind, "list">>
OpKinds == {"BinaryOperator", "UnaryOperator", "Assignment", "ChanType"}
RECURSIVE Diverge(_, _, _)
Diverge(a, b, p) ==
  IF a.k # b.k \/ a.v # b.v \/ Len(a.c) # Len(b.c)
  THEN IF a.k = "list" THEN [k1 |-> p, v1 |-> <<>>, k2 |-> "list"]
       ELSE [k1 |-> a.k, v1 |-> IF a.k \in OpKinds THEN a.v ELSE <<>>, k2 |-> b.k]
  ELSE LET D == {i \in 1..Len(a.c) : a.c[i] # b.c[i]} IN
       IF D = {} THEN [k1 |-> "equal", v1 |-> <<>>, k2 |-> "equal"]
       ELSE LET i == CHOOSE i \in D : \A j \in D : i <= j IN Diverge(a.c[i], b.c[i], IF a.k = "list" THEN p ELSE a.k)

\* nodes whose String form is a description, not source (documented in ast.go: "func literal",
\* "{...}" unless the test-only expandedPrint is set): the property is read as not covering them
RECURSIVE Elided(_)
Elided(T) == \/ T.k = "Func"
             \/ T.k = "CompositeLiteral" /\ Len(T.c) = 2 /\ T.c[2].c # <<>>
             \/ \E i \in 1..Len(T.c) : Elided(T.c[i])
=============================================================================

----------------------------- MODULE MC_ExprLit -----------------------------
(* Case space of the literal-carrying constructs (ExprLit): every path made of at most MaxLen characters of
   the alphabet Syms (one character per class that matters when a string is written as a literal: a letter that
   is also an escape letter, dot, slash, backslash, the three quote characters, control characters with and
   without a short escape, DEL, printable and non-printable non-ASCII characters of 2 and 4 bytes, space, and
   the characters of the template delimiters) in  extends / import / render, every spelling of the literal
   (minimal escapes, all-hexadecimal, all-octal, raw) for paths of at most AltLen characters, and import forms /
   expression and statement contexts of render and of string literals for paths of at most CtxLen characters
   (string literals in the other spellings: one character).
   A state carries the shape, the path, the spelling and the derived case: tree t, source tokens src (the hole
   "#1" stands for the literal lits[1]), the prediction of the implementation-shaped String model, and
   use = the source is valid (the spelling exists, the path is a valid template path).  The states are exported
   with TLC -dump; states with use = FALSE are only stepping stones of the path construction. *)
EXTENDS ExprLit, TLC, SequencesExt
CONSTANTS MaxLen, AltLen, CtxLen

Syms == << <<97>>, <<46>>, <<47>>, <<92>>, <<34>>, <<96>>, <<39>>, <<9>>, <<10>>, <<127>>,
           <<195, 169>>, <<194, 160>>, <<243, 160, 128, 129>>, <<32>>, <<37>>, <<125>> >>
PathOf(ss) == LFlat([i \in 1..Len(ss) |-> Syms[ss[i]]], 1)

H == "#1"
A == Id("a")
TT == Id("T")
BaseShapes == {Ext(H), Imp(Nil, H, <<>>), Rend(H)}
CtxShapes ==
  {Imp(Id(n), H, <<>>) : n \in ImportNames} \cup {Imp(Nil, H, <<TT>>), Imp(Nil, H, <<TT, TT>>)}
  \cup {Bin("+", Rend(H), A), Bin("+", A, Rend(H)), Bin("+", Rend(H), Rend(H)), Un("-", Rend(H)),
        Call(Id("f"), <<Rend(H)>>, "false"), Call(Id("f"), <<A, Rend(H)>>, "false"), Selector(Rend(H), "f"), Index(Rend(H), A),
        Index(A, Rend(H)), Show(<<Rend(H), A>>), Show(<<A, Rend(H)>>), Assign("=", <<A>>, <<Rend(H)>>),
        Assign(":=", <<A, A>>, <<A, Rend(H)>>), VarD(<<A>>, Nil, <<Rend(H)>>), Defer(Call(Id("f"), <<Rend(H)>>, "false"))}
LitShapes == {StrLit(H), Bin("+", StrLit(H), A), Bin("==", A, StrLit(H)), Call(Id("f"), <<StrLit(H)>>, "false"),
              Index(StrLit(H), A), Index(A, StrLit(H)), Show(<<StrLit(H)>>), Assign("=", <<A>>, <<StrLit(H)>>),
              Bin("+", StrLit(H), Rend(H))}
Shapes == BaseShapes \cup CtxShapes \cup LitShapes
SpOf(sh) == IF sh = Ext(H) \/ sh \in LitShapes THEN Spellings ELSE {"min"}
Bound(sh, s) == IF sh = Ext(H) THEN (IF s = "min" THEN MaxLen ELSE AltLen)
                ELSE IF sh \in BaseShapes THEN MaxLen
                ELSE IF s = "min" THEN CtxLen ELSE 1

VARIABLES shape, syms, sp, t, src, lits, pred, use
Derived(sh, ss, s) ==
  LET p == PathOf(ss)
      lit == IF SpellDefined(s, p) THEN Spell(s, p) ELSE <<>>
      ok == SpellDefined(s, p) /\ (HasPathHole(sh) => ValidTemplatePath(p))
      tree == Resolve(sh, lit, p)
      y == IF ok THEN ImplLitReparse(sh, lit, p) ELSE tree IN
  [t |-> tree, src |-> Pr(sh), lits |-> <<lit>>, use |-> ok,
   pred |-> [cls |-> IF y = tree THEN "ok" ELSE "violation",
             pairs |-> IF y = tree THEN <<>> ELSE << <<sh.k, IF y = Err THEN "error" ELSE sh.k>> >>]]
Carry(d) == t' = d.t /\ src' = d.src /\ lits' = d.lits /\ pred' = d.pred /\ use' = d.use
Init == /\ shape \in Shapes /\ sp \in SpOf(shape) /\ syms = <<>>
        /\ LET d == Derived(shape, syms, sp) IN t = d.t /\ src = d.src /\ lits = d.lits /\ pred = d.pred /\ use = d.use
GrowPath == /\ Len(syms) < Bound(shape, sp)
            /\ \E k \in 1..Len(Syms) : syms' = Append(syms, k)
            /\ UNCHANGED <<shape, sp>>
            /\ Carry(Derived(shape, syms', sp))
Next == GrowPath

\* the reference is a round trip on the whole space: the spelled literal denotes the path, and the printed shape
\* parses back to the shape
RefRoundTrip == use => /\ Unquote(lits[1]) = UOk(PathOf(syms))
                       /\ RefParse(ModeOf(shape), src, lits[1]) = t
\* strconv.Quote (as transcribed) always denotes the path again
QuoteRoundTrip == Unquote(IQuote(PathOf(syms))) = UOk(PathOf(syms))
InBound == Len(syms) <= MaxLen
=============================================================================

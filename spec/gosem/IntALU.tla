------------------------------- MODULE IntALU -------------------------------
(* C01 part 1.  Integer arithmetic of Go, as the property demands it (REFERENCE), and the way the
   Scriggo VM computes it (IMPLEMENTATION-SHAPED: internal/runtime/run.go, the per-kind truncation
   switches of OpAdd .. OpShr, OpNeg, OpConvertInt/Uint, OpIfInt, with the instruction selection of
   internal/compiler/builder_instructions.go).  Numbers are big integers (lib/BigInt.tla): TLC's
   native integers are 32-bit.

   A case is a record [op, k, k2, x, y]:
     op  "add" "sub" "mul" "div" "rem" "and" "or" "xor" "andnot"     x op y, both of kind k (k2 = k)
         "shl" "shr"                                                 x of kind k, count y of kind k2
         "eq" "ne" "lt" "le" "gt" "ge"                               comparison, both of kind k
         "neg" "not"                                                 -x, ^x   (y unused = 0)
         "conv"                                                      k2(x)    (y unused = 0)
   An outcome is a record [t, v, msg]: t = "int" (v the value), "bool" (v = 1 / 0) or
   "panic" (msg the run-time error message). *)
EXTENDS BigInt, TLC

Kinds == {"int", "int8", "int16", "int32", "int64", "uint", "uint8", "uint16", "uint32", "uint64", "uintptr"}
SignedKinds == {"int", "int8", "int16", "int32", "int64"}
Signed(k) == k \in SignedKinds
\* sizes of the 64-bit platforms this runs on (the replay driver is built for the same platform)
W(k) == CASE k \in {"int8", "uint8"} -> 8 [] k \in {"int16", "uint16"} -> 16
          [] k \in {"int32", "uint32"} -> 32 [] OTHER -> 64
\* powers of two as literals (TLC does not cache a definition that uses a RECURSIVE operator such as
\* Pow2; MC_IntALU checks PW(w) = Pow2(w), PH(w) = Pow2(w-1))
P4 == [s |-> 1, l |-> <<16>>]
P7 == [s |-> 1, l |-> <<128>>]
P8 == [s |-> 1, l |-> <<256>>]
P15 == [s |-> 1, l |-> <<2768, 3>>]
P16 == [s |-> 1, l |-> <<5536, 6>>]
P31 == [s |-> 1, l |-> <<3648, 4748, 21>>]
P32 == [s |-> 1, l |-> <<7296, 9496, 42>>]
P63 == [s |-> 1, l |-> <<5808, 5477, 368, 3372, 922>>]
P64 == [s |-> 1, l |-> <<1616, 955, 737, 6744, 1844>>]
PW(w) == CASE w = 8 -> P8 [] w = 16 -> P16 [] w = 32 -> P32 [] w = 64 -> P64        \* 2^w
PH(w) == CASE w = 8 -> P7 [] w = 16 -> P15 [] w = 32 -> P31 [] w = 64 -> P63        \* 2^(w-1)
PQ(w) == CASE w = 8 -> P4 [] w = 16 -> P8 [] w = 32 -> P16 [] w = 64 -> P32         \* 2^(w/2)
\* x is a value of the w-bit signed / unsigned type
Fits(x, w, signed) ==
  IF signed THEN (x.s >= 0 /\ Cmp(x, PH(w)) < 0) \/ (x.s < 0 /\ Cmp(Neg(x), PH(w)) <= 0)
  ELSE x.s >= 0 /\ Cmp(x, PW(w)) < 0
\* the unique value of the type congruent to x modulo 2^w (two's complement wrap-around);
\* same as BigInt's WrapTo, with a short cut for values already in range
WrapW(x, w, signed) ==
  IF Fits(x, w, signed) THEN x
  ELSE LET m == Sub(x, Mul(ShiftRightFloor(x, w), PW(w))) IN           \* x mod 2^w in 0 .. 2^w - 1
       IF signed /\ Cmp(m, PH(w)) >= 0 THEN Sub(m, PW(w)) ELSE m
MinOf(k) == IF Signed(k) THEN Neg(PH(W(k))) ELSE Zero
MaxOf(k) == Sub(IF Signed(k) THEN PH(W(k)) ELSE PW(W(k)), One)
InKind(k, x) == Fits(x, W(k), Signed(k))
Wrap(k, x) == WrapW(x, W(k), Signed(k))

Arith == {"add", "sub", "mul", "div", "rem", "and", "or", "xor", "andnot"}
Shifts == {"shl", "shr"}
Cmps == {"eq", "ne", "lt", "le", "gt", "ge"}
Unary == {"neg", "not"}

IntOut(v) == [t |-> "int", v |-> v, msg |-> ""]
BoolOut(b) == [t |-> "bool", v |-> IF b THEN One ELSE Zero, msg |-> ""]
PanicOut(m) == [t |-> "panic", v |-> Zero, msg |-> m]
DivideMsg == "runtime error: integer divide by zero"
ShiftMsg == "runtime error: negative shift amount"

(* ===================================================================== REFERENCE (Go specification)
   "Arithmetic operators": for unsigned integers + - * << are computed modulo 2^n; for signed
   integers + - * / << may legally overflow and the result is deterministically defined by the
   signed representation (two's complement, no panic).  "Integer operators": q = x / y truncated
   towards zero, x = q*y + r, |r| < |y|; the one exception: x the most negative value and y = -1
   gives q = x (r = 0).  Division by zero: run-time panic.  "Shifts": count must not be negative
   at run time (run-time panic); shifts behave as if shifted count times by 1 (so count >= width
   gives 0 or the sign fill); >> is arithmetic for signed, logical for unsigned operands.
   "Conversions between integer types": sign extend or zero extend, then truncate. *)
RefCmp(op, x, y) == LET c == Cmp(x, y) IN
  CASE op = "eq" -> c = 0 [] op = "ne" -> c # 0 [] op = "lt" -> c < 0
    [] op = "le" -> c <= 0 [] op = "gt" -> c > 0 [] op = "ge" -> c >= 0

\* exact (mathematical) result of the non-dividing operators
Exact(op, x, y) ==
  CASE op = "add" -> Add(x, y) [] op = "sub" -> Sub(x, y) [] op = "mul" -> Mul(x, y)
    [] op = "and" -> BitAnd(x, y) [] op = "or" -> BitOr(x, y) [] op = "xor" -> BitXor(x, y)
    [] op = "andnot" -> BitAndNot(x, y) [] op = "neg" -> Neg(x) [] op = "not" -> BitNot(x)

\* the outcome the Go specification prescribes, for every operator except / and % (stated as relations below)
RefOutcome(op, k, k2, x, y) ==
  IF op \in Cmps THEN BoolOut(RefCmp(op, x, y))
  ELSE IF op = "conv" THEN IntOut(Wrap(k2, x))
  ELSE IF op \in Shifts THEN
     IF y.s < 0 THEN PanicOut(ShiftMsg)
     ELSE IF Cmp(y, FromInt(W(k))) >= 0 THEN IntOut(IF op = "shr" /\ x.s < 0 THEN FromInt(-1) ELSE Zero)
     ELSE IF op = "shl" THEN IntOut(Wrap(k, ShiftLeft(x, ToInt(y))))
     ELSE IntOut(ShiftRightFloor(x, ToInt(y)))
  ELSE IntOut(Wrap(k, Exact(op, x, y)))

\* q is the quotient of x / y in kind k: the truncated quotient, wrapped (only MinInt / -1 wraps)
IsQuoOf(k, x, y, q) ==
  \E e \in {q} \cup (IF Signed(k) /\ q = MinOf(k) THEN {Neg(q)} ELSE {}) :
     IsQuoRem(x, y, e, Sub(x, Mul(e, y)))
\* r is the remainder of x % y: some quotient e exists with x = e*y + r, |r| < |y|, sign(r) in {0, sign x}.
\* The witness e is computed by long division of x - r and then CHECKED by the defining relation.
IsRemOf(x, y, r) == LET e == QuoRem(Sub(x, r), y).q IN IsQuoRem(x, y, e, r)

\* the property-level predicate: outcome o is what Go prescribes for the case
RefHolds(op, k, k2, x, y, o) ==
  IF op \in {"div", "rem"} THEN
     IF y.s = 0 THEN o = PanicOut(DivideMsg)
     ELSE /\ o.t = "int" /\ InKind(k, o.v)
          /\ IF op = "div" THEN IsQuoOf(k, x, y, o.v) ELSE IsRemOf(x, y, o.v)
  ELSE o = RefOutcome(op, k, k2, x, y)

(* ===================================================================== IMPLEMENTATION-SHAPED MODEL
   The VM keeps every integer in an int64 register: signed kinds sign-extended, unsigned kinds
   zero-extended (uint64/uint/uintptr reinterpreted).  Go's own int64/uintN arithmetic inside the
   VM wraps, which the model makes explicit with I64 / U / S.  *)
I64(v) == WrapW(v, 64, TRUE)                   \* int64(...) of a value that fits 65 bits or more
S(w, v) == WrapW(v, w, TRUE)                   \* intW(v)
U(w, v) == WrapW(v, w, FALSE)                  \* uintW(v)
Reg(x) == I64(x)                                \* register content for the typed value x
\* flattenIntegerKind (builder.go), strconv.IntSize = 64
Flat(k) == IF k = "int" THEN "int64" ELSE IF k \in {"uint", "uintptr"} THEN "uint64" ELSE k
\* vm.intk(b, op < 0): a constant operand that fits int8 is embedded in the instruction, otherwise it
\* is loaded into a register first; numerically both give the int64 image of the value
Intk(y, isConst) == IF isConst /\ Fits(y, 8, TRUE) THEN S(8, y) ELSE Reg(y)

\* the "switch a { case reflect.Int8: v = int64(int8(v)) ... }" of OpAdd, OpSub, OpSubInv, OpMul, OpShl
\* (no case for Int64: v stays)
TruncSwitch(fk, v) ==
  CASE fk = "int8" -> S(8, v) [] fk = "int16" -> S(16, v) [] fk = "int32" -> S(32, v)
    [] fk = "uint8" -> U(8, v) [] fk = "uint16" -> U(16, v) [] fk = "uint32" -> U(32, v)
    [] fk = "uint64" -> I64(U(64, v)) [] OTHER -> v

\* Go's native division at one width (what `int8(cv) / int8(bv)` does inside the VM)
NativeQuo(a, b, w, signed) ==
  IF signed /\ a = Neg(PH(w)) /\ b = FromInt(-1) THEN a ELSE QuoRem(a, b).q
NativeRem(a, b, w, signed) ==
  IF signed /\ a = Neg(PH(w)) /\ b = FromInt(-1) THEN Zero ELSE QuoRem(a, b).r
\* operand re-interpretation in the per-kind switch of OpDiv / OpRem
AsKind(fk, v) ==
  CASE fk = "int8" -> S(8, v) [] fk = "int16" -> S(16, v) [] fk = "int32" -> S(32, v) [] fk = "int64" -> v
    [] fk = "uint8" -> U(8, v) [] fk = "uint16" -> U(16, v) [] fk = "uint32" -> U(32, v) [] fk = "uint64" -> U(64, v)
FW(fk) == W(fk)
FS(fk) == fk \in {"int8", "int16", "int32", "int64"}

\* result: [p |-> "" | panic message, r |-> int64 register content]
RegOut(r) == [p |-> "", r |-> r]
RegPanic(m) == [p |-> m, r |-> Zero]

ImplArith(op, k, x, y, isConst) ==
  LET cv == Reg(x)  bv == Intk(y, isConst)  fk == Flat(k) IN
  CASE op = "add" -> IF k = "int" THEN RegOut(I64(Add(cv, bv)))                      \* OpAddInt
                     ELSE RegOut(TruncSwitch(fk, I64(Add(bv, cv))))                  \* OpAdd
    [] op = "sub" -> IF k = "int" THEN RegOut(I64(Sub(cv, bv)))
                     ELSE RegOut(TruncSwitch(fk, I64(Sub(cv, bv))))
    [] op = "mul" -> IF k = "int" THEN RegOut(I64(Mul(cv, bv)))
                     ELSE RegOut(TruncSwitch(fk, I64(Mul(cv, bv))))
    [] op = "div" -> IF k = "int" THEN (IF bv.s = 0 THEN RegPanic(DivideMsg) ELSE RegOut(NativeQuo(cv, bv, 64, TRUE)))   \* OpDivInt
                     ELSE LET a == AsKind(fk, cv) b == AsKind(fk, bv) IN
                          IF b.s = 0 THEN RegPanic(DivideMsg) ELSE RegOut(I64(NativeQuo(a, b, FW(fk), FS(fk))))
    [] op = "rem" -> IF k = "int" THEN (IF bv.s = 0 THEN RegPanic(DivideMsg) ELSE RegOut(NativeRem(cv, bv, 64, TRUE)))
                     ELSE LET a == AsKind(fk, cv) b == AsKind(fk, bv) IN
                          IF b.s = 0 THEN RegPanic(DivideMsg) ELSE RegOut(I64(NativeRem(a, b, FW(fk), FS(fk))))
    \* OpAnd, OpOr, OpXor, OpAndNot: plain int64 bit operations, no truncation
    [] op = "and" -> RegOut(BitAnd(cv, bv))
    [] op = "or" -> RegOut(BitOr(cv, bv))
    [] op = "xor" -> RegOut(BitXor(cv, bv))
    [] op = "andnot" -> RegOut(BitAndNot(cv, bv))

\* `uint(vm.intk(b, op < 0))`: the count re-interpreted as unsigned, whatever its kind
\* `v << n` / `v >> n` on Go's int64 / uint64 with an unsigned count n
ImplShift(op, k, x, y, isConst) ==
  LET cv == Reg(x)  n == U(64, Intk(y, isConst))  big == Cmp(n, FromInt(64)) >= 0  fk == Flat(k) IN
  IF op = "shl" THEN
     LET v == IF big THEN Zero ELSE I64(ShiftLeft(cv, ToInt(n))) IN
     IF k = "int" THEN RegOut(v) ELSE RegOut(TruncSwitch(fk, v))
  ELSE IF k = "int" \/ fk \in {"int8", "int16", "int32", "int64"}            \* reflect.Kind(a) < reflect.Uint8
       THEN RegOut(IF big THEN (IF cv.s < 0 THEN FromInt(-1) ELSE Zero) ELSE ShiftRightFloor(cv, ToInt(n)))
       ELSE RegOut(I64(IF big THEN Zero ELSE ShiftRightFloor(U(64, cv), ToInt(n))))

\* OpIfInt: signed conditions on the int64 registers, the ...U conditions on uint64(register)
ImplCmp(op, k, x, y, isConst) ==
  LET v1 == Reg(x)  v2 == Intk(y, isConst) IN
  IF op \in {"eq", "ne"} \/ Signed(k) THEN RefCmp(op, v1, v2) ELSE RefCmp(op, U(64, v1), U(64, v2))

ImplUnary(op, k, x) ==
  LET v == Reg(x)  fk == Flat(k) IN
  IF op = "neg" THEN
     RegOut(CASE fk = "int8" -> S(8, Neg(S(8, v))) [] fk = "int16" -> S(16, Neg(S(16, v)))
              [] fk = "int32" -> S(32, Neg(S(32, v))) [] fk = "int64" -> I64(Neg(v))
              [] fk = "uint8" -> U(8, Neg(U(8, v))) [] fk = "uint16" -> U(16, Neg(U(16, v)))
              [] fk = "uint32" -> U(32, Neg(U(32, v))) [] fk = "uint64" -> I64(U(64, Neg(U(64, v)))))
  ELSE \* ^x is emitted as  m ^ x  with m = -1 (signed) or int64(maxUnsigned(kind))
     RegOut(BitXor(IF Signed(k) THEN FromInt(-1) ELSE I64(MaxOf(k)), v))

\* OpConvertInt (signed source) / OpConvertUint (unsigned source: v := uint64(register))
ImplConv(k, k2, x) ==
  LET v == IF Signed(k) THEN Reg(x) ELSE U(64, Reg(x)) IN
  RegOut(CASE k2 \in {"int", "int64"} -> I64(v)
           [] k2 = "int8" -> S(8, v) [] k2 = "int16" -> S(16, v) [] k2 = "int32" -> S(32, v)
           [] k2 \in {"uint", "uintptr", "uint64"} -> I64(U(64, v))
           [] k2 = "uint8" -> U(8, v) [] k2 = "uint16" -> U(16, v) [] k2 = "uint32" -> U(32, v))

\* a register read as a typed value: what print shows (reflect's SetInt/SetUint store at the kind's width)
ReadOut(k, r) == Wrap(k, r)
\* the same register widened by int64(r) / uint64(r) (OpConvertInt/Uint to 64 bits do not truncate)
ReadWide(k, r) == IF Signed(k) THEN r ELSE U(64, r)

\* implementation-shaped outcome <<direct, widened>> for a case
ImplOutcomes(op, k, k2, x, y, isConst) ==
  IF op \in Cmps THEN LET b == BoolOut(ImplCmp(op, k, x, y, isConst)) IN <<b, b>>
  ELSE LET rk == IF op = "conv" THEN k2 ELSE k
           e == IF op \in Arith THEN ImplArith(op, k, x, y, isConst)
                ELSE IF op \in Shifts THEN ImplShift(op, k, x, y, isConst)
                ELSE IF op \in Unary THEN ImplUnary(op, k, x)
                ELSE ImplConv(k, k2, x) IN
       IF e.p # "" THEN <<PanicOut(e.p), PanicOut(e.p)>>
       ELSE <<IntOut(ReadOut(rk, e.r)), IntOut(ReadWide(rk, e.r))>>

\* the model's direct and widened read-outs agree and are what Go prescribes
CaseOkModel(c, isConst) ==
  LET o == ImplOutcomes(c.op, c.k, c.k2, c.x, c.y, isConst) IN
  o[1] = o[2] /\ RefHolds(c.op, c.k, c.k2, c.x, c.y, o[1])

(* ===================================================================== case space *)
BFull(k) == LET w == W(k) IN
  IF Signed(k)
  THEN {Zero, One, FromInt(-1), FromInt(2), FromInt(3), FromInt(7), FromInt(-7), MinOf(k), Add(MinOf(k), One),
        MaxOf(k), Sub(MaxOf(k), One), PQ(w), Neg(PQ(w))}
  ELSE {Zero, One, FromInt(2), FromInt(3), FromInt(7), MaxOf(k), Sub(MaxOf(k), One), PQ(w),
        Sub(PQ(w), One), PH(w), Add(PH(w), One), Sub(PH(w), One)}
\* a medium set for the operators whose result does not depend on carries across the whole width
BMid(k) == LET w == W(k) IN
  IF Signed(k) THEN {Zero, One, FromInt(-1), FromInt(3), FromInt(7), MinOf(k), Add(MinOf(k), One), MaxOf(k), PQ(w)}
  ELSE {Zero, One, FromInt(3), FromInt(7), MaxOf(k), Sub(MaxOf(k), One), PQ(w), PH(w), Add(PH(w), One)}
BQuick(k) == LET w == W(k) IN
  IF Signed(k) THEN {Zero, FromInt(-1), FromInt(3), MinOf(k), MaxOf(k)}
  ELSE {Zero, One, MaxOf(k), PH(w)}
\* shift counts of count kind k2 for an operand of width w
Counts(k2, w) == {n \in {FromInt(0), FromInt(1), FromInt(w - 1), FromInt(w), FromInt(w + 1), FromInt(63),
                         FromInt(64), FromInt(65), FromInt(-1), MaxOf(k2), MinOf(k2)} : InKind(k2, n)}
=============================================================================

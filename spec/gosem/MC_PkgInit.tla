----------------------------- MODULE MC_PkgInit -----------------------------
(* The multi-package programs of PkgInit.tla.
   SHAPES (exhaustive): every import graph over the packages p, q, r, main (PkgN = 4) - main is never imported,
   the graph is acyclic, every package that appears is reachable from main - with every order of the import
   declarations of every package: chains, fans, diamonds, a package imported both directly and through another.
   DECORATIONS (PkgSamples per shape, drawn by a small hash of shape number, sample number and PkgSeed): each
   package gets 0..2 variables and 0..2 init functions; an initialiser reads nothing, the other variable of
   its package (earlier or later, never both ways: that is an initialisation cycle, InitOrder.tla's subject)
   or a variable of an imported package; an init function prints only, or writes a variable of an imported package.
   CYCLES: the graphs WITH a cycle (no package imports itself directly; one out of PkgCycStep of them, all in the
   thorough tier), one decoration each: the program must not build ("it is illegal for a package to import itself, directly or indirectly").
   Two states per program.  Invariants:
     ImplMeetsRef   the calls that emitPackage's `inits` construction makes main.main do are the initialisation
                    of the packages in the order of the specification (Go 1.21: PiPathOrder).  VIOLATED for the
                    programs with independent packages whose import declarations are not in import-path order:
                    diagnostic (model_counterexample), the verdict is decided on the real runs
     ImplDeclOrder  what the construction does do: the initialisation of the packages, each complete and once,
                    in the order of the import declarations (PiDeclOrder) - a topological order of the imports
     RefSane        sanity of the reference: in every topological order every variable initialiser and init function
                    runs exactly once; the Go 1.21 order and the declaration order are topological orders; the
                    legacy construction (before commit 210747a) is not a topological order on the programs
                    where its three defects show (an imported package with variables and init functions, main with
                    variables and an imported package that prints, a package with variables reached twice);
                    PiAccepts (one run of the reference in the order read off the observation) is the membership
                    in the set of outputs of the topological orders
     ParserMeetsRef ParseProgram's import stack (only the entries being processed are ancestors) reports a cycle
                    exactly for the graphs that have one (an ASSUME says that the search among all the
                    entries, the code before 984b438, does report a cycle on some acyclic graph)
   Exports the programs; g121 = the output under the Go 1.21 order (the check only counts with it). *)
EXTENDS PkgInit, PkgInitCfg, TLC, Json, SequencesExt

RECURSIVE PiArr(_)      \* the sequences without repetition over the subsets of S
PiArr(S) == {<<>>} \cup UNION {{<<x>> \o a : a \in PiArr(S \ {x})} : x \in S}
RECURSIVE PiProd(_, _)
PiProd(n, i) == IF i > n THEN {<<>>}
                ELSE {<<a>> \o rest : a \in PiArr(IF i = n THEN 1..(n - 1) ELSE (1..(n - 1)) \ {i}), rest \in PiProd(n, i + 1)}
PiShapeOk(imps) == \A i \in 1..(Len(imps) - 1) : imps[i] # <<>> => i \in PiReach(imps, Len(imps))
Shapes == SetToSeq({imps \in PiProd(PkgN, 1) : PiShapeOk(imps) /\ PiAcyclic(imps)})
CyclicShapes == SetToSeq({imps \in PiProd(PkgN, 1) : PiShapeOk(imps) /\ ~PiAcyclic(imps)})

PiMix(x) == (x * 75 + 74) % 65537
\* a number below n for the choice point a of the draw x0
PiPick(x0, a, n) == PiMix(PiMix((x0 + 131 * a) % 65537)) % n
PiCount == <<0, 1, 1, 2, 2>>
\* (every piece is passed on as an operator argument and materialised with \o <<>>: TLC evaluates an argument once, but a
\*  LET definition at every use, and a function constructor stays an unevaluated closure that is re-run by every application)
PiNone == [p |-> 0, v |-> 0]
PiDeco3(imps, vars0, inits) ==
  [imps |-> imps,
   \* V1 = t(.., V2) and V2 = t(.., V1) would be an initialisation cycle: V2 reads nothing then
   vars |-> [i \in 1..Len(imps) |-> IF Len(vars0[i]) = 2 /\ vars0[i][1].p = i /\ vars0[i][2].p = i
                                    THEN <<vars0[i][1], PiNone>> ELSE vars0[i]] \o <<>>,
   inits |-> inits]
PiDeco2(imps, x0, nv, ni) ==
  LET \* the variables of the packages i imports
      imported(i) == PiConcat([j \in 1..Len(imps[i]) |-> [v \in 1..nv[imps[i][j]] |-> [p |-> imps[i][j], v |-> v]]], 1)
      rdopts(i, k) == <<PiNone>> \o (IF nv[i] = 2 THEN <<[p |-> i, v |-> 3 - k]>> ELSE <<>>) \o imported(i)
      pick(o, a) == o[1 + PiPick(x0, a, Len(o))]
  IN PiDeco3(imps,
             [i \in 1..Len(imps) |-> [k \in 1..nv[i] |-> pick(rdopts(i, k), 100 * i + 10 + k)] \o <<>>] \o <<>>,
             [i \in 1..Len(imps) |-> [k \in 1..ni[i] |-> pick(<<PiNone>> \o imported(i), 100 * i + 20 + k)] \o <<>>] \o <<>>)
PiDeco1(imps, x0, P) ==
  PiDeco2(imps, x0, [i \in 1..Len(imps) |-> IF i \in P THEN PiCount[1 + PiPick(x0, 100 * i + 1, 5)] ELSE 0] \o <<>>,
                    [i \in 1..Len(imps) |-> IF i \in P THEN PiCount[1 + PiPick(x0, 100 * i + 2, 5)] ELSE 0] \o <<>>)
PiDecorate(imps, x0) == PiDeco1(imps, x0, {Len(imps)} \cup PiReach(imps, Len(imps)))
Progs(S, n) == {PiDecorate(S[s], (PkgSeed * 7919 + s * 613 + t * 2851) % 65537) : s \in 1..Len(S), t \in 1..n}
CasesOf(G) == [i \in 1..Len(G) |-> [id |-> i, fam |-> "pkginit", imps |-> G[i].imps, vars |-> G[i].vars, inits |-> G[i].inits,
                                   forms |-> IF PiAcyclic(G[i].imps) THEN <<0, 1>> ELSE <<0>>,
                                   g121 |-> IF PiAcyclic(G[i].imps) THEN PiRefOut121(G[i]) ELSE <<>>]]
CycPick(S) == SelectSeq([s \in 1..Len(S) |-> s], LAMBDA s : s % PkgCycStep = PkgSeed % PkgCycStep)
CycProgs(S, idx) == {PiDecorate(S[idx[j]], (PkgSeed * 7919 + idx[j] * 613 + 2851) % 65537) : j \in 1..Len(idx)}
Cases == CasesOf(SetToSeq(Progs(Shapes, PkgSamples)) \o SetToSeq(CycProgs(CyclicShapes, CycPick(CyclicShapes))))
ASSUME ndJsonSerialize("cases.ndjson", Cases)

\* two states per program: the invariants are evaluated on the second one (by the workers, not by the thread that
\* computes the initial states)
VARIABLES c, run
Init == c \in 1..Len(Cases) /\ run = FALSE
Next == ~run /\ run' = TRUE /\ c' = c
G(k) == [imps |-> Cases[k].imps, vars |-> Cases[k].vars, inits |-> Cases[k].inits]
MeetsRef(g) == PiUnitsOf(PiImplCalls(g, FALSE)) = PiRefUnits(g, PiPathOrder(g))
ImplMeetsRef == run /\ PiAcyclic(Cases[c].imps) => MeetsRef(G(c))
DeclOrder(g) == PiUnitsOf(PiImplCalls(g, FALSE)) = PiRefUnits(g, PiDeclOrder(g)) /\ PiDeclOrder(g) \in PiOrders(g)
ImplDeclOrder == run /\ PiAcyclic(Cases[c].imps) => DeclOrder(G(c))
\* ParseProgram reports an import cycle exactly when there is one (the search among the entries that have a tree)
ParserMeetsRef == run => (PiParserReportsCycle(G(c), TRUE) <=> ~PiAcyclic(Cases[c].imps))
\* the search among all the entries, as it was before 984b438, reports a cycle on some acyclic graph
ASSUME \E s \in 1..Len(Shapes) : PiParserReportsCycle([imps |-> Shapes[s]], FALSE)
\* the programs on which the construction before 210747a is wrong for sure
LegacyShows(g) == \/ \E i \in PiPresent(g) \ {PiMain(g)} : Len(g.vars[i]) > 0 /\ Len(g.inits[i]) > 0
                  \/ Len(g.vars[PiMain(g)]) > 0 /\ \E i \in PiPresent(g) \ {PiMain(g)} : Len(g.vars[i]) + Len(g.inits[i]) > 0
                  \/ \E i \in PiPresent(g) : Len(g.vars[i]) > 0 /\ Cardinality({j \in PiPresent(g) : i \in PiRange(g.imps[j])}) >= 2
Sane(g) == /\ PiPathOrder(g) \in PiOrders(g)
           /\ \A o \in PiOrders(g) : LET ev == PiEvents(PiRun(g, PiRefUnits(g, o))) IN
                 Len(ev) = Cardinality(PiExpectedTags(g)) /\ PiRange(ev) = PiExpectedTags(g)
           /\ PiImplOut(g, FALSE) \in PiRefOuts(g)
           /\ LegacyShows(g) => PiImplOut(g, TRUE) \notin PiRefOuts(g)
           \* PiAccepts is the membership in PiRefOuts
           /\ \A out \in PiRefOuts(g) \cup {PiImplOut(g, FALSE), PiImplOut(g, TRUE)} : PiAccepts(g, out) <=> out \in PiRefOuts(g)
RefSane == run /\ PiAcyclic(Cases[c].imps) => Sane(G(c))
=============================================================================

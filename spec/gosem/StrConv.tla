------------------------------- MODULE StrConv -------------------------------
(* C01 part 3.  Conversions between strings, integers, byte slices and rune slices (Go specification,
   "Conversions to and from a string type"), over lib/Utf8.tla:
     i2s    string(x), x an integer value v of kind k: the UTF-8 encoding of v; values outside the
            range of valid Unicode code points (negative, surrogate halves, > 0x10FFFF) give "�"
     r2s    string([]rune{...}): the concatenation of the runes converted individually
     s2r    []rune(s): the code points of s; every invalid UTF-8 byte gives U+FFFD (one per byte)
     range  for i, r := range s: byte index and code point of every decoding step, flattened <<i1, r1, i2, r2, ...>>
     s2b    []byte(s): the bytes of s          b2s  string([]byte{...}): the same bytes
   A case is [op, k, v, a]: a is the rune sequence (r2s) or the byte sequence (s2r, range, s2b, b2s). *)
EXTENDS Utf8

RECURSIVE ScRangePairs(_, _)
ScRangePairs(s, i) == IF i > Len(s) THEN <<>>
                      ELSE LET d == DecodeRune(s, i) IN <<i - 1, d[1]>> \o ScRangePairs(s, i + d[2])

\* REFERENCE: the sequence of numbers the replay program prints for the case
ConvRef(op, k, v, a) ==
  CASE op = "i2s" -> EncodeRune(v)
    [] op = "r2s" -> Encode(a)
    [] op = "s2r" -> Runes(a)
    [] op = "range" -> ScRangePairs(a, 1)
    [] op = "s2b" -> a
    [] op = "b2s" -> a

\* IMPLEMENTATION-SHAPED: run.go OpConvertInt / OpConvertUint, case reflect.String:
\*   s := string(unicode.ReplacementChar); if 0 <= v && v <= unicode.MaxRune { s = string(rune(v)) }
\* where Go's own string(rune) maps surrogate halves to U+FFFD
ScGoStringOfRune(r) == IF r >= 55296 /\ r <= 57343 THEN <<239, 191, 189>> ELSE EncodeRune(r)
ImplI2S(v) == IF 0 <= v /\ v <= 1114111 THEN ScGoStringOfRune(v) ELSE <<239, 191, 189>>

\* the 12-value rune set: both sides of every encoding-length boundary, the surrogate gap, the
\* replacement character itself, the maximum, one past it, and a negative value
ScRunes == {65, 127, 128, 2047, 2048, 55295, 55296, 65533, 65536, 1114111, 1114112, -1}
ScValid(r) == r >= 0 /\ r <= 1114111 /\ ~(r >= 55296 /\ r <= 57343)
\* byte pieces: the encodings of the valid runes of the set and malformed sequences (lone continuation
\* byte, truncated 2- and 3-byte forms, an encoded surrogate, a value above the maximum, an overlong form, 0xFF)
ScPieces == {EncodeRune(r) : r \in {r \in ScRunes : ScValid(r)}}
            \cup {<<128>>, <<195>>, <<226, 130>>, <<237, 160, 128>>, <<244, 144, 128, 128>>, <<192, 128>>, <<255>>}
=============================================================================

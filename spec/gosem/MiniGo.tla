-------------------------------- MODULE MiniGo --------------------------------
(* C01 part 4.  A deterministic reference interpreter (big-step, one recursive operator per
   syntactic category) for a structured subset of Go: the REFERENCE semantics of
     for with labelled break / continue (Go 1.22: a fresh copy of the loop variable per iteration), with or
     without a condition, an init and a post statement,
     for range over a string and over a slice, select with a default case only,
     switch with fallthrough, goto to a label of an enclosing statement list, closures capturing
     variables by reference, array and struct values (copied on assignment), pointers to structs,
     slices as (backing array, offset, length, capacity) with append writing in place within
     capacity, maps (insert / delete / len / read of a missing key / nil map), strings as byte
     sequences (index, slice, len, range by UTF-8 decoding, lib/Utf8.tla), `any` with type assertion,
     and the run-time faults index out of range, slice bounds out of range, assignment to entry in
     nil map, nil pointer dereference, failed type assertion - as panics with Go's message,
     function calls as frames with defer / panic(v) / recover() (see "frames" below).

   A program is [nv |-> number of variables, body |-> block]; a block is a sequence of statements;
   statements and expressions are records tagged by the field s / e (see ExecStmt / Eval).  Every
   variable lives in a heap cell (env maps variable number -> cell), so closures and pointers share
   cells.  Values: integers, booleans, byte sequences (strings), integer sequences (arrays, structs),
   slices [a, off, len, cap], map / pointer cell numbers (0 = nil), closures [body, env],
   interface values [dyn, v].
   Observable: the printed lines (sequences of tokens) - which include every value obtained from
   recover() that the program prints -, the final outcome and the message of the panic that ends the
   program (the newest one when panics were raised while panicking).

   State: heap, out, and the goroutine's panic bookkeeping: dfr = the closures deferred by the
   current frame, pst = the panics in progress whose deferred call is on the stack (oldest first,
   [pay, rec]: payload and "recover() was called for it"), fr = 0 or the position in pst of the panic
   that is running the current frame as a deferred call, lp = payload of the panic raised last,
   funcs = the bodies of the top-level functions. *)
EXTENDS Integers, Sequences, Utf8, MiniGoText

TokI(n) == [k |-> "i", n |-> n, s |-> <<>>]
TokS(b) == [k |-> "s", n |-> 0, s |-> b]
TokB(b) == [k |-> "b", n |-> IF b THEN 1 ELSE 0, s |-> <<>>]

RECURSIVE MgDigits(_)
MgDigits(n) == IF n < 10 THEN <<48 + n>> ELSE MgDigits(n \div 10) \o <<48 + (n % 10)>>
MgDec(n) == IF n < 0 THEN <<45>> \o MgDigits(-n) ELSE MgDigits(n)
\* Go's run-time error texts
MsgIndex(i, n) == IF i < 0 THEN MgtIdxPre \o MgDec(i) \o <<93>> ELSE MgtIdxPre \o MgDec(i) \o MgtWithLength \o MgDec(n)
MsgSliceCap(h, c) == MgtSlicePreColon \o MgDec(h) \o MgtWithCapacity \o MgDec(c)
MsgSliceLen(h, n) == MgtSlicePreColon \o MgDec(h) \o MgtWithLength \o MgDec(n)
MsgSliceLoHi(lo, hi) == MgtSlicePre \o MgDec(lo) \o <<58>> \o MgDec(hi) \o <<93>>
\* the defined types of the generated programs are main.B (a bool type) and main.I (an int type)
MgtNamed(t) == MgtMainDot \o (CASE t = "B" -> <<66>> [] t = "I" -> <<73>> [] OTHER -> <<63>>)
MgTyName(t) == CASE t = "int" -> MgtInt [] t = "string" -> MgtString [] t = "nil" -> MgtNil [] t = "bool" -> MgtBool [] OTHER -> MgtNamed(t)
MsgAssert(dyn, want) == MgtIfaceIs \o MgTyName(dyn) \o MgtNot \o MgTyName(want)

\* Go's integer operators on small values (no overflow arises: the generator bounds every value)
MgArith(op, a, b) == CASE op = "+" -> a + b [] op = "-" -> a - b [] op = "*" -> a * b
                       [] op = "%" -> IF a >= 0 THEN a % b ELSE -((-a) % b)          \* truncated, b > 0
MgCmp(op, a, b) == CASE op = "<" -> a < b [] op = "<=" -> a <= b [] op = "==" -> a = b
                     [] op = "!=" -> a # b [] op = ">" -> a > b [] op = ">=" -> a >= b

\* maps are sequences of <<key, value>> pairs (iteration order is never observed)
MgMapGet(m, k) == LET hit == SelectSeq(m, LAMBDA kv : kv[1] = k) IN IF hit = <<>> THEN 0 ELSE hit[1][2]
MgMapPut(m, k, v) == IF \E j \in 1..Len(m) : m[j][1] = k THEN [j \in 1..Len(m) |-> IF m[j][1] = k THEN <<k, v>> ELSE m[j]]
                     ELSE Append(m, <<k, v>>)
MgMapDel(m, k) == SelectSeq(m, LAMBDA kv : kv[1] # k)

MgAlloc(st, v) == [st EXCEPT !.heap = Append(@, v)]          \* the new cell is Len(heap)
R(v, st) == [v |-> v, st |-> st, p |-> <<>>]                  \* expression result
PayRt == [k |-> "rt", v |-> 0]                                \* payload of a run-time error (a runtime.Error value)
PayInt(n) == [k |-> "int", v |-> n]                           \* payload of panic(n)
PayNone == [k |-> "none", v |-> 0]
RP(m, st) == [v |-> 0, st |-> [st EXCEPT !.lp = PayRt], p |-> m]   \* the expression raises a run-time panic with message m
RPP(m, st) == [v |-> 0, st |-> st, p |-> m]                   \* a panic raised further in (st.lp is its payload) passes through
MgSig(k, l, v, m) == [k |-> k, l |-> l, v |-> v, m |-> m]
SNext(env, st) == [sig |-> MgSig("next", "", 0, <<>>), env |-> env, st |-> st]
SPanic(m, env, st) == [sig |-> MgSig("panic", "", 0, m), env |-> env, st |-> st]          \* a panic of a sub-expression passes through
SRaise(m, env, st) == [sig |-> MgSig("panic", "", 0, m), env |-> env, st |-> [st EXCEPT !.lp = PayRt]]   \* the statement raises a run-time panic
MgLabelAt(b, l) == LET hits == {j \in 1..Len(b) : b[j].s = "label" /\ b[j].name = l} IN
                   IF hits = {} THEN 0 ELSE CHOOSE j \in hits : TRUE
MgMin(S) == CHOOSE m \in S : \A o \in S : m <= o
MgSliceElems(st, sl) == [j \in 1..sl.len |-> st.heap[sl.a][sl.off + j]]

RECURSIVE Eval(_, _, _), EvalList(_, _, _, _, _), ExecBlock(_, _, _, _), ExecStmt(_, _, _),
          ForIter(_, _, _), RangeIter(_, _, _, _, _), RangeSlIter(_, _, _, _, _), SwitchRun(_, _, _, _), CallFrame(_, _, _, _),
          RunDefers(_, _, _, _)

\* ---------------------------------------------------------------------------- frames: defer, panic, recover
(* Go specification, "Defer statements", "Handling panics", "Run-time panics", with gc as the reference where the
   text leaves room:
   - a function's deferred calls run, last deferred first, when the function returns or panics;
   - panic(v) (or a run-time error) stops the function, runs its deferred calls, then continues in the caller as
     if the call had panicked, and so on up to main: the program dies with the panic's message;
   - recover() returns the value of the current panic and stops the panicking sequence iff it is called directly
     by a deferred function that the panicking sequence is running (not by a function that the deferred function
     calls, not by a deferred function run by an ordinary return) and that panic was not recovered yet; otherwise
     it returns nil.  When the deferred function that recovered returns, the remaining deferred calls of the
     panicking function run with no panic in progress and that function returns normally to its caller, with
     the result values it has at that moment (zero when it never executed a return);
   - a panic raised while a deferred call runs during panicking replaces the earlier panic once it leaves that
     deferred call: the remaining deferred calls see only the new one, recovering the new one ends both.
   status = [p |-> panicking?, m |-> message, pay |-> payload]. *)
MgNoPanic == [p |-> FALSE, m |-> <<>>, pay |-> PayNone]
\* call closure clo in a new frame; fr / pst: see the state description (pst already has the entry of the panic that
\* runs this frame as a deferred call when fr > 0).  The caller's dfr, fr and pst are restored in the result.
CallFrame(clo, fr, pst, st) ==
  LET rb == ExecBlock(clo.body, 1, clo.env, [st EXCEPT !.dfr = <<>>, !.fr = fr, !.pst = pst])
      status == IF rb.sig.k = "panic" THEN [p |-> TRUE, m |-> rb.sig.m, pay |-> rb.st.lp] ELSE MgNoPanic
      rd == RunDefers(rb.st.dfr, Len(rb.st.dfr), status, rb.st) IN
  [p |-> rd.status.p, m |-> rd.status.m,
   v |-> IF rb.sig.k = "return" /\ ~rd.status.p THEN rb.sig.v ELSE 0,
   recd |-> (fr > 0 /\ rd.st.pst[fr].rec),
   stray |-> rb.sig.k \notin {"next", "return", "panic"},
   st |-> [rd.st EXCEPT !.dfr = st.dfr, !.fr = st.fr, !.pst = st.pst, !.lp = IF rd.status.p THEN rd.status.pay ELSE @]]
\* run the deferred closures ds[i], ds[i-1], ..., ds[1] of the frame whose state is st (st.pst = the frame's own stack)
RunDefers(ds, i, status, st) ==
  IF i = 0 THEN [status |-> status, st |-> st]
  ELSE LET pst1 == IF status.p THEN Append(st.pst, [pay |-> status.pay, rec |-> FALSE]) ELSE st.pst
           r == CallFrame(ds[i], IF status.p THEN Len(pst1) ELSE 0, pst1, st)
           status2 == IF r.p THEN [p |-> TRUE, m |-> r.m, pay |-> r.st.lp]             \* a new panic replaces the current one
                      ELSE IF status.p /\ r.recd THEN MgNoPanic                        \* recovered: no panic in progress
                      ELSE status IN
       RunDefers(ds, i - 1, status2, r.st)

\* ---------------------------------------------------------------------------- expressions
Eval(e, env, st) ==
  CASE e.e = "c" -> R(e.n, st)
    [] e.e = "str" -> R(e.b, st)
    [] e.e = "nocond" -> R(TRUE, st)                      \* the absent condition of a for statement: "equivalent to the boolean value true"
    [] e.e = "v" -> R(st.heap[env[e.v]], st)
    [] e.e \in {"bin", "cmp"} ->
         LET ra == Eval(e.a, env, st) IN IF ra.p # <<>> THEN ra ELSE
         LET rb == Eval(e.b, env, ra.st) IN IF rb.p # <<>> THEN rb ELSE
         R(IF e.e = "bin" THEN MgArith(e.op, ra.v, rb.v) ELSE MgCmp(e.op, ra.v, rb.v), rb.st)
    [] e.e = "and" -> LET ra == Eval(e.a, env, st) IN IF ra.p # <<>> \/ ~ra.v THEN ra ELSE Eval(e.b, env, ra.st)
    [] e.e = "or" -> LET ra == Eval(e.a, env, st) IN IF ra.p # <<>> \/ ra.v THEN ra ELSE Eval(e.b, env, ra.st)
    [] e.e = "not" -> LET ra == Eval(e.a, env, st) IN IF ra.p # <<>> THEN ra ELSE R(~ra.v, ra.st)
    [] e.e = "idx" ->                                     \* a[i] on an array value, a slice or a string
         LET ra == Eval(e.a, env, st) IN IF ra.p # <<>> THEN ra ELSE
         LET ri == Eval(e.i, env, ra.st) IN IF ri.p # <<>> THEN ri ELSE
         LET n == IF e.of = "slice" THEN ra.v.len ELSE Len(ra.v) IN
         IF ri.v < 0 \/ ri.v >= n THEN RP(MsgIndex(ri.v, n), ri.st)
         ELSE R(IF e.of = "slice" THEN ri.st.heap[ra.v.a][ra.v.off + ri.v + 1] ELSE ra.v[ri.v + 1], ri.st)
    [] e.e = "mapget" ->
         LET ra == Eval(e.a, env, st) IN IF ra.p # <<>> THEN ra ELSE
         LET rk == Eval(e.k, env, ra.st) IN IF rk.p # <<>> THEN rk ELSE
         R(IF ra.v = 0 THEN 0 ELSE MgMapGet(rk.st.heap[ra.v], rk.v), rk.st)
    [] e.e = "len" -> LET ra == Eval(e.a, env, st) IN IF ra.p # <<>> THEN ra ELSE
         R(CASE e.of = "slice" -> ra.v.len [] e.of = "map" -> (IF ra.v = 0 THEN 0 ELSE Len(ra.st.heap[ra.v])) [] OTHER -> Len(ra.v), ra.st)
    [] e.e = "cap" -> LET ra == Eval(e.a, env, st) IN IF ra.p # <<>> THEN ra ELSE R(ra.v.cap, ra.st)
    [] e.e = "slice" ->                                   \* a[lo:hi] on a slice or a string (lo, hi >= 0)
         LET ra == Eval(e.a, env, st) IN IF ra.p # <<>> THEN ra ELSE
         LET rl == Eval(e.lo, env, ra.st) IN IF rl.p # <<>> THEN rl ELSE
         LET rh == Eval(e.hi, env, rl.st) IN IF rh.p # <<>> THEN rh ELSE
         IF e.of = "slice" THEN
            IF rh.v > ra.v.cap THEN RP(MsgSliceCap(rh.v, ra.v.cap), rh.st)
            ELSE IF rl.v > rh.v THEN RP(MsgSliceLoHi(rl.v, rh.v), rh.st)
            ELSE R([a |-> ra.v.a, off |-> ra.v.off + rl.v, len |-> rh.v - rl.v, cap |-> ra.v.cap - rl.v], rh.st)
         ELSE IF rh.v > Len(ra.v) THEN RP(MsgSliceLen(rh.v, Len(ra.v)), rh.st)
              ELSE IF rl.v > rh.v THEN RP(MsgSliceLoHi(rl.v, rh.v), rh.st)
              ELSE R(SubSeq(ra.v, rl.v + 1, rh.v), rh.st)
    [] e.e = "field" ->                                   \* x.f on a struct value or through a pointer
         LET ra == Eval(e.a, env, st) IN IF ra.p # <<>> THEN ra ELSE
         IF e.of = "st" THEN R(ra.v[e.f], ra.st)
         ELSE IF ra.v = 0 THEN RP(MgtNilDeref, ra.st) ELSE R(ra.st.heap[ra.v][e.f], ra.st)
    [] e.e = "addr" -> R(env[e.v], st)                    \* &v: the variable's own cell
    [] e.e \in {"nilptr", "nilmap"} -> R(0, st)
    [] e.e = "nilslice" -> R([a |-> 0, off |-> 0, len |-> 0, cap |-> 0], st)
    [] e.e = "mkmap" -> LET s2 == MgAlloc(st, <<>>) IN R(Len(s2.heap), s2)
    [] e.e = "mkslice" -> LET s2 == MgAlloc(st, [j \in 1..e.cap |-> 0]) IN
                          R([a |-> Len(s2.heap), off |-> 0, len |-> e.len, cap |-> e.cap], s2)
    [] e.e = "mkfuncs" -> LET s2 == MgAlloc(st, [j \in 1..e.len |-> 0]) IN                 \* make([]func() int, len)
                          R([a |-> Len(s2.heap), off |-> 0, len |-> e.len, cap |-> e.len], s2)
    [] e.e = "lit" -> LET rl == EvalList(e.es, 1, env, st, <<>>) IN IF rl.p # <<>> THEN rl ELSE R(rl.v, rl.st)    \* array / struct literal
    [] e.e = "slicelit" -> LET rl == EvalList(e.es, 1, env, st, <<>>) IN IF rl.p # <<>> THEN rl ELSE
                           LET s2 == MgAlloc(rl.st, rl.v) IN R([a |-> Len(s2.heap), off |-> 0, len |-> Len(rl.v), cap |-> Len(rl.v)], s2)
    [] e.e = "append" ->                                  \* append(a, x): in place within capacity, else a fresh array
         LET ra == Eval(e.a, env, st) IN IF ra.p # <<>> THEN ra ELSE
         LET rx == Eval(e.x, env, ra.st) IN IF rx.p # <<>> THEN rx ELSE
         LET sl == ra.v IN
         IF sl.len < sl.cap
         THEN R([sl EXCEPT !.len = @ + 1], [rx.st EXCEPT !.heap[sl.a][sl.off + sl.len + 1] = rx.v])
         ELSE LET s2 == MgAlloc(rx.st, Append(MgSliceElems(rx.st, sl), rx.v)) IN     \* capacity after growth is unspecified:
              R([a |-> Len(s2.heap), off |-> 0, len |-> sl.len + 1, cap |-> sl.len + 1], s2)   \* programs never depend on it
    [] e.e = "clo" -> R([body |-> e.body, env |-> env], st)
    [] e.e = "call" ->
         LET rf == Eval(e.f, env, st) IN IF rf.p # <<>> THEN rf ELSE
         LET r == CallFrame(rf.v, 0, rf.st.pst, rf.st) IN
         IF r.p THEN RPP(r.m, r.st) ELSE R(r.v, r.st)
    [] e.e = "fn" -> R([body |-> st.funcs[e.i], env |-> st.fenv], st)      \* a top-level function (captures nothing)
    [] e.e = "recover" ->
         IF st.fr > 0 /\ st.fr = Len(st.pst) /\ ~st.pst[st.fr].rec
         THEN LET pay == st.pst[st.fr].pay IN
              R([dyn |-> IF pay.k = "int" THEN "int" ELSE "error", v |-> pay.v], [st EXCEPT !.pst[st.fr].rec = TRUE])
         ELSE R([dyn |-> "nil", v |-> 0], st)
    [] e.e = "isnil" -> LET ra == Eval(e.a, env, st) IN IF ra.p # <<>> THEN ra ELSE R(ra.v.dyn = "nil", ra.st)   \* a == nil on an interface value
    [] e.e = "box" -> LET ra == Eval(e.a, env, st) IN IF ra.p # <<>> THEN ra ELSE R([dyn |-> e.dyn, v |-> ra.v], ra.st)
    [] e.e = "assert" -> LET ra == Eval(e.a, env, st) IN IF ra.p # <<>> THEN ra ELSE
         IF ra.v.dyn = e.ty THEN R(ra.v.v, ra.st) ELSE RP(MsgAssert(ra.v.dyn, e.ty), ra.st)

EvalList(es, i, env, st, acc) ==
  IF i > Len(es) THEN R(acc, st)
  ELSE LET r == Eval(es[i], env, st) IN IF r.p # <<>> THEN r ELSE EvalList(es, i + 1, env, r.st, Append(acc, r.v))

\* ---------------------------------------------------------------------------- statements
ExecBlock(b, i, env, st) ==
  IF i > Len(b) THEN SNext(env, st)
  ELSE LET r == ExecStmt(b[i], env, st) IN
       IF r.sig.k = "next" THEN ExecBlock(b, i + 1, r.env, r.st)
       ELSE IF r.sig.k = "goto" /\ MgLabelAt(b, r.sig.l) > 0 THEN ExecBlock(b, MgLabelAt(b, r.sig.l) + 1, r.env, r.st)
       ELSE r

Scoped(r, env) == [r EXCEPT !.env = env]                 \* leaving a nested block drops its declarations

ExecStmt(s, env, st) ==
  CASE s.s \in {"nop", "label"} -> SNext(env, st)
    [] s.s = "decl" ->                                   \* v := e  (a new cell)
         LET r == Eval(s.e, env, st) IN IF r.p # <<>> THEN SPanic(r.p, env, r.st) ELSE
         LET s2 == MgAlloc(r.st, r.v) IN SNext([env EXCEPT ![s.v] = Len(s2.heap)], s2)
    [] s.s = "set" ->
         LET lv == s.lv IN
         IF lv.l = "v" THEN
            LET r == Eval(s.e, env, st) IN IF r.p # <<>> THEN SPanic(r.p, env, r.st) ELSE
            SNext(env, [r.st EXCEPT !.heap[env[lv.v]] = r.v])
         ELSE IF lv.l = "idx" THEN
            LET ri == Eval(lv.i, env, st) IN IF ri.p # <<>> THEN SPanic(ri.p, env, ri.st) ELSE
            LET r == Eval(s.e, env, ri.st) IN IF r.p # <<>> THEN SPanic(r.p, env, r.st) ELSE
            LET cur == r.st.heap[env[lv.v]]  n == IF lv.of = "slice" THEN cur.len ELSE Len(cur) IN
            IF ri.v < 0 \/ ri.v >= n THEN SRaise(MsgIndex(ri.v, n), env, r.st)
            ELSE IF lv.of = "slice" THEN SNext(env, [r.st EXCEPT !.heap[cur.a][cur.off + ri.v + 1] = r.v])
            ELSE SNext(env, [r.st EXCEPT !.heap[env[lv.v]][ri.v + 1] = r.v])
         ELSE IF lv.l = "map" THEN
            LET rk == Eval(lv.k, env, st) IN IF rk.p # <<>> THEN SPanic(rk.p, env, rk.st) ELSE
            LET r == Eval(s.e, env, rk.st) IN IF r.p # <<>> THEN SPanic(r.p, env, r.st) ELSE
            LET m == r.st.heap[env[lv.v]] IN
            IF m = 0 THEN SRaise(MgtNilMap, env, r.st)
            ELSE SNext(env, [r.st EXCEPT !.heap[m] = MgMapPut(@, rk.v, r.v)])
         ELSE \* "field"
            LET r == Eval(s.e, env, st) IN IF r.p # <<>> THEN SPanic(r.p, env, r.st) ELSE
            IF lv.of = "st" THEN SNext(env, [r.st EXCEPT !.heap[env[lv.v]][lv.f] = r.v])
            ELSE LET p == r.st.heap[env[lv.v]] IN
                 IF p = 0 THEN SRaise(MgtNilDeref, env, r.st) ELSE SNext(env, [r.st EXCEPT !.heap[p][lv.f] = r.v])
    [] s.s = "print" ->
         LET r == EvalList([j \in 1..Len(s.es) |-> s.es[j].e], 1, env, st, <<>>) IN
         IF r.p # <<>> THEN SPanic(r.p, env, r.st) ELSE
         LET line == [j \in 1..Len(s.es) |-> CASE s.es[j].k = "i" -> TokI(r.v[j]) [] s.es[j].k = "s" -> TokS(r.v[j]) [] s.es[j].k = "b" -> TokB(r.v[j])] IN
         SNext(env, [r.st EXCEPT !.out = Append(@, line)])
    [] s.s = "if" ->
         LET rc == Eval(s.c, env, st) IN IF rc.p # <<>> THEN SPanic(rc.p, env, rc.st) ELSE
         Scoped(ExecBlock(IF rc.v THEN s.a ELSE s.b, 1, env, rc.st), env)
    [] s.s = "for" ->                                    \* for v := init; cond; post { body }   (v = 0: no loop variable)
         IF s.v = 0 THEN Scoped(ForIter(s, env, st), env)
         ELSE LET ri == Eval(s.init, env, st) IN IF ri.p # <<>> THEN SPanic(ri.p, env, ri.st) ELSE
              LET s2 == MgAlloc(ri.st, ri.v) IN Scoped(ForIter(s, [env EXCEPT ![s.v] = Len(s2.heap)], s2), env)
    [] s.s = "ranges" ->                                 \* for iv, rv := range <string>
         LET re == Eval(s.e, env, st) IN IF re.p # <<>> THEN SPanic(re.p, env, re.st) ELSE
         Scoped(RangeIter(s, re.v, 1, env, re.st), env)
    [] s.s = "rangesl" ->                                \* for iv, rv := range <slice>: the range expression is evaluated once
         LET re == Eval(s.e, env, st) IN IF re.p # <<>> THEN SPanic(re.p, env, re.st) ELSE
         Scoped(RangeSlIter(s, re.v, 0, env, re.st), env)
    [] s.s = "select" ->                                 \* select { default: body }: the only case is the default one, it is chosen;
         LET r == ExecBlock(s.body, 1, env, st) IN       \* "a break statement terminates execution of the innermost for, switch, or select"
         Scoped(IF r.sig.k = "break" /\ r.sig.l = "" THEN SNext(env, r.st) ELSE r, env)
    [] s.s = "switch" ->
         LET rt == Eval(s.e, env, st) IN IF rt.p # <<>> THEN SPanic(rt.p, env, rt.st) ELSE
         LET cl == s.clauses
             match == {j \in 1..Len(cl) : ~cl[j].def /\ \E q \in 1..Len(cl[j].vals) : cl[j].vals[q] = rt.v}
             defs == {j \in 1..Len(cl) : cl[j].def}
             j0 == IF match # {} THEN MgMin(match) ELSE IF defs # {} THEN MgMin(defs) ELSE 0 IN
         IF j0 = 0 THEN SNext(env, rt.st) ELSE Scoped(SwitchRun(s, j0, env, rt.st), env)
    [] s.s \in {"break", "continue", "goto"} -> [sig |-> MgSig(s.s, s.label, 0, <<>>), env |-> env, st |-> st]
    [] s.s = "del" ->
         LET rk == Eval(s.k, env, st) IN IF rk.p # <<>> THEN SPanic(rk.p, env, rk.st) ELSE
         LET m == rk.st.heap[env[s.v]] IN
         IF m = 0 THEN SNext(env, rk.st) ELSE SNext(env, [rk.st EXCEPT !.heap[m] = MgMapDel(@, rk.v)])
    [] s.s = "expr" -> LET r == Eval(s.e, env, st) IN IF r.p # <<>> THEN SPanic(r.p, env, r.st) ELSE SNext(env, r.st)
    [] s.s = "ret" -> LET r == Eval(s.e, env, st) IN IF r.p # <<>> THEN SPanic(r.p, env, r.st)
                      ELSE [sig |-> MgSig("return", "", r.v, <<>>), env |-> env, st |-> r.st]
    [] s.s = "defer" ->                                  \* defer f(): the function value is evaluated now, called at the frame's end
         LET r == Eval(s.f, env, st) IN IF r.p # <<>> THEN SPanic(r.p, env, r.st)
         ELSE SNext(env, [r.st EXCEPT !.dfr = Append(@, r.v)])
    [] s.s = "panic" ->                                  \* panic(n), n an int: the message is the number
         LET r == Eval(s.e, env, st) IN IF r.p # <<>> THEN SPanic(r.p, env, r.st)
         ELSE [sig |-> MgSig("panic", "", 0, MgDec(r.v)), env |-> env, st |-> [r.st EXCEPT !.lp = PayInt(r.v)]]

\* one test-and-iteration of a for statement; env holds this iteration's copy of the loop variable
ForIter(s, env, st) ==
  LET rc == Eval(s.cond, env, st) IN
  IF rc.p # <<>> THEN SPanic(rc.p, env, rc.st)
  ELSE IF ~rc.v THEN SNext(env, rc.st)
  ELSE LET rb == ExecBlock(s.body, 1, env, rc.st)  k == rb.sig.k IN
       IF k = "next" \/ (k = "continue" /\ rb.sig.l \in {"", s.label}) THEN
          \* Go 1.22: the next iteration gets a fresh variable initialised with the current value; the
          \* post statement runs on the fresh one
          LET s2 == IF s.v = 0 THEN rb.st ELSE MgAlloc(rb.st, rb.st.heap[env[s.v]])
              env2 == IF s.v = 0 THEN env ELSE [env EXCEPT ![s.v] = Len(s2.heap)]
              rp == ExecStmt(s.post, env2, s2) IN
          IF rp.sig.k # "next" THEN rp ELSE ForIter(s, env2, rp.st)
       ELSE IF k = "break" /\ rb.sig.l \in {"", s.label} THEN SNext(env, rb.st)
       ELSE rb

RangeIter(s, str, i, env, st) ==
  IF i > Len(str) THEN SNext(env, st)
  ELSE LET d == DecodeRune(str, i)
           s1 == IF s.iv = 0 THEN st ELSE MgAlloc(st, i - 1)
           e1 == IF s.iv = 0 THEN env ELSE [env EXCEPT ![s.iv] = Len(s1.heap)]
           s2 == IF s.rv = 0 THEN s1 ELSE MgAlloc(s1, d[1])
           e2 == IF s.rv = 0 THEN e1 ELSE [e1 EXCEPT ![s.rv] = Len(s2.heap)]
           rb == ExecBlock(s.body, 1, e2, s2)  k == rb.sig.k IN
       IF k = "next" \/ (k = "continue" /\ rb.sig.l \in {"", s.label}) THEN RangeIter(s, str, i + d[2], env, rb.st)
       ELSE IF k = "break" /\ rb.sig.l \in {"", s.label} THEN SNext(env, rb.st)
       ELSE rb

\* for iv, rv := range sl, sl a slice value: the iterations are 0 .. len(sl) - 1 with the length the slice has when the
\* statement starts; the element is read when its iteration starts; fresh variables per iteration
RangeSlIter(s, sl, i, env, st) ==
  IF i >= sl.len THEN SNext(env, st)
  ELSE LET s1 == IF s.iv = 0 THEN st ELSE MgAlloc(st, i)
           e1 == IF s.iv = 0 THEN env ELSE [env EXCEPT ![s.iv] = Len(s1.heap)]
           s2 == IF s.rv = 0 THEN s1 ELSE MgAlloc(s1, s1.heap[sl.a][sl.off + i + 1])
           e2 == IF s.rv = 0 THEN e1 ELSE [e1 EXCEPT ![s.rv] = Len(s2.heap)]
           rb == ExecBlock(s.body, 1, e2, s2)  k == rb.sig.k IN
       IF k = "next" \/ (k = "continue" /\ rb.sig.l \in {"", s.label}) THEN RangeSlIter(s, sl, i + 1, env, rb.st)
       ELSE IF k = "break" /\ rb.sig.l \in {"", s.label} THEN SNext(env, rb.st)
       ELSE rb

\* run clause j of a switch; fallthrough continues with the next clause's body
SwitchRun(s, j, env, st) ==
  LET r == ExecBlock(s.clauses[j].body, 1, env, st) IN
  IF r.sig.k = "next" /\ s.clauses[j].ft /\ j < Len(s.clauses) THEN SwitchRun(s, j + 1, env, r.st)
  ELSE IF r.sig.k = "break" /\ r.sig.l = "" THEN SNext(env, r.st)
  ELSE r

\* ---------------------------------------------------------------------------- a whole program
\* main is a frame too: its deferred calls run when it returns or panics
Run(prog) ==
  LET fenv == [j \in 1..prog.nv |-> 0]
      r == CallFrame([body |-> prog.body, env |-> fenv], 0, <<>>,
                     [heap |-> <<>>, out |-> <<>>, dfr |-> <<>>, fr |-> 0, pst |-> <<>>, lp |-> PayNone,
                      funcs |-> prog.funcs, fenv |-> fenv]) IN
  [out |-> r.st.out,
   outcome |-> IF r.stray THEN "invalid" ELSE IF r.p THEN "panic" ELSE "ok",
   msg |-> r.m]
=============================================================================

---------------------------- MODULE MC_InitOrder ----------------------------
(* Dependency graphs over NV variables + NF functions with at most MaxEdges edges: the declaration
   sort of the checker against the Go specification's algorithm; exports the graphs.
     Thru = 0: every graph (any edge).
     Thru = 1: the "through functions" graphs - no direct variable -> variable edge; variables
               depend on each other only through the call graph of the functions (chains, recursion,
               mutual recursion), which is where the sort has to follow dependencies transitively.
   One state per graph (edges are added in increasing code order, so every graph is generated once).
   Every graph is exported with its dependencies mentioned in ascending order and, when some node has
   two dependencies or more, a second time in descending order (rev = 1). *)
EXTENDS InitOrder, TLC, Json, SequencesExt
CONSTANTS NV, NF, MaxEdges, Thru
N == NV + NF
Codes == IF Thru = 1 THEN ThruCodes(NV, N) ELSE AllCodes(N)
VARIABLE es          \* increasing sequence of indexes into Codes
Init == es = <<>>
Next == /\ Len(es) < MaxEdges
        /\ \E e \in (IF es = <<>> THEN 1 ELSE es[Len(es)] + 1)..Len(Codes) : es' = Append(es, e)
EdgeCodes(s) == [q \in 1..Len(s) |-> Codes[s[q]]]
MeetsRef(d) == ImplOutcomeIO(d, NV) = RefOutcomeIO(d, NV)
ImplMeetsRef == LET c == EdgeCodes(es) IN MeetsRef(DepsOf(c, N)) /\ MeetsRef(DepsOfRev(c, N))
\* sanity of the reference: when no variable depends on itself, every variable gets initialised exactly once
RefTotal == LET d == DepsOf(EdgeCodes(es), N) IN ~RefCyclic(d, NV) => (Len(RefOrder(d, NV)) = NV /\ Cardinality(IoRange(RefOrder(d, NV))) = NV)
\* (helpers with arguments: TLC evaluates an argument once, a definition of a module with CONSTANTS at every use)
CasesFwd(G, codes) == [i \in 1..Len(G) |-> [id |-> i, fam |-> "initorder", nv |-> NV, nf |-> NF, rev |-> 0,
                                             deps |-> DepsOf([q \in 1..Len(G[i]) |-> codes[G[i][q]]], N)]] \o <<>>
CasesRev(two, base) == [i \in 1..Len(two) |-> [two[i] EXCEPT !.id = base + i, !.rev = 1, !.deps = [n \in 1..N |-> IoReverse(two[i].deps[n])]]]
CasesBoth(fwd) == fwd \o CasesRev(SelectSeq(fwd, LAMBDA c : \E n \in 1..N : Len(c.deps[n]) >= 2), Len(fwd))
Cases == CasesBoth(CasesFwd(IncSeqs(1, Len(Codes), MaxEdges), Codes))
ASSUME ndJsonSerialize("cases.ndjson", Cases)
=============================================================================

---------------------------- MODULE MC_InitOrder ----------------------------
(* Dependency graphs over NV variables + NF functions with at most MaxEdges edges: the declaration
   sort of the checker against the Go specification's algorithm; exports the graphs.
     Thru = 0: every graph (any edge).
     Thru = 1: the "through functions" graphs - no direct variable -> variable edge; variables
               depend on each other only through the call graph of the functions (chains, recursion,
               mutual recursion), which is where the sort has to follow dependencies transitively.
   One state per graph (edges are added in increasing code order, so every graph is generated once).
   Every graph is exported with the textual orders in which the driver is to write it: dependencies
   mentioned in ascending node order (0) and, when BothOrders = 1 and some node has two dependencies
   or more, also in descending order (1); the invariants check the transcribed algorithm under both
   orders in any case. *)
EXTENDS InitOrder, TLC, Json, SequencesExt
CONSTANTS NV, NF, MaxEdges, Thru, BothOrders
N == NV + NF
Codes == IF Thru = 1 THEN ThruCodes(NV, N) ELSE AllCodes(N)
VARIABLE es          \* increasing sequence of indexes into Codes
Init == es = <<>>
Next == /\ Len(es) < MaxEdges
        /\ \E e \in (IF es = <<>> THEN 1 ELSE es[Len(es)] + 1)..Len(Codes) : es' = Append(es, e)
EdgeCodes(s) == [q \in 1..Len(s) |-> Codes[s[q]]]
\* the graph of the state, with the dependencies mentioned in ascending and in descending order
MeetsRef(d, ref) == ImplOutcomeIO(d, NV) = ref /\ ImplOutcomeIO([n \in 1..N |-> IoReverse(d[n])], NV) = ref
MeetsRefD(d) == MeetsRef(d, RefOutcomeIO(d, NV))
ImplMeetsRef == MeetsRefD(DepsOf(EdgeCodes(es), N))
\* sanity of the reference: when no variable depends on itself, every variable gets initialised exactly once
Total(ref) == ~ref.cyc => (Len(ref.order) = NV /\ Cardinality(IoRange(ref.order)) = NV)
RefTotal == Total(RefOutcomeIO(DepsOf(EdgeCodes(es), N), NV))
\* (operators with arguments: TLC evaluates an argument once, a definition of a module with CONSTANTS at every use
\*  - and a zero-argument Cases would be evaluated a second time at start-up)
CasesOf(G, codes) == [i \in 1..Len(G) |->
                        LET d == DepsOf([q \in 1..Len(G[i]) |-> codes[G[i][q]]], N) IN
                        [id |-> i, fam |-> "initorder", nv |-> NV, nf |-> NF, deps |-> d,
                         orders |-> IF BothOrders = 1 /\ \E n \in 1..N : Len(d[n]) >= 2 THEN <<0, 1>> ELSE <<0>>]]
ASSUME ndJsonSerialize("cases.ndjson", CasesOf(IncSeqs(1, Len(Codes), MaxEdges), Codes))
=============================================================================

---------------------------- MODULE MC_InitOrder ----------------------------
(* All dependency graphs over NV variables + NF functions with at most MaxEdges edges: the
   declaration sort of the checker against the Go specification's algorithm; exports the graphs.
   One state per graph (edges are added in increasing code order, so every graph is generated once).
   Run with -continue: the two known divergences of the transcribed algorithm (function dependencies
   not followed; recursion reported as a loop) violate ImplMeetsRef on many graphs. *)
EXTENDS InitOrder, TLC, Json, SequencesExt
CONSTANTS NV, NF, MaxEdges
N == NV + NF
VARIABLE es
Init == es = <<>>
Next == /\ Len(es) < MaxEdges
        /\ \E e \in (IF es = <<>> THEN 0 ELSE es[Len(es)] + 1)..(N * N - 1) : es' = Append(es, e)
ImplMeetsRef == LET d == DepsOf(es, N) IN ImplOutcomeIO(d, NV) = RefOutcomeIO(d, NV)
\* sanity of the reference: when no variable depends on itself, every variable gets initialised exactly once
RefTotal == LET d == DepsOf(es, N) IN ~RefCyclic(d, NV) => (Len(RefOrder(d, NV)) = NV /\ Cardinality(IoRange(RefOrder(d, NV))) = NV)
Cases == LET G == SetToSeq(IncSeqs(0, N * N - 1, MaxEdges)) IN
         [i \in 1..Len(G) |-> [id |-> i, fam |-> "initorder", nv |-> NV, nf |-> NF, deps |-> DepsOf(G[i], N)]]
ASSUME ndJsonSerialize("cases.ndjson", Cases)
=============================================================================

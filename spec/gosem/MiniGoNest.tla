------------------------------ MODULE MiniGoNest ------------------------------
(* C01 part 4c.  The space of unlabelled break / continue statements inside nested breakable
   statements of different kinds, enumerated by TLC.

   Go specification: "A break statement terminates execution of the innermost for, switch, or
   select statement within the same function"; "A continue statement begins the next iteration of
   the innermost enclosing for loop by advancing control to the end of the loop block".

   A program is described by
       ks    the kinds of the nested statements, outermost first (1 .. NestMaxDepth of them), out of
               "for3"    for v := 0; v < 3; v = v + 1 { ... }
               "for0"    for v := 0; ; v = v + 1 { if v >= 3 { break }; ... }       (no condition: continue must run the post statement)
               "forever" v = 0; for { v = v + 1; if v > 3 { break }; ... }          (the bare for; v is declared at the top of main)
               "rstr"    for v, w := range "abc" { ... }
               "rsl"     for v, w := range []int{5, 6, 7} { ... }
               "switch"  switch <sum of the visible loop variables> { case 0, 1: ...  default: println(..) }
               "select"  select { default: ... }
       jump  "break" or "continue"  (continue only where some statement around it is a loop)
       lvl   the statement in whose body the jump is written (1 = the outermost)
       pos   where in that body: 0 before the first print, 1 after it (before the nested statement),
             2 after the nested statement (only when there is one), 3 at the end of the body
       cond  FALSE: the bare jump; TRUE: if <sum of the visible loop variables> == 1 { jump }
   The body of the statement at level k is
       println(10k+1, loop variables)   <statement of level k+1>   println(10k+2, loop variables)
   and the program prints 98 before the outermost statement and 99 after it, so the output shows
   which iterations ran, which parts of them, and that the program went on after the statements.
   MiniGo.tla is the reference that says what each program prints. *)
EXTENDS MiniGo, FiniteSets

NestIters == 3
NestLoops == {"for3", "for0", "forever", "rstr", "rsl"}
NestAllKinds == {"for3", "for0", "forever", "rstr", "rsl", "switch", "select"}
\* the kinds a statement at level k may have in the programs of depth d: all of them up to depth full; deeper programs
\* have one kind of range statement per level (over a slice or over a string, by the parity of level + seed), and those of
\* depth 3 or more also only one kind of for statement per level (three clauses / without a condition / bare, by level + seed
\* modulo 3: the three levels of a nest of depth 3 take the three kinds in rotation)
NestKindsAt(k, d, full, seed) ==
  IF d <= full THEN NestAllKinds
  ELSE {"switch", "select", IF (k + seed) % 2 = 1 THEN "rsl" ELSE "rstr"}
       \cup (IF d <= 2 THEN {"for3"} ELSE {CASE (k + seed) % 3 = 0 -> "for3" [] (k + seed) % 3 = 1 -> "for0" [] OTHER -> "forever"})
       \cup (IF d <= 2 THEN {"for0", "forever"} ELSE {})
NestKindSeqs(d, full, seed) ==
  {ks \in [1..d -> NestAllKinds] : \A k \in 1..d : ks[k] \in NestKindsAt(k, d, full, seed)}
NestValid(s) == /\ (s.pos = 2 => s.lvl < Len(s.ks))
                /\ (s.jump = "continue" => \E m \in 1..s.lvl : s.ks[m] \in NestLoops)
NestSpecsD(d, full, seed) ==
  {s \in {[ks |-> ks, jump |-> j, lvl |-> l, pos |-> p, cond |-> c] :
             ks \in NestKindSeqs(d, full, seed), j \in {"break", "continue"}, l \in 1..d, p \in 0..3, c \in BOOLEAN} :
     NestValid(s)}
NestSpecs(maxd, full, seed) == UNION {NestSpecsD(d, full, seed) : d \in 1..maxd}

(* ---- description -> MiniGo program.  Variables: the index variable of level k is k, the value variable (range) 3 + k *)
NnC(n) == [e |-> "c", n |-> n]
NnV(v) == [e |-> "v", v |-> v]
NnPI(es) == [s |-> "print", es |-> [j \in 1..Len(es) |-> [k |-> "i", e |-> es[j]]]]
RECURSIVE NnVars(_, _, _), NnSum(_, _, _)
\* the loop variables visible in the body of level k, outermost first (m runs from 1)
NnVars(ks, k, m) ==
  IF m > k THEN <<>>
  ELSE (CASE ks[m] \in {"for3", "for0", "forever"} -> <<NnV(m)>> [] ks[m] \in {"rstr", "rsl"} -> <<NnV(m), NnV(3 + m)>> [] OTHER -> <<>>) \o NnVars(ks, k, m + 1)
\* the sum of the index variables of the loops at levels m .. k (the constant 1 when there is none)
NnSum(ks, k, m) ==
  IF m > k THEN NnC(1)
  ELSE IF ks[m] \notin NestLoops THEN NnSum(ks, k, m + 1)
  ELSE IF \A q \in (m + 1)..k : ks[q] \notin NestLoops THEN NnV(m)
  ELSE [e |-> "bin", op |-> "+", a |-> NnV(m), b |-> NnSum(ks, k, m + 1)]
NnJump(s, k) ==
  LET j == [s |-> s.jump, label |-> ""] IN
  IF s.cond THEN <<[s |-> "if", c |-> [e |-> "cmp", op |-> "==", a |-> NnSum(s.ks, k, 1), b |-> NnC(1)], a |-> <<j>>, b |-> <<>>]>> ELSE <<j>>
NnAt(s, k, p) == IF s.lvl = k /\ s.pos = p THEN NnJump(s, k) ELSE <<>>
RECURSIVE NnStmt(_, _)
NnSetV(v, e) == [s |-> "set", lv |-> [l |-> "v", v |-> v], e |-> e]
NnInc(v) == NnSetV(v, [e |-> "bin", op |-> "+", a |-> NnV(v), b |-> NnC(1)])
NnBreakIf(op, v, n) == [s |-> "if", c |-> [e |-> "cmp", op |-> op, a |-> NnV(v), b |-> NnC(n)], a |-> <<[s |-> "break", label |-> ""]>>, b |-> <<>>]
\* the statement of level k, preceded by what it needs ("forever": its counter starts again at 0)
NnStmts(s, k) == (IF s.ks[k] = "forever" THEN <<NnSetV(k, NnC(0))>> ELSE <<>>) \o <<NnStmt(s, k)>>
NnBody(s, k) ==
  NnAt(s, k, 0) \o <<NnPI(<<NnC(10 * k + 1)>> \o NnVars(s.ks, k, 1))>> \o NnAt(s, k, 1)
  \o (IF k < Len(s.ks) THEN NnStmts(s, k + 1) \o NnAt(s, k, 2) ELSE <<>>)
  \o <<NnPI(<<NnC(10 * k + 2)>> \o NnVars(s.ks, k, 1))>> \o NnAt(s, k, 3)
NnStmt(s, k) ==
  LET kind == s.ks[k] IN
  CASE kind = "for3" -> [s |-> "for", label |-> "", v |-> k, init |-> NnC(0),
                         cond |-> [e |-> "cmp", op |-> "<", a |-> NnV(k), b |-> NnC(NestIters)],
                         post |-> [s |-> "set", lv |-> [l |-> "v", v |-> k], e |-> [e |-> "bin", op |-> "+", a |-> NnV(k), b |-> NnC(1)]],
                         body |-> NnBody(s, k)]
    [] kind = "for0" -> [s |-> "for", label |-> "", v |-> k, init |-> NnC(0), cond |-> [e |-> "nocond"], post |-> NnInc(k),
                         body |-> <<NnBreakIf(">=", k, NestIters)>> \o NnBody(s, k)]
    [] kind = "forever" -> [s |-> "for", label |-> "", v |-> 0, init |-> NnC(0), cond |-> [e |-> "nocond"], post |-> [s |-> "nop"],
                            body |-> <<NnInc(k), NnBreakIf(">", k, NestIters)>> \o NnBody(s, k)]
    [] kind = "rstr" -> [s |-> "ranges", label |-> "", iv |-> k, rv |-> 3 + k, e |-> [e |-> "str", b |-> [j \in 1..NestIters |-> 96 + j]],
                         body |-> NnBody(s, k)]
    [] kind = "rsl" -> [s |-> "rangesl", label |-> "", iv |-> k, rv |-> 3 + k,
                        e |-> [e |-> "slicelit", es |-> [j \in 1..NestIters |-> NnC(4 + j)]], body |-> NnBody(s, k)]
    [] kind = "switch" -> [s |-> "switch", e |-> NnSum(s.ks, k, 1),
                           clauses |-> <<[def |-> FALSE, vals |-> <<0, 1>>, body |-> NnBody(s, k), ft |-> FALSE],
                                         [def |-> TRUE, vals |-> <<>>, body |-> <<NnPI(<<NnC(10 * k + 8)>> \o NnVars(s.ks, k, 1))>>, ft |-> FALSE]>>]
    [] kind = "select" -> [s |-> "select", body |-> NnBody(s, k)]
\* (the counters of the bare for statements are declared at the top of main)
NnDecls(s) == [j \in 1..Len(SelectSeq([k \in 1..Len(s.ks) |-> k], LAMBDA k : s.ks[k] = "forever")) |->
                 [s |-> "decl", v |-> SelectSeq([k \in 1..Len(s.ks) |-> k], LAMBDA k : s.ks[k] = "forever")[j], e |-> NnC(0)]]
NestProg(s) == [nv |-> 6, funcs |-> <<>>, body |-> <<NnPI(<<NnC(98)>>)>> \o NnDecls(s) \o NnStmts(s, 1) \o <<NnPI(<<NnC(99)>>)>>]

(* ---- what the judge's signature names (the root-cause-identifying part of the description):
   at = the kind of the statement the jump refers to by the specification (break: the statement it is written in;
   continue: the innermost loop around it), encl = the kind of the statement around that one ("none": there is none) *)
NnName(kind) == CASE kind = "rstr" -> "range-string" [] kind = "rsl" -> "range-slice" [] kind = "for0" -> "for-without-condition"
                  [] kind = "forever" -> "for-bare" [] OTHER -> kind
NnTarget(s) == IF s.jump = "break" THEN s.lvl ELSE CHOOSE m \in 1..s.lvl : s.ks[m] \in NestLoops /\ \A q \in (m + 1)..s.lvl : s.ks[q] \notin NestLoops
NestTag(s) == LET t == NnTarget(s) IN
              [jump |-> s.jump, at |-> NnName(s.ks[t]), encl |-> IF t > 1 THEN NnName(s.ks[t - 1]) ELSE "none"]
=============================================================================

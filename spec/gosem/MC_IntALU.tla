----------------------------- MODULE MC_IntALU -----------------------------
(* Exhaustive model check  Impl(op,k,x,y) satisfies Ref(op,k,x,y)  over all integer kinds x all
   operators x boundary operands (x shift counts of the count kinds), for the register form and
   the constant-operand form of the instructions; exports the case set (inputs only).
   One TLC state per case; the states are spread over Chunks roots so that the workers share the
   evaluation.  Run with -continue: every case is evaluated even when some violate the invariant
   (the negative shift count is expected to: model_counterexample in the evidence). *)
EXTENDS IntALU, Json, FiniteSets, SequencesExt
CONSTANTS Tier, Chunks
B(k) == IF Tier = "quick" THEN BQuick(k) ELSE BFull(k)
CountKinds == IF Tier = "quick" THEN {"int", "int8", "uint8", "uint64"} ELSE Kinds
ConvTargets(k) == IF Tier = "quick" THEN {"int8", "uint8", "int32", "uint32", "int64", "uint64", "int", "uint16"} ELSE Kinds

BinCases == UNION {{[op |-> o, k |-> k, k2 |-> k, x |-> x, y |-> y] : o \in Arith \cup Cmps, x \in B(k), y \in B(k)} : k \in Kinds}
ShiftCases == UNION {UNION {{[op |-> o, k |-> k, k2 |-> k2, x |-> x, y |-> y] : o \in Shifts, x \in B(k), y \in Counts(k2, W(k))}
                            : k2 \in CountKinds} : k \in Kinds}
UnaryCases == UNION {{[op |-> o, k |-> k, k2 |-> k, x |-> x, y |-> Zero] : o \in Unary, x \in B(k)} : k \in Kinds}
ConvCases == UNION {UNION {{[op |-> "conv", k |-> k, k2 |-> k2, x |-> x, y |-> Zero] : x \in BFull(k)} : k2 \in ConvTargets(k)} : k \in Kinds}
CaseSeq == SetToSeq(BinCases \cup ShiftCases \cup UnaryCases \cup ConvCases)
N == Len(CaseSeq)
Cases == [i \in 1..N |-> [id |-> i, fam |-> "intalu", op |-> CaseSeq[i].op, k |-> CaseSeq[i].k, k2 |-> CaseSeq[i].k2,
                          x |-> CaseSeq[i].x, y |-> CaseSeq[i].y]]
ASSUME ndJsonSerialize("cases.ndjson", Cases)

VARIABLE ci
Init == ci \in {-j : j \in 1..Chunks}
Next == ci < 0 /\ \E i \in 1..N : i % Chunks = (-ci) % Chunks /\ ci' = i
\* the literal form exists only where Go accepts the literal: non-negative shift count, non-zero constant divisor
HasConstForm(c) == ~(c.op \in Shifts /\ c.y.s < 0) /\ ~(c.op \in {"div", "rem"} /\ c.y.s = 0)
ImplMeetsRef == ci > 0 => LET c == CaseSeq[ci] IN CaseOkModel(c, FALSE) /\ (HasConstForm(c) => CaseOkModel(c, TRUE))
=============================================================================

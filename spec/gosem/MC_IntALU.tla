----------------------------- MODULE MC_IntALU -----------------------------
(* Exhaustive model check  Impl(op,k,x,y) satisfies Ref(op,k,x,y)  over all integer kinds x all
   operators x boundary operands (x shift counts of the count kinds), for the register form and
   the constant-operand form of the instructions; exports the case set (inputs only).
   One TLC state per case, below one root state per (op, k, k2) so that the workers share the
   evaluation.  Run with -continue: every case is evaluated even when some violate the invariant
   (the negative shift count is expected to: model_counterexample in the evidence). *)
EXTENDS IntALU, Json, FiniteSets, SequencesExt
CONSTANTS Tier
B(k) == IF Tier = "quick" THEN BQuick(k) ELSE BFull(k)
\* operands of + - , the bitwise operators and comparisons (thorough: a medium set; * / % and shifts use the full set)
B2(k) == IF Tier = "quick" THEN BQuick(k) ELSE BMid(k)
CountKinds == IF Tier = "quick" THEN {"int", "uint8"} ELSE {"int", "int8", "uint8", "uint64"}
ConvTargets == IF Tier = "quick" THEN {"int8", "uint8", "int32", "uint16", "int64", "uint64"} ELSE Kinds
CmpOps == IF Tier = "quick" THEN {"lt", "ge"} ELSE Cmps
\* quick: the left operand is never 0 (0 op y is covered by the thorough tier)
NZ(vals) == IF Tier = "quick" THEN vals \ {Zero} ELSE vals

Roots == {[op |-> o, k |-> k, k2 |-> k] : o \in Arith \cup CmpOps \cup Unary, k \in Kinds}
         \cup {[op |-> o, k |-> k, k2 |-> k2] : o \in Shifts, k \in Kinds, k2 \in CountKinds}
         \cup {[op |-> "conv", k |-> k, k2 |-> k2] : k \in Kinds, k2 \in ConvTargets}
Operands(r) ==
  IF r.op \in {"mul", "div", "rem"} THEN {<<x, y>> : x \in NZ(B(r.k)), y \in B(r.k)}
  ELSE IF r.op \in Arith \cup Cmps THEN {<<x, y>> : x \in NZ(B2(r.k)), y \in B2(r.k)}
  ELSE IF r.op \in Shifts THEN {<<x, y>> : x \in NZ(B(r.k)), y \in Counts(r.k2, W(r.k))}
  ELSE IF r.op \in Unary THEN {<<x, Zero>> : x \in B(r.k)}
  ELSE {<<x, Zero>> : x \in B(r.k)}
CaseSet == UNION {{[op |-> r.op, k |-> r.k, k2 |-> r.k2, x |-> xy[1], y |-> xy[2]] : xy \in Operands(r)} : r \in Roots}
\* the literal form exists only where Go accepts the literal: non-negative (and small) shift count,
\* non-zero constant divisor
HasConstForm(cc) == /\ cc.op \notin Unary \cup {"conv"}
                    /\ ~(cc.op \in Shifts /\ (cc.y.s < 0 \/ Cmp(cc.y, FromInt(65)) > 0))
                    /\ ~(cc.op \in {"div", "rem"} /\ cc.y.s = 0)
\* source forms in which the replay driver writes the case: "var" x op y with two variables, "lit" x op LITERAL,
\* "assign" x op= y, "cond" if x op y {...}
Forms(cc) == <<"var">> \o (IF HasConstForm(cc) /\ (cc.op \notin Shifts \/ cc.k2 = "int") THEN <<"lit">> ELSE <<>>)
                       \o (IF cc.op \in Arith \cup Shifts THEN <<"assign">> ELSE <<>>)
                       \o (IF cc.op \in Cmps THEN <<"cond">> ELSE <<>>)
Cases == LET CS == SetToSeq(CaseSet) IN
         [i \in 1..Len(CS) |-> [id |-> i, fam |-> "intalu", op |-> CS[i].op, k |-> CS[i].k, k2 |-> CS[i].k2, x |-> CS[i].x, y |-> CS[i].y,
                                forms |-> Forms(CS[i])]]
ASSUME ndJsonSerialize("cases.ndjson", Cases)
ASSUME \A w \in {8, 16, 32, 64} : PW(w) = Pow2(w) /\ PH(w) = Pow2(w - 1) /\ PQ(w) = Pow2(w \div 2)
ASSUME \A x \in {FromInt(-129), FromInt(300), Mul(Pow2(63), FromInt(-3)), Add(Pow2(64), FromInt(5)), Mul(Pow2(64), Pow2(63))} :
         \A w \in {8, 16, 32, 64} : \A sg \in BOOLEAN : WrapW(x, w, sg) = WrapTo(x, w, sg)

VARIABLES root, c
Init == root = TRUE /\ c \in {[op |-> r.op, k |-> r.k, k2 |-> r.k2, x |-> Zero, y |-> Zero] : r \in Roots}
Next == /\ root /\ root' = FALSE
        /\ \E xy \in Operands(c) : c' = [c EXCEPT !.x = xy[1], !.y = xy[2]]
\* the register form of every instruction computes what Go prescribes
ImplMeetsRef == ~root => CaseOkModel(c, FALSE)
\* the constant-operand form (-Op..., vm.intk) feeds the same number into the same instruction
ConstFormSame == ~root /\ HasConstForm(c) => Intk(c.y, TRUE) = Intk(c.y, FALSE)
=============================================================================

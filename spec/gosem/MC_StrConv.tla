----------------------------- MODULE MC_StrConv -----------------------------
(* Model check of the conversion reference (round trips through Utf8) and of the transcribed
   OpConvertInt/Uint string case; exports the conversion cases. *)
EXTENDS StrConv, TLC, Json, FiniteSets, SequencesExt
CONSTANTS MaxPieces
I2SKinds == {"int", "int32", "int64", "uint32", "uint16", "uint8", "uint"}
KindOk(k, v) == CASE k = "uint8" -> v >= 0 /\ v <= 255 [] k = "uint16" -> v >= 0 /\ v <= 65535
                  [] k \in {"uint", "uint32"} -> v >= 0 [] OTHER -> TRUE
Flatten2(ps) == IF Len(ps) = 0 THEN <<>> ELSE IF Len(ps) = 1 THEN ps[1] ELSE IF Len(ps) = 2 THEN ps[1] \o ps[2] ELSE ps[1] \o ps[2] \o ps[3]
Strs == UNION {{Flatten2(ps) : ps \in [1..n -> ScPieces]} : n \in 0..MaxPieces}
RuneSeqs == UNION {[1..n -> ScRunes] : n \in 0..2}
CaseSet == {[op |-> "i2s", k |-> k, v |-> v, a |-> <<>>] : k \in I2SKinds, v \in {v \in ScRunes \cup {0, 255, 256, 2147483647} : TRUE}}
           \cup {[op |-> "r2s", k |-> "", v |-> 0, a |-> rs] : rs \in RuneSeqs}
           \cup {[op |-> o, k |-> "", v |-> 0, a |-> s] : o \in {"s2r", "range", "s2b", "b2s"}, s \in Strs}
Good == {c \in CaseSet : c.op # "i2s" \/ KindOk(c.k, c.v)}
Cases == LET G == SetToSeq(Good) IN [i \in 1..Len(G) |-> [id |-> i, fam |-> "conv", op |-> G[i].op, k |-> G[i].k, v |-> G[i].v, a |-> G[i].a]]
ASSUME ndJsonSerialize("cases.ndjson", Cases)

VARIABLE c
Init == c \in Good
Next == FALSE /\ c' = c
\* the VM's integer -> string conversion is the reference
ImplMeetsRef == c.op = "i2s" => ImplI2S(c.v) = ConvRef("i2s", c.k, c.v, <<>>)
\* reference sanity: decoding an encoding gives the runes back, invalid ones replaced by U+FFFD
EncDec == c.op = "r2s" => Runes(Encode(c.a)) = [i \in 1..Len(c.a) |-> IF ScValid(c.a[i]) THEN c.a[i] ELSE 65533]
\* re-encoding the decoded runes of a VALID string gives the string back; range visits every byte index once, increasing
DecEnc == c.op = "s2r" /\ Valid(c.a) => Encode(Runes(c.a)) = c.a
RangeIdx == c.op = "range" => LET p == ConvRef("range", "", 0, c.a) IN
              /\ Len(p) = 2 * RuneCount(c.a)
              /\ \A j \in 1..(Len(p) \div 2 - 1) : p[2 * j - 1] < p[2 * j + 1]
=============================================================================

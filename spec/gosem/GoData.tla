------------------------------- MODULE GoData -------------------------------
(* C01 part 9.  The value semantics of Go's composite data: a REFERENCE store model and an alphabet of
   operations over a fixed set of variables (Go specification: "Assignment statements", "Array types",
   "Slice types", "Slice expressions", "Appending to and copying slices", "Map types", "Index expressions",
   "Deletion of map elements", "Struct types", "Address operators", "Function literals", "Calls" - "the
   parameters of the call are passed by value", "For statements with range clause").

   Every program has the same declarations (GdPreamble in the driver, GdInit here):
       type T struct { x int; a [2]int }
       i := 1;  a := [3]int{1, 2, 3};  b := [3]int{4, 5, 6}
       s := make([]int, 2, 4); s[0], s[1] = 11, 12;  var t []int;  u := []int{21, 22, 23}
       m := map[int]int{1: 31};  var n map[int]int
       p := T{41, [2]int{42, 43}};  q := T{51, [2]int{52, 53}}
       var pi *int;  var pt *T;  f := func() {}
   followed by a straight-line sequence of operations of the alphabet GdOps; the observable state
   (GdLine) is printed before the first and after every operation.

   The store:  i      the int variable
               arrs   every array: 1 = the variable a, 2 = the variable b, the others are backing arrays of
                      slices allocated by make / literals / a growing append.  An ARRAY VARIABLE IS ITS
                      STORAGE: b = a copies the contents, a[:] is a slice onto array 1.
               sl     the slice variables s, t, u: [a, off, len, cap, ck] - backing array (0 = nil), offset,
                      length, capacity; ck = FALSE: the capacity is the one chosen by a growing append, which
                      the language does not fix - cap is then only a lower bound
               maps   every map (three cells for the keys 1..3: <<>> absent, <<v>> present); mp: the map
                      variables m, n hold a map number (0 = nil): assignment aliases
               sts    every struct: 1 = the variable p, 2 = the variable q, the others allocated by &T{...}
               pt     the *T variable: a struct number or 0;  pi: the *int variable: a location
               f      the func() variable: the operation its body performs (closures refer to the
                      variables themselves, so the body runs on the store as it is when f is called; a
                      captured PARAMETER is a copy made when the closure was created)
               rs, rk, rv   while a range statement runs: the slice value being ranged over (evaluated once),
                      the iteration variables
   Unspecified behaviour is never observed: cap(x) is printed only while ck; an operation whose effect
   depends on an unfixed capacity (append beyond the lower bound while another variable, the range
   statement or pi can see the same backing array; x[:cap(x)]; slicing beyond the lower bound) makes
   the program UNDEFINED (und) and MC_GoData drops it.  Map iteration order is not used at all.
   Run-time panics end the program; only their class is part of the observable.

   alt: {} in the reference.  Three DEVIATIONS from the reference are modelled as well (alt = the set of those in force) -
   they are never the expected behaviour; the judge uses them only to name the root cause of a failure in its signature (GdLike):
     "replace"    an assignment to a whole array / struct variable gives the variable new storage instead of writing
                  into its storage: slices of it and pointers into it keep seeing the old contents
     "palost"     an element assignment through a pointer to an array is lost
     "rangelive"  range over an array value with both iteration variables reads the array itself, not a copy
     "cladr"      inside a function literal, the address of an element / a field of a captured array / struct variable
                  is the address of a copy of the variable *)
EXTENDS Integers, Sequences, MiniGoText

GdSl(a, off, len, cap, ck) == [a |-> a, off |-> off, len |-> len, cap |-> cap, ck |-> ck]
GdNilSl == GdSl(0, 0, 0, 0, TRUE)
GdLoc(k, n, j) == [k |-> k, n |-> n, j |-> j]          \* "nil" | "i" | "arr" (array n, element j) | "sx" (struct n, field x) | "sa" (struct n, a[j-1])
GdNop == [k |-> "nop"]

GdInit ==
  [i |-> 1,
   arrs |-> << <<1, 2, 3>>, <<4, 5, 6>>, <<11, 12, 0, 0>>, <<21, 22, 23>> >>,
   sl |-> [s |-> GdSl(3, 0, 2, 4, TRUE), t |-> GdNilSl, u |-> GdSl(4, 0, 3, 3, TRUE)],
   maps |-> << << <<31>>, <<>>, <<>> >> >>,
   mp |-> [m |-> 1, n |-> 0],
   sts |-> << [x |-> 41, a |-> <<42, 43>>], [x |-> 51, a |-> <<52, 53>>] >>,
   pt |-> 0, pi |-> GdLoc("nil", 0, 0), f |-> GdNop,
   rs |-> GdNilSl, rk |-> 0, rv |-> 0,
   out |-> <<>>, capk |-> <<>>, outcome |-> "ok", msg |-> "", und |-> FALSE,
   alt |-> {}]

GdPanic(st, cls) == [st EXCEPT !.outcome = "panic", !.msg = cls]     \* cls: "index" | "bounds" | "nilmap" | "nilderef"
GdUnd(st) == [st EXCEPT !.und = TRUE]
GdMin(x, y) == IF x < y THEN x ELSE y

\* ---------------------------------------------------------------------------- locations (pointers)
GdRead(st, l) == CASE l.k = "i" -> st.i [] l.k = "arr" -> st.arrs[l.n][l.j] [] l.k = "sx" -> st.sts[l.n].x [] l.k = "sa" -> st.sts[l.n].a[l.j]
GdWrite(st, l, v) == CASE l.k = "i" -> [st EXCEPT !.i = v] [] l.k = "arr" -> [st EXCEPT !.arrs[l.n][l.j] = v]
                       [] l.k = "sx" -> [st EXCEPT !.sts[l.n].x = v] [] l.k = "sa" -> [st EXCEPT !.sts[l.n].a[l.j] = v]

\* ---------------------------------------------------------------------------- slices
\* a slice operand: base[lo:hi:mx];  base = a slice variable, an array variable (a slice onto the variable itself) or []int(nil);
\* hi: -1 = omitted (len), -3 = cap(base);  mx: -1 = omitted, -2 = len(base).  GdSV(v) is the variable v itself.
GdSE(b, lo, hi, mx) == [b |-> b, lo |-> lo, hi |-> hi, mx |-> mx]
GdSV(v) == GdSE([k |-> "sl", v |-> v], 0, -1, -1)
GdAV(n) == [k |-> "arr", n |-> n]
GdBase(st, b) == CASE b.k = "sl" -> st.sl[b.v] [] b.k = "arr" -> GdSl(b.n, 0, 3, 3, TRUE) [] b.k = "nil" -> GdNilSl
(* "For arrays or strings, the indices are in range if 0 <= low <= high <= max <= len(a), otherwise they are out of range.
    For slices, the upper index bound is the slice capacity cap(a) rather than the length."  The result shares the
    backing array, has length high - low and capacity max - low (cap(a) - low for the two-index form). *)
GdReslice(sl, lo, hi0, mx0) ==
  LET hi == CASE hi0 = -1 -> sl.len [] hi0 = -3 -> sl.cap [] OTHER -> hi0
      mx == CASE mx0 = -1 -> sl.cap [] mx0 = -2 -> sl.len [] OTHER -> mx0
      top == IF mx0 = -1 THEN hi ELSE mx IN                     \* the index that must not exceed cap
  IF ~sl.ck /\ (hi0 = -3 \/ top > sl.cap) THEN [r |-> "und", v |-> sl]
  ELSE IF top > sl.cap \/ hi > mx \/ lo > hi THEN [r |-> "panic", v |-> sl]
  ELSE [r |-> "ok", v |-> GdSl(sl.a, sl.off + lo, hi - lo, mx - lo, IF mx0 = -1 THEN sl.ck ELSE TRUE)]
GdEvalSE(st, se) == GdReslice(GdBase(st, se.b), se.lo, se.hi, se.mx)
GdElems(st, sl) == [j \in 1..sl.len |-> st.arrs[sl.a][sl.off + j]]
\* who can see backing array id: slice variables, the range statement in progress, pi
GdRoots(st, id) == {v \in {"s", "t", "u"} : st.sl[v].a = id} \cup (IF st.rs.a = id THEN {"rs"} ELSE {})
                   \cup (IF st.pi.k = "arr" /\ st.pi.n = id THEN {"pi"} ELSE {})
(* append(sl, vals...): "If the capacity of s is not large enough to fit the additional values, append allocates a new,
   sufficiently large underlying array that fits both the existing slice elements and the additional values.  Otherwise,
   append re-uses the underlying array."  With an unfixed capacity (~ck) beyond its lower bound both can happen; that is
   unobservable - and modelled as a fresh array - iff nothing but the variable being assigned (owner) sees the old array. *)
GdAppend(st, sl, vals, owner) ==
  LET n == Len(vals) IN
  IF n = 0 THEN [r |-> "ok", v |-> sl, st |-> st]
  ELSE IF sl.len + n <= sl.cap
  THEN LET old == st.arrs[sl.a]  at == sl.off + sl.len IN
       [r |-> "ok", v |-> [sl EXCEPT !.len = @ + n],
        st |-> [st EXCEPT !.arrs[sl.a] = [j \in 1..Len(old) |-> IF j > at /\ j <= at + n THEN vals[j - at] ELSE old[j]]]]
  ELSE IF sl.ck \/ GdRoots(st, sl.a) \subseteq owner
  THEN LET na == GdElems(st, sl) \o vals
           st2 == [st EXCEPT !.arrs = Append(@, na)] IN
       [r |-> "ok", v |-> GdSl(Len(st2.arrs), 0, Len(na), Len(na), FALSE), st |-> st2]
  ELSE [r |-> "und", v |-> sl, st |-> st]
\* copy(d, s): "copies min(len(src), len(dst)) elements ... source and destination may overlap"; i = the number copied
GdCopy(st, d, s) ==
  LET n == GdMin(d.len, s.len)
      vals == [j \in 1..n |-> st.arrs[s.a][s.off + j]] IN
  IF n = 0 THEN [st EXCEPT !.i = 0]
  ELSE LET old == st.arrs[d.a] IN
       [st EXCEPT !.i = n, !.arrs[d.a] = [j \in 1..Len(old) |-> IF j > d.off /\ j <= d.off + n THEN vals[j - d.off] ELSE old[j]]]

\* (deviation "replace") what refers to array / struct id now refers to a fresh copy of it, the variable's old storage
GdDetachArr(st, id) ==
  IF "replace" \notin st.alt THEN st ELSE
  LET new == Len(st.arrs) + 1
      mv(sl) == IF sl.a = id THEN [sl EXCEPT !.a = new] ELSE sl IN
  [st EXCEPT !.arrs = Append(@, st.arrs[id]), !.sl = [s |-> mv(st.sl.s), t |-> mv(st.sl.t), u |-> mv(st.sl.u)], !.rs = mv(st.rs),
             !.pi = IF st.pi.k = "arr" /\ st.pi.n = id THEN [st.pi EXCEPT !.n = new] ELSE st.pi]
GdDetachSt(st, id) ==
  IF "replace" \notin st.alt THEN st ELSE
  LET new == Len(st.sts) + 1 IN
  [st EXCEPT !.sts = Append(@, st.sts[id]), !.pt = IF st.pt = id THEN new ELSE st.pt,
             !.pi = IF st.pi.k \in {"sx", "sa"} /\ st.pi.n = id THEN [st.pi EXCEPT !.n = new] ELSE st.pi]

\* ---------------------------------------------------------------------------- maps
GdMGet(st, mid, k) == IF mid = 0 \/ st.maps[mid][k] = <<>> THEN 0 ELSE st.maps[mid][k][1]       \* a nil map reads like an empty one
GdMLen(st, mid) == IF mid = 0 THEN 0 ELSE Len(SelectSeq(st.maps[mid], LAMBDA c : c # <<>>))

\* ---------------------------------------------------------------------------- operations
RECURSIVE GdApply(_, _), GdRangeIter(_, _, _, _, _)
\* iteration k .. n-1 of a range statement: "copy": over the values snap (an array operand is copied when the second
\* iteration variable is present), "arr": over &a / a[:] (the variable itself is read), "sl": over the slice value st.rs
\* (evaluated once: its length and backing array are fixed, the elements are read when their iteration starts)
GdRangeIter(st, op, k, n, snap) ==
  IF k >= n \/ st.outcome # "ok" \/ st.und THEN st
  ELSE LET v == CASE op.over = "copy" /\ "rangelive" \in st.alt -> IF op.src = "a" THEN st.arrs[1][k + 1] ELSE st.sts[1].a[k + 1]
                  [] op.over = "copy" -> snap[k + 1]
                  [] op.over = "arr" -> st.arrs[1][k + 1]
                  [] op.over = "sl" -> st.arrs[st.rs.a][st.rs.off + k + 1]
           st1 == [st EXCEPT !.rk = k, !.rv = v]
           st2 == IF k = 0 THEN GdApply(st1, op.first) ELSE st1          \* the statement under `if k == 0`
           st3 == GdApply(st2, op.each) IN
       GdRangeIter(st3, op, k + 1, n, snap)

GdApply(st, op) ==
  IF st.outcome # "ok" \/ st.und THEN st ELSE
  CASE op.k = "nop" -> st
    \* ---- int, arrays (value semantics: assignment and parameter passing copy)
    [] op.k = "iset" -> [st EXCEPT !.i = op.v]
    [] op.k = "iadd" -> [st EXCEPT !.i = @ + op.v]
    [] op.k = "iget" -> [st EXCEPT !.i = GdRead(st, op.loc)]
    [] op.k = "acopy" -> [GdDetachArr(st, op.d) EXCEPT !.arrs[op.d] = st.arrs[op.s]]
    [] op.k = "aset" -> [st EXCEPT !.arrs[op.a][op.j] = op.v]
    [] op.k = "asetp" -> IF "palost" \in st.alt THEN st ELSE [st EXCEPT !.arrs[op.a][op.j] = op.v]      \* through a pointer to the array
    [] op.k = "amove" -> [st EXCEPT !.arrs[op.d][op.dj] = st.arrs[op.s][op.sj]]
    [] op.k = "alit" -> [GdDetachArr(st, op.a) EXCEPT !.arrs[op.a] = op.vals]
    [] op.k = "callarrval" -> [st EXCEPT !.i = st.arrs[op.a][1] + op.v]        \* the callee writes its own copy
    \* ---- pointers
    [] op.k = "piset" -> [st EXCEPT !.pi = op.loc]
    [] op.k = "pisetc" ->                                 \* the same, written in a function literal: the array / struct is a captured variable
         IF "cladr" \notin st.alt THEN [st EXCEPT !.pi = op.loc]
         ELSE IF op.loc.k = "arr" THEN [st EXCEPT !.arrs = Append(@, st.arrs[op.loc.n]), !.pi = GdLoc("arr", Len(st.arrs) + 1, op.loc.j)]
         ELSE [st EXCEPT !.sts = Append(@, st.sts[op.loc.n]), !.pi = GdLoc(op.loc.k, Len(st.sts) + 1, op.loc.j)]
    [] op.k = "pisl" -> LET sl == st.sl[op.v] IN
                        IF op.j >= sl.len THEN GdPanic(st, "index") ELSE [st EXCEPT !.pi = GdLoc("arr", sl.a, sl.off + op.j + 1)]
    [] op.k = "piptx" -> IF st.pt = 0 THEN GdPanic(st, "nilderef") ELSE [st EXCEPT !.pi = GdLoc("sx", st.pt, 0)]
    [] op.k = "pistore" -> IF st.pi.k = "nil" THEN GdPanic(st, "nilderef") ELSE GdWrite(st, st.pi, op.v)
    [] op.k = "piload" -> IF st.pi.k = "nil" THEN GdPanic(st, "nilderef") ELSE [st EXCEPT !.i = GdRead(st, st.pi) + 1]
    [] op.k = "piop" ->                                   \* *pi op= v: "x op= y" is "x = x op (y)" with x evaluated once - the pointee is read, then written
         IF st.pi.k = "nil" THEN GdPanic(st, "nilderef")
         ELSE LET cur == GdRead(st, st.pi) IN
              GdWrite(st, st.pi, CASE op.op = "+" -> cur + op.v [] op.op = "-" -> cur - op.v [] op.op = "*" -> cur * op.v)
    \* ---- structs (value semantics, the array field included)
    [] op.k = "scopy" -> [GdDetachSt(st, op.d) EXCEPT !.sts[op.d] = st.sts[op.s]]
    [] op.k = "sxset" -> [st EXCEPT !.sts[op.n].x = op.v]
    [] op.k = "sxadd" -> [st EXCEPT !.sts[op.n].x = @ + op.v]
    [] op.k = "saset" -> [st EXCEPT !.sts[op.n].a[op.j] = op.v]
    [] op.k = "samove" -> [st EXCEPT !.sts[op.d].a = st.sts[op.s].a]
    [] op.k = "callstval" -> [st EXCEPT !.i = st.sts[op.n].x + op.v]
    [] op.k = "ptset" -> [st EXCEPT !.pt = op.n]
    [] op.k = "ptnew" -> [st EXCEPT !.sts = Append(@, op.val), !.pt = Len(st.sts) + 1]
    [] op.k = "ptxset" -> IF st.pt = 0 THEN GdPanic(st, "nilderef") ELSE [st EXCEPT !.sts[st.pt].x = op.v]
    [] op.k = "ptaset" -> IF st.pt = 0 THEN GdPanic(st, "nilderef") ELSE [st EXCEPT !.sts[st.pt].a[op.j] = op.v]
    [] op.k = "ptload" -> IF st.pt = 0 THEN GdPanic(st, "nilderef") ELSE [GdDetachSt(st, op.d) EXCEPT !.sts[op.d] = st.sts[st.pt]]
    [] op.k = "ptstore" -> IF st.pt = 0 THEN GdPanic(st, "nilderef") ELSE [st EXCEPT !.sts[st.pt] = st.sts[op.s]]
    \* ---- slices
    [] op.k = "slcopy" -> [st EXCEPT !.sl[op.d] = st.sl[op.s]]
    [] op.k = "slnil" -> [st EXCEPT !.sl[op.d] = GdNilSl]
    [] op.k = "sllit" -> [st EXCEPT !.arrs = Append(@, op.vals), !.sl[op.d] = GdSl(Len(st.arrs) + 1, 0, Len(op.vals), Len(op.vals), TRUE)]
    [] op.k = "slmake" -> [st EXCEPT !.arrs = Append(@, [j \in 1..op.cap |-> 0]), !.sl[op.d] = GdSl(Len(st.arrs) + 1, 0, op.len, op.cap, TRUE)]
    [] op.k = "slice" -> LET r == GdEvalSE(st, op.src) IN
                         IF r.r = "und" THEN GdUnd(st) ELSE IF r.r = "panic" THEN GdPanic(st, "bounds") ELSE [st EXCEPT !.sl[op.d] = r.v]
    [] op.k = "slset" -> LET sl == st.sl[op.v] IN
                         IF op.j >= sl.len THEN GdPanic(st, "index") ELSE [st EXCEPT !.arrs[sl.a][sl.off + op.j + 1] = op.val]
    [] op.k = "slast" -> LET sl == st.sl[op.v] IN          \* x[len(x)-1] = val
                         IF sl.len = 0 THEN GdPanic(st, "index") ELSE [st EXCEPT !.arrs[sl.a][sl.off + sl.len] = op.val]
    [] op.k = "append" ->                                  \* d = append(src, vals...)
         LET r == GdEvalSE(st, op.src) IN
         IF r.r = "und" THEN GdUnd(st) ELSE IF r.r = "panic" THEN GdPanic(st, "bounds") ELSE
         LET vals == CASE op.vs.k = "c" -> op.vs.c [] op.vs.k = "vk" -> <<st.rv + st.rk>> [] op.vs.k = "sl" -> GdElems(st, st.sl[op.vs.v])
             ra == GdAppend(st, r.v, vals, IF op.src.b.k = "sl" /\ op.src.b.v = op.d THEN {op.d} ELSE {}) IN
         IF ra.r = "und" THEN GdUnd(st) ELSE [ra.st EXCEPT !.sl[op.d] = ra.v]
    [] op.k = "appdiscard" ->                              \* the callee appends to its parameter: the caller's variable keeps its length
         LET ra == GdAppend(st, st.sl[op.v], <<op.val>>, {op.v}) IN IF ra.r = "und" THEN GdUnd(st) ELSE ra.st
    [] op.k = "copy" ->
         LET rd == GdEvalSE(st, op.dst)  rs == GdEvalSE(st, op.src) IN
         IF rd.r = "und" \/ (rd.r = "ok" /\ rs.r = "und") THEN GdUnd(st)
         ELSE IF rd.r = "panic" \/ rs.r = "panic" THEN GdPanic(st, "bounds") ELSE GdCopy(st, rd.v, rs.v)
    \* ---- maps (reference values)
    [] op.k = "mcopy" -> [st EXCEPT !.mp[op.d] = st.mp[op.s]]
    [] op.k = "mnil" -> [st EXCEPT !.mp[op.d] = 0]
    [] op.k = "mlit" -> [st EXCEPT !.maps = Append(@, [j \in 1..3 |-> IF j = op.key THEN <<op.val>> ELSE <<>>]), !.mp[op.d] = Len(st.maps) + 1]
    [] op.k = "mmake" -> [st EXCEPT !.maps = Append(@, <<<<>>, <<>>, <<>>>>), !.mp[op.d] = Len(st.maps) + 1]
    [] op.k = "mput" -> LET mid == st.mp[op.v] IN IF mid = 0 THEN GdPanic(st, "nilmap") ELSE [st EXCEPT !.maps[mid][op.key] = <<op.val>>]
    [] op.k = "minc" -> LET mid == st.mp[op.v] IN IF mid = 0 THEN GdPanic(st, "nilmap") ELSE [st EXCEPT !.maps[mid][op.key] = <<GdMGet(st, mid, op.key) + 1>>]
    [] op.k = "mdel" -> LET mid == st.mp[op.v] IN IF mid = 0 THEN st ELSE [st EXCEPT !.maps[mid][op.key] = <<>>]
    [] op.k = "mread" -> [st EXCEPT !.i = GdMGet(st, st.mp.m, 3) + GdMLen(st, st.mp.n)]
    \* ---- closures
    [] op.k = "fset" -> [st EXCEPT !.f = op.body]
    [] op.k = "fsetcur" -> [st EXCEPT !.f = [k |-> "iset", v |-> st.i]]                        \* captures a parameter: today's value of i
    [] op.k = "fsetarr" -> [st EXCEPT !.f = [k |-> "alit", a |-> 1, vals |-> st.arrs[1]]]      \* captures an array parameter: today's copy of a
    [] op.k = "fwrap" -> [st EXCEPT !.f = [k |-> "twice", body |-> st.f]]
    [] op.k = "twice" -> GdApply(GdApply(st, op.body), op.body)
    [] op.k = "fcall" -> GdApply(st, st.f)
    \* ---- range
    [] op.k = "range" ->
         LET snap == CASE op.src = "a" -> st.arrs[1] [] op.src = "pa" -> st.sts[1].a [] OTHER -> <<>>
             rsl == IF op.over = "sl" THEN st.sl[op.src] ELSE GdNilSl
             n == CASE op.over = "copy" -> Len(snap) [] op.over = "arr" -> 3 [] op.over = "sl" -> rsl.len
             r == GdRangeIter([st EXCEPT !.rs = rsl], op, 0, n, snap) IN
         [r EXCEPT !.rs = GdNilSl, !.rk = 0, !.rv = 0]
    [] op.k = "iaddvk" -> [st EXCEPT !.i = @ + st.rv * (st.rk + 1)]
    [] op.k = "iaddv5" -> [st EXCEPT !.i = @ + st.rv + 5]

\* ---------------------------------------------------------------------------- the observable state: one printed line
GdB(b) == IF b THEN 1 ELSE 0
GdSlLine(st, v) == LET sl == st.sl[v] IN <<GdB(sl.a = 0), sl.len>> \o (IF sl.ck THEN <<sl.cap>> ELSE <<>>) \o GdElems(st, sl)
GdMLine(st, v) == LET mid == st.mp[v] IN <<GdB(mid = 0), GdMLen(st, mid), GdMGet(st, mid, 1), GdMGet(st, mid, 2), GdMGet(st, mid, 3)>>
GdStLine(s) == <<s.x, s.a[1], s.a[2]>>
GdLine(st) == <<st.i>> \o st.arrs[1] \o st.arrs[2] \o GdSlLine(st, "s") \o GdSlLine(st, "t") \o GdSlLine(st, "u")
              \o GdMLine(st, "m") \o GdMLine(st, "n") \o GdStLine(st.sts[1]) \o GdStLine(st.sts[2])
              \o (IF st.pi.k = "nil" THEN <<1>> ELSE <<0, GdRead(st, st.pi)>>)
              \o (IF st.pt = 0 THEN <<1>> ELSE <<0>> \o GdStLine(st.sts[st.pt]))
GdShow(st) == IF st.outcome # "ok" \/ st.und THEN st
              ELSE [st EXCEPT !.out = Append(@, GdLine(st)), !.capk = Append(@, <<GdB(st.sl.s.ck), GdB(st.sl.t.ck), GdB(st.sl.u.ck)>>)]

\* ---------------------------------------------------------------------------- the alphabet: Go text + meaning
GdO(go, sem) == [go |-> go, sem |-> sem]
GdBodyAcc == [k |-> "iaddvk"]
GdOps == <<
  \* int / arrays
  GdO("b = a", [k |-> "acopy", d |-> 2, s |-> 1]),
  GdO("a = b", [k |-> "acopy", d |-> 1, s |-> 2]),
  GdO("a[1] = 61", [k |-> "aset", a |-> 1, j |-> 2, v |-> 61]),
  GdO("b[0] = a[2]", [k |-> "amove", d |-> 2, dj |-> 1, s |-> 1, sj |-> 3]),
  GdO("a = [3]int{65, 66, 67}", [k |-> "alit", a |-> 1, vals |-> <<65, 66, 67>>]),
  GdO("i = a[1]", [k |-> "iget", loc |-> GdLoc("arr", 1, 2)]),
  GdO("i++", [k |-> "iadd", v |-> 1]),
  GdO("i = func(x [3]int) int { x[1] = 62; return x[0] + x[1] }(a)", [k |-> "callarrval", a |-> 1, v |-> 62]),
  GdO("func(x *[3]int) { x[1] = 63 }(&a)", [k |-> "asetp", a |-> 1, j |-> 2, v |-> 63]),
  \* pointers
  GdO("pi = &i", [k |-> "piset", loc |-> GdLoc("i", 0, 0)]),
  GdO("pi = &a[1]", [k |-> "piset", loc |-> GdLoc("arr", 1, 2)]),
  GdO("pi = &p.x", [k |-> "piset", loc |-> GdLoc("sx", 1, 0)]),
  GdO("pi = &q.a[1]", [k |-> "piset", loc |-> GdLoc("sa", 2, 2)]),
  GdO("pi = &s[0]", [k |-> "pisl", v |-> "s", j |-> 0]),
  GdO("pi = &pt.x", [k |-> "piptx"]),
  GdO("*pi = 64", [k |-> "pistore", v |-> 64]),
  GdO("i = *pi + 1", [k |-> "piload"]),
  \* assignment operations through the pointer (to a variable, an array / slice element, a struct field: wherever pi points)
  GdO("*pi += 5", [k |-> "piop", op |-> "+", v |-> 5]),
  GdO("*pi++", [k |-> "piop", op |-> "+", v |-> 1]),
  GdO("*pi -= 3", [k |-> "piop", op |-> "-", v |-> 3]),
  GdO("*pi *= 2", [k |-> "piop", op |-> "*", v |-> 2]),
  \* function literals that capture the pointer VARIABLE pi (they read it, assign to it, dereference it): in the enclosing
  \* function - the printed state, and the operations above - *pi is then an indirection of a captured variable
  GdO("func() { pi = &b[1] }()", [k |-> "pisetc", loc |-> GdLoc("arr", 2, 2)]),
  GdO("func() { pi = &i }()", [k |-> "piset", loc |-> GdLoc("i", 0, 0)]),
  GdO("func() { *pi = 57 }()", [k |-> "pistore", v |-> 57]),
  GdO("func() { i = *pi + 1 }()", [k |-> "piload"]),
  \* structs
  GdO("q = p", [k |-> "scopy", d |-> 2, s |-> 1]),
  GdO("p.x = 68", [k |-> "sxset", n |-> 1, v |-> 68]),
  GdO("q.a[0] = 69", [k |-> "saset", n |-> 2, j |-> 1, v |-> 69]),
  GdO("p.a = q.a", [k |-> "samove", d |-> 1, s |-> 2]),
  GdO("pt = &p", [k |-> "ptset", n |-> 1]),
  GdO("pt = &q", [k |-> "ptset", n |-> 2]),
  GdO("pt = &T{74, [2]int{75, 76}}", [k |-> "ptnew", val |-> [x |-> 74, a |-> <<75, 76>>]]),
  GdO("pt.x = 72", [k |-> "ptxset", v |-> 72]),
  GdO("pt.a[1] = 73", [k |-> "ptaset", j |-> 2, v |-> 73]),
  GdO("q = *pt", [k |-> "ptload", d |-> 2]),
  GdO("*pt = p", [k |-> "ptstore", s |-> 1]),
  GdO("i = func(x T) int { x.a[0] = 78; return x.x + x.a[0] }(p)", [k |-> "callstval", n |-> 1, v |-> 78]),
  GdO("func(x *T) { x.a[1] = 79 }(&q)", [k |-> "saset", n |-> 2, j |-> 2, v |-> 79]),
  \* slices
  GdO("t = s", [k |-> "slcopy", d |-> "t", s |-> "s"]),
  GdO("s = u", [k |-> "slcopy", d |-> "s", s |-> "u"]),
  GdO("u = t", [k |-> "slcopy", d |-> "u", s |-> "t"]),
  GdO("t = s[1:3]", [k |-> "slice", d |-> "t", src |-> GdSE([k |-> "sl", v |-> "s"], 1, 3, -1)]),
  GdO("t = s[:1]", [k |-> "slice", d |-> "t", src |-> GdSE([k |-> "sl", v |-> "s"], 0, 1, -1)]),
  GdO("u = s[1:]", [k |-> "slice", d |-> "u", src |-> GdSE([k |-> "sl", v |-> "s"], 1, -1, -1)]),
  GdO("t = u[1:2:2]", [k |-> "slice", d |-> "t", src |-> GdSE([k |-> "sl", v |-> "u"], 1, 2, 2)]),
  GdO("s = s[:len(s):len(s)]", [k |-> "slice", d |-> "s", src |-> GdSE([k |-> "sl", v |-> "s"], 0, -1, -2)]),
  GdO("s = s[:cap(s)]", [k |-> "slice", d |-> "s", src |-> GdSE([k |-> "sl", v |-> "s"], 0, -3, -1)]),
  GdO("t = a[:]", [k |-> "slice", d |-> "t", src |-> GdSE(GdAV(1), 0, -1, -1)]),
  GdO("u = a[1:2]", [k |-> "slice", d |-> "u", src |-> GdSE(GdAV(1), 1, 2, -1)]),
  GdO("t = b[0:1:2]", [k |-> "slice", d |-> "t", src |-> GdSE(GdAV(2), 0, 1, 2)]),
  GdO("s[0] = 80", [k |-> "slset", v |-> "s", j |-> 0, val |-> 80]),
  GdO("t[1] = 81", [k |-> "slset", v |-> "t", j |-> 1, val |-> 81]),
  GdO("u[2] = 82", [k |-> "slset", v |-> "u", j |-> 2, val |-> 82]),
  GdO("s = append(s, 83)", [k |-> "append", d |-> "s", src |-> GdSV("s"), vs |-> [k |-> "c", c |-> <<83>>]]),
  GdO("t = append(t, 84)", [k |-> "append", d |-> "t", src |-> GdSV("t"), vs |-> [k |-> "c", c |-> <<84>>]]),
  GdO("t = append(s, 85)", [k |-> "append", d |-> "t", src |-> GdSV("s"), vs |-> [k |-> "c", c |-> <<85>>]]),
  GdO("u = append(u[:1], 86)", [k |-> "append", d |-> "u", src |-> GdSE([k |-> "sl", v |-> "u"], 0, 1, -1), vs |-> [k |-> "c", c |-> <<86>>]]),
  GdO("s = append(s[:1:1], 87)", [k |-> "append", d |-> "s", src |-> GdSE([k |-> "sl", v |-> "s"], 0, 1, 1), vs |-> [k |-> "c", c |-> <<87>>]]),
  GdO("s = append(s, t...)", [k |-> "append", d |-> "s", src |-> GdSV("s"), vs |-> [k |-> "sl", v |-> "t"]]),
  GdO("s = append(s, s...)", [k |-> "append", d |-> "s", src |-> GdSV("s"), vs |-> [k |-> "sl", v |-> "s"]]),
  GdO("t = append(t, 91, 92)", [k |-> "append", d |-> "t", src |-> GdSV("t"), vs |-> [k |-> "c", c |-> <<91, 92>>]]),
  GdO("u = append([]int(nil), s...)", [k |-> "append", d |-> "u", src |-> GdSE([k |-> "nil"], 0, -1, -1), vs |-> [k |-> "sl", v |-> "s"]]),
  GdO("i = copy(s, u)", [k |-> "copy", dst |-> GdSV("s"), src |-> GdSV("u")]),
  GdO("i = copy(s[1:], s)", [k |-> "copy", dst |-> GdSE([k |-> "sl", v |-> "s"], 1, -1, -1), src |-> GdSV("s")]),
  GdO("i = copy(s, s[1:])", [k |-> "copy", dst |-> GdSV("s"), src |-> GdSE([k |-> "sl", v |-> "s"], 1, -1, -1)]),
  GdO("i = copy(t, a[:])", [k |-> "copy", dst |-> GdSV("t"), src |-> GdSE(GdAV(1), 0, -1, -1)]),
  GdO("s = nil", [k |-> "slnil", d |-> "s"]),
  GdO("t = []int{}", [k |-> "sllit", d |-> "t", vals |-> <<>>]),
  GdO("t = []int{94, 95}", [k |-> "sllit", d |-> "t", vals |-> <<94, 95>>]),
  GdO("t = make([]int, 1, 3)", [k |-> "slmake", d |-> "t", len |-> 1, cap |-> 3]),
  GdO("func(x []int) { x[0] = 88 }(s)", [k |-> "slset", v |-> "s", j |-> 0, val |-> 88]),
  GdO("func(x []int) { x = append(x, 89) }(s)", [k |-> "appdiscard", v |-> "s", val |-> 89]),
  \* maps
  GdO("n = m", [k |-> "mcopy", d |-> "n", s |-> "m"]),
  GdO("m = n", [k |-> "mcopy", d |-> "m", s |-> "n"]),
  GdO("m = map[int]int{2: 90}", [k |-> "mlit", d |-> "m", key |-> 2, val |-> 90]),
  GdO("n = make(map[int]int)", [k |-> "mmake", d |-> "n"]),
  GdO("m = nil", [k |-> "mnil", d |-> "m"]),
  GdO("m[2] = 91", [k |-> "mput", v |-> "m", key |-> 2, val |-> 91]),
  GdO("n[1] = 92", [k |-> "mput", v |-> "n", key |-> 1, val |-> 92]),
  GdO("m[1]++", [k |-> "minc", v |-> "m", key |-> 1]),
  GdO("delete(m, 1)", [k |-> "mdel", v |-> "m", key |-> 1]),
  GdO("delete(n, 1)", [k |-> "mdel", v |-> "n", key |-> 1]),
  GdO("i = m[3] + len(n)", [k |-> "mread"]),
  GdO("func(x map[int]int) { x[3] = 93 }(m)", [k |-> "mput", v |-> "m", key |-> 3, val |-> 93]),
  GdO("func(x map[int]int) { x = map[int]int{1: 99} }(n)", GdNop),
  \* closures
  GdO("f = func() { i += 100 }", [k |-> "fset", body |-> [k |-> "iadd", v |-> 100]]),
  GdO("f = func() { a[0] = 94 }", [k |-> "fset", body |-> [k |-> "aset", a |-> 1, j |-> 1, v |-> 94]]),
  GdO("f = func() { s = append(s, 95) }", [k |-> "fset", body |-> [k |-> "append", d |-> "s", src |-> GdSV("s"), vs |-> [k |-> "c", c |-> <<95>>]]]),
  GdO("f = func() { p.x++ }", [k |-> "fset", body |-> [k |-> "sxadd", n |-> 1, v |-> 1]]),
  GdO("f = func() { _ = pi }", [k |-> "fset", body |-> GdNop]),
  GdO("f = func() { pi = &q.x }", [k |-> "fset", body |-> [k |-> "pisetc", loc |-> GdLoc("sx", 2, 0)]]),
  GdO("f = func(v int) func() { return func() { i = v } }(i)", [k |-> "fsetcur"]),
  GdO("f = func(v [3]int) func() { return func() { a = v } }(a)", [k |-> "fsetarr"]),
  GdO("{ g := f; f = func() { g(); g() } }", [k |-> "fwrap"]),
  GdO("f()", [k |-> "fcall"]),
  \* range
  GdO("for k, v := range a { if k == 0 { a[2] = 96 }; i += v * (k + 1) }",
    [k |-> "range", over |-> "copy", src |-> "a", first |-> [k |-> "aset", a |-> 1, j |-> 3, v |-> 96], each |-> GdBodyAcc]),
  GdO("for k, v := range &a { if k == 0 { a[2] = 97 }; i += v * (k + 1) }",
    [k |-> "range", over |-> "arr", src |-> "a", first |-> [k |-> "aset", a |-> 1, j |-> 3, v |-> 97], each |-> GdBodyAcc]),
  GdO("for k, v := range a[:] { if k == 0 { a[2] = 99 }; i += v * (k + 1) }",
    [k |-> "range", over |-> "arr", src |-> "a", first |-> [k |-> "aset", a |-> 1, j |-> 3, v |-> 99], each |-> GdBodyAcc]),
  GdO("for k, v := range p.a { if k == 0 { p.a[1] = 89 }; i += v * (k + 1) }",
    [k |-> "range", over |-> "copy", src |-> "pa", first |-> [k |-> "saset", n |-> 1, j |-> 2, v |-> 89], each |-> GdBodyAcc]),
  GdO("for k, v := range s { if k == 0 { s[len(s)-1] = 98 }; i += v * (k + 1) }",
    [k |-> "range", over |-> "sl", src |-> "s", first |-> [k |-> "slast", v |-> "s", val |-> 98], each |-> GdBodyAcc]),
  GdO("for k, v := range s { s = append(s, v+k) }",
    [k |-> "range", over |-> "sl", src |-> "s", first |-> GdNop, each |-> [k |-> "append", d |-> "s", src |-> GdSV("s"), vs |-> [k |-> "vk"]]]),
  GdO("for k, v := range s { if k == 0 { s = s[:1] }; i += v * (k + 1) }",
    [k |-> "range", over |-> "sl", src |-> "s", first |-> [k |-> "slice", d |-> "s", src |-> GdSE([k |-> "sl", v |-> "s"], 0, 1, -1)], each |-> GdBodyAcc]),
  GdO("for _, v := range u { v += 5; i += v }",
    [k |-> "range", over |-> "sl", src |-> "u", first |-> GdNop, each |-> [k |-> "iaddv5"]])
>>
GdN == Len(GdOps)
\* the class of an operation (for signatures and statistics): the kind of its meaning
GdKind(j) == GdOps[j].sem.k

\* ---------------------------------------------------------------------------- a whole program: operation numbers
RECURSIVE GdRunFrom(_, _, _)
GdRunFrom(st, prog, j) == IF j > Len(prog) THEN st ELSE GdRunFrom(GdShow(GdApply(st, GdOps[prog[j]].sem)), prog, j + 1)
GdRun(prog) == GdRunFrom(GdShow(GdInit), prog, 1)
GdRunAlt(prog, alt) == GdRunFrom(GdShow([GdInit EXCEPT !.alt = alt]), prog, 1)

\* the text a panic message of class cls must start with (the operand values Go appends are not judged)
GdMsgPrefix(cls) == CASE cls = "index" -> SubSeq(MgtIdxPre, 1, Len(MgtIdxPre) - 2)
                      [] cls = "bounds" -> SubSeq(MgtSlicePre, 1, Len(MgtSlicePre) - 2)
                      [] cls = "nilmap" -> MgtNilMap
                      [] cls = "nilderef" -> MgtNilDeref
                      [] OTHER -> <<>>
=============================================================================

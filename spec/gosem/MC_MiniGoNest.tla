---------------------------- MODULE MC_MiniGoNest ----------------------------
(* Runs the reference interpreter on every program of MiniGoNest.tla with at most NestMaxDepth nested
   statements - one behaviour per program: state 1 = program chosen, state 2 = it has run - and
   exports each with its observable as a case (a line <<"CASE", json>> of TLC's output, read by
   checks/c01.py; the workers share the programs).  spec = the description of the program, nest = what
   the judge's signature names (NestTag, MiniGoNest.tla).
   InDomain: every program ends by returning from main (none of them can panic, none leaves a stray
   break / continue: the space only has a continue where a loop is around it).
   EndsWith99: the statement after the nest always runs - the last line printed is 99. *)
EXTENDS MiniGoNest, MiniGoNestCfg, SequencesExt, TLC, Json
VARIABLES p, oc        \* oc = <<outcome, first number of the last line printed>>
Specs == SetToSeq(NestSpecs(NestMaxDepth, NestFullDepth, NestSeed))
Init == p \in 1..Len(Specs) /\ oc = <<"notrun", 99>>
Emit(id, s, prog, r) ==
  PrintT(<<"CASE", ToJson([id |-> id, fam |-> "minigo", shape |-> "nest", spec |-> s, nest |-> NestTag(s), prog |-> prog, exp |-> r])>>)
RunOne(id, s, prog) ==
  LET r == Run(prog) IN
  IF Emit(id, s, prog, r) THEN <<r.outcome, IF r.out = <<>> THEN -1 ELSE r.out[Len(r.out)][1].n>> ELSE <<"export-failed", -1>>
Next == oc[1] = "notrun" /\ oc' = RunOne(p, Specs[p], NestProg(Specs[p])) /\ p' = p
InDomain == oc[1] \in {"notrun", "ok"}
EndsWith99 == oc[2] = 99
=============================================================================

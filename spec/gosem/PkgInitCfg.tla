----------------------------- MODULE PkgInitCfg -----------------------------
(* Bounds of the multi-package program space; rewritten per run by checks/c01.py (a module without
   CONSTANTS: TLC evaluates its definitions, and MC_PkgInit's, once).
     PkgN        number of packages, main included
     PkgSamples  decorations (variables, init functions, what they read and write) drawn per import graph
     PkgSeed     seed of the draw
     PkgCycStep  one import graph with a cycle out of PkgCycStep is exported (which ones depends on PkgSeed) *)
PkgN == 4
PkgSamples == 2
PkgSeed == 1
PkgCycStep == 3
=============================================================================

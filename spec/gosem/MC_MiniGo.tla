----------------------------- MODULE MC_MiniGo -----------------------------
(* Runs every program of the batch (module MiniGoProgs, generated per run from the seed by
   checks/c01.py) to completion with the reference interpreter and exports its observable:
   printed lines, final outcome, panic message.  One behaviour per program (the interpreter is
   deterministic): state 1 = the program was chosen, state 2 = it has run; the invariant checks
   that every program of the batch is inside the interpreter's domain (it ends by falling off
   main or by a run-time panic, never by a stray break / goto / return). *)
EXTENDS MiniGo, MiniGoProgs, TLC, Json
VARIABLES p, res
Init == p \in 1..Len(Progs) /\ res = [out |-> <<>>, outcome |-> "notrun", msg |-> <<>>]
Next == res.outcome = "notrun" /\ res' = Run(Progs[p]) /\ p' = p
InDomain == res.outcome \in {"notrun", "ok", "panic"}
Export == ndJsonSerialize("cases.ndjson",
            [i \in 1..Len(Progs) |-> LET r == Run(Progs[i]) IN
               [id |-> Progs[i].id, out |-> r.out, outcome |-> r.outcome, msg |-> r.msg]])
=============================================================================

----------------------------- MODULE MC_MiniGo -----------------------------
(* Runs every program of the batch (module MiniGoProgs, generated per run from the seed by
   checks/c01.py) to completion with the reference interpreter and exports its observable:
   printed lines, final outcome, panic message.  One behaviour per program (the interpreter is
   deterministic): state 1 = the program was chosen, state 2 = it has run; the invariant checks
   that every program of the batch is inside the interpreter's domain (it ends by falling off
   main or by a run-time panic, never by a stray break / goto / return). *)
EXTENDS MiniGo, MiniGoProgs, TLC, Json
VARIABLES p, res
Init == p \in 1..Len(Progs) /\ res = [out |-> <<>>, outcome |-> "notrun", msg |-> <<>>]
Next == res.outcome = "notrun" /\ res' = Run(Progs[p]) /\ p' = p
InDomain == res.outcome \in {"notrun", "ok", "panic"}
\* alt: the observable of the variant of the program given as altbody (the body with the labels of its break /
\* continue statements erased; <<>> = the program has no such variant), computed by the same interpreter: lets the
\* judge name the root cause "the label is ignored"
NoAlt == [out |-> <<>>, outcome |-> "none", msg |-> <<>>]
ExportOne(pr, r) == [id |-> pr.id, out |-> r.out, outcome |-> r.outcome, msg |-> r.msg,
                     alt |-> IF pr.altbody = <<>> THEN NoAlt ELSE Run([pr EXCEPT !.body = pr.altbody])]
Export == ndJsonSerialize("cases.ndjson", [i \in 1..Len(Progs) |-> ExportOne(Progs[i], Run(Progs[i]))])
=============================================================================

---------------------------- MODULE MiniGoProgs ----------------------------
EXTENDS Integers
(* Batch of programs interpreted by MiniGo.tla.  THIS FILE IS A SAMPLE: every run of the C01 check
   generates its own batch (seeded generator of shapes in checks/c01.py) and writes it over this
   module in its staging directory; the same records, as JSON, go to the Go driver. *)
Progs == <<
  [id |-> 1, nv |-> 1, funcs |-> <<>>, altbody |-> <<>>, body |-> <<
     [s |-> "for", label |-> "", v |-> 1, init |-> [e |-> "c", n |-> 0],
      cond |-> [e |-> "cmp", op |-> "<", a |-> [e |-> "v", v |-> 1], b |-> [e |-> "c", n |-> 3]],
      post |-> [s |-> "set", lv |-> [l |-> "v", v |-> 1], e |-> [e |-> "bin", op |-> "+", a |-> [e |-> "v", v |-> 1], b |-> [e |-> "c", n |-> 1]]],
      body |-> <<[s |-> "print", es |-> <<[k |-> "i", e |-> [e |-> "v", v |-> 1]]>>]>>]>>]
>>
=============================================================================

------------------------------ MODULE MiniGoFlow ------------------------------
(* C01 part 4b.  The space of defer / panic / recover programs, enumerated by TLC.
   A program is a tree: the body of a function is a sequence of nodes
       X        println(id); panic(id)                      (only as the last node of a body)
       R        r := recover(); println(id, -1) when r is nil, println(id, r.(int)) otherwise
       C(body)  r := f(); println(id, r)  where f is a function with that body
       D(body)  defer f()
   id = the node's number in pre-order.  Every function prints its node's id on entry and returns
   100 + id (a function that ends with X has no return).  main calls the root function (id 0) and
   then prints 9999.  So the output shows the order in which everything ran, which calls returned
   normally and with what value, and every value obtained from recover().
   MgfAll(n) = all bodies with 1..n nodes; MgfProg(body) = the MiniGo program (MiniGo.tla is the
   reference that says what it prints); a program is kept iff every node of it is executed (the
   ids 1..n all appear in the output): the others only differ from a smaller program by dead code. *)
EXTENDS MiniGo

MgfX == [t |-> "X", b |-> <<>>]
MgfR == [t |-> "R", b |-> <<>>]
\* tab[k + 1] = the sequence of all bodies with exactly k nodes
MgfCross(t, A, B) == [i \in 1..(Len(A) * Len(B)) |-> <<[t |-> t, b |-> A[((i - 1) \div Len(B)) + 1]]>> \o B[((i - 1) % Len(B)) + 1]] \o <<>>
MgfLead(x, B) == [i \in 1..Len(B) |-> <<x>> \o B[i]] \o <<>>
RECURSIVE MgfSplit(_, _, _)
MgfSplit(tab, n, k) == IF k > n - 1 THEN <<>>
                       ELSE MgfCross("C", tab[k + 1], tab[n - k]) \o MgfCross("D", tab[k + 1], tab[n - k]) \o MgfSplit(tab, n, k + 1)
MgfLevel(tab, n) == (IF n = 1 THEN <<<<MgfX>>>> ELSE <<>>) \o MgfLead(MgfR, tab[n]) \o MgfSplit(tab, n, 0)
MgfGrow(tab, n) == Append(tab, MgfLevel(tab, n))
RECURSIVE MgfTab(_)
MgfTab(n) == IF n = 0 THEN <<<<<<>>>>>> ELSE MgfGrow(MgfTab(n - 1), n)
RECURSIVE MgfConcat(_, _)
MgfConcat(tab, k) == IF k > Len(tab) THEN <<>> ELSE tab[k] \o MgfConcat(tab, k + 1)
MgfAll(n) == MgfConcat(MgfTab(n), 2)

(* ---- tree -> MiniGo program *)
MgfC(n) == [e |-> "c", n |-> n]
MgfV(v) == [e |-> "v", v |-> v]
MgfPI(es) == [s |-> "print", es |-> [j \in 1..Len(es) |-> [k |-> "i", e |-> es[j]]]]
MgfEndsX(b) == b # <<>> /\ b[Len(b)].t = "X"
\* the body of the function of node id, from the statements of its nodes
MgfFunc(id, ss, endsX) == <<MgfPI(<<MgfC(id)>>)>> \o ss \o (IF endsX THEN <<>> ELSE <<[s |-> "ret", e |-> MgfC(100 + id)]>>)
RECURSIVE MgfTr(_, _, _)
\* acc = [ss |-> statements so far, n |-> next id, fs |-> top-level functions so far]
MgfTrNode(x, acc) ==
  LET id == acc.n IN
  CASE x.t = "X" -> [acc EXCEPT !.n = id + 1, !.ss = @ \o <<MgfPI(<<MgfC(id)>>), [s |-> "panic", e |-> MgfC(id)]>>]
    [] x.t = "R" -> [acc EXCEPT !.n = id + 1, !.ss = @ \o <<
                        [s |-> "decl", v |-> id, e |-> [e |-> "recover"]],
                        [s |-> "if", c |-> [e |-> "isnil", a |-> MgfV(id)],
                         a |-> <<MgfPI(<<MgfC(id), MgfC(-1)>>)>>,
                         b |-> <<MgfPI(<<MgfC(id), [e |-> "assert", ty |-> "int", a |-> MgfV(id)]>>)>>]>>]
    [] OTHER ->
         LET sub == MgfTr(x.b, 1, [ss |-> <<>>, n |-> id + 1, fs |-> acc.fs])
             fs2 == Append(sub.fs, MgfFunc(id, sub.ss, MgfEndsX(x.b)))
             f == [e |-> "fn", i |-> Len(fs2)] IN
         [ss |-> acc.ss \o (IF x.t = "C" THEN <<[s |-> "decl", v |-> id, e |-> [e |-> "call", f |-> f]], MgfPI(<<MgfC(id), MgfV(id)>>)>>
                            ELSE <<[s |-> "defer", f |-> f]>>),
          n |-> sub.n, fs |-> fs2]
MgfTr(b, i, acc) == IF i > Len(b) THEN acc ELSE MgfTr(b, i + 1, MgfTrNode(b[i], acc))
MgfProgOf(t, endsX) ==
  LET fs == Append(t.fs, MgfFunc(0, t.ss, endsX)) IN
  [nv |-> t.n, funcs |-> fs,
   body |-> <<[s |-> "decl", v |-> t.n, e |-> [e |-> "call", f |-> [e |-> "fn", i |-> Len(fs)]]], MgfPI(<<MgfC(0), MgfV(t.n)>>), MgfPI(<<MgfC(9999)>>)>>]
MgfProg(body) == MgfProgOf(MgfTr(body, 1, [ss |-> <<>>, n |-> 1, fs |-> <<>>]), MgfEndsX(body))
\* every node ran: each id 1..n-1 starts a printed line (n = prog.nv = number of nodes + 1)
MgfAllRan(prog, out) == \A id \in 1..(prog.nv - 1) : \E l \in 1..Len(out) : out[l][1].n = id
=============================================================================

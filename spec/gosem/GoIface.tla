------------------------------- MODULE GoIface -------------------------------
(* C01 part 10.  The DYNAMIC-TYPE semantics of Go values: a REFERENCE model of interface values and an alphabet of
   operations (Go specification: "Interface types", "Assignability", "Constants" - the default type of an untyped
   constant, "Conversions", "Comparison operators" - "Interface values are comparable.  Two interface values are equal
   if they have identical dynamic types and equal dynamic values or if both have value nil"; "A comparison of two
   interface values with identical dynamic types causes a run-time panic if that type is not comparable"; "Type
   assertions"; "Type switches"; "Expression switches" - "If a case expression is untyped, it is first implicitly
   converted to the type of the switch expression").

   Every program has the same declarations (giPreamble in the driver, GiInit here):
       type I int;  type S string;  type T struct{ A int }
       var e interface{};  var g interface{} = 1
       i := 2;  n := I(3);  s := `a`;  z := S(`b`);  b := true;  var p *int;  var l []int;  t := T{4};  k := 0;  ok := false
   followed by a straight-line sequence of operations of the alphabet GiOps; the observable state (GiLine) is
   printed before the first and after every operation: the interface variables e and g through a type switch with one
   clause per dynamic type (written by the driver, no fmt), then the typed variables.

   A value is a pair [t, v]: t = its (dynamic) type - "nil" (the nil interface value: no type), "int", "string", "bool",
   "I", "S", "*int", "[]int", "T", "float64", "int32" - and v = a tuple of integers: <<n>> for the integer kinds, for
   float64 (only integral values occur) and for T (the field A), <<0 / 1>> for bool, the bytes for string and S,
   <<0>> (nil) or <<1>> (&i) for *int, <<is-nil, len>> for []int (elements are never observed).  A variable of a
   static type always holds a value of that type (GiTyped, checked by MC_GoIface); e, g and the variable bound by a
   type switch hold any value.  A typed nil pointer in an interface is [t |-> "*int", v |-> <<0>>], which is not the nil
   interface value.  A conversion between a named type and its underlying type keeps v and changes t.
   Run-time panics end the program; only their class is part of the observable:
     "ifaceconv"     a failed type assertion x.(T)                   ("interface conversion: ...")
     "uncomparable"  == / != / a switch case on two interface values of dynamic type []int   ("runtime error: comparing uncomparable type ...")
     "nilderef"      *p = ... through a nil pointer *)
EXTENDS Integers, Sequences, MiniGoText

GiV(t, v) == [t |-> t, v |-> v]
GiNil == GiV("nil", <<>>)
GiTypes == {"int", "string", "bool", "I", "S", "*int", "[]int", "T", "float64", "int32"}
GiZero(ty) == CASE ty \in {"int", "I", "bool", "T", "float64", "int32", "*int"} -> GiV(ty, <<0>>)
                [] ty \in {"string", "S"} -> GiV(ty, <<>>)
                [] ty = "[]int" -> GiV(ty, <<1, 0>>)
                [] ty = "iface" -> GiNil
GiStatic == [i |-> "int", n |-> "I", s |-> "string", z |-> "S", b |-> "bool", p |-> "*int", l |-> "[]int", t |-> "T", k |-> "int", ok |-> "bool"]

GiInit ==
  [vars |-> [e |-> GiNil, g |-> GiV("int", <<1>>), v |-> GiNil,
             i |-> GiV("int", <<2>>), n |-> GiV("I", <<3>>), s |-> GiV("string", <<97>>), z |-> GiV("S", <<98>>),
             b |-> GiV("bool", <<1>>), p |-> GiV("*int", <<0>>), l |-> GiV("[]int", <<1, 0>>), t |-> GiV("T", <<4>>),
             k |-> GiV("int", <<0>>), ok |-> GiV("bool", <<0>>)],
   out |-> <<>>, outcome |-> "ok", msg |-> ""]
GiPanic(st, cls) == [st EXCEPT !.outcome = "panic", !.msg = cls]

\* ---------------------------------------------------------------------------- expressions
GiVar(n) == [x |-> "var", n |-> n]
GiLit(t, v) == [x |-> "lit", val |-> GiV(t, v)]
GiInt(n) == GiLit("int", <<n>>)
GiStr(bs) == GiLit("string", bs)
GiConv(t, a) == [x |-> "conv", t |-> t, a |-> a]          \* T(a) between a named type and its underlying type
GiAdd(a, b) == [x |-> "add", a |-> a, b |-> b]            \* a + b: integers / strings of one type (the type of a)
GiMul(a, b) == [x |-> "mul", a |-> a, b |-> b]
GiNot(a) == [x |-> "not", a |-> a]
GiEqI(a, b) == [x |-> "eqint", a |-> a, b |-> b]          \* a == b on operands of one non-interface integer type: a bool
GiGtI(a, b) == [x |-> "gtint", a |-> a, b |-> b]
GiFld(a) == [x |-> "fld", a |-> a]                        \* a.A
GiB(c) == IF c THEN 1 ELSE 0
RECURSIVE GiEval(_, _)
GiEval(st, ex) ==
  CASE ex.x = "var" -> st.vars[ex.n]
    [] ex.x = "lit" -> ex.val
    [] ex.x = "conv" -> GiV(ex.t, GiEval(st, ex.a).v)
    [] ex.x = "add" -> LET a == GiEval(st, ex.a)  b == GiEval(st, ex.b) IN
                       IF a.t \in {"string", "S"} THEN GiV(a.t, a.v \o b.v) ELSE GiV(a.t, <<a.v[1] + b.v[1]>>)
    [] ex.x = "mul" -> LET a == GiEval(st, ex.a)  b == GiEval(st, ex.b) IN GiV(a.t, <<a.v[1] * b.v[1]>>)
    [] ex.x = "not" -> GiV("bool", <<1 - GiEval(st, ex.a).v[1]>>)
    [] ex.x = "eqint" -> GiV("bool", <<GiB(GiEval(st, ex.a).v[1] = GiEval(st, ex.b).v[1])>>)
    [] ex.x = "gtint" -> GiV("bool", <<GiB(GiEval(st, ex.a).v[1] > GiEval(st, ex.b).v[1])>>)
    [] ex.x = "fld" -> GiV("int", GiEval(st, ex.a).v)

(* x == y on interface values (an operand of a non-interface type is first converted to the interface type: its dynamic
   type is its static type): "t" / "f" / "panic" *)
GiEq(a, b) == IF a.t # b.t THEN "f" ELSE IF a.t = "[]int" THEN "panic" ELSE IF a.v = b.v THEN "t" ELSE "f"
\* does a value match the type ty of a type assertion / a type switch case ("iface" = interface{}: every non-nil value; "nil": case nil)
GiMatch(val, ty) == IF ty = "iface" THEN val.t # "nil" ELSE val.t = ty

\* ---------------------------------------------------------------------------- statements
GiSet(d, ex) == [k |-> "set", d |-> d, e |-> ex]
GiSet2(d1, e1, d2, e2) == [k |-> "set2", d1 |-> d1, e1 |-> e1, d2 |-> d2, e2 |-> e2]      \* d1, d2 = e1, e2
GiCmp(neg, a, b) == [k |-> "cmp", neg |-> neg, a |-> a, b |-> b]                            \* ok = a == b  /  ok = a != b
GiAssert(d, src, ty, conv) == [k |-> "assert", d |-> d, src |-> src, ty |-> ty, conv |-> conv, cok |-> FALSE]   \* d = conv(src.(ty)); conv = "" or a type / "fld"
GiAssertOk(d, src, ty) == [k |-> "assert", d |-> d, src |-> src, ty |-> ty, conv |-> "", cok |-> TRUE]         \* d, ok = src.(ty); d = "_": blank
GiCl(tys, body) == [def |-> FALSE, ms |-> tys, body |-> body]        \* a clause of a type switch (types) / an expression switch (expressions)
GiDef(body) == [def |-> TRUE, ms |-> <<>>, body |-> body]
GiTSw(src, cls) == [k |-> "tswitch", src |-> src, cls |-> cls]       \* switch v := src.(type) { ... }: the bodies read the variable "v"
GiVSw(tag, cls) == [k |-> "vswitch", tag |-> tag, cls |-> cls]       \* switch tag { ... }
GiStore(n) == [k |-> "store", v |-> n]                               \* *p = n

\* the first non-default clause (in source order) one of whose types matches; else the default clause; else 0
GiTClause(val, cls) ==
  LET hits == {c \in 1..Len(cls) : ~cls[c].def /\ \E m \in 1..Len(cls[c].ms) : GiMatch(val, cls[c].ms[m])}
      defs == {c \in 1..Len(cls) : cls[c].def} IN
  IF hits # {} THEN CHOOSE c \in hits : \A o \in hits : c <= o
  ELSE IF defs # {} THEN CHOOSE c \in defs : TRUE ELSE 0
(* the case expressions of an expression switch are evaluated "left-to-right and top-to-bottom; the first one that equals
   the switch expression triggers execution of the statements of the associated case; the other cases are skipped":
   the result is the clause number, 0 (no case is equal: the default clause if there is one) or -1 (a comparison panics) *)
RECURSIVE GiVFind(_, _, _, _, _)
GiVFind(st, tag, cls, c, m) ==
  IF c > Len(cls) THEN 0
  ELSE IF cls[c].def \/ m > Len(cls[c].ms) THEN GiVFind(st, tag, cls, c + 1, 1)
  ELSE LET r == GiEq(tag, GiEval(st, cls[c].ms[m])) IN
       IF r = "panic" THEN -1 ELSE IF r = "t" THEN c ELSE GiVFind(st, tag, cls, c, m + 1)

RECURSIVE GiApply(_, _), GiBlock(_, _, _)
GiBlock(st, body, j) == IF j > Len(body) \/ st.outcome # "ok" THEN st ELSE GiBlock(GiApply(st, body[j]), body, j + 1)
GiApply(st, op) ==
  IF st.outcome # "ok" THEN st ELSE
  CASE op.k = "nop" -> st
    [] op.k = "set" -> [st EXCEPT !.vars[op.d] = GiEval(st, op.e)]
    [] op.k = "set2" -> [st EXCEPT !.vars[op.d1] = GiEval(st, op.e1), !.vars[op.d2] = GiEval(st, op.e2)]     \* both operands are evaluated first
    [] op.k = "cmp" -> LET r == GiEq(GiEval(st, op.a), GiEval(st, op.b)) IN
                       IF r = "panic" THEN GiPanic(st, "uncomparable")
                       ELSE [st EXCEPT !.vars.ok = GiV("bool", <<GiB((r = "t") # op.neg)>>)]
    [] op.k = "assert" ->
         LET val == st.vars[op.src]
             hit == GiMatch(val, op.ty)
             res == IF hit THEN val ELSE GiZero(op.ty)
             cv == CASE op.conv = "" -> res [] op.conv = "fld" -> GiV("int", res.v) [] OTHER -> GiV(op.conv, res.v)
             st1 == IF op.d = "_" THEN st ELSE [st EXCEPT !.vars[op.d] = cv] IN
         IF op.cok THEN [st1 EXCEPT !.vars.ok = GiV("bool", <<GiB(hit)>>)]
         ELSE IF hit THEN st1 ELSE GiPanic(st, "ifaceconv")
    [] op.k = "tswitch" ->
         LET val == st.vars[op.src]
             c == GiTClause(val, op.cls) IN
         IF c = 0 THEN st ELSE [GiBlock([st EXCEPT !.vars.v = val], op.cls[c].body, 1) EXCEPT !.vars.v = GiNil]
    [] op.k = "vswitch" ->
         LET c == GiVFind(st, GiEval(st, op.tag), op.cls, 1, 1)
             defs == {d \in 1..Len(op.cls) : op.cls[d].def} IN
         IF c = -1 THEN GiPanic(st, "uncomparable")
         ELSE IF c > 0 THEN GiBlock(st, op.cls[c].body, 1)
         ELSE IF defs # {} THEN GiBlock(st, op.cls[CHOOSE d \in defs : TRUE].body, 1) ELSE st
    [] op.k = "store" -> IF st.vars.p.v = <<0>> THEN GiPanic(st, "nilderef") ELSE [st EXCEPT !.vars.i = GiV("int", <<op.v>>)]

\* ---------------------------------------------------------------------------- the observable state: one printed line
\* an interface value, as the driver's type switch prints it: a number for the dynamic type, then the value
GiIfLine(st, val) ==
  CASE val.t = "nil" -> <<0>>
    [] val.t = "int" -> <<1>> \o val.v
    [] val.t = "string" -> <<2, Len(val.v)>> \o val.v
    [] val.t = "bool" -> <<3>> \o val.v
    [] val.t = "I" -> <<4>> \o val.v
    [] val.t = "S" -> <<5, Len(val.v)>> \o val.v
    [] val.t = "*int" -> IF val.v = <<0>> THEN <<6, 1>> ELSE <<6, 0>> \o st.vars.i.v
    [] val.t = "[]int" -> <<7>> \o val.v
    [] val.t = "T" -> <<8>> \o val.v
    [] val.t = "float64" -> <<9>> \o val.v
    [] val.t = "int32" -> <<10>> \o val.v
GiLine(st) == LET w == st.vars IN
  GiIfLine(st, w.e) \o GiIfLine(st, w.g) \o w.i.v \o w.n.v \o <<Len(w.s.v)>> \o w.s.v \o <<Len(w.z.v)>> \o w.z.v \o w.b.v
  \o (IF w.p.v = <<0>> THEN <<1>> ELSE <<0>> \o w.i.v) \o w.l.v \o w.t.v \o w.k.v \o w.ok.v
GiShow(st) == IF st.outcome # "ok" THEN st ELSE [st EXCEPT !.out = Append(@, GiLine(st))]

\* ---------------------------------------------------------------------------- the alphabet: Go text + meaning
GiO(go, sem) == [go |-> go, sem |-> sem]
GiE == GiVar("e")
GiG == GiVar("g")
GiBV == GiVar("v")                   \* the variable bound by a type switch
GiK(n) == GiSet("k", GiInt(n))
GiNilP == GiLit("*int", <<0>>)
GiAddrI == GiLit("*int", <<1>>)
GiOps == <<
  \* ---- assignment to an interface variable: the dynamic type is the static type of the operand
  GiO("e = nil", GiSet("e", GiLit("nil", <<>>))),
  GiO("e = i", GiSet("e", GiVar("i"))),
  GiO("e = n", GiSet("e", GiVar("n"))),
  GiO("e = s", GiSet("e", GiVar("s"))),
  GiO("e = z", GiSet("e", GiVar("z"))),
  GiO("e = b", GiSet("e", GiVar("b"))),
  GiO("e = p", GiSet("e", GiVar("p"))),
  GiO("e = l", GiSet("e", GiVar("l"))),
  GiO("e = t", GiSet("e", GiVar("t"))),
  GiO("e = g", GiSet("e", GiG)),
  GiO("g = e", GiSet("g", GiE)),
  GiO("e, g = g, e", GiSet2("e", GiG, "g", GiE)),
  GiO("e, g = l, []int{8}", GiSet2("e", GiVar("l"), "g", GiLit("[]int", <<0, 1>>))),
  GiO("g = nil", GiSet("g", GiLit("nil", <<>>))),
  GiO("g = p", GiSet("g", GiVar("p"))),
  GiO("g = l", GiSet("g", GiVar("l"))),
  GiO("g = z", GiSet("g", GiVar("z"))),
  GiO("g = n", GiSet("g", GiVar("n"))),
  \* ---- untyped constants: the default type
  GiO("e = 1", GiSet("e", GiInt(1))),
  GiO("e = 1.0", GiSet("e", GiLit("float64", <<1>>))),
  GiO("e = 'a'", GiSet("e", GiLit("int32", <<97>>))),
  GiO("e = `s`", GiSet("e", GiStr(<<115>>))),
  GiO("e = true", GiSet("e", GiLit("bool", <<1>>))),
  GiO("e = 'a' + 1", GiSet("e", GiLit("int32", <<98>>))),
  GiO("e = 2 * 1.5", GiSet("e", GiLit("float64", <<3>>))),
  GiO("e = 1 << 3", GiSet("e", GiInt(8))),
  GiO("{ const c = 'b'; e = c }", GiSet("e", GiLit("int32", <<98>>))),
  GiO("{ const c I = 5; e = c }", GiSet("e", GiLit("I", <<5>>))),
  GiO("g = 2", GiSet("g", GiInt(2))),
  GiO("g = `a`", GiSet("g", GiStr(<<97>>))),
  GiO("g = 3.0", GiSet("g", GiLit("float64", <<3>>))),
  \* ---- conversions, composite values, typed expressions
  GiO("e = I(3)", GiSet("e", GiLit("I", <<3>>))),
  GiO("e = S(`a`)", GiSet("e", GiLit("S", <<97>>))),
  GiO("e = int(n)", GiSet("e", GiConv("int", GiVar("n")))),
  GiO("e = string(z)", GiSet("e", GiConv("string", GiVar("z")))),
  GiO("e = I(i)", GiSet("e", GiConv("I", GiVar("i")))),
  GiO("e = S(s)", GiSet("e", GiConv("S", GiVar("s")))),
  GiO("e = T{5}", GiSet("e", GiLit("T", <<5>>))),
  GiO("e = &i", GiSet("e", GiAddrI)),
  GiO("e = []int{7}", GiSet("e", GiLit("[]int", <<0, 1>>))),
  GiO("e = (*int)(nil)", GiSet("e", GiNilP)),
  GiO("e = []int(nil)", GiSet("e", GiLit("[]int", <<1, 0>>))),
  GiO("e = interface{}(n)", GiSet("e", GiVar("n"))),
  GiO("g = interface{}(e)", GiSet("g", GiE)),
  GiO("e = n + 1", GiSet("e", GiAdd(GiVar("n"), GiInt(1)))),
  GiO("e = z + `c`", GiSet("e", GiAdd(GiVar("z"), GiStr(<<99>>)))),
  GiO("e = i == 2", GiSet("e", GiEqI(GiVar("i"), GiInt(2)))),
  GiO("e = n > 3", GiSet("e", GiGtI(GiVar("n"), GiInt(3)))),
  GiO("g = I(2)", GiSet("g", GiLit("I", <<2>>))),
  GiO("g = []int{}", GiSet("g", GiLit("[]int", <<0, 0>>))),
  GiO("g = T{4}", GiSet("g", GiLit("T", <<4>>))),
  \* ---- the typed variables
  GiO("i = 7", GiSet("i", GiInt(7))),
  GiO("n = I(i)", GiSet("n", GiConv("I", GiVar("i")))),
  GiO("i = int(n) + 1", GiSet("i", GiAdd(GiConv("int", GiVar("n")), GiInt(1)))),
  GiO("z = S(s)", GiSet("z", GiConv("S", GiVar("s")))),
  GiO("s = string(z) + `c`", GiSet("s", GiAdd(GiConv("string", GiVar("z")), GiStr(<<99>>)))),
  GiO("p = &i", GiSet("p", GiAddrI)),
  GiO("p = nil", GiSet("p", GiNilP)),
  GiO("l = []int{7}", GiSet("l", GiLit("[]int", <<0, 1>>))),
  GiO("l = nil", GiSet("l", GiLit("[]int", <<1, 0>>))),
  GiO("t.A = 6", GiSet("t", GiLit("T", <<6>>))),
  GiO("b = !b", GiSet("b", GiNot(GiVar("b")))),
  GiO("*p = 9", GiStore(9)),
  \* ---- comparison of interface values
  GiO("ok = e == nil", GiCmp(FALSE, GiE, GiLit("nil", <<>>))),
  GiO("ok = e != nil", GiCmp(TRUE, GiE, GiLit("nil", <<>>))),
  GiO("ok = g == nil", GiCmp(FALSE, GiG, GiLit("nil", <<>>))),
  GiO("ok = e == g", GiCmp(FALSE, GiE, GiG)),
  GiO("ok = e != g", GiCmp(TRUE, GiE, GiG)),
  GiO("ok = e == e", GiCmp(FALSE, GiE, GiE)),
  GiO("ok = e == 1", GiCmp(FALSE, GiE, GiInt(1))),
  GiO("ok = e == 1.0", GiCmp(FALSE, GiE, GiLit("float64", <<1>>))),
  GiO("ok = e == `a`", GiCmp(FALSE, GiE, GiStr(<<97>>))),
  GiO("ok = e == 'a'", GiCmp(FALSE, GiE, GiLit("int32", <<97>>))),
  GiO("ok = e == true", GiCmp(FALSE, GiE, GiLit("bool", <<1>>))),
  GiO("ok = e == i", GiCmp(FALSE, GiE, GiVar("i"))),
  GiO("ok = e == n", GiCmp(FALSE, GiE, GiVar("n"))),
  GiO("ok = e == s", GiCmp(FALSE, GiE, GiVar("s"))),
  GiO("ok = e == z", GiCmp(FALSE, GiE, GiVar("z"))),
  GiO("ok = e == b", GiCmp(FALSE, GiE, GiVar("b"))),
  GiO("ok = e == p", GiCmp(FALSE, GiE, GiVar("p"))),
  GiO("ok = e == t", GiCmp(FALSE, GiE, GiVar("t"))),
  GiO("ok = e == T{5}", GiCmp(FALSE, GiE, GiLit("T", <<5>>))),
  GiO("ok = g == I(3)", GiCmp(FALSE, GiG, GiLit("I", <<3>>))),
  GiO("ok = g != s", GiCmp(TRUE, GiG, GiVar("s"))),
  GiO("ok = interface{}(i) == interface{}(n)", GiCmp(FALSE, GiVar("i"), GiVar("n"))),
  GiO("ok = e == interface{}(nil)", GiCmp(FALSE, GiE, GiLit("nil", <<>>))),
  GiO("ok = e == interface{}(l)", GiCmp(FALSE, GiE, GiVar("l"))),
  GiO("ok = g != interface{}([]int{})", GiCmp(TRUE, GiG, GiLit("[]int", <<0, 0>>))),
  \* ---- interface variables captured by a function literal / reached through a pointer (GiIndirect)
  GiO("func() { e = i }()", GiSet("e", GiVar("i"))),
  GiO("func() { g = e }()", GiSet("g", GiE)),
  GiO("{ pe := &e; *pe = n }", GiSet("e", GiVar("n"))),
  GiO("{ pg := &g; ok = *pg == nil }", GiCmp(FALSE, GiG, GiLit("nil", <<>>))),
  GiO("k = func() int { if _, is := e.(int); is { return 1 }; return 2 }()", [k |-> "tswitch", src |-> "e", cls |-> <<GiCl(<<"int">>, <<GiK(1)>>), GiDef(<<GiK(2)>>)>>]),
  \* ---- type assertions x.(T): a failure panics
  GiO("k = e.(int)", GiAssert("k", "e", "int", "")),
  GiO("i = g.(int)", GiAssert("i", "g", "int", "")),
  GiO("n = e.(I)", GiAssert("n", "e", "I", "")),
  GiO("s = e.(string)", GiAssert("s", "e", "string", "")),
  GiO("z = e.(S)", GiAssert("z", "e", "S", "")),
  GiO("b = e.(bool)", GiAssert("b", "e", "bool", "")),
  GiO("p = e.(*int)", GiAssert("p", "e", "*int", "")),
  GiO("l = e.([]int)", GiAssert("l", "e", "[]int", "")),
  GiO("t = e.(T)", GiAssert("t", "e", "T", "")),
  GiO("g = e.(interface{})", GiAssert("g", "e", "iface", "")),
  GiO("k = int(e.(I))", GiAssert("k", "e", "I", "int")),
  GiO("k = int(e.(float64))", GiAssert("k", "e", "float64", "int")),
  GiO("k = int(e.(int32))", GiAssert("k", "e", "int32", "int")),
  GiO("k = e.(T).A", GiAssert("k", "e", "T", "fld")),
  \* ---- v, ok = x.(T): no panic, the zero value of T on failure
  GiO("k, ok = e.(int)", GiAssertOk("k", "e", "int")),
  GiO("i, ok = g.(int)", GiAssertOk("i", "g", "int")),
  GiO("n, ok = e.(I)", GiAssertOk("n", "e", "I")),
  GiO("s, ok = e.(string)", GiAssertOk("s", "e", "string")),
  GiO("z, ok = g.(S)", GiAssertOk("z", "g", "S")),
  GiO("b, ok = e.(bool)", GiAssertOk("b", "e", "bool")),
  GiO("p, ok = e.(*int)", GiAssertOk("p", "e", "*int")),
  GiO("l, ok = e.([]int)", GiAssertOk("l", "e", "[]int")),
  GiO("t, ok = e.(T)", GiAssertOk("t", "e", "T")),
  GiO("_, ok = e.(float64)", GiAssertOk("_", "e", "float64")),
  GiO("_, ok = e.(int32)", GiAssertOk("_", "e", "int32")),
  GiO("_, ok = g.(I)", GiAssertOk("_", "g", "I")),
  GiO("g, ok = e.(interface{})", GiAssertOk("g", "e", "iface")),
  \* ---- type switches: single types, lists (the bound variable keeps the interface type), nil, default at any position
  GiO("switch e.(type) { case int: k = 1; case string: k = 2; case I: k = 3; case S: k = 4; case nil: k = 5; default: k = 6 }",
      GiTSw("e", <<GiCl(<<"int">>, <<GiK(1)>>), GiCl(<<"string">>, <<GiK(2)>>), GiCl(<<"I">>, <<GiK(3)>>), GiCl(<<"S">>, <<GiK(4)>>),
                   GiCl(<<"nil">>, <<GiK(5)>>), GiDef(<<GiK(6)>>)>>)),
  GiO("switch v := e.(type) { case int, string: g = v; k = 11; case I: k = int(v) + 20; case nil: g = v; k = 12; default: g = v; k = 13 }",
      GiTSw("e", <<GiCl(<<"int", "string">>, <<GiSet("g", GiBV), GiK(11)>>), GiCl(<<"I">>, <<GiSet("k", GiAdd(GiConv("int", GiBV), GiInt(20)))>>),
                   GiCl(<<"nil">>, <<GiSet("g", GiBV), GiK(12)>>), GiDef(<<GiSet("g", GiBV), GiK(13)>>)>>)),
  GiO("switch e.(type) { default: k = 21; case bool: k = 22; case *int: k = 23; case []int: k = 24 }",
      GiTSw("e", <<GiDef(<<GiK(21)>>), GiCl(<<"bool">>, <<GiK(22)>>), GiCl(<<"*int">>, <<GiK(23)>>), GiCl(<<"[]int">>, <<GiK(24)>>)>>)),
  GiO("switch v := g.(type) { case I: i = int(v); case int: n = I(v); case S: s = string(v); case string: z = S(v) }",
      GiTSw("g", <<GiCl(<<"I">>, <<GiSet("i", GiConv("int", GiBV))>>), GiCl(<<"int">>, <<GiSet("n", GiConv("I", GiBV))>>),
                   GiCl(<<"S">>, <<GiSet("s", GiConv("string", GiBV))>>), GiCl(<<"string">>, <<GiSet("z", GiConv("S", GiBV))>>)>>)),
  GiO("switch v := e.(type) { case *int: p = v; k = 31; case []int: l = v; k = 32; case T: t = v; k = 33; case bool: b = !v; k = 34 }",
      GiTSw("e", <<GiCl(<<"*int">>, <<GiSet("p", GiBV), GiK(31)>>), GiCl(<<"[]int">>, <<GiSet("l", GiBV), GiK(32)>>),
                   GiCl(<<"T">>, <<GiSet("t", GiBV), GiK(33)>>), GiCl(<<"bool">>, <<GiSet("b", GiNot(GiBV)), GiK(34)>>)>>)),
  GiO("switch e.(type) { case float64, int32: k = 41; default: k = 42; case nil, int: k = 43; case T, I, S: k = 44 }",
      GiTSw("e", <<GiCl(<<"float64", "int32">>, <<GiK(41)>>), GiDef(<<GiK(42)>>), GiCl(<<"nil", "int">>, <<GiK(43)>>), GiCl(<<"T", "I", "S">>, <<GiK(44)>>)>>)),
  GiO("switch e.(type) { case interface{}: k = 51; default: k = 52 }",
      GiTSw("e", <<GiCl(<<"iface">>, <<GiK(51)>>), GiDef(<<GiK(52)>>)>>)),
  GiO("switch v := g.(type) { case nil: k = 61; e = v; case interface{}: k = 62; e = v }",
      GiTSw("g", <<GiCl(<<"nil">>, <<GiK(61), GiSet("e", GiBV)>>), GiCl(<<"iface">>, <<GiK(62), GiSet("e", GiBV)>>)>>)),
  GiO("switch g.(type) { case nil: k = 71 }", GiTSw("g", <<GiCl(<<"nil">>, <<GiK(71)>>)>>)),
  GiO("switch v := e.(type) { case float64: k = int(v) + 80; case int32: k = int(v) + 90; case int: k = v + 100 }",
      GiTSw("e", <<GiCl(<<"float64">>, <<GiSet("k", GiAdd(GiConv("int", GiBV), GiInt(80)))>>), GiCl(<<"int32">>, <<GiSet("k", GiAdd(GiConv("int", GiBV), GiInt(90)))>>),
                   GiCl(<<"int">>, <<GiSet("k", GiAdd(GiBV, GiInt(100)))>>)>>)),
  GiO("switch v := e.(type) { default: g = v; k = 111; case T: k = v.A + 120 }",
      GiTSw("e", <<GiDef(<<GiSet("g", GiBV), GiK(111)>>), GiCl(<<"T">>, <<GiSet("k", GiAdd(GiFld(GiBV), GiInt(120)))>>)>>)),
  GiO("switch e.(type) { case I, int: k = 131; case S, string: k = 132 }",
      GiTSw("e", <<GiCl(<<"I", "int">>, <<GiK(131)>>), GiCl(<<"S", "string">>, <<GiK(132)>>)>>)),
  GiO("switch v := e.(type) { case nil, *int, []int: g = v; k = 141; case S: z = v + `d`; k = 142 }",
      GiTSw("e", <<GiCl(<<"nil", "*int", "[]int">>, <<GiSet("g", GiBV), GiK(141)>>), GiCl(<<"S">>, <<GiSet("z", GiAdd(GiBV, GiStr(<<100>>))), GiK(142)>>)>>)),
  \* ---- expression switches with typed and untyped case expressions
  GiO("switch e { case 1: k = 1; case `a`: k = 2; case I(3): k = 3; case nil: k = 4; case true: k = 5; default: k = 6 }",
      GiVSw(GiE, <<GiCl(<<GiInt(1)>>, <<GiK(1)>>), GiCl(<<GiStr(<<97>>)>>, <<GiK(2)>>), GiCl(<<GiLit("I", <<3>>)>>, <<GiK(3)>>),
                   GiCl(<<GiLit("nil", <<>>)>>, <<GiK(4)>>), GiCl(<<GiLit("bool", <<1>>)>>, <<GiK(5)>>), GiDef(<<GiK(6)>>)>>)),
  GiO("switch e { case i: k = 11; case n: k = 12; case s: k = 13; case g: k = 14; default: k = 15 }",
      GiVSw(GiE, <<GiCl(<<GiVar("i")>>, <<GiK(11)>>), GiCl(<<GiVar("n")>>, <<GiK(12)>>), GiCl(<<GiVar("s")>>, <<GiK(13)>>),
                   GiCl(<<GiG>>, <<GiK(14)>>), GiDef(<<GiK(15)>>)>>)),
  GiO("switch g { default: k = 21; case e: k = 22; case 1.0: k = 23; case 'a': k = 24 }",
      GiVSw(GiG, <<GiDef(<<GiK(21)>>), GiCl(<<GiE>>, <<GiK(22)>>), GiCl(<<GiLit("float64", <<1>>)>>, <<GiK(23)>>), GiCl(<<GiLit("int32", <<97>>)>>, <<GiK(24)>>)>>)),
  GiO("switch n { case 3: k = 31; case I(i): k = 32; default: k = 33 }",
      GiVSw(GiVar("n"), <<GiCl(<<GiLit("I", <<3>>)>>, <<GiK(31)>>), GiCl(<<GiConv("I", GiVar("i"))>>, <<GiK(32)>>), GiDef(<<GiK(33)>>)>>)),
  GiO("switch i { case int(n): k = 41; case 2, 7: k = 42; default: k = 43 }",
      GiVSw(GiVar("i"), <<GiCl(<<GiConv("int", GiVar("n"))>>, <<GiK(41)>>), GiCl(<<GiInt(2), GiInt(7)>>, <<GiK(42)>>), GiDef(<<GiK(43)>>)>>)),
  GiO("switch e { case z, S(`a`): k = 51; case p: k = 52; case t, T{5}: k = 53; case b: k = 54 }",
      GiVSw(GiE, <<GiCl(<<GiVar("z"), GiLit("S", <<97>>)>>, <<GiK(51)>>), GiCl(<<GiVar("p")>>, <<GiK(52)>>),
                   GiCl(<<GiVar("t"), GiLit("T", <<5>>)>>, <<GiK(53)>>), GiCl(<<GiVar("b")>>, <<GiK(54)>>)>>)),
  GiO("switch interface{}(n) { case 3: k = 61; case I(3): k = 62; case n: k = 63 }",
      GiVSw(GiVar("n"), <<GiCl(<<GiInt(3)>>, <<GiK(61)>>), GiCl(<<GiLit("I", <<3>>)>>, <<GiK(62)>>), GiCl(<<GiVar("n")>>, <<GiK(63)>>)>>)),
  GiO("switch e { case interface{}(l): k = 71; default: k = 72 }",
      GiVSw(GiE, <<GiCl(<<GiVar("l")>>, <<GiK(71)>>), GiDef(<<GiK(72)>>)>>))
>>
GiN == Len(GiOps)
(* the operations whose text makes e or g a variable that a function literal refers to or whose address is taken: the meaning
   of the program is the same, an implementation may store such a variable differently for the whole program (the judge
   puts "ind" into its signatures: is there such an operation in the program) *)
GiIndirect == {"func() { e = i }()", "func() { g = e }()", "{ pe := &e; *pe = n }", "{ pg := &g; ok = *pg == nil }",
               "k = func() int { if _, is := e.(int); is { return 1 }; return 2 }()"}
\* the class of an operation (statistics): the kind of its meaning; assertions with / without ok apart
GiKind(j) == LET m == GiOps[j].sem IN IF m.k = "assert" /\ m.cok THEN "assertok" ELSE m.k

\* ---------------------------------------------------------------------------- a whole program: operation numbers
RECURSIVE GiRunFrom(_, _, _)
GiRunFrom(st, prog, j) == IF j > Len(prog) THEN st ELSE GiRunFrom(GiShow(GiApply(st, GiOps[prog[j]].sem)), prog, j + 1)
GiRun(prog) == GiRunFrom(GiShow(GiInit), prog, 1)

\* the text a panic message of class cls must start with (what follows - the types involved - is not judged)
GiMsgPrefix(cls) ==
  CASE cls = "ifaceconv" -> <<105, 110, 116, 101, 114, 102, 97, 99, 101, 32, 99, 111, 110, 118, 101, 114, 115, 105, 111, 110, 58, 32>>      \* "interface conversion: "
    [] cls = "uncomparable" -> <<114, 117, 110, 116, 105, 109, 101, 32, 101, 114, 114, 111, 114, 58, 32, 99, 111, 109, 112, 97, 114, 105, 110, 103, 32,
                                 117, 110, 99, 111, 109, 112, 97, 114, 97, 98, 108, 101, 32, 116, 121, 112, 101>>       \* "runtime error: comparing uncomparable type"
    [] cls = "nilderef" -> MgtNilDeref
    [] OTHER -> <<>>
=============================================================================

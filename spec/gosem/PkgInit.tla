------------------------------- MODULE PkgInit -------------------------------
(* C01 part 7.  Initialisation of a program made of several packages.

   A program g is a record
     imps[i]   the import declarations of package i, in source order (a sequence of packages, no repetition)
     vars[i]   the package-level variables V1, V2 (0..2) of package i: vars[i][k] = [p, v] says what the
               initialiser of Vk reads: p = 0 nothing, p = i the variable Vv of its own package (an earlier or
               a later one), otherwise the exported variable Vv of the imported package p
     inits[i]  the init functions (0..2) of package i in source order: inits[i][k] = [p, v]: p = 0 it only prints,
               otherwise it also WRITES the variable Vv of the imported package p
   Packages are numbered 1..n; n is main, the others are the packages "a.b/p", "a.b/q", "a.b/r" (in this order
   of their import paths).  Every package prints what it does, so that the output is the order of events:
     initialiser of Vk of package i    var Vk = t(10i+k, x)      prints  "10i+k x",  Vk = (2x + 10i+k) % 1000
     k-th init function of package i   prints "10i+2+k x" where x is the variable it writes (0 when none),
                                       then  thatVariable = (2x + 10i+2+k) % 1000
     Dump of package i                 prints "10i+9 V1 V2" and calls Dump of its imports in source order;
                                       main.main calls main's Dump: the final value of every variable is printed.
   The arithmetic is not commutative: the values tell the order in which the writes and reads happened, and a
   second initialisation of a package would also reset what init functions of other packages wrote.

   REFERENCE - Go specification, "Package initialization" / "Program initialization":
     "If a package has imports, the imported packages are initialized before initializing the package itself.
      If multiple packages import a package, the imported package will be initialized only once."
     "[Within a package] all package-level variables [are initialised, in dependency order: repeatedly the next
      variable that is earliest in declaration order and ready], [then] all init functions [are called] in the
      order they appear in the source"
     "A complete program is created by linking a single, unimported package called the main package with all the
      packages it imports, transitively.  [...] Program execution begins by initializing the program and then
      invoking the function main in package main."
   THE ORDER OF INDEPENDENT PACKAGES.  Up to Go 1.20 the specification left the relative order of packages that do
   not import each other open; since Go 1.21 it says "Given the list of all packages, sorted by import path, in
   each step the first uninitialized package in the list for which all imported packages (if any) are already
   initialized is initialized. This step is repeated until all packages are initialized." (PiPathOrder below; what
   gc does).  READING JUDGED (the module of /repo says go 1.25 and the property says "behave like gc"): STRICT -
   the only accepted output is the one of the Go 1.21 order (PiRefOut121).  Two weaker notions are kept to NAME
   the cause of a difference: PiAccepts / PiRefOuts (the output of some topological order of the import graph:
   what the wording up to Go 1.20 allowed) and PiDeclOrder (independent packages in the order of the import
   declarations, depth first: what Scriggo does) - an output that is the one of PiDeclOrder gets the signature
   cause "independent-packages-not-in-import-path-order", like "import-declaration-order".

   IMPLEMENTATION-SHAPED - internal/compiler/emitter.go emitPackage / emitter_statements.go emitImport: the list
   `inits` of a package = for each import declaration in order the list returned for the imported package,
   appended element by element without duplicates; then the package's own init functions; "$initvars" (the
   function initialising the variables, created only the first time the package is emitted) inserted between the
   two.  main.main calls them in this order. *)
EXTENDS Integers, Sequences, FiniteSets

PiRange(s) == {s[j] : j \in 1..Len(s)}
PiMin(S) == CHOOSE m \in S : \A o \in S : m <= o
PiMain(g) == Len(g.imps)
RECURSIVE PiClose(_, _)
PiClose(imps, S) == LET T == S \cup UNION {PiRange(imps[i]) : i \in S} IN IF T = S THEN S ELSE PiClose(imps, T)
\* the packages i imports, directly or not
PiReach(imps, i) == PiClose(imps, PiRange(imps[i]))
PiAcyclic(imps) == \A i \in 1..Len(imps) : i \notin PiReach(imps, i)
\* the packages of the program
PiPresent(g) == {PiMain(g)} \cup PiReach(g.imps, PiMain(g))
RECURSIVE PiConcat(_, _)       \* concatenation of the sequences ss[j..]
PiConcat(ss, j) == IF j > Len(ss) THEN <<>> ELSE ss[j] \o PiConcat(ss, j + 1)

(* ---------- what the pieces of a program do (shared by the reference and the implementation-shaped model):
   a state is [val |-> value of every variable, out |-> printed lines] *)
PiF(x, tag) == (2 * x + tag) % 1000
PiStart(g) == [val |-> [i \in 1..Len(g.imps) |-> [k \in 1..Len(g.vars[i]) |-> 0]], out |-> <<>>]
\* "the next package-level variable that is earliest in declaration order and ready for initialization"
RECURSIVE PiVarOrder(_, _, _)
PiVarOrder(vs, i, done) ==
  LET D == PiRange(done)
      ready == {k \in 1..Len(vs) : k \notin D /\ (vs[k].p = i => vs[k].v \in D)}
  IN IF ready = {} THEN done ELSE PiVarOrder(vs, i, Append(done, PiMin(ready)))
PiExecVar(g, st, i, k) ==
  LET rd == g.vars[i][k]
      x == IF rd.p = 0 THEN 0 ELSE st.val[rd.p][rd.v]
  IN [val |-> [st.val EXCEPT ![i][k] = PiF(x, 10 * i + k)], out |-> Append(st.out, <<10 * i + k, x>>)]
RECURSIVE PiExecVars(_, _, _, _, _)
PiExecVars(g, st, i, ord, j) == IF j > Len(ord) THEN st ELSE PiExecVars(g, PiExecVar(g, st, i, ord[j]), i, ord, j + 1)
PiExecInit(g, st, i, k) ==
  LET w == g.inits[i][k]
      x == IF w.p = 0 THEN 0 ELSE st.val[w.p][w.v]
  IN [val |-> IF w.p = 0 THEN st.val ELSE [st.val EXCEPT ![w.p][w.v] = PiF(x, 10 * i + 2 + k)],
      out |-> Append(st.out, <<10 * i + 2 + k, x>>)]
\* a unit [p, k]: k = 0 all the variables of package p, k > 0 its k-th init function
PiExecUnit(g, st, u) == IF u.k = 0 THEN PiExecVars(g, st, u.p, PiVarOrder(g.vars[u.p], u.p, <<>>), 1) ELSE PiExecInit(g, st, u.p, u.k)
RECURSIVE PiExecUnits(_, _, _, _)
PiExecUnits(g, st, us, j) == IF j > Len(us) THEN st ELSE PiExecUnits(g, PiExecUnit(g, st, us[j]), us, j + 1)
RECURSIVE PiDump(_, _, _)
PiDump(g, val, i) == <<<<10 * i + 9>> \o val[i]>> \o PiConcat([j \in 1..Len(g.imps[i]) |-> PiDump(g, val, g.imps[i][j])], 1)
\* the output of the program whose initialisation runs the units us, followed by main.main
PiFinish(g, st) == st.out \o PiDump(g, st.val, PiMain(g))        \* (st as an argument: evaluated once)
PiRun(g, us) == PiFinish(g, PiExecUnits(g, PiStart(g), us, 1))

(* ---------- reference *)
\* the initialisation of one package: its variables, then its init functions in source order
PiPkgUnits(g, i) == (IF Len(g.vars[i]) > 0 THEN <<[p |-> i, k |-> 0]>> ELSE <<>>) \o [k \in 1..Len(g.inits[i]) |-> [p |-> i, k |-> k]]
PiRefUnits(g, order) == PiConcat([j \in 1..Len(order) |-> PiPkgUnits(g, order[j])], 1)
RECURSIVE PiPerms(_)
PiPerms(S) == IF S = {} THEN {<<>>} ELSE UNION {{<<x>> \o p : p \in PiPerms(S \ {x})} : x \in S}
\* every package once, each after all the packages it imports (main, which imports all of them directly or not, is last)
PiTopo(g, o) == \A a \in 1..Len(o) : \A d \in PiRange(g.imps[o[a]]) : \E b \in 1..(a - 1) : o[b] = d
PiOrders(g) == {o \in PiPerms(PiPresent(g)) : PiTopo(g, o)}
PiRefOuts(g) == {PiRun(g, PiRefUnits(g, o)) : o \in PiOrders(g)}
\* the Go 1.21 rule: the first package, by import path, all of whose imports are initialised
RECURSIVE PiPathFrom(_, _, _)
PiPathFrom(g, P, done) ==
  LET D == PiRange(done)
      ready == {i \in P : i \notin D /\ PiRange(g.imps[i]) \subseteq D}
  IN IF ready = {} THEN done ELSE PiPathFrom(g, P, Append(done, PiMin(ready)))
PiPathOrder(g) == PiPathFrom(g, PiPresent(g), <<>>)
PiRefOut121(g) == PiRun(g, PiRefUnits(g, PiPathOrder(g)))
\* not the specification's order (kept to name a cause): the packages in the order of the import declarations, depth
\* first, each package after the packages it imports and once - independent packages are not sorted by import path
RECURSIVE PiDeclVisit(_, _, _), PiDeclVisitAll(_, _, _, _)
PiDeclVisitAll(g, is, j, done) == IF j > Len(is) THEN done ELSE PiDeclVisitAll(g, is, j + 1, PiDeclVisit(g, is[j], done))
PiDeclVisit(g, i, done) == IF i \in PiRange(done) THEN done ELSE Append(PiDeclVisitAll(g, g.imps[i], 1, done), i)
PiDeclOrder(g) == PiDeclVisit(g, PiMain(g), <<>>)
PiRefOutDecl(g) == PiRun(g, PiRefUnits(g, PiDeclOrder(g)))

(* ---------- implementation-shaped: emitPackage.  An init function is identified by [p, k, n]: k > 0 the k-th init
   function of p (the *runtime.Function of a declaration is kept in alreadyEmittedFuncs: n = 0), k = 0 "$initvars"
   created by the n-th emission of p.  em[p] = how many times the variable declarations of p were emitted.
   legacy = TRUE is the construction before commit 210747a (kept to name the cause of a finding and to show that
   the invariant ImplMeetsRef can fail): "$initvars" re-created by every emission and appended after the init
   functions, every list of an import appended whole when one of its elements is new, main's variables first. *)
PiHas(s, x) == \E j \in 1..Len(s) : s[j] = x
RECURSIVE PiAddNew(_, _, _)
PiAddNew(inits, more, j) == IF j > Len(more) THEN inits
                            ELSE PiAddNew(IF PiHas(inits, more[j]) THEN inits ELSE Append(inits, more[j]), more, j + 1)
RECURSIVE PiEmit(_, _, _, _), PiEmitImports(_, _, _, _, _, _)
PiEmitImports(g, i, j, inits, em, legacy) ==
  IF j > Len(g.imps[i]) THEN [inits |-> inits, em |-> em]
  ELSE LET r == PiEmit(g, g.imps[i][j], em, legacy)
           merged == IF legacy THEN (IF \E q \in 1..Len(r.inits) : ~PiHas(inits, r.inits[q]) THEN inits \o r.inits ELSE inits)
                     ELSE PiAddNew(inits, r.inits, 1)
       IN PiEmitImports(g, i, j + 1, merged, r.em, legacy)
PiEmit(g, i, em, legacy) ==
  LET im == PiEmitImports(g, i, 1, <<>>, em, legacy)
      own == [k \in 1..Len(g.inits[i]) |-> [p |-> i, k |-> k, n |-> 0]]
      mkvars == Len(g.vars[i]) > 0 /\ (legacy \/ im.em[i] = 0)
      iv == [p |-> i, k |-> 0, n |-> im.em[i] + 1]
      em2 == IF mkvars THEN [im.em EXCEPT ![i] = @ + 1] ELSE im.em
  IN [inits |-> IF ~mkvars THEN im.inits \o own
                ELSE IF legacy THEN im.inits \o own \o <<iv>>
                ELSE im.inits \o <<iv>> \o own,
      em |-> em2]
\* what main.main calls before its body
PiImplCalls(g, legacy) ==
  LET m == PiMain(g)
      r == PiEmit(g, m, [i \in 1..Len(g.imps) |-> 0], legacy).inits
  IN IF legacy /\ Len(g.vars[m]) > 0 THEN <<r[Len(r)]>> \o SubSeq(r, 1, Len(r) - 1) ELSE r
PiUnitsOf(calls) == [j \in 1..Len(calls) |-> [p |-> calls[j].p, k |-> calls[j].k]]
PiImplOut(g, legacy) == PiRun(g, PiUnitsOf(PiImplCalls(g, legacy)))

(* ---------- implementation-shaped, second part: internal/compiler/parser_program.go ParseProgram, which finds the
   packages of the program and reports import cycles.  `imports` is a stack of import declarations: the one on top
   is looked at; if its package is already parsed it is popped, otherwise the package is parsed and its import
   declarations are looked at in source order: one whose package is already parsed is a cycle if that package "is
   on the stack", the others are inserted just above the current entry (so that the first is on top).
   The stack holds the packages being processed (the ancestors of the current one: their entries have a tree) AND
   the imports of the ancestors that have not been looked at yet (no tree).  anc = FALSE: any entry of the stack
   counts (the code up to commit 8d19cdf, kept to name the cause of a finding); anc = TRUE: only the entries that
   have a tree (the code since commit 984b438).
   A stack entry is [p |-> package, t |-> it has been parsed]; the result is "a cycle is reported". *)
RECURSIVE PiParse(_, _, _, _), PiScan(_, _, _, _, _, _, _)
PiScan(g, stack, trees, last, decls, j, anc) ==
  IF j > Len(decls) THEN [err |-> FALSE, stack |-> stack]
  ELSE LET d == decls[j] IN
       IF d \in trees
       THEN (IF \E q \in 1..Len(stack) : stack[q].p = d /\ (anc => stack[q].t) THEN [err |-> TRUE, stack |-> stack]
             ELSE PiScan(g, stack, trees, last, decls, j + 1, anc))
       ELSE PiScan(g, SubSeq(stack, 1, last) \o <<[p |-> d, t |-> FALSE]>> \o SubSeq(stack, last + 1, Len(stack)),
                   trees, last, decls, j + 1, anc)
PiParse(g, stack, trees, anc) ==
  IF stack = <<>> THEN FALSE
  ELSE LET last == Len(stack)
           n == stack[last]
       IN IF n.p \in trees THEN PiParse(g, SubSeq(stack, 1, last - 1), trees, anc)
          ELSE LET r == PiScan(g, [stack EXCEPT ![last].t = TRUE], trees \cup {n.p}, last, g.imps[n.p], 1, anc)
               IN r.err \/ PiParse(g, IF Len(r.stack) = last THEN SubSeq(r.stack, 1, last - 1) ELSE r.stack, trees \cup {n.p}, anc)
PiParserReportsCycle(g, anc) == PiParse(g, <<[p |-> PiMain(g), t |-> FALSE]>>, {}, anc)

(* ---------- the predicate "some topological order" (since the judge is strict - PiRefOut121 - it only names causes).
   PiAccepts(g, out) <=> out \in PiRefOuts(g)  (checked by MC_PkgInit on the outputs of the
   reference, of the implementation-shaped model and of the legacy construction), evaluated with ONE run of the
   reference: the order of the packages is read off the observation (the first number of a line identifies the
   event: 10i+1, 10i+2 initialisers, 10i+3, 10i+4 init functions of package i; 10i+9 Dump).  A package without
   variables and init functions leaves no trace and cannot be misplaced. *)
PiEvents(out) == SelectSeq([j \in 1..Len(out) |-> IF Len(out[j]) > 0 THEN out[j][1] ELSE -1], LAMBDA t : t % 10 \in 1..4)
PiFirstSeen(ev) == LET idx == SelectSeq([j \in 1..Len(ev) |-> j], LAMBDA j : \A b \in 1..(j - 1) : ev[b] \div 10 # ev[j] \div 10)
                   IN [j \in 1..Len(idx) |-> ev[idx[j]] \div 10]
PiUnitPkgs(g) == {i \in PiPresent(g) : Len(g.vars[i]) + Len(g.inits[i]) > 0}
PiAcceptsIn(g, out, o, U) ==
  /\ PiRange(o) = U
  /\ \A a \in 1..Len(o) : \A d \in PiReach(g.imps, o[a]) \cap U : \E b \in 1..(a - 1) : o[b] = d
  /\ out = PiRun(g, PiRefUnits(g, o))
PiAccepts(g, out) == PiAcceptsIn(g, out, PiFirstSeen(PiEvents(out)), PiUnitPkgs(g))

(* ---------- what is wrong with an observed output (names the root cause in the signature of a finding) *)
PiExpectedTags(g) == UNION {{10 * i + k : k \in 1..Len(g.vars[i])} \cup {10 * i + 2 + k : k \in 1..Len(g.inits[i])} : i \in PiPresent(g)}
PiCause(g, out) ==
  LET ev == PiEvents(out) IN
  IF PiAccepts(g, out) THEN "independent-packages-not-in-import-path-order"     \* (not called for the accepted output)
  ELSE IF \E a, b \in 1..Len(ev) : a < b /\ ev[a] = ev[b] THEN "initialised-twice"
  ELSE IF PiRange(ev) # PiExpectedTags(g) THEN "initialisation-missing-or-unknown"
  ELSE IF \E a, b \in 1..Len(ev) : a < b /\ ev[a] \div 10 = ev[b] \div 10 /\ ev[a] % 10 \in 3..4 /\ ev[b] % 10 \in 1..2 THEN "init-function-before-variables"
  ELSE IF \E i \in PiPresent(g) : LET ord == PiVarOrder(g.vars[i], i, <<>>) IN
             SelectSeq(ev, LAMBDA t : t \div 10 = i /\ t % 10 \in 1..2) # [j \in 1..Len(ord) |-> 10 * i + ord[j]] THEN "variables-out-of-dependency-order"
  ELSE IF \E a, b \in 1..Len(ev) : a < b /\ (ev[b] \div 10) \in PiReach(g.imps, ev[a] \div 10) THEN "before-an-imported-package"
  ELSE IF \E a, b \in 1..Len(ev) : a < b /\ ev[a] \div 10 = ev[b] \div 10 /\ ev[a] % 10 \in 3..4 /\ ev[b] % 10 \in 3..4 /\ ev[a] > ev[b] THEN "init-functions-out-of-source-order"
  ELSE IF \E a, b, c \in 1..Len(ev) : a < b /\ b < c /\ ev[a] \div 10 = ev[c] \div 10 /\ ev[a] \div 10 # ev[b] \div 10 THEN "packages-interleaved"
  ELSE "wrong-values"
=============================================================================

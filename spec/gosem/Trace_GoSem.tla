---------------------------- MODULE Trace_GoSem ----------------------------
(* C01 judge.  One record per line of obs.ndjson, told apart by r.fam:
     intalu     {id, op, k, k2, x, y, form, t, v, w, msg}   one integer operation in one source form:
                t = "int"/"bool" (v printed directly, w after widening to 64 bits), "panic" (msg), or
                what else happened ("none", "builderror", "hostpanic", ...)
     initorder  {id, nv, nf, deps, outcome, order}
     conv       {id, op, k, v, a, outcome, out}
     minigo     {id, shape, exp, alt, nest, out, outcome, msg}  (the check strips prog before judging)
     variadic / select / constuse / maprange   {id, <the fields of the case, see GoMisc.tla>, outcome, out}
     pkginit    {id, imps, vars, inits, form, outcome, out}   a program of several packages (PkgInit.tla)
     godata     {id, ops, outcome, out, msg}   a straight-line program over composite data (GoData.tla): ops = the Go texts
                of its operations, out = the printed lines (integers), msg = the bytes of the panic message
     goiface    {id, ops, outcome, out, msg}   a straight-line program over interface values (GoIface.tla), logged like godata
   A record is good iff the observation is what the Go-semantics reference prescribes. *)
EXTENDS IntALU, InitOrder, StrConv, GoMisc, PkgInit, GoData, GoIface, Json, SequencesExt

(* ---- intalu *)
AluExpectsPanic(r) == (r.op \in {"div", "rem"} /\ r.y.s = 0) \/ (r.op \in Shifts /\ r.y.s < 0)
AluOk(r) == /\ r.t \in {"int", "bool", "panic"}
            /\ r.v = r.w         \* the printed value and the value widened to 64 bits are the same number
            /\ RefHolds(r.op, r.k, r.k2, r.x, r.y, [t |-> r.t, v |-> r.v, msg |-> r.msg])
AluCause(r) ==
  IF r.t \notin {"int", "bool", "panic"} THEN r.t
  ELSE IF r.op \in Shifts /\ r.y.s < 0 /\ r.t # "panic" THEN "negative-count-no-panic"
  ELSE IF r.t = "panic" THEN (IF AluExpectsPanic(r) THEN "wrong-panic-message" ELSE "unexpected-panic")
  ELSE IF AluExpectsPanic(r) THEN "missing-panic"
  ELSE IF r.v # r.w THEN "not-truncated" ELSE "wrong-value"
AluSig(r) == [fam |-> "intalu", op |-> r.op, k |-> r.k, form |-> r.form, cause |-> AluCause(r)]

(* ---- initorder: {id, nv, nf, deps, orders, form, outcome, order}: order = the numbers printed by the variables'
   initialisers, in order, then 0 printed by main; form = the textual order in which the program mentions the
   dependencies deps[n] of a node, "asc" or "desc" (the reference only looks at the set).  The build error's wording is not judged, only its class. *)
InitOk(r) == IF RefCyclic(r.deps, r.nv) THEN r.outcome = "builderror"
             ELSE r.outcome = "ok" /\ r.order = Append(RefOrder(r.deps, r.nv), 0)
InitCause(r) ==
  IF r.outcome \notin {"ok", "builderror"} THEN r.outcome
  ELSE IF RefCyclic(r.deps, r.nv) THEN "missed-cycle"
  ELSE IF r.outcome = "builderror"
       THEN (IF LegacyCyclic(r.deps, r.nv) THEN "recursion-reported-as-cycle" ELSE "false-cycle")
  ELSE IF r.order = Append(LegacyOrder(r.deps, r.nv), 0) THEN "function-dependencies-not-followed" ELSE "wrong-order"
InitSig(r) == [fam |-> "initorder", cause |-> InitCause(r), nv |-> r.nv, nf |-> r.nf]

(* ---- conv: {id, op, k, v, a, outcome, out}: out = the numbers printed (bytes, runes, or index/rune pairs) *)
ConvOk(r) == r.outcome = "ok" /\ r.out = ConvRef(r.op, r.k, r.v, r.a)
ConvSig(r) == [fam |-> "conv", op |-> r.op, k |-> r.k, cause |-> IF r.outcome = "ok" THEN "wrong-result" ELSE r.outcome]

(* ---- minigo: {id, shape, prog, exp, out, outcome, msg}: exp = [out, outcome, msg] is the observable computed by
   the reference interpreter (MC_MiniGo) for this program, carried through the driver untouched.
   "The same message": the run-time error text is compared up to the operand values that Go appends in
   brackets ("runtime error: slice bounds out of range [2:1]" ~ "runtime error: slice bounds out of range"):
   Scriggo documents that it does not reproduce those details for slice bounds (errors.go, issue 321), and
   the wording of a message beyond its class is not a clause of the property.  Full equality of the text is
   counted separately by the check (panic_message_detail_differs, diagnostic). *)
RECURSIVE MgCut(_, _)
MgCut(m, i) == IF i > Len(m) \/ m[i] = 91 THEN i - 1 ELSE MgCut(m, i + 1)
RECURSIVE MgTrim(_, _)
MgTrim(m, n) == IF n > 0 /\ m[n] = 32 THEN MgTrim(m, n - 1) ELSE SubSeq(m, 1, n)
MgMsgClass(m) == MgTrim(m, MgCut(m, 1))
MgOk(r) == /\ r.outcome = r.exp.outcome
           /\ r.out = r.exp.out
           /\ (r.outcome = "panic" => MgMsgClass(r.msg) = MgMsgClass(r.exp.msg))
\* what is wrong, the final outcome first (a wrong outcome is not hidden by a difference in the output)
MgCause(r) == IF r.outcome \notin {"ok", "panic"} THEN r.outcome
              ELSE IF r.outcome # r.exp.outcome THEN (IF r.exp.outcome = "panic" THEN "missing-panic" ELSE "unexpected-panic")
              ELSE IF r.out # r.exp.out THEN "wrong-output"
              ELSE "wrong-panic-message"
\* how the printed output differs: "same"; "lines": different lines; otherwise the same lines with the same leading
\* token, and "zero-expected": every token that differs is a 0 in the reference (a zero value was due);
\* "result-expected": every token that differs is 0 or >= 100 in the reference (in the programs of MiniGoFlow.tla these
\* are the results of function calls: 100 + id, or 0 after a recovered panic - the values of recover() are below 100);
\* "values": anything else
MgSameFrame(a, b) == /\ Len(a) = Len(b)
                     /\ \A l \in 1..Len(a) : Len(a[l]) = Len(b[l]) /\ (Len(a[l]) > 0 => a[l][1] = b[l][1])
MgOutDiff(r) ==
  IF r.out = r.exp.out THEN "same"
  ELSE IF ~MgSameFrame(r.out, r.exp.out) THEN "lines"
  ELSE IF \A l \in 1..Len(r.out) : \A t \in 1..Len(r.out[l]) :
             r.out[l][t] # r.exp.out[l][t] => (r.exp.out[l][t].k = "i" /\ r.exp.out[l][t].n = 0) THEN "zero-expected"
  ELSE IF \A l \in 1..Len(r.out) : \A t \in 1..Len(r.out[l]) :
             r.out[l][t] # r.exp.out[l][t] => (r.exp.out[l][t].k = "i" /\ (r.exp.out[l][t].n = 0 \/ r.exp.out[l][t].n >= 100)) THEN "result-expected"
  ELSE "values"
\* alt = the observable, by the same reference interpreter, of the program with the labels of its break / continue
\* statements erased (outcome "none" when the program has no such variant): names the root cause "the label is ignored"
MgLike(r) == IF r.alt.outcome # "none" /\ r.outcome = r.alt.outcome /\ r.out = r.alt.out THEN "label-ignored" ELSE "other"
\* nest = [jump, at, encl] for a program of MiniGoNest.tla (an unlabelled break / continue in nested statements): the jump,
\* the kind of the statement it refers to by the specification and the kind of the statement around that one - the
\* signature names these instead of the whole nest; jump = "" for every other program
MgRecSig(r) == IF r.nest.jump = ""
               THEN [fam |-> "minigo", shape |-> r.shape, cause |-> MgCause(r), out |-> MgOutDiff(r), like |-> MgLike(r)]
               ELSE [fam |-> "minigo", shape |-> "nest", jump |-> r.nest.jump, at |-> r.nest.at, encl |-> r.nest.encl,
                     cause |-> MgCause(r), out |-> MgOutDiff(r)]

(* ---- variadic, select, constuse: out = the numbers (type names for constuse) the case's program printed *)
MiscFams == {"variadic", "select", "constuse", "maprange"}
MiscOk(r) == r.outcome = "ok" /\ r.out = MiscRef(r)
MiscCause(r) == IF r.outcome # "ok" THEN r.outcome
                ELSE IF r.fam = "variadic" /\ Len(r.out) > r.nfix /\ r.out[r.nfix + 1] # MiscRef(r)[r.nfix + 1] THEN "wrong-nilness"
                ELSE IF r.fam = "select" /\ Len(r.out) > 0 /\ r.out[1] # r.ready THEN "wrong-case-chosen"
                ELSE "wrong-result"
MiscSig(r) == CASE r.fam = "variadic" -> [fam |-> "variadic", mode |-> r.mode, form |-> r.form, cause |-> MiscCause(r)]
                [] r.fam = "select" -> [fam |-> "select", cause |-> MiscCause(r),
                                        chosen |-> IF r.ready = 0 THEN "default" ELSE r.dirs[r.ready]]
                [] r.fam = "constuse" -> [fam |-> "constuse", kind |-> r.kind, how |-> r.how, cause |-> MiscCause(r)]
                [] r.fam = "maprange" -> [fam |-> "maprange", kt |-> r.kt, vt |-> r.vt, form |-> r.form, cause |-> MiscCause(r)]

(* ---- pkginit: {id, imps, vars, inits, form, outcome, out}: out = the lines printed (numbers; -1 for anything else) by the
   program of PkgInit.tla written in source form `form` (0: one import declaration per package, variables before the
   init functions; 1: one grouped import declaration, init functions textually before the variables - the reference
   does not look at the form).  Good iff the program builds, runs to the end and prints the output of the
   initialisation order of the Go specification (Go 1.21 and later: PiRefOut121; see PkgInit.tla); a program
   whose imports form a cycle must not build. *)
PkgProg(r) == [imps |-> r.imps, vars |-> r.vars, inits |-> r.inits]
PkgOk(r) == IF ~PiAcyclic(r.imps) THEN r.outcome = "builderror"        \* (the wording of the error is not judged)
            ELSE r.outcome = "ok" /\ r.out = PiRefOut121(PkgProg(r))
\* like: "import-declaration-order" - the output is the one of the reference with independent packages taken in the order
\* of the import declarations (PiDeclOrder) instead of the order of their import paths; "pending-import-taken-for-an-ancestor"
\* - a build error on an acyclic import graph for which ParseProgram's stack search, taking every entry of the stack
\* for an ancestor (the code before 984b438), reports a cycle
PkgSig(r) == [fam |-> "pkginit",
              cause |-> IF ~PiAcyclic(r.imps) THEN "missed-import-cycle"
                        ELSE IF r.outcome # "ok" THEN r.outcome ELSE PiCause(PkgProg(r), r.out),
              like |-> IF PiAcyclic(r.imps) /\ r.outcome = "builderror" /\ PiParserReportsCycle(PkgProg(r), FALSE)
                       THEN "pending-import-taken-for-an-ancestor"
                       ELSE IF PiAcyclic(r.imps) /\ r.outcome = "ok" /\ r.out = PiRefOutDecl(PkgProg(r)) THEN "import-declaration-order"
                       ELSE "other"]

(* ---- godata: {id, ops, outcome, out, msg}: the reference store model of GoData.tla is run HERE on the logged operations
   (found in the alphabet by their Go text); good iff the program ended the same way (ok, or a run-time panic of the same
   class: the message starts with Go's text for it, the operand values Go appends are not judged) and printed the same
   lines.  A record with an operation that the alphabet does not have (a replay of an older alphabet), or whose
   program the reference leaves undefined (its output depends on the capacity chosen by a growing append; MC_GoData
   does not export such programs), is not judged. *)
GdByText == [t \in {GdOps[j].go : j \in 1..GdN} |-> CHOOSE j \in 1..GdN : GdOps[j].go = t]
GdKnown(r) == \A j \in 1..Len(r.ops) : r.ops[j] \in DOMAIN GdByText
GdRef(r) == GdRun([j \in 1..Len(r.ops) |-> GdByText[r.ops[j]]])
GdStartsWith(m, pre) == Len(m) >= Len(pre) /\ SubSeq(m, 1, Len(pre)) = pre
GdOkE(r, e) == e.und \/ (/\ r.outcome = e.outcome
                         /\ r.out = e.out
                         /\ (e.outcome = "panic" => GdStartsWith(r.msg, GdMsgPrefix(e.msg))))
GdOk(r) == ~GdKnown(r) \/ GdOkE(r, GdRef(r))
\* the first printed line that differs (one past the shorter output when one is a prefix of the other): line l is printed
\* after operation l - 1; the signature names that operation (its Go text) and what is wrong
GdFirstDiff(a, b) == LET n == IF Len(a) < Len(b) THEN Len(a) ELSE Len(b)
                         DS == {l \in 1..n : a[l] # b[l]} IN
                     IF DS = {} THEN n + 1 ELSE CHOOSE l \in DS : \A o \in DS : l <= o
\* like: the deviation of GoData.tla (see "alt" there) under which the store model gives exactly the observed behaviour
GdProg(r) == [j \in 1..Len(r.ops) |-> GdByText[r.ops[j]]]
GdIsAlt(r, alt) == LET e == GdRunAlt(GdProg(r), alt) IN ~e.und /\ r.outcome = e.outcome /\ r.out = e.out
\* (single deviations first, then their combinations: a program may run into two of them)
GdAlts == << <<{"cladr"}, "address-of-part-of-captured-variable-in-closure-is-of-a-copy">>,
             <<{"replace"}, "assignment-replaces-storage">>, <<{"palost"}, "write-through-array-pointer-lost">>,
             <<{"rangelive"}, "range-over-array-not-a-copy">>,
             <<{"replace", "palost"}, "assignment-replaces-storage+write-through-array-pointer-lost">>,
             <<{"replace", "rangelive"}, "assignment-replaces-storage+range-over-array-not-a-copy">>,
             <<{"palost", "rangelive"}, "write-through-array-pointer-lost+range-over-array-not-a-copy">>,
             <<{"replace", "palost", "rangelive"}, "assignment-replaces-storage+write-through-array-pointer-lost+range-over-array-not-a-copy">> >>
RECURSIVE GdLikeFrom(_, _)
GdLikeFrom(r, j) == IF j > Len(GdAlts) THEN "other" ELSE IF GdIsAlt(r, GdAlts[j][1]) THEN GdAlts[j][2] ELSE GdLikeFrom(r, j + 1)
GdLike(r) == GdLikeFrom(r, 1)
GdSigE(r, e) ==
  LET l == GdFirstDiff(r.out, e.out) IN
  [fam |-> "godata", like |-> GdLike(r),
   cause |-> IF r.outcome \notin {"ok", "panic"} THEN r.outcome
             ELSE IF r.outcome # e.outcome THEN (IF e.outcome = "panic" THEN "missing-panic" ELSE "unexpected-panic")
             ELSE IF r.out # e.out THEN "wrong-output" ELSE "wrong-panic-message",
   at |-> IF l = 1 THEN "declarations" ELSE IF l - 1 > Len(r.ops) THEN "end" ELSE r.ops[l - 1],
   after |-> IF l <= 2 \/ l - 2 > Len(r.ops) THEN "" ELSE r.ops[l - 2]]
GdSig(r) == IF GdKnown(r) THEN GdSigE(r, GdRef(r)) ELSE [fam |-> "godata", like |-> "other", cause |-> "unknown-operation", at |-> "", after |-> ""]

(* ---- goiface: {id, ops, outcome, out, msg}: the reference of GoIface.tla is run HERE on the logged operations (found in the
   alphabet by their Go text); good iff the program ended the same way (ok, or a run-time panic of the same class: the message
   starts with Go's text for the class; the types named after it are not judged) and printed the same lines.  A record with an
   operation that the alphabet does not have (a replay of an older alphabet) is not judged. *)
GiByText == [t \in {GiOps[j].go : j \in 1..GiN} |-> CHOOSE j \in 1..GiN : GiOps[j].go = t]
GiKnown(r) == \A j \in 1..Len(r.ops) : r.ops[j] \in DOMAIN GiByText
GiRef(r) == GiRun([j \in 1..Len(r.ops) |-> GiByText[r.ops[j]]])
GiOkE(r, e) == /\ r.outcome = e.outcome
               /\ r.out = e.out
               /\ (e.outcome = "panic" => GdStartsWith(r.msg, GiMsgPrefix(e.msg)))
GiOk(r) == ~GiKnown(r) \/ GiOkE(r, GiRef(r))
\* the signature names the operation after which the first differing line was printed (its Go text), the kind of the
\* operation before it, what is wrong, and ind: does the program contain an operation of GiIndirect (e or g is captured by a
\* function literal or its address is taken)
GiSigE(r, e) ==
  LET l == GdFirstDiff(r.out, e.out) IN
  [fam |-> "goiface",
   cause |-> IF r.outcome \notin {"ok", "panic"} THEN r.outcome
             ELSE IF r.outcome # e.outcome THEN (IF e.outcome = "panic" THEN "missing-panic" ELSE "unexpected-panic")
             ELSE IF r.out # e.out THEN "wrong-output" ELSE "wrong-panic-message",
   at |-> IF l = 1 THEN "declarations" ELSE IF l - 1 > Len(r.ops) THEN "end" ELSE r.ops[l - 1],
   after |-> IF l <= 2 \/ l - 2 > Len(r.ops) THEN "" ELSE r.ops[l - 2],
   ind |-> \E j \in 1..Len(r.ops) : r.ops[j] \in GiIndirect]
GiSig(r) == IF GiKnown(r) THEN GiSigE(r, GiRef(r)) ELSE [fam |-> "goiface", cause |-> "unknown-operation", at |-> "", after |-> "", ind |-> FALSE]

RecOk(r) == CASE r.fam = "intalu" -> AluOk(r) [] r.fam = "initorder" -> InitOk(r) [] r.fam = "conv" -> ConvOk(r) [] r.fam = "minigo" -> MgOk(r)
              [] r.fam \in MiscFams -> MiscOk(r) [] r.fam = "pkginit" -> PkgOk(r) [] r.fam = "godata" -> GdOk(r) [] r.fam = "goiface" -> GiOk(r)
Sig(r) == CASE r.fam = "intalu" -> AluSig(r) [] r.fam = "initorder" -> InitSig(r) [] r.fam = "conv" -> ConvSig(r) [] r.fam = "minigo" -> MgRecSig(r)
            [] r.fam \in MiscFams -> MiscSig(r) [] r.fam = "pkginit" -> PkgSig(r) [] r.fam = "godata" -> GdSig(r) [] r.fam = "goiface" -> GiSig(r)
\* (goiface: the programs with an operation of GiIndirect apart, so that the records of one root cause that spoils whole programs
\* cannot push a different failure out of a capped list)
Cause(r) == <<r.fam, Sig(r).cause>> \o (IF r.fam = "goiface" /\ Sig(r).ind THEN <<"ind">> ELSE <<>>)

(* ---- record-walk skeleton (as in spec/lib2/Trace_HTMLEscape.tla).  One difference: when more than 400 records are bad, the list
   written out is capped PER CAUSE (first 60 of each) instead of globally, so that the
   hundreds of records of one known root cause cannot push a different failure out of the list. *)
VARIABLES l, nbad
Obs == ndJsonDeserialize("obs.ndjson")
Init == l = 1 /\ nbad = 0
Next == l <= Len(Obs) /\ l' = l + 1 /\ nbad' = nbad + (IF RecOk(Obs[l]) THEN 0 ELSE 1)
\* (an operator with a parameter: TLC evaluates zero-argument constant definitions eagerly at start-up,
\* which would judge every record a second time)
BadIdx(n) == SelectSeq([i \in 1..n |-> i], LAMBDA i : ~RecOk(Obs[i]))
RECURSIVE BadPick(_, _, _)
BadPick(bi, cs, j) ==        \* for each cause of the sequence cs, the first 60 bad records with that cause
  IF j > Len(cs) THEN <<>>
  ELSE LET mine == SelectSeq(bi, LAMBDA i : Cause(Obs[i]) = cs[j]) IN
       (IF Len(mine) <= 60 THEN mine ELSE SubSeq(mine, 1, 60)) \o BadPick(bi, cs, j + 1)
Done == l = Len(Obs) + 1 =>
          ndJsonSerialize("bad.ndjson",
             IF nbad = 0 THEN <<>>
             ELSE LET bi == BadIdx(Len(Obs))
                      cs == SetToSeq({Cause(Obs[bi[j]]) : j \in 1..Len(bi)})
                      sel == IF Len(bi) <= 400 THEN bi ELSE BadPick(bi, cs, 1) IN
                  [j \in 1..Len(sel) |-> [k |-> sel[j], id |-> Obs[sel[j]].id, sig |-> Sig(Obs[sel[j]]), nbad |-> nbad]])
Consumed == TLCGet("stats").diameter - 1 = Len(Obs)
=============================================================================

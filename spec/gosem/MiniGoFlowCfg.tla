---------------------------- MODULE MiniGoFlowCfg ----------------------------
(* Bounds of the defer/panic/recover program space; rewritten per run by checks/c01.py (a module
   without CONSTANTS: TLC evaluates its definitions, and MC_MiniGoFlow's, once). *)
MgfMaxNodes == 4
MgfLiteralUpTo == 4
=============================================================================

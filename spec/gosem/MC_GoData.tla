------------------------------ MODULE MC_GoData ------------------------------
(* The program space of GoData.tla, structured: for EVERY ORDERED PAIR (x, y) of operations of the alphabet
   (one pair out of GdStep, chosen by the seed, in the quick tier) and every j in 1..GdPre the program
       prefix(x, y, j) ; x ; y
   where the prefix is GdPreLen operations drawn from the alphabet by a fixed arithmetic function of
   (seed, x, y, j) - it puts the store into some aliasing state before the pair runs (of up to GdTries
   candidates the first after which x completes is taken, see GdPrefix).  So every operation
   is run directly after every operation; programs have GdPreLen + 2 operations and print the observable
   state GdPreLen + 3 times.
   One behaviour per program: state 1 = program chosen, state 2 = the reference has run it; each defined
   program is exported as a case (a line <<"CASE", json>> of TLC's output, read by checks/c01.py): the
   texts of its operations, which capacities each printed line shows (capk: the driver prints cap(x) only
   where the reference says the capacity is fixed by the language), and statistics.  The expected output
   is NOT exported: the judge (Trace_GoSem) runs the reference again on the logged operations.
   Invariants (sanity of the reference on every program):
     GdShape     one line per operation that completed, plus the initial one; a panic has a class
     GdStoreSane every slice lies within its backing array, array variables keep their length, a
                 capacity printed is the true one (window inside the array), pointers point to existing objects
     GdTextsUnique  the Go texts of the alphabet are pairwise different (the judge finds operations by text) *)
EXTENDS GoData, GoDataCfg, SequencesExt, FiniteSets, TLC, Json
VARIABLES p, res        \* res = the final store, or GdInit with outcome "notrun"

GdH(x, y, j, q) == ((GdSeed * 7919 + x * 131 + y * 31 + j * 17 + q * 53) % GdN) + 1
GdPairs == {xy \in (1..GdN) \X (1..GdN) : (xy[1] * 7 + xy[2] + GdSeed) % GdStep = 0}
\* the j-th prefix for the pair (x, y): the first of GdTries drawn candidates after which x completes (neither the prefix
\* nor x panics or is undefined), so that y really runs after x wherever some drawn prefix allows it; else the first candidate
GdTries == 12
GdCand(x, y, j, k) == [q \in 1..GdPreLen |-> GdH(x, y, j + 101 * k, q)]
GdCompletes(prog) == LET r == GdRunFrom(GdInit, prog, 1) IN r.outcome = "ok" /\ ~r.und
RECURSIVE GdPrefix(_, _, _, _)
GdPrefix(x, y, j, k) == IF k >= GdTries THEN GdCand(x, y, j, 0)
                        ELSE IF GdCompletes(Append(GdCand(x, y, j, k), x)) THEN GdCand(x, y, j, k) ELSE GdPrefix(x, y, j, k + 1)
GdProgs == SetToSeq({GdPrefix(xy[1], xy[2], j, 0) \o <<xy[1], xy[2]>> : xy \in GdPairs, j \in 1..GdPre})

Init == p \in 1..Len(GdProgs) /\ res = [GdInit EXCEPT !.outcome = "notrun"]
Emit(id, prog, r) ==
  r.und \/ PrintT(<<"CASE", ToJson([id |-> id, fam |-> "godata", ops |-> [j \in 1..Len(prog) |-> GdOps[prog[j]].go],
                                    capk |-> r.capk, kinds |-> [j \in 1..Len(prog) |-> GdKind(prog[j])],
                                    exp |-> [outcome |-> r.outcome, cls |-> r.msg, lines |-> Len(r.out)]])>>)
RunOne(id, prog) == LET r == GdRun(prog) IN IF Emit(id, prog, r) THEN r ELSE [r EXCEPT !.outcome = "export-failed"]
Next == res.outcome = "notrun" /\ res' = RunOne(p, GdProgs[p]) /\ p' = p

GdShape == res.outcome # "notrun" =>
   /\ res.outcome \in {"ok", "panic"}
   /\ Len(res.capk) = Len(res.out)
   /\ (res.outcome = "ok" /\ ~res.und => Len(res.out) = Len(GdProgs[p]) + 1)
   /\ (res.outcome = "panic" => Len(res.out) <= Len(GdProgs[p]) /\ res.msg \in {"index", "bounds", "nilmap", "nilderef"})
GdStoreSane == res.outcome # "notrun" =>
   /\ Len(res.arrs[1]) = 3 /\ Len(res.arrs[2]) = 3
   /\ \A v \in {"s", "t", "u"} : LET sl == res.sl[v] IN
        IF sl.a = 0 THEN sl = GdNilSl
        ELSE sl.a \in 1..Len(res.arrs) /\ sl.off >= 0 /\ sl.len >= 0 /\ sl.len <= sl.cap /\ sl.off + sl.cap <= Len(res.arrs[sl.a])
   /\ \A v \in {"m", "n"} : res.mp[v] \in 0..Len(res.maps)
   /\ res.pt \in 0..Len(res.sts)
   /\ \A j \in 1..Len(res.sts) : Len(res.sts[j].a) = 2
   /\ (res.pi.k = "arr" => res.pi.n \in 1..Len(res.arrs) /\ res.pi.j \in 1..Len(res.arrs[res.pi.n]))
   /\ (res.pi.k \in {"sx", "sa"} => res.pi.n \in 1..Len(res.sts))
   /\ res.rs = GdNilSl
GdTextsUnique == Cardinality({GdOps[j].go : j \in 1..GdN}) = GdN
=============================================================================

------------------------------ MODULE GoDataCfg ------------------------------
(* Bounds of the program space of MC_GoData; rewritten per run by checks/c01.py (a module without
   CONSTANTS: TLC evaluates its definitions, and MC_GoData's, once).
   GdSeed: the run's seed; GdPre: drawn prefixes per ordered pair of operations; GdPreLen: operations
   per prefix; GdStep: one ordered pair out of GdStep is taken (which ones: by the seed). *)
GdSeed == 1
GdPre == 1
GdPreLen == 1
GdStep == 3
=============================================================================

------------------------------ MODULE InitOrder ------------------------------
(* C01 part 2.  Package-level initialisation order.
   A package is a dependency graph: nodes 1..nv are the package-level variables in DECLARATION
   ORDER, nodes nv+1..nv+nf are functions; deps[n] is the sequence of nodes that the initialisation
   expression (variable) or the body (function) of n refers to.

   REFERENCE (Go specification, "Package initialization"): a reference to a variable or function
   is an identifier denoting it; x depends on y if x's initialisation expression or body refers
   to y or to a function that depends on y (dependency through functions is transitive).
   "More precisely... the next package-level variable that is earliest in declaration order and
   ready for initialization [= not yet initialised and has no uninitialised dependency] is
   initialised, repeatedly until there are no variables ready."  If a variable depends on itself
   the program is not valid (initialization cycle: a build error).  A cycle through functions
   only (recursion) is not an initialisation cycle.

   IMPLEMENTATION-SHAPED: internal/compiler/checker_package.go sortDeclarations (the "Sorts
   variables" loop and detectVarsLoop/checkDepsPath) over the dependencies collected by
   checker_dependencies.go. *)
EXTENDS Integers, Sequences, FiniteSets

IoRange(s) == {s[j] : j \in 1..Len(s)}
IoMin(S) == CHOOSE m \in S : \A o \in S : m <= o
IoSucc(deps, S) == UNION {IoRange(deps[n]) : n \in S}
RECURSIVE IoReachFrom(_, _, _)
IoReachFrom(deps, S, k) == IF k = 0 THEN S
                         ELSE LET T == S \cup IoSucc(deps, S) IN IF T = S THEN S ELSE IoReachFrom(deps, T, k - 1)
\* nodes reachable from n in one or more steps
IoReach(deps, n) == IoReachFrom(deps, IoSucc(deps, {n}), Len(deps))

(* ---------- reference *)
\* a variable depends on itself
RefCyclic(deps, nv) == \E v \in 1..nv : v \in IoReach(deps, v)
\* the variables v depends on (directly, or through any chain of functions and variables)
VarDeps(deps, nv, v) == IoReach(deps, v) \cap (1..nv)
RECURSIVE RefInit(_, _, _)
RefInit(deps, nv, done) ==
  LET D == IoRange(done)
      ready == {v \in 1..nv : v \notin D /\ VarDeps(deps, nv, v) \subseteq D}
  IN IF ready = {} THEN done ELSE RefInit(deps, nv, Append(done, IoMin(ready)))
\* the order in which the variables are initialised (defined when ~RefCyclic)
RefOrder(deps, nv) == RefInit(deps, nv, <<>>)

(* ---------- implementation-shaped *)
\* checkDepsPath: depth-first over the dependencies of the last element of path; a loop is reported as
\* soon as a dependency is already on the path - whatever kind of node it is
RECURSIVE DepsPath(_, _)
DepsPath(deps, path) ==
  LET last == path[Len(path)] IN
  \E j \in 1..Len(deps[last]) :
     LET d == deps[last][j] IN (\E p \in 1..Len(path) : path[p] = d) \/ DepsPath(deps, Append(path, d))
\* detectVarsLoop: for every variable
ImplCyclic(deps, nv) == \E v \in 1..nv : DepsPath(deps, <<v>>)
\* "Sorts variables": the first remaining variable all of whose DIRECT dependencies are resolved - a
\* dependency is resolved when it is an already sorted variable or ANY function
IoRemoveAt(s, i) == SubSeq(s, 1, i - 1) \o SubSeq(s, i + 1, Len(s))
RECURSIVE ImplSort(_, _, _, _)
ImplSort(deps, nv, vars, sorted) ==
  IF vars = <<>> THEN sorted
  ELSE LET idx == {i \in 1..Len(vars) :
                     \A j \in 1..Len(deps[vars[i]]) :
                        LET d == deps[vars[i]][j] IN d > nv \/ (\E s \in 1..Len(sorted) : sorted[s] = d)}
       IN IF idx = {} THEN sorted \o vars
          ELSE LET i == IoMin(idx) IN ImplSort(deps, nv, IoRemoveAt(vars, i), Append(sorted, vars[i]))
ImplOrder(deps, nv) == ImplSort(deps, nv, [i \in 1..nv |-> i], <<>>)

\* outcome records: [cyc |-> BOOLEAN, order |-> sequence of variables]
RefOutcomeIO(deps, nv) == IF RefCyclic(deps, nv) THEN [cyc |-> TRUE, order |-> <<>>] ELSE [cyc |-> FALSE, order |-> RefOrder(deps, nv)]
ImplOutcomeIO(deps, nv) == IF ImplCyclic(deps, nv) THEN [cyc |-> TRUE, order |-> <<>>] ELSE [cyc |-> FALSE, order |-> ImplOrder(deps, nv)]

(* ---------- graphs as increasing sequences of edge codes: edge (i -> j) over n nodes has code (i-1)*n + (j-1) *)
RECURSIVE IncSeqs(_, _, _)
IncSeqs(lo, hi, k) == {<<>>} \cup (IF k = 0 THEN {} ELSE UNION {{<<e>> \o t : t \in IncSeqs(e + 1, hi, k - 1)} : e \in lo..hi})
DepsOf(es, n) == [i \in 1..n |-> SelectSeq([j \in 1..n |-> j], LAMBDA j : \E q \in 1..Len(es) : es[q] = (i - 1) * n + (j - 1))]
=============================================================================

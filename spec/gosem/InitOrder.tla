------------------------------ MODULE InitOrder ------------------------------
(* C01 part 2.  Package-level initialisation order.
   A package is a dependency graph: nodes 1..nv are the package-level variables in DECLARATION
   ORDER, nodes nv+1..nv+nf are functions; deps[n] is the sequence of nodes that the initialisation
   expression (variable) or the body (function) of n refers to.

   REFERENCE (Go specification, "Package initialization"): a reference to a variable or function
   is an identifier denoting it; x depends on y if x's initialisation expression or body refers
   to y or to a function that depends on y (dependency through functions is transitive).
   "More precisely... the next package-level variable that is earliest in declaration order and
   ready for initialization [= not yet initialised and has no uninitialised dependency] is
   initialised, repeatedly until there are no variables ready."  If a variable depends on itself
   the program is not valid (initialization cycle: a build error).  A cycle through functions
   only (recursion) is not an initialisation cycle.

   IMPLEMENTATION-SHAPED: internal/compiler/checker_package.go sortDeclarations (the "Sorts
   variables" loop with funcVarsResolved, and detectVarsLoop/checkDepsPath) over the dependencies
   collected by checker_dependencies.go, which lists them in textual order. *)
EXTENDS Integers, Sequences, FiniteSets

IoRange(s) == {s[j] : j \in 1..Len(s)}
IoMin(S) == CHOOSE m \in S : \A o \in S : m <= o
IoSucc(deps, S) == UNION {IoRange(deps[n]) : n \in S}
RECURSIVE IoReachFrom(_, _, _)
IoReachFrom(deps, S, k) == IF k = 0 THEN S
                         ELSE LET T == S \cup IoSucc(deps, S) IN IF T = S THEN S ELSE IoReachFrom(deps, T, k - 1)
\* nodes reachable from n in one or more steps
IoReach(deps, n) == IoReachFrom(deps, IoSucc(deps, {n}), Len(deps))

(* ---------- reference *)
\* a variable depends on itself
RefCyclic(deps, nv) == \E v \in 1..nv : v \in IoReach(deps, v)
\* the variables v depends on (directly, or through any chain of functions and variables)
VarDeps(deps, nv, v) == IoReach(deps, v) \cap (1..nv)
\* vd[v] = VarDeps of v (computed once and passed down)
RECURSIVE RefInit(_, _, _)
RefInit(vd, nv, done) ==
  LET D == IoRange(done)
      ready == {v \in 1..nv : v \notin D /\ vd[v] \subseteq D}
  IN IF ready = {} THEN done ELSE RefInit(vd, nv, Append(done, IoMin(ready)))
\* the order in which the variables are initialised (defined when ~RefCyclic)
RefOrder(deps, nv) == RefInit([v \in 1..nv |-> VarDeps(deps, nv, v)] \o <<>>, nv, <<>>)

(* ---------- implementation-shaped *)
\* checkDepsPath: depth-first over the dependencies (in textual order) of the last element of path; a loop
\* is reported when a dependency is path[1] (the node the search started from); a dependency that is
\* already on the path elsewhere closes a cycle that does not go through path[1] (recursive functions)
\* and is skipped
RECURSIVE DepsPath(_, _)
DepsPath(deps, path) ==
  LET last == path[Len(path)] IN
  \E j \in 1..Len(deps[last]) :
     LET d == deps[last][j] IN
     \/ d = path[1]
     \/ (\A p \in 2..Len(path) : path[p] # d) /\ DepsPath(deps, Append(path, d))
\* detectVarsLoop: for every variable
ImplCyclic(deps, nv) == \E v \in 1..nv : DepsPath(deps, <<v>>)
\* funcVarsResolved(name, deps, funcs, unresolved, seen): the dependencies of the function f are visited in
\* textual order, `seen` (the cycle guard) is shared by the whole visit started by one dependency of one
\* variable; result [ok, seen]
RECURSIVE FuncResolved(_, _, _, _, _), FuncResolvedFrom(_, _, _, _, _, _)
FuncResolved(deps, nv, unres, f, seen) ==
  IF f \in seen THEN [ok |-> TRUE, seen |-> seen] ELSE FuncResolvedFrom(deps, nv, unres, f, 1, seen \cup {f})
FuncResolvedFrom(deps, nv, unres, f, j, seen) ==
  IF j > Len(deps[f]) THEN [ok |-> TRUE, seen |-> seen]
  ELSE LET d == deps[f][j] IN
       IF d <= nv THEN (IF d \in unres THEN [ok |-> FALSE, seen |-> seen] ELSE FuncResolvedFrom(deps, nv, unres, f, j + 1, seen))
       ELSE LET r == FuncResolved(deps, nv, unres, d, seen) IN
            IF ~r.ok THEN r ELSE FuncResolvedFrom(deps, nv, unres, f, j + 1, r.seen)
\* "Sorts variables": the first remaining variable all of whose DIRECT dependencies are resolved - a
\* dependency is resolved when it is an already sorted variable, or a function none of whose variables
\* (also through other functions) is still unsorted
IoRemoveAt(s, i) == SubSeq(s, 1, i - 1) \o SubSeq(s, i + 1, Len(s))
RECURSIVE ImplSort(_, _, _, _)
ImplSort(deps, nv, vars, sorted) ==
  IF vars = <<>> THEN sorted
  ELSE LET idx == {i \in 1..Len(vars) :
                     \A j \in 1..Len(deps[vars[i]]) :
                        LET d == deps[vars[i]][j] IN
                        IF d <= nv THEN \E s \in 1..Len(sorted) : sorted[s] = d
                        ELSE FuncResolved(deps, nv, IoRange(vars), d, {}).ok}
       IN IF idx = {} THEN sorted \o vars
          ELSE LET i == IoMin(idx) IN ImplSort(deps, nv, IoRemoveAt(vars, i), Append(sorted, vars[i]))
ImplOrder(deps, nv) == ImplSort(deps, nv, [i \in 1..nv |-> i], <<>>)

\* the declaration sort before commit f349351 (every function counted as resolved): kept only to name the
\* cause of a wrong order in the signature of a finding ("function-dependencies-not-followed")
RECURSIVE LegacySort(_, _, _, _)
LegacySort(deps, nv, vars, sorted) ==
  IF vars = <<>> THEN sorted
  ELSE LET idx == {i \in 1..Len(vars) :
                     \A j \in 1..Len(deps[vars[i]]) :
                        LET d == deps[vars[i]][j] IN d > nv \/ (\E s \in 1..Len(sorted) : sorted[s] = d)}
       IN IF idx = {} THEN sorted \o vars
          ELSE LET i == IoMin(idx) IN LegacySort(deps, nv, IoRemoveAt(vars, i), Append(sorted, vars[i]))
LegacyOrder(deps, nv) == LegacySort(deps, nv, [i \in 1..nv |-> i], <<>>)
\* checkDepsPath before commit 249c3be (a dependency anywhere on the path is a loop): names the cause
\* "recursion-reported-as-cycle"
RECURSIVE LegacyDepsPath(_, _)
LegacyDepsPath(deps, path) ==
  LET last == path[Len(path)] IN
  \E j \in 1..Len(deps[last]) :
     LET d == deps[last][j] IN (\E p \in 1..Len(path) : path[p] = d) \/ LegacyDepsPath(deps, Append(path, d))
LegacyCyclic(deps, nv) == \E v \in 1..nv : LegacyDepsPath(deps, <<v>>)

\* outcome records: [cyc |-> BOOLEAN, order |-> sequence of variables]
RefOutcomeIO(deps, nv) == IF RefCyclic(deps, nv) THEN [cyc |-> TRUE, order |-> <<>>] ELSE [cyc |-> FALSE, order |-> RefOrder(deps, nv)]
ImplOutcomeIO(deps, nv) == IF ImplCyclic(deps, nv) THEN [cyc |-> TRUE, order |-> <<>>] ELSE [cyc |-> FALSE, order |-> ImplOrder(deps, nv)]

(* ---------- graphs as increasing sequences of edge codes: edge (i -> j) over n nodes has code (i-1)*n + (j-1).
   The dependencies of a node are listed in the order in which the source text mentions them: ascending
   node numbers (DepsOf) or descending (DepsOfRev) - the reference does not look at that order. *)
\* all increasing sequences over lo..hi of length <= k, as a sequence (built by concatenation: UNION over sets
\* of sequences is quadratic in TLC)
IoPrefixAll(e, T) == [i \in 1..Len(T) |-> <<e>> \o T[i]] \o <<>>      \* (T as an argument: evaluated once; \o <<>> materialises)
RECURSIVE IncSeqs(_, _, _), IncSeqsFrom(_, _, _)
IncSeqs(lo, hi, k) == <<<<>>>> \o (IF k = 0 THEN <<>> ELSE IncSeqsFrom(lo, hi, k))
IncSeqsFrom(e, hi, k) == IF e > hi THEN <<>> ELSE IoPrefixAll(e, IncSeqs(e + 1, hi, k - 1)) \o IncSeqsFrom(e + 1, hi, k)
DepsOf(es, n) == [i \in 1..n |-> SelectSeq([j \in 1..n |-> j], LAMBDA j : \E q \in 1..Len(es) : es[q] = (i - 1) * n + (j - 1))]
IoReverse(s) == [j \in 1..Len(s) |-> s[Len(s) + 1 - j]]
DepsOfRev(es, n) == LET d == DepsOf(es, n) IN [i \in 1..n |-> IoReverse(d[i])]
\* the edge codes of the "through functions" graphs: every edge has a function at one end at least
\* (variable -> function, function -> function incl. recursion, function -> variable)
ThruCodes(nv, n) == SelectSeq([c \in 1..(n * n) |-> c - 1], LAMBDA c : (c \div n) + 1 > nv \/ (c % n) + 1 > nv)
AllCodes(n) == [c \in 1..(n * n) |-> c - 1]
=============================================================================

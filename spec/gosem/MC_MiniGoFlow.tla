---------------------------- MODULE MC_MiniGoFlow ----------------------------
(* Runs the reference interpreter on every defer/panic/recover program with at most MgfMaxNodes
   nodes (MiniGoFlow.tla) - one behaviour per program: state 1 = program chosen, state 2 = it has
   run - and exports every program all of whose nodes ran, with its observable, as a case
   (a line <<"CASE", json>> of TLC's output, read by checks/c01.py; the workers share the programs).
   forms = the source forms the driver is to write the program in: functions declared at top level
   ("named") and, for programs of at most MgfLiteralUpTo nodes, also as function literals ("literal").
   InDomain: every program ends by returning from main or by an unrecovered panic. *)
EXTENDS MiniGoFlow, MiniGoFlowCfg, TLC, Json
VARIABLES p, oc
Trees == MgfAll(MgfMaxNodes)
Init == p \in 1..Len(Trees) /\ oc = "notrun"
Emit(id, prog, r) ==
  IF r.outcome \in {"ok", "panic"} /\ MgfAllRan(prog, r.out)
  THEN PrintT(<<"CASE", ToJson([id |-> id, fam |-> "minigo", shape |-> "deferflow",
                                forms |-> IF prog.nv - 1 <= MgfLiteralUpTo THEN <<"named", "literal">> ELSE <<"named">>,
                                prog |-> prog, exp |-> r])>>)
  ELSE TRUE
RunOne(id, prog) == LET r == Run(prog) IN IF Emit(id, prog, r) THEN r.outcome ELSE "export-failed"
Next == oc = "notrun" /\ oc' = RunOne(p, MgfProg(Trees[p])) /\ p' = p
InDomain == oc \in {"notrun", "ok", "panic"}
=============================================================================

------------------------------ MODULE MC_GoMisc ------------------------------
(* The case spaces of GoMisc.tla, one state per case, with sanity invariants of the reference;
   exports the cases.
     variadic: nfix 0..2 x element type int / string x form (named function / function literal) x
               (0..3 variadic arguments, or a spread nil / empty / two-element slice)
     select:   2 and 3 channels x element types int / string per channel x send / receive per case x
               which case is ready (or none, with a default) x with / without default
     constuse: bool and int constants, literal or declared, 1..Depth uses over the types of the kind
               incl. interface{}, by var declaration or by conversion
     maprange: key type x value type (int / string) x iteration variables (k / k, v / _, v) x 0..2 other live string
               variables x 0..1 other live int variables *)
EXTENDS GoMisc, TLC, Json, FiniteSets, SequencesExt
CONSTANTS Depth
Variadics ==
  {[fam |-> "variadic", nfix |-> nf, ety |-> t, form |-> f, mode |-> "args", nvar |-> nv, spread |-> 0] :
      nf \in 0..2, t \in {"int", "string"}, f \in {"named", "literal"}, nv \in 0..3}
  \cup {[fam |-> "variadic", nfix |-> nf, ety |-> t, form |-> f, mode |-> "spread", nvar |-> 0, spread |-> s] :
      nf \in 0..2, t \in {"int", "string"}, f \in {"named", "literal"}, s \in 0..2}
SelectsN(n) ==
  {[fam |-> "select", types |-> ts, dirs |-> ds, ready |-> r, def |-> d] :
      ts \in [1..n -> {"int", "string"}], ds \in [1..n -> {"send", "recv"}], r \in 0..n, d \in {0, 1}}
Selects == {c \in SelectsN(2) \cup SelectsN(3) : c.ready > 0 \/ c.def = 1}
UsesOf(kind) == IF kind = "bool" THEN {"any", "bool", "B"} ELSE {"any", "int", "I", "int8", "float64"}
ConstUses ==
  UNION {{[fam |-> "constuse", kind |-> k, decl |-> d, how |-> h, uses |-> u] : d \in {0, 1}, h \in {"var", "conv"}, u \in [1..n -> UsesOf(k)]} :
            n \in 1..Depth, k \in {"bool", "int"}}
MapRanges == {[fam |-> "maprange", kt |-> kt, vt |-> vt, form |-> f, live |-> l, ilive |-> il] :
                 kt \in {"int", "string"}, vt \in {"int", "string"}, f \in {"k", "kv", "v"}, l \in 0..2, il \in 0..1}
All == Variadics \cup Selects \cup ConstUses \cup MapRanges
WithId(G) == [i \in 1..Len(G) |-> [id |-> i, c |-> G[i]]]
ASSUME ndJsonSerialize("cases.ndjson", WithId(SetToSeq(All)))

VARIABLE c
Init == c \in All
Next == FALSE /\ c' = c
\* variadic: nil exactly when nothing (or a nil slice) is passed; the length printed is the number of elements printed
VariadicSane == c.fam = "variadic" =>
   LET r == VariadicRef(c) IN
   /\ (r[c.nfix + 1] = 1) = ((c.mode = "args" /\ c.nvar = 0) \/ (c.mode = "spread" /\ c.spread = 0))
   /\ Len(r) = c.nfix + 2 + r[c.nfix + 2] + (IF c.mode = "spread" /\ c.spread = 2 THEN 1 ELSE 0)
\* select: exactly one communication happens (the total number of buffered values changes by one) unless default is chosen
RECURSIVE SumLen(_, _, _)
SumLen(c2, i, after) == IF i > Len(c2.dirs) THEN 0 ELSE Len(IF after THEN SelAfter(c2, i) ELSE SelBefore(c2, i)) + SumLen(c2, i + 1, after)
SelectSane == c.fam = "select" =>
   LET d == SumLen(c, 1, TRUE) - SumLen(c, 1, FALSE) IN
   IF c.ready = 0 THEN d = 0 ELSE d = (IF c.dirs[c.ready] = "send" THEN 1 ELSE -1)
\* maprange: the live variables are shown unchanged at the end, whatever the loop is
MapRangeSane == c.fam = "maprange" =>
   LET r == MapRangeRef(c)
       tail == (IF c.live >= 1 THEN <<1, 112>> ELSE <<>>) \o (IF c.live >= 2 THEN <<1, 113>> ELSE <<>>) \o (IF c.ilive >= 1 THEN <<3>> ELSE <<>>) IN
   Len(r) >= Len(tail) /\ SubSeq(r, Len(r) - Len(tail) + 1, Len(r)) = tail
\* constuse: a typed use keeps its type whatever the other uses are
ConstUseSane == c.fam = "constuse" =>
   \A j \in 1..Len(c.uses) : c.uses[j] # "any" => ConstUseRef(c)[j] = c.uses[j]
=============================================================================

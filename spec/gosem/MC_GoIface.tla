------------------------------ MODULE MC_GoIface ------------------------------
(* The program space of GoIface.tla, structured as the one of MC_GoData: for EVERY ORDERED PAIR (x, y) of operations
   of the alphabet (one pair out of GiStep, chosen by the seed, in the quick tier) and every j in 1..GiPre the program
       prefix(x, y, j) ; x ; y
   where the prefix is GiPreLen operations drawn from the alphabet by a fixed arithmetic function of (seed, x, y, j) -
   it puts some dynamic types into e and g before the pair runs (of up to GiTries candidates the first after which
   x completes - no panic - is taken).  So every operation is run directly after every operation.
   One behaviour per program: state 1 = program chosen, state 2 = the reference has run it; each program is exported as a
   case (a line <<"CASE", json>> of TLC's output, read by checks/c01.py): the Go texts of its operations and statistics.
   The expected output is NOT exported: the judge (Trace_GoSem) runs the reference again on the logged operations.
   Invariants (sanity of the reference on every program):
     GiShape        one line per operation that completed, plus the initial one; a panic has a class
     GiTyped        every variable of a static type holds a value of that type; e and g hold the nil interface value or a
                    value of a non-interface type; the variable bound by a type switch is dead outside the switch
     GiTextsUnique  the Go texts of the alphabet are pairwise different (the judge finds operations by text) *)
EXTENDS GoIface, GoIfaceCfg, SequencesExt, FiniteSets, TLC, Json
VARIABLES p, res        \* p = [id, ops]: the program; res = its final state, or GiInit with outcome "notrun"

GiH(x, y, j, q) == ((GiSeed * 7919 + x * 131 + y * 31 + j * 17 + q * 53) % GiN) + 1
GiPairs == {xy \in (1..GiN) \X (1..GiN) : (xy[1] * 7 + xy[2] + GiSeed) % GiStep = 0}
GiTries == 12
GiCand(x, y, j, k) == [q \in 1..GiPreLen |-> GiH(x, y, j + 101 * k, q)]
GiCompletes(prog) == GiRunFrom(GiInit, prog, 1).outcome = "ok"
RECURSIVE GiPrefix(_, _, _, _)
GiPrefix(x, y, j, k) == IF k >= GiTries THEN GiCand(x, y, j, 0)
                        ELSE IF GiCompletes(Append(GiCand(x, y, j, k), x)) THEN GiCand(x, y, j, k) ELSE GiPrefix(x, y, j, k + 1)
\* (the state carries the program: no definition that is evaluated per state refers to the set of all programs)
GiProgSet == {[id |-> ((xy[1] - 1) * GiN + (xy[2] - 1)) * GiPre + j, ops |-> GiPrefix(xy[1], xy[2], j, 0) \o <<xy[1], xy[2]>>] : xy \in GiPairs, j \in 1..GiPre}

Init == p \in GiProgSet /\ res = [GiInit EXCEPT !.outcome = "notrun"]
Emit(id, prog, r) ==
  PrintT(<<"CASE", ToJson([id |-> id, fam |-> "goiface", ops |-> [j \in 1..Len(prog) |-> GiOps[prog[j]].go],
                           kinds |-> [j \in 1..Len(prog) |-> GiKind(prog[j])],
                           dyn |-> <<r.vars.e.t, r.vars.g.t>>,
                           exp |-> [outcome |-> r.outcome, cls |-> r.msg, lines |-> Len(r.out)]])>>)
RunOne(id, prog) == LET r == GiRun(prog) IN IF Emit(id, prog, r) THEN r ELSE [r EXCEPT !.outcome = "export-failed"]
Next == res.outcome = "notrun" /\ res' = RunOne(p.id, p.ops) /\ p' = p

GiShape == res.outcome # "notrun" =>
   /\ res.outcome \in {"ok", "panic"}
   /\ (res.outcome = "ok" => Len(res.out) = Len(p.ops) + 1)
   /\ (res.outcome = "panic" => Len(res.out) <= Len(p.ops) /\ res.msg \in {"ifaceconv", "uncomparable", "nilderef"})
GiTyped == res.outcome # "notrun" =>
   /\ \A x \in DOMAIN GiStatic : res.vars[x].t = GiStatic[x]
   /\ \A x \in {"e", "g"} : res.vars[x].t \in GiTypes \cup {"nil"}
   /\ res.vars.v = GiNil
   /\ \A x \in DOMAIN res.vars : (res.vars[x].t = "nil") = (res.vars[x] = GiNil)
GiTextsUnique == Cardinality({GiOps[j].go : j \in 1..GiN}) = GiN
=============================================================================

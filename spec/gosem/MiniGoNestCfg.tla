---------------------------- MODULE MiniGoNestCfg ----------------------------
(* Bounds of the space of break / continue in nested statements; rewritten per run by checks/c01.py
   (a module without CONSTANTS: TLC evaluates its definitions, and MC_MiniGoNest's, once). *)
NestMaxDepth == 2
NestFullDepth == 1
NestSeed == 1
=============================================================================

------------------------------ MODULE GoIfaceCfg ------------------------------
(* Bounds of the program space of MC_GoIface; rewritten per run by checks/c01.py (a module without
   CONSTANTS: TLC evaluates its definitions, and MC_GoIface's, once).
   GiSeed: the run's seed; GiPre: drawn prefixes per ordered pair of operations; GiPreLen: operations
   per prefix; GiStep: one ordered pair out of GiStep is taken (which ones: by the seed). *)
GiSeed == 1
GiPre == 1
GiPreLen == 1
GiStep == 3
=============================================================================

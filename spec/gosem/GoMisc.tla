------------------------------- MODULE GoMisc -------------------------------
(* C01 part 5.  Four small pieces of the Go specification whose observable is a short sequence of
   integers, each with its own case space (MC_GoMisc.tla enumerates them, the driver writes one
   program per case, Trace_GoSem judges the numbers the program prints with MiscRef).

   variadic ("Passing arguments to ... parameters"): f(a1..a_nfix, v ...T) called
       mode "args"   with nvar >= 0 arguments for v: "If f is invoked with no actual arguments for p,
                     the value passed to p is nil.  Otherwise, the value passed is a new slice of type
                     []T ... whose successive elements are the actual arguments"
       mode "spread" with s... : "it is passed unchanged" - s is nil (spread 0), empty and not nil (spread 1),
                     or has two elements (spread 2); the callee's write to v[0] is seen through s.
     The fixed arguments are 101, 102, ...; the variadic ones 11, 12, ...; the elements of s 21, 22.
     Observable: <<fixed args..., v == nil, len(v), elements of v..., s[0] after the call (spread 2)>>;
     the callee sets v[0] = 77 when len(v) > 0.  (For T = string a value n is the string of n bytes
     and the program prints its length.)

   select ("Select statements"): n channels of capacity 1, one case per channel - dirs[i] says
     whether case i sends (value 10 + i) or receives -, an optional default.  The channels are
     prepared so that exactly case `ready` can proceed (ready = 0: none, then there is a default):
     a send case proceeds iff its channel is empty, a receive case iff its channel holds a value
     (the prepared value is 50 + i).  "If one or more of the communications can proceed, a single
     one that can proceed is chosen ... Otherwise, if there is a default case, that case is chosen";
     the chosen communication, and only that one, is executed.
     Observable: <<chosen case (0 = default), value received by it or -1,
                  then for every channel: len(ch) afterwards, the value it holds or -1>>.

   constuse ("Constants", "Assignability", "Conversions"): one constant (kind "bool": true,
     kind "int": 1; written as the literal or as a declared untyped constant) used several times in
     one program, use i giving it the type uses[i] - by `var x T = c` (how "var") or by the
     conversion T(c) (how "conv") -, "any" standing for interface{}: "An untyped constant has a
     default type which is the type to which the constant is implicitly converted in contexts where
     a typed value is required" (bool, int); a typed use has exactly its type.  Every use is then
     stored in an interface{} and its dynamic type is looked up by a type switch.
     Observable: the names of the dynamic types of the uses (B: type B bool; I: type I int).

   maprange ("For statements with range clause", map operand): a range statement over a map literal with exactly ONE
     entry (so the unspecified iteration order cannot be observed), key type kt and value type vt out of int / string
     (the entry is 7 / "a" -> 8 / "b"), with the iteration variables form = "k" (for k := range), "kv" (for k, v := range)
     or "v" (for _, v := range), in a function that has `live` other string variables and `ilive` other int variables
     that are assigned before the loop and read after it.  The body accumulates the key into ka and the value into va
     (`ka += k`: ka starts as "k" / 100, va as "v" / 200); the loop runs once.
     Observable: a string is shown as its length followed by its bytes, an int as itself:
        <<ka (if the key variable is present), va (if the value variable is present), the live strings "p", "q", the live int 3>>. *)
EXTENDS Integers, Sequences

MiscDefaultType(kind) == IF kind = "bool" THEN "bool" ELSE "int"

MiscB(b) == IF b THEN 1 ELSE 0
VariadicRef(c) ==
  LET fixed == [j \in 1..c.nfix |-> 100 + j] IN
  IF c.mode = "args"
  THEN fixed \o <<MiscB(c.nvar = 0), c.nvar>> \o [j \in 1..c.nvar |-> 10 + j]
  ELSE LET n == IF c.spread = 2 THEN 2 ELSE 0 IN
       fixed \o <<MiscB(c.spread = 0), n>> \o [j \in 1..n |-> 20 + j] \o (IF c.spread = 2 THEN <<77>> ELSE <<>>)

\* what channel i holds before the select: <<>> or <<50 + i>>
SelBefore(c, i) == IF (c.dirs[i] = "send") = (i = c.ready) THEN <<>> ELSE <<50 + i>>
SelAfter(c, i) == IF i # c.ready THEN SelBefore(c, i) ELSE IF c.dirs[i] = "send" THEN <<10 + i>> ELSE <<>>
RECURSIVE SelChans(_, _)
SelChans(c, i) == IF i > Len(c.dirs) THEN <<>>
                  ELSE LET a == SelAfter(c, i) IN <<Len(a), IF a = <<>> THEN -1 ELSE a[1]>> \o SelChans(c, i + 1)
SelectRef(c) == <<c.ready, IF c.ready > 0 /\ c.dirs[c.ready] = "recv" THEN 50 + c.ready ELSE -1>> \o SelChans(c, 1)

ConstUseRef(c) == [j \in 1..Len(c.uses) |-> IF c.uses[j] = "any" THEN MiscDefaultType(c.kind) ELSE c.uses[j]]

\* how a value is shown: the string of bytes bs as <<length, bytes...>>
MiscShowS(bs) == <<Len(bs)>> \o bs
MapRangeRef(c) ==
  (IF c.form \in {"k", "kv"} THEN (IF c.kt = "string" THEN MiscShowS(<<107, 97>>) ELSE <<100 + 7>>) ELSE <<>>)
  \o (IF c.form \in {"kv", "v"} THEN (IF c.vt = "string" THEN MiscShowS(<<118, 98>>) ELSE <<200 + 8>>) ELSE <<>>)
  \o (IF c.live >= 1 THEN MiscShowS(<<112>>) ELSE <<>>) \o (IF c.live >= 2 THEN MiscShowS(<<113>>) ELSE <<>>)
  \o (IF c.ilive >= 1 THEN <<3>> ELSE <<>>)

MiscRef(c) == CASE c.fam = "variadic" -> VariadicRef(c) [] c.fam = "select" -> SelectRef(c) [] c.fam = "constuse" -> ConstUseRef(c)
                [] c.fam = "maprange" -> MapRangeRef(c)
=============================================================================

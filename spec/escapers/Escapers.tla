------------------------------- MODULE Escapers -------------------------------
(* C07 - escaped values decode back to the exact original text.

   Part (i)  REFERENCE: the standard decoders of the target languages, written from the standards
             (not from scriggo): HTML character references (WHATWG HTML 13.2.5.72-80), ECMAScript
             string literals (ECMA-262 12.9.4), JSON strings (RFC 8259 section 7), CSS escapes (CSS
             Syntax 3, 3.3 + 4.3.5 + 4.3.7), percent-decoding (WHATWG URL 1.3 / form-urlencoded),
             and the property-level predicate Ok(ctx, s, out).
   Part (ii) IMPLEMENTATION-SHAPED: scriggo's escapers of internal/runtime/escapers.go transcribed
             loop iteration by loop iteration (variables i, last, w as in the code).

   Text is a sequence of bytes.  A decoder returns the decoded bytes, or a sequence containing a
   negative number when the input is not something the decoder accepts as the inside of the
   literal / value (a raw delimiter, a raw line break in a JS string, an unknown JSON escape...). *)
EXTENDS Integers, Sequences, Text, Utf8

FAIL == <<-1>>
IsFail(d) == \E k \in 1..Len(d) : d[k] < 0
FFFD == <<239, 191, 189>>                       \* UTF-8 of U+FFFD
IsAlnum(c) == IsDigit(c) \/ IsAlpha(c)
IsSurrogate(v) == v >= 55296 /\ v <= 57343
MaxCP == 1114111

(* ======================================================================================= *)
(* (i) REFERENCE DECODERS                                                                  *)
(* ======================================================================================= *)

(* ---------- HTML character references ---------- *)
\* digits of a numeric reference: <<value capped at MaxCP+1, index after the digits>>
RECURSIVE NumAcc(_, _, _, _)
NumAcc(t, i, base, acc) ==
  IF i <= Len(t) /\ (IF base = 16 THEN IsHex(t[i]) ELSE IsDigit(t[i]))
  THEN LET v == acc * base + HexVal(t[i]) IN NumAcc(t, i + 1, base, IF v > MaxCP THEN MaxCP + 1 ELSE v)
  ELSE <<acc, i>>

\* "numeric character reference end state": the table for 0x80..0x9F
Win1252 == {<<128,8364>>, <<130,8218>>, <<131,402>>, <<132,8222>>, <<133,8230>>, <<134,8224>>, <<135,8225>>,
            <<136,710>>, <<137,8240>>, <<138,352>>, <<139,8249>>, <<140,338>>, <<142,381>>, <<145,8216>>,
            <<146,8217>>, <<147,8220>>, <<148,8221>>, <<149,8226>>, <<150,8211>>, <<151,8212>>, <<152,732>>,
            <<153,8482>>, <<154,353>>, <<155,8250>>, <<156,339>>, <<158,382>>, <<159,376>>}
NumRefValue(v) ==
  IF v = 0 \/ v > MaxCP \/ IsSurrogate(v) THEN 65533
  ELSE IF v >= 128 /\ v <= 159 /\ (\E p \in Win1252 : p[1] = v) THEN (CHOOSE p \in Win1252 : p[1] = v)[2]
  ELSE v

\* Named references: every name of the standard's table that denotes an ASCII character or U+00A0
\* (what an HTML escaper can sensibly emit), plus the legacy names of these that the standard also
\* matches WITHOUT a semicolon.  The other ~2150 names (&copy; &eacute; ...) are not in the table: a
\* reference to one of them is left as text by this decoder (can only hide a violation of an escaper
\* that leaves '&' raw in front of such a name; never raises one).
Named == {
  <<<<84,97,98,59>>, 9>>, <<<<78,101,119,76,105,110,101,59>>, 10>>, <<<<101,120,99,108,59>>, 33>>,
  <<<<113,117,111,116,59>>, 34>>, <<<<81,85,79,84,59>>, 34>>, <<<<110,117,109,59>>, 35>>,
  <<<<100,111,108,108,97,114,59>>, 36>>, <<<<112,101,114,99,110,116,59>>, 37>>,
  <<<<97,109,112,59>>, 38>>, <<<<65,77,80,59>>, 38>>, <<<<97,112,111,115,59>>, 39>>,
  <<<<108,112,97,114,59>>, 40>>, <<<<114,112,97,114,59>>, 41>>, <<<<97,115,116,59>>, 42>>,
  <<<<109,105,100,97,115,116,59>>, 42>>, <<<<112,108,117,115,59>>, 43>>,
  <<<<99,111,109,109,97,59>>, 44>>, <<<<112,101,114,105,111,100,59>>, 46>>,
  <<<<115,111,108,59>>, 47>>, <<<<99,111,108,111,110,59>>, 58>>, <<<<115,101,109,105,59>>, 59>>,
  <<<<108,116,59>>, 60>>, <<<<76,84,59>>, 60>>, <<<<101,113,117,97,108,115,59>>, 61>>,
  <<<<103,116,59>>, 62>>, <<<<71,84,59>>, 62>>, <<<<113,117,101,115,116,59>>, 63>>,
  <<<<99,111,109,109,97,116,59>>, 64>>, <<<<108,115,113,98,59>>, 91>>,
  <<<<108,98,114,97,99,107,59>>, 91>>, <<<<98,115,111,108,59>>, 92>>,
  <<<<114,115,113,98,59>>, 93>>, <<<<114,98,114,97,99,107,59>>, 93>>, <<<<72,97,116,59>>, 94>>,
  <<<<108,111,119,98,97,114,59>>, 95>>, <<<<85,110,100,101,114,66,97,114,59>>, 95>>,
  <<<<103,114,97,118,101,59>>, 96>>,
  <<<<68,105,97,99,114,105,116,105,99,97,108,71,114,97,118,101,59>>, 96>>,
  <<<<108,99,117,98,59>>, 123>>, <<<<108,98,114,97,99,101,59>>, 123>>,
  <<<<118,101,114,98,97,114,59>>, 124>>, <<<<118,101,114,116,59>>, 124>>,
  <<<<86,101,114,116,105,99,97,108,76,105,110,101,59>>, 124>>, <<<<114,99,117,98,59>>, 125>>,
  <<<<114,98,114,97,99,101,59>>, 125>>, <<<<110,98,115,112,59>>, 160>>,
  \* legacy, matched without ';' :  amp AMP lt LT gt GT quot QUOT nbsp
  <<<<97,109,112>>, 38>>, <<<<65,77,80>>, 38>>, <<<<108,116>>, 60>>, <<<<76,84>>, 60>>, <<<<103,116>>, 62>>,
  <<<<71,84>>, 62>>, <<<<113,117,111,116>>, 34>>, <<<<81,85,79,84>>, 34>>, <<<<110,98,115,112>>, 160>> }

\* t: bytes of a text node (attr = FALSE) or of an attribute value (attr = TRUE); stop: the raw
\* bytes that end the text / value in that syntactic position (so cannot be part of it).
\* (DecNamedHit / DecNamed only split DecHTML so that the set of matching names and the chosen name
\*  are operator ARGUMENTS: TLC computes an argument once, a LET-bound value at each of its uses.)
RECURSIVE DecHTML(_, _, _, _), DecNamed(_, _, _, _, _), DecNamedHit(_, _, _, _, _)
DecNamedHit(t, i, attr, stop, n) ==                       \* n: the longest matching entry of Named, name at i + 1
  IF attr /\ n[1][Len(n[1])] # 59 /\ i + 1 + Len(n[1]) <= Len(t)
          /\ (t[i + 1 + Len(n[1])] = 61 \/ IsAlnum(t[i + 1 + Len(n[1])]))
  THEN <<38>> \o DecHTML(t, i + 1, attr, stop)            \* "for historical reasons" not a reference
  ELSE EncodeRune(n[2]) \o DecHTML(t, i + 1 + Len(n[1]), attr, stop)
DecNamed(t, i, attr, stop, hits) ==                       \* named reference: longest match
  IF hits = {} THEN <<38>> \o DecHTML(t, i + 1, attr, stop)
  ELSE DecNamedHit(t, i, attr, stop, CHOOSE n \in hits : \A m \in hits : Len(m[1]) <= Len(n[1]))
DecHTML(t, i, attr, stop) ==
  IF i > Len(t) THEN <<>>
  ELSE IF t[i] \in stop THEN FAIL
  ELSE IF t[i] # 38 THEN <<t[i]>> \o DecHTML(t, i + 1, attr, stop)
  ELSE IF i + 1 <= Len(t) /\ t[i + 1] = 35                                    \* "&#"
       THEN LET hex == i + 2 <= Len(t) /\ t[i + 2] \in {120, 88}
                st  == IF hex THEN i + 3 ELSE i + 2
                r   == NumAcc(t, st, IF hex THEN 16 ELSE 10, 0)
            IN IF r[2] = st THEN <<38>> \o DecHTML(t, i + 1, attr, stop)      \* no digit: stays text
               ELSE EncodeRune(NumRefValue(r[1])) \o                          \* ';' optional (parse error, still decoded)
                    DecHTML(t, IF r[2] <= Len(t) /\ t[r[2]] = 59 THEN r[2] + 1 ELSE r[2], attr, stop)
  ELSE IF i + 1 <= Len(t) /\ IsAlnum(t[i + 1])
       THEN DecNamed(t, i, attr, stop, {n \in Named : n[1][1] = t[i + 1] /\ HasPrefixAt(t, n[1], i + 1)})
  ELSE <<38>> \o DecHTML(t, i + 1, attr, stop)

(* ---------- ECMAScript string literal body (between quotes q) ---------- *)
Hex4At(t, i) == i + 3 <= Len(t) /\ \A k \in 0..3 : IsHex(t[i + k])
Hex4Val(t, i) == HexVal(t[i]) * 4096 + HexVal(t[i + 1]) * 256 + HexVal(t[i + 2]) * 16 + HexVal(t[i + 3])
IsHiSur(v) == v >= 55296 /\ v <= 56319
IsLoSur(v) == v >= 56320 /\ v <= 57343
\* \uXXXX with i at the first hex digit: <<bytes, next index>>; a surrogate pair written as two
\* escapes is one code point; a lone surrogate has no UTF-8 form -> FAIL (shared by JS and JSON)
UEsc(t, i) ==
  IF ~Hex4At(t, i) THEN <<FAIL, Len(t) + 1>>
  ELSE LET v == Hex4Val(t, i) IN
       IF IsHiSur(v)
       THEN IF i + 9 <= Len(t) /\ t[i + 4] = 92 /\ t[i + 5] = 117 /\ Hex4At(t, i + 6) /\ IsLoSur(Hex4Val(t, i + 6))
            THEN <<EncodeRune(65536 + (v - 55296) * 1024 + (Hex4Val(t, i + 6) - 56320)), i + 10>>
            ELSE <<FAIL, Len(t) + 1>>
       ELSE IF IsLoSur(v) THEN <<FAIL, Len(t) + 1>>
       ELSE <<EncodeRune(v), i + 4>>

RECURSIVE DecJS(_, _, _)
DecJS(t, i, q) ==
  IF i > Len(t) THEN <<>>
  ELSE LET c == t[i] IN
  IF c = q \/ c = 10 \/ c = 13 THEN FAIL               \* closing quote / LineTerminator: not part of a literal
                                                        \* (raw U+2028/9 are allowed since ES2019: passed through)
  ELSE IF c # 92 THEN <<c>> \o DecJS(t, i + 1, q)
  ELSE IF i = Len(t) THEN FAIL                          \* would escape the closing quote
  ELSE LET e == t[i + 1] IN
    CASE e = 98  -> <<8>>  \o DecJS(t, i + 2, q)
      [] e = 116 -> <<9>>  \o DecJS(t, i + 2, q)
      [] e = 110 -> <<10>> \o DecJS(t, i + 2, q)
      [] e = 118 -> <<11>> \o DecJS(t, i + 2, q)
      [] e = 102 -> <<12>> \o DecJS(t, i + 2, q)
      [] e = 114 -> <<13>> \o DecJS(t, i + 2, q)
      [] e = 48  -> IF i + 2 <= Len(t) /\ IsDigit(t[i + 2]) THEN FAIL     \* legacy octal: error in strict code/templates
                    ELSE <<0>> \o DecJS(t, i + 2, q)
      [] e >= 49 /\ e <= 57 -> FAIL
      [] e = 120 -> IF i + 3 <= Len(t) /\ IsHex(t[i + 2]) /\ IsHex(t[i + 3])
                    THEN EncodeRune(HexVal(t[i + 2]) * 16 + HexVal(t[i + 3])) \o DecJS(t, i + 4, q)
                    ELSE FAIL
      [] e = 117 -> IF i + 2 <= Len(t) /\ t[i + 2] = 123                  \* \u{H+}
                    THEN LET r == NumAcc(t, i + 3, 16, 0) IN
                         IF r[2] > i + 3 /\ r[2] <= Len(t) /\ t[r[2]] = 125 /\ r[1] <= MaxCP /\ ~IsSurrogate(r[1])
                         THEN EncodeRune(r[1]) \o DecJS(t, r[2] + 1, q)
                         ELSE FAIL
                    ELSE LET r == UEsc(t, i + 2) IN r[1] \o DecJS(t, r[2], q)
      [] e = 10  -> DecJS(t, i + 2, q)                                     \* LineContinuation
      [] e = 13  -> DecJS(t, IF i + 2 <= Len(t) /\ t[i + 2] = 10 THEN i + 3 ELSE i + 2, q)
      [] e = 226 /\ i + 3 <= Len(t) /\ t[i + 2] = 128 /\ t[i + 3] \in {168, 169} -> DecJS(t, i + 4, q)
      [] OTHER   -> <<e>> \o DecJS(t, i + 2, q)                            \* NonEscapeCharacter

(* ---------- JSON string body (RFC 8259) ---------- *)
RECURSIVE DecJSON(_, _)
DecJSON(t, i) ==
  IF i > Len(t) THEN <<>>
  ELSE LET c == t[i] IN
  IF c = 34 \/ c < 32 THEN FAIL                        \* unescaped = %x20-21 / %x23-5B / %x5D-10FFFF
  ELSE IF c # 92 THEN <<c>> \o DecJSON(t, i + 1)
  ELSE IF i = Len(t) THEN FAIL
  ELSE LET e == t[i + 1] IN
    CASE e \in {34, 92, 47} -> <<e>> \o DecJSON(t, i + 2)
      [] e = 98  -> <<8>>  \o DecJSON(t, i + 2)
      [] e = 102 -> <<12>> \o DecJSON(t, i + 2)
      [] e = 110 -> <<10>> \o DecJSON(t, i + 2)
      [] e = 114 -> <<13>> \o DecJSON(t, i + 2)
      [] e = 116 -> <<9>>  \o DecJSON(t, i + 2)
      [] e = 117 -> LET r == UEsc(t, i + 2) IN r[1] \o DecJSON(t, r[2])
      [] OTHER   -> FAIL

(* ---------- CSS string body (between quotes q) ---------- *)
\* 3.3 preprocessing: CR LF, CR, FF -> LF ; NUL -> U+FFFD
RECURSIVE CssPreFrom(_, _)
CssPreFrom(t, i) ==
  IF i > Len(t) THEN <<>>
  ELSE IF t[i] = 13 THEN <<10>> \o CssPreFrom(t, IF i + 1 <= Len(t) /\ t[i + 1] = 10 THEN i + 2 ELSE i + 1)
  ELSE IF t[i] = 12 THEN <<10>> \o CssPreFrom(t, i + 1)
  ELSE IF t[i] = 0 THEN FFFD \o CssPreFrom(t, i + 1)
  ELSE <<t[i]>> \o CssPreFrom(t, i + 1)
\* "consume as many hex digits as possible, but no more than 5 [more]": <<value, next index>>
RECURSIVE HexRun(_, _, _, _)
HexRun(t, i, n, acc) == IF n < 6 /\ i <= Len(t) /\ IsHex(t[i]) THEN HexRun(t, i + 1, n + 1, acc * 16 + HexVal(t[i]))
                        ELSE <<acc, i>>
CssWs(c) == c \in {10, 9, 32}                          \* whitespace after preprocessing
RECURSIVE DecCSSFrom(_, _, _)
DecCSSFrom(t, i, q) ==
  IF i > Len(t) THEN <<>>
  ELSE LET c == t[i] IN
  IF c = q \/ c = 10 THEN FAIL                         \* ending code point / newline (bad-string)
  ELSE IF c # 92 THEN <<c>> \o DecCSSFrom(t, i + 1, q)
  ELSE IF i = Len(t) THEN FAIL                          \* would escape the closing quote
  ELSE LET e == t[i + 1] IN
    IF e = 10 THEN DecCSSFrom(t, i + 2, q)              \* escaped newline: consumed, nothing appended
    ELSE IF IsHex(e)
    THEN LET r  == HexRun(t, i + 1, 0, 0)
             nx == IF r[2] <= Len(t) /\ CssWs(t[r[2]]) THEN r[2] + 1 ELSE r[2]    \* ONE optional whitespace
             v  == IF r[1] = 0 \/ r[1] > MaxCP \/ IsSurrogate(r[1]) THEN 65533 ELSE r[1]
         IN EncodeRune(v) \o DecCSSFrom(t, nx, q)
    ELSE <<e>> \o DecCSSFrom(t, i + 2, q)
DecCSS(t, q) == DecCSSFrom(CssPreFrom(t, 1), 1, q)

(* ---------- percent-decoding ---------- *)
\* WHATWG "percent-decode": a '%' not followed by two hex digits is itself; plus = TRUE adds the
\* application/x-www-form-urlencoded rule '+' -> space
RECURSIVE PctDec(_, _, _)
PctDec(t, i, plus) ==
  IF i > Len(t) THEN <<>>
  ELSE IF t[i] = 37 /\ i + 2 <= Len(t) /\ IsHex(t[i + 1]) /\ IsHex(t[i + 2])
       THEN <<HexVal(t[i + 1]) * 16 + HexVal(t[i + 2])>> \o PctDec(t, i + 3, plus)
  ELSE IF plus /\ t[i] = 43 THEN <<32>> \o PctDec(t, i + 1, plus)
  ELSE <<t[i]>> \o PctDec(t, i + 1, plus)
\* a query VALUE ends at '&' (next pair) or '#' (fragment)
QueryDec(t, plus) == IF \E k \in 1..Len(t) : t[k] \in {38, 35} THEN FAIL ELSE PctDec(t, 1, plus)

(* ---------- the property-level predicate ---------- *)
HtmlCtx == {"html_text", "attr_dq", "attr_sq", "attr_unq"}
JsCtx   == {"js_script_dq", "js_file_sq", "json_file"}
CssCtx  == {"css_style_dq", "css_file_sq", "css_file_dq_tail"}
UrlCtx  == {"url_query_dq", "url_path_dq", "url_path_unq"}
AllCtx  == HtmlCtx \cup JsCtx \cup CssCtx \cup UrlCtx
UnqStop == {9, 10, 12, 13, 32, 62}                     \* an unquoted attribute value ends at whitespace or '>'

\* "that context's standard decoder".  <script>/<style> content is raw text in HTML: only the JS /
\* CSS decoder applies there.  (Whether the value can terminate the element - "</script>" - is
\* property C06, not this one.)  The HTML input-stream newline normalisation (CR -> LF) is not
\* "HTML entity decoding" and is deliberately not applied: a raw CR in text passes.
Decode(ctx, out) ==
  CASE ctx = "html_text"    -> DecHTML(out, 1, FALSE, {60})
    [] ctx = "attr_dq"      -> DecHTML(out, 1, TRUE, {34})
    [] ctx = "attr_sq"      -> DecHTML(out, 1, TRUE, {39})
    [] ctx = "attr_unq"     -> DecHTML(out, 1, TRUE, UnqStop)
    [] ctx = "js_script_dq" -> DecJS(out, 1, 34)
    [] ctx = "js_file_sq"   -> DecJS(out, 1, 39)
    [] ctx = "json_file"    -> DecJSON(out, 1)
    [] ctx = "css_style_dq" -> DecCSS(out, 34)
    [] ctx = "css_file_sq"  -> DecCSS(out, 39)
    [] ctx = "css_file_dq_tail" -> DecCSS(out, 34)
\* In context css_file_dq_tail the template has the fixed text "c" between the value and the closing
\* quote (a hex letter right after the value: CSS escapes have variable length, so what follows the
\* value matters); the observed slice includes it, and must decode to s followed by "c".
TailOf(ctx) == IF ctx = "css_file_dq_tail" THEN <<99>> ELSE <<>>

\* "...except where the target language itself cannot represent a code point".  The complete list:
\*  E1  NUL in HTML (text: dropped by the tree builder; attribute value / &#0;: U+FFFD; our decoder
\*      passes a raw NUL through) - at a NUL of s the decoded text may have NUL, U+FFFD or nothing.
\*  E2  NUL in CSS: no CSS text denotes U+0000 (raw NUL and \0 both mean U+FFFD) - at a NUL of s the
\*      decoded text must have U+FFFD.
\*  E3  a byte of s that is not part of a valid UTF-8 encoding (Go's decoding rule: RuneError, width
\*      1) in HTML, JS, JSON, CSS, which are sequences of code points: the decoded text may have the
\*      same byte (byte-transparent transport) or U+FFFD (what a conforming consumer makes of it).
\*      Not in URLs: %XX represents any byte.
\* Everything else must be byte-for-byte equal.
RECURSIVE MatchFrom(_, _, _, _, _)
MatchFrom(kind, d, s, i, j) ==                         \* i index in s, j index in d
  IF i > Len(s) THEN j = Len(d) + 1
  ELSE LET r == DecodeRune(s, i) IN
    IF s[i] = 0 /\ kind \in {"html", "css"}
    THEN \/ kind = "html" /\ j <= Len(d) /\ d[j] = 0 /\ MatchFrom(kind, d, s, i + 1, j + 1)
         \/ HasPrefixAt(d, FFFD, j) /\ MatchFrom(kind, d, s, i + 1, j + 3)
         \/ kind = "html" /\ MatchFrom(kind, d, s, i + 1, j)
    ELSE IF r[1] = RuneError /\ r[2] = 1
    THEN \/ j <= Len(d) /\ d[j] = s[i] /\ MatchFrom(kind, d, s, i + 1, j + 1)
         \/ HasPrefixAt(d, FFFD, j) /\ MatchFrom(kind, d, s, i + 1, j + 3)
    ELSE /\ j + r[2] - 1 <= Len(d)
         /\ \A k \in 0..(r[2] - 1) : d[j + k] = s[i + k]
         /\ MatchFrom(kind, d, s, i + r[2], j + r[2])
Match(kind, d, s) == d = s \/ MatchFrom(kind, d, s, 1, 1)
Kind(ctx) == IF ctx \in HtmlCtx THEN "html" ELSE IF ctx \in CssCtx THEN "css" ELSE "js"

\* Ok(ctx, s, out): out, the rendered text at the place of the value, decodes back to s.
\*  - URL query value (inside a double-quoted HTML attribute): attribute-value decoding, then
\*    percent-decoding of a query value.  Two decoders are in use for query values ('+' literal:
\*    decodeURIComponent; '+' = space: form-urlencoded); either reading is accepted per record.
\*  - URL path position is not in the property statement's list; scriggo documents pathEscape as
\*    escaping a string "so it can be placed inside an attribute value as URL path" and keeps URL
\*    syntax (/ ? # and existing %XX) - the value is treated as a piece of URL, not as one segment.
\*    Reading chosen (Appendix C.5): the decoded output equals s, OR equals the percent-decoding of
\*    s (s already was percent-encoded and was preserved).
Ok(ctx, s, out) ==
  CASE ctx = "url_query_dq" ->
         LET h == DecHTML(out, 1, TRUE, {34}) IN
         ~IsFail(h) /\ (QueryDec(h, FALSE) = s \/ QueryDec(h, TRUE) = s)
    [] ctx \in {"url_path_dq", "url_path_unq"} ->
         LET h == DecHTML(out, 1, TRUE, IF ctx = "url_path_dq" THEN {34} ELSE UnqStop) IN
         ~IsFail(h) /\ (LET d == PctDec(h, 1, FALSE) IN d = s \/ d = PctDec(s, 1, FALSE))
    [] OTHER ->
         LET d == Decode(ctx, out) IN ~IsFail(d) /\ Match(Kind(ctx), d, s \o TailOf(ctx))

(* ---------- several rendering steps in ONE URL attribute ---------- *)
\* A URL program is the content of one double-quoted URL attribute of a template - href="..." (one
\* URL) or srcset="..." (set = TRUE: a list of "URL descriptor" candidates separated by commas) - as a
\* sequence of segments  [k |-> "t", b |-> literal template text (HTML source bytes)]  and
\* [k |-> "v", b |-> the string shown there by {{ x }}].  The statement quantifies over strings
\* "shown in a URL query value"; segment j is such a QUERY VALUE SLOT when
\*   - it is a value directly preceded by literal text, and
\*   - the text of the URL to its left (literal text with its character references decoded, the
\*     values to its left as they are; in a srcset: what follows the last white space, a URL of a
\*     srcset has none) has a '?', has no '#' (not in the fragment), and ends with
\*     sep K '='  with sep one of '?' '&' and K a letter: the slot is the value of the parameter K.
\* (A value elsewhere - path position, a piece of URL that itself brings "?a=b" - is not in the
\* statement's list and is not judged here; see url_path_* above.)  To find the slot in the rendered
\* URL without assuming anything about what the renderer does to the text around it (scriggo, for
\* instance, turns the '?' of a literal "?q=" into '&' when a value to its left already brought a
\* query), the slot is located by its parameter name: it is judged when "sep K =" occurs exactly
\* once in the whole symbolic attribute value (otherwise the reference is undefined for it: skipped,
\* counted).
TSeg(b) == [k |-> "t", b |-> b]
VSeg(b) == [k |-> "v", b |-> b]
\* (D, S, L, U, P below are operator arguments on purpose: TLC computes an argument once)
SegText(sg) == IF sg.k = "t" THEN DecHTML(sg.b, 1, TRUE, {34}) ELSE sg.b
RECURSIVE SegTexts(_, _)
SegTexts(segs, i) == IF i > Len(segs) THEN <<>> ELSE <<SegText(segs[i])>> \o SegTexts(segs, i + 1)   \* D: the text of each segment
RECURSIVE CatUpTo(_, _, _)
CatUpTo(D, i, j) == IF i >= j THEN <<>> ELSE D[i] \o CatUpTo(D, i + 1, j)      \* symbolic text of segments i..j-1
Sym(segs) == CatUpTo(SegTexts(segs, 1), 1, Len(segs) + 1)
KeyPlaces(t, K) == {p \in 1..(Len(t) - 2) : t[p] \in {63, 38} /\ t[p + 1] = K /\ t[p + 2] = 61}
AfterText(segs, j) == segs[j].k = "v" /\ j > 1 /\ segs[j - 1].k = "t"
RECURSIVE LastWs(_, _)
LastWs(L, i) == IF i = 0 THEN 0 ELSE IF IsSpace(L[i]) THEN i ELSE LastWs(L, i - 1)
CurUrl(L, set) == IF set THEN Sub(L, LastWs(L, Len(L)) + 1, Len(L)) ELSE L
IsSlotLeft(L) == /\ Len(L) >= 3 /\ ~IsFail(L)
                 /\ L[Len(L)] = 61 /\ IsAlpha(L[Len(L) - 1]) /\ L[Len(L) - 2] \in {63, 38}
                 /\ \E k \in 1..(Len(L) - 2) : L[k] = 63
                 /\ \A k \in 1..Len(L) : L[k] # 35
IsSlot(segs, set, j) == AfterText(segs, j) /\ IsSlotLeft(CurUrl(CatUpTo(SegTexts(segs, 1), 1, j), set))
\* S: the whole symbolic attribute value, L: the symbolic text to the left of the slot (its last but one byte is K)
JudgedL(S, L, set) == IsSlotLeft(CurUrl(L, set)) /\ ~IsFail(S) /\ \A p, p2 \in KeyPlaces(S, L[Len(L) - 1]) : p = p2
JudgedD(segs, set, D, S, j) == AfterText(segs, j) /\ JudgedL(S, CatUpTo(D, 1, j), set)
JudgedSlotsD(segs, set, D) == {j \in 1..Len(segs) : JudgedD(segs, set, D, CatUpTo(D, 1, Len(D) + 1), j)}
JudgedSlots(segs, set) == JudgedSlotsD(segs, set, SegTexts(segs, 1))
\* the value of the (first) parameter K in the rendered attribute value U is the text from after
\* "sep K =" up to the next '&' (next parameter), '#' (fragment) or the end - in a srcset also up to
\* white space (end of the URL), less the commas at the end of the URL (HTML "parse a srcset
\* attribute": they separate the candidates); percent-decoded (both readings of '+', as for
\* url_query_dq) it must be the string shown in the slot
RECURSIVE ExtEnd(_, _, _)
ExtEnd(U, i, set) == IF i > Len(U) \/ U[i] \in {38, 35} \/ (set /\ IsSpace(U[i])) THEN i ELSE ExtEnd(U, i + 1, set)
RECURSIVE StripCommas(_, _)
StripCommas(x, n) == IF n > 0 /\ x[n] = 44 THEN StripCommas(x, n - 1) ELSE Sub(x, 1, n)
UrlEnd(x, set, atEnd) == IF set /\ atEnd THEN StripCommas(x, Len(x)) ELSE x
ValOk(ext, s) == PctDec(ext, 1, FALSE) = s \/ PctDec(ext, 1, TRUE) = s
MinOf(P) == CHOOSE x \in P : \A y \in P : x <= y
\* (the commas are stripped only where the URL ends: at white space or at the end of the attribute)
ExtOf(U, st, e, set) == UrlEnd(Sub(U, st, e - 1), set, e > Len(U) \/ IsSpace(U[e]))
SlotOkP(U, P, s, set) == P # {} /\ ValOk(ExtOf(U, MinOf(P) + 3, ExtEnd(U, MinOf(P) + 3, set), set), s)
SlotOk(U, K, s, set) == SlotOkP(U, KeyPlaces(U, K), s, set)
CheckSlot(S, U, L, s, set) == JudgedL(S, L, set) => SlotOk(U, L[Len(L) - 1], s, set)
OkProgD(segs, set, D, S, U) ==
  /\ ~IsFail(U)
  /\ \A j \in 1..Len(segs) : AfterText(segs, j) => CheckSlot(S, U, CatUpTo(D, 1, j), segs[j].b, set)
OkProgT(segs, set, D, U) == OkProgD(segs, set, D, CatUpTo(D, 1, Len(D) + 1), U)
\* OkProg(segs, set, out): out = the rendered attribute value (between the quotes)
OkProg(segs, set, out) == OkProgT(segs, set, SegTexts(segs, 1), DecHTML(out, 1, TRUE, {34}))

(* ======================================================================================= *)
(* (ii) IMPLEMENTATION-SHAPED MODEL of internal/runtime/escapers.go (+ dispatch of renderer.go) *)
(*      i and last are 0-based as in the code; s[i] of the code is s[i + 1] here.           *)
(* ======================================================================================= *)
HexChar(n) == IF n < 10 THEN 48 + n ELSE 87 + n                        \* hexchars = "0123456789abcdef"
Flush(w, s, last, i) == IF last # i THEN w \o Sub(s, last + 1, i) ELSE w          \* if last != i { w.WriteString(s[last:i]) }
FlushTail(w, s, last) == IF last # Len(s) THEN w \o Sub(s, last + 1, Len(s)) ELSE w  \* if last != len(s) { w.WriteString(s[last:]) }

\* ---- htmlEscape: switch s[i]
HtmlEsc(c) == CASE c = 34 -> <<38,35,51,52,59>>        \* &#34;
                [] c = 39 -> <<38,35,51,57,59>>        \* &#39;
                [] c = 38 -> <<38,97,109,112,59>>      \* &amp;
                [] c = 60 -> <<38,108,116,59>>         \* &lt;
                [] c = 62 -> <<38,103,116,59>>         \* &gt;
                [] OTHER  -> <<>>                      \* default: continue
RECURSIVE HtmlEscapeLoop(_, _, _, _)
HtmlEscapeLoop(s, i, last, w) ==
  IF i >= Len(s) THEN FlushTail(w, s, last)
  ELSE LET esc == HtmlEsc(s[i + 1]) IN
       IF esc = <<>> THEN HtmlEscapeLoop(s, i + 1, last, w)
       ELSE HtmlEscapeLoop(s, i + 1, i + 1, Flush(w, s, last, i) \o esc)
HtmlEscape(s) == HtmlEscapeLoop(s, 0, 0, <<>>)

\* ---- attributeEscape(w, s, escapeEntities, quoted); a string value has escapeEntities = true
AttrUnqEsc(c, escapeEntities) ==
  CASE c = 60 -> <<38,108,116,59>>                     \* &lt;
    [] c = 62 -> <<38,103,116,59>>                     \* &gt;
    [] c = 38 -> IF escapeEntities THEN <<38,97,109,112,59>> ELSE <<>>
    [] c = 9  -> <<38,35,48,57,59>>                    \* &#09;
    [] c = 10 -> <<38,35,49,48,59>>                    \* &#10;
    [] c = 13 -> <<38,35,49,51,59>>                    \* &#13;
    [] c = 12 -> <<38,35,49,50,59>>                    \* &#12;
    [] c = 32 -> <<38,35,51,50,59>>                    \* &#32;
    [] c = 34 -> <<38,35,51,52,59>>                    \* &#34;
    [] c = 39 -> <<38,35,51,57,59>>                    \* &#39;
    [] c = 61 -> <<38,35,54,49,59>>                    \* &#61;
    [] c = 96 -> <<38,35,57,54,59>>                    \* &#96;
    [] OTHER  -> <<>>
RECURSIVE AttrUnqLoop(_, _, _, _, _)
AttrUnqLoop(s, i, last, w, ee) ==
  IF i >= Len(s) THEN FlushTail(w, s, last)
  ELSE LET esc == AttrUnqEsc(s[i + 1], ee) IN
       IF esc = <<>> THEN AttrUnqLoop(s, i + 1, last, w, ee)
       ELSE AttrUnqLoop(s, i + 1, i + 1, Flush(w, s, last, i) \o esc, ee)
AttributeEscape(s, escapeEntities, quoted) ==
  IF quoted THEN HtmlEscape(s)                          \* escapeEntities is true for plain strings
  ELSE AttrUnqLoop(s, 0, 0, <<>>, escapeEntities)

\* ---- cssStringEscape with prefixWithSpace.  hi is the upper letter of the hex-letter range
\*      tested by prefixWithSpace: the code as found writes 'a'..'b' / 'A'..'B' (hi = 98);
\*      the evident intent is 'a'..'f' / 'A'..'F' (hi = 102).  Both variants are model-checked.
PrefixWithSpace(c, hi) ==
  \/ c \in {9, 10, 12, 13, 32}
  \/ (48 <= c /\ c <= 57) \/ (97 <= c /\ c <= hi) \/ (65 <= c /\ c <= hi - 32)
CssHexEscaped == (0..31) \cup {34, 38, 39, 40, 41, 43, 47, 58, 59, 60, 62, 123, 125}   \* table entries \H or \HH
CssEscTab(c) ==                                         \* cssStringEscapes[c]
  IF c < 16 THEN <<92, HexChar(c)>>
  ELSE IF c \in CssHexEscaped THEN <<92, HexChar(c \div 16), HexChar(c % 16)>>
  ELSE IF c = 92 THEN <<92, 92>>
  ELSE <<>>
RECURSIVE CssLoop(_, _, _, _, _)
CssLoop(s, i, last, w, hi) ==
  IF i >= Len(s) THEN FlushTail(w, s, last)
  ELSE LET c == s[i + 1]
           esc == IF c < 126 THEN CssEscTab(c) ELSE <<>>                  \* int(c) < len(cssStringEscapes)
       IN IF esc = <<>> THEN CssLoop(s, i + 1, last, w, hi)
          ELSE LET w2 == Flush(w, s, last, i) \o esc
                   w3 == IF c # 92 /\ (i = Len(s) - 1 \/ PrefixWithSpace(s[i + 2], hi)) THEN Append(w2, 32) ELSE w2
               IN CssLoop(s, i + 1, i + 1, w3, hi)
CssStringEscape(s, hi) == CssLoop(s, 0, 0, <<>>, hi)
\* the strings on which the two variants differ: a hex-escaped byte directly followed by c..f / C..F
HexAfterEsc(s) == \E k \in 1..(Len(s) - 1) : s[k] \in CssHexEscaped /\ (s[k + 1] \in 99..102 \/ s[k + 1] \in 67..70)

\* ---- jsStringEscape: for i, c := range s  (runes; an invalid byte is U+FFFD, width 1)
U4(c) == <<92, 117, 48, 48, HexChar(c \div 16), HexChar(c % 16)>>       \* \u00HH
JsEscTab(c) ==                                          \* jsStringEscapes[c], c < 93
  CASE c = 8  -> <<92, 98>>  [] c = 9  -> <<92, 116>> [] c = 10 -> <<92, 110>>
    [] c = 12 -> <<92, 102>> [] c = 13 -> <<92, 114>>
    [] c < 32 /\ c \notin {8, 9, 10, 12, 13} -> U4(c)
    [] c = 34 -> <<92, 34>>
    [] c \in {38, 39, 60, 62} -> U4(c)
    [] c = 92 -> <<92, 92>>
    [] OTHER  -> <<>>
RECURSIVE JsLoop(_, _, _, _)
JsLoop(s, i, last, w) ==
  IF i >= Len(s) THEN FlushTail(w, s, last)
  ELSE LET d == DecodeRune(s, i + 1)
           c == d[1]
           esc == IF c < 93 THEN JsEscTab(c)
                  ELSE IF c = 8232 THEN <<92,117,50,48,50,56>>             \* c == '\u2028'
                  ELSE IF c = 8233 THEN <<92,117,50,48,50,57>>             \* c == '\u2029'
                  ELSE <<>>
       IN IF esc = <<>> THEN JsLoop(s, i + d[2], last, w)
          ELSE JsLoop(s, i + d[2], IF c \in {8232, 8233} THEN i + 3 ELSE i + 1, Flush(w, s, last, i) \o esc)
JsStringEscape(s) == JsLoop(s, 0, 0, <<>>)

\* ---- pathEscape(w, s, quoted) / queryEscape(w, s)
Pct(c) == <<37, HexChar(c \div 16), HexChar(c % 16)>>
PathKeep == {33, 35, 36, 42, 44, 45, 46, 47, 58, 59, 61, 63, 64, 91, 93, 95, 126}   \* ! # $ * , - . / : ; = ? @ [ ] _ ~
RECURSIVE PathLoop(_, _, _, _, _)
PathLoop(s, i, last, w, quoted) ==
  IF i >= Len(s) THEN FlushTail(w, s, last)
  ELSE LET c == s[i + 1]
           keep == \/ IsAlnum(c)
                   \/ c \in PathKeep
                   \/ (c = 32 /\ quoted)
                   \/ (c = 37 /\ i + 2 < Len(s) /\ IsHex(s[i + 2]) /\ IsHex(s[i + 3]))
           esc == CASE c = 38 -> <<38,97,109,112,59>>                      \* &amp;
                    [] c = 43 -> <<38,35,52,51,59>>                        \* &#43;
                    [] c = 32 -> <<38,35,51,50,59>>                        \* &#32; (unquoted)
                    [] OTHER  -> Pct(c)
       IN IF keep THEN PathLoop(s, i + 1, last, w, quoted)
          ELSE PathLoop(s, i + 1, i + 1, Flush(w, s, last, i) \o esc, quoted)
PathEscape(s, quoted) == PathLoop(s, 0, 0, <<>>, quoted)
RECURSIVE QueryLoop(_, _, _, _)
QueryLoop(s, i, last, w) ==
  IF i >= Len(s) THEN FlushTail(w, s, last)
  ELSE LET c == s[i + 1] IN
       IF IsAlnum(c) \/ c \in {45, 46, 95} THEN QueryLoop(s, i + 1, last, w)
       ELSE QueryLoop(s, i + 1, i + 1, Flush(w, s, last, i) \o Pct(c))
QueryEscape(s) == QueryLoop(s, 0, 0, <<>>)
\* renderer.showInURL first computes html.UnescapeString(showInHTML(v)); for a string v that is
\* the character-reference decoding of htmlEscape(s)
UrlPre(s) == DecHTML(HtmlEscape(s), 1, FALSE, {})

\* ---- renderer.Show dispatch for a string value in the thirteen templates of the driver
Model(ctx, s, hi) ==
  CASE ctx = "html_text"    -> HtmlEscape(s)                       \* showInHTML
    [] ctx = "attr_dq"      -> AttributeEscape(s, TRUE, TRUE)      \* showInAttribute(quoted)
    [] ctx = "attr_sq"      -> AttributeEscape(s, TRUE, TRUE)
    [] ctx = "attr_unq"     -> AttributeEscape(s, TRUE, FALSE)
    [] ctx \in JsCtx        -> JsStringEscape(s)                   \* showInJSString / showInJSONString
    [] ctx \in CssCtx       -> CssStringEscape(s, hi) \o TailOf(ctx)   \* showInCSSString, then the template's fixed text
    [] ctx = "url_query_dq" -> QueryEscape(UrlPre(s))              \* r.query set by the text "/p?q="
    [] ctx = "url_path_dq"  -> PathEscape(UrlPre(s), TRUE)
    [] ctx = "url_path_unq" -> PathEscape(UrlPre(s), FALSE)
\* ---- renderer.Text / renderer.showInURL: the steps of ONE URL attribute; set = the attribute is srcset (isSet).
\*      st = [q |-> r.query, rq |-> r.removeQuestionMark, am |-> r.addAmpersand, w |-> bytes written]
\*      fix = FALSE: the code as found.  In a srcset, a text with a comma only does r.query = false:
\*      removeQuestionMark / addAmpersand of the URL before the comma stay set, and a '?' that follows the
\*      comma in the same text is not seen - the values of the next URL are then escaped as path.
\*      fix = TRUE: the comma starts a new URL (flags cleared, the text after the last comma is examined
\*      for "?#").  Both variants are model-checked.
Amp == <<38, 97, 109, 112, 59>>                                             \* "&amp;"
RStart == [q |-> FALSE, rq |-> FALSE, am |-> FALSE, w |-> <<>>]            \* endURL() before the attribute
RECURSIVE LastComma(_, _)
LastComma(txt, i) == IF i = 0 THEN 0 ELSE IF txt[i] = 44 THEN i ELSE LastComma(txt, i - 1)
HasQH(txt, from) == \E k \in from..Len(txt) : txt[k] \in {63, 35}           \* bytes.ContainsAny(txt[from-1:], "?#")
RText(st, txt, set, fix) ==
  IF set /\ LastComma(txt, Len(txt)) > 0                                    \* isSet && bytes.ContainsRune(txt, ',')
  THEN IF fix THEN [q |-> HasQH(txt, LastComma(txt, Len(txt)) + 1), rq |-> FALSE, am |-> FALSE, w |-> st.w \o txt]
       ELSE [st EXCEPT !.q = FALSE, !.w = st.w \o txt]
  ELSE IF st.q                                                              \* else if r.query
  THEN LET t1 == IF st.rq /\ txt[1] = 63 THEN Sub(txt, 2, Len(txt)) ELSE txt            \* txt = txt[1:]
           w1 == IF st.am /\ Len(t1) > 0 /\ t1[1] # 38 THEN st.w \o Amp ELSE st.w
       IN [q |-> TRUE, rq |-> FALSE, am |-> FALSE, w |-> w1 \o t1]
  ELSE [st EXCEPT !.q = HasQH(txt, 1), !.w = st.w \o txt]
RShow(st, v, quoted) ==
  LET s == UrlPre(v) IN
  IF st.q
  THEN IF st.rq
       THEN IF s = <<>> THEN st
            ELSE [st EXCEPT !.am = s[Len(s)] # 38, !.w = st.w \o PathEscape(s, quoted)]
       ELSE [st EXCEPT !.w = st.w \o QueryEscape(s)]
  ELSE IF \E k \in 1..Len(s) : s[k] = 63                                    \* strings.Contains(s, "?")
       THEN [q |-> TRUE, rq |-> TRUE, am |-> IF s[Len(s)] \notin {38, 63} THEN TRUE ELSE st.am,
             w |-> st.w \o PathEscape(s, quoted)]
       ELSE [st EXCEPT !.w = st.w \o PathEscape(s, quoted)]
RECURSIVE RSteps(_, _, _, _, _)
RSteps(segs, i, st, set, fix) ==
  IF i > Len(segs) THEN st
  ELSE RSteps(segs, i + 1, IF segs[i].k = "t" THEN RText(st, segs[i].b, set, fix) ELSE RShow(st, segs[i].b, TRUE), set, fix)
ModelProg(segs, set, fix) == RSteps(segs, 1, RStart, set, fix).w
\* a literal text with a comma followed by more of the attribute: where the two variants can differ
CommaLit(segs) == \E i \in 1..(Len(segs)) : segs[i].k = "t" /\ LastComma(segs[i].b, Len(segs[i].b)) > 0
=============================================================================

--------------------------- MODULE MC_EscapersUrl ---------------------------
(* C07, second case space: URL PROGRAMS - several rendering steps inside ONE URL attribute.
   The single-value contexts of MC_Escapers render one {{ x }} after fixed text; whether a value
   shown in a URL is escaped as a query value depends, however, on everything rendered before it in
   the same attribute (literal text and earlier values: a value in path position may itself bring
   the '?').  This module enumerates attribute contents

        prefix  key-literal  {{ v }}  [ tail-literal  |  key-literal-2  {{ w }} ]

   prefix      : up to three segments of literal text and path-position values (pieces of URL,
                 with and without a query, ending in '?', '&', a letter, pre-escaped, non-ASCII, empty)
   key-literal : join "q="  with join one of  "" ? & &amp;   (second slot: & or &amp; then "r=")
   v, w        : strings over the URL token alphabet of MC_Escapers
   and keeps those in which {{ v }} is a query value slot according to the REFERENCE (IsSlot); and,
   for the attribute srcset (a comma-separated list of "URL descriptor"),

        first-candidate " 1x, "  prefix  key-literal  {{ v }}  [ " 2x" ]

   first-candidate : literal URL, a path-position value, or either with a query value slot "x=" {{ 1 }}.
   Model check: the transcription of renderer.Text / renderer.showInURL (RSteps of Escapers.tla)
   followed by the reference (OkProg) holds for every program; the completed programs are exported
   (cases_url.ndjson) and replayed into real templates. *)
EXTENDS Escapers, TLC, Json, FiniteSets, SequencesExt
CONSTANTS V2All,      \* TRUE: every head gets every value of <= 2 tokens (FALSE: core heads only, the others <= 1 token)
          TwoAll,     \* TRUE: every head is continued by a tail / a second slot (FALSE: core heads only)
          SetAll      \* TRUE: every head is also the second URL of a srcset (FALSE: core heads only)

\* ---- alphabets
Tok == { <<37>>, <<52>>, <<97>>, <<103>>, <<43>>, <<32>>, <<38>>, <<63>>, <<35>>,      \* % 4 a g + SP & ? #
         <<61>>, <<47>>, <<60>>, <<34>>, <<39>>, <<45>>, <<195,169>>, <<255>>, <<0>> }   \* = / < " ' - U+00E9 invalid NUL
CoreTok == { <<37>>, <<52>>, <<97>>, <<103>>, <<43>>, <<32>>, <<38>>, <<63>>, <<35>>, <<255>> }
QV1 == {<<>>} \cup Tok
QC1 == {<<>>} \cup CoreTok
QV2 == {Flatten(f) : f \in SeqsUpTo(Tok, 2)}
\* values shown in path position: pieces of URL
Bases == { <<47,115>>,                                  \* /s
           <<47,115,63>>,                               \* /s?
           <<47,115,63,108,61,101,110>>,                \* /s?l=en
           <<47,115,63,108,61,101,110,38>>,             \* /s?l=en&
           <<63,108,61,101,110>>,                       \* ?l=en
           <<47,97,32,98,63,108,61,101,37,50,48,110>>,  \* /a b?l=e%20n
           <<47,115,63,108,61,49,43,49>>,               \* /s?l=1+1
           <<47,195,169,63,108,61,195,169>>,            \* /e'?l=e'  (U+00E9)
           <<>> }
Bases2 == { <<63,108,61,101,110>>, <<38,109,61,49>>, <<>>, <<47,116>> }                 \* ?l=en  &m=1  ""  /t
PreLits == { <<47,112>>, <<47,112,63>>, <<47,112,63,97,61,49>>, <<47,112,63,97,61,49,38>>,    \* /p  /p?  /p?a=1  /p?a=1&
             <<47,112,63,97,61,49,38,97,109,112,59>>, <<47>> }                          \* /p?a=1&amp;  /
Joins == { <<>>, <<63>>, <<38>>, <<38,97,109,112,59>> }                                 \* ""  ?  &  &amp;
Mids  == { <<38>>, <<38,97,109,112,59>> }                                               \* &  &amp;   (then "r=")
Tails == { <<38,121,61,50>>, <<38,97,109,112,59,121,61,50>>, <<35,102>> }               \* &y=2  &amp;y=2  #f
KeyQ == <<113, 61>>                                                                     \* q=
KeyR == <<114, 61>>                                                                     \* r=

\* srcset: what precedes the second URL (the first candidate, then its descriptor and the comma)
Sep1 == <<32, 49, 120, 44, 32>>                                                         \* " 1x, "
Desc2 == <<32, 50, 120>>                                                                \* " 2x"
FirstCands ==
  { <<TSeg(<<47,97>>)>>, <<VSeg(<<47,115>>)>>, <<VSeg(<<47,115,63,108,61,101,110>>)>>, <<VSeg(<<47,115,63>>)>>,       \* /a  {{/s}}  {{/s?l=en}}  {{/s?}}
    <<VSeg(<<47,115,63,108,61,101,110,38>>)>>,                                                                        \* {{/s?l=en&}}
    <<TSeg(<<47,97,63,120,61>>), VSeg(<<49>>)>>,                                                                      \* /a?x={{1}}
    <<VSeg(<<47,115,63,108,61,101,110>>), TSeg(<<38,120,61>>), VSeg(<<49>>)>>,                                        \* {{/s?l=en}}&x={{1}}
    <<VSeg(<<47,115>>), TSeg(<<63,120,61>>), VSeg(<<49>>)>> }                                                         \* {{/s}}?x={{1}}

\* ---- prefixes (no key literal yet)
Pres ==
  { <<>> } \cup { <<VSeg(b)>> : b \in Bases } \cup { <<TSeg(l)>> : l \in PreLits }
  \cup { <<TSeg(l), VSeg(b)>> : l \in {<<47>>, <<47,112>>}, b \in Bases }
  \cup { <<VSeg(b), VSeg(b2)>> : b \in Bases, b2 \in Bases2 }
  \cup { <<VSeg(b), TSeg(m), VSeg(b2)>> : b \in {<<47,115>>, <<47,115,63>>, <<47,115,63,108,61,101,110>>},
                                          m \in {<<47>>, <<38>>, <<38,97,109,112,59>>},
                                          b2 \in {<<116>>, <<63,108,61,101,110>>} }
CorePres ==
  { <<VSeg(<<47,115,63,108,61,101,110>>)>>, <<VSeg(<<47,115,63>>)>>, <<VSeg(<<47,115>>)>>,
    <<TSeg(<<47,112,63,97,61,49>>)>>, <<VSeg(<<47,115>>), VSeg(<<63,108,61,101,110>>)>>,
    <<VSeg(<<47,115,63,108,61,101,110,38>>)>> }
ASSUME CorePres \subseteq Pres
\* literal text directly after literal text is ONE text of the template
AddLit(a, t) == IF Len(a) > 0 /\ a[Len(a)].k = "t" THEN [a EXCEPT ![Len(a)] = TSeg(a[Len(a)].b \o t)] ELSE Append(a, TSeg(t))
Join(a, b) == IF Len(b) > 0 /\ b[1].k = "t" THEN AddLit(a, b[1].b) \o Tail(b) ELSE a \o b
\* a program under construction: n = slots filled (3 = closed by a tail), open = ends with a key literal
RawHeads == { [segs |-> AddLit(a, j \o KeyQ), core |-> a \in CorePres, n |-> 0, open |-> TRUE, set |-> FALSE] : a \in Pres, j \in Joins }
\* kept: those where the value after the key literal is a query value slot for the reference
SlotNext(h) == IsSlot(Append(h.segs, VSeg(<<>>)), h.set, Len(h.segs) + 1)
HrefHeads == { h \in RawHeads : SlotNext(h) }
SetHeads == { h \in { [segs |-> Join(AddLit(f, Sep1), g.segs), core |-> g.core, n |-> 0, open |-> TRUE, set |-> TRUE] :
                      f \in FirstCands, g \in {x \in HrefHeads : x.core \/ SetAll} } : SlotNext(h) }
Heads == HrefHeads \cup SetHeads
Ext(p, q1, q2) ==
  IF p.open
  THEN { [p EXCEPT !.segs = Append(p.segs, VSeg(v)), !.n = p.n + 1, !.open = FALSE] :
         v \in (IF p.n = 1 \/ p.set THEN q1 ELSE IF p.core \/ V2All THEN q2 ELSE q1) }
  ELSE IF p.n = 1 /\ p.set
  THEN { [p EXCEPT !.segs = Append(p.segs, TSeg(Desc2)), !.n = 3] }
  ELSE IF p.n = 1 /\ (p.core \/ TwoAll) /\ p.segs[Len(p.segs)].b \in QC1
  THEN { [p EXCEPT !.segs = Append(p.segs, TSeg(m \o KeyR)), !.open = TRUE] : m \in Mids }
       \cup { [p EXCEPT !.segs = Append(p.segs, TSeg(t)), !.n = 3] : t \in Tails }
  ELSE {}

VARIABLE prog
Init == prog \in Heads
Next == \E x \in Ext(prog, QV1, QV2) : prog' = x

\* the transcribed renderer (with the srcset fix), then the reference: every judged slot decodes back
\* to the value shown ...
ProgRoundTrip == OkProg(prog.segs, prog.set, ModelProg(prog.segs, prog.set, TRUE))
\* ... and the transcription of the code as found can fail only in a srcset with a comma in literal text
\* (the two variants are the same function when set = FALSE or no literal text has a comma)
ProgAsFoundExtent == (prog.set /\ CommaLit(prog.segs)) \/ ModelProg(prog.segs, prog.set, FALSE) = ModelProg(prog.segs, prog.set, TRUE)
\* non-vacuity: the first slot of every program IS judged by the reference (a second slot is not when the
\* first value has a '#': it is in the fragment then)
ProgJudged == prog.n >= 1 => JudgedSlots(prog.segs, prog.set) # {}

(* ---------- case export: the same Heads / Ext, three rounds ---------- *)
\* (an operator with a parameter: TLC evaluates zero-argument constant definitions at start-up, this
\*  one would be built twice)
Cases(first) ==
  LET q1 == QV1
      q2 == QV2
      P1 == UNION {Ext(h, q1, q2) : h \in Heads}
      P2 == UNION {Ext(p, q1, q2) : p \in P1}
      P3 == UNION {Ext(p, q1, q2) : p \in P2}
      S  == SetToSeq({[at |-> IF p.set THEN "srcset" ELSE "href", segs |-> p.segs] : p \in {x \in P1 \cup P2 \cup P3 : ~x.open}})
  IN [i \in 1..Len(S) |-> [id |-> first + i - 1, at |-> S[i].at, segs |-> S[i].segs]]
ASSUME ndJsonSerialize("cases_url.ndjson", Cases(2000001))
=============================================================================

--------------------------- MODULE MC_Escapers ---------------------------
(* C07.  Exhaustive model check: for every string s made of at most MaxLen tokens of the target
   language's class alphabet (and at most CoreLen tokens of its 10-token core alphabet), the
   implementation-shaped escaper of every context of that language, decoded by the REFERENCE
   decoder of that context, gives back s.  Also exports the replay cases:
     - the strings of at most GenLen tokens (GenCore core tokens) per language, rendered in the
       contexts of that language,
     - every single byte 0..255, rendered in every context,
     - the length-2 slice "escape-relevant byte followed by every ASCII byte 0..127 and 8 sampled
       non-ASCII successors": Full = TRUE: all 53 escape-relevant bytes x every context;
       Full = FALSE: per language, its own escape-relevant bytes x the contexts of that language. *)
EXTENDS Escapers, TLC, Json, FiniteSets, SequencesExt
CONSTANTS MaxLen, CoreLen,     \* tokens per string in the model check (class alphabet / core alphabet)
          GenLen, GenCore,     \* tokens per string in the exported cases
          Full

Groups == {"html", "js", "css", "url"}
\* class alphabets: one representative per class the escapers / decoders distinguish, and short
\* fragments that would form an escape of the target language if the escaper let them through
Tokens(gr) ==
  CASE gr = "html" -> { <<38>>, <<60>>, <<62>>, <<34>>, <<39>>, <<32>>, <<10>>, <<61>>, <<96>>,       \* & < > " ' SP LF = `
                        <<97>>, <<59>>, <<108,116>>, <<97,109,112>>, <<35,54,48>>, <<35,120,51,67>>,   \* a ; lt amp #60 #x3C
                        <<195,169>>, <<255>>, <<0>> }                                                   \* U+00E9, invalid byte, NUL
    [] gr = "js"   -> { <<92>>, <<34>>, <<39>>, <<60>>, <<10>>, <<0>>, <<8>>, <<11>>, <<127>>,        \* \ " ' < LF NUL BS VT DEL
                        <<117>>, <<48,48,51,99>>, <<110>>, <<97>>,                                      \* u 003c n a
                        <<226,128,168>>, <<226,128,169>>, <<195,169>>, <<255>>, <<226,128>> }           \* U+2028 U+2029 U+00E9 invalid, truncated
    [] gr = "css"  -> { <<92>>, <<34>>, <<39>>, <<60>>, <<10>>, <<13>>, <<0>>, <<32>>, <<9>>,         \* \ " ' < LF CR NUL SP TAB
                        <<97>>, <<98>>, <<99>>, <<102>>, <<103>>, <<70>>, <<49>>,                       \* a b c f g F 1
                        <<195,169>>, <<255>> }
    [] gr = "url"  -> { <<37>>, <<52>>, <<97>>, <<103>>, <<43>>, <<32>>, <<38>>, <<63>>, <<35>>,      \* % 4 a g + SP & ? #
                        <<61>>, <<47>>, <<60>>, <<34>>, <<39>>, <<45>>, <<195,169>>, <<255>>, <<0>> }   \* = / < " ' - U+00E9 invalid NUL
Core(gr) ==
  CASE gr = "html" -> { <<38>>, <<60>>, <<34>>, <<39>>, <<32>>, <<59>>, <<108,116>>, <<35,54,48>>, <<97,109,112>>, <<255>> }
    [] gr = "js"   -> { <<92>>, <<34>>, <<39>>, <<60>>, <<10>>, <<117>>, <<48,48,51,99>>, <<110>>, <<226,128,168>>, <<226,128>> }
    [] gr = "css"  -> { <<92>>, <<34>>, <<39>>, <<60>>, <<10>>, <<32>>, <<98>>, <<99>>, <<103>>, <<49>> }
    [] gr = "url"  -> { <<37>>, <<52>>, <<97>>, <<103>>, <<43>>, <<32>>, <<38>>, <<63>>, <<35>>, <<255>> }
ASSUME \A gr \in Groups : Core(gr) \subseteq Tokens(gr)
CtxOf(gr) ==
  CASE gr = "html" -> <<"html_text", "attr_dq", "attr_sq", "attr_unq">>
    [] gr = "js"   -> <<"js_script_dq", "js_file_sq", "json_file">>
    [] gr = "css"  -> <<"css_style_dq", "css_file_sq", "css_file_dq_tail">>
    [] gr = "url"  -> <<"url_query_dq", "url_path_dq", "url_path_unq">>
RangeOf(f) == {f[x] : x \in DOMAIN f}

\* bytes some escaper or some decoder treats specially
EscRelevant == (0..31) \cup {32, 34, 35, 37, 38, 39, 40, 41, 43, 47, 58, 59, 60, 61, 62, 63, 92, 96, 123, 125, 127}
First(gr) ==
  CASE gr = "html" -> {38, 60, 62, 34, 39, 32, 9, 10, 12, 13, 61, 96, 0, 35, 59}
    [] gr = "js"   -> {92, 34, 39, 60, 62, 38, 10, 13, 0, 8, 9, 11, 12, 47, 31, 127}
    [] gr = "css"  -> {92, 34, 39, 60, 62, 38, 40, 41, 43, 47, 58, 59, 123, 125, 10, 13, 12, 9, 0, 32, 31, 11}
    [] gr = "url"  -> {37, 43, 38, 63, 35, 61, 47, 32, 34, 39, 60, 0, 59, 58}
ASSUME \A gr \in Groups : First(gr) \subseteq EscRelevant
NonAsciiSucc == { <<195,169>>, <<194,128>>, <<226,128,168>>, <<226,128,169>>, <<239,191,189>>,
                  <<240,159,152,128>>, <<255>>, <<128>> }
PairsOf(F) == {<<c, d>> : c \in F, d \in 0..127} \cup {<<c>> \o t : c \in F, t \in NonAsciiSucc}
Dict(gr) == {<<c>> : c \in 0..255} \cup PairsOf(IF Full THEN EscRelevant ELSE First(gr))

VARIABLES g, core, n, s
\* besides the token strings, the model check covers the byte dictionary of the replay (every single
\* byte, and the pair slice) so that every entry of every escape table of the transcription is exercised
Init == /\ g \in Groups
        /\ \/ core \in BOOLEAN /\ n = 0 /\ s = <<>>
           \/ core = FALSE /\ n = MaxLen /\ s \in Dict(g)
Next == /\ n < (IF core THEN CoreLen ELSE MaxLen)
        /\ \E t \in (IF core THEN Core(g) ELSE Tokens(g)) : s' = s \o t
        /\ n' = n + 1 /\ UNCHANGED <<g, core>>

\* With the hex-letter range a..f in prefixWithSpace the round trip holds in every context ...
RoundTrip == \A c \in RangeOf(CtxOf(g)) : Ok(c, s, Model(c, s, 102))
\* ... and with the range as found in the tree (a..b) it fails exactly on the strings where a
\* hex-escaped byte is directly followed by one of c d e f C D E F (the extent of the defect, both
\* directions).  Every other escaper has one variant only.
CssAsFoundExtent == g = "css" => \A c \in CssCtx : (Ok(c, s, Model(c, s, 98)) <=> ~HexAfterEsc(s))
\* showInURL's unescape(escape(s)) is the identity
UrlPreIdentity == g = "url" => UrlPre(s) = s

(* ---------- case export ---------- *)
\* (every large value is bound by a LET inside the one expression that uses it: TLC evaluates a
\*  LET-bound value once, but re-evaluates a top-level definition at each reference made while
\*  the ASSUME below is being evaluated)
Strs(gr) == {Flatten(f) : f \in SeqsUpTo(Tokens(gr), GenLen)} \cup {Flatten(f) : f \in SeqsUpTo(Core(gr), GenCore)}
GroupCases(gr) == LET S == SetToSeq(Strs(gr)) IN [j \in 1..Len(S) |-> [s |-> S[j], cx |-> CtxOf(gr)]]
SetCases(S, cx) == LET Q == SetToSeq(S) IN [j \in 1..Len(Q) |-> [s |-> Q[j], cx |-> cx]]
PairCases == IF Full THEN SetCases({<<c>> : c \in 0..255} \cup PairsOf(EscRelevant), <<>>)      \* cx empty = every context
             ELSE SetCases({<<c>> : c \in 0..255}, <<>>)
                  \o SetCases(PairsOf(First("html")), CtxOf("html")) \o SetCases(PairsOf(First("js")), CtxOf("js"))
                  \o SetCases(PairsOf(First("css")), CtxOf("css")) \o SetCases(PairsOf(First("url")), CtxOf("url"))
Cases == LET R == GroupCases("html") \o GroupCases("js") \o GroupCases("css") \o GroupCases("url") \o PairCases
         IN [i \in 1..Len(R) |-> [id |-> i, s |-> R[i].s, cx |-> R[i].cx]]
ASSUME ndJsonSerialize("cases.ndjson", Cases)
=============================================================================

--------------------------- MODULE MC_Escapers ---------------------------
(* C07.  Exhaustive model check: for every string s made of at most MaxLen tokens of the group's
   class alphabet, the implementation-shaped escaper of every context of the group, decoded by the
   REFERENCE decoder of that context, gives back s.  Also exports the replay cases:
     - every string of at most GenLen tokens per group (rendered in the contexts of that group),
     - every single byte 0..255, and the length-2 slice "escape-relevant byte followed by every
       ASCII byte 0..127 and a sample of non-ASCII successors" (rendered in every context). *)
EXTENDS Escapers, TLC, Json, FiniteSets, SequencesExt
CONSTANTS MaxLen,      \* tokens per string in the model check
          GenLen,      \* tokens per string in the exported cases
          AllCtl       \* TRUE: every control byte 0..31 is a first byte of the pair slice; FALSE: a subset

Groups == <<"html", "js", "css", "url">>
\* class alphabets: one representative per class the escapers / decoders distinguish, and short
\* fragments that would form an escape of the target language if the escaper let them through
Tokens(g) ==
  CASE g = "html" -> { <<38>>, <<60>>, <<62>>, <<34>>, <<39>>, <<32>>, <<10>>, <<61>>, <<96>>,        \* & < > " ' SP LF = `
                       <<97>>, <<59>>, <<108,116>>, <<97,109,112>>, <<35,54,48>>, <<35,120,51,67>>,    \* a ; lt amp #60 #x3C
                       <<195,169>>, <<255>>, <<0>> }                                                    \* U+00E9, invalid byte, NUL
    [] g = "js"   -> { <<92>>, <<34>>, <<39>>, <<60>>, <<10>>, <<0>>, <<8>>, <<11>>, <<127>>,         \* \ " ' < LF NUL BS VT DEL
                       <<117>>, <<48,48,51,99>>, <<110>>, <<97>>,                                       \* u 003c n a
                       <<226,128,168>>, <<226,128,169>>, <<195,169>>, <<255>>, <<226,128>> }            \* U+2028 U+2029 U+00E9 invalid, truncated
    [] g = "css"  -> { <<92>>, <<34>>, <<39>>, <<60>>, <<10>>, <<13>>, <<0>>, <<32>>, <<9>>,          \* \ " ' < LF CR NUL SP TAB
                       <<97>>, <<98>>, <<99>>, <<102>>, <<103>>, <<70>>, <<49>>,                        \* a b c f g F 1
                       <<195,169>>, <<255>> }
    [] g = "url"  -> { <<37>>, <<52>>, <<97>>, <<103>>, <<43>>, <<32>>, <<38>>, <<63>>, <<35>>,       \* % 4 a g + SP & ? #
                       <<61>>, <<47>>, <<60>>, <<34>>, <<39>>, <<45>>, <<195,169>>, <<255>>, <<0>> }    \* = / < " ' - U+00E9 invalid NUL
CtxOf(g) ==
  CASE g = "html" -> <<"html_text", "attr_dq", "attr_sq", "attr_unq">>
    [] g = "js"   -> <<"js_script_dq", "js_file_sq", "json_file">>
    [] g = "css"  -> <<"css_style_dq", "css_file_sq">>
    [] g = "url"  -> <<"url_query_dq", "url_path_dq", "url_path_unq">>
RangeOf(f) == {f[x] : x \in DOMAIN f}

VARIABLES g, n, s
Init == g \in RangeOf(Groups) /\ n = 0 /\ s = <<>>
Next == n < MaxLen /\ \E t \in Tokens(g) : s' = s \o t /\ n' = n + 1 /\ g' = g

\* the model as found in the tree (prefixWithSpace tests 'a'..'b') for everything but CSS, where
\* both variants are checked: with the intended range the round trip holds ...
RoundTrip == \A c \in RangeOf(CtxOf(g)) : Ok(c, s, Model(c, s, 102))
\* ... and with the range as found it fails exactly on the strings where a hex-escaped byte is
\* directly followed by one of c d e f C D E F (the extent of the defect, both directions)
CssAsFoundExtent == g = "css" => \A c \in CssCtx : (Ok(c, s, Model(c, s, 98)) <=> ~HexAfterEsc(s))
\* showInURL's unescape(escape(s)) is the identity
UrlPreIdentity == g = "url" => UrlPre(s) = s

(* ---------- case export ---------- *)
\* (every large value is bound by a LET inside the one expression that uses it: TLC evaluates a
\*  LET-bound value once, but re-evaluates a top-level definition at each reference made while
\*  the ASSUME below is being evaluated)
Strs(gr) == {Flatten(f) : f \in SeqsUpTo(Tokens(gr), GenLen)}
GroupCases(gr) == LET S == SetToSeq(Strs(gr)) IN [j \in 1..Len(S) |-> [s |-> S[j], cx |-> CtxOf(gr)]]
Ctl == IF AllCtl THEN 0..31 ELSE {0, 8, 9, 10, 11, 12, 13, 27, 31}
\* bytes some escaper or some decoder treats specially
EscRelevant == Ctl \cup {32, 34, 35, 37, 38, 39, 40, 41, 43, 47, 58, 59, 60, 61, 62, 63, 92, 96, 123, 125, 127}
NonAsciiSucc == { <<195,169>>, <<194,128>>, <<226,128,168>>, <<226,128,169>>, <<239,191,189>>,
                  <<240,159,152,128>>, <<255>>, <<128>> }
PairSet == {<<c>> : c \in 0..255} \cup {<<c, d>> : c \in EscRelevant, d \in 0..127}
           \cup {<<c>> \o t : c \in EscRelevant, t \in NonAsciiSucc}
PairCases == LET S == SetToSeq(PairSet) IN [j \in 1..Len(S) |-> [s |-> S[j], cx |-> <<>>]]   \* cx empty = every context
Cases == LET R == GroupCases("html") \o GroupCases("js") \o GroupCases("css") \o GroupCases("url") \o PairCases
         IN [i \in 1..Len(R) |-> [id |-> i, s |-> R[i].s, cx |-> R[i].cx]]
ASSUME ndJsonSerialize("cases.ndjson", Cases)
=============================================================================

-------------------------- MODULE Trace_Escapers --------------------------
(* C07.  Judges observations of the real scriggo templates: one record per line of obs.ndjson,
     {id, ctx, s, out, st}
   s = the string given to the template variable, out = the slice of the real rendered output at
   the place of {{ x }} (between the fixed text of the template of context ctx), st = "ok" when the
   template rendered and the fixed text was found around the value.
   Verdict predicate (property level): Ok(ctx, s, out) of Escapers.tla - the context's standard
   decoder applied to out gives back s (with the three listed exceptions E1-E3).
   A record with ctx = "url_prog" is a URL program (several steps in ONE href attribute):
     {id, ctx, s: <<>>, at, segs, out, st}
   at = "href" / "srcset", segs = the segments (literal text / shown value), out = the rendered
   attribute value; its verdict predicate is OkProg(segs, at = "srcset", out): every query value slot of the program, located in the
   rendered URL by its parameter name, percent-decodes back to the string shown there.  A program
   without a slot the reference can judge is counted (ref_undefined), never failed.
   Records with st # "ok" are not judged (counted in diag.ndjson; the check treats "nodelim" as a
   machinery failure). *)
EXTENDS Escapers, TLC, Json
Rendered(r) == r.st = "ok"
IsProg(r) == r.ctx = "url_prog"
IsSet(r) == r.at = "srcset"
RecOk(r) == ~Rendered(r) \/ (IF IsProg(r) THEN OkProg(r.segs, IsSet(r), r.out) ELSE Ok(r.ctx, r.s, r.out))
RefUndefined(r) == Rendered(r) /\ IsProg(r) /\ JudgedSlots(r.segs, IsSet(r)) = {}

\* Signature.  Two root causes are recognised and named.  (1) In a srcset, the renderer's URL state
\* after a comma in literal text (the query value of a later URL of the set is escaped as path) -
\* recognised when the real output is exactly what the as-found transcription of renderer.Text
\* produces and the variant that starts a new URL at the comma would decode back.
\* (2) In a CSS string, a hex escape directly followed by one of c d e f C D E F without the separating space (prefixWithSpace tests a..b) -
\* recognised when the real output is exactly what the as-found transcription produces, s has such
\* a pair, and the variant with the a..f range would decode back.  Any other failure carries the
\* input itself, so that it is reported separately.
\* A failing URL program carries its segments: literal text as it is, each value between -1 and -2.
RECURSIVE ProgText(_, _)
ProgText(segs, i) == IF i > Len(segs) THEN <<>>
                     ELSE (IF segs[i].k = "t" THEN segs[i].b ELSE <<-1>> \o segs[i].b \o <<-2>>) \o ProgText(segs, i + 1)
Sig(r) ==
  IF IsProg(r) THEN
     IF IsSet(r) /\ CommaLit(r.segs) /\ r.out = ModelProg(r.segs, TRUE, FALSE)
                 /\ OkProg(r.segs, TRUE, ModelProg(r.segs, TRUE, TRUE))
     THEN [fam |-> "escapers", ctx |-> r.ctx, cause |-> "srcset-url-state-after-comma", s |-> <<>>]
     ELSE [fam |-> "escapers", ctx |-> r.ctx, cause |-> "roundtrip", s |-> <<IF IsSet(r) THEN -4 ELSE -3>> \o ProgText(r.segs, 1)]
  ELSE
  IF r.ctx \in CssCtx /\ HexAfterEsc(r.s) /\ r.out = Model(r.ctx, r.s, 98) /\ Ok(r.ctx, r.s, Model(r.ctx, r.s, 102))
  THEN [fam |-> "escapers", ctx |-> r.ctx, cause |-> "css-hex-letter-after-escape", s |-> <<>>]
  ELSE [fam |-> "escapers", ctx |-> r.ctx, cause |-> "roundtrip", s |-> r.s]

\* diagnostic only (never a verdict): does the real output equal the transcription's output?
ModelOf(r, hi)  == IF IsProg(r) THEN ModelProg(r.segs, IsSet(r), hi = 102) ELSE Model(r.ctx, r.s, hi)
DriftFixed(r)   == Rendered(r) /\ r.out # ModelOf(r, 102)
DriftAsFound(r) == Rendered(r) /\ r.out # ModelOf(r, 98)                 \* differs from DriftFixed for CSS and srcset only

(* ---- record walk (after the skeleton of spec/lib2/Trace_HTMLEscape.tla).  Differences: each
        record is judged exactly once, in the step that consumes it; the bad records are kept as
        ONE representative index per distinct signature, at most 400 (bounded, so the walk stays
        linear; thousands of inputs sharing one cause cannot crowd a different failure out of the
        cap); extra counters go to diag.ndjson. ---- *)
VARIABLES l, nbad, nda, ndf, nboth, nskip, nundef, reps, seen
Obs == ndJsonDeserialize("obs.ndjson")
Init == l = 1 /\ nbad = 0 /\ nda = 0 /\ ndf = 0 /\ nboth = 0 /\ nskip = 0 /\ nundef = 0 /\ reps = <<>> /\ seen = {}
\* (a value bound by \E over a singleton set is computed once; a LET-bound expression of an action
\*  is re-evaluated by TLC at each use)
TwoVariants(r) == r.ctx \in CssCtx \/ (IsProg(r) /\ IsSet(r))
Judge(r) == [bad |-> ~RecOk(r), df |-> DriftFixed(r), dcss |-> IF TwoVariants(r) THEN DriftAsFound(r) ELSE FALSE,
             undef |-> RefUndefined(r)]
Next == /\ l <= Len(Obs) /\ l' = l + 1
        /\ \E v \in {Judge(Obs[l])} :
           \E new \in {v.bad /\ Len(reps) < 400 /\ Sig(Obs[l]) \notin seen} :
              /\ nbad' = nbad + (IF v.bad THEN 1 ELSE 0)
              /\ ndf' = ndf + (IF v.df THEN 1 ELSE 0)
              /\ nda' = nda + (IF (IF TwoVariants(Obs[l]) THEN v.dcss ELSE v.df) THEN 1 ELSE 0)
              /\ nboth' = nboth + (IF v.df /\ (IF TwoVariants(Obs[l]) THEN v.dcss ELSE TRUE) THEN 1 ELSE 0)
              /\ nskip' = nskip + (IF Rendered(Obs[l]) THEN 0 ELSE 1)
              /\ nundef' = nundef + (IF v.undef THEN 1 ELSE 0)
              /\ reps' = IF new THEN Append(reps, l) ELSE reps
              /\ seen' = IF new THEN seen \cup {Sig(Obs[l])} ELSE seen
Done == l = Len(Obs) + 1 =>
          /\ ndJsonSerialize("diag.ndjson", <<[records |-> Len(Obs), nbad |-> nbad, drift_asfound |-> nda,
                                               drift_fixed |-> ndf, drift_both |-> nboth, not_rendered |-> nskip, ref_undefined |-> nundef]>>)
          /\ ndJsonSerialize("bad.ndjson",
               IF Len(reps) = 0 THEN <<>> ELSE
               [j \in 1..Len(reps) |-> [k |-> reps[j], id |-> Obs[reps[j]].id, sig |-> Sig(Obs[reps[j]]), nbad |-> nbad]])
Consumed == TLCGet("stats").diameter - 1 = Len(Obs)
=============================================================================

-------------------------- MODULE Trace_Escapers --------------------------
(* C07.  Judges observations of the real scriggo templates: one record per line of obs.ndjson,
     {id, ctx, s, out, st}
   s = the string given to the template variable, out = the slice of the real rendered output at
   the place of {{ x }} (between the fixed text of the template of context ctx), st = "ok" when the
   template rendered and the fixed text was found around the value.
   Verdict predicate (property level): Ok(ctx, s, out) of Escapers.tla - the context's standard
   decoder applied to out gives back s (with the three listed exceptions E1-E3).
   Records with st # "ok" are not judged (counted in diag.ndjson; the check treats "nodelim" as a
   machinery failure). *)
EXTENDS Escapers, TLC, Json
Rendered(r) == r.st = "ok"
RecOk(r) == ~Rendered(r) \/ Ok(r.ctx, r.s, r.out)

\* Signature.  One root cause is recognised and named: in a CSS string, a hex escape directly
\* followed by one of c d e f C D E F without the separating space (prefixWithSpace tests a..b) -
\* recognised when the real output is exactly what the as-found transcription produces, s has such
\* a pair, and the variant with the a..f range would decode back.  Any other failure carries the
\* input itself, so that it is reported separately.
Sig(r) ==
  IF r.ctx \in CssCtx /\ HexAfterEsc(r.s) /\ r.out = CssStringEscape(r.s, 98) /\ Ok(r.ctx, r.s, CssStringEscape(r.s, 102))
  THEN [fam |-> "escapers", ctx |-> r.ctx, cause |-> "css-hex-letter-after-escape", s |-> <<>>]
  ELSE [fam |-> "escapers", ctx |-> r.ctx, cause |-> "roundtrip", s |-> r.s]

\* diagnostic only (never a verdict): does the real output equal the transcription's output?
DriftAsFound(r) == Rendered(r) /\ r.out # Model(r.ctx, r.s, 98)
DriftFixed(r)   == Rendered(r) /\ r.out # Model(r.ctx, r.s, 102)

(* ---- record walk (skeleton of spec/lib2/Trace_HTMLEscape.tla; bad.ndjson keeps ONE record per
        distinct signature so that thousands of inputs sharing one cause cannot crowd others out
        of the 400-record cap; extra counters go to diag.ndjson) ---- *)
VARIABLES l, nbad, nda, ndf, nskip
Obs == ndJsonDeserialize("obs.ndjson")
Init == l = 1 /\ nbad = 0 /\ nda = 0 /\ ndf = 0 /\ nskip = 0
Next == /\ l <= Len(Obs) /\ l' = l + 1
        /\ nbad' = nbad + (IF RecOk(Obs[l]) THEN 0 ELSE 1)
        /\ nda' = nda + (IF DriftAsFound(Obs[l]) THEN 1 ELSE 0)
        /\ ndf' = ndf + (IF DriftFixed(Obs[l]) THEN 1 ELSE 0)
        /\ nskip' = nskip + (IF Rendered(Obs[l]) THEN 0 ELSE 1)
BadIdx == SelectSeq([i \in 1..Len(Obs) |-> i], LAMBDA i : ~RecOk(Obs[i]))
RECURSIVE Reps(_, _, _)
Reps(j, seen, acc) ==                      \* first bad record of each distinct signature, at most 400
  IF j > Len(BadIdx) \/ Len(acc) >= 400 THEN acc
  ELSE LET sg == Sig(Obs[BadIdx[j]]) IN
       IF sg \in seen THEN Reps(j + 1, seen, acc)
       ELSE Reps(j + 1, seen \cup {sg}, Append(acc, BadIdx[j]))
Done == l = Len(Obs) + 1 =>
          /\ ndJsonSerialize("diag.ndjson", <<[records |-> Len(Obs), nbad |-> nbad, drift_asfound |-> nda,
                                               drift_fixed |-> ndf, not_rendered |-> nskip]>>)
          /\ ndJsonSerialize("bad.ndjson",
               IF nbad = 0 THEN <<>>
               ELSE LET R == Reps(1, {}, <<>>) IN
                    [j \in 1..Len(R) |-> [k |-> R[j], id |-> Obs[R[j]].id, sig |-> Sig(Obs[R[j]]), nbad |-> nbad]])
Consumed == TLCGet("stats").diameter - 1 = Len(Obs)
=============================================================================

-------------------------- MODULE Trace_Escapers --------------------------
(* C07.  Judges observations of the real scriggo templates: one record per line of obs.ndjson,
     {id, ctx, s, out, st}
   s = the string given to the template variable, out = the slice of the real rendered output at
   the place of {{ x }} (between the fixed text of the template of context ctx), st = "ok" when the
   template rendered and the fixed text was found around the value.
   Verdict predicate (property level): Ok(ctx, s, out) of Escapers.tla - the context's standard
   decoder applied to out gives back s (with the three listed exceptions E1-E3).
   Records with st # "ok" are not judged (counted in diag.ndjson; the check treats "nodelim" as a
   machinery failure). *)
EXTENDS Escapers, TLC, Json
Rendered(r) == r.st = "ok"
RecOk(r) == ~Rendered(r) \/ Ok(r.ctx, r.s, r.out)

\* Signature.  One root cause is recognised and named: in a CSS string, a hex escape directly
\* followed by one of c d e f C D E F without the separating space (prefixWithSpace tests a..b) -
\* recognised when the real output is exactly what the as-found transcription produces, s has such
\* a pair, and the variant with the a..f range would decode back.  Any other failure carries the
\* input itself, so that it is reported separately.
Sig(r) ==
  IF r.ctx \in CssCtx /\ HexAfterEsc(r.s) /\ r.out = Model(r.ctx, r.s, 98) /\ Ok(r.ctx, r.s, Model(r.ctx, r.s, 102))
  THEN [fam |-> "escapers", ctx |-> r.ctx, cause |-> "css-hex-letter-after-escape", s |-> <<>>]
  ELSE [fam |-> "escapers", ctx |-> r.ctx, cause |-> "roundtrip", s |-> r.s]

\* diagnostic only (never a verdict): does the real output equal the transcription's output?
DriftFixed(r)   == Rendered(r) /\ r.out # Model(r.ctx, r.s, 102)
DriftAsFound(r) == Rendered(r) /\ r.out # Model(r.ctx, r.s, 98)          \* differs from DriftFixed for CSS only

(* ---- record walk (after the skeleton of spec/lib2/Trace_HTMLEscape.tla).  Differences: each
        record is judged exactly once, in the step that consumes it; the bad records are kept as
        ONE representative index per distinct signature, at most 400 (bounded, so the walk stays
        linear; thousands of inputs sharing one cause cannot crowd a different failure out of the
        cap); extra counters go to diag.ndjson. ---- *)
VARIABLES l, nbad, nda, ndf, nskip, reps, seen
Obs == ndJsonDeserialize("obs.ndjson")
Init == l = 1 /\ nbad = 0 /\ nda = 0 /\ ndf = 0 /\ nskip = 0 /\ reps = <<>> /\ seen = {}
\* (a value bound by \E over a singleton set is computed once; a LET-bound expression of an action
\*  is re-evaluated by TLC at each use)
Judge(r) == [bad |-> ~RecOk(r), df |-> DriftFixed(r), dcss |-> IF r.ctx \in CssCtx THEN DriftAsFound(r) ELSE FALSE]
Next == /\ l <= Len(Obs) /\ l' = l + 1
        /\ \E v \in {Judge(Obs[l])} :
           \E new \in {v.bad /\ Len(reps) < 400 /\ Sig(Obs[l]) \notin seen} :
              /\ nbad' = nbad + (IF v.bad THEN 1 ELSE 0)
              /\ ndf' = ndf + (IF v.df THEN 1 ELSE 0)
              /\ nda' = nda + (IF (IF Obs[l].ctx \in CssCtx THEN v.dcss ELSE v.df) THEN 1 ELSE 0)
              /\ nskip' = nskip + (IF Rendered(Obs[l]) THEN 0 ELSE 1)
              /\ reps' = IF new THEN Append(reps, l) ELSE reps
              /\ seen' = IF new THEN seen \cup {Sig(Obs[l])} ELSE seen
Done == l = Len(Obs) + 1 =>
          /\ ndJsonSerialize("diag.ndjson", <<[records |-> Len(Obs), nbad |-> nbad, drift_asfound |-> nda,
                                               drift_fixed |-> ndf, not_rendered |-> nskip]>>)
          /\ ndJsonSerialize("bad.ndjson",
               IF Len(reps) = 0 THEN <<>> ELSE
               [j \in 1..Len(reps) |-> [k |-> reps[j], id |-> Obs[reps[j]].id, sig |-> Sig(Obs[reps[j]]), nbad |-> nbad]])
Consumed == TLCGet("stats").diameter - 1 = Len(Obs)
=============================================================================

--------------------------------- MODULE MC_Pos ---------------------------------
(* Model check of the position bookkeeping + export of the failing sources.
   Implementation-shaped model: the lexer's (line, column) counters as it consumes a source piece
   by piece (newline -> line+1, column 1; every start byte of a character -> column+1), checked
   against LineCol for every piece sequence.  Cases: every sequence of <= MaxPieces position-shifting
   prefix pieces followed by an error fragment, as program and as template. *)
EXTENDS Pos, TLC, Json, SequencesExt, FiniteSets
CONSTANTS MaxPieces
Pieces == << <<97>>, <<10>>, <<13, 10>>, <<9>>, <<195, 169>>, <<226, 130, 172>>,                 \* a \n \r\n \t é €
             <<47, 42, 32, 120, 10, 121, 32, 42, 47>>, <<47, 47, 32, 99, 10>>,                   \* /* x\ny */   // c\n
             <<96, 97, 10, 98, 96>>, <<34, 115, 34>>, <<32>>, <<123, 35, 32, 99, 10, 99, 32, 35, 125>>,   \* `a\nb` "s" space {# c\nc #}
             <<47, 42, 32, 120, 10, 121, 121, 10, 122, 32, 42, 47>>,                                \* /* x\nyy\nz */  (two line breaks)
             <<123, 35, 32, 99, 10, 195, 169, 99, 10, 99, 32, 35, 125>> >>                          \* {# c\néc\nc #}  (two line breaks)
NP == Len(Pieces)
IsStartByte(b) == b < 128 \/ b >= 192
\* the lexer's counters after consuming bytes s from (line, col)
RECURSIVE Count(_, _, _, _)
Count(s, i, line, col) == IF i > Len(s) THEN <<line, col>>
                          ELSE IF s[i] = 10 THEN Count(s, i + 1, line + 1, 1)
                          ELSE Count(s, i + 1, line, IF IsStartByte(s[i]) THEN col + 1 ELSE col)
VARIABLES seq
Init == seq = <<>>
Next == Len(seq) < MaxPieces /\ \E k \in 1..NP : seq' = Append(seq, k)
RECURSIVE Cat(_, _)
Cat(sq, i) == IF i > Len(sq) THEN <<>> ELSE Pieces[sq[i]] \o Cat(sq, i + 1)
Text(sq) == Cat(sq, 1)
CountersMatchLineCol == LET t == Text(seq) IN Count(t, 1, 1, 1) = LineCol(t, Len(t))
\* ---- case export
ProgErr == << <<120>>, <<49, 32, 43>>, <<34, 97>>, <<118, 97, 114, 32, 120, 32, 105, 110, 116, 32, 61, 32, 34, 115, 34>>, <<120, 32, 61, 61, 32, 49>> >>
            \* x | 1 + | "a | var x int = "s" | x == 1
TmplErr == << <<123, 123, 32, 120, 32, 125, 125>>, <<123, 37, 32, 105, 102, 32, 37, 125>>, <<123, 123, 32, 34, 97, 32, 125, 125>>,
              <<123, 123, 32, 49, 32, 43, 32, 34, 115, 34, 32, 125, 125>>, <<123, 37, 32, 101, 110, 100, 32, 37, 125>> >>
            \* {{ x }} | {% if %} | {{ "a }} | {{ 1 + "s" }} | {% end %}
Seqs == UNION {[1..n -> 1..NP] : n \in 0..MaxPieces}
ProgPieceOK(k) == k \notin {12, 14}                               \* no template comments in Go files
TmplPieceOK(k) == TRUE
ProgHead == <<112, 97, 99, 107, 97, 103, 101, 32, 109, 97, 105, 110, 10>>                          \* package main\n
ProgOpen == <<102, 117, 110, 99, 32, 109, 97, 105, 110, 40, 41, 32, 123, 10>>                      \* func main() {\n
ProgClose == <<10, 125, 10>>
CaseSet == {[kind |-> "program", entry |-> "main.go", pre |-> s, e |-> e] : s \in {q \in Seqs : \A i \in DOMAIN q : ProgPieceOK(q[i])}, e \in 1..Len(ProgErr)}
      \cup {[kind |-> "template", entry |-> "index.html", pre |-> s, e |-> e] : s \in Seqs, e \in 1..Len(TmplErr)}
Source(c) == IF c.kind = "program" THEN ProgHead \o Text(c.pre) \o <<10>> \o ProgOpen \o ProgErr[c.e] \o ProgClose
             ELSE Text(c.pre) \o TmplErr[c.e]
\* ---- second case space: position-shifting pieces INSIDE the expression, before the token in error on the same line
\* (rune, string and raw string literals with multi-byte characters, a general comment): the error is the undefined x
ExprPieces == <<
    <<39, 195, 169, 39, 32, 43, 32>>,
    <<34, 195, 169, 226, 130, 172, 34, 32, 43, 32>>,
    <<47, 42, 32, 195, 169, 32, 42, 47, 32>>,
    <<96, 195, 169, 96, 32, 43, 32>>,
    <<39, 97, 39, 32, 43, 32>>,
    <<39, 92, 110, 39, 32, 43, 32>>,
    <<39, 226, 130, 172, 39, 32, 43, 32>> >>
    \* 'é' +  | "é€" +  | /* é */  | `é` +  | 'a' +  | '\n' +  | '€' + 
ExprSeqs == UNION {[1..n -> 1..Len(ExprPieces)] : n \in 1..2}
RECURSIVE ECat(_, _)
ECat(sq, i) == IF i > Len(sq) THEN <<>> ELSE ExprPieces[sq[i]] \o ECat(sq, i + 1)
ExprSet == {[kind |-> "program", entry |-> "main.go", src |-> ProgHead \o ProgOpen \o <<95, 32, 61, 32>> \o ECat(q, 1) \o <<120>> \o ProgClose] : q \in ExprSeqs}
     \cup {[kind |-> "template", entry |-> "index.html", src |-> <<97, 32, 123, 123, 32>> \o ECat(q, 1) \o <<120, 32, 125, 125>>] : q \in ExprSeqs}
\* ---- third case space: Markdown templates, where the lexer has two more position-shifting rules of its own: the scheme of
\* a URL (http://, https://) starts a URL context, and a tab or four spaces after a blank line start an indented code block
MdPieces == <<
    <<104, 116, 116, 112, 115, 58, 47, 47, 97, 46, 98, 47>>,
    <<104, 116, 116, 112, 58, 47, 47, 97, 46, 98, 47, 63, 113, 61>>,
    <<10, 10, 9>>,
    <<10, 10, 32, 32, 32, 32>>,
    <<97>>,
    <<195, 169>>,
    <<10>>,
    <<9, 98>>,
    <<32, 104, 116, 116, 112, 115, 58, 47, 47, 195, 169, 46, 98, 47, 32>> >>
    \* 'https://a.b/' | 'http://a.b/?q=' | '\n\n\t' | '\n\n    ' | 'a' | 'é' | '\n' | '\tb' | ' https://é.b/ '
MdSeqs == UNION {[1..n -> 1..Len(MdPieces)] : n \in 1..3}
RECURSIVE MCat(_, _)
MCat(sq, i) == IF i > Len(sq) THEN <<>> ELSE MdPieces[sq[i]] \o MCat(sq, i + 1)
MdSet == {[kind |-> "template", entry |-> "index.md", src |-> MCat(q, 1) \o TmplErr[e]] : q \in MdSeqs, e \in {1, 4}}
Cases == LET S == SetToSeq(CaseSet) E == SetToSeq(ExprSet \cup MdSet) IN
  [i \in 1..(Len(S) + Len(E)) |-> IF i <= Len(S) THEN [id |-> i, kind |-> S[i].kind, entry |-> S[i].entry, src |-> Source(S[i])]
                                   ELSE [id |-> i, kind |-> E[i - Len(S)].kind, entry |-> E[i - Len(S)].entry, src |-> E[i - Len(S)].src]]
ASSUME ndJsonSerialize("cases.ndjson", Cases)
=============================================================================

------------------------------- MODULE Trace_Pos -------------------------------
(* Judges every *BuildError observed: {id, outcome, path, known, line, column, start, end, file, msgclass}. *)
EXTENDS Pos, TLC, Json
RecOk(r) == r.outcome # "builderror" \/ LocOk(r)
Cause(r) == IF ~r.known THEN "path-not-read"
            ELSE IF ~InFile(r) THEN "offsets-outside-file"
            ELSE "line-column-not-in-range"
Sig(r) == [fam |-> "pos", cause |-> Cause(r), msg |-> r.msgclass]

VARIABLES l, nbad
Obs == ndJsonDeserialize("obs.ndjson")
Init == l = 1 /\ nbad = 0
Next == l <= Len(Obs) /\ l' = l + 1 /\ nbad' = nbad + (IF RecOk(Obs[l]) THEN 0 ELSE 1)
BadIdx(n) == SelectSeq([i \in 1..n |-> i], LAMBDA i : ~RecOk(Obs[i]))
\* keep up to 6 records of every distinct signature, so that many records of a known cause cannot hide a new one
RECURSIVE Keep(_, _, _, _)
Keep(B, i, acc, seen) == IF i > Len(B) \/ Len(acc) >= 600 THEN acc
                      ELSE LET s == Sig(Obs[B[i]])
                               n == Len(SelectSeq(seen, LAMBDA x : x = s)) IN
                           IF n >= 6 THEN Keep(B, i + 1, acc, seen)
                           ELSE Keep(B, i + 1, Append(acc, [k |-> B[i], id |-> Obs[B[i]].id, sig |-> s, nbad |-> nbad]), Append(seen, s))
Done == l = Len(Obs) + 1 => ndJsonSerialize("bad.ndjson", IF nbad = 0 THEN <<>> ELSE Keep(BadIdx(Len(Obs)), 1, <<>>, <<>>))
Consumed == TLCGet("stats").diameter - 1 = Len(Obs)
=============================================================================

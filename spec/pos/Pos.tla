--------------------------------- MODULE Pos ---------------------------------
(* C21.  What "a build error points at a real location" means.  A *BuildError carries a path and a
   position (line, column, start, end); Position's documentation: "line starting from 1",
   "column in characters starting from 1", "index of the first byte", "index of the last byte".
   Reference: LineCol(file, off) from lib/Utf8 (lines end at \n; a column is a character: one
   UTF-8 encoding, an invalid byte counting as one character).
   Reading chosen for "the line and column are those of the start offset": for expressions the
   code deliberately reports the line/column of the operator (or of the bracket, the dot ...) while
   start/end delimit the whole expression; the judge therefore demands that (line, column) be the
   line/column of SOME byte offset within [start, end] (or of start itself when end < start, as for
   zero-length tokens), which still pins the location to the reported byte range. *)
EXTENDS Integers, Sequences, Utf8
InFile(r) == /\ r.known                                  \* the reported path is a file this build read
             /\ 0 <= r.start /\ r.start <= Len(r.file)    \* start = len(file): at end of file
             /\ r.end <= Len(r.file) /\ r.end >= r.start - 1
             /\ r.line >= 1 /\ r.column >= 1
RECURSIVE SomeOffsetHas(_, _, _)
SomeOffsetHas(r, k, hi) == IF k > hi THEN FALSE
                           ELSE IF LineCol(r.file, k) = <<r.line, r.column>> THEN TRUE ELSE SomeOffsetHas(r, k + 1, hi)
Hi(r) == IF r.end < r.start THEN r.start ELSE IF r.end + 1 > Len(r.file) THEN Len(r.file) ELSE r.end + 1
LineColConsistent(r) == SomeOffsetHas(r, r.start, Hi(r))
LocOk(r) == InFile(r) /\ LineColConsistent(r)
\* diagnostic (drift): the strict reading, line/column exactly those of start
Strict(r) == InFile(r) /\ LineCol(r.file, r.start) = <<r.line, r.column>>
=============================================================================

---------------------------- MODULE HTMLEscape ----------------------------
(* C24.  Reference statement of "escape exactly the five HTML-significant characters" and an
   implementation-shaped model of scriggo.HTMLEscape's two-pass algorithm (templates.go),
   one action per loop iteration. *)
EXTENDS Integers, Sequences, Text

LT == 60  GT == 62  AMP == 38  DQ == 34  SQ == 39  SEMI == 59  HASH == 35
Special == {LT, GT, AMP, DQ, SQ}

(* ---------- reference: what the property demands ---------- *)
\* the entity spellings the property allows for each special (any that decodes to it)
Entities(c) ==
  CASE c = LT  -> {<<38,108,116,59>>, <<38,35,54,48,59>>}                    \* &lt; &#60;
    [] c = GT  -> {<<38,103,116,59>>, <<38,35,54,50,59>>}                    \* &gt; &#62;
    [] c = AMP -> {<<38,97,109,112,59>>, <<38,35,51,56,59>>}                 \* &amp; &#38;
    [] c = DQ  -> {<<38,113,117,111,116,59>>, <<38,35,51,52,59>>}            \* &quot; &#34;
    [] c = SQ  -> {<<38,97,112,111,115,59>>, <<38,35,51,57,59>>}             \* &apos; &#39;

\* IsEscapeOf(out, s): out is s with each special replaced by one of its entities, nothing else changed
RECURSIVE IsEscFrom(_, _, _, _)
IsEscFrom(out, s, i, j) ==           \* i index in s, j index in out
  IF i > Len(s) THEN j = Len(out) + 1
  ELSE IF s[i] \in Special
       THEN \E e \in Entities(s[i]) : HasPrefixAt(out, e, j) /\ IsEscFrom(out, s, i + 1, j + Len(e))
       ELSE j <= Len(out) /\ out[j] = s[i] /\ IsEscFrom(out, s, i + 1, j + 1)
IsEscapeOf(out, s) == IsEscFrom(out, s, 1, 1)

\* HTML entity decoding restricted to the references that can occur (decimal numeric + the five names)
RECURSIVE DecNum(_, _, _)
DecNum(t, i, acc) == IF i <= Len(t) /\ IsDigit(t[i]) /\ acc < 100000 THEN DecNum(t, i + 1, acc * 10 + (t[i] - 48))
                     ELSE <<acc, i>>
Named == {<<<<108,116>>, LT>>, <<<<103,116>>, GT>>, <<<<97,109,112>>, AMP>>,
          <<<<113,117,111,116>>, DQ>>, <<<<97,112,111,115>>, SQ>>}
RECURSIVE DecodeFrom(_, _)
DecodeFrom(t, i) ==
  IF i > Len(t) THEN <<>>
  ELSE IF t[i] # AMP THEN <<t[i]>> \o DecodeFrom(t, i + 1)
  ELSE IF i + 2 <= Len(t) /\ t[i + 1] = HASH /\ IsDigit(t[i + 2])
       THEN LET r == DecNum(t, i + 2, 0) IN
            IF r[2] <= Len(t) /\ t[r[2]] = SEMI /\ r[1] < 256 THEN <<r[1]>> \o DecodeFrom(t, r[2] + 1)
            ELSE <<t[i]>> \o DecodeFrom(t, i + 1)
       ELSE LET hits == {n \in Named : HasPrefixAt(t, n[1] \o <<SEMI>>, i + 1)} IN
            IF hits # {} THEN LET n == CHOOSE n \in hits : TRUE IN <<n[2]>> \o DecodeFrom(t, i + 2 + Len(n[1]))
            ELSE <<t[i]>> \o DecodeFrom(t, i + 1)
DecodeEntities(t) == DecodeFrom(t, 1)

\* property-level predicate on a real observation
Ok(s, out) == IsEscapeOf(out, s) /\ DecodeEntities(out) = s

(* ---------- implementation-shaped model: the two passes of HTMLEscape ---------- *)
Grow(c) == IF c \in {DQ, SQ, AMP} THEN 4 ELSE IF c \in {LT, GT} THEN 3 ELSE 0
Ent(c) == CASE c = DQ -> <<38,35,51,52,59>> [] c = SQ -> <<38,35,51,57,59>>
            [] c = AMP -> <<38,97,109,112,59>> [] c = LT -> <<38,108,116,59>> [] c = GT -> <<38,103,116,59>>

\* pass 1 (0-based i, as in the code): returns <<n, j>>
RECURSIVE Pass1(_, _, _, _)
Pass1(s, i, n, j) ==
  IF i >= Len(s) THEN <<n, j>>
  ELSE LET g == Grow(s[i + 1]) IN
       IF g = 0 THEN Pass1(s, i + 1, n, j)
       ELSE Pass1(s, i + 1, n + g, IF n + g <= 4 THEN i ELSE j)

\* pass 2: b is the output buffer built so far (length j), i 0-based
RECURSIVE Pass2(_, _, _, _)
Pass2(s, i, b, n) ==
  IF i >= Len(s) THEN b
  ELSE LET c == s[i + 1] IN
       IF Grow(c) = 0 THEN Pass2(s, i + 1, Append(b, c), n)
       ELSE LET b2 == b \o Ent(c) IN
            IF Len(b2) = i + n THEN b2 \o From(s, i + 1)      \* copy(b[j:], s[i:]) ; break  (as written in the code)
            ELSE Pass2(s, i + 1, b2, n)
\* note: the code's early exit copies s[i:] - i.e. from the *current* (special) byte - over b[j:], where
\* j == i+n means all growth has been consumed, so b[j:] has room for len(s)-i-? bytes; copy() truncates
\* to the destination length len(s)+n-j = len(s)-i.  The model keeps Go's copy semantics:
GoCopyTail(s, i, b, total) == LET room == total - Len(b) IN b \o Sub(s, i + 1, i + room)
RECURSIVE Pass2Go(_, _, _, _)
Pass2Go(s, i, b, n) ==
  IF i >= Len(s) THEN b
  ELSE LET c == s[i + 1] IN
       IF Grow(c) = 0 THEN Pass2Go(s, i + 1, Append(b, c), n)
       ELSE LET b2 == b \o Ent(c) IN
            IF Len(b2) = i + n THEN LET rest == GoCopyTail(s, i, b2, Len(s) + n) IN
                                     \* bytes not overwritten stay zero; a correct algorithm never leaves any
                                     rest \o [k \in 1..(Len(s) + n - Len(rest)) |-> 0]
            ELSE Pass2Go(s, i + 1, b2, n)
TwoPass(s) ==
  LET p == Pass1(s, 0, 0, 0) n == p[1] j == p[2] IN
  IF n = 0 THEN s ELSE Pass2Go(s, j, Sub(s, 1, j), n)
=============================================================================

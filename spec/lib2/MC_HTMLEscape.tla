--------------------------- MODULE MC_HTMLEscape ---------------------------
(* Exhaustive model check of the two-pass algorithm against the reference, over every string of
   length <= MaxLen over the property's 7-symbol alphabet; also exports the case set. *)
EXTENDS HTMLEscape, TLC, Json, FiniteSets, SequencesExt
CONSTANTS MaxLen, GenLen, MaxRun
Alphabet == {LT, GT, AMP, DQ, SQ, 97, 59}       \* five specials, 'a', ';'
VARIABLE s
Init == s = <<>>
Next == Len(s) < MaxLen /\ \E c \in Alphabet : s' = Append(s, c)
ImplMeetsRef == Ok(s, TwoPass(s))
NoZeroByte == \A k \in 1..Len(TwoPass(s)) : TwoPass(s)[k] # 0
LenExact == LET p == Pass1(s, 0, 0, 0) IN Len(TwoPass(s)) = Len(s) + p[1]
\* case export (inputs only)
\* second space: LONG RUNS of one symbol followed by at most two of another - the lengths at which an implementation
\* may switch strategy or size a buffer (16, 32, 64, 128/5 ...) are beyond the exhaustive bound; the model is checked
\* on them as well
Rep(c, n) == [k \in 1..n |-> c]
Runs == {Rep(c1, n1) \o Rep(c2, n2) : c1 \in Alphabet, c2 \in Alphabet, n1 \in 0..MaxRun, n2 \in 0..2}
ASSUME \A r \in Runs : Ok(r, TwoPass(r)) /\ Len(TwoPass(r)) = Len(r) + Pass1(r, 0, 0, 0)[1]
Cases == LET S == SetToSeq(SeqsUpTo(Alphabet, GenLen) \cup Runs) IN [i \in 1..Len(S) |-> [id |-> i, s |-> S[i]]]
ASSUME ndJsonSerialize("cases.ndjson", Cases)
=============================================================================

--------------------------- MODULE MC_HTMLEscape ---------------------------
(* Exhaustive model check of the two-pass algorithm against the reference, over every string of
   length <= MaxLen over the property's 7-symbol alphabet; also exports the case set. *)
EXTENDS HTMLEscape, TLC, Json, FiniteSets, SequencesExt
CONSTANTS MaxLen, GenLen
Alphabet == {LT, GT, AMP, DQ, SQ, 97, 59}       \* five specials, 'a', ';'
VARIABLE s
Init == s = <<>>
Next == Len(s) < MaxLen /\ \E c \in Alphabet : s' = Append(s, c)
ImplMeetsRef == Ok(s, TwoPass(s))
NoZeroByte == \A k \in 1..Len(TwoPass(s)) : TwoPass(s)[k] # 0
LenExact == LET p == Pass1(s, 0, 0, 0) IN Len(TwoPass(s)) = Len(s) + p[1]
\* case export (inputs only)
Cases == LET S == SetToSeq(SeqsUpTo(Alphabet, GenLen)) IN [i \in 1..Len(S) |-> [id |-> i, s |-> S[i]]]
ASSUME ndJsonSerialize("cases.ndjson", Cases)
=============================================================================

-------------------------- MODULE Trace_HTMLEscape --------------------------
(* Judges observations of the real scriggo.HTMLEscape / builtin.HtmlEscape:
   one record {id, fn, s, out} per line of obs.ndjson. *)
EXTENDS HTMLEscape, TLC, Json
RecOk(r) == Ok(r.s, r.out)
Sig(r) == [fam |-> "htmlescape", fn |-> r.fn, s |-> r.s]

(* ---- record-walk skeleton (same in every record-per-line Trace spec; see spec/README) ---- *)
VARIABLES l, nbad
Obs == ndJsonDeserialize("obs.ndjson")
Init == l = 1 /\ nbad = 0
Next == l <= Len(Obs) /\ l' = l + 1 /\ nbad' = nbad + (IF RecOk(Obs[l]) THEN 0 ELSE 1)
\* (operators with a parameter: a zero-argument definition would be evaluated eagerly at start-up, judging every
\*  record twice; an operator argument is evaluated once)
BadIdx(n) == SelectSeq([i \in 1..n |-> i], LAMBDA i : ~RecOk(Obs[i]))
WriteBad(B) == ndJsonSerialize("bad.ndjson",
                 [j \in 1..(IF Len(B) < 400 THEN Len(B) ELSE 400) |->
                     [k |-> B[j], id |-> Obs[B[j]].id, sig |-> Sig(Obs[B[j]]), nbad |-> nbad]])
Done == l = Len(Obs) + 1 => WriteBad(IF nbad = 0 THEN <<>> ELSE BadIdx(Len(Obs)))
Consumed == TLCGet("stats").diameter - 1 = Len(Obs)
=============================================================================

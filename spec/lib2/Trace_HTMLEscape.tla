-------------------------- MODULE Trace_HTMLEscape --------------------------
(* Judges observations of the real scriggo.HTMLEscape / builtin.HtmlEscape:
   one record {id, fn, s, out} per line of obs.ndjson. *)
EXTENDS HTMLEscape, TLC, Json
RecOk(r) == Ok(r.s, r.out)
Sig(r) == [fam |-> "htmlescape", fn |-> r.fn, s |-> r.s]

(* ---- record-walk skeleton (same in every record-per-line Trace spec; see spec/README) ---- *)
VARIABLES l, nbad
Obs == ndJsonDeserialize("obs.ndjson")
Init == l = 1 /\ nbad = 0
Next == l <= Len(Obs) /\ l' = l + 1 /\ nbad' = nbad + (IF RecOk(Obs[l]) THEN 0 ELSE 1)
BadIdx == SelectSeq([i \in 1..Len(Obs) |-> i], LAMBDA i : ~RecOk(Obs[i]))
Done == l = Len(Obs) + 1 =>
          ndJsonSerialize("bad.ndjson",
             IF nbad = 0 THEN <<>>
             ELSE [j \in 1..(IF Len(BadIdx) < 400 THEN Len(BadIdx) ELSE 400) |->
                     [k |-> BadIdx[j], id |-> Obs[BadIdx[j]].id, sig |-> Sig(Obs[BadIdx[j]]), nbad |-> nbad]])
Consumed == TLCGet("stats").diameter - 1 = Len(Obs)
=============================================================================

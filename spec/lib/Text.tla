------------------------------- MODULE Text -------------------------------
(* Text is a sequence of integers (bytes unless stated).  Index-based helpers; TLC cannot index
   TLA+ strings, so every specification that talks about text uses these. *)
EXTENDS Integers, Sequences

Sub(s, i, j) == IF i > j THEN <<>> ELSE SubSeq(s, i, j)          \* 1-based inclusive
From(s, i) == Sub(s, i, Len(s))
HasPrefixAt(s, p, i) == /\ i + Len(p) - 1 <= Len(s)
                        /\ \A k \in 1..Len(p) : s[i + k - 1] = p[k]
HasPrefix(s, p) == HasPrefixAt(s, p, 1)
HasSuffix(s, p) == Len(p) <= Len(s) /\ HasPrefixAt(s, p, Len(s) - Len(p) + 1)

RECURSIVE FindFrom(_, _, _)
FindFrom(s, p, i) == IF i + Len(p) - 1 > Len(s) THEN 0
                     ELSE IF HasPrefixAt(s, p, i) THEN i ELSE FindFrom(s, p, i + 1)
Find(s, p) == FindFrom(s, p, 1)                                   \* 0 = not found
Contains(s, p) == Find(s, p) # 0

RECURSIVE IndexByteFrom(_, _, _)
IndexByteFrom(s, c, i) == IF i > Len(s) THEN 0 ELSE IF s[i] = c THEN i ELSE IndexByteFrom(s, c, i + 1)

RECURSIVE FlattenFrom(_, _)
FlattenFrom(ss, i) == IF i > Len(ss) THEN <<>> ELSE ss[i] \o FlattenFrom(ss, i + 1)
Flatten(ss) == FlattenFrom(ss, 1)

\* all sequences over S of length <= n
SeqsUpTo(S, n) == UNION {[1..k -> S] : k \in 0..n}

IsDigit(c) == c >= 48 /\ c <= 57
IsHex(c) == IsDigit(c) \/ (c >= 97 /\ c <= 102) \/ (c >= 65 /\ c <= 70)
HexVal(c) == IF IsDigit(c) THEN c - 48 ELSE IF c >= 97 THEN c - 87 ELSE c - 55
IsAlpha(c) == (c >= 97 /\ c <= 122) \/ (c >= 65 /\ c <= 90)
IsSpace(c) == c \in {32, 9, 10, 13, 12}
ToLower(c) == IF c >= 65 /\ c <= 90 THEN c + 32 ELSE c
=============================================================================

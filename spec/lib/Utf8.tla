------------------------------- MODULE Utf8 -------------------------------
(* UTF-8 over byte sequences with Go's decoding rule: an invalid or incomplete encoding decodes
   to U+FFFD with width 1 (unicode/utf8.DecodeRune).  Runes are integers. *)
EXTENDS Integers, Sequences
RuneError == 65533
IsCont(b) == b >= 128 /\ b <= 191
\* <<rune, width>> of the encoding starting at s[i] (1-based), i <= Len(s)
DecodeRune(s, i) ==
  LET b0 == s[i] n == Len(s) IN
  IF b0 < 128 THEN <<b0, 1>>
  ELSE IF b0 >= 194 /\ b0 <= 223
       THEN IF i + 1 <= n /\ IsCont(s[i+1]) THEN <<(b0 - 192) * 64 + (s[i+1] - 128), 2>> ELSE <<RuneError, 1>>
  ELSE IF b0 >= 224 /\ b0 <= 239
       THEN IF i + 2 <= n /\ IsCont(s[i+1]) /\ IsCont(s[i+2])
               /\ (b0 # 224 \/ s[i+1] >= 160) /\ (b0 # 237 \/ s[i+1] <= 159)
            THEN <<(b0 - 224) * 4096 + (s[i+1] - 128) * 64 + (s[i+2] - 128), 3>> ELSE <<RuneError, 1>>
  ELSE IF b0 >= 240 /\ b0 <= 244
       THEN IF i + 3 <= n /\ IsCont(s[i+1]) /\ IsCont(s[i+2]) /\ IsCont(s[i+3])
               /\ (b0 # 240 \/ s[i+1] >= 144) /\ (b0 # 244 \/ s[i+1] <= 143)
            THEN <<(b0 - 240) * 262144 + (s[i+1] - 128) * 4096 + (s[i+2] - 128) * 64 + (s[i+3] - 128), 4>>
            ELSE <<RuneError, 1>>
  ELSE <<RuneError, 1>>
RECURSIVE RunesFrom(_, _)
RunesFrom(s, i) == IF i > Len(s) THEN <<>> ELSE LET d == DecodeRune(s, i) IN <<d[1]>> \o RunesFrom(s, i + d[2])
Runes(s) == RunesFrom(s, 1)                         \* what `for _, r := range s` yields
RuneCount(s) == Len(Runes(s))
RECURSIVE ValidFrom(_, _)
ValidFrom(s, i) == IF i > Len(s) THEN TRUE
                   ELSE LET d == DecodeRune(s, i) IN
                        IF d[1] = RuneError /\ d[2] = 1 THEN FALSE ELSE ValidFrom(s, i + d[2])
Valid(s) == ValidFrom(s, 1)
EncodeRune(r) ==
  IF r < 0 \/ r > 1114111 \/ (r >= 55296 /\ r <= 57343) THEN <<239, 191, 189>>
  ELSE IF r < 128 THEN <<r>>
  ELSE IF r < 2048 THEN <<192 + (r \div 64), 128 + (r % 64)>>
  ELSE IF r < 65536 THEN <<224 + (r \div 4096), 128 + ((r \div 64) % 64), 128 + (r % 64)>>
  ELSE <<240 + (r \div 262144), 128 + ((r \div 4096) % 64), 128 + ((r \div 64) % 64), 128 + (r % 64)>>
RECURSIVE EncodeFrom(_, _)
EncodeFrom(rs, i) == IF i > Len(rs) THEN <<>> ELSE EncodeRune(rs[i]) \o EncodeFrom(rs, i + 1)
Encode(rs) == EncodeFrom(rs, 1)
\* <<line, column>> (1-based; column counts runes) of byte offset off (0-based) in s; lines end at \n
RECURSIVE LineColFrom(_, _, _, _, _)
LineColFrom(s, off, i, line, col) ==
  IF i > off \/ i > Len(s) THEN <<line, col>>
  ELSE IF s[i] = 10 THEN LineColFrom(s, off, i + 1, line + 1, 1)
  ELSE LET d == DecodeRune(s, i) IN LineColFrom(s, off, i + d[2], line, col + 1)
LineCol(s, off) == LineColFrom(s, off, 1, 1, 1)
=============================================================================

------------------------------- MODULE BigInt -------------------------------
(* Arbitrary-precision integers for TLC (whose native integers are 32-bit).

   REPRESENTATION.  A big integer is a record  [s |-> sign, l |-> limbs]  where
     s \in {-1, 0, 1}             is the sign,
     l                            is the magnitude as a little-endian sequence of base-10^4 limbs
                                  (l[1] least significant, every limb in 0..9999, the last limb is
                                  never 0),
     zero is exactly              [s |-> 0, l |-> <<>>].
   Every operator below returns values in this normal form, so two big integers are equal as
   TLA+ values iff they are equal as numbers ("=" may be used instead of Cmp(..) = 0).

   JSON form (cases / observations):  {"s": -1|0|1, "l": [limbs]}  - the Json module maps it to the
   record above and back.  A driver converts a printed decimal to/from this form by cutting the digit
   string into groups of four from the right (no arithmetic).

   The base is a power of ten because observations arrive as printed decimals; 10^4 keeps every
   limb product (< 10^8) and every intermediate sum inside TLC's 32-bit integers.
   All recursions run on an index (never on Tail).  Costs: Add/Sub/Cmp/MulSmall/DivSmall O(n),
   Mul O(n*m), QuoRem O(n*m*14), Pow2(k) O(log k) multiplications, with n, m limb counts
   (a 512-bit number has 39 limbs).

   NAME CLASH: lib/Text.tla defines Sub(s, i, j).  A module that EXTENDS Text must use
   BI == INSTANCE BigInt  and write  BI!Add(a, b)  etc.

   Division is not part of the arithmetic the specifications rely on: the defining relation is
   IsQuoRem(a, b, q, r).  QuoRem(a, b) computes a candidate pair by schoolbook long division;
   specifications that use it state their property through IsQuoRem. *)
EXTENDS Integers, Sequences

Base == 10000
Zero == [s |-> 0, l |-> <<>>]

(* ------------------------------------------------------------------ magnitudes (limb sequences) *)
\* A magnitude is a limb sequence without leading (= last) zero limb; <<>> is 0.
RECURSIVE BigTopNZ(_, _)
BigTopNZ(l, i) == IF i = 0 THEN 0 ELSE IF l[i] # 0 THEN i ELSE BigTopNZ(l, i - 1)
MagNorm(l) == LET t == BigTopNZ(l, Len(l)) IN IF t = Len(l) THEN l ELSE IF t = 0 THEN <<>> ELSE SubSeq(l, 1, t)

RECURSIVE MagCmpFrom(_, _, _)
MagCmpFrom(a, b, i) == IF i = 0 THEN 0 ELSE IF a[i] > b[i] THEN 1 ELSE IF a[i] < b[i] THEN -1 ELSE MagCmpFrom(a, b, i - 1)
MagCmp(a, b) == IF Len(a) > Len(b) THEN 1 ELSE IF Len(a) < Len(b) THEN -1 ELSE MagCmpFrom(a, b, Len(a))

RECURSIVE MagAddR(_, _, _, _, _)
MagAddR(a, b, i, c, acc) ==
  IF i > Len(a) /\ i > Len(b) THEN (IF c = 0 THEN acc ELSE Append(acc, c))
  ELSE LET x == (IF i <= Len(a) THEN a[i] ELSE 0) + (IF i <= Len(b) THEN b[i] ELSE 0) + c IN
       MagAddR(a, b, i + 1, x \div Base, Append(acc, x % Base))
MagAdd(a, b) == MagAddR(a, b, 1, 0, <<>>)

\* requires a >= b
RECURSIVE MagSubR(_, _, _, _, _)
MagSubR(a, b, i, br, acc) ==
  IF i > Len(a) THEN acc
  ELSE LET x == a[i] - (IF i <= Len(b) THEN b[i] ELSE 0) - br IN
       IF x < 0 THEN MagSubR(a, b, i + 1, 1, Append(acc, x + Base)) ELSE MagSubR(a, b, i + 1, 0, Append(acc, x))
MagSub(a, b) == MagNorm(MagSubR(a, b, 1, 0, <<>>))

\* a * m for a native 0 <= m <= 100000
RECURSIVE MagMulSmallR(_, _, _, _, _)
MagMulSmallR(a, m, i, c, acc) ==
  IF i > Len(a) THEN (IF c = 0 THEN acc ELSE IF c < Base THEN Append(acc, c) ELSE Append(Append(acc, c % Base), c \div Base))
  ELSE LET x == a[i] * m + c IN MagMulSmallR(a, m, i + 1, x \div Base, Append(acc, x % Base))
MagMulSmall(a, m) == IF m = 0 \/ a = <<>> THEN <<>> ELSE MagMulSmallR(a, m, 1, 0, <<>>)

MagZeros(k) == [i \in 1..k |-> 0]
RECURSIVE MagMulR(_, _, _, _)
MagMulR(a, b, j, acc) ==
  IF j > Len(b) THEN acc
  ELSE MagMulR(a, b, j + 1, IF b[j] = 0 THEN acc ELSE MagAdd(acc, MagZeros(j - 1) \o MagMulSmall(a, b[j])))
MagMul(a, b) == IF a = <<>> \/ b = <<>> THEN <<>>
                ELSE IF Len(a) >= Len(b) THEN MagMulR(a, b, 1, <<>>) ELSE MagMulR(b, a, 1, <<>>)

\* <<quotient, remainder>> of a by a native 1 <= d <= 100000 (remainder native)
RECURSIVE MagDivSmallR(_, _, _, _, _)
MagDivSmallR(a, d, i, r, acc) ==
  IF i = 0 THEN <<MagNorm(acc), r>>
  ELSE LET x == r * Base + a[i] IN MagDivSmallR(a, d, i - 1, x % d, <<x \div d>> \o acc)
MagDivSmall(a, d) == MagDivSmallR(a, d, Len(a), 0, <<>>)

\* long division: <<quotient, remainder>> of a by b # <<>>; one quotient limb per step, found by bisection
RECURSIVE MagDigit(_, _, _, _)
MagDigit(b, rem, lo, hi) ==
  IF lo = hi THEN lo
  ELSE LET mid == (lo + hi + 1) \div 2 IN
       IF MagCmp(MagMulSmall(b, mid), rem) <= 0 THEN MagDigit(b, rem, mid, hi) ELSE MagDigit(b, rem, lo, mid - 1)
RECURSIVE MagQuoRemR(_, _, _, _, _)
MagQuoRemR(a, b, i, rem, acc) ==
  IF i = 0 THEN <<MagNorm(acc), rem>>
  ELSE LET r1 == IF rem = <<>> /\ a[i] = 0 THEN <<>> ELSE <<a[i]>> \o rem
           d == IF MagCmp(r1, b) < 0 THEN 0 ELSE MagDigit(b, r1, 1, Base - 1)
       IN MagQuoRemR(a, b, i - 1, IF d = 0 THEN r1 ELSE MagSub(r1, MagMulSmall(b, d)), <<d>> \o acc)
MagQuoRem(a, b) == MagQuoRemR(a, b, Len(a), <<>>, <<>>)

(* ------------------------------------------------------------------ construction, inspection *)
Mk(sign, mag) == IF mag = <<>> \/ sign = 0 THEN Zero ELSE [s |-> sign, l |-> mag]
IsBigInt(x) == /\ DOMAIN x = {"s", "l"} /\ x.s \in {-1, 0, 1}
               /\ \A i \in 1..Len(x.l) : x.l[i] \in 0..(Base - 1)
               /\ (x.s = 0) = (x.l = <<>>)
               /\ (x.l # <<>> => x.l[Len(x.l)] # 0)

RECURSIVE BigLimbsOfNat(_)
BigLimbsOfNat(n) == IF n = 0 THEN <<>> ELSE <<n % Base>> \o BigLimbsOfNat(n \div Base)
\* native integer (|n| <= 2^31 - 1) -> big integer
FromInt(n) == IF n = 0 THEN Zero ELSE IF n > 0 THEN [s |-> 1, l |-> BigLimbsOfNat(n)] ELSE [s |-> -1, l |-> BigLimbsOfNat(-n)]
One == FromInt(1)
\* big integer -> native integer; defined only when |x| < 2 * 10^9
RECURSIVE BigNatOf(_, _)
BigNatOf(l, i) == IF i > Len(l) THEN 0 ELSE l[i] + Base * BigNatOf(l, i + 1)
FitsNative(x) == Len(x.l) <= 2 \/ (Len(x.l) = 3 /\ x.l[3] < 20)
ToInt(x) == x.s * BigNatOf(x.l, 1)

Sign(x) == x.s
IsZero(x) == x.s = 0
Neg(x) == [s |-> -x.s, l |-> x.l]
Abs(x) == [s |-> IF x.s = 0 THEN 0 ELSE 1, l |-> x.l]
IsEven(x) == x.s = 0 \/ x.l[1] % 2 = 0
IsOdd(x) == ~IsEven(x)

\* decimal digits, most significant first.  FromDigits(sign, <<1,2,3,4,5>>) = 12345 (sign 1); leading zeros allowed.
RECURSIVE BigLimbAt(_, _, _)
BigLimbAt(ds, hi, k) ==              \* value of the (up to 4) digits ds[hi-3..hi] (indices < 1 skipped), k = hi-3
  IF k > hi THEN 0 ELSE (IF k >= 1 THEN ds[k] ELSE 0) * (10 ^ (hi - k)) + BigLimbAt(ds, hi, k + 1)
FromDigits(sign, ds) ==
  LET n == Len(ds) nl == (n + 3) \div 4
      mag == MagNorm([j \in 1..nl |-> BigLimbAt(ds, n - 4 * (j - 1), n - 4 * (j - 1) - 3)])
  IN Mk(sign, mag)
BigDigits4(v) == <<v \div 1000, (v \div 100) % 10, (v \div 10) % 10, v % 10>>
RECURSIVE BigStrip0(_, _)
BigStrip0(ds, i) == IF i < Len(ds) /\ ds[i] = 0 THEN BigStrip0(ds, i + 1) ELSE SubSeq(ds, i, Len(ds))
RECURSIVE BigDigitsR(_, _)
BigDigitsR(l, i) == IF i = 0 THEN <<>> ELSE BigDigits4(l[i]) \o BigDigitsR(l, i - 1)
\* digits of |x| (<<0>> for zero), most significant first, no leading zero
ToDigits(x) == IF x.s = 0 THEN <<0>> ELSE BigStrip0(BigDigitsR(x.l, Len(x.l)), 1)
NumDigits(x) == IF x.s = 0 THEN 1
                ELSE LET t == x.l[Len(x.l)] IN
                     4 * (Len(x.l) - 1) + (IF t >= 1000 THEN 4 ELSE IF t >= 100 THEN 3 ELSE IF t >= 10 THEN 2 ELSE 1)

(* ------------------------------------------------------------------ ring operations, order *)
Cmp(a, b) ==                         \* -1, 0, 1
  IF a.s # b.s THEN (IF a.s < b.s THEN -1 ELSE 1)
  ELSE IF a.s = 0 THEN 0 ELSE a.s * MagCmp(a.l, b.l)
Lt(a, b) == Cmp(a, b) < 0
Le(a, b) == Cmp(a, b) <= 0

Add(a, b) ==
  IF a.s = 0 THEN b ELSE IF b.s = 0 THEN a
  ELSE IF a.s = b.s THEN [s |-> a.s, l |-> MagAdd(a.l, b.l)]
  ELSE LET c == MagCmp(a.l, b.l) IN
       IF c = 0 THEN Zero
       ELSE IF c > 0 THEN [s |-> a.s, l |-> MagSub(a.l, b.l)] ELSE [s |-> b.s, l |-> MagSub(b.l, a.l)]
Sub(a, b) == Add(a, Neg(b))
Mul(a, b) == IF a.s = 0 \/ b.s = 0 THEN Zero ELSE [s |-> a.s * b.s, l |-> MagMul(a.l, b.l)]
\* x * m for a native |m| <= 100000
MulSmall(x, m) == IF m = 0 \/ x.s = 0 THEN Zero
                  ELSE [s |-> IF m > 0 THEN x.s ELSE -x.s, l |-> MagMulSmall(x.l, IF m > 0 THEN m ELSE -m)]
\* truncated division by a native 1 <= d <= 100000: [q |-> big, r |-> native], x = q*d + r, sign(r) \in {0, sign(x)}
DivSmall(x, d) == IF x.s = 0 THEN [q |-> Zero, r |-> 0]
                  ELSE LET qr == MagDivSmall(x.l, d) IN [q |-> Mk(x.s, qr[1]), r |-> x.s * qr[2]]
Halve(x) == DivSmall(x, 2).q         \* truncated toward zero

\* 2^k, k >= 0 (square and multiply)
RECURSIVE Pow2(_)
Pow2(k) == IF k <= 30 THEN FromInt(2 ^ k)
           ELSE LET h == Pow2(k \div 2) sq == Mul(h, h) IN IF k % 2 = 0 THEN sq ELSE MulSmall(sq, 2)

\* number of bits of |x| (0 for zero): the k with 2^(k-1) <= |x| < 2^k
RECURSIVE BigBitScan(_, _, _)
BigBitScan(mag, p, k) == IF MagCmp(mag, p) < 0 THEN k ELSE BigBitScan(mag, MagMulSmall(p, 2), k + 1)
BitLen(x) == IF x.s = 0 THEN 0
             ELSE LET lo == ((NumDigits(x) - 1) * 3321) \div 1000 IN    \* 2^lo <= 10^(digits-1) <= |x|
                  BigBitScan(x.l, Pow2(lo).l, lo)

(* ------------------------------------------------------------------ division (relation + candidate) *)
\* Go's truncated division: a = q*b + r, |r| < |b|, r has the sign of a (or is zero); b # 0
IsQuoRem(a, b, q, r) == /\ b.s # 0
                        /\ a = Add(Mul(q, b), r)
                        /\ MagCmp(r.l, b.l) < 0
                        /\ r.s \in {0, a.s}
\* candidate computed by long division; QuoRem(a, b) satisfies IsQuoRem(a, b, q, r) (checked by MC_BigInt on a range)
QuoRem(a, b) == LET qr == MagQuoRem(a.l, b.l) IN [q |-> Mk(a.s * b.s, qr[1]), r |-> Mk(a.s, qr[2])]

(* ------------------------------------------------------------------ shifts, two's complement *)
ShiftLeft(x, k) == IF k = 0 THEN x ELSE Mul(x, Pow2(k))
\* <<|x| div 2^k, exact?>> by repeated division by 2^13
RECURSIVE MagShr(_, _, _)
MagShr(mag, k, exact) ==
  IF k = 0 \/ mag = <<>> THEN <<mag, exact>>
  ELSE LET step == IF k >= 13 THEN 13 ELSE k qr == MagDivSmall(mag, 2 ^ step) IN
       MagShr(qr[1], k - step, exact /\ qr[2] = 0)
\* floor(x / 2^k)  (arithmetic shift: rounds toward minus infinity)
ShiftRightFloor(x, k) ==
  IF x.s = 0 THEN Zero
  ELSE LET r == MagShr(x.l, k, TRUE) IN
       IF x.s > 0 THEN Mk(1, r[1])
       ELSE IF r[2] THEN Mk(-1, r[1]) ELSE [s |-> -1, l |-> MagAdd(r[1], <<1>>)]
\* x is a multiple of 2^k
DivisibleByPow2(x, k) == x.s = 0 \/ MagShr(x.l, k, TRUE)[2]
\* x mod 2^k in 0 .. 2^k - 1
ModPow2(x, k) == Sub(x, ShiftLeft(ShiftRightFloor(x, k), k))
\* number of trailing zero bits of x # 0
RECURSIVE BigTZ(_, _)
BigTZ(mag, n) == LET q13 == MagDivSmall(mag, 8192) IN
                 IF q13[2] = 0 THEN BigTZ(q13[1], n + 13)
                 ELSE LET q1 == MagDivSmall(mag, 2) IN IF q1[2] = 0 THEN BigTZ(q1[1], n + 1) ELSE n
TrailingZeros(x) == IF x.s = 0 THEN 0 ELSE BigTZ(x.l, 0)

\* value range of a w-bit integer type
FitsIn(x, w, signed) ==
  IF signed THEN LET h == Pow2(w - 1) IN Cmp(x, Neg(h)) >= 0 /\ Cmp(x, h) < 0
  ELSE x.s >= 0 /\ Cmp(x, Pow2(w)) < 0
\* two's complement wrap of x to w bits (what a w-bit register holds after the operation)
WrapTo(x, w, signed) ==
  LET m == ModPow2(x, w) IN
  IF signed /\ Cmp(m, Pow2(w - 1)) >= 0 THEN Sub(m, Pow2(w)) ELSE m

(* ------------------------------------------------------------------ bitwise (infinite two's complement) *)
\* native helpers on 0 <= x, y < 2^n
RECURSIVE SmallBitOp(_, _, _, _)
SmallBitOp(op, x, y, n) ==
  IF n = 0 THEN 0
  ELSE LET a == x % 2 b == y % 2
           r == IF op = "and" THEN a * b ELSE IF op = "or" THEN (a + b) - a * b ELSE (a + b) % 2
       IN r + 2 * SmallBitOp(op, x \div 2, y \div 2, n - 1)
\* magnitude <-> little-endian base-2^13 chunks
RECURSIVE MagToBin(_)
MagToBin(mag) == IF mag = <<>> THEN <<>> ELSE LET qr == MagDivSmall(mag, 8192) IN <<qr[2]>> \o MagToBin(qr[1])
RECURSIVE MagFromBinR(_, _, _)
MagFromBinR(cs, i, acc) ==
  IF i = 0 THEN acc
  ELSE MagFromBinR(cs, i - 1, MagAdd(MagMulSmall(acc, 8192), IF cs[i] = 0 THEN <<>> ELSE <<cs[i]>>))
MagFromBin(cs) == MagFromBinR(cs, Len(cs), <<>>)
NatBitOp(op, a, b) ==                \* a, b >= 0 big integers
  LET ca == MagToBin(a.l) cb == MagToBin(b.l)
      n == IF Len(ca) > Len(cb) THEN Len(ca) ELSE Len(cb)
      cs == [i \in 1..n |-> SmallBitOp(op, IF i <= Len(ca) THEN ca[i] ELSE 0, IF i <= Len(cb) THEN cb[i] ELSE 0, 13)]
  IN Mk(1, MagFromBin(cs))
BitNot(x) == Sub(Neg(x), One)        \* ^x = -x - 1
NatAndNot(a, b) == Sub(a, NatBitOp("and", a, b))
BitAnd(x, y) ==
  IF x.s >= 0 /\ y.s >= 0 THEN NatBitOp("and", x, y)
  ELSE IF x.s >= 0 THEN NatAndNot(x, BitNot(y))
  ELSE IF y.s >= 0 THEN NatAndNot(y, BitNot(x))
  ELSE BitNot(NatBitOp("or", BitNot(x), BitNot(y)))
BitOr(x, y) ==
  IF x.s >= 0 /\ y.s >= 0 THEN NatBitOp("or", x, y)
  ELSE IF x.s >= 0 THEN BitNot(NatAndNot(BitNot(y), x))
  ELSE IF y.s >= 0 THEN BitNot(NatAndNot(BitNot(x), y))
  ELSE BitNot(NatBitOp("and", BitNot(x), BitNot(y)))
BitXor(x, y) ==
  IF x.s >= 0 /\ y.s >= 0 THEN NatBitOp("xor", x, y)
  ELSE IF x.s >= 0 THEN BitNot(NatBitOp("xor", x, BitNot(y)))
  ELSE IF y.s >= 0 THEN BitNot(NatBitOp("xor", BitNot(x), y))
  ELSE NatBitOp("xor", BitNot(x), BitNot(y))
BitAndNot(x, y) == BitAnd(x, BitNot(y))
=============================================================================

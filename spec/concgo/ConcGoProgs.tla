---------------------------- MODULE ConcGoProgs ----------------------------
(* Batch of programs interpreted by ConcGo.tla.  THIS FILE IS A SAMPLE: every run of the C14 check
   generates its own batch (seeded generator of shapes in checks/c14.py) and writes it over this
   module in its staging directory; the same records, as JSON, go to the Go driver. *)
EXTENDS Integers    \* a capacity of -1 stands for a nil channel
Progs == <<
  [id |-> 1, chans |-> <<0>>,
   threads |-> << <<[op |-> "go", t |-> 2], [op |-> "range", ch |-> 1], [op |-> "print"]>>,
                  <<[op |-> "send", ch |-> 1, v |-> 101], [op |-> "send", ch |-> 1, v |-> 102], [op |-> "close", ch |-> 1]>> >>]
>>
=============================================================================

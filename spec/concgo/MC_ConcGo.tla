----------------------------- MODULE MC_ConcGo -----------------------------
(* Decides, for every program of the batch and over every schedule, the three preconditions of C14
   (no deadlock, no panic, one output) and exports the valid programs with their unique output.
   Per-program results are collected in TLC registers (needs -workers 1): register i = first
   terminal output of program i, register N+i = verdict. *)
EXTENDS ConcGo, Json
N == Len(Progs)
ASSUME \A i \in 1..N : TLCSet(i, <<"unset">>) /\ TLCSet(N + i, "ok")
Flag(v) == TLCSet(N + p, v)
Observe ==
  /\ (status = "panic") => Flag("panic")
  /\ Deadlocked => Flag("deadlock")
  /\ (status = "done") =>
        IF TLCGet(p) = <<"unset">> THEN TLCSet(p, <<"out", out>>)
        ELSE (TLCGet(p) = <<"out", out>> \/ Flag("nondeterministic"))
Export == ndJsonSerialize("cases.ndjson",
            [i \in 1..N |-> [id |-> Progs[i].id, verdict |-> IF TLCGet(i) = <<"unset">> /\ TLCGet(N + i) = "ok" THEN "noterminal" ELSE TLCGet(N + i),
                             exp |-> IF TLCGet(i) = <<"unset">> THEN <<>> ELSE TLCGet(i)[2]]])
=============================================================================

------------------------------- MODULE ConcGo -------------------------------
(* C14.  Go's goroutine/channel semantics for a mini concurrent language, as an interpreter
   parameterised by a batch of programs (module ConcGoProgs, generated per run from a seed).
   A program is a sequence of thread bodies (thread 1 = main); a body is a sequence of
   instructions (records):
     [op:"send", ch, v]         ch <- v                      [op:"sendacc", ch]     ch <- acc
     [op:"recv", ch]            acc += <-ch                  [op:"recvp", ch]       println(<-ch)
     [op:"close", ch]           close(ch)                    [op:"go", t]           go thread t
     [op:"range", ch]           for v := range ch { acc += v }
     [op:"rangep", ch]          for v := range ch { println(v) }
     [op:"rangefwd", ch, ch2, add]   for v := range ch { ch2 <- v + add }
     [op:"selrecv", chs]        select { case v := <-chs[1]: acc += v; case v := <-chs[2]: acc += v ... }
     [op:"selsend", chs, schs, vs]   select { case v := <-chs[k]: acc += v ...; case schs[k] <- vs[k]: ... }
                                (all the values vs[k] are evaluated before the select; exactly one case proceeds)
     [op:"print"]               println(acc)                 [op:"printc", v]       println(v)
   Channel semantics: unbuffered rendezvous, buffered FIFO, close, receive from a closed channel
   yields the zero value, send on / close of a closed channel panics, a nil channel is not modelled.
   The program ends when main's body ends (as in Go).  TLC explores EVERY schedule and decides
   what the property presupposes: no deadlock, no panicking goroutine, and the same printed output
   in all terminal states; programs failing one of these are outside the property's domain. *)
EXTENDS Integers, Sequences, FiniteSets, TLC, ConcGoProgs
VARIABLES p,        \* index of the program in Progs
          pc, acc, started, hold,     \* per thread; hold: value a rangefwd body still has to send (-1: none)
          chans,    \* per channel [cap, buf, closed]
          out,      \* printed values
          status    \* "run" | "done" | "panic"
vars == <<p, pc, acc, started, hold, chans, out, status>>
P == Progs[p]
Threads == DOMAIN P.threads
Body(t) == P.threads[t]
AtEnd(t) == pc[t] > Len(Body(t))
I(t) == Body(t)[pc[t]]
Active(t) == started[t] /\ ~AtEnd(t) /\ status = "run"
RecvOps == {"recv", "recvp", "range", "rangep", "rangefwd", "selrecv", "selsend"}
\* thread t is ready to receive on channel c (its current instruction is a receive on c and it holds nothing)
WantsRecv(t, c) == /\ Active(t) /\ hold[t] = -1 /\ I(t).op \in RecvOps
                   /\ IF I(t).op \in {"selrecv", "selsend"} THEN \E k \in DOMAIN I(t).chs : I(t).chs[k] = c ELSE I(t).ch = c

Init == /\ p \in DOMAIN Progs
        /\ pc = [t \in DOMAIN Progs[p].threads |-> 1]
        /\ acc = [t \in DOMAIN Progs[p].threads |-> 0]
        /\ hold = [t \in DOMAIN Progs[p].threads |-> -1]
        /\ started = [t \in DOMAIN Progs[p].threads |-> t = 1]
        /\ chans = [c \in DOMAIN Progs[p].chans |-> [cap |-> Progs[p].chans[c], buf |-> <<>>, closed |-> FALSE]]
        /\ out = <<>> /\ status = "run"

\* effect on receiver r of receiving value v (ok = FALSE: the channel is closed and empty)
RecvPC(r, ok)  == IF I(r).op \in {"range", "rangep", "rangefwd"} THEN (IF ok THEN pc[r] ELSE pc[r] + 1) ELSE pc[r] + 1
RecvAcc(r, v, ok) == IF I(r).op \in {"recv", "range", "selrecv", "selsend"} /\ ok THEN acc[r] + v ELSE acc[r]
RecvOut(r, v, ok) == IF (I(r).op = "recvp") \/ (I(r).op = "rangep" /\ ok) THEN Append(out, v) ELSE out
RecvHold(r, v, ok) == IF I(r).op = "rangefwd" /\ ok THEN v + I(r).add ELSE -1
DoRecv(r, v, ok) == /\ pc' = [pc EXCEPT ![r] = RecvPC(r, ok)]
                    /\ acc' = [acc EXCEPT ![r] = RecvAcc(r, v, ok)]
                    /\ out' = RecvOut(r, v, ok)
                    /\ hold' = [hold EXCEPT ![r] = RecvHold(r, v, ok)]

\* what thread t currently offers to send, and where (a set of <<channel, value>>): a send instruction, the
\* body of rangefwd, or the send cases of a select - of which exactly one proceeds
SendReqs(t) == IF ~Active(t) THEN {}
               ELSE IF hold[t] # -1 THEN {<<I(t).ch2, hold[t]>>}
               ELSE IF I(t).op = "send" THEN {<<I(t).ch, I(t).v>>}
               ELSE IF I(t).op = "sendacc" THEN {<<I(t).ch, acc[t]>>}
               ELSE IF I(t).op = "selsend" THEN {<<I(t).schs[k], I(t).vs[k]>> : k \in DOMAIN I(t).schs}
               ELSE {}
AfterSendPC(t) == IF hold[t] # -1 THEN pc[t] ELSE pc[t] + 1     \* the rangefwd body returns to the loop head

SendBuffered(t) == \E q \in SendReqs(t) : LET c == q[1] IN
  /\ chans[c].cap > 0 /\ ~chans[c].closed /\ Len(chans[c].buf) < chans[c].cap
  /\ chans' = [chans EXCEPT ![c].buf = Append(@, q[2])]
  /\ pc' = [pc EXCEPT ![t] = AfterSendPC(t)] /\ hold' = [hold EXCEPT ![t] = -1]
  /\ UNCHANGED <<p, acc, started, out, status>>
\* unbuffered: sender and receiver meet in one step
Rendezvous(t, r) == \E q \in SendReqs(t) : LET c == q[1] IN
  /\ r # t /\ chans[c].cap = 0 /\ ~chans[c].closed /\ WantsRecv(r, c)
  /\ pc' = [pc EXCEPT ![t] = AfterSendPC(t), ![r] = RecvPC(r, TRUE)]
  /\ acc' = [acc EXCEPT ![r] = RecvAcc(r, q[2], TRUE)]
  /\ out' = RecvOut(r, q[2], TRUE)
  /\ hold' = [hold EXCEPT ![t] = -1, ![r] = RecvHold(r, q[2], TRUE)]
  /\ UNCHANGED <<p, started, chans, status>>
SendOnClosed(t) == \E q \in SendReqs(t) :
  /\ chans[q[1]].closed /\ status' = "panic" /\ UNCHANGED <<p, pc, acc, started, hold, chans, out>>
RecvBuffered(r, c) ==
  /\ WantsRecv(r, c) /\ chans[c].buf # <<>>
  /\ chans' = [chans EXCEPT ![c].buf = Tail(@)]
  /\ DoRecv(r, Head(chans[c].buf), TRUE) /\ UNCHANGED <<p, started, status>>
RecvClosed(r, c) ==
  /\ WantsRecv(r, c) /\ chans[c].closed /\ chans[c].buf = <<>>
  /\ DoRecv(r, 0, FALSE) /\ UNCHANGED <<p, started, chans, status>>
Close(t) == /\ Active(t) /\ hold[t] = -1 /\ I(t).op = "close"
            /\ IF chans[I(t).ch].closed THEN status' = "panic" /\ UNCHANGED <<pc, chans>>
               ELSE chans' = [chans EXCEPT ![I(t).ch].closed = TRUE] /\ pc' = [pc EXCEPT ![t] = @ + 1] /\ UNCHANGED status
            /\ UNCHANGED <<p, acc, started, hold, out>>
Go(t) == /\ Active(t) /\ hold[t] = -1 /\ I(t).op = "go"
         /\ started' = [started EXCEPT ![I(t).t] = TRUE] /\ pc' = [pc EXCEPT ![t] = @ + 1]
         /\ UNCHANGED <<p, acc, hold, chans, out, status>>
DoPrint(t) == /\ Active(t) /\ hold[t] = -1 /\ I(t).op \in {"print", "printc"}
            /\ out' = Append(out, IF I(t).op = "print" THEN acc[t] ELSE I(t).v)
            /\ pc' = [pc EXCEPT ![t] = @ + 1] /\ UNCHANGED <<p, acc, started, hold, chans, status>>
MainEnds == /\ status = "run" /\ AtEnd(1) /\ status' = "done"
            /\ UNCHANGED <<p, pc, acc, started, hold, chans, out>>
Step == \/ \E t \in Threads : SendBuffered(t) \/ SendOnClosed(t) \/ Close(t) \/ Go(t) \/ DoPrint(t)
        \/ \E t, r \in Threads : Rendezvous(t, r)
        \/ \E r \in Threads, c \in DOMAIN chans : RecvBuffered(r, c) \/ RecvClosed(r, c)
        \/ MainEnds
Next == Step \/ (status # "run" /\ UNCHANGED vars)
Spec == Init /\ [][Next]_vars

Deadlocked == status = "run" /\ ~ENABLED Step
\* a goroutine other than main may still be running or parked when main ends: allowed by Go, but a
\* program whose goroutine could still PRINT after that point has schedule-dependent output
=============================================================================

------------------------------- MODULE ConcGo -------------------------------
(* C14.  Go's goroutine/channel semantics for a mini concurrent language, as an interpreter
   parameterised by a batch of programs (module ConcGoProgs, generated per run from a seed).
   A program is a sequence of thread bodies (thread 1 = main); a body is a sequence of
   instructions (records):
     [op:"send", ch, v]         ch <- v                      [op:"sendacc", ch]     ch <- acc
     [op:"recv", ch]            acc += <-ch                  [op:"recvp", ch]       println(<-ch)
     [op:"close", ch]           close(ch)                    [op:"go", t]           go thread t
     [op:"range", ch]           for v := range ch { acc += v }
     [op:"rangep", ch]          for v := range ch { println(v) }
     [op:"rangefwd", ch, ch2, add]   for v := range ch { ch2 <- v + add }
     [op:"recvok", ch, nok]     v, ok := <-ch; acc += v; if !ok { acc += nok }
     [op:"loopok", ch, nok]     for { v, ok := <-ch; if !ok { acc += nok; break }; acc += v }
     [op:"selrecv", chs]        select { case v := <-chs[1]: acc += v; case v := <-chs[2]: acc += v ... }
     [op:"selsend", chs, schs, vs]   select { case v := <-chs[k]: acc += v ...; case schs[k] <- vs[k]: ... }
                                (all the values vs[k] are evaluated before the select; exactly one case proceeds)
     [op:"selnb", n, chs, schs, vs, hit, dflt]
                                for i := 0; i < n; i++ {      (n = 1: the select alone, without a loop)
                                  select { case v := <-chs[k]: acc += v ...; case schs[k] <- vs[k]: acc += hit ...;
                                           default: acc += dflt } }
     [op:"print"]               println(acc)                 [op:"printc", v]       println(v)
     [op:"lenp", ch]            println(len(ch))             [op:"capp", ch]        println(cap(ch))
     [op:"lenacc", ch]          acc += len(ch)               [op:"add", v]          acc += v
     [op:"defer", ds]           defer func() { ds }()   (ds: instructions; <<[op:"close", ch]>> is written defer close(ch))
     [op:"recover"]             recover()                    [op:"panic"]           panic("boom")
   Channel semantics: unbuffered rendezvous, buffered FIFO, close, receive from a closed channel
   yields the zero value and ok = false, send on / close of a closed channel panics.  A channel of
   capacity -1 is a NIL channel: send and receive block forever (in a select the case is never
   ready), close panics, len = cap = 0.
   select with default: the cases that can proceed at once are those on a buffered channel with
   data / room, on a closed channel, or on an unbuffered channel where a partner is already PARKED.
   Whether a partner that has reached its blocking instruction has parked yet is a matter of
   scheduling, so such a case may or may not count as ready: both are explored (and the default may
   be taken whenever no case is ready for sure).  A thread in a select with default never parks.
   Panics: a panic (the statement, or a run-time panic of a channel operation) ends the thread's
   body and runs its deferred functions, last first; recover() called by a deferred function stops
   the panic and the thread then ends normally; a thread that ends still panicking crashes the
   program.  A panic inside a deferred function is taken as a crash (over-approximation: such
   programs are simply left out).  Deferred functions contain no defer statements.
   The program ends when main ends (as in Go).  TLC explores EVERY schedule and decides
   what the property presupposes: no deadlock, no panicking goroutine, and the same printed output
   in all terminal states; programs failing one of these are outside the property's domain. *)
EXTENDS Integers, Sequences, FiniteSets, TLC, ConcGoProgs
VARIABLES p,        \* index of the program in Progs
          pc, acc, started, hold,     \* per thread; hold: value a rangefwd body still has to send (-1: none)
          cnt,      \* per thread: iterations done of the current polling loop (selnb)
          panicking, dstack,          \* per thread: a panic is in flight; deferred instructions, next to run first
          chans,    \* per channel [cap, buf, closed]
          out,      \* printed values
          status    \* "run" | "done" | "panic"
vars == <<p, pc, acc, started, hold, cnt, panicking, dstack, chans, out, status>>
P == Progs[p]
Threads == DOMAIN P.threads
Body(t) == P.threads[t]
InBody(t) == pc[t] <= Len(Body(t))
\* after its body a thread runs its deferred instructions (pc keeps counting through them)
AtEnd(t) == pc[t] > Len(Body(t)) + Len(dstack[t])
I(t) == IF InBody(t) THEN Body(t)[pc[t]] ELSE dstack[t][pc[t] - Len(Body(t))]
Active(t) == started[t] /\ ~AtEnd(t) /\ status = "run"
RecvOps == {"recv", "recvp", "recvok", "range", "rangep", "rangefwd", "loopok", "selrecv", "selsend"}
LoopOps == {"range", "rangep", "rangefwd", "loopok"}
AccOps == {"recv", "recvok", "range", "loopok", "selrecv", "selsend"}
LocalOps == {"print", "printc", "lenp", "capp", "lenacc", "add", "defer", "recover", "panic"}
\* thread t is ready to receive on channel c (its current instruction is a receive on c and it holds nothing)
WantsRecv(t, c) == /\ Active(t) /\ hold[t] = -1 /\ I(t).op \in RecvOps
                   /\ IF I(t).op \in {"selrecv", "selsend"} THEN \E k \in DOMAIN I(t).chs : I(t).chs[k] = c ELSE I(t).ch = c

Init == /\ p \in DOMAIN Progs
        /\ pc = [t \in DOMAIN Progs[p].threads |-> 1]
        /\ acc = [t \in DOMAIN Progs[p].threads |-> 0]
        /\ hold = [t \in DOMAIN Progs[p].threads |-> -1]
        /\ cnt = [t \in DOMAIN Progs[p].threads |-> 0]
        /\ panicking = [t \in DOMAIN Progs[p].threads |-> FALSE]
        /\ dstack = [t \in DOMAIN Progs[p].threads |-> <<>>]
        /\ started = [t \in DOMAIN Progs[p].threads |-> t = 1]
        /\ chans = [c \in DOMAIN Progs[p].chans |-> [cap |-> Progs[p].chans[c], buf |-> <<>>, closed |-> FALSE]]
        /\ out = <<>> /\ status = "run"

\* thread t panics: the rest of its body is skipped and its deferred functions run
Raise(t) == /\ IF InBody(t)
               THEN /\ pc' = [pc EXCEPT ![t] = Len(Body(t)) + 1]
                    /\ panicking' = [panicking EXCEPT ![t] = TRUE]
                    /\ UNCHANGED status
               ELSE status' = "panic" /\ UNCHANGED <<pc, panicking>>
            /\ hold' = [hold EXCEPT ![t] = -1] /\ cnt' = [cnt EXCEPT ![t] = 0]
            /\ UNCHANGED <<p, acc, started, dstack, chans, out>>

\* effect on receiver r of receiving value v (ok = FALSE: the channel is closed and empty)
RecvPC(r, ok)  == IF I(r).op \in LoopOps THEN (IF ok THEN pc[r] ELSE pc[r] + 1) ELSE pc[r] + 1
RecvAcc(r, v, ok) == IF ok THEN (IF I(r).op \in AccOps THEN acc[r] + v ELSE acc[r])
                     ELSE IF I(r).op \in {"recvok", "loopok"} THEN acc[r] + I(r).nok ELSE acc[r]
RecvOut(r, v, ok) == IF (I(r).op = "recvp") \/ (I(r).op = "rangep" /\ ok) THEN Append(out, v) ELSE out
RecvHold(r, v, ok) == IF I(r).op = "rangefwd" /\ ok THEN v + I(r).add ELSE -1
DoRecv(r, v, ok) == /\ pc' = [pc EXCEPT ![r] = RecvPC(r, ok)]
                    /\ acc' = [acc EXCEPT ![r] = RecvAcc(r, v, ok)]
                    /\ out' = RecvOut(r, v, ok)
                    /\ hold' = [hold EXCEPT ![r] = RecvHold(r, v, ok)]

\* what thread t currently offers to send, and where (a set of <<channel, value>>): a send instruction, the
\* body of rangefwd, or the send cases of a (blocking) select - of which exactly one proceeds
SendReqs(t) == IF ~Active(t) THEN {}
               ELSE IF hold[t] # -1 THEN {<<I(t).ch2, hold[t]>>}
               ELSE IF I(t).op = "send" THEN {<<I(t).ch, I(t).v>>}
               ELSE IF I(t).op = "sendacc" THEN {<<I(t).ch, acc[t]>>}
               ELSE IF I(t).op = "selsend" THEN {<<I(t).schs[k], I(t).vs[k]>> : k \in DOMAIN I(t).schs}
               ELSE {}
AfterSendPC(t) == IF hold[t] # -1 THEN pc[t] ELSE pc[t] + 1     \* the rangefwd body returns to the loop head

SendBuffered(t) == \E q \in SendReqs(t) : LET c == q[1] IN
  /\ chans[c].cap > 0 /\ ~chans[c].closed /\ Len(chans[c].buf) < chans[c].cap
  /\ chans' = [chans EXCEPT ![c].buf = Append(@, q[2])]
  /\ pc' = [pc EXCEPT ![t] = AfterSendPC(t)] /\ hold' = [hold EXCEPT ![t] = -1]
  /\ UNCHANGED <<p, acc, started, cnt, panicking, dstack, out, status>>
\* unbuffered: sender and receiver meet in one step
Rendezvous(t, r) == \E q \in SendReqs(t) : LET c == q[1] IN
  /\ r # t /\ chans[c].cap = 0 /\ ~chans[c].closed /\ WantsRecv(r, c)
  /\ pc' = [pc EXCEPT ![t] = AfterSendPC(t), ![r] = RecvPC(r, TRUE)]
  /\ acc' = [acc EXCEPT ![r] = RecvAcc(r, q[2], TRUE)]
  /\ out' = RecvOut(r, q[2], TRUE)
  /\ hold' = [hold EXCEPT ![t] = -1, ![r] = RecvHold(r, q[2], TRUE)]
  /\ UNCHANGED <<p, started, cnt, panicking, dstack, chans, status>>
SendOnClosed(t) == \E q \in SendReqs(t) : chans[q[1]].closed /\ Raise(t)
RecvBuffered(r, c) ==
  /\ WantsRecv(r, c) /\ chans[c].buf # <<>>
  /\ chans' = [chans EXCEPT ![c].buf = Tail(@)]
  /\ DoRecv(r, Head(chans[c].buf), TRUE) /\ UNCHANGED <<p, started, cnt, panicking, dstack, status>>
RecvClosed(r, c) ==
  /\ WantsRecv(r, c) /\ chans[c].closed /\ chans[c].buf = <<>>
  /\ DoRecv(r, 0, FALSE) /\ UNCHANGED <<p, started, cnt, panicking, dstack, chans, status>>
Close(t) == /\ Active(t) /\ hold[t] = -1 /\ I(t).op = "close"
            /\ IF chans[I(t).ch].closed \/ chans[I(t).ch].cap < 0 THEN Raise(t)
               ELSE /\ chans' = [chans EXCEPT ![I(t).ch].closed = TRUE] /\ pc' = [pc EXCEPT ![t] = @ + 1]
                    /\ UNCHANGED <<p, acc, started, hold, cnt, panicking, dstack, out, status>>
Go(t) == /\ Active(t) /\ hold[t] = -1 /\ I(t).op = "go"
         /\ started' = [started EXCEPT ![I(t).t] = TRUE] /\ pc' = [pc EXCEPT ![t] = @ + 1]
         /\ UNCHANGED <<p, acc, hold, cnt, panicking, dstack, chans, out, status>>
ChanCap(c) == IF chans[c].cap < 0 THEN 0 ELSE chans[c].cap
\* instructions that involve no other thread
Local(t) == /\ Active(t) /\ hold[t] = -1 /\ I(t).op \in LocalOps
            /\ LET i == I(t) IN
               IF i.op = "panic" THEN Raise(t)
               ELSE /\ pc' = [pc EXCEPT ![t] = @ + 1]
                    /\ out' = CASE i.op = "print" -> Append(out, acc[t])
                                [] i.op = "printc" -> Append(out, i.v)
                                [] i.op = "lenp" -> Append(out, Len(chans[i.ch].buf))
                                [] i.op = "capp" -> Append(out, ChanCap(i.ch))
                                [] OTHER -> out
                    /\ acc' = CASE i.op = "add" -> [acc EXCEPT ![t] = @ + i.v]
                                [] i.op = "lenacc" -> [acc EXCEPT ![t] = @ + Len(chans[i.ch].buf)]
                                [] OTHER -> acc
                    \* recover() stops a panic only when called by a deferred function
                    /\ panicking' = IF i.op = "recover" /\ ~InBody(t) THEN [panicking EXCEPT ![t] = FALSE] ELSE panicking
                    /\ dstack' = IF i.op = "defer" /\ InBody(t) THEN [dstack EXCEPT ![t] = i.ds \o @] ELSE dstack
                    /\ UNCHANGED <<p, started, hold, cnt, chans, status>>
\* select with a default clause, possibly in a loop of n iterations
SelNB(t) ==
  /\ Active(t) /\ hold[t] = -1 /\ I(t).op = "selnb"
  /\ LET i == I(t)
         npc == IF cnt[t] + 1 < i.n THEN pc[t] ELSE pc[t] + 1
         ncnt == IF cnt[t] + 1 < i.n THEN cnt[t] + 1 ELSE 0
         \* cases that can proceed for sure
         DefRecv == {k \in DOMAIN i.chs : chans[i.chs[k]].buf # <<>> \/ chans[i.chs[k]].closed}
         DefSend == {k \in DOMAIN i.schs : chans[i.schs[k]].closed \/ Len(chans[i.schs[k]].buf) < chans[i.schs[k]].cap}
     IN \/ \E k \in DefRecv : LET c == i.chs[k] IN
             /\ IF chans[c].buf # <<>>
                THEN chans' = [chans EXCEPT ![c].buf = Tail(@)] /\ acc' = [acc EXCEPT ![t] = @ + Head(chans[c].buf)]
                ELSE UNCHANGED <<chans, acc>>
             /\ pc' = [pc EXCEPT ![t] = npc] /\ cnt' = [cnt EXCEPT ![t] = ncnt]
             /\ UNCHANGED <<p, started, hold, panicking, dstack, out, status>>
        \/ \E k \in DefSend : LET c == i.schs[k] IN
             IF chans[c].closed THEN Raise(t)
             ELSE /\ chans' = [chans EXCEPT ![c].buf = Append(@, i.vs[k])] /\ acc' = [acc EXCEPT ![t] = @ + i.hit]
                  /\ pc' = [pc EXCEPT ![t] = npc] /\ cnt' = [cnt EXCEPT ![t] = ncnt]
                  /\ UNCHANGED <<p, started, hold, panicking, dstack, out, status>>
        \* a sender that reached its (blocking) send on an unbuffered channel: parked or not yet
        \/ \E k \in DOMAIN i.chs, s \in Threads \ {t} : \E q \in SendReqs(s) :
             /\ q[1] = i.chs[k] /\ chans[q[1]].cap = 0 /\ ~chans[q[1]].closed
             /\ pc' = [pc EXCEPT ![t] = npc, ![s] = AfterSendPC(s)] /\ cnt' = [cnt EXCEPT ![t] = ncnt]
             /\ acc' = [acc EXCEPT ![t] = @ + q[2]]
             /\ hold' = [hold EXCEPT ![s] = -1]
             /\ UNCHANGED <<p, started, panicking, dstack, chans, out, status>>
        \* a receiver that reached its (blocking) receive on an unbuffered channel: parked or not yet
        \/ \E k \in DOMAIN i.schs, r \in Threads \ {t} : LET c == i.schs[k] IN
             /\ chans[c].cap = 0 /\ ~chans[c].closed /\ WantsRecv(r, c)
             /\ pc' = [pc EXCEPT ![t] = npc, ![r] = RecvPC(r, TRUE)] /\ cnt' = [cnt EXCEPT ![t] = ncnt]
             /\ acc' = [acc EXCEPT ![t] = @ + i.hit, ![r] = RecvAcc(r, i.vs[k], TRUE)]
             /\ out' = RecvOut(r, i.vs[k], TRUE)
             /\ hold' = [hold EXCEPT ![r] = RecvHold(r, i.vs[k], TRUE)]
             /\ UNCHANGED <<p, started, panicking, dstack, chans, status>>
        \/ /\ DefRecv = {} /\ DefSend = {}
           /\ acc' = [acc EXCEPT ![t] = @ + i.dflt]
           /\ pc' = [pc EXCEPT ![t] = npc] /\ cnt' = [cnt EXCEPT ![t] = ncnt]
           /\ UNCHANGED <<p, started, hold, panicking, dstack, chans, out, status>>
MainEnds == /\ status = "run" /\ AtEnd(1) /\ ~panicking[1] /\ status' = "done"
            /\ UNCHANGED <<p, pc, acc, started, hold, cnt, panicking, dstack, chans, out>>
\* a goroutine (or main) whose panic nobody recovered
Crash(t) == /\ status = "run" /\ started[t] /\ AtEnd(t) /\ panicking[t] /\ status' = "panic"
            /\ UNCHANGED <<p, pc, acc, started, hold, cnt, panicking, dstack, chans, out>>
Step == \/ \E t \in Threads : SendBuffered(t) \/ SendOnClosed(t) \/ Close(t) \/ Go(t) \/ Local(t) \/ SelNB(t) \/ Crash(t)
        \/ \E t, r \in Threads : Rendezvous(t, r)
        \/ \E r \in Threads, c \in DOMAIN chans : RecvBuffered(r, c) \/ RecvClosed(r, c)
        \/ MainEnds
Next == Step \/ (status # "run" /\ UNCHANGED vars)
Spec == Init /\ [][Next]_vars

Deadlocked == status = "run" /\ ~ENABLED Step
\* a goroutine other than main may still be running or parked when main ends: allowed by Go, but a
\* program whose goroutine could still PRINT after that point has schedule-dependent output
=============================================================================

----------------------------- MODULE Trace_ConcGo -----------------------------
(* C14 judgement of real runs: one record per run of a program that TLC proved deterministic,
   {id, prog, gmp, exp, out, outcome}; exp is the unique output computed by TLC over all schedules
   (MC_ConcGo), carried through the driver untouched.  A record of kind "race" is a data race
   reported by Go's race detector while the interpreter ran. *)
EXTENDS Integers, Sequences, TLC, Json
RecOk(r) == r.kind = "run" /\ r.outcome = "ok" /\ r.out = r.exp
Sig(r) == IF r.kind = "race" THEN [fam |-> "concgo", what |-> "datarace", where |-> r.where]
          ELSE [fam |-> "concgo", what |-> IF r.outcome = "ok" THEN "wrong-output" ELSE r.outcome, shape |-> r.shape]

VARIABLES l, nbad
Obs == ndJsonDeserialize("obs.ndjson")
Init == l = 1 /\ nbad = 0
Next == l <= Len(Obs) /\ l' = l + 1 /\ nbad' = nbad + (IF RecOk(Obs[l]) THEN 0 ELSE 1)
BadIdx == SelectSeq([i \in 1..Len(Obs) |-> i], LAMBDA i : ~RecOk(Obs[i]))
Done == l = Len(Obs) + 1 =>
          ndJsonSerialize("bad.ndjson",
             IF nbad = 0 THEN <<>>
             ELSE [j \in 1..(IF Len(BadIdx) < 400 THEN Len(BadIdx) ELSE 400) |->
                     [k |-> BadIdx[j], id |-> Obs[BadIdx[j]].id, sig |-> Sig(Obs[BadIdx[j]]), nbad |-> nbad]])
Consumed == TLCGet("stats").diameter - 1 = Len(Obs)
=============================================================================

----------------------------- MODULE Trace_ConcGo -----------------------------
(* C14 judgement of real runs: one record per run of a program that TLC proved deterministic,
   {id, prog, gmp, exp, out, outcome}; exp is the unique output computed by TLC over all schedules
   (MC_ConcGo), carried through the driver untouched.  A record of kind "race" is a data race
   reported by Go's race detector while the interpreter ran. *)
EXTENDS Integers, Sequences, TLC, Json
RecOk(r) == r.kind = "run" /\ r.outcome = "ok" /\ r.out = r.exp
Sig(r) == IF r.kind = "race" THEN [fam |-> "concgo", what |-> "datarace", where |-> r.where]
          ELSE [fam |-> "concgo", what |-> IF r.outcome = "ok" THEN "wrong-output" ELSE r.outcome, shape |-> r.shape]

VARIABLES l, nbad
Obs == ndJsonDeserialize("obs.ndjson")
Init == l = 1 /\ nbad = 0
Next == l <= Len(Obs) /\ l' = l + 1 /\ nbad' = nbad + (IF RecOk(Obs[l]) THEN 0 ELSE 1)
\* (operators with a parameter: a zero-argument definition would be evaluated eagerly at start-up, judging every
\*  record twice; an operator argument is evaluated once)
BadIdx(n) == SelectSeq([i \in 1..n |-> i], LAMBDA i : ~RecOk(Obs[i]))
WriteBad(B) == ndJsonSerialize("bad.ndjson",
                 [j \in 1..(IF Len(B) < 400 THEN Len(B) ELSE 400) |->
                     [k |-> B[j], id |-> Obs[B[j]].id, sig |-> Sig(Obs[B[j]]), nbad |-> nbad]])
Done == l = Len(Obs) + 1 => WriteBad(IF nbad = 0 THEN <<>> ELSE BadIdx(Len(Obs)))
Consumed == TLCGet("stats").diameter - 1 = Len(Obs)
=============================================================================

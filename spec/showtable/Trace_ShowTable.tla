-------------------------- MODULE Trace_ShowTable --------------------------
(* Judges observations of the real code: one record per grid cell
     {id, ctx, type, val, known, ctl, kind, impl, o: <<{box, builds, bmsg, runerr, rmsg, astctx, url}, ...>>}
   RecOk is the property-level relation of ShowTable part 1.  Conformance to part 2 (the transcribed
   tables) is written to drift.ndjson and is diagnostic only. *)
EXTENDS ShowTable, Json, SequencesExt

RecOk(r) == ~Defined(r) \/ PropertyHolds(r)

St(r) == r.o[CHOOSE i \in StaticObs(r) : TRUE]
\* group of the context as observed from the syntax tree (only to keep signatures specific)
ObsClass(r) == LET s == St(r) IN
               IF s.url THEN (IF s.astctx = "Markdown" THEN "mdurl" ELSE "url") ELSE CtxClass(s.astctx)
\* kinds of the map keys occurring in the type class (from its descriptor); "" if none
RECURSIVE KeyKinds(_, _)
KeyKinds(t, fuel) ==
  IF fuel = 0 \/ t \notin TypeNames THEN {}
  ELSE LET d == Desc(t) IN
       (IF d.key # "" THEN {Desc(d.key).kind} ELSE {}) \cup
       (IF d.elem # "" THEN KeyKinds(d.elem, fuel - 1) ELSE {}) \cup
       UNION {KeyKinds(d.fields[i], fuel - 1) : i \in 1..Len(d.fields)}
KeyKind(r) == LET K == KeyKinds(r.type, 4) IN IF K = {} THEN "" ELSE CHOOSE x \in K : TRUE
Sig(r) == [fam |-> "showtable",
           rel |-> IF ~AcceptedNeverFails(r) THEN "B=>~R" ELSE "R'=>~B",
           cc |-> ObsClass(r), kind |-> r.kind, key |-> KeyKind(r), type |-> r.type]

\* ---- diagnostic: drift of the real observations from the implementation-shaped model
RangeOf(s) == {s[i] : i \in 1..Len(s)}
Modelled(r) == r.known /\ r.type \in TypeClasses /\ r.ctx \in AllCtxs
DriftSet(m, r) ==
  IF ~Modelled(r) THEN {"unmodelled"}
  ELSE LET d == Desc(r.type) z == (r.val = "zero") IN
       (IF d.kind # r.kind \/ d.impl # RangeOf(r.impl) THEN {"descriptor"} ELSE {}) \cup
       UNION {
         LET o == r.o[i]
             stat == IF o.box = "static" THEN r.type ELSE BoxType(o.box)
         IN IF o.builds = "unbindable" THEN {"unbindable:" \o o.box}
            ELSE
            (IF o.builds \in {"ok", "builderror"} /\ (o.astctx # CtxOf(r.ctx)[1] \/ o.url # CtxOf(r.ctx)[2])
               THEN {"ctx:" \o o.box} ELSE {}) \cup
            (IF o.builds \in {"ok", "builderror"} /\ Built(o) # CheckShow(m, CtxOf(r.ctx)[1], stat)
               THEN {"B:" \o o.box} ELSE {}) \cup
            (IF Built(o) /\ o.runerr \in {"none", "cannotshow"} /\ ShowFailed(o) # ModelR(m, r.ctx, r.type, z)
               THEN {"R:" \o o.box} ELSE {})
         : i \in 1..Len(r.o)}

(* ---- record-walk skeleton (same in every record-per-line Trace spec; see spec/README) ---- *)
VARIABLES l, nbad
Obs == ndJsonDeserialize("obs.ndjson")
Init == l = 1 /\ nbad = 0
Next == l <= Len(Obs) /\ l' = l + 1 /\ nbad' = nbad + (IF RecOk(Obs[l]) THEN 0 ELSE 1)
BadIdx == SelectSeq([i \in 1..Len(Obs) |-> i], LAMBDA i : ~RecOk(Obs[i]))
DriftIdx == SelectSeq([i \in 1..Len(Obs) |-> i], LAMBDA i : DriftSet(AsIs, Obs[i]) # {})
DriftIntended == Cardinality({i \in 1..Len(Obs) : DriftSet(Intended, Obs[i]) # {}})
Done == l = Len(Obs) + 1 =>
          /\ ndJsonSerialize("bad.ndjson",
               IF nbad = 0 THEN <<>>
               ELSE [j \in 1..(IF Len(BadIdx) < 4000 THEN Len(BadIdx) ELSE 4000) |->
                       [k |-> BadIdx[j], id |-> Obs[BadIdx[j]].id, sig |-> Sig(Obs[BadIdx[j]]), nbad |-> nbad]])
          /\ ndJsonSerialize("drift.ndjson",
               [j \in 1..(IF Len(DriftIdx) < 4000 THEN Len(DriftIdx) ELSE 4000) |->
                  [k |-> DriftIdx[j], id |-> Obs[DriftIdx[j]].id, ctx |-> Obs[DriftIdx[j]].ctx, type |-> Obs[DriftIdx[j]].type,
                   val |-> Obs[DriftIdx[j]].val, what |-> SetToSeq(DriftSet(AsIs, Obs[DriftIdx[j]]))]])
          /\ ndJsonSerialize("stats.ndjson",
               <<[records |-> Len(Obs),
                  ref_undefined |-> Cardinality({i \in 1..Len(Obs) : ~Defined(Obs[i])}),
                  drift |-> Len(DriftIdx), drift_vs_intended |-> DriftIntended]>>)
Consumed == TLCGet("stats").diameter - 1 = Len(Obs)
=============================================================================

---------------------------- MODULE ShowTable ----------------------------
(* C09.  "A show accepted by the type checker never fails for its static type."

   Part 1 (reference) states the property as a relation between observations of the real code for
   one grid cell (context c, type class T, value variant):  B  = the template builds when v has the
   static type T,  R  = running it ends with a 'cannot show' error,  B', R' = the same with the same
   value held in a variable of an interface type (any, fmt.Stringer, error, ...).

   Part 2 (implementation-shaped model) transcribes the two tables the property relates:
   compiler.checkShow / checkShowJS / checkShowJSON  (internal/compiler/checker_statements.go) and
   runtime.toString / showIn*  (internal/runtime/renderer.go), branch by branch, over *type
   descriptors* (reflect kind, exact-type identity, implemented interfaces, element/key/field types).
   TLC model-checks part 2 against the relation of part 1 (MC_ShowTable); the real code is compared
   with part 2 only as a diagnostic (model_drift).                                              *)
EXTENDS Integers, Sequences, FiniteSets, TLC

CONSTANTS FixUintptr,   \* TRUE: model toString WITH a reflect.Uintptr case (FALSE = as in the code today)
          FixMapKey,    \* TRUE: model checkShowJS/JSON testing Stringer on the map KEY type (FALSE = on the map type, as today)
          FixMdURL      \* TRUE: model showInURL accepting Markdown stringers (FALSE = plain showInHTML, as today)

(* ======================= Part 1: reference - what the property demands ======================= *)
\* an observation o of one (cell, box):  o.box, o.builds \in {"ok","builderror",...}, o.runerr \in {"none","cannotshow",...}
Built(o)      == o.builds = "ok"
ShowFailed(o) == o.runerr = "cannotshow"      \* the run ended with the renderer's 'cannot show' error class
StaticObs(r)  == {i \in 1..Len(r.o) : r.o[i].box = "static"}
BoxedObs(r)   == {i \in 1..Len(r.o) : r.o[i].box # "static" /\ r.o[i].builds # "unbindable"}

\* The relation is defined for a record when the type class and context were known to the driver,
\* the control (same template, v a string) builds and runs - so that a failure is due to the type,
\* not to the template of the context - and the statically typed observation exists.
Defined(r) == r.known /\ r.ctl = "ok" /\ StaticObs(r) # {}

\* Clause 1:  B => ~R.   "If a template builds, showing any value whose static type is not an
\* interface never fails at run time with a 'cannot show' error in the context where the show appears."
\* (every type class of the grid is a non-interface type)
AcceptedNeverFails(r) == \A i \in StaticObs(r) : Built(r.o[i]) => ~ShowFailed(r.o[i])

\* Clause 2:  R' => ~B.  "values of interface type fail only when their dynamic type would itself
\* have been rejected statically."  Reading chosen: "rejected statically" = the template with the
\* dynamic type as static type does not build (for whatever reason the compiler gives).
BoxedFailsOnlyIfRejected(r) ==
  \A j \in BoxedObs(r) : ShowFailed(r.o[j]) => \A i \in StaticObs(r) : ~Built(r.o[i])

PropertyHolds(r) == AcceptedNeverFails(r) /\ BoxedFailsOnlyIfRejected(r)

(* ======================= Part 2: implementation-shaped model ======================= *)
\* reflect.Kind order, as the checker's range tests (reflect.Bool <= kind && kind <= reflect.Complex128) use it
KindSeq == <<"invalid", "bool", "int", "int8", "int16", "int32", "int64", "uint", "uint8", "uint16", "uint32",
             "uint64", "uintptr", "float32", "float64", "complex64", "complex128", "array", "chan", "func",
             "iface", "map", "ptr", "slice", "string", "struct", "unsafeptr">>
Ord(k) == CHOOSE i \in 1..Len(KindSeq) : KindSeq[i] = k
Between(k, lo, hi) == Ord(lo) <= Ord(k) /\ Ord(k) <= Ord(hi)

ImplNames == {"Stringer", "EnvStringer", "error", "HTMLStringer", "HTMLEnvStringer", "CSSStringer", "CSSEnvStringer",
              "JSStringer", "JSEnvStringer", "JSONStringer", "JSONEnvStringer", "MarkdownStringer", "MarkdownEnvStringer"}

\* ---- type descriptors
\* kind: reflect kind; id: exact-type identity used by `t == byteSliceType`, `t == timeType`, `case native.HTML:` ...;
\* impl: interfaces the type implements; elem/key: names of element / key types; fields: exported struct fields;
\* dyn: for an interface-typed element, the dynamic type of the value the driver stores in it.
D(k) == [kind |-> k, id |-> "", impl |-> {}, elem |-> "", key |-> "", fields |-> <<>>, dyn |-> ""]
DI(k, impl) == [D(k) EXCEPT !.impl = impl]
DId(k, id) == [D(k) EXCEPT !.id = id]
DE(k, e) == [D(k) EXCEPT !.elem = e]
DM(key, e) == [D("map") EXCEPT !.key = key, !.elem = e]
DS(fs) == [D("struct") EXCEPT !.fields = fs]
DDyn(t) == [D("iface") EXCEPT !.dyn = t]

BasicKinds == {"bool", "int", "int8", "int16", "int32", "int64", "uint", "uint8", "uint16", "uint32", "uint64", "uintptr",
               "float32", "float64", "complex64", "complex128", "string"}

TypeTab ==
  [k \in BasicKinds |-> D(k)] @@
  \* named variants (a named type keeps the kind; it is not the identical type)
  ("N.bool" :> D("bool")) @@ ("N.int" :> D("int")) @@ ("N.uint8" :> D("uint8")) @@ ("N.uintptr" :> D("uintptr")) @@
  ("N.float64" :> D("float64")) @@ ("N.complex128" :> D("complex128")) @@ ("N.string" :> D("string")) @@
  ("NN.uintptr" :> D("uintptr")) @@ ("NN.int" :> D("int")) @@
  \* byte slices
  ("[]byte" :> [D("slice") EXCEPT !.id = "bytes", !.elem = "uint8"]) @@ ("N.bytes" :> DE("slice", "uint8")) @@
  \* Stringer / EnvStringer / error implementations of various kinds
  ("T.Stringer.string" :> DI("string", {"Stringer"})) @@ ("T.Stringer.int" :> DI("int", {"Stringer"})) @@
  ("T.Stringer.uintptr" :> DI("uintptr", {"Stringer"})) @@
  ("T.Stringer.struct" :> [DS(<<"int">>) EXCEPT !.impl = {"Stringer"}]) @@
  ("T.Stringer.ptr" :> [DE("ptr", "S.unexported") EXCEPT !.impl = {"Stringer"}]) @@
  ("T.Stringer.chan" :> DI("chan", {"Stringer"})) @@ ("T.Stringer.func" :> DI("func", {"Stringer"})) @@
  ("T.EnvStringer" :> DI("struct", {"EnvStringer"})) @@ ("T.error.struct" :> DI("struct", {"error"})) @@
  ("T.error.ptr" :> [DE("ptr", "S.unexported") EXCEPT !.impl = {"error"}]) @@
  ("*T.Stringer.struct" :> [DE("ptr", "T.Stringer.struct") EXCEPT !.impl = {"Stringer"}]) @@
  ("S.unexported" :> D("struct")) @@
  \* trusted format types and their stringer interfaces
  ("HTML" :> DId("string", "HTML")) @@ ("CSS" :> DId("string", "CSS")) @@ ("JS" :> DId("string", "JS")) @@
  ("JSON" :> DId("string", "JSON")) @@ ("Markdown" :> DId("string", "Markdown")) @@
  ("T.HTMLStringer" :> DI("struct", {"HTMLStringer"})) @@ ("T.HTMLEnvStringer" :> DI("struct", {"HTMLEnvStringer"})) @@
  ("T.CSSStringer" :> DI("struct", {"CSSStringer"})) @@ ("T.CSSEnvStringer" :> DI("struct", {"CSSEnvStringer"})) @@
  ("T.JSStringer" :> DI("struct", {"JSStringer"})) @@ ("T.JSEnvStringer" :> DI("struct", {"JSEnvStringer"})) @@
  ("T.JSONStringer" :> DI("struct", {"JSONStringer"})) @@ ("T.JSONEnvStringer" :> DI("struct", {"JSONEnvStringer"})) @@
  ("T.MarkdownStringer" :> DI("struct", {"MarkdownStringer"})) @@
  ("T.MarkdownEnvStringer" :> DI("struct", {"MarkdownEnvStringer"})) @@
  \* slices and arrays
  ("[]int" :> DE("slice", "int")) @@ ("[]string" :> DE("slice", "string")) @@ ("[]chan" :> DE("slice", "chan")) @@
  ("[]func" :> DE("slice", "func")) @@ ("[]uintptr" :> DE("slice", "uintptr")) @@
  ("[]any.int" :> DE("slice", "any.int")) @@ ("[]any.chan" :> DE("slice", "any.chan")) @@
  ("[2]int" :> DE("array", "int")) @@ ("[1]chan" :> DE("array", "chan")) @@
  ("[][]int" :> DE("slice", "[]int")) @@ ("[]*int" :> DE("slice", "*int")) @@
  ("[]T.Stringer.struct" :> DE("slice", "T.Stringer.struct")) @@
  ("any.int" :> DDyn("int")) @@ ("any.chan" :> DDyn("chan")) @@
  \* maps
  ("map[string]int" :> DM("string", "int")) @@ ("map[int]string" :> DM("int", "string")) @@
  ("map[bool]int" :> DM("bool", "int")) @@ ("map[float64]int" :> DM("float64", "int")) @@
  ("map[complex128]int" :> DM("complex128", "int")) @@ ("map[uintptr]int" :> DM("uintptr", "int")) @@
  ("map[N.uintptr]int" :> DM("N.uintptr", "int")) @@ ("map[string]chan" :> DM("string", "chan")) @@
  ("map[[2]int]int" :> DM("[2]int", "int")) @@
  ("map[T.Stringer.struct]int" :> DM("T.Stringer.struct", "int")) @@
  ("map[T.Stringer.int]int" :> DM("T.Stringer.int", "int")) @@
  ("M.Stringer.badkey" :> [DM("[2]int", "int") EXCEPT !.impl = {"Stringer"}]) @@
  ("N.map" :> DM("string", "int")) @@ ("map[string]any.int" :> DM("string", "any.int")) @@
  ("map[any.int]int" :> DM("any.int", "int")) @@ ("map[string][]chan" :> DM("string", "[]chan")) @@
  ("[]map[uintptr]int" :> DE("slice", "map[uintptr]int")) @@ ("*map[uintptr]int" :> DE("ptr", "map[uintptr]int")) @@
  \* structs and pointers
  ("S.ok" :> DS(<<"int", "string">>)) @@ ("S.chan" :> DS(<<"chan">>)) @@ ("S.unexpchan" :> DS(<<"int">>)) @@
  ("S.uintptr" :> DS(<<"uintptr">>)) @@ ("S.mapuintptr" :> DS(<<"map[uintptr]int">>)) @@
  ("*int" :> DE("ptr", "int")) @@ ("*S.ok" :> DE("ptr", "S.ok")) @@ ("*chan" :> DE("ptr", "chan")) @@
  ("**int" :> DE("ptr", "*int")) @@ ("*uintptr" :> DE("ptr", "uintptr")) @@
  ("Rec" :> DS(<<"int", "*Rec">>)) @@ ("*Rec" :> DE("ptr", "Rec")) @@
  \* time, func, chan
  ("time.Time" :> [D("struct") EXCEPT !.id = "time", !.impl = {"Stringer"}]) @@
  ("*time.Time" :> [DE("ptr", "time.Time") EXCEPT !.impl = {"Stringer"}]) @@
  ("func" :> D("func")) @@ ("chan" :> D("chan")) @@
  \* the interface types a value is boxed in (static type of v for the boxed observations)
  ("iface.any" :> DId("iface", "any")) @@
  [n \in {"iface." \o i : i \in ImplNames} |-> DI("iface", {CHOOSE i \in ImplNames : "iface." \o i = n})]

\* name of the interface type a box stands for
BoxType(box) == "iface." \o box

\* the type classes that form the grid (the other entries of TypeTab are element types / box types)
AuxTypes == {"S.unexported", "any.int", "any.chan", "*Rec", "iface.any"} \cup {"iface." \o i : i \in ImplNames}
TypeClasses == DOMAIN TypeTab \ AuxTypes

Has(d, i) == i \in d.impl
InSeq(x, s) == \E i \in 1..Len(s) : s[i] = x

\* ---- contexts: registered context name -> ast context (spelled as ast.Context.String()) and URL flag
CtxTab ==
  ("text" :> <<"text", FALSE>>) @@ ("html" :> <<"HTML", FALSE>>) @@ ("tag" :> <<"tag", FALSE>>) @@
  ("qattr" :> <<"quoted attribute", FALSE>>) @@ ("uattr" :> <<"unquoted attribute", FALSE>>) @@
  ("css" :> <<"CSS", FALSE>>) @@ ("cssstr" :> <<"CSS string", FALSE>>) @@
  ("js" :> <<"JavaScript", FALSE>>) @@ ("jsstr" :> <<"JavaScript string", FALSE>>) @@
  ("json" :> <<"JSON", FALSE>>) @@ ("jsonstr" :> <<"JSON string", FALSE>>) @@
  ("md" :> <<"Markdown", FALSE>>) @@ ("tabcode" :> <<"tab code block", FALSE>>) @@
  ("spacescode" :> <<"spaces code block", FALSE>>) @@
  ("urlq" :> <<"quoted attribute", TRUE>>) @@ ("urlu" :> <<"unquoted attribute", TRUE>>) @@
  ("urlquery" :> <<"quoted attribute", TRUE>>) @@ ("urlset" :> <<"quoted attribute", TRUE>>) @@
  ("mdurl" :> <<"Markdown", TRUE>>) @@
  ("html.css" :> <<"CSS", FALSE>>) @@ ("html.cssstr" :> <<"CSS string", FALSE>>) @@
  ("html.js" :> <<"JavaScript", FALSE>>) @@ ("html.jsstr" :> <<"JavaScript string", FALSE>>) @@
  ("html.json" :> <<"JSON", FALSE>>) @@ ("html.jsonstr" :> <<"JSON string", FALSE>>) @@
  ("md.tag" :> <<"tag", FALSE>>) @@ ("md.qattr" :> <<"quoted attribute", FALSE>>) @@ ("md.js" :> <<"JavaScript", FALSE>>) @@
  ("stmt.html" :> <<"HTML", FALSE>>) @@ ("stmt2.html" :> <<"HTML", FALSE>>) @@ ("if.js" :> <<"JavaScript", FALSE>>) @@
  ("for.text" :> <<"text", FALSE>>) @@ ("macro.html" :> <<"HTML", FALSE>>) @@ ("macro.json" :> <<"JSON", FALSE>>) @@
  ("macro.css" :> <<"CSS", FALSE>>) @@ ("import.html" :> <<"quoted attribute", FALSE>>) @@
  ("import.js" :> <<"JavaScript", FALSE>>) @@ ("extends.md" :> <<"Markdown", FALSE>>) @@
  ("render.text" :> <<"text", FALSE>>)
BaseCtxs == {"text", "html", "tag", "qattr", "uattr", "css", "cssstr", "js", "jsstr", "json", "jsonstr", "md",
             "tabcode", "spacescode", "urlq", "urlu", "urlquery", "urlset", "mdurl"}
AllCtxs == DOMAIN CtxTab

\* the three groups of contexts by the way a value is shown; used only to keep signatures specific
CtxClass(a) == IF a = "JavaScript" THEN "js" ELSE IF a = "JSON" THEN "json" ELSE "scalar"

\* ---- the static table: checkShow(t, ctx)
StringCtxs == {"text", "tag", "quoted attribute", "unquoted attribute", "CSS string", "JavaScript string",
               "JSON string", "tab code block", "spaces code block"}

RECURSIVE ChkJSLike(_, _, _)
\* checkShowJS (lang = "JS") and checkShowJSON (lang = "JSON"); vis is the `types` argument
ChkJSLike(lang, t, vis) ==
  LET d == TypeTab[t] IN
  IF InSeq(t, vis) THEN TRUE                                              \* slices.Contains(types, t)
  ELSE IF \/ Between(d.kind, "bool", "float64") \/ d.kind = "string" \/ d.id = "time"
          \/ Has(d, lang \o "Stringer") \/ Has(d, lang \o "EnvStringer") \/ Has(d, "error")
       THEN TRUE
  ELSE LET vis2 == Append(vis, t) IN
       CASE d.kind = "array" -> ChkJSLike(lang, d.elem, vis2)
         [] d.kind = "iface" -> TRUE
         [] d.kind = "map" ->
              LET kd == TypeTab[d.key]
                  sd == IF FixMapKey THEN kd ELSE d       \* the code tests t.Implements(...) on the map type
              IN /\ \/ kd.kind = "string"
                    \/ Between(kd.kind, "bool", "complex128")
                    \/ Has(sd, "Stringer")
                    \/ Has(sd, "EnvStringer")
                 /\ ChkJSLike(lang, d.elem, vis2)
         [] d.kind = "ptr" -> ChkJSLike(lang, d.elem, vis2)
         [] d.kind = "slice" -> ChkJSLike(lang, d.elem, vis2)
         [] d.kind = "struct" -> \A i \in 1..Len(d.fields) : ChkJSLike(lang, d.fields[i], vis2)
         [] OTHER -> FALSE

CheckShow(a, t) ==
  LET d == TypeTab[t] IN
  IF d.id = "any" THEN TRUE                                               \* t == emptyInterfaceType
  ELSE CASE a \in StringCtxs ->
              \/ d.kind = "string"
              \/ Between(d.kind, "bool", "complex128")
              \/ (a = "CSS string" /\ d.id = "bytes")
              \/ Has(d, "Stringer") \/ Has(d, "EnvStringer") \/ Has(d, "error")
         [] a = "HTML" ->
              \/ d.kind = "string"
              \/ Between(d.kind, "bool", "complex128")
              \/ d.id = "bytes"
              \/ Has(d, "Stringer") \/ Has(d, "EnvStringer")
              \/ Has(d, "HTMLStringer") \/ Has(d, "HTMLEnvStringer") \/ Has(d, "error")
         [] a = "CSS" ->
              \/ d.kind = "string"
              \/ Between(d.kind, "int", "float64")
              \/ d.id = "bytes"
              \/ Has(d, "Stringer") \/ Has(d, "EnvStringer")
              \/ Has(d, "CSSStringer") \/ Has(d, "CSSEnvStringer") \/ Has(d, "error")
         [] a = "JavaScript" -> ChkJSLike("JS", t, <<>>)
         [] a = "JSON" -> ChkJSLike("JSON", t, <<>>)
         [] a = "Markdown" ->
              \/ d.kind = "string"
              \/ Between(d.kind, "bool", "complex128")
              \/ Has(d, "Stringer") \/ Has(d, "EnvStringer")
              \/ Has(d, "MarkdownStringer") \/ Has(d, "MarkdownEnvStringer")
              \/ Has(d, "HTMLStringer") \/ Has(d, "HTMLEnvStringer") \/ Has(d, "error")

\* ---- the dynamic table: toString and showIn*; result "ok" or "cannotshow"
ToStringKinds == {"invalid", "bool", "int", "int8", "int16", "int32", "int64", "uint", "uint8", "uint16", "uint32", "uint64",
                  "float32", "float64", "string", "complex64", "complex128"}
                 \cup (IF FixUintptr THEN {"uintptr"} ELSE {})
ToStr(d) == IF d.kind \in ToStringKinds THEN "ok" ELSE "cannotshow"

AnyStringer(d) == Has(d, "Stringer") \/ Has(d, "EnvStringer") \/ Has(d, "error")
ShowInText(d) == IF AnyStringer(d) THEN "ok" ELSE ToStr(d)             \* also showInTag, showInJSString, code blocks
ShowInHTML(d) ==
  IF \/ d.id = "HTML" \/ Has(d, "HTMLStringer") \/ Has(d, "HTMLEnvStringer")
     \/ Has(d, "Stringer") \/ Has(d, "EnvStringer") \/ d.id = "bytes" \/ Has(d, "error")
  THEN "ok" ELSE ToStr(d)                                              \* native.Markdown without converter: toString
ShowInAttribute(d) ==
  IF AnyStringer(d) \/ d.id = "HTML" \/ Has(d, "HTMLStringer") \/ Has(d, "HTMLEnvStringer") THEN "ok" ELSE ToStr(d)
ShowInCSS(d) ==
  IF \/ d.id = "CSS" \/ Has(d, "CSSStringer") \/ Has(d, "CSSEnvStringer")
     \/ AnyStringer(d) \/ d.id = "bytes" \/ d.kind = "string"
  THEN "ok" ELSE ToStr(d)
ShowInCSSString(d) == IF AnyStringer(d) \/ d.id = "bytes" THEN "ok" ELSE ToStr(d)
ShowInMarkdown(d) ==
  IF \/ d.id = "Markdown" \/ Has(d, "MarkdownStringer") \/ Has(d, "MarkdownEnvStringer")
     \/ d.id = "HTML" \/ Has(d, "HTMLStringer") \/ Has(d, "HTMLEnvStringer") \/ AnyStringer(d)
  THEN "ok" ELSE ToStr(d)
ShowInURL(a, d) ==
  IF FixMdURL /\ a = "Markdown" /\ (Has(d, "MarkdownStringer") \/ Has(d, "MarkdownEnvStringer")) THEN "ok"
  ELSE ShowInHTML(d)

AllOk(S) == IF \A x \in S : x = "ok" THEN "ok" ELSE "cannotshow"

RECURSIVE ShowInJSLike(_, _, _, _)
\* showInJS / showInJSON.  z = the value is the zero value of its type (nil slice/map/pointer/interface);
\* otherwise the driver's value is non-nil with one element.  vis guards the recursive type Rec, whose
\* value ends in a nil pointer.
ShowInJSLike(lang, t, z, vis) ==
  LET d == TypeTab[t] IN
  IF d.kind = "iface" THEN (IF z \/ d.dyn = "" THEN "ok" ELSE ShowInJSLike(lang, d.dyn, FALSE, vis))   \* case nil: "null"
  ELSE IF \/ d.id = lang \/ Has(d, lang \o "Stringer") \/ Has(d, lang \o "EnvStringer")
          \/ d.id = "time" \/ Has(d, "error")
       THEN "ok"
  ELSE IF InSeq(t, vis) THEN "ok"
  ELSE LET vis2 == Append(vis, t) IN
       CASE Between(d.kind, "bool", "float64") \/ d.kind = "string" -> "ok"
         [] d.kind = "slice" ->
              IF d.id = "bytes" \/ z THEN "ok" ELSE ShowInJSLike(lang, d.elem, FALSE, vis2)
         [] d.kind = "array" -> ShowInJSLike(lang, d.elem, z, vis2)
         [] d.kind = "ptr" -> IF z THEN "ok" ELSE ShowInJSLike(lang, d.elem, FALSE, vis2)
         [] d.kind = "struct" ->
              AllOk({ShowInJSLike(lang, d.fields[i], z, vis2) : i \in 1..Len(d.fields)})
         [] d.kind = "map" ->
              IF z THEN "ok"
              ELSE LET k0 == TypeTab[d.key]
                       kd == IF k0.kind = "iface" THEN TypeTab[k0.dyn] ELSE k0      \* key.Interface().(type)
                       ks == IF Has(kd, "Stringer") \/ Has(kd, "EnvStringer") THEN "ok" ELSE ToStr(kd)
                   IN AllOk({ks, ShowInJSLike(lang, d.elem, FALSE, vis2)})
         [] OTHER -> "ok"          \* JS: "undefined/* scriggo: cannot represent ... */", JSON: "null" - no error

Render(a, url, t, z) ==
  LET d == TypeTab[t] IN
  IF url THEN ShowInURL(a, d)
  ELSE CASE a \in {"text", "tag", "JavaScript string", "JSON string", "tab code block", "spaces code block"} -> ShowInText(d)
         [] a = "HTML" -> ShowInHTML(d)
         [] a \in {"quoted attribute", "unquoted attribute"} -> ShowInAttribute(d)
         [] a = "CSS" -> ShowInCSS(d)
         [] a = "CSS string" -> ShowInCSSString(d)
         [] a = "JavaScript" -> ShowInJSLike("JS", t, z, <<>>)
         [] a = "JSON" -> ShowInJSLike("JSON", t, z, <<>>)
         [] a = "Markdown" -> ShowInMarkdown(d)

\* ---- the property on the model, for one cell
ModelB(c, t) == CheckShow(CtxTab[c][1], t)
ModelR(c, t, z) == Render(CtxTab[c][1], CtxTab[c][2], t, z) = "cannotshow"
ModelBoxB(c, box) == CheckShow(CtxTab[c][1], BoxType(box))
=============================================================================
